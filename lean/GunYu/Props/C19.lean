/-
  C19 — Cluster replay reaches each key's slot owner and keeps per-key order.

  Property theorems only (helper lemmas: Proofs/ClusterRoute.lean; model:
  Model/ClusterRoute.lean). Quantifier: all slot layouts (`sv`, `slots`
  arbitrary), all command streams and batches (`put`/`dispatch` events), all
  interleavings of the per-node pipelines and all migration schedules
  (MOVED, ASK, importing/migrating, between or during batches) = all event
  lists `evs` accepted by the transition system, by induction on `evs`.
-/
import GunYu.Model.ClusterRoute
import GunYu.Model.ClusterSender
import GunYu.Model.ClusterSegments
import GunYu.Proofs.ClusterSegments
import GunYu.Proofs.ClusterRoute

namespace GunYu.Props.C19
open GunYu GunYu.ClusterRoute

/-! ### plain batches (Batch.Exec, batch2 Dispatch/Receive) -/

/-- Full statement: in every segment (run between two reported restarts) the
    executed commands of each key are in strictly increasing source order — no
    inversion and no command twice; a retry (new segment) may repeat. -/
def per_key_order_stmt : Prop :=
  ∀ (slotOf : Key → Slot) (sv : Srv) (slots : Slot → Node) (evs : List Ev) (s : St),
    run slotOf (init sv slots) evs = .ok s →
    ∀ seg ∈ s.hist ++ [s.log], ∀ k, (keyLog seg k).Pairwise (· < ·)

/-- Proved part: the statement for every schedule in which no node queue that
    still holds an unfollowed redirect of a key starts serving that key again
    (`QuietRun`: no A→B→A ping-pong of a slot inside one batch). -/
theorem per_key_order_partial (slotOf : Key → Slot) (sv : Srv) (slots : Slot → Node)
    (evs : List Ev) (s : St)
    (hrun : run slotOf (init sv slots) evs = .ok s)
    (hq : QuietRun slotOf (init sv slots) evs) :
    ∀ seg ∈ s.hist ++ [s.log], ∀ k, (keyLog seg k).Pairwise (· < ·) := by
  have hi := Inv_run slotOf evs _ s (Inv_init slotOf sv slots) hq hrun
  intro seg hseg k
  simp only [List.mem_append, List.mem_singleton] at hseg
  cases hseg with
  | inl h => exact hi.histOk seg h k
  | inr h => subst h; exact keyLog_sorted_of_seq slotOf hi k

/-- stronger form used for the next step: whatever of a key is still queued or
    awaiting a redirect is later in source order than everything executed, and
    is itself queued in source order ("one key ↦ one node queue at a time"). -/
theorem per_key_pending_after_executed (slotOf : Key → Slot) (sv : Srv) (slots : Slot → Node)
    (evs : List Ev) (s : St)
    (hrun : run slotOf (init sv slots) evs = .ok s)
    (hq : QuietRun slotOf (init sv slots) evs) (k : Key) :
    (keyLog s.log k ++ outIds s k).Pairwise (· < ·) :=
  (Inv_run slotOf evs _ s (Inv_init slotOf sv slots) hq hrun).sorted k

/-- every command of an acknowledged batch was executed — by the owner of its
    slot at that moment, or by the importing node under ASKING -/
theorem redirect_never_loses (slotOf : Key → Slot) (sv : Srv) (slots : Slot → Node)
    (evs : List Ev) (s : St)
    (hrun : run slotOf (init sv slots) evs = .ok s) :
    ∀ b ∈ s.acked, ∀ cs, (b, cs) ∈ s.batches → ∀ c ∈ cs,
      ∃ e ∈ s.log, e.cmd = c ∧ OwnedExec e := by
  have hi := Inv2_run slotOf evs _ s (Inv2_init sv slots) hrun
  intro b hb cs hm c hc
  obtain ⟨e, he, h1⟩ := hi.acked b hb cs hm c hc
  exact ⟨e, he, h1, hi.owned e he⟩

/-- … or the batch returns an error: a dispatched command that has not been
    executed is still queued, still awaiting its redirect, or its batch carries
    an error answer — and in each of these cases `recv bid ok` is not a step. -/
theorem unexecuted_blocks_ok (slotOf : Key → Slot) (sv : Srv) (slots : Slot → Node)
    (evs : List Ev) (s : St)
    (hrun : run slotOf (init sv slots) evs = .ok s)
    (b : Nat) (cs : List Cmd) (hm : (b, cs) ∈ s.batches) (c : Cmd) (hc : c ∈ cs)
    (hne : ¬ ∃ e ∈ s.log, e.cmd = c) :
    ∀ s', step slotOf s (.recv b true) ≠ .ok s' := by
  have hi := Inv2_run slotOf evs _ s (Inv2_init sv slots) hrun
  intro s' h
  simp only [step, stepRecv, if_true] at h
  split at h
  · exact nomatch h
  split at h
  · exact nomatch h
  split at h
  · exact nomatch h
  split at h
  · exact nomatch h
  rename_i h1 h2 h3 h4
  simp only [Decidable.not_not] at h2 h3
  rcases hi.comp b cs hm c hc with h0 | ⟨x, hx, _, hxb⟩ | ⟨r, hr, _, hrb⟩ | hbad
  · exact hne h0
  · exact h2 x hx hxb
  · exact h3 r hr hrb
  · exact h4 hbad

/-- each execution, in every segment, happened at the slot's owner or at the
    importing node under ASKING (protocol level "owner at that time") -/
theorem executed_at_owner (slotOf : Key → Slot) (sv : Srv) (slots : Slot → Node)
    (evs : List Ev) (s : St)
    (hrun : run slotOf (init sv slots) evs = .ok s) :
    ∀ seg ∈ s.hist ++ [s.log], ∀ e ∈ seg, OwnedExec e := by
  have hi := Inv2_run slotOf evs _ s (Inv2_init sv slots) hrun
  intro seg hseg e he
  simp only [List.mem_append, List.mem_singleton] at hseg
  cases hseg with
  | inl h => exact hi.ownedH seg h e he
  | inr h => subst h; exact hi.owned e he

/-! ### transaction batcher -/

/-- in transactional mode no transaction (hence none of its commands) is
    executed twice within one run, whatever redirects and migrations happen -/
theorem txn_mode_no_double_execution (slotOf : Key → Slot) (sv : Srv) (slots : Slot → Node)
    (evs : List TEv) (s : TSt)
    (hrun : trun slotOf (tinit sv slots) evs = .ok s) :
    (s.log.map (·.tid)).Nodup ∧
    ∀ e ∈ s.log, ∃ t ∈ s.txns, t.tid = e.tid ∧ t.cmds = e.cmds := by
  have hi := TInv_run slotOf evs _ s (TInv_init sv slots) hrun
  refine ⟨hi.nodup, ?_⟩
  intro e he
  obtain ⟨t, ht, h1, _, h3⟩ := hi.logged e he
  exact ⟨t, ht, h1, h3⟩

/-- an acknowledged transaction was executed (as a whole, once) by the owner
    of its slot or by the importing node under ASKING -/
theorem txn_redirect_never_loses (slotOf : Key → Slot) (sv : Srv) (slots : Slot → Node)
    (evs : List TEv) (s : TSt)
    (hrun : trun slotOf (tinit sv slots) evs = .ok s) :
    ∀ tid ∈ s.acked, ∃ e ∈ s.log, e.tid = tid ∧ OwnedTExec e := by
  have hi := TInv_run slotOf evs _ s (TInv_init sv slots) hrun
  intro tid h
  obtain ⟨e, he, h1⟩ := hi.acked tid h
  exact ⟨e, he, h1, hi.owned e he⟩

/-- sequential use (Exec: one transaction at a time): transactions take effect
    in source order -/
theorem txn_sequential_order (slotOf : Key → Slot) (sv : Srv) (slots : Slot → Node)
    (evs : List TEv) (s : TSt)
    (hrun : trun slotOf (tinit sv slots) evs = .ok s)
    (hseq : TSeqRun slotOf (tinit sv slots) evs) :
    (s.log.map (·.tid)).Pairwise (· < ·) :=
  (TSeq_run slotOf evs _ s (TInv_init sv slots) (TSeq_init sv slots) hseq hrun).sorted

/-! ### non-vacuity: concrete runs (slotOf = id, three nodes) -/

def sv0 : Srv := ⟨fun _ => 0, fun _ => none, fun _ => false⟩

/-- a multi-node batch with a stale map, MOVED, ASK(+ASKING), a migration
    finishing *during* the batch, redirects followed while the node keeps
    answering: accepted, quiet, per-key order kept, batch acknowledged -/
def evsA : List Ev := [
  .mig (.assign 5 1), .mig (.setMigrating 6 2), .mig (.migrateKey 6),
  .put 0 ⟨1, 5⟩ 0, .put 0 ⟨2, 6⟩ 0, .put 0 ⟨3, 5⟩ 0, .put 0 ⟨4, 6⟩ 0, .dispatch 0,
  .srv 0 ⟨1, 5⟩ false (.moved 1),
  .srv 0 ⟨2, 6⟩ false (.ask 2),
  .srv 1 ⟨1, 5⟩ false .exec,
  .srv 0 ⟨3, 5⟩ false (.moved 1),
  .mig (.finish 6),
  .srv 0 ⟨4, 6⟩ false (.moved 2),
  .srv 2 ⟨2, 6⟩ true .exec,
  .srv 1 ⟨3, 5⟩ false .exec,
  .srv 2 ⟨4, 6⟩ false .exec,
  .recv 0 true]

example : (run id (init sv0 (fun _ => 0)) evsA).toOption.map
    (fun s => (keyLog s.log 5, keyLog s.log 6, s.acked)) = some ([1, 3], [2, 4], [0]) := by decide
example : QuietRun id (init sv0 (fun _ => 0)) evsA := quietRun_of_B _ _ _ (by decide)

/-- an error answer (TRYAGAIN), the batch fails, the sender retries: the
    executed suffix is repeated in a new segment -/
def evsR : List Ev := [
  .put 0 ⟨1, 5⟩ 0, .put 0 ⟨2, 5⟩ 0, .dispatch 0,
  .srv 0 ⟨1, 5⟩ false .err, .srv 0 ⟨2, 5⟩ false .exec, .recv 0 false, .restart,
  .put 0 ⟨1, 5⟩ 0, .put 0 ⟨2, 5⟩ 0, .dispatch 0,
  .srv 0 ⟨1, 5⟩ false .exec, .srv 0 ⟨2, 5⟩ false .exec, .recv 0 true]

example : (run id (init sv0 (fun _ => 0)) evsR).toOption.map
    (fun s => ((s.hist ++ [s.log]).map (fun seg => keyLog seg 5), s.acked)) = some ([[2], [1, 2]], [0]) := by
  decide
example : QuietRun id (init sv0 (fun _ => 0)) evsR := quietRun_of_B _ _ _ (by decide)

/-- acknowledging a batch whose redirect was not followed is not a step -/
example : (run id (init sv0 (fun _ => 0))
    [.mig (.assign 5 1), .put 0 ⟨1, 5⟩ 0, .dispatch 0, .srv 0 ⟨1, 5⟩ false (.moved 1), .recv 0 true]).toOption.isNone := by
  decide

/-- the repaired client never routes two unfinished commands of a slot to
    different node queues: a put that would (map refreshed in between) is not a
    step of the model (D21 same batch, D22 batch still in flight) -/
example : (run id (init sv0 (fun _ => 0))
    [.mig (.assign 5 1), .put 0 ⟨1, 5⟩ 0, .refreshNow, .put 0 ⟨2, 5⟩ 1]).toOption.isNone := by decide
example : (run id (init sv0 (fun _ => 0))
    [.mig (.assign 5 1), .put 0 ⟨1, 5⟩ 0, .dispatch 0, .refreshNow, .put 1 ⟨2, 5⟩ 1]).toOption.isNone := by
  decide

/-- the `QuietRun` hypothesis is needed: slot 0 is owned by node 1, the stale
    client routes to node 0, node 0 answers MOVED, the slot comes back to node
    0 before node 0 reads the second command: 2 takes effect before 1. -/
def evsPingPong : List Ev := [
  .put 0 ⟨1, 0⟩ 0, .put 0 ⟨2, 0⟩ 0, .dispatch 0,
  .srv 0 ⟨1, 0⟩ false (.moved 1),
  .mig (.assign 0 0),
  .srv 0 ⟨2, 0⟩ false .exec,
  .srv 1 ⟨1, 0⟩ false (.moved 0),
  .srv 0 ⟨1, 0⟩ false .exec,
  .recv 0 true]

def svB : Srv := ⟨fun _ => 1, fun _ => none, fun _ => false⟩

theorem pingpong_inverts :
    (run id (init svB (fun _ => 0)) evsPingPong).toOption.map (fun s => keyLog s.log 0) = some [2, 1] := by
  decide

/-- the full statement (without `QuietRun`) is false in the model: this is a
    limit of any pipelining cluster client, not of this one -/
theorem per_key_order_stmt_false : ¬ per_key_order_stmt := by
  intro h
  cases hr : run id (init svB (fun _ => 0)) evsPingPong with
  | error m =>
    have := pingpong_inverts
    rw [hr] at this
    exact nomatch this
  | ok s =>
    have h1 := pingpong_inverts
    rw [hr] at h1
    simp only [Except.toOption, Option.map_some, Option.some.injEq] at h1
    have h2 := h id svB (fun _ => 0) evsPingPong s hr s.log (by simp) 0
    rw [h1] at h2
    revert h2
    decide

example : ¬ QuietRun id (init svB (fun _ => 0)) evsPingPong := by
  intro hq
  cases hr : run id (init svB (fun _ => 0)) evsPingPong with
  | error m => have := pingpong_inverts; rw [hr] at this; exact nomatch this
  | ok s =>
    have h1 := pingpong_inverts
    rw [hr] at h1
    simp only [Except.toOption, Option.map_some, Option.some.injEq] at h1
    have h2 := per_key_order_partial id svB (fun _ => 0) evsPingPong s hr hq s.log (by simp) 0
    rw [h1] at h2
    revert h2
    decide

/-! transactions: ASK on a fully transferred slot, retried with ASKING, executed once -/

def svT : Srv := ⟨fun _ => 0, fun s => if s = 5 then some 2 else none, fun k => k == 5⟩

def tevsA : List TEv := [
  .begin 1 [⟨1, 5⟩, ⟨2, 5⟩] 0,
  .srv 0 1 false (.ask 2),
  .srv 2 1 true .exec,
  .recv 1 true,
  .mig (.finish 5),
  .begin 3 [⟨3, 5⟩] 0,          -- stale map
  .srv 0 3 false (.moved 2),
  .srv 2 3 false .exec,
  .recv 3 true]

example : (trun id (tinit svT (fun _ => 0)) tevsA).toOption.map
    (fun s => (s.log.map (fun e => (e.tid, e.node, e.asking)), s.acked)) =
    some ([(1, 2, true), (3, 2, false)], [3, 1]) := by decide

/-- a committed transaction is never answered again: a second dispatch of it
    (what D20 did with another transaction's MOVED) is not a step -/
example : (trun id (tinit svT (fun _ => 0))
    [.begin 1 [⟨1, 6⟩] 0, .srv 0 1 false .exec, .srv 1 1 false (.moved 0)]).toOption.isNone := by decide

example : TSeqRun id (tinit svT (fun _ => 0)) tevsA := tseqRun_of_B _ _ _ (by decide)

/-! ### sender-level retry / escalation (syncer/output.go sendFunc) -/

open GunYu.ClusterSender in
/-- transactional mode with a cluster target: a batch that came back with
    MOVED/ASK/CROSSSLOT is reported at once (restart / break) and is NOT sent
    again — whatever the nodes accepted of it executed exactly once in this run -/
theorem txn_cluster_redirect_sent_once (p : Bool) (e : SErr) (he : e ≠ .other)
    (rest : List (Option SErr)) (r : Nat) :
    sendFunc ⟨true, p⟩ (some e :: rest) r = (1, direct e) := by
  cases e with
  | other => exact absurd rfl he
  | redirect => simp [sendFunc]
  | crossslot => simp [sendFunc]

open GunYu.ClusterSender in
/-- transactional cluster target, BLOCKING mode: whatever the error class
    (redirect, cross-slot, connection error, error reply), a batch is sent at
    most once — no command of it can execute twice within the run -/
theorem txn_blocking_sent_once (outs : List (Option SErr)) : (sendFunc ⟨true, false⟩ outs 0).1 ≤ 1 := by
  cases outs with
  | nil => simp [sendFunc]
  | cons o rest =>
    cases o with
    | none => simp [sendFunc]
    | some e => cases e <;> simp [sendFunc]

open GunYu.ClusterSender in
/-- NOT true for transactional + PIPELINED mode and a non-redirect error returned
    by Dispatch itself: `sendFunc` dispatches the batch again. That no command reaches a
    node twice all the same is Props/C19Exec.lean `one_node_batch_submitted_once`
    (with `txn_batch_one_node`): a failed Dispatch of a one-node batch has submitted nothing -/
example : sendFunc ⟨true, true⟩ [some .other, none] 0 = (2, .ok) := by decide

open GunYu.ClusterSender in
/-- errors read by the pipelined receiver close the run without any re-send;
    a transactional cluster run reports redirects as restart, cross-slot as break -/
theorem recv_path_reports (p : Bool) : recvFinal ⟨true, p⟩ .redirect = .typology ∧
    recvFinal ⟨true, p⟩ .crossslot = .brk ∧ ∀ m, recvFinal m .other = .other := by
  refine ⟨rfl, rfl, fun m => rfl⟩

open GunYu.ClusterSender in
/-- once the pipelined receiver has seen a failed batch nothing more is sent (in particular no
    resume position covering the commands of the failed batch) and the run reports the receiver's
    error class, not a generic one -/
theorem recv_failed_sends_nothing (m : SMode) (e : SErr) (outs : List (Option SErr)) :
    sendFuncR m (some e) outs = (0, recvFinal m e) ∧ sendFuncR m none outs = sendFunc m outs 0 := ⟨rfl, rfl⟩

open GunYu.ClusterSender in
/-- in every mode a failing batch is sent at most three times before the error
    is reported (each re-send is a repeated suffix, a new segment of C19's log) -/
theorem sender_sends_at_most_three (m : SMode) (outs : List (Option SErr)) :
    (sendFunc m outs 0).1 ≤ 3 := by
  have := sendFunc_bound m outs 0
  omega

open GunYu.ClusterSender in
example : sendFunc ⟨false, false⟩ [some .redirect, some .redirect, some .redirect, none] 0 = (3, .typology) := by
  decide
open GunYu.ClusterSender in
example : sendFunc ⟨false, false⟩ [some .redirect, none] 0 = (2, .ok) := by decide
open GunYu.ClusterSender in
example : sendFunc ⟨true, true⟩ [some .crossslot, none] 0 = (1, .brk) := by decide

/-- bridge to the composition below: in a quiet run the commands of an ACKNOWLEDGED batch
    appear, for every key, in the segment's execution log of that key in their put (source)
    order — complete and in order (`Complete` of Model/ClusterSegments), while that log itself is
    strictly increasing (`per_key_order_partial`: nothing twice, `AppOK`) -/
theorem acked_batch_executed_in_order (slotOf : Key → Slot) (sv : Srv) (slots : Slot → Node)
    (evs : List Ev) (s : St)
    (hrun : run slotOf (init sv slots) evs = .ok s)
    (hq : QuietRun slotOf (init sv slots) evs) :
    ∀ b ∈ s.acked, ∀ cs, (b, cs) ∈ s.batches → ∀ k, (idsC cs k).Sublist (keyLog s.log k) := by
  have hi := Inv_run slotOf evs _ s (Inv_init slotOf sv slots) hq hrun
  have hb := BatchesSorted_run slotOf evs _ s (Inv_init slotOf sv slots)
    (fun b cs hm => by simp [init] at hm) hq hrun
  intro b hba cs hm k
  apply sorted_subset_sublist _ _ (hb b cs hm k) (keyLog_sorted_of_seq slotOf hi k)
  intro a ha
  simp only [idsC, List.mem_map, List.mem_filter] at ha
  obtain ⟨c, ⟨hc, hk⟩, rfl⟩ := ha
  obtain ⟨e, he, hec, _⟩ := redirect_never_loses slotOf sv slots evs s hrun b hba cs hm c hc
  simp only [keyLog, List.mem_map, List.mem_filter]
  exact ⟨e, ⟨he, by rw [hec]; exact hk⟩, by rw [hec]⟩

/-! ### composition over sender segments (blocking modes): reconnects, hand-overs, restarts

    Model/ClusterSegments.lean. An execution = any list of segments (each: the stored position
    is read from the target, batches are sent from there, each batch is acknowledged completely
    or cut at any point, the segment ends cleanly / on a receiver error / by a close / by a
    hand-over). (Props/C19Exec.lean DERIVES the guards and both named assumptions below from an
    operational model of the batch attempt and restates (1)-(2) for its runs with the cluster
    hypothesis only.) What the theorems HERE assume of every event (the guards of `step`, i.e. the
    hypothesis `run … = some s`) is the content of the per-segment theorems above — `AppOK`:
    within its range, nothing twice (`per_key_order_partial`); `Complete`: an acknowledged batch
    executed everything, per group in order (`acked_batch_executed_in_order`,
    `unexecuted_blocks_ok`) — plus two NAMED assumptions: `Disciplined` (the blocking discipline:
    a batch that was not acknowledged stores no position) and, where stated, `PrefixRun` (fault
    model: a cut batch executes per group a prefix of its part). What is DERIVED is the
    composition: restart-from-stored, the position arithmetic, no skip across replays, the
    effective stream. Quantifier: every stream length `n`, every grouping `grp`, every list of
    segments / events, any number, any cut inside a batch, position-only flushes (`q = cur`). -/

open GunYu.ClusterSegments in
/-- (1) the per-group log on the target — the real one, every execution, in order — NEVER SKIPS:
    directly after a command `x` of a group comes either an earlier-or-equal one (a replay jumps
    back) or the group's next command; no command of the group lies strictly between. A replay
    may repeat a suffix, it never leaves a gap. -/
theorem segments_never_skip (n : Nat) (grp : Nat → Nat) (evs : List ClusterSegments.Ev) (s : Tgt)
    (h : ClusterSegments.run n grp {} evs = some s) (hd : Disciplined evs)
    (hp : PrefixRun n grp {} evs) (g : Nat) :
    Adj (NoSkipRel grp g) (projG grp g s.log) :=
  (KInv_run n grp evs _ s (SInv_init n grp) (KInv_init grp) hd hp h).adj g

open GunYu.ClusterSegments in
/-- (1) whatever happened before — any number of segments, cuts, replays — the target's
    EFFECTIVE stream (the last execution of every command: the final state for overwriting
    commands) below the sender's position, and below the stored position, is per group exactly
    the specification prefix, in order -/
theorem segments_effective_prefix (n : Nat) (grp : Nat → Nat) (sgs : List Segment) (s : Tgt)
    (h : runSegments n grp {} sgs = some s) (hd : Disciplined (sgs.flatMap Segment.events)) (g : Nat) :
    effBelow grp s.log s.cur g = specBelow grp s.cur g ∧
    effBelow grp s.log s.stored g = specBelow grp s.stored g := by
  have hi := SInv_run n grp _ _ s (SInv_init n grp) hd h
  exact ⟨hi.eff g, effBelow_mono grp s.log s.cur s.stored g hi.le1 (hi.eff g)⟩

open GunYu.ClusterSegments in
/-- (1) under the fault model the SET of executed commands is per group a prefix of the
    specification stream at every moment -/
theorem segments_executed_downward_closed (n : Nat) (grp : Nat → Nat) (evs : List ClusterSegments.Ev)
    (s : Tgt) (h : ClusterSegments.run n grp {} evs = some s) (hd : Disciplined evs)
    (hp : PrefixRun n grp {} evs) : DownClosed grp s.log :=
  DownClosed_run n grp evs _ s (SInv_init n grp) (fun _ hi => absurd hi List.not_mem_nil) hd hp h

open GunYu.ClusterSegments in
/-- (1) replay only re-executes what was not yet acknowledged-and-stored: every batch, in
    every segment, executes commands at or above the position stored at that moment -/
theorem segments_replay_only_unstored (n : Nat) (grp : Nat → Nat) (evs : List ClusterSegments.Ev)
    (s1 s2 : Tgt) (q : Nat) (o : Outcome) (hd : Disciplined evs)
    (h1 : ClusterSegments.run n grp {} evs = some s1)
    (h2 : ClusterSegments.step n grp s1 (.batch q o) = some s2) :
    ∃ app, s2.log = s1.log ++ app ∧ ∀ i ∈ app, s1.stored ≤ i :=
  batch_above_stored n grp (SInv_run n grp _ _ s1 (SInv_init n grp) hd h1) h2

open GunYu.ClusterSegments in
/-- (1) without a replay (one segment, every batch acknowledged) nothing is executed twice -/
theorem segments_no_replay_no_duplicate (n : Nat) (grp : Nat → Nat) (evs : List ClusterSegments.Ev)
    (s : Tgt) (ho : OnlyAcked evs) (h : ClusterSegments.run n grp {} evs = some s) : s.log.Nodup :=
  (no_replay_nodup n grp evs _ s List.nodup_nil (fun _ hi => absurd hi List.not_mem_nil) ho h).1

open GunYu.ClusterSegments in
/-- (2) the stored position never moves backwards across events and segments, never exceeds
    what was acknowledged, and everything below what was acknowledged has been executed -/
theorem segments_position_sound (n : Nat) (grp : Nat → Nat) (evs1 evs2 : List ClusterSegments.Ev)
    (s1 s2 : Tgt) (hd1 : Disciplined evs1) (hd2 : Disciplined evs2)
    (h1 : ClusterSegments.run n grp {} evs1 = some s1) (h2 : ClusterSegments.run n grp s1 evs2 = some s2) :
    s1.stored ≤ s2.stored ∧ s2.stored ≤ s2.acked ∧ s2.acked ≤ n ∧ ∀ i, i < s2.acked → i ∈ s2.log := by
  have hi1 := SInv_run n grp _ _ s1 (SInv_init n grp) hd1 h1
  have hi2 := SInv_run n grp _ _ s2 hi1 hd2 h2
  exact ⟨stored_mono_run n grp evs2 s1 s2 hi1 hd2 h2, Nat.le_trans hi2.le1 hi2.le2, hi2.le3, hi2.inlog⟩

open GunYu.ClusterSegments in
/-- (3) after a final CLEAN segment (every batch acknowledged, the last one ending at the end of
    the stream) the target's effective stream is, per group, exactly the specification -/
theorem segments_clean_final_equals_spec (n : Nat) (grp : Nat → Nat) (sgs : List Segment)
    (last : Segment) (s : Tgt)
    (h : runSegments n grp {} (sgs ++ [last]) = some s)
    (hd : Disciplined ((sgs ++ [last]).flatMap Segment.events))
    (hc : last.ending = .clean) (hw : last.wellFormed)
    (hn : last.batches.getLast?.map (·.1) = some n) (g : Nat) :
    (keepLast s.log).filter (fun i => grp i == g) = (List.range n).filter (fun i => grp i == g) := by
  have hi := SInv_run n grp _ _ s (SInv_init n grp) hd h
  -- the last segment brought the sender to n
  have hend : s.cur = n := by
    unfold runSegments at h
    rw [List.flatMap_append, run_append] at h
    cases h1 : ClusterSegments.run n grp {} (sgs.flatMap Segment.events) with
    | none => rw [h1] at h; exact nomatch h
    | some s1 =>
      rw [h1] at h
      simp only [Option.bind_some, List.flatMap_cons, List.flatMap_nil, List.append_nil,
        Segment.events, ClusterSegments.run, ClusterSegments.step] at h
      have := run_ok_batches_cur n grp last.batches _ s (hw.1 hc) h
      rw [this, hn]; rfl
  have he := hi.eff g
  rw [hend] at he
  unfold effBelow specBelow at he
  rw [← he]
  apply List.filter_congr
  intro i hik
  have : i < n := hi.bound i ((mem_keepLast i s.log).mp hik)
  simp [this]

/-! the statement without the blocking discipline, and why it is kept apart -/

open GunYu.ClusterSegments in
/-- full statement, for ANY sender (no discipline assumed): the stored position is covered by
    executed commands -/
def stored_position_covered_stmt : Prop :=
  ∀ (n : Nat) (grp : Nat → Nat) (evs : List ClusterSegments.Ev) (s : Tgt),
    ClusterSegments.run n grp {} evs = some s → ∀ i, i < s.stored → i ∈ s.log

open GunYu.ClusterSegments in
/-- blocking discipline: proved -/
theorem stored_position_covered_blocking (n : Nat) (grp : Nat → Nat) (evs : List ClusterSegments.Ev)
    (s : Tgt) (hd : Disciplined evs) (h : ClusterSegments.run n grp {} evs = some s) :
    ∀ i, i < s.stored → i ∈ s.log := by
  have hi := SInv_run n grp _ _ s (SInv_init n grp) hd h
  intro i hlt
  exact hi.inlog i (by have := hi.le1; have := hi.le2; omega)

open GunYu.ClusterSegments in
/-- without it (pipelined modes, C19-F2; transactional cluster mode before 5c65a57): a
    cut batch that stores its position all the same — the stored position covers a command that
    never executed -/
theorem stored_position_covered_pipelined_false : ¬ stored_position_covered_stmt := by
  intro h
  have := h 2 (fun _ => 0) [.start, .batch 2 (.cut [1] true)]
    { log := [1], stored := 2, acked := 0, cur := 0 } (by decide) 0 (by decide)
  revert this
  decide

/-! non-vacuity: three segments — a receiver error in the middle of a batch, a hand-over, a
    clean one with a position-only flush — over two groups (even / odd positions), with an
    interleaved acknowledged batch -/

open GunYu.ClusterSegments in
def segsEx : List Segment := [
  { batches := [(2, .ok [0, 1] true), (5, .cut [2, 4] false)], ending := .receiverError },
  { batches := [(4, .ok [3, 2] false)], ending := .handOver },
  { batches := [(6, .ok [2, 3, 4, 5] false), (6, .ok [] true)], ending := .clean }]

open GunYu.ClusterSegments in
example : (runSegments 6 (· % 2) {} segsEx).map (fun s => (s.log, s.stored, s.acked, s.cur, keepLast s.log)) =
    some ([0, 1, 2, 4, 3, 2, 2, 3, 4, 5], 6, 6, 6, [0, 1, 2, 3, 4, 5]) := by decide
open GunYu.ClusterSegments in
example : ∀ sg ∈ segsEx, sg.wellFormed := by decide
open GunYu.ClusterSegments in
example : Disciplined (segsEx.flatMap Segment.events) := by
  intro e he
  simp [segsEx, Segment.events] at he
  rcases he with rfl | rfl | rfl | rfl | rfl | rfl | rfl | rfl <;> simp [cutStoresNothing]
open GunYu.ClusterSegments in
example : PrefixRun 6 (· % 2) {} (segsEx.flatMap Segment.events) := prefixRun_of_B _ _ _ _ (by decide)
open GunYu.ClusterSegments in
/-- the per-group logs of the example: group 0 = 0,2,4 | 2 | 2,4 — jumps back, never skips -/
example : (runSegments 6 (· % 2) {} segsEx).map (fun s => (projG (· % 2) 0 s.log, projG (· % 2) 1 s.log)) =
    some ([0, 2, 4, 2, 2, 4], [1, 3, 3, 5]) := by decide
open GunYu.ClusterSegments in
/-- a batch whose acknowledged part is not complete is not a step -/
example : (ClusterSegments.run 4 (· % 2) {} [.start, .batch 4 (.ok [0, 1, 3] true)]).isNone := by decide
open GunYu.ClusterSegments in
/-- a cut batch that executes out of order / with a gap inside a group (2 before 1, 0 missing)
    is a run of the bookkeeping model but NOT of the fault model: `PrefixRun` excludes it, and
    without it the log does skip — the hypothesis is needed -/
example : (ClusterSegments.run 3 (fun _ => 0) {} [.start, .batch 3 (.cut [2, 1] false), .batch 3 (.ok [0, 1, 2] true)]).isSome ∧
    ¬ PrefixCut (fun _ => 0) 0 3 [2, 1] := by decide

end GunYu.Props.C19
