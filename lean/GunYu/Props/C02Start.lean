/-
  C02Lives speaks of `StartsAt` (nothing stored, or the unique largest offset and
  its database). What the tool really calls is `GetCheckpoint`, modelled by
  `Target.startPoint` (the function the driver compares with the real `StartPoint`
  after every crash prefix): the largest offset over all hashes, and the databases
  attaining it THAT ALSO HOLD THE RUN ID. This file joins the two:

  `startPoint_of_uniqueMax` / `startPoint_of_noOffsets`: on a target whose hash
  table has one record per database (`KeysNodup`) and whose every stored offset has
  its run id (`RunIdInv`, C07 `cp_offset_has_runid`), `StartsAt` IS what
  `startPoint` returns -- exactly one database, never a tie, never "?".
  `lives_startPoint`: both side conditions hold in every state reachable by lives,
  so in `Lives` "the next life starts from what `StartsAt` says" means "from what
  the modelled `GetCheckpoint` returns".
-/
import GunYu.Props.C02Lives
import GunYu.Props.C07

namespace GunYu.Props.C02
open GunYu GunYu.Sender GunYu.Target

theorem getCp_of_mem (cps : List (Int × CpRec)) (hn : KeysNodup cps) (p : Int × CpRec) (hp : p ∈ cps) :
    getCp cps p.1 = p.2 := by
  unfold getCp; rw [lookup_of_mem_nodup cps hn p hp]; rfl

theorem mem_of_getCp_offset (cps : List (Int × CpRec)) (d o : Int)
    (h : (getCp cps d).offset = some o) : ∃ r, (d, r) ∈ cps ∧ getCp cps d = r := by
  cases hl : cps.lookup d with
  | none => simp [getCp, hl] at h
  | some r => exact ⟨r, lookup_some_mem cps d r hl, by simp [getCp, hl]⟩

theorem maxOffset_of_uniqueMax (cps : List (Int × CpRec)) (hn : KeysNodup cps) (d o : Int)
    (hu : UniqueMax cps d o) (ho : 0 ≤ o) : maxOffset cps = o := by
  obtain ⟨r, hr, hg⟩ := mem_of_getCp_offset cps d o hu.1
  have h1 : o ≤ maxOffset cps :=
    (le_maxOffset_iff cps o).mpr (Or.inr ⟨(d, r), hr, o, by rw [← hg]; exact hu.1, Int.le_refl _⟩)
  have h2 : ¬ (o + 1 ≤ maxOffset cps) := by
    intro h
    rcases (le_maxOffset_iff cps (o + 1)).mp h with h | ⟨p, hp, o', ho', hle⟩
    · omega
    · have hgp := getCp_of_mem cps hn p hp
      by_cases hpd : p.1 = d
      · have : (getCp cps d).offset = some o' := by rw [← hpd, hgp]; exact ho'
        rw [hu.1] at this; injection this with this; omega
      · have := hu.2 p.1 hpd o' (by rw [hgp]; exact ho')
        omega
  omega

/-- with one record per database, keeping exactly the records of database `d`
    (one of which exists) leaves `[d]` -/
theorem filter_unique (cps : List (Int × CpRec)) (hn : KeysNodup cps) (P : Int × CpRec → Bool)
    (d : Int) (hP : ∀ p ∈ cps, P p = true ↔ p.1 = d) (hd : ∃ r, (d, r) ∈ cps) :
    (cps.filter P).map (·.1) = [d] := by
  induction cps with
  | nil => obtain ⟨r, hr⟩ := hd; cases hr
  | cons q rest ih =>
    unfold KeysNodup at hn
    simp only [List.map_cons, List.nodup_cons] at hn
    by_cases hq : q.1 = d
    · -- q is the record of d; no other record has key d
      have hPq : P q = true := (hP q (List.mem_cons_self ..)).mpr hq
      have hrest : rest.filter P = [] := by
        apply List.filter_eq_nil_iff.mpr
        intro x hx hPx
        have hxd := (hP x (List.mem_cons_of_mem _ hx)).mp hPx
        exact hn.1 (List.mem_map.mpr ⟨x, hx, by rw [hxd, hq]⟩)
      simp [List.filter_cons, hPq, hrest, hq]
    · have hPq : P q = false := by
        cases h : P q with
        | false => rfl
        | true => exact absurd ((hP q (List.mem_cons_self ..)).mp h) hq
      simp only [List.filter_cons, hPq, Bool.false_eq_true, ↓reduceIte]
      apply ih hn.2 (fun p hp => hP p (List.mem_cons_of_mem _ hp))
      obtain ⟨r, hr⟩ := hd
      rcases List.mem_cons.mp hr with h | h
      · exact absurd (by rw [← h]) hq
      · exact ⟨r, h⟩

/-- **`StartsAt`'s unique maximum is what the modelled `GetCheckpoint` returns.** -/
theorem startPoint_of_uniqueMax (t : TState) (hn : KeysNodup t.cps) (hr : RunIdInv t) (d o : Int)
    (hu : UniqueMax t.cps d o) (ho : 0 ≤ o) : startPoint t = (o, [d]) := by
  have hm := maxOffset_of_uniqueMax t.cps hn d o hu ho
  unfold startPoint
  simp only [hm, show ¬ o < 0 by omega, ↓reduceIte, Prod.mk.injEq, true_and]
  obtain ⟨r, hrm, hg⟩ := mem_of_getCp_offset t.cps d o hu.1
  apply filter_unique t.cps hn _ d _ ⟨r, hrm⟩
  intro p hp
  have hgp := getCp_of_mem t.cps hn p hp
  simp only [Bool.decide_and, Bool.decide_eq_true, Bool.and_eq_true, decide_eq_true_eq]
  constructor
  · intro ⟨hoff, _⟩
    by_cases hpd : p.1 = d
    · exact hpd
    · have := hu.2 p.1 hpd o (by rw [hgp]; exact hoff)
      omega
  · intro hpd
    have hoff : p.2.offset = some o := by rw [← hgp, hpd]; exact hu.1
    refine ⟨hoff, ?_⟩
    have := hr p.1 o (by rw [hgp]; exact hoff)
    rw [hgp] at this; exact this

/-- a target without any stored offset: `GetCheckpoint` finds nothing -/
theorem startPoint_of_noOffsets (t : TState) (hn : KeysNodup t.cps) (hno : NoOffsets t.cps) :
    startPoint t = (-1, []) := by
  have hm : maxOffset t.cps < 0 := by
    have h2 : ¬ (0 ≤ maxOffset t.cps) := by
      intro h
      rcases (le_maxOffset_iff t.cps 0).mp h with h | ⟨p, hp, o', ho', _⟩
      · omega
      · have hgp := getCp_of_mem t.cps hn p hp
        have := hno p.1
        rw [hgp, ho'] at this; cases this
    omega
  unfold startPoint
  simp [hm]

/-- **In every state reachable by lives, what `StartsAt` says is what the modelled
    `GetCheckpoint` returns**: one record per database and every offset with its
    run id are invariants of `Lives` (from a target `t0` where they hold, e.g. an
    empty one), hence `startPoint T` is `(-1, [])` when nothing is stored and
    `(o, [d])` -- one database, with its run id -- otherwise. -/
theorem lives_startPoint (pc : PCfg) (raws : List Raw) (start : Int) (t0 : TState) (txn : Bool)
    (hraw : (raws.map (·.off)).Pairwise (· < ·)) (hlo : ∀ r ∈ raws, start < r.off)
    (hstart : 0 ≤ start)
    (hnest : RawNoNested false raws)
    (hpass : ∀ r ∈ raws, (r.cmd = bMulti ∨ r.cmd = bExec) →
      pc.filterCmd r.cmd = false ∧ (pc.filterCmdKey r.cmd r.args).isSome)
    (hnf : parseFails pc { lastSent := start } raws = false)
    (hsel : ∀ x ∈ raws, x.cmd = bSelect → ∀ a n, x.args = [a] → atoi? a = some n → 0 ≤ n)
    (hmapnn : ∀ n : Int, 0 ≤ n → 0 ≤ mapDb pc n)
    (hno : NoOffsets t0.cps) (hn0 : KeysNodup t0.cps) (hr0 : RunIdInv t0)
    (T : TState) (o d : Int) (h : Lives pc raws start t0 txn T o d) :
    KeysNodup T.cps ∧ RunIdInv T ∧
    ((NoOffsets T.cps ∧ startPoint T = (-1, [])) ∨ (UniqueMax T.cps d o ∧ startPoint T = (o, [d]))) := by
  have hinv : KeysNodup T.cps ∧ RunIdInv T := by
    induction h with
    | init => exact ⟨hn0, hr0⟩
    | @life T o d hL sc evs k o' d' hitems hnd htx hpos ih =>
      obtain ⟨hnT, hrT⟩ := ih
      obtain ⟨_, hso, _, _⟩ := lives_lose_nothing pc raws start t0 txn hraw hlo hstart hnest hpass hnf hsel hmapnn
        hno T o d hL
      have hBsub : List.Sublist (raws.filter (fun r => decide (o < r.off))) raws := List.filter_sublist
      have hrawB : ((raws.filter (fun r => decide (o < r.off))).map (·.off)).Pairwise (· < ·) :=
        hraw.sublist (hBsub.map _)
      have hloB : ∀ r ∈ raws.filter (fun r => decide (o < r.off)), o < r.off := by
        intro r hr; simpa using (List.mem_filter.mp hr).2
      have ho0 : 0 ≤ o := by omega
      constructor
      · -- one record per database
        have hcp := (resumed_wire sc _ _ o evs hitems hrawB hloB ho0).2.1
        rw [cpOffsetsB_bodies _ (run_wf sc initS evs)] at hcp
        have := applyLog_keeps ((run sc initS evs).2.flatten.take k) (crash T) (-1)
          (by simpa [crash] using hnT)
          ((le_maxOffset_iff _ _).mpr (Or.inl (Int.le_refl _)))
          (by intro q hq; simp [crash] at hq)
          (by
            intro x hx
            have h1 := cpReqs_take_sub _ k x hx
            rw [cpReqs_flatten] at h1
            have := hcp x h1
            omega)
        exact this.1
      · -- every stored offset has its run id
        have hev := C07.parser_items_selOK _ o _ evs hitems (fun x hx => hsel x (hBsub.subset hx))
        exact C07.cp_offset_has_runid sc evs hev (crash T) rfl rfl (by simpa [crash, RunIdInv] using hrT) k
  obtain ⟨hsa, hso, _, _⟩ := lives_lose_nothing pc raws start t0 txn hraw hlo hstart hnest hpass hnf hsel hmapnn
    hno T o d h
  refine ⟨hinv.1, hinv.2, ?_⟩
  rcases hsa with ⟨hnoT, _, _⟩ | hu
  · exact Or.inl ⟨hnoT, startPoint_of_noOffsets T hinv.1 hnoT⟩
  · exact Or.inr ⟨hu, startPoint_of_uniqueMax T hinv.1 hinv.2 d o hu (by omega)⟩

end GunYu.Props.C02
