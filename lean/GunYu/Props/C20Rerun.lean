/-
  C20 — the RESTART of an interrupted full sync.

  A full sync that ends early (target error, cancel, crash) leaves no checkpoint
  (C04); the next start builds a FRESH replay worker (no remembered state,
  connection in DB 0) and replays the snapshot from entry 0 — on the target the
  first attempt left. That is `runPlain pol cfg none t1 (flat gs)` with
  `t1 = (runPlain pol cfg none t (first k entries)).tgt`; NOT `Run.resume` (which
  is the same loop going on and exists only as the induction step of the
  whole-run theorems).

  What the property's sentence says about the rerun: the leftovers of the first
  attempt are "prior target contents" like any other — the rerun handles them
  as the policy says. Per policy that means (theorems below):
    replace  the rerun converges: every snapshot key ends with the snapshot's
             value and expiry, whatever the first attempt left;
    ignore   a key the first attempt wrote COMPLETELY is kept (it has the
             snapshot's value); a key whose chunks it wrote only partly is kept
             TRUNCATED — the rerun ends ok;
    error    once the first attempt has written anything, every rerun stops
             with the key-exists error at the first key, changing nothing.
-/
import GunYu.Props.C20Whole

namespace GunYu.Props.C20
open GunYu GunYu.Restore

/-- the first `k` entries of the stream `flat gs`, as key groups: whole groups,
    then possibly the first chunks of the next one -/
def cutGroups : List KGroup → Nat → List KGroup
  | [], _ => []
  | _ :: _, 0 => []
  | g :: gs, k+1 => if k ≤ g.2.length then [(g.1, g.2.take k)] else g :: cutGroups gs (k - g.2.length)

/-- every entry boundary of the stream is such a cut -/
theorem flat_cutGroups : ∀ (gs : List KGroup) (k : Nat), flat (cutGroups gs k) = (flat gs).take k
  | [], k => by simp [cutGroups, flat]
  | g :: gs, 0 => by simp [cutGroups, flat]
  | g :: gs, k+1 => by
    simp only [cutGroups, flat_cons, KGroup.entries]
    split
    · rename_i h
      simp only [flat, List.flatMap_cons, List.flatMap_nil, List.append_nil, KGroup.entries, List.cons_append,
        List.take_succ_cons, List.cons.injEq, true_and]
      rw [List.take_append_of_le_length h]
    · rename_i h
      rw [flat_cons, flat_cutGroups gs (k - g.2.length)]
      simp only [KGroup.entries, List.cons_append, List.take_succ_cons, List.cons.injEq, true_and]
      rw [List.take_append]
      have : g.2.take k = g.2 := List.take_of_length_le (by omega)
      rw [this]

theorem truncGroup_good (g : KGroup) (j : Nat) (h : GoodGroup g) : GoodGroup (g.1, g.2.take j) := by
  obtain ⟨hg, hv⟩ := h
  refine ⟨⟨hg.data, hg.first, fun e he => hg.later e (List.mem_of_mem_take he), fun hne => hg.split ?_⟩,
    ⟨hv.c0, hv.ne, fun e he => hv.cr e (List.mem_of_mem_take he), fun e he => hv.exp e (List.mem_of_mem_take he)⟩⟩
  intro h0; apply hne; simp [h0]

theorem cutGroups_good : ∀ (gs : List KGroup) (k : Nat), (∀ g ∈ gs, GoodGroup g) → ∀ g ∈ cutGroups gs k, GoodGroup g
  | [], k, _ => by simp [cutGroups]
  | g :: gs, 0, _ => by simp [cutGroups]
  | g :: gs, k+1, h => by
    simp only [cutGroups]
    split
    · intro x hx; simp at hx; subst hx
      exact truncGroup_good g k (h g (List.mem_cons_self ..))
    · intro x hx
      rcases List.mem_cons.mp hx with rfl | hx
      · exact h _ (List.mem_cons_self ..)
      · exact cutGroups_good gs _ (fun y hy => h y (List.mem_cons_of_mem _ hy)) x hx

theorem cutGroups_keys : ∀ (gs : List KGroup) (k : Nat), ((cutGroups gs k).map KGroup.key).Sublist (gs.map KGroup.key)
  | [], k => by simp [cutGroups]
  | g :: gs, 0 => by simp [cutGroups]
  | g :: gs, k+1 => by
    simp only [cutGroups]
    split
    · simp only [List.map_cons, List.map_nil, KGroup.key]
      exact List.Sublist.cons_cons _ (List.nil_sublist _)
    · simp only [List.map_cons]
      exact List.Sublist.cons_cons _ (cutGroups_keys gs _)

theorem cutGroups_nodup (gs : List KGroup) (k : Nat) (h : (gs.map KGroup.key).Nodup) :
    ((cutGroups gs k).map KGroup.key).Nodup := List.Pairwise.sublist (cutGroups_keys gs k) h

/-- the first attempt, whatever it was cut at and however it ended, writes only keys of the snapshot -/
theorem attempt_frame (pol : Policy) (cfg : Cfg) (st : RState) (t : Target) (gs : List KGroup) (k : Nat)
    (hg : ∀ g ∈ gs, GoodGroup g) (hk : (gs.map KGroup.key).Nodup) :
    ∀ d k', ¬ (d = t.cur ∧ k' ∈ gs.map KGroup.key) →
      (runPlain pol cfg st t ((flat gs).take k)).tgt.ks d k' = t.ks d k' := by
  intro d k' hdk
  rw [← flat_cutGroups]
  exact (whole_plain pol cfg st t (cutGroups gs k) (cutGroups_good gs k hg) (cutGroups_nodup gs k hk)).1 d k'
    (fun h => hdk ⟨h.1, (cutGroups_keys gs k).subset h.2⟩)

private theorem snap_eq (cfg : Cfg) (t t1 : Target) (h1 : t1.now = t.now) (h2 : t1.bad = t.bad) (e0 : Entry) (rest : List Entry) :
    snapshotObj cfg t1 e0 rest = snapshotObj cfg t e0 rest := by simp only [snapshotObj, h1, h2]

/-- **replace: the rerun converges.** The first attempt is cut after ANY number `k`
    of entries (also between the chunks of a key), under any remembered state; the
    restarted full sync (fresh state, entry 0, the target the first attempt left)
    ends ok, every key of the snapshot holds exactly the snapshot's value and expiry,
    and no cell outside the snapshot's keys differs from the ORIGINAL target. -/
theorem rerun_replace_converges (cfg : Cfg) (st : RState) (t : Target) (gs : List KGroup) (k : Nat)
    (hg : ∀ g ∈ gs, GoodGroup g) (hk : (gs.map KGroup.key).Nodup) :
    let t1 := (runPlain .replace cfg st t ((flat gs).take k)).tgt
    (runPlain .replace cfg none t1 (flat gs)).out = .ok ∧
    (∀ g ∈ gs, (runPlain .replace cfg none t1 (flat gs)).tgt.get g.key = some (snapshotObj cfg t g.1 g.2)) ∧
    (∀ d k', ¬ (d = t.cur ∧ k' ∈ gs.map KGroup.key) → (runPlain .replace cfg none t1 (flat gs)).tgt.ks d k' = t.ks d k') := by
  intro t1
  obtain ⟨i1, i2, i3⟩ := runPlain_inv .replace cfg ((flat gs).take k) st t
  obtain ⟨h1, h2, h3⟩ := replace_whole cfg none t1 gs hg hk
  refine ⟨h1, fun g hg' => by rw [h2 g hg', snap_eq cfg t t1 i2 i3], ?_⟩
  intro d k' hdk
  rw [h3 d k' (fun h => hdk ⟨h.1.trans i1, h.2⟩)]
  exact attempt_frame .replace cfg st t gs k hg hk d k' hdk

/-- the same for the bidirectional worker (where the RESTORE path is taken the target can load the payload) -/
theorem rerun_replace_converges_bisync (cfg : Cfg) (st : RState) (t : Target) (gs : List KGroup) (k : Nat)
    (hg : ∀ g ∈ gs, GoodGroup g) (hk : (gs.map KGroup.key).Nodup)
    (hb : ∀ g ∈ gs, useRestore cfg g.1 = true → t.bad g.key = false) :
    let t1 := (runBisync .replace cfg st t ((flat gs).take k)).tgt
    (runBisync .replace cfg none t1 (flat gs)).out = .ok ∧
    (∀ g ∈ gs, (runBisync .replace cfg none t1 (flat gs)).tgt.get g.key = some (snapshotObj cfg t g.1 g.2)) ∧
    (∀ d k', ¬ (d = t.cur ∧ k' ∈ gs.map KGroup.key) → (runBisync .replace cfg none t1 (flat gs)).tgt.ks d k' = t.ks d k') := by
  intro t1
  obtain ⟨i1, i2, i3⟩ := runBisync_inv .replace cfg ((flat gs).take k) st t
  obtain ⟨h1, h2, h3⟩ := replace_whole_bisync cfg none t1 gs hg hk (fun g hg' hu => by rw [i3]; exact hb g hg' hu)
  refine ⟨h1, fun g hg' => by rw [h2 g hg', snap_eq cfg t t1 i2 i3], ?_⟩
  intro d k' hdk
  rw [h3 d k' (fun h => hdk ⟨h.1.trans i1, h.2⟩)]
  have := (whole_bisync .replace cfg st t (cutGroups gs k) (cutGroups_good gs k hg) (cutGroups_nodup gs k hk)).1 d k'
    (fun h => hdk ⟨h.1, (cutGroups_keys gs k).subset h.2⟩)
  rw [flat_cutGroups] at this
  exact this

/-- **ignore: what the rerun does to a key that was written only partly.**
    The snapshot is `pre ++ g :: post`; the first attempt replayed the groups of
    `pre` and the first chunk plus `j` later chunks of `g` (absent on the original
    target), then died. The rerun ends **ok**; `g`'s key is KEPT as the first attempt
    left it — the value built from its first `1 + j` chunks only (`snapshotObj … (g.2.take j)`);
    every other key: kept if the original target held it, else the snapshot's value. -/
theorem rerun_ignore_keeps_partial (cfg : Cfg) (st : RState) (t : Target) (pre post : List KGroup) (g : KGroup) (j : Nat)
    (hg : ∀ x ∈ pre ++ g :: post, GoodGroup x) (hk : ((pre ++ g :: post).map KGroup.key).Nodup)
    (habs : t.get g.key = none) :
    let t1 := (runPlain .ignore cfg st t (flat (pre ++ [(g.1, g.2.take j)]))).tgt
    (runPlain .ignore cfg none t1 (flat (pre ++ g :: post))).out = .ok ∧
    (runPlain .ignore cfg none t1 (flat (pre ++ g :: post))).tgt.get g.key = some (snapshotObj cfg t g.1 (g.2.take j)) ∧
    (∀ p ∈ pre ++ post, ∀ o, t.get p.key = some o →
      (runPlain .ignore cfg none t1 (flat (pre ++ g :: post))).tgt.get p.key = some o) ∧
    (∀ p ∈ pre ++ post, t.get p.key = none →
      (runPlain .ignore cfg none t1 (flat (pre ++ g :: post))).tgt.get p.key = some (snapshotObj cfg t p.1 p.2)) := by
  intro t1
  -- the first attempt, as a whole run over `pre ++ [truncated g]`
  have hg1 : ∀ x ∈ pre ++ [(g.1, g.2.take j)], GoodGroup x := by
    intro x hx
    rcases List.mem_append.mp hx with hx | hx
    · exact hg x (List.mem_append_left _ hx)
    · simp at hx; subst hx; exact truncGroup_good g j (hg g (by simp))
  have hkeys1 : (pre ++ [(g.1, g.2.take j)]).map KGroup.key = pre.map KGroup.key ++ [g.key] := by simp [KGroup.key]
  have hsub : ((pre ++ [(g.1, g.2.take j)]).map KGroup.key).Sublist ((pre ++ g :: post).map KGroup.key) := by
    rw [hkeys1]; simp only [List.map_append, List.map_cons]
    exact List.Sublist.append (List.Sublist.refl _) (List.Sublist.cons_cons _ (List.nil_sublist _))
  have hk1 := List.Pairwise.sublist hsub hk
  obtain ⟨_, a2, a3, a4⟩ := ignore_whole cfg st t (pre ++ [(g.1, g.2.take j)]) hg1 hk1
  obtain ⟨i1, i2, i3⟩ := runPlain_inv .ignore cfg (flat (pre ++ [(g.1, g.2.take j)])) st t
  have hg_t1 : t1.get g.key = some (snapshotObj cfg t g.1 (g.2.take j)) :=
    a3 (g.1, g.2.take j) (by simp) habs
  -- a key of `post` was not touched by the first attempt
  have hnd := hk
  simp only [List.map_append, List.map_cons] at hnd
  have hpost_t1 : ∀ p ∈ post, t1.get p.key = t.get p.key := by
    intro p hp
    unfold Target.get
    rw [i1]
    refine a4 t.cur p.key (fun h => ?_)
    rw [hkeys1] at h
    have hmem : p.key ∈ post.map KGroup.key := List.mem_map_of_mem (f := KGroup.key) hp
    rcases List.mem_append.mp h.2 with h' | h'
    · exact (List.nodup_append.mp hnd).2.2 _ h' _ (List.mem_cons_of_mem _ hmem) rfl
    · simp at h'
      have := (List.nodup_cons.mp (List.nodup_append.mp hnd).2.1).1
      exact this (h' ▸ hmem)
  obtain ⟨b1, b2, b3, _⟩ := ignore_whole cfg none t1 (pre ++ g :: post) hg hk
  refine ⟨b1, b2 g (by simp) _ hg_t1, ?_, ?_⟩
  · intro p hp o ho
    rcases List.mem_append.mp hp with hp | hp
    · exact b2 p (by simp [hp]) o (a2 p (by simp [hp]) o ho)
    · exact b2 p (by simp [hp]) o (by rw [hpost_t1 p hp]; exact ho)
  · intro p hp ho
    rcases List.mem_append.mp hp with hp | hp
    · exact b2 p (by simp [hp]) _ (a3 p (by simp [hp]) ho)
    · rw [b3 p (by simp [hp]) (by rw [hpost_t1 p hp]; exact ho), snap_eq cfg t t1 i2 i3]

/-- **error: once the first attempt has written anything, the rerun is stuck.**
    No key of the snapshot is on the original target; the first attempt replayed at
    least the first entry (`k + 1` entries) and died. Every rerun stops with the
    key-exists error at the FIRST key of the snapshot and changes nothing. -/
theorem rerun_error_stuck (cfg : Cfg) (st : RState) (t : Target) (g : KGroup) (gs : List KGroup) (k : Nat)
    (hg : ∀ x ∈ g :: gs, GoodGroup x) (hk : ((g :: gs).map KGroup.key).Nodup)
    (hnone : ∀ x ∈ g :: gs, t.get x.key = none) :
    let t1 := (runPlain .error cfg st t ((flat (g :: gs)).take (k + 1))).tgt
    (runPlain .error cfg none t1 (flat (g :: gs))).out = .errExists ∧
    (∀ d k', (runPlain .error cfg none t1 (flat (g :: gs))).tgt.ks d k' = t1.ks d k') := by
  intro t1
  have hcg := cutGroups_good (g :: gs) (k + 1) hg
  have hcn := cutGroups_nodup (g :: gs) (k + 1) hk
  have hsub := cutGroups_keys (g :: gs) (k + 1)
  obtain ⟨_, a2, _⟩ := error_whole_clean cfg st t (cutGroups (g :: gs) (k + 1)) hcg hcn (by
    intro x hx
    have : x.key ∈ (g :: gs).map KGroup.key := hsub.subset (List.mem_map_of_mem (f := KGroup.key) hx)
    obtain ⟨y, hy, hye⟩ := List.mem_map.mp this
    rw [← hye]; exact hnone y hy)
  rw [flat_cutGroups] at a2
  -- the first cut group has g's key
  have hfirst : ∃ x ∈ cutGroups (g :: gs) (k + 1), x.key = g.key := by
    simp only [cutGroups]
    split
    · exact ⟨(g.1, g.2.take k), by simp, rfl⟩
    · exact ⟨g, by simp, rfl⟩
  obtain ⟨x, hx, hxk⟩ := hfirst
  have hex : t1.get g.key = some (snapshotObj cfg t x.1 x.2) := by rw [← hxk]; exact a2 x hx
  obtain ⟨b1, _, b3⟩ := error_whole_stop cfg none t1 [] gs g _ (by simpa using hg) (by simpa using hk) (by simp) hex
  exact ⟨b1, fun d k' => b3 d k' (by simp)⟩

/-! non-vacuity, on the example snapshot (`h` in three chunks, absent here; `i` in one) -/
def exTEmpty : Target := { exT with ks := fun _ _ => none }

example : ((runPlain .ignore exCfg none exTEmpty (flat ([] ++ [(exG1.1, exG1.2.take 0)]))).tgt.get [104])
    = some { val := .native [exCmd 49 49], exp := 5000 } := by decide
/-- `ignore`: the rerun after a first attempt that died between chunk 1 and chunk 2 of `h` ends ok with 1 of 3 chunks -/
example : (runPlain .ignore exCfg none (runPlain .ignore exCfg none exTEmpty (flat ([] ++ [(exG1.1, exG1.2.take 0)]))).tgt
      (flat ([] ++ exG1 :: [exG2]))).tgt.get [104] = some (snapshotObj exCfg exTEmpty exE0 []) :=
  (rerun_ignore_keeps_partial exCfg none exTEmpty [] [exG2] exG1 0 ex_good ex_nodup rfl).2.1
example : snapshotObj exCfg exTEmpty exE0 [] = { val := .native [exCmd 49 49], exp := 5000 } := by decide
example : snapshotObj exCfg exTEmpty exE0 [exE1, exE2] = { val := .native [exCmd 49 49, exCmd 50 50, exCmd 51 51], exp := 5000 } := by
  decide
example : (runPlain .ignore exCfg none (runPlain .ignore exCfg none exTEmpty [exE0]).tgt [exE0, exE1, exE2, exK]).out = .ok := by
  decide
/-- `replace`: the same interruption, the rerun restores the whole value -/
example : (runPlain .replace exCfg none (runPlain .replace exCfg none exTEmpty ((flat [exG1, exG2]).take 1)).tgt
      (flat [exG1, exG2])).tgt.get [104] = some (snapshotObj exCfg exTEmpty exE0 [exE1, exE2]) :=
  (rerun_replace_converges exCfg none exTEmpty [exG1, exG2] 1 ex_good ex_nodup).2.1 exG1 (by simp)
example : (runBisync .replace exCfg none (runBisync .replace exCfg none exTEmpty ((flat [exG1, exG2]).take 2)).tgt
      (flat [exG1, exG2])).tgt.get [104] = some (snapshotObj exCfg exTEmpty exE0 [exE1, exE2]) :=
  (rerun_replace_converges_bisync exCfg none exTEmpty [exG1, exG2] 2 ex_good ex_nodup (fun _ _ _ => rfl)).2.1 exG1 (by simp)
/-- `error`: the rerun fails on the key the first attempt wrote -/
example : (runPlain .error exCfg none (runPlain .error exCfg none exTEmpty ((flat (exG1 :: [exG2])).take (0 + 1))).tgt
      (flat (exG1 :: [exG2]))).out = .errExists :=
  (rerun_error_stuck exCfg none exTEmpty exG1 [exG2] 0 ex_good ex_nodup (by intro x _; rfl)).1

end GunYu.Props.C20
