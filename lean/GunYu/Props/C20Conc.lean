/-
  C20 — N concurrent replay workers on ONE keyspace (`sendRdb`: distributor + `replayRdbParallel` workers).

  Model: Model/RestoreWorker.lean — `route` / `routeAll` / `queueOf` (the distributor's routing, REPAIRED 630424b: by the
  key the entry is replayed to), `Sys` (shared keyspace, per-worker loop state), `Sys.step` (one target request, or one
  local move of one worker), `Sys.run` (ANY schedule).

    * `route_keyed`, `group_one_worker`, `route_same_target_key`, `queueOf_sublist`, `mem_queueOf`: every chunk of one key —
      the empty key included (b043070), and every entry that is replayed to the same target key under replaceHashTag — is
      routed to the same worker, `fnv32a(target key) mod n`, and the pipes keep the snapshot's order;
    * `conc_boundary`: in ANY interleaving, whenever worker `i` has nothing pending (in particular once it has halted, for
      whatever reason: pipe drained, entry failed, cancel observed), the cells of the keys routed to `i` hold EXACTLY
      what worker `i` alone on the initial keyspace makes of the entries it has taken — the other workers never matter;
    * `conc_quiescent`: all workers halted and no cancel: every cell of every routed key is the one-worker result of its
      worker's whole pipe;
    * `conc_is_one_worker`: … which for `replace` and `ignore` (they never stop) is, cell by cell, the keyspace ONE worker
      makes of the WHOLE snapshot: N workers = 1 worker, for every schedule;
    * `conc_halted_frozen`: once a worker has halted — e.g. has OBSERVED the cancel another worker's key-exists error
      raised — no cell of its keys is modified any more, whatever the workers still running do;
    * `no_worker_cancels`: under `replace` / `ignore` no worker ever fails, so only the ENVIRONMENT can cancel;
    * `conc_held_unchanged`, `conc_held_frozen`: `ignore` / `error` — a cell the target held at the start is as it was at
      every entry boundary of its worker, and for ever once that worker has halted.
  The schedules contain the environment's moves too (`Move.cancel`: the distributor's error, the parent context;
  `Move.close`: pipes closed after a prefix): all theorems hold for them; `conc_quiescent` / `conc_is_one_worker` say what
  they need (no pipe cut, no cancel from outside).
  NOT in the model (listed in checks/p/C20.py): a worker that dies INSIDE an entry (SELECT error, connection error after
  DEL, NewRedisConn failing), the cluster global lane (`rdbReplayBisyncGlobal`: AUX / function entries only), the bisync
  marker's own key, MULTI/EXEC atomicity (the model applies a unit's commands one by one: more intermediate states, same
  cells by locality).
-/
import GunYu.Props.C20Collide
import GunYu.Proofs.RestoreConcOk

namespace GunYu.Props.C20
open GunYu GunYu.Restore

/-! ## routing -/

/-- every entry except a function library is routed by the hash of the key it is replayed to, whatever was chosen before -/
theorem route_keyed (w : WCfg) (n : Nat) (e : Entry) (idx : Nat) (h : e.otype ≠ .func) :
    route w n e idx = fnv32a (routeKey w e.key) % n := by
  simp [route, h]

/-- all chunks of one snapshot key reach the same worker — also for the EMPTY key (a valid key; b043070) -/
theorem group_one_worker (w : WCfg) (n : Nat) (g : KGroup) (hg : GoodGroup g) :
    ∀ e ∈ g.entries, ∀ idx, route w n e idx = fnv32a (routeKey w g.key) % n := by
  intro e he idx
  rcases List.mem_cons.mp he with rfl | he
  · exact route_keyed w n _ idx (by rw [hg.1.data]; simp)
  · have hl := hg.1.later e he
    rw [route_keyed w n e idx (by rw [hl.data]; simp), hl.key]; rfl

/-- two snapshot keys that are replayed to ONE target key (`{a}b` and `ab` under replaceHashTag) reach the same worker -/
theorem route_same_target_key (w : WCfg) (n : Nat) (e e' : Entry) (idx idx' : Nat) (h : e.otype ≠ .func) (h' : e'.otype ≠ .func)
    (hk : routeKey w e.key = routeKey w e'.key) : route w n e idx = route w n e' idx' := by
  rw [route_keyed w n e idx h, route_keyed w n e' idx' h', hk]

/-- the key a keyed entry is replayed to is the key it is routed by -/
theorem retag_key_routeKey (w : WCfg) (e : Entry) (h : keyless e = false) : (retag w.rht e).key = routeKey w e.key := by
  have : e.otype = .data ∨ e.otype = .module := by
    cases ho : e.otype <;> simp [keyless, ho] at h ⊢
  unfold retag routeKey
  rcases this with ho | ho <;> cases w.rht <;> simp [ho]

theorem routeAll_snd (w : WCfg) (n : Nat) : ∀ (es : List Entry) (idx : Nat), (routeAll w n idx es).map (·.2) = es
  | [], _ => rfl
  | e :: es, idx => by simp [routeAll, routeAll_snd w n es]

/-- a pipe holds its entries in snapshot order -/
theorem queueOf_sublist (w : WCfg) (n : Nat) (es : List Entry) (i : Nat) : (queueOf w n es i).Sublist es := by
  unfold queueOf
  have h := (List.filter_sublist (l := routeAll w n 0 es) (p := fun p => p.1 == i)).map (·.2)
  rwa [routeAll_snd] at h

theorem mem_routeAll (w : WCfg) (n : Nat) : ∀ (es : List Entry) (idx : Nat) (e : Entry), e ∈ es → e.otype ≠ .func →
    (fnv32a (routeKey w e.key) % n, e) ∈ routeAll w n idx es
  | e0 :: es, idx, e, he, ho => by
    rcases List.mem_cons.mp he with rfl | he
    · simp [routeAll, route_keyed w n e idx ho]
    · exact List.mem_cons_of_mem _ (mem_routeAll w n es _ e he ho)

/-- every keyed entry is in the pipe of the worker its target key hashes to -/
theorem mem_queueOf (w : WCfg) (n : Nat) (es : List Entry) (e : Entry) (he : e ∈ es) (ho : e.otype ≠ .func) :
    e ∈ queueOf w n es (fnv32a (routeKey w e.key) % n) := by
  unfold queueOf
  exact List.mem_map.mpr ⟨_, List.mem_filter.mpr ⟨mem_routeAll w n es 0 e he ho, by simp⟩, rfl⟩

theorem routeAll_fst (w : WCfg) (n : Nat) : ∀ (es : List Entry) (idx : Nat) (p : Nat × Entry), p ∈ routeAll w n idx es →
    p.2 ∈ es ∧ (p.2.otype ≠ .func → p.1 = fnv32a (routeKey w p.2.key) % n)
  | e :: es, idx, p, hp => by
    simp only [routeAll, List.mem_cons] at hp
    rcases hp with rfl | hp
    · exact ⟨List.mem_cons_self .., fun ho => route_keyed w n e idx ho⟩
    · obtain ⟨h1, h2⟩ := routeAll_fst w n es _ p hp
      exact ⟨List.mem_cons_of_mem _ h1, h2⟩

/-- … and a pipe holds nothing but entries of the stream whose target key hashes to its worker (and function libraries) -/
theorem queueOf_only (w : WCfg) (n : Nat) (es : List Entry) (i : Nat) (e : Entry) (he : e ∈ queueOf w n es i) :
    e ∈ es ∧ (e.otype ≠ .func → fnv32a (routeKey w e.key) % n = i) := by
  unfold queueOf at he
  obtain ⟨p, hp, rfl⟩ := List.mem_map.mp he
  obtain ⟨hp1, hp2⟩ := List.mem_filter.mp hp
  obtain ⟨h1, h2⟩ := routeAll_fst w n es 0 p hp1
  exact ⟨h1, fun ho => by rw [← h2 ho]; simpa using hp2⟩

/-! ## any interleaving -/

/-- the keys of worker `i` among `n` -/
def keysOf (n i : Nat) (k : Bytes) : Prop := fnv32a k % n = i

theorem keysOf_disjoint (n : Nat) : ∀ i j k, keysOf n i k → keysOf n j k → i = j := by
  intro i j k h1 h2; exact h1.symm.trans h2

/-- every keyed entry's expanded commands name the key it is replayed to (`Value` of its group, after `retag`) -/
def CmdsOnTarget (w : WCfg) (es : List Entry) : Prop :=
  ∀ e ∈ es, keyless e = false → ∀ c ∈ (retag w.rht e).cmds, cmdKey c = (retag w.rht e).key

/-- the fresh worker `sendRdb` starts for pipe `i` -/
def freshW (E : Env) (n : Nat) (es : List Entry) (i : Nat) : WSt := { queue := queueOf E.w n es i }

theorem init_get (E : Env) (n : Nat) (ks : KS) (es : List Entry) (i : Nat) (W : WSt)
    (h : (Sys.init E n ks es).ws[i]? = some W) : i < n ∧ W = freshW E n es i := by
  simp only [Sys.init, List.getElem?_map, List.getElem?_range] at h
  by_cases hi : i < n
  · simp [hi] at h; exact ⟨hi, h.symm⟩
  · simp [hi] at h

theorem init_inv (E : Env) (n : Nat) (ks0 : KS) (es : List Entry) (hc : CmdsOnTarget E.w es) :
    Inv E (keysOf n) ks0 (Sys.init E n ks0 es).ws (Sys.init E n ks0 es) := by
  apply Inv.init
  intro i W h
  obtain ⟨_, rfl⟩ := init_get E n ks0 es i W h
  refine ⟨⟨(by intro r hr; cases hr), ?_, fun _ => rfl⟩, rfl, rfl⟩
  intro e he hk
  obtain ⟨h1, h2⟩ := queueOf_only E.w n es i e he
  have ho : e.otype ≠ .func := by intro ho; simp [keyless, ho] at hk
  refine ⟨?_, hc e h1 hk⟩
  show fnv32a (retag E.w.rht e).key % n = i
  rw [retag_key_routeKey E.w e hk]; exact h2 ho

/-- what worker `i` ALONE (fresh connection in DB 0, nothing remembered) makes of the first `m` entries of its pipe -/
def soloResult (E : Env) (n : Nat) (ks0 : KS) (es : List Entry) (i m : Nat) : KS :=
  (workerTarget (E.tgt 0 ks0) (runWorkerF E.w E.bisync E.pol E.cfg 0 none (E.tgt 0 ks0) ((queueOf E.w n es i).take m))).ks

theorem soloKs_fresh (E : Env) (n : Nat) (ks0 : KS) (es : List Entry) (i m : Nat) :
    soloKs E m (freshW E n es i) ks0 = soloResult E n ks0 es i m := rfl

/-- **any schedule, any moment at which worker `i` has nothing pending** (in particular: it has halted — drained its pipe,
    failed on an entry, or observed the cancel): the cells of the keys routed to `i`, in every DB, hold exactly what
    worker `i` alone makes of the `done` entries it has taken. The other workers' requests never matter. -/
theorem conc_boundary (E : Env) (n : Nat) (ks0 : KS) (es : List Entry) (hc : CmdsOnTarget E.w es) (sched : List Move)
    (i : Nat) (W : WSt) (hi : (Sys.run E (Sys.init E n ks0 es) sched).ws[i]? = some W) (hp : W.pend = []) :
    ∀ d k, fnv32a k % n = i → (Sys.run E (Sys.init E n ks0 es) sched).ks d k = soloResult E n ks0 es i W.done d k := by
  have hinv := Inv.run E (keysOf n) (keysOf_disjoint n) ks0 _ sched _ (init_inv E n ks0 es hc)
  have hlt : i < n := by
    have h1 : i < (Sys.run E (Sys.init E n ks0 es) sched).ws.length := (List.getElem?_eq_some_iff.mp hi).1
    rw [hinv.len] at h1
    simpa [Sys.init] using h1
  have hi0 : (Sys.init E n ks0 es).ws[i]? = some (freshW E n es i) := by
    simp [Sys.init, List.getElem?_map, List.getElem?_range, hlt, freshW]
  have := Inv.boundary E (keysOf n) ks0 _ _ hinv i W _ hi hi0 hp
  rw [soloKs_fresh] at this
  exact this

/-- **all workers halted, nobody cancelled** (no entry failed, no cancel from outside) **and no pipe closed early**: every
    worker took its whole pipe, and the cells of its keys are what it alone makes of the whole pipe. (With an early close or
    a cancel, `conc_boundary` still says what the cells hold: the one-worker result of what WAS taken.) -/
theorem conc_quiescent (E : Env) (n : Nat) (ks0 : KS) (es : List Entry) (hc : CmdsOnTarget E.w es) (sched : List Move)
    (hq : ∀ (i : Nat) (W : WSt), (Sys.run E (Sys.init E n ks0 es) sched).ws[i]? = some W → W.halted = true)
    (hnc : (Sys.run E (Sys.init E n ks0 es) sched).cancel = false)
    (hcut : (Sys.run E (Sys.init E n ks0 es) sched).cut = false) :
    ∀ i, i < n → ∀ d k, fnv32a k % n = i →
      (Sys.run E (Sys.init E n ks0 es) sched).ks d k = soloResult E n ks0 es i (queueOf E.w n es i).length d k := by
  intro i hlt d k hk
  have hinv := Inv.run E (keysOf n) (keysOf_disjoint n) ks0 _ sched _ (init_inv E n ks0 es hc)
  have hi0 : (Sys.init E n ks0 es).ws[i]? = some (freshW E n es i) := by
    simp [Sys.init, List.getElem?_map, List.getElem?_range, hlt, freshW]
  have hlen : i < (Sys.run E (Sys.init E n ks0 es) sched).ws.length := by
    rw [hinv.len]; simpa [Sys.init] using hlt
  obtain ⟨W, hW⟩ : ∃ W, (Sys.run E (Sys.init E n ks0 es) sched).ws[i]? = some W :=
    ⟨_, List.getElem?_eq_getElem hlen⟩
  have hh := hq i W hW
  have hp := (hinv.wok i W hW).halt hh
  obtain ⟨q1, _⟩ := hinv.quiet i W hW hh hnc
  have hcnt := hinv.cnt hcut i W _ hW hi0
  rw [q1] at hcnt
  have hge : (queueOf E.w n es i).length ≤ W.done := by
    have := List.drop_eq_nil_iff.mp hcnt.symm
    simpa [freshW] using this
  rw [conc_boundary E n ks0 es hc sched i W hW hp d k hk]
  unfold soloResult
  rw [List.take_of_length_le hge, List.take_of_length_le (Nat.le_refl _)]

/-- **once a worker has halted** — for instance: it has OBSERVED the cancel that another worker's key-exists error
    raised — **no cell of its keys is modified any more**, whatever the workers that are still running do, for any
    continuation of the schedule -/
theorem conc_halted_frozen (E : Env) (n : Nat) (ks0 : KS) (es : List Entry) (hc : CmdsOnTarget E.w es)
    (sched more : List Move) (i : Nat) (W : WSt)
    (hi : (Sys.run E (Sys.init E n ks0 es) sched).ws[i]? = some W) (hh : W.halted = true) :
    ∀ d k, fnv32a k % n = i →
      (Sys.run E (Sys.run E (Sys.init E n ks0 es) sched) more).ks d k = (Sys.run E (Sys.init E n ks0 es) sched).ks d k := by
  have hinv := Inv.run E (keysOf n) (keysOf_disjoint n) ks0 _ sched _ (init_inv E n ks0 es hc)
  exact halted_frozen E (keysOf n) (keysOf_disjoint n) ks0 _ more _ hinv i W hi hh

/-- a worker that fails raises the cancel; a worker that then looks at the context halts without touching anything -/
theorem observe_halts (E : Env) (W : WSt) (ks : KS) (h : W.halted = false) (hp : W.pend = []) (ho : W.out = .ok) :
    wstep E true true W ks = ({ W with halted := true }, ks, false) :=
  wstep_observe E true true W ks h hp ho ⟨rfl, rfl⟩

/-! ## N workers = one worker (`replace`, `ignore`) -/

/-- the entries of the stream that go to worker `i`, keyed ones -/
def routedE (w : WCfg) (n i : Nat) (e : Entry) : Bool := fnv32a (routeKey w e.key) % n == i
def routedG (w : WCfg) (n i : Nat) (g : KGroup) : Bool := fnv32a (routeKey w g.key) % n == i

theorem queue_keyed (w : WCfg) (n i : Nat) : ∀ (es : List Entry) (idx : Nat),
    (((routeAll w n idx es).filter (fun p => p.1 == i)).map (·.2)).filter (fun e => !keyless e)
      = (es.filter (fun e => !keyless e)).filter (routedE w n i)
  | [], _ => rfl
  | e :: es, idx => by
    have ih := queue_keyed w n i es (route w n e idx)
    cases hk : keyless e with
    | true =>
      simp only [routeAll, List.filter_cons, hk, Bool.not_true, Bool.false_eq_true, if_false]
      by_cases hr : (route w n e idx == i) = true
      · simp only [hr, if_true, List.map_cons, List.filter_cons, hk, Bool.not_true, Bool.false_eq_true, if_false]
        exact ih
      · simp only [hr, if_false]
        exact ih
    | false =>
      have ho : e.otype ≠ .func := by intro ho; simp [keyless, ho] at hk
      have hrt := route_keyed w n e idx ho
      simp only [routeAll, List.filter_cons, hk, Bool.not_false, if_true]
      by_cases hr : (fnv32a (routeKey w e.key) % n == i) = true
      · simp only [hrt, hr, if_true, List.map_cons, List.filter_cons, hk, Bool.not_false, routedE]
        rw [← hrt, ih]
      · simp only [hrt, hr, if_false, routedE, Bool.false_eq_true]
        rw [← hrt, ih]

theorem flat_routed (w : WCfg) (n i : Nat) : ∀ (gs : List KGroup), (∀ g ∈ gs, GoodGroup g) →
    (flat gs).filter (routedE w n i) = flat (gs.filter (routedG w n i))
  | [], _ => rfl
  | g :: gs, hg => by
    have ih := flat_routed w n i gs (fun x hx => hg x (List.mem_cons_of_mem _ hx))
    have hgg := hg g (List.mem_cons_self ..)
    have hkey : ∀ e ∈ g.entries, e.key = g.key := by
      intro e he
      rcases List.mem_cons.mp he with rfl | he
      · rfl
      · exact (hgg.1.later e he).key
    rw [flat_cons, List.filter_append, ih, List.filter_cons]
    by_cases hr : routedG w n i g = true
    · have : g.entries.filter (routedE w n i) = g.entries := by
        apply List.filter_eq_self.mpr
        intro e he; simp only [routedE, hkey e he]; exact hr
      rw [this, if_pos hr, flat_cons]
    · have : g.entries.filter (routedE w n i) = [] := by
        apply List.filter_eq_nil_iff.mpr
        intro e he; simp only [routedE, hkey e he]; exact hr
      rw [this, if_neg hr]; rfl

/-- the pipe of worker `i` is a stream of the groups routed to `i` (keyless entries anywhere) -/
theorem stream_queueOf (w : WCfg) (n i : Nat) (gs : List KGroup) (es : List Entry) (hs : StreamOf es gs)
    (hg : ∀ g ∈ gs, GoodGroup g) : StreamOf (queueOf w n es i) (gs.filter (routedG w n i)) := by
  unfold StreamOf queueOf at *
  rw [queue_keyed, hs, flat_routed w n i gs hg]

theorem targetGroups_routed (w : WCfg) (n i : Nat) (gs : List KGroup) (hg : ∀ g ∈ gs, GoodGroup g) :
    targetGroups w (gs.filter (routedG w n i)) = (targetGroups w gs).filter (fun x => fnv32a x.key % n == i) := by
  unfold targetGroups
  rw [List.filter_map, List.filter_filter, List.filter_filter]
  congr 1
  apply List.filter_congr
  intro g hgm
  have hk := mapG_key w g (hg g hgm)
  simp only [Function.comp, routedG, routeKey, hk, Bool.and_comm]

theorem cmdsOnTarget_of_good (w : WCfg) (gs : List KGroup) (es : List Entry) (hs : StreamOf es gs)
    (hg : ∀ g ∈ gs, GoodGroup g ∧ g.oneDb) (ha : w.rht = true → ∀ g ∈ gs, ArgsOK g) : CmdsOnTarget w es := by
  intro e he hk c hc
  have : e ∈ flat gs := by rw [← hs]; exact List.mem_filter.mpr ⟨he, by simp [hk]⟩
  obtain ⟨g, hgm, heg⟩ := List.mem_flatMap.mp this
  have hgood := mapG_good w g (hg g hgm).1 (fun h => ha h g hgm)
  have hkey : ∀ x ∈ g.entries, (retag w.rht x).key = (mapG w g).key := by
    intro x hx
    rcases List.mem_cons.mp hx with rfl | hx
    · rfl
    · have := (hgood.1.later (mapE w x) (List.mem_map_of_mem (f := mapE w) hx)).key
      exact this
  rw [hkey e heg]
  rcases List.mem_cons.mp heg with rfl | hx
  · exact hgood.2.c0 c hc
  · exact hgood.2.cr (mapE w e) (List.mem_map_of_mem (f := mapE w) hx) c hc

/-- every entry of a stream of good (data) groups is one that cannot fail under `replace` / `ignore` -/
theorem entryNoFail_of_good (E : Env) (gs : List KGroup) (es : List Entry) (hs : StreamOf es gs)
    (hg : ∀ g ∈ gs, GoodGroup g ∧ g.oneDb)
    (hb : E.bisync = true → ∀ g ∈ targetGroups E.w gs, useRestore E.cfg g.1 = true → E.bad g.key = false) :
    ∀ e ∈ es, EntryNoFail E e := by
  intro e he
  cases hk : keyless e with
  | true =>
    refine ⟨?_, fun _ h => by rw [hk] at h; cases h⟩
    have : keyless (retag E.w.rht e) = true := by rw [retag_keyless]; exact hk
    intro hm; simp [keyless, hm] at this
  | false =>
    have hin : e ∈ flat gs := by rw [← hs]; exact List.mem_filter.mpr ⟨he, by simp [hk]⟩
    obtain ⟨g, hgm, heg⟩ := List.mem_flatMap.mp hin
    obtain ⟨hgood, hone⟩ := hg g hgm
    have hdata : e.otype = .data := by
      rcases List.mem_cons.mp heg with rfl | hx
      · exact hgood.1.data
      · exact (hgood.1.later e hx).data
    refine ⟨by rw [Props.C20.retag_otype, hdata]; simp, ?_⟩
    intro hbi _ c1 c2 hu
    rcases List.mem_cons.mp heg with rfl | hx
    · have hkept : keptG E.w g = true := by
        have h1 : g.1.db = Int.ofNat g.dbn := hone g.1 (List.mem_cons_self ..)
        have c1' : ¬ E.w.filterDb g.dbn = true := by
          intro h; apply c1; rw [h1]; exact ⟨by simp, by simpa using h⟩
        simp only [keptG, Bool.and_eq_true, Bool.not_eq_true']
        exact ⟨by simpa using c1', by simpa [KGroup.key] using c2⟩
      have hmem : mapG E.w g ∈ targetGroups E.w gs :=
        List.mem_map_of_mem (f := mapG E.w) (List.mem_filter.mpr ⟨hgm, hkept⟩)
      exact hb hbi (mapG E.w g) hmem hu
    · have hsp : (retag E.w.rht e).splited = true := by
        have := (hgood.1.later e hx).split
        unfold retag; split <;> simpa using this
      rw [useRestore_split hsp] at hu; cases hu

/-- under `replace` / `ignore`, with data values the target can take, NO worker ever fails: unless the environment cancels,
    the cancel flag stays down in every reachable state -/
theorem no_worker_cancels (E : Env) (n : Nat) (ks0 : KS) (gs : List KGroup) (es : List Entry)
    (hs : StreamOf es gs) (hg : ∀ g ∈ gs, GoodGroup g ∧ g.oneDb) (ha : E.w.rht = true → ∀ g ∈ gs, ArgsOK g)
    (hpol : E.pol ≠ .error)
    (hb : E.bisync = true → ∀ g ∈ targetGroups E.w gs, useRestore E.cfg g.1 = true → E.bad g.key = false)
    (sched : List Move) (hext : ∀ m ∈ sched, m.isCancel = false) :
    AllOk E (Sys.run E (Sys.init E n ks0 es) sched) := by
  have _ := ha
  refine AllOk.run E hpol sched _ ⟨?_, ?_, rfl⟩ hext
  · intro i W h
    obtain ⟨_, rfl⟩ := init_get E n ks0 es i W h
    rfl
  · intro i W h e he
    obtain ⟨_, rfl⟩ := init_get E n ks0 es i W h
    exact entryNoFail_of_good E gs es hs hg hb e (queueOf_only E.w n es i e he).1

/-- **N workers, ANY interleaving, `replace` or `ignore`**: when all workers have halted, the environment did not cancel
    and closed no pipe early (that no WORKER raises the cancel is proved: `no_worker_cancels` — the policies never
    stop, the values are data values the target can take), the keyspace is — cell by cell, every DB, every key — the keyspace ONE worker makes of the
    whole snapshot. Whatever the one-worker theorems say (Props/C20Worker.lean, C20Collide.lean) holds for `sendRdb`. -/
theorem conc_is_one_worker (E : Env) (n : Nat) (hn : 0 < n) (ks0 : KS) (gs : List KGroup) (es : List Entry)
    (hs : StreamOf es gs) (hg : ∀ g ∈ gs, GoodGroup g ∧ g.oneDb) (ha : E.w.rht = true → ∀ g ∈ gs, ArgsOK g)
    (hpol : E.pol ≠ .error)
    (hb : E.bisync = true → ∀ g ∈ targetGroups E.w gs, useRestore E.cfg g.1 = true → E.bad g.key = false)
    (sched : List Move)
    (hq : ∀ (i : Nat) (W : WSt), (Sys.run E (Sys.init E n ks0 es) sched).ws[i]? = some W → W.halted = true)
    (hext : ∀ m ∈ sched, m.isCancel = false)
    (hcut : (Sys.run E (Sys.init E n ks0 es) sched).cut = false) :
    (Sys.run E (Sys.init E n ks0 es) sched).ks
      = (workerTarget (E.tgt 0 ks0) (runWorkerF E.w E.bisync E.pol E.cfg 0 none (E.tgt 0 ks0) es)).ks := by
  have hnc : (Sys.run E (Sys.init E n ks0 es) sched).cancel = false :=
    (no_worker_cancels E n ks0 gs es hs hg ha hpol hb sched hext).nc
  have hc := cmdsOnTarget_of_good E.w gs es hs hg ha
  have hg1 : ∀ g ∈ gs, GoodGroup g := fun g h => (hg g h).1
  funext d k
  have hlt : fnv32a k % n < n := Nat.mod_lt _ hn
  rw [conc_quiescent E n ks0 es hc sched hq hnc hcut (fnv32a k % n) hlt d k rfl]
  unfold soloResult
  rw [List.take_of_length_le (Nat.le_refl _)]
  -- worker i alone on its pipe: the policy sequence over the groups routed to i
  have hgi : ∀ g ∈ gs.filter (routedG E.w n (fnv32a k % n)), GoodGroup g ∧ g.oneDb :=
    fun g h => hg g (List.mem_filter.mp h).1
  have hai : E.w.rht = true → ∀ g ∈ gs.filter (routedG E.w n (fnv32a k % n)), ArgsOK g :=
    fun h g hm => ha h g (List.mem_filter.mp hm).1
  have htr := targetGroups_routed E.w n (fnv32a k % n) gs hg1
  have hbi : E.bisync = true → ∀ g ∈ targetGroups E.w (gs.filter (routedG E.w n (fnv32a k % n))),
      useRestore E.cfg g.1 = true → (E.tgt 0 ks0).bad g.key = false := by
    intro h g hm; rw [htr] at hm; exact hb h g (List.mem_filter.mp hm).1
  obtain ⟨_, s2⟩ := seq_workerF E.w E.bisync E.pol E.cfg 0 none (E.tgt 0 ks0) _ _
    (stream_queueOf E.w n (fnv32a k % n) gs es hs hg1) rfl hgi hai hbi
  obtain ⟨_, o2⟩ := seq_workerF E.w E.bisync E.pol E.cfg 0 none (E.tgt 0 ks0) gs es hs rfl hg ha hb
  rw [s2, o2, htr]
  exact (polSeq_cell_filter E.pol hpol _ (fun x => fnv32a x.key % n == fnv32a k % n) d k
    (fun g _ h2 => by simp [h2]) _ _ _ rfl).symm

/-! ## `ignore` / `error` with N workers: what the target held is never touched

  Any schedule, any moves of the environment (cancel from outside, pipes closed early). -/

theorem filter_take_prefix {α : Type} (p : α → Bool) : ∀ (l : List α) (m : Nat), ∃ j, (l.take m).filter p = (l.filter p).take j
  | [], m => ⟨0, by simp⟩
  | _ :: _, 0 => ⟨0, by simp⟩
  | a :: l, m + 1 => by
    obtain ⟨j, hj⟩ := filter_take_prefix p l m
    cases hp : p a with
    | true => exact ⟨j + 1, by simp [List.take_succ_cons, List.filter_cons, hp, hj]⟩
    | false => exact ⟨j, by simp [List.take_succ_cons, List.filter_cons, hp, hj]⟩

/-- a prefix of a snapshot's keyed entries is the entry list of a snapshot: whole groups and, last, the first chunks of one -/
theorem flat_take : ∀ (gs : List KGroup) (j : Nat),
    ∃ gs' : List KGroup, (flat gs).take j = flat gs' ∧ ∀ g' ∈ gs', ∃ g ∈ gs, ∃ r, g'.1 = g.1 ∧ g.2 = g'.2 ++ r
  | [], j => ⟨[], by simp [flat], by simp⟩
  | _ :: _, 0 => ⟨[], by simp [flat], by simp⟩
  | g :: gs, j + 1 => by
    obtain ⟨gs'', h1, h2⟩ := flat_take gs (j - g.2.length)
    refine ⟨(g.1, g.2.take j) :: gs'', ?_, ?_⟩
    · rw [flat_cons, flat_cons]
      show (g.1 :: (g.2 ++ flat gs)).take (j + 1) = g.1 :: (g.2.take j ++ flat gs'')
      rw [List.take_succ_cons, List.take_append, h1]
    · intro g' hg'
      rcases List.mem_cons.mp hg' with rfl | hg'
      · exact ⟨g, List.mem_cons_self .., g.2.drop j, rfl, (List.take_append_drop j g.2).symm⟩
      · obtain ⟨x, hx, r, e1, e2⟩ := h2 g' hg'
        exact ⟨x, List.mem_cons_of_mem _ hx, r, e1, e2⟩

theorem good_prefix (g g' : KGroup) (r : List Entry) (h1 : g'.1 = g.1) (h2 : g.2 = g'.2 ++ r) (hg : GoodGroup g ∧ g.oneDb) :
    (GoodGroup g' ∧ g'.oneDb) ∧ (ArgsOK g → ArgsOK g') := by
  obtain ⟨⟨⟨gd, gf, gl, gs⟩, ⟨vc0, vne, vcr, vexp⟩⟩, hone⟩ := hg
  have hsub : ∀ e ∈ g'.2, e ∈ g.2 := fun e he => by rw [h2]; exact List.mem_append_left _ he
  refine ⟨⟨⟨⟨by rw [h1]; exact gd, by rw [h1]; exact gf, fun e he => by rw [h1]; exact gl e (hsub e he), ?_⟩,
    ⟨by rw [h1]; exact vc0, by rw [h1]; exact vne, fun e he => by rw [h1]; exact vcr e (hsub e he),
      fun e he => by rw [h1]; exact vexp e (hsub e he)⟩⟩, ?_⟩, ?_⟩
  · intro hne
    rw [h1]; apply gs
    rw [h2]; intro h; apply hne; exact (List.append_eq_nil_iff.mp h).1
  · intro e he
    have hd : g'.dbn = g.dbn := by simp [KGroup.dbn, h1]
    rw [hd]
    rcases List.mem_cons.mp he with rfl | he
    · rw [h1]; exact hone g.1 (List.mem_cons_self ..)
    · exact hone e (List.mem_cons_of_mem _ (hsub e he))
  · intro ha c hc
    apply ha c
    rcases List.mem_append.mp hc with hc | hc
    · exact List.mem_append_left _ (by rw [← h1]; exact hc)
    · refine List.mem_append_right _ ?_
      obtain ⟨e, he, hce⟩ := List.mem_flatMap.mp hc
      exact List.mem_flatMap.mpr ⟨e, hsub e he, hce⟩

/-- the first `m` entries of a real stream are a real stream -/
theorem stream_take (w : WCfg) (gs : List KGroup) (es : List Entry) (m : Nat) (hs : StreamOf es gs)
    (hg : ∀ g ∈ gs, GoodGroup g ∧ g.oneDb) (ha : w.rht = true → ∀ g ∈ gs, ArgsOK g) :
    ∃ gs', StreamOf (es.take m) gs' ∧ (∀ g ∈ gs', GoodGroup g ∧ g.oneDb) ∧ (w.rht = true → ∀ g ∈ gs', ArgsOK g) := by
  obtain ⟨j, hj⟩ := filter_take_prefix (fun e => !keyless e) es m
  obtain ⟨gs', h1, h2⟩ := flat_take gs j
  refine ⟨gs', ?_, ?_, ?_⟩
  · unfold StreamOf at hs ⊢; rw [hj, hs, h1]
  · intro g' hg'
    obtain ⟨g, hgm, r, e1, e2⟩ := h2 g' hg'
    exact (good_prefix g g' r e1 e2 (hg g hgm)).1
  · intro hr g' hg'
    obtain ⟨g, hgm, r, e1, e2⟩ := h2 g' hg'
    exact (good_prefix g g' r e1 e2 (hg g hgm)).2 (ha hr g hgm)

theorem plainEff_set_none (pol : Policy) (cfg : Cfg) (hp : pol ≠ .replace) (t : Target) (g : KGroup) (o : Obj)
    (h : plainEff pol cfg t g = .set o) : t.get g.key = none := by
  cases pol with
  | replace => exact absurd rfl hp
  | ignore => simp only [plainEff] at h; split at h <;> simp_all
  | error => simp only [plainEff] at h; split at h <;> simp_all

theorem bisyncEff_set_none (pol : Policy) (cfg : Cfg) (hp : pol ≠ .replace) (t : Target) (g : KGroup) (o : Obj)
    (h : bisyncEff pol cfg t g = .set o) : t.get g.key = none := by
  cases hx : t.get g.key with
  | none => rfl
  | some x => cases pol <;> simp [bisyncEff, hx] at h hp

/-- **`ignore` / `error`, N workers, ANY schedule, ANY moves of the environment**: whenever worker `i` has nothing pending,
    every cell of its keys that the target held at the start is exactly as it was -/
theorem conc_held_unchanged (E : Env) (n : Nat) (ks0 : KS) (gs : List KGroup) (es : List Entry)
    (hs : StreamOf es gs) (hg : ∀ g ∈ gs, GoodGroup g ∧ g.oneDb) (ha : E.w.rht = true → ∀ g ∈ gs, ArgsOK g)
    (hpol : E.pol ≠ .replace) (sched : List Move) (i : Nat) (W : WSt)
    (hi : (Sys.run E (Sys.init E n ks0 es) sched).ws[i]? = some W) (hp : W.pend = []) :
    ∀ d k v, fnv32a k % n = i → ks0 d k = some v → (Sys.run E (Sys.init E n ks0 es) sched).ks d k = some v := by
  intro d k v hk hv
  have hc := cmdsOnTarget_of_good E.w gs es hs hg ha
  have hg1 : ∀ g ∈ gs, GoodGroup g := fun g h => (hg g h).1
  rw [conc_boundary E n ks0 es hc sched i W hi hp d k hk]
  unfold soloResult
  have hsq := stream_queueOf E.w n i gs es hs hg1
  obtain ⟨gs', t1, t2, t3⟩ := stream_take E.w (gs.filter (routedG E.w n i)) (queueOf E.w n es i) W.done hsq
    (fun g h => hg g (List.mem_filter.mp h).1) (fun h g hm => ha h g (List.mem_filter.mp hm).1)
  rw [seqW_workerF E.w E.bisync E.pol E.cfg 0 none (E.tgt 0 ks0) gs' _ t1 rfl t2 t3]
  apply seqW_keeps_held
  · intro t g o h
    cases hb : E.bisync with
    | true => rw [hb] at h; exact bisyncEff_set_none E.pol E.cfg hpol t g o h
    | false => rw [hb] at h; exact plainEff_set_none E.pol E.cfg hpol t g o h
  · exact hv

/-- … **and once worker `i` has halted** — it failed on a key that exists, drained its pipe, or OBSERVED the cancel that
    another worker's key-exists error (or the environment) raised — **those cells stay as they were for ever**, whatever
    the workers still running and the environment do -/
theorem conc_held_frozen (E : Env) (n : Nat) (ks0 : KS) (gs : List KGroup) (es : List Entry)
    (hs : StreamOf es gs) (hg : ∀ g ∈ gs, GoodGroup g ∧ g.oneDb) (ha : E.w.rht = true → ∀ g ∈ gs, ArgsOK g)
    (hpol : E.pol ≠ .replace) (sched more : List Move) (i : Nat) (W : WSt)
    (hi : (Sys.run E (Sys.init E n ks0 es) sched).ws[i]? = some W) (hh : W.halted = true) :
    ∀ d k v, fnv32a k % n = i → ks0 d k = some v →
      (Sys.run E (Sys.run E (Sys.init E n ks0 es) sched) more).ks d k = some v := by
  intro d k v hk hv
  have hc := cmdsOnTarget_of_good E.w gs es hs hg ha
  have hinv := Inv.run E (keysOf n) (keysOf_disjoint n) ks0 _ sched _ (init_inv E n ks0 es hc)
  rw [conc_halted_frozen E n ks0 es hc sched more i W hi hh d k hk]
  exact conc_held_unchanged E n ks0 gs es hs hg ha hpol sched i W hi ((hinv.wok i W hi).halt hh) d k v hk hv

/-! ## non-vacuity: two workers, `h` (three chunks, held by the target) and `i` (absent) -/

def exEnv (pol : Policy) : Env := { w := {}, bisync := false, pol := pol, cfg := exCfg, now := 1000, bad := fun _ => false }
def exEs : List Entry := [exAux, exE0, exE1, exE2, exFn, exK]

-- routing: `h` → worker 1, `i` → worker 0 (of 2); the AUX field by its name; the function library round-robin
example : (routeAll {} 2 0 exEs).map (·.1) = [1, 1, 1, 1, 0, 0] := by decide
example : queueOf {} 2 exEs 1 = [exAux, exE0, exE1, exE2] := by decide
example : queueOf {} 2 exEs 0 = [exFn, exK] := by decide
-- the EMPTY key is a key: hashed, never round-robin
example : route {} 3 { exE0 with key := [] } 0 = route {} 3 { exE1 with key := [] } 2 := by decide
example : ∀ idx, route {} 3 { exE0 with key := [] } idx = fnv32a [] % 3 := fun idx => route_keyed {} 3 _ idx (by decide)
-- `{h}` and `h` under replaceHashTag: one worker (they would part without it: 123 ⊕ 125 changes the hash)
example : route { rht := true } 7 exTagE 0 = route { rht := true } 7 exR 3 :=
  route_same_target_key { rht := true } 7 exTagE exR 0 3 (by decide) (by decide) (by decide)
example : route {} 7 exTagE 0 ≠ route {} 7 exR 3 := by decide
example : ∀ e ∈ exG1.entries, ∀ idx, route {} 2 e idx = 1 := fun e he idx => by
  rw [group_one_worker {} 2 exG1 exG1_good e he idx]; decide

theorem exEs_cmds (w : WCfg) (hw : w.rht = false) : CmdsOnTarget w exEs := by
  intro e he hk c hc
  have h0 : retag w.rht e = e := by simp [retag, hw]
  rw [h0] at hc ⊢
  simp [exEs] at he
  rcases he with rfl | rfl | rfl | rfl | rfl | rfl
  · exact absurd hk (by decide)
  · simp [exE0] at hc; subst hc; rfl
  · simp [exE1, exE0] at hc; subst hc; rfl
  · simp [exE2, exE0] at hc; subst hc; rfl
  · exact absurd hk (by decide)
  · simp [exK, exR, exE0] at hc; subst hc; rfl

-- a schedule: worker 1 takes the AUX entry, `h` chunk 1 and probes; worker 0 takes the function library and `i` and RESTOREs it
-- between the chunks of `h`; both drain. ignore: `h` untouched, `i` written — as one worker would leave them.
def exSched : List Move := works
  [(1, false), (0, false), (1, false), (0, false), (0, false), (1, false), (0, false), (1, false), (0, false), (1, false), (0, false), (1, false)]

example : (Sys.run (exEnv .ignore) (Sys.init (exEnv .ignore) 2 exT.ks exEs) exSched).ks 0 [104] = some { val := .old 0, exp := 777 } := by
  decide
example : (Sys.run (exEnv .ignore) (Sys.init (exEnv .ignore) 2 exT.ks exEs) exSched).ks 0 [105] = some { val := .restored [4, 3], exp := 5000 } := by
  decide
theorem exSched_halted : ((Sys.run (exEnv .ignore) (Sys.init (exEnv .ignore) 2 exT.ks exEs) exSched).ws.map (·.halted)) = [true, true] := by
  decide
theorem exSched_quiet : ∀ (i : Nat) (W : WSt),
    (Sys.run (exEnv .ignore) (Sys.init (exEnv .ignore) 2 exT.ks exEs) exSched).ws[i]? = some W → W.halted = true := by
  intro i W h
  have hm : (Sys.run (exEnv .ignore) (Sys.init (exEnv .ignore) 2 exT.ks exEs) exSched).ws.map (·.halted) = [true, true] := exSched_halted
  have : ((Sys.run (exEnv .ignore) (Sys.init (exEnv .ignore) 2 exT.ks exEs) exSched).ws.map (·.halted))[i]? = some W.halted := by
    rw [List.getElem?_map, h]; rfl
  rw [hm] at this
  match i, this with
  | 0, t => simpa using t.symm
  | 1, t => simpa using t.symm
  | n + 2, t => simp at t
theorem exStreamConc : StreamOf exEs [exG1, exG2] := by unfold StreamOf; decide
theorem ex_goodConc : ∀ g ∈ [exG1, exG2], GoodGroup g ∧ g.oneDb := by
  intro g hg; simp at hg; rcases hg with rfl | rfl
  · exact ex_goodW exG1 (by simp)
  · exact ⟨exG2_good, by intro e he; simp [KGroup.entries, exG2] at he; subst he; rfl⟩
-- the theorems, instantiated on this run
example : (Sys.run (exEnv .ignore) (Sys.init (exEnv .ignore) 2 exT.ks exEs) exSched).ks
    = (workerTarget ((exEnv .ignore).tgt 0 exT.ks) (runWorkerF {} false .ignore exCfg 0 none ((exEnv .ignore).tgt 0 exT.ks) exEs)).ks :=
  conc_is_one_worker (exEnv .ignore) 2 (by decide) exT.ks [exG1, exG2] exEs exStreamConc ex_goodConc (fun h => absurd h (by decide))
    (by decide) (fun h => absurd h (by decide)) exSched exSched_quiet (by decide) (by decide)
example : ∀ d k, fnv32a k % 2 = 1 → (Sys.run (exEnv .ignore) (Sys.init (exEnv .ignore) 2 exT.ks exEs) exSched).ks d k
    = soloResult (exEnv .ignore) 2 exT.ks exEs 1 4 d k :=
  conc_quiescent (exEnv .ignore) 2 exT.ks exEs (exEs_cmds {} rfl) exSched exSched_quiet (by decide) (by decide) 1 (by decide)

-- `error`: worker 1 fails on `h` and raises the cancel; worker 0 has replayed the function library only, OBSERVES the cancel and
-- halts: `i` stays absent, and stays so whatever is scheduled afterwards
def exSchedE : List Move := works [(0, false), (1, false), (1, false), (1, false), (1, false), (0, false), (0, true)]
example : (Sys.run (exEnv .error) (Sys.init (exEnv .error) 2 exT.ks exEs) exSchedE).cancel = true := by decide
example : ((Sys.run (exEnv .error) (Sys.init (exEnv .error) 2 exT.ks exEs) exSchedE).ws.map (fun W => (W.halted, W.done, W.out)))
    = [(true, 1, .ok), (true, 2, .errExists)] := by decide
example : (Sys.run (exEnv .error) (Sys.init (exEnv .error) 2 exT.ks exEs) exSchedE).ks 0 [105] = none := by decide
theorem exSchedE_w0 : ∃ W, (Sys.run (exEnv .error) (Sys.init (exEnv .error) 2 exT.ks exEs) exSchedE).ws[0]? = some W ∧ W.halted = true ∧ W.pend = [] ∧ W.done = 1 := by
  refine ⟨_, rfl, ?_, ?_, ?_⟩ <;> decide
example : ∀ more d k, fnv32a k % 2 = 0 →
    (Sys.run (exEnv .error) (Sys.run (exEnv .error) (Sys.init (exEnv .error) 2 exT.ks exEs) exSchedE) more).ks d k
      = (Sys.run (exEnv .error) (Sys.init (exEnv .error) 2 exT.ks exEs) exSchedE).ks d k := by
  obtain ⟨W, h1, h2, _, _⟩ := exSchedE_w0
  exact fun more => conc_halted_frozen (exEnv .error) 2 exT.ks exEs (exEs_cmds {} rfl) exSchedE more 0 W h1 h2
example : ∀ d k, fnv32a k % 2 = 0 →
    (Sys.run (exEnv .error) (Sys.init (exEnv .error) 2 exT.ks exEs) exSchedE).ks d k = soloResult (exEnv .error) 2 exT.ks exEs 0 1 d k := by
  obtain ⟨W, h1, _, h3, h4⟩ := exSchedE_w0
  rw [← h4]
  exact conc_boundary (exEnv .error) 2 exT.ks exEs (exEs_cmds {} rfl) exSchedE 0 W h1 h3
-- Go's select may as well take the next entry although the context is cancelled: `i` is written in that schedule
example : (Sys.run (exEnv .error) (Sys.init (exEnv .error) 2 exT.ks exEs)
    (works [(0, false), (1, false), (1, false), (1, false), (1, false), (0, false), (0, false), (0, false), (0, true)])).ks 0 [105]
    = some { val := .restored [4, 3], exp := 5000 } := by decide
example : wstep (exEnv .error) true true { queue := [exK] } exT.ks = ({ queue := [exK], halted := true }, exT.ks, false) :=
  observe_halts (exEnv .error) _ _ rfl rfl rfl

-- `ignore` / `error`: the cell the target held (`h`, worker 1's key) is as it was at worker 1's halt — and for ever after
theorem exSchedE_w1 : ∃ W, (Sys.run (exEnv .error) (Sys.init (exEnv .error) 2 exT.ks exEs) exSchedE).ws[1]? = some W ∧ W.halted = true ∧ W.pend = [] := by
  refine ⟨_, rfl, ?_, ?_⟩ <;> decide
example : (Sys.run (exEnv .error) (Sys.init (exEnv .error) 2 exT.ks exEs) exSchedE).ks 0 [104] = some { val := .old 0, exp := 777 } := by
  obtain ⟨W, h1, _, h3⟩ := exSchedE_w1
  exact conc_held_unchanged (exEnv .error) 2 exT.ks [exG1, exG2] exEs exStreamConc ex_goodConc (fun h => absurd h (by decide)) (by decide)
    exSchedE 1 W h1 h3 0 [104] _ (by decide) rfl
example : ∀ more, (Sys.run (exEnv .error) (Sys.run (exEnv .error) (Sys.init (exEnv .error) 2 exT.ks exEs) exSchedE) more).ks 0 [104]
    = some { val := .old 0, exp := 777 } := by
  obtain ⟨W, h1, h2, _⟩ := exSchedE_w1
  exact fun more => conc_held_frozen (exEnv .error) 2 exT.ks [exG1, exG2] exEs exStreamConc ex_goodConc (fun h => absurd h (by decide)) (by decide)
    exSchedE more 1 W h1 h2 0 [104] _ (by decide) rfl

-- moves of the environment. A cancel from OUTSIDE (the distributor's error, the parent context) under `ignore`: worker 0 has
-- replayed the function library, worker 1 nothing; both observe and halt with entries left in their pipes …
def exSchedX : List Move := [.work 0 false, .work 0 false, .cancel, .work 0 true, .work 1 true]
example : ((Sys.run (exEnv .ignore) (Sys.init (exEnv .ignore) 2 exT.ks exEs) exSchedX).ws.map (fun W => (W.halted, W.done, W.queue.length)))
    = [(true, 1, 1), (true, 0, 4)] := by decide
-- … a state no worker-only schedule reaches under `ignore`; the theorems cover it: `i` stays absent whatever follows
theorem exSchedX_w0 : ∃ W, (Sys.run (exEnv .ignore) (Sys.init (exEnv .ignore) 2 exT.ks exEs) exSchedX).ws[0]? = some W ∧ W.halted = true ∧ W.pend = [] ∧ W.done = 1 := by
  refine ⟨_, rfl, ?_, ?_, ?_⟩ <;> decide
example : ∀ more d k, fnv32a k % 2 = 0 →
    (Sys.run (exEnv .ignore) (Sys.run (exEnv .ignore) (Sys.init (exEnv .ignore) 2 exT.ks exEs) exSchedX) more).ks d k
      = soloResult (exEnv .ignore) 2 exT.ks exEs 0 1 d k := by
  obtain ⟨W, h1, h2, h3, h4⟩ := exSchedX_w0
  intro more d k hk
  rw [conc_halted_frozen (exEnv .ignore) 2 exT.ks exEs (exEs_cmds {} rfl) exSchedX more 0 W h1 h2 d k hk, ← h4]
  exact conc_boundary (exEnv .ignore) 2 exT.ks exEs (exEs_cmds {} rfl) exSchedX 0 W h1 h3 d k hk
-- the distributor stops early: pipe 0 is closed with the function library only, pipe 1 after the AUX entry and the first chunk
-- of `h`; both workers drain what they got and halt WITHOUT a cancel — `i` is never replayed, no pipe was taken whole
def exSchedC : List Move := [.close 0 1, .close 1 2] ++ works (List.replicate 6 (0, false) ++ List.replicate 6 (1, false))
example : ((Sys.run (exEnv .ignore) (Sys.init (exEnv .ignore) 2 exT.ks exEs) exSchedC).ws.map (fun W => (W.halted, W.done, W.queue.length)))
    = [(true, 1, 0), (true, 2, 0)] := by decide
example : (Sys.run (exEnv .ignore) (Sys.init (exEnv .ignore) 2 exT.ks exEs) exSchedC).cancel = false ∧
    (Sys.run (exEnv .ignore) (Sys.init (exEnv .ignore) 2 exT.ks exEs) exSchedC).cut = true ∧
    (Sys.run (exEnv .ignore) (Sys.init (exEnv .ignore) 2 exT.ks exEs) exSchedC).ks 0 [105] = none := by decide

-- the D32 configuration: BIDIRECTIONAL, replaceHashTag, TargetDb = 0, a key filter; 7 workers. `{h}` (DB 0) and `h` (DB 1) are
-- replayed to the one cell (0, h) by ONE worker (1), `i` (worker 3) is filtered
def exEnvD : Env := { w := { rht := true, targetDb := 0, filterKey := fun k => k == [105] }, bisync := true, pol := .replace,
                      cfg := exCfg, now := 1000, bad := fun _ => false }
def exD : List Entry := [exTagE, exK, exR1]
def exSchedD : List Move := works (List.replicate 14 (1, false) ++ List.replicate 4 (3, false))
example : (routeAll exEnvD.w 7 0 exD).map (·.1) = [1, 3, 1] := by decide
theorem exD_cmds : CmdsOnTarget exEnvD.w exD := by
  intro e he hk c hc
  simp [exD] at he
  rcases he with rfl | rfl | rfl <;> revert c <;> decide
theorem exD_w1 : ∃ W, (Sys.run exEnvD (Sys.init exEnvD 7 exT.ks exD) exSchedD).ws[1]? = some W ∧ W.halted = true ∧ W.pend = [] ∧ W.done = 2 := by
  refine ⟨_, rfl, ?_, ?_, ?_⟩ <;> decide
example : (Sys.run exEnvD (Sys.init exEnvD 7 exT.ks exD) exSchedD).ks 0 [104] = soloResult exEnvD 7 exT.ks exD 1 2 0 [104] := by
  obtain ⟨W, h1, _, h3, h4⟩ := exD_w1
  rw [← h4]
  exact conc_boundary exEnvD 7 exT.ks exD exD_cmds exSchedD 1 W h1 h3 0 [104] (by decide)
example : soloResult exEnvD 7 exT.ks exD 1 2 0 [104] = some { val := .restored [4, 3], exp := 5000 } := by decide
example : (Sys.run exEnvD (Sys.init exEnvD 7 exT.ks exD) exSchedD).ks 0 [105] = none := by decide

end GunYu.Props.C20
