/-
  C20 — pre-existing target keys are handled as the configured policy says, on
  any path (RESTORE payload, native commands, several chunks), plain and
  bidirectional replay.

  Setting. One replay worker (`runPlain` = RdbReplay.Replay per entry,
  `runBisync` = buildBisyncRdbReplayUnit + execBisyncRdbUnit per entry) receives
  the chunks `e0 :: rest` of ONE snapshot key in order (`Group`: `e0` is the
  first bin; every later bin has the same key and is a non-first bin of a split
  value — any number of them). The target `t` is arbitrary (any prior content:
  same or other type, with or without expiry — a pre-existing value is an opaque
  `Val.old`), the worker's remembered state `st` is arbitrary, the configuration
  (restore on/off, bulk limit, target version, clock) is arbitrary; which path
  is taken is decided by `useRestore cfg e0`, and both cases are covered by each
  theorem.

  The models are of the REPAIRED code (D7: `ignore` on the expansion path).
-/
import GunYu.Proofs.Restore

namespace GunYu.Props.C20
open GunYu GunYu.Restore

/-- the chunks of one snapshot key as a worker receives them -/
structure Group (e0 : Entry) (rest : List Entry) : Prop where
  data  : e0.otype = .data
  first : e0.first = true
  later : ∀ e ∈ rest, Later e0.key e
  split : rest ≠ [] → e0.splited = true

/-- the expansion of every chunk consists of commands on the key itself, and
    later chunks carry the key's expiry or none (loader before/after D8) -/
structure Value (e0 : Entry) (rest : List Entry) : Prop where
  c0  : ∀ c ∈ e0.cmds, cmdKey c = e0.key
  ne  : e0.cmds ≠ []
  cr  : ∀ e ∈ rest, ∀ c ∈ e.cmds, cmdKey c = e0.key
  exp : ∀ e ∈ rest, e.expireAt = 0 ∨ e.expireAt = e0.expireAt

/-- exactly the snapshot's value and expiry, as an object on target `t`: the
    RESTOREd payload when the RESTORE path is taken and the target can load it,
    otherwise the value built by the native commands of all chunks -/
def snapshotObj (cfg : Cfg) (t : Target) (e0 : Entry) (rest : List Entry) : Obj :=
  if useRestore cfg e0 = true ∧ t.bad e0.key = false then
    { val := .restored e0.dump, exp := expAbs cfg t.now e0.expireAt }
  else { val := .native (e0.cmds ++ rest.flatMap (·.cmds)), exp := expAbs cfg t.now e0.expireAt }

/-- the single request allowed on an existing key under `ignore` / `error`:
    the probe (EXISTS on the expansion path; on the RESTORE path the RESTORE
    without REPLACE, which the target refuses with BUSYKEY) -/
def probe (cfg : Cfg) (e0 : Entry) : Req :=
  if useRestore cfg e0 then Req.restore e0.key (ttlMs cfg.now e0.expireAt) e0.dump (restoreOpts cfg e0) false
  else Req.exists e0.key

private theorem rest_nil_of_restore {cfg : Cfg} {e0 : Entry} {rest : List Entry} (g : Group e0 rest)
    (hu : useRestore cfg e0 = true) : rest = [] := by
  by_cases h : rest = []
  · exact h
  · have := useRestore_split (cfg := cfg) (g.split h)
    rw [this] at hu; cases hu

private theorem view_some {t : Target} {e : Entry} {o : Obj} (h : t.get e.key = some o) :
    viewOf t e = { keyExists := true, badData := t.bad e.key } := by simp [viewOf, h]

private theorem view_none {t : Target} {e : Entry} (h : t.get e.key = none) :
    viewOf t e = { keyExists := false, badData := t.bad e.key } := by simp [viewOf, h]

private theorem probe_ks (cfg : Cfg) (t : Target) (e0 : Entry) (o : Obj) (hex : t.get e0.key = some o) :
    ∀ d k, (applyReqs t [probe cfg e0]).ks d k = t.ks d k := by
  intro d k
  simp only [applyReqs, List.foldl_cons, List.foldl_nil]
  unfold probe
  split
  · rw [applyReq_ks _ _ (by simp [noSel])]
    by_cases hd : d = t.cur
    · subst hd
      simp only [if_true, objStep, reqKey]
      by_cases hk : e0.key = k
      · subst hk
        have : t.ks t.cur e0.key = some o := hex
        simp [objEffect, this]
      · simp [hk]
    · simp [hd]
  · rfl

/-! ## plain replay (pkg/rdbrestore RdbReplay.Replay) -/

/-- **ignore**: an existing key is left exactly as it is — value, type, expiry —
    and after the probe no request at all is issued, for EVERY chunk of it, on
    either path. -/
theorem ignore_untouched (cfg : Cfg) (st : RState) (t : Target) (e0 : Entry) (rest : List Entry) (o : Obj)
    (g : Group e0 rest) (hex : t.get e0.key = some o) :
    (runPlain .ignore cfg st t (e0 :: rest)).out = .ok ∧
    (runPlain .ignore cfg st t (e0 :: rest)).reqs = [probe cfg e0] ∧
    (∀ d k, (runPlain .ignore cfg st t (e0 :: rest)).tgt.ks d k = t.ks d k) ∧
    (runPlain .ignore cfg st t (e0 :: rest)).tgt.cur = t.cur := by
  by_cases hu : useRestore cfg e0 = true
  · have hr : rest = [] := rest_nil_of_restore g hu
    subst hr
    have h : replay .ignore cfg st (viewOf t e0) e0 = ([probe cfg e0], .ok, st) := by
      rw [view_some hex]; simp [replay, g.data, hu, probe]
    obtain ⟨h1, h2, _, h4⟩ := runPlain_cons_ok _ _ _ _ _ [] _ _ h
    simp only [runPlain_nil, List.append_nil] at h1 h2 h4
    refine ⟨h2, h1, ?_, ?_⟩
    · rw [h4]; exact probe_ks cfg t e0 o hex
    · rw [h4]; exact applyReqs_cur _ _ (by intro r hr; simp at hr; subst hr; unfold probe; split <;> simp [noSel])
  · have hu' : useRestore cfg e0 = false := by simpa using hu
    have h : replay .ignore cfg st (viewOf t e0) e0 = ([probe cfg e0], .ok, some e0.key) := by
      rw [view_some hex]; simp [replay, g.data, hu', g.first, probe]
    obtain ⟨h1, h2, _, h4⟩ := runPlain_cons_ok _ _ _ _ _ rest _ _ h
    obtain ⟨s1, s2, s3⟩ := runPlain_later_skip .ignore cfg e0.key rest (applyReqs t [probe cfg e0]) g.later
    rw [s1] at h1; rw [s2] at h2; rw [s3] at h4
    refine ⟨h2, by simpa using h1, ?_, ?_⟩
    · rw [h4]; exact probe_ks cfg t e0 o hex
    · rw [h4]; exact applyReqs_cur _ _ (by intro r hr; simp at hr; subst hr; unfold probe; split <;> simp [noSel])

/-- **error**: the replay stops with the key-exists error, having sent only the
    probe; the key (and everything else) is unmodified. -/
theorem error_before_modify (cfg : Cfg) (st : RState) (t : Target) (e0 : Entry) (rest : List Entry) (o : Obj)
    (g : Group e0 rest) (hex : t.get e0.key = some o) :
    (runPlain .error cfg st t (e0 :: rest)).out = .errExists ∧
    (runPlain .error cfg st t (e0 :: rest)).reqs = [probe cfg e0] ∧
    (∀ d k, (runPlain .error cfg st t (e0 :: rest)).tgt.ks d k = t.ks d k) := by
  have h : ∃ st', replay .error cfg st (viewOf t e0) e0 = ([probe cfg e0], .errExists, st') := by
    rw [view_some hex]
    by_cases hu : useRestore cfg e0 = true
    · exact ⟨st, by simp [replay, g.data, hu, probe]⟩
    · have hu' : useRestore cfg e0 = false := by simpa using hu
      exact ⟨none, by simp [replay, g.data, hu', g.first, probe]⟩
  obtain ⟨st', h⟩ := h
  obtain ⟨h1, h2, h3⟩ := runPlain_cons_err _ _ _ _ _ rest _ _ _ (by simp) h
  refine ⟨h2, h1, ?_⟩
  rw [h3]; exact probe_ks cfg t e0 o hex

private theorem restore_exp (cfg : Cfg) (tnow E : Nat) :
    (if ttlMs cfg.now E = 0 then 0 else tnow + ttlMs cfg.now E) = expAbs cfg tnow E := by
  unfold expAbs
  by_cases h : E = 0
  · simp [h, ttlMs]
  · simp [h, ttlMs_pos h]

/-- what the key holds after a request list that (re)creates it from the
    snapshot: shared by the plain and the bidirectional theorem -/
private theorem final_of_reqs (t : Target) (e0 : Entry) (L : List Req)
    (hon : ∀ r ∈ L, onKey e0.key r) (want : Obj)
    (hobj : objSteps e0.key t.now (t.get e0.key) L = some want) :
    (applyReqs t L).get e0.key = some want ∧
    (∀ d k, ¬ (d = t.cur ∧ k = e0.key) → (applyReqs t L).ks d k = t.ks d k) ∧
    (applyReqs t L).cur = t.cur := by
  have hns : ∀ r ∈ L, noSel r := fun r hr => onKey_noSel (hon r hr)
  refine ⟨?_, ?_, applyReqs_cur t L hns⟩
  · rw [applyReqs_get t L hns]; exact hobj
  · intro d k hne; exact applyReqs_frame t L e0.key hon d k hne

/-- **replace**: whatever the key held before (any type, any expiry, or
    nothing), the old value is removed and the target ends with exactly the
    snapshot's value and expiry; nothing else on the target changes. -/
theorem replace_final (cfg : Cfg) (st : RState) (t : Target) (e0 : Entry) (rest : List Entry)
    (g : Group e0 rest) (v : Value e0 rest) :
    (runPlain .replace cfg st t (e0 :: rest)).out = .ok ∧
    (runPlain .replace cfg st t (e0 :: rest)).tgt.get e0.key = some (snapshotObj cfg t e0 rest) ∧
    (∀ d k, ¬ (d = t.cur ∧ k = e0.key) → (runPlain .replace cfg st t (e0 :: rest)).tgt.ks d k = t.ks d k) ∧
    (runPlain .replace cfg st t (e0 :: rest)).tgt.cur = t.cur := by
  have hlater : ∀ e ∈ rest, e.key = e0.key ∧ (∀ c ∈ e.cmds, cmdKey c = e0.key) ∧ (e.expireAt = 0 ∨ e.expireAt = e0.expireAt) :=
    fun e he => ⟨(g.later e he).key, v.cr e he, v.exp e he⟩
  by_cases hu : useRestore cfg e0 = true
  · -- RESTORE path
    have hr : rest = [] := rest_nil_of_restore g hu
    subst hr
    let r0 := Req.restore e0.key (ttlMs cfg.now e0.expireAt) e0.dump (restoreOpts cfg e0) false
    let r1 := Req.restore e0.key (ttlMs cfg.now e0.expireAt) e0.dump (restoreOpts cfg e0) true
    let b0 := Req.restoreBad e0.key (ttlMs cfg.now e0.expireAt) e0.dump (restoreOpts cfg e0) false
    let b1 := Req.restoreBad e0.key (ttlMs cfg.now e0.expireAt) e0.dump (restoreOpts cfg e0) true
    have hexp_on := expand_onKey cfg e0.key e0 rfl v.c0
    have hexp0 := objSteps_expand_none cfg e0.key t.now e0 rfl v.c0 v.ne
    cases hbad : t.bad e0.key with
    | true =>
      -- the target refuses the payload: fallback to the expansion branch (D24)
      cases hex : t.get e0.key with
      | some o =>
        have h : replay .replace cfg st (viewOf t e0) e0 =
            (r0 :: b1 :: Req.exists e0.key :: Req.del e0.key :: expand cfg e0, .ok, none) := by
          rw [view_some hex]; simp [replay, g.data, hu, hbad, r0, b1]
        obtain ⟨_, h2, _, h4⟩ := runPlain_cons_ok _ _ _ _ _ [] _ _ h
        simp only [runPlain_nil] at h2 h4
        rw [h2, h4]
        refine ⟨rfl, ?_⟩
        apply final_of_reqs t e0 _ (by
          intro r hr
          simp only [List.mem_cons] at hr
          rcases hr with rfl | rfl | rfl | rfl | hr
          · simp [onKey, r0]
          · simp [onKey, b1]
          · simp [onKey]
          · simp [onKey]
          · exact hexp_on r hr)
        have : objSteps e0.key t.now (some o) (r0 :: b1 :: Req.exists e0.key :: Req.del e0.key :: expand cfg e0)
            = objSteps e0.key t.now none (expand cfg e0) := by
          simp [objSteps, objStep, reqKey, objEffect, r0, b1]
        rw [hex, this, hexp0]
        simp [snapshotObj, hu, hbad]
      | none =>
        have h : replay .replace cfg st (viewOf t e0) e0 = (b0 :: Req.exists e0.key :: expand cfg e0, .ok, none) := by
          rw [view_none hex]; simp [replay, g.data, hu, hbad, b0]
        obtain ⟨_, h2, _, h4⟩ := runPlain_cons_ok _ _ _ _ _ [] _ _ h
        simp only [runPlain_nil] at h2 h4
        rw [h2, h4]
        refine ⟨rfl, ?_⟩
        apply final_of_reqs t e0 _ (by
          intro r hr
          simp only [List.mem_cons] at hr
          rcases hr with rfl | rfl | hr
          · simp [onKey, b0]
          · simp [onKey]
          · exact hexp_on r hr)
        have : objSteps e0.key t.now none (b0 :: Req.exists e0.key :: expand cfg e0)
            = objSteps e0.key t.now none (expand cfg e0) := by
          simp [objSteps, objStep, reqKey, b0]
        rw [hex, this, hexp0]
        simp [snapshotObj, hu, hbad]
    | false =>
    cases hex : t.get e0.key with
    | some o =>
      have h : replay .replace cfg st (viewOf t e0) e0 = ([r0, r1], .ok, st) := by
        rw [view_some hex]; simp [replay, g.data, hu, hbad, r0, r1]
      obtain ⟨_, h2, _, h4⟩ := runPlain_cons_ok _ _ _ _ _ [] _ _ h
      simp only [runPlain_nil] at h2 h4
      rw [h2, h4]
      refine ⟨rfl, ?_⟩
      apply final_of_reqs t e0 [r0, r1] (by intro r hr; simp at hr; rcases hr with rfl | rfl <;> simp [onKey, r0, r1])
      simp [objSteps, objStep, reqKey, objEffect, hex, r0, r1, snapshotObj, hu, hbad, restore_exp]
    | none =>
      have h : replay .replace cfg st (viewOf t e0) e0 = ([r0], .ok, st) := by
        rw [view_none hex]; simp [replay, g.data, hu, hbad, r0]
      obtain ⟨_, h2, _, h4⟩ := runPlain_cons_ok _ _ _ _ _ [] _ _ h
      simp only [runPlain_nil] at h2 h4
      rw [h2, h4]
      refine ⟨rfl, ?_⟩
      apply final_of_reqs t e0 [r0] (by intro r hr; simp at hr; subst hr; simp [onKey, r0])
      simp [objSteps, objStep, reqKey, objEffect, hex, r0, snapshotObj, hu, hbad, restore_exp]
  · -- expansion path
    have hu' : useRestore cfg e0 = false := by simpa using hu
    have hexp_on := expand_onKey cfg e0.key e0 rfl v.c0
    have hrest_on := flatMap_expand_onKey cfg e0.key rest (fun e he => ⟨(hlater e he).1, (hlater e he).2.1⟩)
    have hfirst : objSteps e0.key t.now none (expand cfg e0 ++ rest.flatMap (expand cfg))
        = some (snapshotObj cfg t e0 rest) := by
      rw [objSteps_append, objSteps_expand_none cfg e0.key t.now e0 rfl v.c0 v.ne,
        objSteps_later cfg e0.key t.now e0.expireAt rest e0.cmds hlater]
      simp [snapshotObj, hu']
    have hl := fun t' => runPlain_later_expand .replace cfg e0.key none (by simp) rest t' g.later
    cases hex : t.get e0.key with
    | some o =>
      have h : replay .replace cfg st (viewOf t e0) e0 = (Req.exists e0.key :: Req.del e0.key :: expand cfg e0, .ok, none) := by
        rw [view_some hex]; simp [replay, g.data, hu', g.first]
      obtain ⟨_, h2, _, h4⟩ := runPlain_cons_ok _ _ _ _ _ rest _ _ h
      rw [h2, h4, (hl _).2.1, (hl _).2.2, ← applyReqs_append]
      refine ⟨rfl, ?_⟩
      apply final_of_reqs t e0 _ (by
        intro r hr
        simp only [List.cons_append, List.mem_cons, List.mem_append] at hr
        rcases hr with rfl | rfl | hr | hr
        · simp [onKey]
        · simp [onKey]
        · exact hexp_on r hr
        · exact hrest_on r hr)
      have : objSteps e0.key t.now (some o) (Req.exists e0.key :: Req.del e0.key :: (expand cfg e0 ++ rest.flatMap (expand cfg)))
          = objSteps e0.key t.now none (expand cfg e0 ++ rest.flatMap (expand cfg)) := by
        simp [objSteps, objStep, reqKey, objEffect]
      rw [hex]
      simp only [List.cons_append]
      rw [this]
      exact hfirst
    | none =>
      have h : replay .replace cfg st (viewOf t e0) e0 = (Req.exists e0.key :: expand cfg e0, .ok, none) := by
        rw [view_none hex]; simp [replay, g.data, hu', g.first]
      obtain ⟨_, h2, _, h4⟩ := runPlain_cons_ok _ _ _ _ _ rest _ _ h
      rw [h2, h4, (hl _).2.1, (hl _).2.2, ← applyReqs_append]
      refine ⟨rfl, ?_⟩
      apply final_of_reqs t e0 _ (by
        intro r hr
        simp only [List.cons_append, List.mem_cons, List.mem_append] at hr
        rcases hr with rfl | hr | hr
        · simp [onKey]
        · exact hexp_on r hr
        · exact hrest_on r hr)
      have : objSteps e0.key t.now none (Req.exists e0.key :: (expand cfg e0 ++ rest.flatMap (expand cfg)))
          = objSteps e0.key t.now none (expand cfg e0 ++ rest.flatMap (expand cfg)) := by
        simp [objSteps, objStep, reqKey]
      rw [hex]
      simp only [List.cons_append]
      rw [this]
      exact hfirst

/-! ## bidirectional replay (buildBisyncRdbReplayUnit with `skippedKey` + execBisyncRdbUnit)
 -/

/-- **ignore** (bidirectional): only the EXISTS probe is sent; no unit is built
    for the first nor for ANY later chunk of the key; the target is unchanged. -/
theorem ignore_untouched_bisync (cfg : Cfg) (st : RState) (t : Target) (e0 : Entry) (rest : List Entry) (o : Obj)
    (g : Group e0 rest) (hex : t.get e0.key = some o) :
    (runBisync .ignore cfg st t (e0 :: rest)).out = .ok ∧
    (runBisync .ignore cfg st t (e0 :: rest)).reqs = [Req.exists e0.key] ∧
    (runBisync .ignore cfg st t (e0 :: rest)).tgt = t := by
  cases hr : rest with
  | nil =>
    have h : buildUnit .ignore cfg st (viewOf t e0) e0 = ([Req.exists e0.key], [], .skip, if e0.splited then some e0.key else none) := by
      rw [view_some hex]; simp [buildUnit, g.data, g.first]
    obtain ⟨h1, h2, h4⟩ := runBisync_cons_ok _ _ _ _ _ [] _ _ _ _ rfl h
    simp only [runBisync_nil, reduceCtorEq, if_false, List.append_nil] at h1 h2 h4
    exact ⟨h2, h1, by rw [h4]; rfl⟩
  | cons e1 rest' =>
    have hsp : e0.splited = true := g.split (by rw [hr]; simp)
    have h : buildUnit .ignore cfg st (viewOf t e0) e0 = ([Req.exists e0.key], [], .skip, some e0.key) := by
      rw [view_some hex]; simp [buildUnit, g.data, g.first, hsp]
    obtain ⟨h1, h2, h4⟩ := runBisync_cons_ok _ _ _ _ _ (e1 :: rest') _ _ _ _ rfl h
    simp only [reduceCtorEq, if_false, List.append_nil] at h1 h2 h4
    obtain ⟨s1, s2, s3⟩ := runBisync_later_skip .ignore cfg e0.key (e1 :: rest') (applyReqs t [Req.exists e0.key])
      (by rw [← hr]; exact g.later)
    rw [s1] at h1; rw [s2] at h2; rw [s3] at h4
    exact ⟨h2, by simpa using h1, by rw [h4]; rfl⟩

/-- **error** (bidirectional): the builder fails with the key-exists error after
    the EXISTS probe; nothing is written. -/
theorem error_before_modify_bisync (cfg : Cfg) (st : RState) (t : Target) (e0 : Entry) (rest : List Entry) (o : Obj)
    (g : Group e0 rest) (hex : t.get e0.key = some o) :
    (runBisync .error cfg st t (e0 :: rest)).out = .errExists ∧
    (runBisync .error cfg st t (e0 :: rest)).reqs = [Req.exists e0.key] ∧
    (runBisync .error cfg st t (e0 :: rest)).tgt = t := by
  have h : buildUnit .error cfg st (viewOf t e0) e0 = ([Req.exists e0.key], [], .errExists, none) := by
    rw [view_some hex]; simp [buildUnit, g.data, g.first]
  obtain ⟨h1, h2, h3⟩ := runBisync_cons_err _ _ _ _ _ rest _ _ _ _ (by simp [bOut]) h
  simp only [reduceCtorEq, if_false, List.append_nil] at h1 h2 h3
  exact ⟨h2, h1, by rw [h3]; rfl⟩

/-- **replace** (bidirectional): RESTORE … REPLACE, or DEL + native commands in
    the first unit and native commands in the later units — the target ends
    with exactly the snapshot's value and expiry, whatever it held before.
    (`hb`: if the RESTORE path is taken, the target can load the payload; the
    other case is `bad_data_bisync_fails`.) -/
theorem replace_final_bisync (cfg : Cfg) (st : RState) (t : Target) (e0 : Entry) (rest : List Entry)
    (g : Group e0 rest) (v : Value e0 rest) (hb : useRestore cfg e0 = true → t.bad e0.key = false) :
    (runBisync .replace cfg st t (e0 :: rest)).out = .ok ∧
    (runBisync .replace cfg st t (e0 :: rest)).tgt.get e0.key = some (snapshotObj cfg t e0 rest) ∧
    (∀ d k, ¬ (d = t.cur ∧ k = e0.key) → (runBisync .replace cfg st t (e0 :: rest)).tgt.ks d k = t.ks d k) ∧
    (runBisync .replace cfg st t (e0 :: rest)).tgt.cur = t.cur := by
  have hlater : ∀ e ∈ rest, e.key = e0.key ∧ (∀ c ∈ e.cmds, cmdKey c = e0.key) ∧ (e.expireAt = 0 ∨ e.expireAt = e0.expireAt) :=
    fun e he => ⟨(g.later e he).key, v.cr e he, v.exp e he⟩
  by_cases hu : useRestore cfg e0 = true
  · have hr : rest = [] := rest_nil_of_restore g hu
    subst hr
    have hb := hb hu
    let r1 := Req.restore e0.key (ttlMs cfg.now e0.expireAt) e0.dump (restoreOpts cfg e0) true
    have h : buildUnit .replace cfg st (viewOf t e0) e0 = ([], [r1], .unit, none) := by
      simp [buildUnit, g.data, g.first, hu, r1, viewOf, hb]
    obtain ⟨_, h2, h4⟩ := runBisync_cons_ok _ _ _ _ _ [] _ _ _ _ rfl h
    simp only [runBisync_nil, if_true, List.nil_append] at h2 h4
    rw [h2, h4]
    refine ⟨rfl, ?_⟩
    apply final_of_reqs t e0 (execUnit [r1]) (execUnit_onKey (by intro r hr; simp at hr; subst hr; simp [onKey, r1]))
    rw [objSteps_execUnit]
    cases hex : t.get e0.key <;>
      simp [objSteps, objStep, reqKey, objEffect, r1, snapshotObj, hu, hb, restore_exp]
  · have hu' : useRestore cfg e0 = false := by simpa using hu
    have hexp_on := expand_onKey cfg e0.key e0 rfl v.c0
    have hrest_on := flatMap_units_onKey cfg e0.key rest (fun e he => ⟨(hlater e he).1, (hlater e he).2.1⟩)
    have h : buildUnit .replace cfg st (viewOf t e0) e0 = ([], Req.del e0.key :: expand cfg e0, .unit, none) := by
      simp [buildUnit, g.data, g.first, hu', expandB_eq cfg e0]
    obtain ⟨_, h2, h4⟩ := runBisync_cons_ok _ _ _ _ _ rest _ _ _ _ rfl h
    simp only [if_true, List.nil_append] at h2 h4
    have hl := fun t' => runBisync_later_expand .replace cfg e0.key none (by simp) rest t' g.later
    rw [h2, h4, (hl _).2.1, (hl _).2.2, ← applyReqs_append]
    refine ⟨rfl, ?_⟩
    apply final_of_reqs t e0 _ (by
      intro r hr
      rcases List.mem_append.mp hr with hr | hr
      · exact execUnit_onKey (by
          intro x hx
          rcases List.mem_cons.mp hx with rfl | hx
          · simp [onKey]
          · exact hexp_on x hx) r hr
      · exact hrest_on r hr)
    rw [objSteps_append, objSteps_execUnit]
    have : objSteps e0.key t.now (t.get e0.key) (Req.del e0.key :: expand cfg e0)
        = objSteps e0.key t.now none (expand cfg e0) := by
      simp [objSteps, objStep, reqKey, objEffect]
    rw [this, objSteps_expand_none cfg e0.key t.now e0 rfl v.c0 v.ne,
      objSteps_later_units cfg e0.key t.now e0.expireAt rest e0.cmds hlater]
    simp [snapshotObj, hu']

/-! ## keys that are NOT on the target ("any subset of the snapshot's keys present") -/

/-- plain replay, any policy: a key the target does not hold ends with exactly
    the snapshot's value and expiry -/
theorem absent_final (pol : Policy) (cfg : Cfg) (st : RState) (t : Target) (e0 : Entry) (rest : List Entry)
    (g : Group e0 rest) (v : Value e0 rest) (hex : t.get e0.key = none) :
    (runPlain pol cfg st t (e0 :: rest)).out = .ok ∧
    (runPlain pol cfg st t (e0 :: rest)).tgt.get e0.key = some (snapshotObj cfg t e0 rest) ∧
    (∀ d k, ¬ (d = t.cur ∧ k = e0.key) → (runPlain pol cfg st t (e0 :: rest)).tgt.ks d k = t.ks d k) := by
  have hlater : ∀ e ∈ rest, e.key = e0.key ∧ (∀ c ∈ e.cmds, cmdKey c = e0.key) ∧ (e.expireAt = 0 ∨ e.expireAt = e0.expireAt) :=
    fun e he => ⟨(g.later e he).key, v.cr e he, v.exp e he⟩
  by_cases hu : useRestore cfg e0 = true
  · have hr : rest = [] := rest_nil_of_restore g hu
    subst hr
    let r0 := Req.restore e0.key (ttlMs cfg.now e0.expireAt) e0.dump (restoreOpts cfg e0) false
    let b0 := Req.restoreBad e0.key (ttlMs cfg.now e0.expireAt) e0.dump (restoreOpts cfg e0) false
    cases hbad : t.bad e0.key with
    | true =>
      have hexp_on := expand_onKey cfg e0.key e0 rfl v.c0
      have hexp0 := objSteps_expand_none cfg e0.key t.now e0 rfl v.c0 v.ne
      have h : replay pol cfg st (viewOf t e0) e0 = (b0 :: Req.exists e0.key :: expand cfg e0, .ok, none) := by
        rw [view_none hex]; simp [replay, g.data, hu, hbad, b0]
      obtain ⟨_, h2, _, h4⟩ := runPlain_cons_ok _ _ _ _ _ [] _ _ h
      simp only [runPlain_nil] at h2 h4
      rw [h2, h4]
      refine ⟨rfl, ?_⟩
      have := final_of_reqs t e0 (b0 :: Req.exists e0.key :: expand cfg e0) (by
          intro r hr
          simp only [List.mem_cons] at hr
          rcases hr with rfl | rfl | hr
          · simp [onKey, b0]
          · simp [onKey]
          · exact hexp_on r hr) (snapshotObj cfg t e0 []) (by
          have : objSteps e0.key t.now none (b0 :: Req.exists e0.key :: expand cfg e0)
              = objSteps e0.key t.now none (expand cfg e0) := by
            simp [objSteps, objStep, reqKey, b0]
          rw [hex, this, hexp0]
          simp [snapshotObj, hu, hbad])
      exact ⟨this.1, this.2.1⟩
    | false =>
    have h : replay pol cfg st (viewOf t e0) e0 = ([r0], .ok, st) := by
      rw [view_none hex]; simp [replay, g.data, hu, hbad, r0]
    obtain ⟨_, h2, _, h4⟩ := runPlain_cons_ok _ _ _ _ _ [] _ _ h
    simp only [runPlain_nil] at h2 h4
    rw [h2, h4]
    refine ⟨rfl, ?_⟩
    have := final_of_reqs t e0 [r0] (by intro r hr; simp at hr; subst hr; simp [onKey, r0]) (snapshotObj cfg t e0 [])
      (by simp [objSteps, objStep, reqKey, objEffect, hex, r0, snapshotObj, hu, hbad, restore_exp])
    exact ⟨this.1, this.2.1⟩
  · have hu' : useRestore cfg e0 = false := by simpa using hu
    have hexp_on := expand_onKey cfg e0.key e0 rfl v.c0
    have hrest_on := flatMap_expand_onKey cfg e0.key rest (fun e he => ⟨(hlater e he).1, (hlater e he).2.1⟩)
    have hl := fun t' => runPlain_later_expand pol cfg e0.key none (by simp) rest t' g.later
    have h : replay pol cfg st (viewOf t e0) e0 = (Req.exists e0.key :: expand cfg e0, .ok, none) := by
      rw [view_none hex]; simp [replay, g.data, hu', g.first]
    obtain ⟨_, h2, _, h4⟩ := runPlain_cons_ok _ _ _ _ _ rest _ _ h
    rw [h2, h4, (hl _).2.1, (hl _).2.2, ← applyReqs_append]
    refine ⟨rfl, ?_⟩
    have := final_of_reqs t e0 (Req.exists e0.key :: expand cfg e0 ++ rest.flatMap (expand cfg)) (by
        intro r hr
        simp only [List.cons_append, List.mem_cons, List.mem_append] at hr
        rcases hr with rfl | hr | hr
        · simp [onKey]
        · exact hexp_on r hr
        · exact hrest_on r hr) (snapshotObj cfg t e0 rest) (by
        have : objSteps e0.key t.now none (Req.exists e0.key :: (expand cfg e0 ++ rest.flatMap (expand cfg)))
            = objSteps e0.key t.now none (expand cfg e0 ++ rest.flatMap (expand cfg)) := by
          simp [objSteps, objStep, reqKey]
        rw [hex]
        simp only [List.cons_append]
        rw [this, objSteps_append, objSteps_expand_none cfg e0.key t.now e0 rfl v.c0 v.ne,
          objSteps_later cfg e0.key t.now e0.expireAt rest e0.cmds hlater]
        simp [snapshotObj, hu'])
    exact ⟨this.1, this.2.1⟩

/-- bidirectional replay, any policy: a key the target does not hold ends with
    exactly the snapshot's value and expiry (EXISTS probe under ignore/error,
    then RESTORE [REPLACE only under replace] or [DEL +] native commands) -/
theorem absent_final_bisync (pol : Policy) (cfg : Cfg) (st : RState) (t : Target) (e0 : Entry) (rest : List Entry)
    (g : Group e0 rest) (v : Value e0 rest) (hb : useRestore cfg e0 = true → t.bad e0.key = false)
    (hex : t.get e0.key = none) :
    (runBisync pol cfg st t (e0 :: rest)).out = .ok ∧
    (runBisync pol cfg st t (e0 :: rest)).tgt.get e0.key = some (snapshotObj cfg t e0 rest) ∧
    (∀ d k, ¬ (d = t.cur ∧ k = e0.key) → (runBisync pol cfg st t (e0 :: rest)).tgt.ks d k = t.ks d k) := by
  have hlater : ∀ e ∈ rest, e.key = e0.key ∧ (∀ c ∈ e.cmds, cmdKey c = e0.key) ∧ (e.expireAt = 0 ∨ e.expireAt = e0.expireAt) :=
    fun e he => ⟨(g.later e he).key, v.cr e he, v.exp e he⟩
  let direct : List Req := if pol = .replace then [] else [Req.exists e0.key]
  have hdirect_on : ∀ r ∈ direct, onKey e0.key r := by
    intro r hr; simp only [direct] at hr; split at hr <;> simp at hr; subst hr; simp [onKey]
  have hdirect_obj : ∀ o L, objSteps e0.key t.now o (direct ++ L) = objSteps e0.key t.now o L := by
    intro o L; simp only [direct]; split <;> simp [objSteps, objStep, reqKey]
  by_cases hu : useRestore cfg e0 = true
  · have hr : rest = [] := rest_nil_of_restore g hu
    subst hr
    have hb := hb hu
    let r1 := Req.restore e0.key (ttlMs cfg.now e0.expireAt) e0.dump (restoreOpts cfg e0) (pol = .replace)
    have h : buildUnit pol cfg st (viewOf t e0) e0 = (direct, [r1], .unit, none) := by
      rw [view_none hex]; cases pol <;> simp [buildUnit, g.data, g.first, hu, r1, direct, hb]
    obtain ⟨_, h2, h4⟩ := runBisync_cons_ok _ _ _ _ _ [] _ _ _ _ rfl h
    simp only [runBisync_nil, if_true] at h2 h4
    rw [h2, h4]
    refine ⟨rfl, ?_⟩
    have := final_of_reqs t e0 (direct ++ execUnit [r1]) (by
        intro r hr
        rcases List.mem_append.mp hr with hr | hr
        · exact hdirect_on r hr
        · exact execUnit_onKey (by intro x hx; simp at hx; subst hx; simp [onKey, r1]) r hr)
      (snapshotObj cfg t e0 []) (by
        rw [hdirect_obj, objSteps_execUnit, hex]
        simp [objSteps, objStep, reqKey, objEffect, r1, snapshotObj, hu, hb, restore_exp])
    exact ⟨this.1, this.2.1⟩
  · have hu' : useRestore cfg e0 = false := by simpa using hu
    have hexp_on := expand_onKey cfg e0.key e0 rfl v.c0
    have hrest_on := flatMap_units_onKey cfg e0.key rest (fun e he => ⟨(hlater e he).1, (hlater e he).2.1⟩)
    have hne : expand cfg e0 ≠ [] := by
      unfold expand
      cases hc : e0.cmds with
      | nil => exact absurd hc v.ne
      | cons c cs => simp
    let cmds : List Req := if pol = .replace then Req.del e0.key :: expand cfg e0 else expand cfg e0
    have hcmds_on : ∀ r ∈ cmds, onKey e0.key r := by
      intro r hr; simp only [cmds] at hr; split at hr
      · rcases List.mem_cons.mp hr with rfl | hr
        · simp [onKey]
        · exact hexp_on r hr
      · exact hexp_on r hr
    have hcmds_obj : objSteps e0.key t.now none cmds = objSteps e0.key t.now none (expand cfg e0) := by
      simp only [cmds]; split <;> simp [objSteps, objStep, reqKey, objEffect]
    have h : buildUnit pol cfg st (viewOf t e0) e0 = (direct, cmds, .unit, none) := by
      rw [view_none hex]
      cases pol <;> simp [buildUnit, g.data, g.first, hu', expandB_eq cfg e0, hne, cmds, direct]
    obtain ⟨_, h2, h4⟩ := runBisync_cons_ok _ _ _ _ _ rest _ _ _ _ rfl h
    simp only [if_true] at h2 h4
    have hl := fun t' => runBisync_later_expand pol cfg e0.key none (by simp) rest t' g.later
    rw [h2, h4, (hl _).2.1, (hl _).2.2, ← applyReqs_append]
    refine ⟨rfl, ?_⟩
    have := final_of_reqs t e0 ((direct ++ execUnit cmds) ++ rest.flatMap (fun e => wrapUnit (expand cfg e))) (by
        intro r hr
        rcases List.mem_append.mp hr with hr | hr
        · rcases List.mem_append.mp hr with hr | hr
          · exact hdirect_on r hr
          · exact execUnit_onKey hcmds_on r hr
        · exact hrest_on r hr)
      (snapshotObj cfg t e0 rest) (by
        rw [objSteps_append, hdirect_obj, objSteps_execUnit, hex, hcmds_obj,
          objSteps_expand_none cfg e0.key t.now e0 rfl v.c0 v.ne,
          objSteps_later_units cfg e0.key t.now e0.expireAt rest e0.cmds hlater]
        simp [snapshotObj, hu'])
    exact ⟨this.1, this.2.1⟩

/-- bidirectional replay, a payload the target cannot load ("Bad data format"
    inside the unit's EXEC) where no probe stops the entry first (key absent, or
    policy replace): the replay FAILS and the keyspace is unchanged — nothing of
    the snapshot value is merged, the old value is not removed. -/
theorem bad_data_bisync_fails (pol : Policy) (cfg : Cfg) (st : RState) (t : Target) (e0 : Entry) (rest : List Entry)
    (g : Group e0 rest) (hu : useRestore cfg e0 = true) (hb : t.bad e0.key = true)
    (hreach : t.get e0.key = none ∨ pol = .replace) :
    (runBisync pol cfg st t (e0 :: rest)).out = .errBad ∧
    (∀ d k, (runBisync pol cfg st t (e0 :: rest)).tgt.ks d k = t.ks d k) := by
  have hprobe : ¬ ((pol = .ignore ∨ pol = .error) ∧ (t.get e0.key).isSome = true) := by
    rintro ⟨hp, hs⟩
    rcases hreach with h | h
    · rw [h] at hs; cases hs
    · subst h; rcases hp with hp | hp <;> cases hp
  have h : ∃ direct st', buildUnit pol cfg st (viewOf t e0) e0 = (direct, [], .errBad, st') ∧
      (∀ r ∈ direct, reqKey r = none ∧ noSel r) := by
    cases pol <;> cases hex : t.get e0.key <;>
      simp [buildUnit, viewOf, g.data, g.first, hu, hb, hex, execUnit, reqKey, noSel] at hprobe ⊢
  obtain ⟨direct, st', hbu, hdir⟩ := h
  obtain ⟨_, h2, h3⟩ := runBisync_cons_err _ _ _ _ _ rest _ _ _ _ (by simp [bOut]) hbu
  simp only [reduceCtorEq, if_false, List.append_nil] at h2 h3
  refine ⟨by rw [h2]; rfl, ?_⟩
  rw [h3]
  intro d k
  have : ∀ (L : List Req) (t' : Target), (∀ r ∈ L, reqKey r = none ∧ noSel r) → (applyReqs t' L).ks d k = t'.ks d k := by
    intro L
    induction L with
    | nil => intro t' _; rfl
    | cons r L ih =>
      intro t' hL
      simp only [applyReqs, List.foldl_cons]
      have hr := hL r (List.mem_cons_self ..)
      have := ih (applyReq t' r) (fun x hx => hL x (List.mem_cons_of_mem _ hx))
      simp only [applyReqs] at this
      rw [this, applyReq_eq t' r hr.2, hr.1]
  exact this direct t hdir

/-- with the tool's and the target's clocks equal and the snapshot expiry in the
    future, the expiry the key ends with IS the snapshot's absolute expiry -/
theorem snapshot_exp_abs (cfg : Cfg) (t : Target) (e0 : Entry) (rest : List Entry)
    (hnow : t.now = cfg.now) (hfut : cfg.now < e0.expireAt) :
    (snapshotObj cfg t e0 rest).exp = e0.expireAt := by
  have hexp : expAbs cfg t.now e0.expireAt = e0.expireAt := by
    simp only [expAbs, ttlMs]; rw [hnow]
    split
    · omega
    · split <;> omega
  unfold snapshotObj
  split <;> exact hexp

/-! ## replaceHashTag: the worker replays `retag e`; the per-group theorems apply to retagged groups -/

theorem rewriteCmd_cmdKey (src tgt : Bytes) (c : Cmd) (h : cmdKey c = src) (hne : c.args ≠ [] ) (hx : c.name = sXGROUP → 2 ≤ c.args.length) :
    cmdKey (rewriteCmd src tgt c) = tgt := by
  unfold cmdKey rewriteCmd at *
  by_cases hn : c.name = sXGROUP
  · simp only [hn, if_true] at h ⊢
    have := hx hn
    match hargs : c.args with
    | [] => rw [hargs] at this; simp at this
    | [_] => rw [hargs] at this; simp at this
    | sub :: k :: rest =>
      rw [hargs] at h
      simp only [List.drop_succ_cons, List.drop_zero, List.headD_cons] at h
      simp [h, hn]
  · simp only [hn, if_false] at h ⊢
    match hargs : c.args with
    | [] => exact absurd hargs hne
    | k :: rest =>
      rw [hargs] at h
      simp only [List.headD_cons] at h
      simp [h, hn]

/-- a key group stays a key group under `retag`, on the rewritten key -/
theorem retag_group (b : Bool) (e0 : Entry) (rest : List Entry) (g : Group e0 rest) :
    Group (retag b e0) (rest.map (retag b)) := by
  have hk0 : (retag b e0).key = if b then stripTag e0.key else e0.key := by
    unfold retag; cases b <;> simp [g.data]
  refine ⟨?_, ?_, ?_, ?_⟩
  · unfold retag; split <;> simp [g.data]
  · unfold retag; split <;> simp [g.first]
  · intro e he
    obtain ⟨e', he', rfl⟩ := List.mem_map.mp he
    have hl := g.later e' he'
    refine ⟨?_, ?_, ?_, ?_⟩
    · rw [hk0]; unfold retag; cases b <;> simp [hl.data, hl.key]
    · unfold retag; split <;> simp [hl.notFirst]
    · unfold retag; split <;> simp [hl.data]
    · unfold retag; split <;> simp [hl.split]
  · intro hne
    have : rest ≠ [] := by intro h; apply hne; simp [h]
    unfold retag; split <;> simp [g.split this]

/-! ## the function tied to the real code is the function of the theorems

  The correspondence harness compares the real worker loops with `runWorker`
  (which also issues SELECT when the entry's DB differs from the connection's);
  on entries of the connection's DB it is `runPlain` / `runBisync`. -/

theorem worker_is_runPlain (pol : Policy) (cfg : Cfg) (cur : Nat) (es : List Entry) (st : RState) (t : Target)
    (h : ∀ e ∈ es, e.db = Int.ofNat cur) :
    (runWorker false pol cfg cur st t es).flatMap (·.1) = (runPlain pol cfg st t es).reqs ∧
    workerTarget t (runWorker false pol cfg cur st t es) = (runPlain pol cfg st t es).tgt :=
  runWorker_plain pol cfg cur es st t h

theorem worker_is_runBisync (pol : Policy) (cfg : Cfg) (cur : Nat) (es : List Entry) (st : RState) (t : Target)
    (h : ∀ e ∈ es, e.db = Int.ofNat cur) :
    (runWorker true pol cfg cur st t es).flatMap (·.1) = (runBisync pol cfg st t es).reqs ∧
    workerTarget t (runWorker true pol cfg cur st t es) = (runBisync pol cfg st t es).tgt :=
  runWorker_bisync pol cfg cur es st t h

/-- **composition over key groups** (towards whole snapshots): a worker's run
    over `a ++ b` is its run over `a`, then its run over `b` from the remembered
    state and the target `a` left. Together with the per-group theorems — which
    hold for EVERY remembered state `st` and every target — this carries the
    three policy statements from one key group to any sequence of groups, and,
    through the frame clauses, to keys of other groups. -/
theorem runPlain_append (pol : Policy) (cfg : Cfg) (a b : List Entry) (st : RState) (t : Target)
    (h : (runPlain pol cfg st t a).out = .ok) :
    (runPlain pol cfg st t (a ++ b)).tgt =
      (runPlain pol cfg (runPlain pol cfg st t a).st (runPlain pol cfg st t a).tgt b).tgt ∧
    (runPlain pol cfg st t (a ++ b)).out =
      (runPlain pol cfg (runPlain pol cfg st t a).st (runPlain pol cfg st t a).tgt b).out :=
  runPlain_append_ok pol cfg a st t b h

/-! ## non-vacuity: a split hash `h` (three chunks, expiry) meeting an old value with a TTL -/

def exCmd (f v : UInt8) : Cmd := { name := [104, 115, 101, 116], args := [[104], [102, f], [118, v]] }
def exE0 : Entry :=
  { db := 0, key := [104], otype := .data, first := true, splited := true, canRestore := true,
    dumpSize := 30, expireAt := 5000, idle := 0, freq := 0, dump := [4, 3], cmds := [exCmd 49 49] }
def exE1 : Entry := { exE0 with first := false, cmds := [exCmd 50 50] }
def exE2 : Entry := { exE0 with first := false, expireAt := 0, cmds := [exCmd 51 51] }
/-- the same value small enough for RESTORE -/
def exR : Entry := { exE0 with splited := false, cmds := [exCmd 49 49, exCmd 50 50] }
def exCfg : Cfg := { enableRestore := true, maxBulk := 1000, ver5 := true, now := 1000 }
def exT : Target := { cur := 0, now := 1000, ks := fun d k => if d = 0 ∧ k = [104] then some { val := .old 0, exp := 777 } else none }

example : Group exE0 [exE1, exE2] :=
  ⟨rfl, rfl, by intro e he; simp at he; rcases he with rfl | rfl <;> exact ⟨rfl, rfl, rfl, rfl⟩, fun _ => rfl⟩
example : Value exE0 [exE1, exE2] :=
  ⟨by intro c hc; simp [exE0] at hc; subst hc; rfl, by simp [exE0],
   by intro e he c hc; simp at he; rcases he with rfl | rfl <;> (simp [exE1, exE2, exE0] at hc; subst hc; rfl),
   by intro e he; simp at he; rcases he with rfl | rfl <;> simp [exE1, exE2, exE0]⟩
example : Group exR [] := ⟨rfl, rfl, by simp, by simp⟩
example : exT.get exE0.key = some { val := .old 0, exp := 777 } := rfl
example : useRestore exCfg exE0 = false ∧ useRestore exCfg exR = true := by decide
-- ignore: one EXISTS for three chunks; one refused RESTORE on the payload path
example : (runPlain .ignore exCfg none exT [exE0, exE1, exE2]).reqs = [Req.exists [104]] := by decide
example : (runPlain .ignore exCfg none exT [exR]).reqs = [Req.restore [104] 4000 [4, 3] [] false] := by decide
example : (runBisync .ignore exCfg none exT [exE0, exE1, exE2]).reqs = [Req.exists [104]] := by decide
-- error
example : (runPlain .error exCfg none exT [exE0, exE1, exE2]).out = .errExists := by decide
example : (runBisync .error exCfg none exT [exE0, exE1, exE2]).out = .errExists := by decide
-- replace: DEL, then the three chunks; the object is exactly the snapshot's (expiry 1000 + 4000)
example : (runPlain .replace exCfg none exT [exE0, exE1, exE2]).reqs =
    [Req.exists [104], Req.del [104], Req.data (exCmd 49 49), Req.pexpire [104] 4000,
     Req.data (exCmd 50 50), Req.pexpire [104] 4000, Req.data (exCmd 51 51)] := by decide
example : (runPlain .replace exCfg none exT [exE0, exE1, exE2]).tgt.get [104] =
    some { val := .native [exCmd 49 49, exCmd 50 50, exCmd 51 51], exp := 5000 } := by decide
example : (runBisync .replace exCfg none exT [exE0, exE1, exE2]).tgt.get [104] =
    some { val := .native [exCmd 49 49, exCmd 50 50, exCmd 51 51], exp := 5000 } := by decide
example : (runPlain .replace exCfg none exT [exR]).tgt.get [104] = some { val := .restored [4, 3], exp := 5000 } := by decide

-- the target refuses the payload ("Bad data format"): RESTORE, RESTORE…REPLACE, then the expansion branch with DEL and PEXPIRE
def exTBad : Target := { exT with bad := fun k => k == [104] }
example : (runPlain .replace exCfg none exTBad [exR]).reqs =
    [Req.restore [104] 4000 [4, 3] [] false, Req.restoreBad [104] 4000 [4, 3] [] true,
     Req.exists [104], Req.del [104], Req.data (exCmd 49 49), Req.data (exCmd 50 50), Req.pexpire [104] 4000] := by decide
example : (runPlain .replace exCfg none exTBad [exR]).tgt.get [104] =
    some { val := .native [exCmd 49 49, exCmd 50 50], exp := 5000 } := by decide
-- a stream with a consumer group: `XGROUP CREATE key …` is a command on the key
example : cmdKey { name := sXGROUP, args := [[67, 82, 69, 65, 84, 69], [115], [103], [48, 45, 48]] } = [115] := by decide
-- a fresh key under the bidirectional `error` policy: probe, then RESTORE without REPLACE
example : (runBisync .error exCfg none { exT with ks := fun _ _ => none } [exR]).reqs =
    [Req.exists [104], Req.multi, Req.marker, Req.restore [104] 4000 [4, 3] [] false, Req.exec] := by decide
example : snapshotObj exCfg exT exE0 [exE1, exE2] = { val := .native [exCmd 49 49, exCmd 50 50, exCmd 51 51], exp := 5000 } := by decide

-- bidirectional replay against a target that refuses the payload: the unit is sent, the replay fails, the old value stays
example : (runBisync .replace exCfg none exTBad [exR]).out = .errBad := by decide
example : (runBisync .replace exCfg none exTBad [exR]).tgt.get [104] = some { val := .old 0, exp := 777 } := by decide
-- two key groups in one run (the remembered `ignore` decision of the first does not reach the second)
def exK : Entry := { exR with key := [105], cmds := [{ name := [115, 101, 116], args := [[105], [120]] }] }
example : (runPlain .ignore exCfg none exT ([exE0, exE1, exE2] ++ [exK])).reqs =
    [Req.exists [104], Req.restore [105] 4000 [4, 3] [] false] := by decide
example : (runPlain .ignore exCfg none exT ([exE0, exE1, exE2] ++ [exK])).tgt.get [104] = some { val := .old 0, exp := 777 } := by decide
example : (runBisync .ignore exCfg none exT ([exE0, exE1, exE2] ++ [exK])).tgt.get [105] = some { val := .restored [4, 3], exp := 5000 } := by decide
-- replaceHashTag: `{}` is rewritten to the empty key (a valid key), commands follow
example : (retag true { exR with key := [123, 125], cmds := [{ name := [115, 101, 116], args := [[123, 125], [120]] }] }).key = [] := by decide
example : (retag true { exR with key := [123, 125], cmds := [{ name := [115, 101, 116], args := [[123, 125], [120]] }] }).cmds =
    [{ name := [115, 101, 116], args := [[], [120]] }] := by decide

end GunYu.Props.C20
