/-
  C06 — Each source (re)connection continues the stream gap-free or takes a
  snapshot.

  Property theorems only (helper lemmas: Proofs/Psync.lean, Proofs/PsyncRun.lean).
  Quantifier: ALL source states `s` (same id, failover with previous id and
  switch offset, brand-new id, any backlog window or none), ALL stored resume
  positions `sp` (any id, any offset, or "?"), ALL cache descriptions `c` (either
  backend; empty / snapshot / log / both; any label; any position relative to
  `sp`) and ALL worlds of histories `w` — one theorem with hypotheses, never an
  enumeration.  Hypotheses:
    SourceWF     Redis's own invariants on (replid, backlog window, offsets)
    CacheWF      the cache description is one the backends can report
                 (log starts at the snapshot's offset; data only under a real id)
    CacheOK      what C05/C08 provide: bytes held under `runId` are `hist runId`
    Agree        PSYNC2: history id2 equals history id1 below the switch offset
    StoredCompat (only for `outcome_continue_or_full`, which takes the stored
                 label at face value) a position stored under the previous id
                 while the cache is already labelled with the current id lies in
                 the shared prefix. NOT an invariant (`storedCompat_not_invariant`:
                 in in-memory mode `SetRunId` does not relabel the position) and
                 necessary for the label-based conclusion (`storedCompat_needed`).
                 The label-free statements are `continues_what_the_target_holds`,
                 `reach_inv`, `reach_safe`: they assume nothing about labels, only
                 the invariant `Truthful`, proved over every sequence.
-/
import GunYu.Model.Psync
import GunYu.Proofs.Psync
import GunYu.Proofs.PsyncRun

namespace GunYu.Props.C06
open GunYu GunYu.Psync

/-- **continue or full.** What the reader hands to the output after a
    (re)connection is
    * either log bytes starting exactly at the stored offset — then the source
      granted CONTINUE, the stored id is one the source serves, the prefix the
      target already consumed belongs to the current history, and every byte
      delivered from there on (cached or freshly written, without a gap between
      them) is the current history's byte at that offset;
    * or one complete snapshot at some offset `left` of a history that agrees
      with the current one below `left` — the one the source just sent when it
      answered FULLRESYNC, a cached one only when the source granted CONTINUE and
      the cache was not cleared — and the cache then holds exactly that snapshot
      (the log from `left` on follows by `cache_consistent_after` and this same
      theorem applied to the next connection).
    Nothing else can happen (in particular the run does not abort). -/
theorem outcome_continue_or_full (w : World) (s : Source) (sp : SP) (c : Cache) (d : CData)
    (hs : SourceWF s) (hc : CacheWF c) (hok : CacheOK w s c d) (hag : Agree w s)
    (hcompat : StoredCompat s sp c) (r : Result) (hr : r = run w s sp c d) :
    (∃ byte, r.delivery = .stream sp.offset byte ∧ r.mt.ps.full = false ∧
        (sp.runId = s.id1 ∨ sp.runId = s.id2) ∧
        (∀ n, 0 ≤ n → n < sp.offset → w.hist sp.runId n = w.hist s.id1 n) ∧
        (∀ n, sp.offset ≤ n → byte n = w.hist s.id1 n))
    ∨
    (∃ tok left size, r.delivery = .snapshot tok left size ∧ 0 < size ∧ 0 ≤ left ∧ tok.2 = left ∧
        (∀ n, 0 ≤ n → n < left → w.hist tok.1 n = w.hist s.id1 n) ∧
        (r.mt.ps.full = true → tok = (s.id1, s.masterOff) ∧ left = s.masterOff ∧ size = s.snapLen) ∧
        (r.mt.ps.full = false → r.mt.deleted = false ∧ c.rdb = some (left, size) ∧ tok = d.rdbTok) ∧
        (∀ k, (cacheAfter r.mt k).rdb = some (left, size)) ∧ r.data.rdbTok = tok) := by
  subst hr
  rcases run_spec (w := w) (sp := sp) (d := d) hs hc with hF | hK | hC
  · -- full resynchronisation
    right
    refine ⟨(s.id1, s.masterOff), s.masterOff, s.snapLen, hF.delivery, hs.snap_pos, hs.master_nonneg, rfl,
      fun _ _ _ => rfl, fun _ => ⟨rfl, rfl, rfl⟩, fun h => ?_, fun k => ?_, ?_⟩
    · rw [hF.full] at h; cases h
    · rw [hF.after k]
    · rw [hF.data]
  · -- continuation, cache kept
    have hcid := hK.cid
    -- the cache's label was accepted by the source: what it holds is the current history
    have hh := keep_holds hc hok hag hcid
    rcases hK.read with ⟨_, hdel, hout, hle, hlow⟩ | ⟨left, size, hrdb, _, _, hdel⟩
    · left
      refine ⟨_, hdel, hK.full, hout, ?_, ?_⟩
      · intro n h0 hn
        rcases hout with e | e
        · rw [e]
        · by_cases e1 : sp.runId = s.id1
          · rw [e1]
          · rw [e]
            apply hag n h0
            rcases hcid with ec | ⟨ec, hsw⟩
            · have := hcompat e e1 ec; omega
            · omega
      · intro n hn
        rw [hK.data]
        simp only
        by_cases hl : c.latest ≤ n
        · rw [if_pos hl]; congr 1; omega
        · rw [if_neg hl]
          cases ha : c.aof with
          | none => rw [ha] at hlow; simp only at hlow; omega
          | some p =>
            obtain ⟨l, rr⟩ := p
            rw [ha] at hlow; simp only at hlow
            have h1 := hh.aof_hist; rw [ha] at h1; simp only at h1
            have hlat := latest_aof ha
            exact h1 n (by omega) (by omega)
    · right
      have h1 := hh.rdb_tok; rw [hrdb] at h1; simp only at h1
      have h2 := hc.rdb_ok; rw [hrdb] at h2; simp only at h2
      have hll : left ≤ c.latest := by
        cases ha : c.aof with
        | none => rw [latest_rdb ha hrdb]; omega
        | some p =>
          obtain ⟨l, rr⟩ := p
          have h3 := hc.contig; rw [hrdb, ha] at h3; simp only at h3
          have h4 := hc.aof_ok; rw [ha] at h4; simp only at h4
          rw [latest_aof ha]
          split at h3 <;> omega
      refine ⟨d.rdbTok, left, size, hdel, h2.2.1, h2.1, h1.1, ?_, fun h => ?_, fun _ => ⟨hK.deleted, hrdb, rfl⟩,
        fun k => ?_, ?_⟩
      · exact h1.2
      · rw [hK.full] at h; cases h
      · rw [hK.after k]; exact hrdb
      · rw [hK.data]
  · -- continuation, cache cleared
    left
    refine ⟨_, hC.delivery, hC.full, ?_, ?_, ?_⟩
    · rcases hC.sid with e | ⟨e, _⟩
      · exact Or.inl e
      · exact Or.inr e
    · intro n h0 hn
      rcases hC.sid with e | ⟨e, hsw⟩
      · rw [e]
      · rw [e]; exact hag n h0 (by omega)
    · intro n hn
      rw [hC.data]
      simp only
      rw [if_pos hn]; congr 1; omega

/-- **offset convention.** A continuation is asked for with the stored/cached
    offset + 1 (Redis numbers the next byte wanted), and the writer stores the
    bytes the source then sends from exactly that offset: `request = writer
    start + 1`. When the cache was cleared the request is the stored position's
    (`outSp.offset + 1`) and reader and writer both start there. On FULLRESYNC
    the snapshot writer is placed at the announced offset and the reader
    `size` bytes before it. -/
theorem psync_offset_convention (w : World) (s : Source) (sp : SP) (c : Cache) (d : CData)
    (hs : SourceWF s) (hc : CacheWF c) (r : Result) (hr : r = run w s sp c d) :
    (r.mt.ps.full = false →
        r.mt.ps.wireOff = r.mt.locSp.offset + 1 ∧ r.writer = .aof r.mt.locSp.offset ∧
        0 ≤ r.mt.locSp.offset ∧
        (r.mt.clearLocal = true → r.mt.ps.wireOff = sp.offset + 1 ∧ r.mt.outSp.offset = sp.offset ∧
            r.mt.locSp.offset = sp.offset)) ∧
    (r.mt.ps.full = true →
        r.writer = .rdb s.masterOff s.snapLen ∧ r.mt.locSp.offset = s.masterOff ∧
        r.mt.outSp.offset = s.masterOff - s.snapLen) := by
  subst hr
  rcases run_spec (w := w) (sp := sp) (d := d) hs hc with hF | hK | hC
  · refine ⟨fun h => ?_, fun _ => ⟨hF.writer, ?_, ?_⟩⟩
    · rw [hF.full] at h; cases h
    · rw [hF.locSp]
    · rw [hF.outSp]
  · refine ⟨fun _ => ⟨?_, ?_, ?_, fun h => ?_⟩, fun h => ?_⟩
    · rw [hK.wire, hK.locSp]
    · rw [hK.writer, hK.locSp]
    · rw [hK.locSp]; exact hK.lat_nonneg
    · rw [hK.clear] at h; cases h
    · rw [hK.full] at h; cases h
  · refine ⟨fun _ => ⟨?_, ?_, ?_, fun _ => ⟨hC.wire, ?_, ?_⟩⟩, fun h => ?_⟩
    · rw [hC.wire, hC.locSp]
    · rw [hC.writer, hC.locSp]
    · rw [hC.locSp]; exact hC.off_nonneg
    · rw [hC.outSp]
    · rw [hC.locSp]
    · rw [hC.full] at h; cases h

/-- **never a later start.** Whatever the cache and the source say, a log
    reader never starts anywhere but at the stored offset (pure decision logic:
    no assumption on the cached bytes or the histories). -/
theorem never_beyond_stored (w : World) (s : Source) (sp : SP) (c : Cache) (d : CData)
    (hs : SourceWF s) (hc : CacheWF c) (start : Int) (byte : Int → UInt8)
    (h : (run w s sp c d).delivery = .stream start byte) : start = sp.offset := by
  rcases run_spec (w := w) (sp := sp) (d := d) hs hc with hF | hK | hC
  · rw [hF.delivery] at h; cases h
  · rcases hK.read with ⟨_, hdel, _⟩ | ⟨_, _, _, _, _, hdel⟩
    · rw [hdel] at h; cases h; rfl
    · rw [hdel] at h; cases h
  · rw [hC.delivery] at h; cases h; rfl

/-- **only the source's ids.** The run id the cache and the target are
    (re)labelled with is the source's current id; a continuation is only ever
    relied on for a request under one of the two ids the source serves; the cache
    after the round is labelled with the current id. -/
theorem ids_within_source (w : World) (s : Source) (sp : SP) (c : Cache) (d : CData)
    (hs : SourceWF s) (hc : CacheWF c) (r : Result) (hr : r = run w s sp c d) :
    r.mt.runId = s.id1 ∧ (∀ k, (cacheAfter r.mt k).runId = s.id1) ∧
    (r.mt.ps.full = false → r.mt.ps.reqId = s.id1 ∨ r.mt.ps.reqId = s.id2) := by
  subst hr
  rcases run_spec (w := w) (sp := sp) (d := d) hs hc with hF | hK | hC
  · refine ⟨hF.runId, fun k => by rw [hF.after k], fun h => ?_⟩
    rw [hF.full] at h; cases h
  · refine ⟨hK.runId, fun k => by rw [hK.after k], fun _ => ?_⟩
    rw [hK.reqId]
    rcases hK.cid with e | ⟨e, _⟩
    · exact Or.inl e
    · exact Or.inr e
  · refine ⟨hC.runId, fun k => by rw [hC.after k], fun _ => ?_⟩
    rw [hC.reqId]
    rcases hC.sid with e | ⟨e, _⟩
    · exact Or.inl e
    · exact Or.inr e

/-- **no cache reuse after clearing.** Once the cache was dropped (clearLocal or
    FULLRESYNC) neither what is delivered nor what the cache holds afterwards
    depends on the bytes the cache held before. -/
theorem no_cache_reuse_when_cleared (w : World) (s : Source) (sp : SP) (c : Cache) (d d' : CData)
    (hs : SourceWF s) (hc : CacheWF c)
    (h : (run w s sp c d).mt.clearLocal = true ∨ (run w s sp c d).mt.ps.full = true) :
    (run w s sp c d').delivery = (run w s sp c d).delivery ∧ (run w s sp c d').data = (run w s sp c d).data := by
  have hdel : (syncMeta s sp c).deleted = true := by
    rw [run_mt] at h; exact cleared_or_full_deletes s sp c h
  rcases run_spec (w := w) (sp := sp) (d := d) hs hc with hF | hK | hC
  · rcases run_spec (w := w) (sp := sp) (d := d') hs hc with hF' | hK' | hC'
    · rw [hF.delivery, hF'.delivery, hF.data, hF'.data]; exact ⟨rfl, rfl⟩
    · have := hK'.deleted; rw [run_mt, hdel] at this; cases this
    · have h1 := hF.full; have h2 := hC'.full; rw [run_mt] at h1 h2; rw [h1] at h2; cases h2
  · have := hK.deleted; rw [run_mt, hdel] at this; cases this
  · rcases run_spec (w := w) (sp := sp) (d := d') hs hc with hF' | hK' | hC'
    · have h1 := hF'.full; have h2 := hC.full; rw [run_mt] at h1 h2; rw [h1] at h2; cases h2
    · have := hK'.deleted; rw [run_mt, hdel] at this; cases this
    · rw [hC.delivery, hC'.delivery, hC.data, hC'.data]; exact ⟨rfl, rfl⟩

/-- **the invariant is re-established.** After the writer stored `k` further
    bytes of what the source sent, the cache is again one the backends can
    report, labelled with the current id, holding only bytes of the current
    history — so the next connection starts from the hypotheses of
    `outcome_continue_or_full` again (no bytes of an id outside {id1,id2} ever
    enter or stay in the cache). -/
theorem cache_consistent_after (w : World) (s : Source) (sp : SP) (c : Cache) (d : CData)
    (hs : SourceWF s) (hc : CacheWF c) (hok : CacheOK w s c d) (hag : Agree w s)
    (k : Int) (hk : 0 ≤ k) (hbound : s.masterOff + k ≤ maxInt64) (r : Result) (hr : r = run w s sp c d) :
    CacheWF (cacheAfter r.mt k) ∧ CacheOK w s (cacheAfter r.mt k) r.data ∧ (cacheAfter r.mt k).runId = s.id1 := by
  suffices hmain : CacheWF (cacheAfter r.mt k) ∧ Holds w s.id1 (cacheAfter r.mt k) r.data ∧ (cacheAfter r.mt k).runId = s.id1 from
    ⟨hmain.1, ⟨fun _ => hmain.2.1, fun _ => Or.inr hmain.2.1⟩, hmain.2.2⟩
  subst hr
  have hm := hs.master_nonneg
  have hsz := hs.snap_pos
  rcases run_spec (w := w) (sp := sp) (d := d) hs hc with hF | hK | hC
  · rw [hF.after k, hF.data]
    refine ⟨⟨?_, ?_, ?_, ?_⟩, ⟨?_, ?_⟩, rfl⟩
    · by_cases h : k > 0 <;> simp [h] <;> omega
    · simp only; omega
    · by_cases h : k > 0 <;> simp [h]
    · intro h; rcases h with h | h
      · exact absurd h hs.id1_ne
      · exact absurd h hs.id1_nq
    · by_cases h : k > 0 <;> simp [h]
    · simp
  · have hcid := hK.cid
    have hl0 := hK.lat_nonneg
    have hlm := hK.lat_le
    have hh := keep_holds hc hok hag hcid
    rw [hK.after k, hK.data]
    obtain ⟨be, rid, rdb, aof⟩ := c
    obtain ⟨ha, hrr, hcg, hlab⟩ := hc
    obtain ⟨oa, ot⟩ := hh
    rcases rdb with _ | ⟨left, size⟩ <;> rcases aof with _ | ⟨l, rr⟩ <;>
      simp only [Cache.latest] at hl0 hlm ha hrr hcg oa ot ⊢
    · omega
    · refine ⟨⟨?_, ?_, ?_, ?_⟩, ⟨?_, ?_⟩, by first | rfl | trivial⟩
      · simp only; omega
      · simp
      · simp
      · intro h; rcases h with h | h
        · exact absurd h hs.id1_ne
        · exact absurd h hs.id1_nq
      · simp only
        intro n h1 h2
        by_cases hn : rr ≤ n
        · simp only [hn, ↓reduceIte]; congr 1; omega
        · simp only [hn, ↓reduceIte]
          exact oa n h1 (by omega)
      · simp
    · refine ⟨⟨?_, ?_, ?_, ?_⟩, ⟨?_, ?_⟩, by first | rfl | trivial⟩
      · by_cases h : k > 0 <;> simp [h] <;> omega
      · simp only; omega
      · by_cases h : k > 0 <;> simp [h]
      · intro h; rcases h with h | h
        · exact absurd h hs.id1_ne
        · exact absurd h hs.id1_nq
      · by_cases h : k > 0 <;> simp [h]
        intro n h1 h2
        simp only [h1, ↓reduceIte]; congr 1; omega
      · simp only
        refine ⟨ot.1, fun n h0 hn => ?_⟩
        exact ot.2 n h0 hn
    · have hcg' : left ≤ l := by split at hcg <;> omega
      refine ⟨⟨?_, ?_, ?_, ?_⟩, ⟨?_, ?_⟩, by first | rfl | trivial⟩
      · simp only; omega
      · simp only; omega
      · exact hcg
      · intro h; rcases h with h | h
        · exact absurd h hs.id1_ne
        · exact absurd h hs.id1_nq
      · simp only
        intro n h1 h2
        by_cases hn : rr ≤ n
        · simp only [hn, ↓reduceIte]; congr 1; omega
        · simp only [hn, ↓reduceIte]
          exact oa n h1 (by omega)
      · simp only
        refine ⟨ot.1, fun n h0 hn => ?_⟩
        exact ot.2 n h0 hn
  · have h0 := hC.off_nonneg
    have hle := hC.off_le
    rw [hC.after k, hC.data]
    refine ⟨⟨?_, ?_, ?_, ?_⟩, ⟨?_, ?_⟩, rfl⟩
    · by_cases h : k > 0 <;> simp [h] <;> omega
    · simp
    · simp
    · intro h; rcases h with h | h
      · exact absurd h hs.id1_ne
      · exact absurd h hs.id1_nq
    · by_cases h : k > 0 <;> simp [h]
      intro n h1 h2
      rw [if_pos h1]; congr 1; omega
    · simp

/-- the run never aborts for lack of a writer or reader -/
theorem delivers_something (w : World) (s : Source) (sp : SP) (c : Cache) (d : CData)
    (hs : SourceWF s) (hc : CacheWF c) :
    (run w s sp c d).writer ≠ .err ∧ (run w s sp c d).reader ≠ .notExist := by
  rcases run_spec (w := w) (sp := sp) (d := d) hs hc with hF | hK | hC
  · rw [hF.writer, hF.reader]; exact ⟨by simp, by simp⟩
  · rw [hK.writer]
    rcases hK.read with ⟨h, _⟩ | ⟨_, _, _, _, h, _⟩ <;> rw [h] <;> exact ⟨by simp, by simp⟩
  · rw [hC.writer, hC.reader]; exact ⟨by simp, by simp⟩

/-! ## Non-vacuity: concrete worlds meeting the hypotheses, one per outcome -/

/-- id [2] is the previous history: equal to [1] below 100, different from 100 on -/
def w0 : World :=
  ⟨fun id n => if id = [2] ∧ 100 ≤ n then 7 else UInt8.ofNat n.toNat, fun _ _ i => UInt8.ofNat i⟩

/-- failover: current id [1], previous id [2] valid up to 100, backlog [50,201), master at 200 -/
def s0 : Source := ⟨[1], [2], 100, true, 50, 151, 200, 10, true⟩

theorem s0_wf : SourceWF s0 := by
  refine ⟨?_, ?_, ?_, ?_, ?_, ?_, ?_, ?_, ?_⟩ <;> decide

theorem w0_agree : Agree w0 s0 := by
  intro n _ hn
  have : ¬ (100 ≤ n) := by simp only [s0] at hn; omega
  simp [w0, s0, this]

def dOf (id : Id) (left : Int) : CData := ⟨fun n => w0.hist id n, (id, left)⟩

theorem dOf_holds (be : Backend) (id : Id) (rdb : Option (Int × Int)) (aof : Option (Int × Int)) (left : Int)
    (h : ∀ p, rdb = some p → p.1 = left) : Holds w0 id ⟨be, id, rdb, aof⟩ (dOf id left) := by
  constructor
  · cases aof with
    | none => trivial
    | some p => obtain ⟨l, r⟩ := p; intro n _ _; rfl
  · cases rdb with
    | none => trivial
    | some p => obtain ⟨l, sz⟩ := p; exact ⟨(h _ rfl).symm, fun n _ _ => rfl⟩

theorem dOf_ok (be : Backend) (id : Id) (rdb : Option (Int × Int)) (aof : Option (Int × Int)) (left : Int)
    (h : ∀ p, rdb = some p → p.1 = left) : CacheOK w0 s0 ⟨be, id, rdb, aof⟩ (dOf id left) :=
  ⟨fun e => by have := dOf_holds be id rdb aof left h; simp only at e; rw [e] at this ⊢; exact this,
   fun e => Or.inl (by have := dOf_holds be id rdb aof left h; simp only at e; rw [e] at this ⊢; exact this)⟩

-- A. stored under the previous id inside the cached log, cache under the previous
--    id and short of the switch offset: PSYNC [2] 91 is granted, the reader
--    starts at the stored offset 80, the cache is relabelled [1].
def spA : SP := ⟨[2], 80⟩
def cA : Cache := ⟨.memory, [2], none, some (60, 90)⟩
example : CacheWF cA := by refine ⟨?_, ?_, ?_, ?_⟩ <;> simp [cA, maxInt64, qId]
example : StoredCompat s0 spA cA := by unfold StoredCompat; decide
example : CacheOK w0 s0 cA (dOf [2] 0) := dOf_ok _ _ _ _ _ (by intro p h; cases h)
example : (run w0 s0 spA cA (dOf [2] 0)).reader = .aof 80 ∧
    (run w0 s0 spA cA (dOf [2] 0)).mt.ps.reqId = [2] ∧ (run w0 s0 spA cA (dOf [2] 0)).mt.ps.wireOff = 91 ∧
    (run w0 s0 spA cA (dOf [2] 0)).mt.ps.full = false ∧ (run w0 s0 spA cA (dOf [2] 0)).mt.runId = [1] ∧
    (cacheAfter (run w0 s0 spA cA (dOf [2] 0)).mt 5) = ⟨.memory, [1], none, some (60, 95)⟩ := by decide

-- B. same, but the cache under the previous id reaches beyond the switch offset
--    (bytes the old master wrote and the new one never had): PSYNC [2] 161 is
--    refused, the source's snapshot at 200 is taken and the cache dropped.
def spB : SP := ⟨[2], 150⟩
def cB : Cache := ⟨.disk, [2], some (100, 20), some (100, 160)⟩
example : CacheWF cB := by refine ⟨?_, ?_, ?_, ?_⟩ <;> simp [cB, maxInt64, qId]
example : StoredCompat s0 spB cB := by unfold StoredCompat; decide
example : (run w0 s0 spB cB (dOf [2] 100)).reader = .rdb 200 10 ∧
    (run w0 s0 spB cB (dOf [2] 100)).mt.ps.wireOff = 161 ∧ (run w0 s0 spB cB (dOf [2] 100)).mt.ps.full = true ∧
    (run w0 s0 spB cB (dOf [2] 100)).mt.deleted = true ∧
    (cacheAfter (run w0 s0 spB cB (dOf [2] 100)).mt 3) = ⟨.disk, [1], some (200, 10), some (200, 203)⟩ := by decide

-- C. nothing stored on the target, cache holds snapshot + log of the current id:
--    PSYNC [1] 181 is granted and the cached snapshot (120,30) is replayed.
def cC : Cache := ⟨.disk, [1], some (120, 30), some (120, 180)⟩
example : CacheWF cC := by refine ⟨?_, ?_, ?_, ?_⟩ <;> simp [cC, maxInt64, qId]
example : (run w0 s0 SP.initial cC (dOf [1] 120)).reader = .rdb 120 30 ∧
    (run w0 s0 SP.initial cC (dOf [1] 120)).mt.ps.wireOff = 181 ∧
    (run w0 s0 SP.initial cC (dOf [1] 120)).mt.outSp.offset = 90 ∧
    (run w0 s0 SP.initial cC (dOf [1] 120)).writer = .aof 180 := by decide

-- D. cache of an unknown id: cleared, continuation asked for the stored position.
def spD : SP := ⟨[1], 170⟩
def cD : Cache := ⟨.memory, [9], none, some (10, 20)⟩
example : CacheWF cD := by refine ⟨?_, ?_, ?_, ?_⟩ <;> simp [cD, maxInt64, qId]
example : (run w0 s0 spD cD (dOf [9] 0)).reader = .aof 170 ∧ (run w0 s0 spD cD (dOf [9] 0)).writer = .aof 170 ∧
    (run w0 s0 spD cD (dOf [9] 0)).mt.ps.wireOff = 171 ∧ (run w0 s0 spD cD (dOf [9] 0)).mt.clearLocal = true ∧
    (run w0 s0 spD cD (dOf [9] 0)).mt.deleted = true := by decide

/-- `StoredCompat` cannot be dropped: with every other hypothesis in place, a
    position stored under the previous id *beyond* the switch offset while the
    cache is labelled with the current id is continued from — although the
    prefix the target consumed is not the current history's (`syncMeta` compares
    the stored id only with the set of source ids, not with the cache's). The
    state itself is reachable (`storedCompat_not_invariant`), but then with a
    stale label on a target that holds the current history; what is never
    reachable is the combination with a target that really holds the previous
    history beyond the switch offset (`reach_safe`). -/
theorem storedCompat_needed :
    ∃ (sp : SP) (c : Cache) (d : CData), SourceWF s0 ∧ CacheWF c ∧ CacheOK w0 s0 c d ∧ Agree w0 s0 ∧
      ¬ StoredCompat s0 sp c ∧ (run w0 s0 sp c d).reader = .aof sp.offset ∧
      (run w0 s0 sp c d).mt.ps.full = false ∧
      ∃ n, 0 ≤ n ∧ n < sp.offset ∧ w0.hist sp.runId n ≠ w0.hist s0.id1 n := by
  refine ⟨⟨[2], 150⟩, ⟨.memory, [1], none, some (120, 180)⟩, dOf [1] 0, s0_wf, ?_, ?_, w0_agree, ?_, ?_, ?_, ?_⟩
  · refine ⟨?_, ?_, ?_, ?_⟩ <;> simp [maxInt64, qId]
  · exact dOf_ok _ _ _ _ _ (by intro p h; cases h)
  · unfold StoredCompat; decide
  · decide
  · decide
  · exact ⟨120, by decide, by decide, by decide⟩

/-! ## The stored position across connections (restart-in-window schedules)

  The theorems above take the stored position at face value. The following ones
  follow the target's bookkeeping itself (`Tgt`, `step`: `SetRunId`,
  `ResetStartPoint`, what `Send` stores; both the checkpoint on the target and
  the in-memory position) together with what the target's data really is, over
  ANY sequence of connections, interrupted replays, restarts and source changes.
  `Truthful` replaces `StoredCompat`: it is an invariant of the (repaired) code,
  not an assumption on the state. -/

/-- **a log is only ever continued on top of what the target really holds.** If
    the stored position is truthful, a log delivery starts exactly where the
    target's data ends, that data is a prefix of the current history, and the
    bytes delivered are the current history's from there on. -/
theorem continues_what_the_target_holds (w : World) (s : Source) (t : Tgt) (c : Cache) (d : CData)
    (hs : SourceWF s) (hc : CacheWF c) (hok : CacheOK w s c d) (hag : Agree w s)
    (htr : Truthful w s t c) (start : Int) (byte : Int → UInt8)
    (h : (run w s t.stored c d).delivery = .stream start byte) :
    start = t.stored.offset ∧
    ∃ tid, t.truth = .at tid start ∧ AgreeBelow w tid s.id1 start ∧
      ∀ n, start ≤ n → byte n = w.hist s.id1 n := by
  obtain ⟨e1, h0, _, hin, hb, hsw⟩ := stream_facts hs hc hok hag h
  obtain ⟨tid, ht, hd⟩ := htr hin h0
  subst e1
  refine ⟨rfl, tid, ht, ?_, hb⟩
  rcases hd with d1 | ⟨_, ln1, ag, hcn⟩
  · exact d1
  · have := hsw ln1 hcn
    exact fun n h0 hn => (ag n h0 hn).trans (hag n h0 (by omega))

/-- **the invariant is kept by every connection**, however it ends: the log
    replayed up to any offset `e`, a snapshot replay completed or interrupted
    (`done`), in resume and in in-memory mode, for any number `k` of bytes the
    cache went on storing. In particular after FULLRESYNC and after an
    interrupted snapshot replay no position is left that could be continued. -/
theorem truthful_preserved (resume : Bool) (w : World) (s : Source) (t : Tgt) (c : Cache) (d : CData)
    (hs : SourceWF s) (hc : CacheWF c) (hok : CacheOK w s c d) (hag : Agree w s)
    (htr : Truthful w s t c) (done : Bool) (e k : Int) :
    Truthful w s (step resume w s t c d done e) (cacheAfter (run w s t.stored c d).mt k) := by
  have hq1 : qId ≠ s.id1 := fun x => hs.id1_nq x.symm
  have hq2 : qId ≠ s.id2 := fun x => hs.id2_nq x.symm
  unfold step
  cases hdel : (run w s t.stored c d).delivery with
  | none =>
    exfalso
    rcases run_spec (w := w) (sp := t.stored) (d := d) hs hc with hF | hK | hC
    · rw [hF.delivery] at hdel; cases hdel
    · rcases hK.read with ⟨_, h, _⟩ | ⟨_, _, _, _, _, h⟩ <;> rw [h] at hdel <;> cases hdel
    · rw [hC.delivery] at hdel; cases hdel
  | snapshot tok left size =>
    simp only [Tgt.afterSend, hdel]
    cases done
    · intro hin _
      simp only [Bool.false_eq_true, if_false, SP.initial] at hin
      rcases hin with x | x
      · exact absurd x hq1
      · exact absurd x hq2
    · intro _ _
      exact ⟨s.id1, rfl, Or.inl (fun _ _ _ => rfl)⟩
  | stream start byte =>
    obtain ⟨e1, h0, hfull, hin, _, hsw⟩ := stream_facts hs hc hok hag hdel
    simp only [Tgt.afterSend, hdel]
    by_cases he : e > start
    · rw [if_pos he]
      intro _ _
      exact ⟨s.id1, rfl, Or.inl (fun _ _ _ => rfl)⟩
    · rw [if_neg he]
      obtain ⟨tid, ht, hd⟩ := htr hin h0
      have hd1 : AgreeBelow w tid s.id1 t.stored.offset := by
        rcases hd with d1 | ⟨_, ln1, ag, hcn⟩
        · exact d1
        · have := hsw ln1 hcn
          exact fun n h0 hn => (ag n h0 hn).trans (hag n h0 (by omega))
      simp only [Tgt.afterMeta, hfull, Bool.false_eq_true, if_false]
      intro _ _
      cases resume
      · exact ⟨tid, ht, Or.inl hd1⟩
      · exact ⟨tid, ht, Or.inl hd1⟩

/-- **and by a change of the source** — a failover that exposes the current id as
    the previous one, or an unrelated new history: provided the new current id is
    new (no position and no cache is labelled with it yet). What belongs to the
    new history is then decided by the source's answer to PSYNC, not by a label. -/
theorem truthful_source_change (w : World) (s s' : Source) (t : Tgt) (c : Cache)
    (htr : Truthful w s t c) (h1 : s'.id1 ≠ t.stored.runId) (h2 : s'.id1 ≠ c.runId)
    (h3 : s'.id2 = t.stored.runId → t.stored.runId = s.id1) :
    Truthful w s' t c := by
  intro hin h0
  rcases hin with x | x
  · exact absurd x.symm h1
  · have hL := h3 x.symm
    obtain ⟨tid, ht, hd⟩ := htr (Or.inl hL) h0
    rcases hd with d1 | ⟨_, ln1, _, _⟩
    · refine ⟨tid, ht, Or.inr ⟨x, fun y => h1 y.symm, ?_, Or.inl (fun y => h2 y.symm)⟩⟩
      rw [← x, hL]; exact d1
    · exact absurd hL ln1

/-- the source may change anything but its ids (backlog window, offsets) -/
theorem truthful_same_ids (w : World) (s s' : Source) (t : Tgt) (c : Cache)
    (htr : Truthful w s t c) (h1 : s'.id1 = s.id1) (h2 : s'.id2 = s.id2) : Truthful w s' t c := by
  unfold Truthful NotYetCurrent at htr ⊢
  rw [h1, h2]; exact htr

/-- a target that holds nothing, with nothing stored, is truthful -/
theorem truthful_initially (w : World) (s : Source) (hs : SourceWF s) (c : Cache) :
    Truthful w s ⟨SP.initial, .none⟩ c := by
  intro hin _
  rcases hin with x | x
  · exact absurd x.symm hs.id1_nq
  · exact absurd x.symm hs.id2_nq

/-! ## Sequences of connections -/

/-- replacing the cache (lost, trimmed, collected, another instance's, cleared and
    relabelled by a `syncMeta` that then failed) keeps the invariant unless the new
    cache newly holds data under the current id -/
theorem truthful_cache_change (w : World) (s : Source) (t : Tgt) (c c' : Cache)
    (htr : Truthful w s t c) (h : NotYetCurrent s c → NotYetCurrent s c') : Truthful w s t c' := by
  intro hin h0
  obtain ⟨tid, ht, hd⟩ := htr hin h0
  refine ⟨tid, ht, ?_⟩
  rcases hd with d1 | ⟨a, b, ag, hc⟩
  · exact Or.inl d1
  · exact Or.inr ⟨a, b, ag, h hc⟩

/-- a position that cannot be continued (foreign id or negative offset) is truthful -/
theorem truthful_forget (w : World) (s : Source) (sp' : SP) (tr : Truth) (c : Cache)
    (h : (sp'.runId ≠ s.id1 ∧ sp'.runId ≠ s.id2) ∨ sp'.offset < 0) : Truthful w s ⟨sp', tr⟩ c := by
  intro hin h0
  rcases h with ⟨a, b⟩ | a
  · rcases hin with x | x
    · exact absurd x a
    · exact absurd x b
  · simp only at h0; omega

/-- **invariant over every sequence** of connections (any ending, either mode),
    source changes, cache losses / replacements and lost positions: the
    hypotheses of the single-connection theorems hold in every reachable state. -/
theorem reach_inv (w : World) (σ : Sys) (h : Reach w σ) :
    SourceWF σ.s ∧ Agree w σ.s ∧ CacheWF σ.c ∧ CacheOK w σ.s σ.c σ.d ∧ Truthful w σ.s σ.t σ.c := by
  induction h with
  | init s be hs hag =>
    exact ⟨hs, hag, ⟨trivial, trivial, trivial, fun _ => ⟨rfl, rfl⟩⟩,
      ⟨fun _ => ⟨trivial, trivial⟩, fun _ => Or.inl ⟨trivial, trivial⟩⟩, truthful_initially w s hs _⟩
  | conn σ resume done e k _ hk hb ih =>
    obtain ⟨hs, hag, hc, hok, htr⟩ := ih
    obtain ⟨a, b, _⟩ := cache_consistent_after w σ.s σ.t.stored σ.c σ.d hs hc hok hag k hk hb _ rfl
    exact ⟨hs, hag, a, b, truthful_preserved resume w σ.s σ.t σ.c σ.d hs hc hok hag htr done e k⟩
  | same σ s' _ hs' hag' h1 h2 ih =>
    obtain ⟨_, _, hc, hok, htr⟩ := ih
    exact ⟨hs', hag', hc, ⟨fun e => by rw [h1] at e ⊢; exact hok.cur e, fun e => by rw [h1, h2] at *; exact hok.prev e⟩,
      truthful_same_ids w σ.s s' σ.t σ.c htr h1 h2⟩
  | change σ s' _ hs' hag' h1 h2 h3 h4 ih =>
    obtain ⟨_, _, hc, hok, htr⟩ := ih
    refine ⟨hs', hag', hc, ⟨fun e => absurd e.symm h2, fun e => ?_⟩, truthful_source_change w σ.s s' σ.t σ.c htr h1 h2 h3⟩
    have e1 := h4 e.symm
    left
    rw [← e, e1]
    exact hok.cur e1
  | cache σ c' d' _ hc' hok' hl ih =>
    obtain ⟨hs, hag, _, _, htr⟩ := ih
    exact ⟨hs, hag, hc', hok', truthful_cache_change w σ.s σ.t σ.c c' htr hl⟩
  | forget σ sp' _ hf ih =>
    obtain ⟨hs, hag, hc, hok, _⟩ := ih
    exact ⟨hs, hag, hc, hok, truthful_forget w σ.s sp' σ.t.truth σ.c hf⟩

/-- **end to end, over every sequence**: in every reachable state, whatever the
    next connection delivers as log starts exactly where the target's data ends,
    that data is a prefix of the source's current history, and the bytes are the
    current history's from there on; anything else it delivers is a complete
    snapshot (`outcome_continue_or_full`). -/
theorem reach_safe (w : World) (σ : Sys) (h : Reach w σ) (start : Int) (byte : Int → UInt8)
    (hd : (run w σ.s σ.t.stored σ.c σ.d).delivery = .stream start byte) :
    start = σ.t.stored.offset ∧ ∃ tid, σ.t.truth = .at tid start ∧ AgreeBelow w tid σ.s.id1 start ∧
      ∀ n, start ≤ n → byte n = w.hist σ.s.id1 n := by
  obtain ⟨hs, hag, hc, hok, htr⟩ := reach_inv w σ h
  exact continues_what_the_target_holds w σ.s σ.t σ.c σ.d hs hc hok hag htr start byte hd

/-- `syncMeta` failing after it cleared and relabelled the cache (`channel.DelRunId`,
    `channel.SetRunId`) and before the output was told anything leaves a reachable
    state: an empty cache already labelled with the current id, bookkeeping untouched. -/
theorem reach_after_failed_meta (w : World) (σ : Sys) (h : Reach w σ) :
    Reach w ⟨σ.s, σ.t, ⟨σ.c.backend, σ.s.id1, none, none⟩, CData.empty⟩ :=
  Reach.cache σ _ _ h ⟨trivial, trivial, trivial, fun _ => ⟨rfl, rfl⟩⟩
    ⟨fun _ => ⟨trivial, trivial⟩, fun _ => Or.inl ⟨trivial, trivial⟩⟩ (fun _ => Or.inr ⟨rfl, rfl⟩)

/-! ### non-vacuity of `Reach` / `reach_safe`: empty target and cache, FULLRESYNC at
    200 replayed to the end (the cache stores 30 more bytes), the source moves on to
    230, and the next connection streams from 200 -/

def s0b : Source := { s0 with backlogLen := 181, masterOff := 230 }
def σA : Sys := ⟨s0, ⟨SP.initial, .none⟩, ⟨.memory, [], none, none⟩, CData.empty⟩
def σB : Sys := ⟨s0, step true w0 s0 σA.t σA.c σA.d true 0,
  cacheAfter (run w0 s0 σA.t.stored σA.c σA.d).mt 30, (run w0 s0 σA.t.stored σA.c σA.d).data⟩
def σC : Sys := ⟨s0b, σB.t, σB.c, σB.d⟩

theorem reach_example :
    Reach w0 σC ∧ σC.t.stored = ⟨[1], 200⟩ ∧ σC.c = ⟨.memory, [1], some (200, 10), some (200, 230)⟩ ∧
    ∃ byte, (run w0 s0b σC.t.stored σC.c σC.d).delivery = .stream 200 byte := by
  have hs : SourceWF s0b := by refine ⟨?_, ?_, ?_, ?_, ?_, ?_, ?_, ?_, ?_⟩ <;> decide
  have hag : Agree w0 s0b := by
    intro n _ hn
    have : ¬ (100 ≤ n) := by simp only [s0b, s0] at hn; omega
    simp [w0, s0b, s0, this]
  refine ⟨?_, by decide, by decide, ⟨_, rfl⟩⟩
  exact Reach.same σB s0b
    (Reach.conn σA true true 0 30 (Reach.init s0 .memory s0_wf w0_agree) (by decide) (by decide))
    hs hag rfl rfl

/-- a log is never continued on a target whose last snapshot replay did not complete, nor on an empty one -/
theorem reach_never_streams_onto_dirty (w : World) (σ : Sys) (h : Reach w σ) (start : Int) (byte : Int → UInt8)
    (hd : (run w σ.s σ.t.stored σ.c σ.d).delivery = .stream start byte) :
    σ.t.truth ≠ .dirty ∧ σ.t.truth ≠ .none := by
  obtain ⟨_, tid, ht, _⟩ := reach_safe w σ h start byte hd
  rw [ht]; exact ⟨by simp, by simp⟩

/-- **a replayed snapshot is never behind the stored position**: when the source
    granted CONTINUE and a cached snapshot is replayed, either nothing was stored
    or the stored offset lies strictly before the snapshot's (the log, when it
    covers the stored offset, is always preferred). -/
theorem snapshot_not_behind (w : World) (s : Source) (sp : SP) (c : Cache) (d : CData)
    (hs : SourceWF s) (hc : CacheWF c) (tok : Id × Int) (left size : Int)
    (hf : (run w s sp c d).mt.ps.full = false)
    (h : (run w s sp c d).delivery = .snapshot tok left size) :
    sp.isInitial = true ∨ sp.offset < left := by
  rcases run_spec (w := w) (sp := sp) (d := d) hs hc with hF | hK | hC
  · rw [hF.full] at hf; cases hf
  · rcases hK.read with ⟨_, hdel, _⟩ | ⟨l', s', _, hlt, _, hdel⟩
    · rw [hdel] at h; cases h
    · rw [hdel] at h; cases h; exact hlt.imp id And.right
  · rw [hC.delivery] at h; cases h

/-- `StoredCompat` is NOT an invariant: in in-memory mode a granted continuation
    after a failover relabels the cache but not the stored position, and the log
    then carries the position beyond the switch offset (example A continued to
    150). `Truthful` survives (the target really holds the current history), so
    `continues_what_the_target_holds` / `reach_safe` apply where
    `outcome_continue_or_full` does not. -/
theorem storedCompat_not_invariant :
    Truthful w0 s0 ⟨⟨[2], 80⟩, .at [2] 80⟩ cA ∧ StoredCompat s0 ⟨[2], 80⟩ cA ∧
    ¬ StoredCompat s0 (step false w0 s0 ⟨⟨[2], 80⟩, .at [2] 80⟩ cA (dOf [2] 0) true 150).stored
        (cacheAfter (run w0 s0 ⟨[2], 80⟩ cA (dOf [2] 0)).mt 70) := by
  refine ⟨?_, by unfold StoredCompat; decide, by unfold StoredCompat; decide⟩
  intro _ _
  exact ⟨[2], rfl, Or.inr ⟨rfl, by decide, fun _ _ _ => rfl, Or.inl (by decide)⟩⟩

/-! ### what the three repairs are needed for (behaviour before 07a0622, 23cb23d, 58997e8) -/

/-- before the repair a FULLRESYNC kept the stored position: `SetRunId` re-keyed it
    to the new id with the old offset (on the target) or left it (in memory), and
    an interrupted snapshot replay left it there -/
def stepOld (resume : Bool) (w : World) (s : Source) (t : Tgt) (c : Cache) (d : CData) (done : Bool) (e : Int) : Tgt :=
  let r := run w s t.stored c d
  let t1 : Tgt := { t with stored := if resume then ⟨r.mt.runId, t.stored.offset⟩ else t.stored }
  match r.delivery with
  | .snapshot _ left _ => if done then ⟨⟨r.mt.runId, left⟩, .at s.id1 left⟩ else ⟨t1.stored, .dirty⟩
  | _ => t1.afterSend resume s r done e

/-- N1/N3: target at [2]:150 (beyond the switch offset 100), cache of [2] up to 160:
    PSYNC [2] 161 is refused, FULLRESYNC at 200; the snapshot replay is interrupted.
    Unrepaired, the position [1]:150 (resp. [2]:150 in memory) survives on a
    half-replaced data set; repaired, nothing is left to continue from. -/
theorem reset_on_full_needed :
    Truthful w0 s0 ⟨⟨[2], 150⟩, .at [2] 150⟩ cB ∧
    ¬ Truthful w0 s0 (stepOld true w0 s0 ⟨⟨[2], 150⟩, .at [2] 150⟩ cB (dOf [2] 100) false 0)
        (cacheAfter (run w0 s0 ⟨[2], 150⟩ cB (dOf [2] 100)).mt 60) ∧
    ¬ Truthful w0 s0 (stepOld false w0 s0 ⟨⟨[2], 150⟩, .at [2] 150⟩ cB (dOf [2] 100) false 0)
        (cacheAfter (run w0 s0 ⟨[2], 150⟩ cB (dOf [2] 100)).mt 60) ∧
    (step true w0 s0 ⟨⟨[2], 150⟩, .at [2] 150⟩ cB (dOf [2] 100) false 0).stored = SP.initial ∧
    (step false w0 s0 ⟨⟨[2], 150⟩, .at [2] 150⟩ cB (dOf [2] 100) false 0).stored = SP.initial := by
  refine ⟨?_, ?_, ?_, by decide, by decide⟩
  · intro _ _
    exact ⟨[2], rfl, Or.inr ⟨rfl, by decide, fun _ _ _ => rfl, Or.inl (by decide)⟩⟩
  · intro h
    have hst : (stepOld true w0 s0 ⟨⟨[2], 150⟩, .at [2] 150⟩ cB (dOf [2] 100) false 0) = ⟨⟨[1], 150⟩, .dirty⟩ := by
      simp only [stepOld]
      rfl
    rw [hst] at h
    obtain ⟨tid, ht, _⟩ := h (Or.inl rfl) (by decide)
    cases ht
  · intro h
    have hst : (stepOld false w0 s0 ⟨⟨[2], 150⟩, .at [2] 150⟩ cB (dOf [2] 100) false 0) = ⟨⟨[2], 150⟩, .dirty⟩ := by
      simp only [stepOld]
      rfl
    rw [hst] at h
    obtain ⟨tid, ht, _⟩ := h (Or.inr rfl) (by decide)
    cases ht

/-- N2: relabelling a truthful position of the previous id with the current id
    (what `newOutput` did at every start) breaks the invariant when the position
    lies beyond the switch offset — and the source then grants what it would have
    refused: PSYNC [1] 151 against PSYNC [2] 151. -/
theorem no_relabel_at_start_needed :
    Truthful w0 s0 ⟨⟨[2], 150⟩, .at [2] 150⟩ ⟨.memory, [], none, none⟩ ∧
    ¬ Truthful w0 s0 ⟨⟨[1], 150⟩, .at [2] 150⟩ ⟨.memory, [], none, none⟩ ∧
    (run w0 s0 ⟨[1], 150⟩ ⟨.memory, [], none, none⟩ CData.empty).reader = .aof 150 ∧
    (run w0 s0 ⟨[2], 150⟩ ⟨.memory, [], none, none⟩ CData.empty).mt.ps.full = true := by
  refine ⟨?_, ?_, by decide, by decide⟩
  · intro _ _
    exact ⟨[2], rfl, Or.inr ⟨rfl, by decide, fun _ _ _ => rfl, Or.inl (by decide)⟩⟩
  · intro h
    obtain ⟨tid, ht, hd⟩ := h (Or.inl rfl) (by decide)
    cases ht
    rcases hd with d1 | ⟨x, _⟩
    · have := d1 120 (by decide) (by decide)
      revert this; decide
    · revert x; decide

end GunYu.Props.C06
