/-
  C17 — the freshness hypotheses of `goodChecks_decide_good` / `bareChecks_decide_bare` (`hnames`, `hids`: a name / id
  never used does not occur on the target) are DECIDED by the Bool the driver evaluates on the dumped state (op
  `c17fresh`, Drive/C17Fresh.lean `namesOk` / `idsOk`) for the target the driver builds from the dump (`mkTarget`).
-/
import GunYu.Drive.C17Fresh

namespace GunYu.Props.C17
open GunYu GunYu.Checkpoint GunYu.Drive.C17 GunYu.Drive.C17Fresh

theorem namesOk_decides (names : List Bytes) (h : List (Bytes × Bytes)) (items : List (Nat × Bytes × Cp))
    (hok : namesOk names h items = true) :
    ∀ n, n ∉ names → (∀ db, (mkTarget h items).cps db n = []) ∧ ∀ p ∈ (mkTarget h items).hash, p.2 ≠ n := by
  simp only [namesOk, Bool.and_eq_true, List.all_eq_true, List.contains_iff_mem] at hok
  intro n hn
  refine ⟨fun db => ?_, fun p hp e => hn (e ▸ hok.2 p hp)⟩
  show (match items.find? (fun it => it.1 = db ∧ it.2.1 = n) with | some it => it.2.2 | none => []) = []
  cases hf : items.find? (fun it => it.1 = db ∧ it.2.1 = n) with
  | none => rfl
  | some it =>
    exfalso
    have hm := List.mem_of_find?_eq_some hf
    have hp := List.find?_some hf
    simp only [decide_eq_true_eq] at hp
    exact hn (hp.2 ▸ hok.1 it hm)

theorem idsOk_decides (ids : List Bytes) (h : List (Bytes × Bytes)) (items : List (Nat × Bytes × Cp))
    (hok : idsOk ids h items = true) :
    ∀ ρ, ρ ∉ ids → (∀ db n, ∀ e ∈ (mkTarget h items).cps db n, e.rid ≠ ρ) ∧ hlookup (mkTarget h items).hash ρ = none := by
  simp only [idsOk, Bool.and_eq_true, List.all_eq_true, List.contains_iff_mem] at hok
  intro ρ hρ
  refine ⟨fun db n e he er => ?_, ?_⟩
  · have he' : e ∈ (match items.find? (fun it => it.1 = db ∧ it.2.1 = n) with | some it => it.2.2 | none => []) := he
    cases hf : items.find? (fun it => it.1 = db ∧ it.2.1 = n) with
    | none => rw [hf] at he'; cases he'
    | some it =>
      rw [hf] at he'
      exact hρ (er ▸ hok.1 it (List.mem_of_find?_eq_some hf) e he')
  · show h.lookup ρ = none
    rw [List.lookup_eq_none_iff]
    intro p hp
    simp only [bne_iff_ne, ne_eq]
    intro e
    exact hρ (e ▸ hok.2 p hp)

/-- non-vacuity -/
example : namesOk [[99]] [([97], [99])] [(0, [99], [⟨[97], .offset, [49]⟩])] = true ∧
    idsOk [[97]] [([97], [99])] [(0, [99], [⟨[97], .offset, [49]⟩])] = true ∧
    idsOk [[98]] [([97], [99])] [(0, [99], [⟨[97], .offset, [49]⟩])] = false := by decide

end GunYu.Props.C17
