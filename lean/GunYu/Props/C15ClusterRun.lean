/-
  C15 — the cluster-type lease store refines the single store over WHOLE RUNS
  (requests from any node of a stale client table, ticks, begin of a slot
  migration, MIGRATE of single keys, end of the migration, completed moves).
-/
import GunYu.Props.C15Cluster

set_option linter.unusedSimpArgs false
set_option linter.unusedVariables false

namespace GunYu.Props.C15
open GunYu GunYu.Lease

/-! ### time -/

theorem lookup_later (st : Store) (now d : Nat) (k : Bytes) :
    lookup st (now + d) k = match lookup st now k with
      | some e => if now + d ≤ e.exp then some e else none
      | none => none := by
  unfold lookup
  cases st k with
  | none => rfl
  | some e =>
    dsimp only
    by_cases h1 : now ≤ e.exp
    · simp only [h1, ↓reduceIte]
    · have h2 : ¬ now + d ≤ e.exp := by omega
      simp only [h1, h2, ↓reduceIte]

theorem lookup_later_congr {A B : Store} {now : Nat} {k : Bytes} (d : Nat)
    (h : lookup A now k = lookup B now k) : lookup A (now + d) k = lookup B (now + d) k := by
  rw [lookup_later, lookup_later, h]

theorem lookup_later_none {A : Store} {now : Nat} {k : Bytes} (d : Nat)
    (h : lookup A now k = none) : lookup A (now + d) k = none := by
  rw [lookup_later, h]

theorem lookup_later_isSome {A : Store} {now : Nat} {k : Bytes} (d : Nat)
    (h : (lookup A (now + d) k).isSome = true) : (lookup A now k).isSome = true := by
  rw [lookup_later] at h
  cases hx : lookup A now k with
  | none => rw [hx] at h; simp at h
  | some e => rfl

/-- the cluster stands for the single store `st` (as far as anything can observe) -/
def View (c : CState) (now : Nat) (st : Store) : Prop :=
  ∀ k, lookup (absStore c now) now k = lookup st now k

theorem absStore_val (c : CState) (t : Nat) (k : Bytes) :
    absStore c t k = match c.mig (c.slot k) with
      | none => c.node (c.owner (c.slot k)) k
      | some m =>
        match lookup (c.node (c.owner (c.slot k))) t k with
        | some _ => c.node (c.owner (c.slot k)) k
        | none => c.node m k := rfl

/-- pointwise: the key's slot, its owner, its migration state and the key's entries agree -/
theorem absStore_congr' (c c' : CState) (now : Nat) (k : Bytes)
    (hs : c'.slot k = c.slot k) (ho : c'.owner (c.slot k) = c.owner (c.slot k))
    (hm : c'.mig (c.slot k) = c.mig (c.slot k))
    (hn : ∀ x, c'.node x k = c.node x k) : absStore c' now k = absStore c now k := by
  rw [absStore_val, absStore_val, hs, ho, hm]
  cases c.mig (c.slot k) with
  | none => exact hn _
  | some m =>
    dsimp only
    rw [lookup_congr now (hn (c.owner (c.slot k)))]
    cases lookup (c.node (c.owner (c.slot k))) now k with
    | none => exact hn m
    | some _ => exact hn _

theorem absStore_tick (c : CState) (now d : Nat) (k : Bytes) (hwf : CWf c now) :
    lookup (absStore c (now + d)) (now + d) k = lookup (absStore c now) (now + d) k := by
  cases hm : c.mig (c.slot k) with
  | none =>
    apply lookup_congr
    rw [absStore_val, absStore_val, hm]
  | some m =>
    cases h1 : lookup (c.node (c.owner (c.slot k))) now k with
    | none =>
      have h2 := lookup_later_none d h1
      apply lookup_congr
      rw [absStore_val, absStore_val, hm]; dsimp only; rw [h1, h2]
    | some e =>
      have hA : absStore c now k = c.node (c.owner (c.slot k)) k := by
        rw [absStore_val, hm]; dsimp only; rw [h1]
      cases h2 : lookup (c.node (c.owner (c.slot k))) (now + d) k with
      | some e' =>
        apply lookup_congr
        rw [hA, absStore_val, hm]; dsimp only; rw [h2]
      | none =>
        have hB : absStore c (now + d) k = c.node m k := by
          rw [absStore_val, hm]; dsimp only; rw [h2]
        rw [lookup_congr (now + d) hB, lookup_congr (now + d) hA, h2]
        exact lookup_later_none d (hwf.2 k m hm (by rw [h1]; rfl))

theorem cwf_tick (c : CState) (now d : Nat) (hwf : CWf c now) : CWf c (now + d) :=
  ⟨hwf.1, fun k m hm hl => lookup_later_none d (hwf.2 k m hm (lookup_later_isSome d hl))⟩

/-! ### requests -/

theorem exec_view_congr (r : Req) (A B : Store) (now : Nat) (k : Bytes)
    (h : ∀ k', lookup A now k' = lookup B now k') :
    ∀ k', lookup (r.exec A now k).1 now k' = lookup (r.exec B now k).1 now k' := by
  intro k'
  by_cases hk : k' = k
  · subst hk; exact (exec_congr r A B now k' (h k')).2
  · rw [lookup_congr now (exec_other r A now k k' hk), lookup_congr now (exec_other r B now k k' hk)]
    exact h k'

/-! ### resharding events: invisible through `absStore`, well-formedness kept -/

theorem lookup_of_none {st : Store} {k : Bytes} (now : Nat) (h : st k = none) : lookup st now k = none := by
  unfold lookup; rw [h]

def beginState (c : CState) (sl m : Nat) : CState :=
  { c with
    mig := fun x => if x = sl then some m else c.mig x,
    node := fun n => if n = m then (fun k => if c.slot k = sl then none else c.node m k) else c.node n }

theorem begin_ok (c : CState) (now sl m : Nat) (hwf : CWf c now) (h1 : c.mig sl = none) (h2 : m ≠ c.owner sl) :
    (∀ k, lookup (absStore (beginState c sl m) now) now k = lookup (absStore c now) now k) ∧
    CWf (beginState c sl m) now := by
  have hom : ¬ c.owner sl = m := fun h => h2 h.symm
  -- entries of keys outside the slot are untouched
  have hout : ∀ k, c.slot k ≠ sl → ∀ x, (beginState c sl m).node x k = c.node x k := by
    intro k hk x
    show (if x = m then (fun k => if c.slot k = sl then none else c.node m k) else c.node x) k = c.node x k
    by_cases hx : x = m
    · subst hx; simp only [↓reduceIte, hk]
    · simp only [hx, ↓reduceIte]
  have hown : (beginState c sl m).node (c.owner sl) = c.node (c.owner sl) := by
    show (if c.owner sl = m then _ else c.node (c.owner sl)) = _
    simp only [hom, ↓reduceIte]
  have hclr : ∀ k, c.slot k = sl → (beginState c sl m).node m k = none := by
    intro k hk
    show (if m = m then (fun k => if c.slot k = sl then none else c.node m k) else c.node m) k = none
    simp only [↓reduceIte, hk]
  have hmig_in : (beginState c sl m).mig sl = some m := by
    show (if sl = sl then some m else c.mig sl) = some m
    simp only [↓reduceIte]
  have hmig_out : ∀ s, s ≠ sl → (beginState c sl m).mig s = c.mig s := by
    intro s hs
    show (if s = sl then some m else c.mig s) = c.mig s
    simp only [hs, ↓reduceIte]
  refine ⟨?_, ?_, ?_⟩
  · intro k
    by_cases hk : c.slot k = sl
    · have hB : absStore c now k = c.node (c.owner sl) k := by
        rw [absStore_val, hk, h1]
      cases hl : lookup (c.node (c.owner sl)) now k with
      | some e =>
        have hA : absStore (beginState c sl m) now k = c.node (c.owner sl) k := by
          rw [absStore_val]
          show (match (beginState c sl m).mig (c.slot k) with
            | none => _
            | some m' => (match lookup ((beginState c sl m).node (c.owner (c.slot k))) now k with
              | some _ => (beginState c sl m).node (c.owner (c.slot k)) k
              | none => (beginState c sl m).node m' k)) = _
          rw [hk, hmig_in]; dsimp only; rw [hown, hl]
        exact lookup_congr now (hA.trans hB.symm)
      | none =>
        have hA : absStore (beginState c sl m) now k = none := by
          rw [absStore_val]
          show (match (beginState c sl m).mig (c.slot k) with
            | none => _
            | some m' => (match lookup ((beginState c sl m).node (c.owner (c.slot k))) now k with
              | some _ => (beginState c sl m).node (c.owner (c.slot k)) k
              | none => (beginState c sl m).node m' k)) = _
          rw [hk, hmig_in]; dsimp only; rw [hown, hl]; dsimp only
          exact hclr k hk
        rw [lookup_of_none now hA, lookup_congr now hB, hl]
    · exact lookup_congr now (absStore_congr' c (beginState c sl m) now k rfl rfl (hmig_out _ hk) (hout k hk))
  · intro s m' hm'
    by_cases hs : s = sl
    · subst hs
      rw [hmig_in] at hm'
      have : m = m' := by simpa using hm'
      subst this; exact h2
    · rw [hmig_out s hs] at hm'; exact hwf.1 s m' hm'
  · intro k m' hm' hlive
    by_cases hk : c.slot k = sl
    · have e : (beginState c sl m).mig (c.slot k) = some m' := hm'
      rw [hk, hmig_in] at e
      have : m = m' := by simpa using e
      subst this
      exact lookup_of_none now (hclr k hk)
    · have e : (beginState c sl m).mig (c.slot k) = some m' := hm'
      rw [hmig_out _ hk] at e
      have hl : (lookup ((beginState c sl m).node (c.owner (c.slot k))) now k).isSome = true := hlive
      rw [lookup_congr now (hout k hk _)] at hl
      show lookup ((beginState c sl m).node m') now k = none
      rw [lookup_congr now (hout k hk m')]
      exact hwf.2 k m' e hl

def migrateKeyState (c : CState) (k : Bytes) (m : Nat) (e : Entry) : CState :=
  { c with node := fun n =>
      if n = m then (c.node m).set k e
      else if n = c.owner (c.slot k) then (c.node n).del k
      else c.node n }

theorem migrateKey_ok (c : CState) (now : Nat) (k : Bytes) (m : Nat) (e : Entry) (hwf : CWf c now)
    (hm : c.mig (c.slot k) = some m) (hl : lookup (c.node (c.owner (c.slot k))) now k = some e) :
    (∀ k', lookup (absStore (migrateKeyState c k m e) now) now k' = lookup (absStore c now) now k') ∧
    CWf (migrateKeyState c k m e) now := by
  have hmo : m ≠ c.owner (c.slot k) := hwf.1 _ _ hm
  have hom : ¬ c.owner (c.slot k) = m := fun h => hmo h.symm
  have hnm : (migrateKeyState c k m e).node m = (c.node m).set k e := by
    show (if m = m then (c.node m).set k e else _) = _
    simp only [↓reduceIte]
  have hno : (migrateKeyState c k m e).node (c.owner (c.slot k)) = (c.node (c.owner (c.slot k))).del k := by
    show (if c.owner (c.slot k) = m then _ else if c.owner (c.slot k) = c.owner (c.slot k) then _ else _) = _
    simp only [hom, ↓reduceIte]
  have hother : ∀ k', k' ≠ k → ∀ x, (migrateKeyState c k m e).node x k' = c.node x k' := by
    intro k' hk x
    show (if x = m then (c.node m).set k e
      else if x = c.owner (c.slot k) then (c.node x).del k else c.node x) k' = c.node x k'
    by_cases hx : x = m
    · subst hx; simp only [↓reduceIte]; exact set_other _ k k' e hk
    · by_cases hx2 : x = c.owner (c.slot k)
      · subst hx2; simp only [hx, ↓reduceIte]; exact del_other _ k k' hk
      · simp only [hx, hx2, ↓reduceIte]
  have hdel : lookup ((migrateKeyState c k m e).node (c.owner (c.slot k))) now k = none := by
    rw [hno]; exact lookup_del_same _ now k
  refine ⟨?_, hwf.1, ?_⟩
  · intro k'
    by_cases hk : k' = k
    · subst hk
      have hA : absStore (migrateKeyState c k' m e) now k' = some e := by
        rw [absStore_val]
        show (match c.mig (c.slot k') with
          | none => _
          | some m' => (match lookup ((migrateKeyState c k' m e).node (c.owner (c.slot k'))) now k' with
            | some _ => (migrateKeyState c k' m e).node (c.owner (c.slot k')) k'
            | none => (migrateKeyState c k' m e).node m' k')) = _
        rw [hm]; dsimp only; rw [hdel]; dsimp only; rw [hnm]; exact set_same _ k' e
      have hB : absStore c now k' = c.node (c.owner (c.slot k')) k' := by
        rw [absStore_val, hm]; dsimp only; rw [hl]
      rw [lookup_of_live hA (lookup_some hl).2, lookup_congr now hB, hl]
    · exact lookup_congr now (absStore_congr' c (migrateKeyState c k m e) now k' rfl rfl rfl (hother k' hk))
  · intro k' m' hm' hlive
    by_cases hk : k' = k
    · subst hk
      have hl' : (lookup ((migrateKeyState c k' m e).node (c.owner (c.slot k'))) now k').isSome = true := hlive
      rw [hdel] at hl'; simp at hl'
    · have hl' : (lookup ((migrateKeyState c k m e).node (c.owner (c.slot k'))) now k').isSome = true := hlive
      rw [lookup_congr now (hother k' hk _)] at hl'
      show lookup ((migrateKeyState c k m e).node m') now k' = none
      rw [lookup_congr now (hother k' hk m')]
      exact hwf.2 k' m' hm' hl'

def finishState (c : CState) (now sl m : Nat) : CState :=
  { c with
    node := fun n => if n = m then (fun k => if c.slot k = sl then absStore c now k else c.node m k) else c.node n,
    owner := fun x => if x = sl then m else c.owner x,
    mig := fun x => if x = sl then none else c.mig x }

theorem finish_ok (c : CState) (now sl m : Nat) (hwf : CWf c now) :
    (∀ k, lookup (absStore (finishState c now sl m) now) now k = lookup (absStore c now) now k) ∧
    CWf (finishState c now sl m) now := by
  have hout : ∀ k, c.slot k ≠ sl → ∀ x, (finishState c now sl m).node x k = c.node x k := by
    intro k hk x
    show (if x = m then (fun k => if c.slot k = sl then absStore c now k else c.node m k) else c.node x) k = _
    by_cases hx : x = m
    · subst hx; simp only [↓reduceIte, hk]
    · simp only [hx, ↓reduceIte]
  have hmig_in : (finishState c now sl m).mig sl = none := by
    show (if sl = sl then none else c.mig sl) = none
    simp only [↓reduceIte]
  have hmig_out : ∀ s, s ≠ sl → (finishState c now sl m).mig s = c.mig s := by
    intro s hs
    show (if s = sl then none else c.mig s) = c.mig s
    simp only [hs, ↓reduceIte]
  have hown_out : ∀ s, s ≠ sl → (finishState c now sl m).owner s = c.owner s := by
    intro s hs
    show (if s = sl then m else c.owner s) = c.owner s
    simp only [hs, ↓reduceIte]
  refine ⟨?_, ?_, ?_⟩
  · intro k
    by_cases hk : c.slot k = sl
    · apply lookup_congr
      rw [absStore_val]
      show (match (finishState c now sl m).mig (c.slot k) with
        | none => (finishState c now sl m).node ((finishState c now sl m).owner (c.slot k)) k
        | some m' => _) = _
      rw [hk, hmig_in]
      show (if (if sl = sl then m else c.owner sl) = m
        then (fun k => if c.slot k = sl then absStore c now k else c.node m k)
        else c.node (if sl = sl then m else c.owner sl)) k = _
      simp only [↓reduceIte, hk]
    · exact lookup_congr now (absStore_congr' c (finishState c now sl m) now k rfl (hown_out _ hk)
        (hmig_out _ hk) (hout k hk))
  · intro s m' hm'
    by_cases hs : s = sl
    · subst hs; rw [hmig_in] at hm'; simp at hm'
    · rw [hmig_out s hs] at hm'; rw [hown_out s hs]; exact hwf.1 s m' hm'
  · intro k m' hm' hlive
    by_cases hk : c.slot k = sl
    · have e : (finishState c now sl m).mig (c.slot k) = some m' := hm'
      rw [hk, hmig_in] at e; simp at e
    · have e : (finishState c now sl m).mig (c.slot k) = some m' := hm'
      rw [hmig_out _ hk] at e
      have hl : (lookup ((finishState c now sl m).node ((finishState c now sl m).owner (c.slot k))) now k).isSome
          = true := hlive
      rw [hown_out _ hk, lookup_congr now (hout k hk _)] at hl
      show lookup ((finishState c now sl m).node m') now k = none
      rw [lookup_congr now (hout k hk m')]
      exact hwf.2 k m' e hl

def moveState (c : CState) (sl n : Nat) : CState :=
  { c with
    node := fun x => if x = n then (fun k => if c.slot k = sl then c.node (c.owner sl) k else c.node n k)
                     else c.node x,
    owner := fun x => if x = sl then n else c.owner x }

theorem move_ok (c : CState) (now sl n : Nat) (hwf : CWf c now) (h1 : c.mig sl = none) :
    (∀ k, lookup (absStore (moveState c sl n) now) now k = lookup (absStore c now) now k) ∧
    CWf (moveState c sl n) now := by
  have hout : ∀ k, c.slot k ≠ sl → ∀ x, (moveState c sl n).node x k = c.node x k := by
    intro k hk x
    show (if x = n then (fun k => if c.slot k = sl then c.node (c.owner sl) k else c.node n k) else c.node x) k = _
    by_cases hx : x = n
    · subst hx; simp only [↓reduceIte, hk]
    · simp only [hx, ↓reduceIte]
  have hown_out : ∀ s, s ≠ sl → (moveState c sl n).owner s = c.owner s := by
    intro s hs
    show (if s = sl then n else c.owner s) = c.owner s
    simp only [hs, ↓reduceIte]
  refine ⟨?_, ?_, ?_⟩
  · intro k
    by_cases hk : c.slot k = sl
    · apply lookup_congr
      rw [absStore_val, absStore_val]
      show (match c.mig (c.slot k) with
        | none => (moveState c sl n).node ((moveState c sl n).owner (c.slot k)) k
        | some m' => _) = _
      rw [hk, h1]
      show (if (if sl = sl then n else c.owner sl) = n
        then (fun k => if c.slot k = sl then c.node (c.owner sl) k else c.node n k)
        else c.node (if sl = sl then n else c.owner sl)) k = _
      simp only [↓reduceIte, hk]
    · exact lookup_congr now (absStore_congr' c (moveState c sl n) now k rfl (hown_out _ hk) rfl (hout k hk))
  · intro s m' hm'
    have e : c.mig s = some m' := hm'
    by_cases hs : s = sl
    · subst hs; rw [h1] at e; simp at e
    · rw [hown_out s hs]; exact hwf.1 s m' e
  · intro k m' hm' hlive
    have e : c.mig (c.slot k) = some m' := hm'
    by_cases hk : c.slot k = sl
    · rw [hk, h1] at e; simp at e
    · have hl : (lookup ((moveState c sl n).node ((moveState c sl n).owner (c.slot k))) now k).isSome
          = true := hlive
      rw [hown_out _ hk, lookup_congr now (hout k hk _)] at hl
      show lookup ((moveState c sl n).node m') now k = none
      rw [lookup_congr now (hout k hk m')]
      exact hwf.2 k m' e hl

/-! ### one event, whole runs -/

theorem cstep_refines (s : CSys) (st : Store) (ev : CEv) (hwf : CWf s.c s.now) (hv : View s.c s.now st) :
    (cstep s ev).2 = (sstep st s.now ev).2.2 ∧
    CWf (cstep s ev).1.c (cstep s ev).1.now ∧
    (cstep s ev).1.now = (sstep st s.now ev).2.1 ∧
    View (cstep s ev).1.c (cstep s ev).1.now (sstep st s.now ev).1 := by
  cases ev with
  | req v k r =>
    obtain ⟨c', hc, hview, hwf', _, _, _⟩ := clientDo_refines s.c s.now v k r hwf
    simp only [cstep, hc, sstep]
    refine ⟨?_, hwf', by first | rfl | trivial, ?_⟩
    · rw [(exec_congr r _ _ s.now k (hv k)).1]
    · intro k'
      show lookup (absStore c' s.now) s.now k' = _
      rw [hview k']; exact exec_view_congr r _ _ s.now k hv k'
  | tick d =>
    simp only [cstep, sstep]
    refine ⟨by first | rfl | trivial, cwf_tick _ _ d hwf, by first | rfl | trivial, fun k => ?_⟩
    show lookup (absStore s.c (s.now + d)) (s.now + d) k = _
    rw [absStore_tick _ _ d k hwf]; exact lookup_later_congr d (hv k)
  | begin sl m =>
    simp only [cstep, sstep]
    split
    · rename_i h
      obtain ⟨ha, hw⟩ := begin_ok s.c s.now sl m hwf h.1 h.2
      exact ⟨by first | rfl | trivial, hw, by first | rfl | trivial, fun k => (ha k).trans (hv k)⟩
    · exact ⟨by first | rfl | trivial, hwf, by first | rfl | trivial, hv⟩
  | migrateKey k =>
    simp only [cstep, sstep]
    split
    · rename_i m hm
      split
      · rename_i e hl
        obtain ⟨ha, hw⟩ := migrateKey_ok s.c s.now k m e hwf hm hl
        exact ⟨by first | rfl | trivial, hw, by first | rfl | trivial, fun k' => (ha k').trans (hv k')⟩
      · exact ⟨by first | rfl | trivial, hwf, by first | rfl | trivial, hv⟩
    · exact ⟨by first | rfl | trivial, hwf, by first | rfl | trivial, hv⟩
  | finish sl =>
    simp only [cstep, sstep]
    split
    · rename_i m hm
      obtain ⟨ha, hw⟩ := finish_ok s.c s.now sl m hwf
      exact ⟨by first | rfl | trivial, hw, by first | rfl | trivial, fun k => (ha k).trans (hv k)⟩
    · exact ⟨by first | rfl | trivial, hwf, by first | rfl | trivial, hv⟩
  | move sl n =>
    simp only [cstep, sstep]
    split
    · rename_i h
      obtain ⟨ha, hw⟩ := move_ok s.c s.now sl n hwf h
      exact ⟨by first | rfl | trivial, hw, by first | rfl | trivial, fun k => (ha k).trans (hv k)⟩
    · exact ⟨by first | rfl | trivial, hwf, by first | rfl | trivial, hv⟩

theorem crun_refines : ∀ (evs : List CEv) (s : CSys) (st : Store), CWf s.c s.now → View s.c s.now st →
    (crun s evs).2 = srun st s.now evs := by
  intro evs
  induction evs with
  | nil => intro s st _ _; rfl
  | cons ev rest ih =>
    intro s st hwf hv
    obtain ⟨h1, h2, h3, h4⟩ := cstep_refines s st ev hwf hv
    simp only [crun, srun]
    have := ih (cstep s ev).1 (sstep st s.now ev).1 h2 h4
    rw [h1, this, h3]

/-- THE refinement, whole runs. For EVERY well-formed cluster (any number of nodes, any slot table and
    migration state, any key spaces), every instant and EVERY list of events — election requests first sent
    to any node (a stale client table), ticks, begin of a slot migration, MIGRATE of single keys, end of a
    migration, completed moves — the replies the cluster client gets are exactly those of the ONE store
    `absStore c now` under the same requests and ticks: every theorem of C15 about the single store (at most
    one holder, expiry bound, takeover, …) is a theorem about the election on a cluster-type lease store. -/
theorem cluster_run_refines : cluster_run_refines_stmt := by
  intro c now evs hwf
  exact crun_refines evs { c := c, now := now } (absStore c now) hwf (fun _ => rfl)

/-- a cluster that is not resharding is well-formed whatever its nodes hold -/
theorem cwf_of_no_migration (c : CState) (now : Nat) (h : ∀ s, c.mig s = none) : CWf c now :=
  ⟨fun s m hm => by rw [h s] at hm; simp at hm, fun k m hm => by rw [h _] at hm; simp at hm⟩

example : CWf exC 7 :=
  ⟨fun s m h => by simp only [exC, Option.some.injEq] at h; subst h; simp [exC], fun _ _ _ _ => rfl⟩

end GunYu.Props.C15
