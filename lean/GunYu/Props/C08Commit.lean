/-
  C08 — the COMMIT of a cached snapshot (session 5): `RdbWriter.closeRdb` after the last
  announced byte has been written —

      Sync ; Close ; os.Rename(x.rdb.tmp, x.rdb) ; observer.Close(left, size, false)

  — with a failure at any of the three syscalls (repaired in /repo 45f65ae: sync, close and
  rename must ALL succeed before the index is told; otherwise the snapshot is dropped like an
  incomplete one: `Close(left, size, true)` + `os.Remove(tmp)`, and `Wait` returns the error).

  Model: `XOp.rdbCommitFail chunk ren rmOk` (Model/StoreFsX.lean) — the last chunk reaches the
  temporary file, `ren` = the rename was attempted (sync and close had succeeded) and failed,
  `rmOk` = the removal of the temporary file succeeded. Sync and Close are not directory
  operations: under process-death semantics a cut before / after them is the same directory
  image as the cut after the last write, so "cut at every syscall" = every prefix of
  [append, (failed rename), remove] with the append torn at every length.

  Because `rdbCommitFail` is a constructor of `XOp`, EVERY theorem over scripts with faults
  (`fault_crash_bytes_true`, `fault_crash_snapshot_true`, `resume_*`, `root_*`, `live_*`,
  `closed_segment_file_exact`) now quantifies over scripts with failing commits anywhere; the
  theorems below say what is specific to the step.

  Also here: a committed NAME whose file has another size than announced is not offered
  (`reopen_snapshot_sized`, `wrong_size_snapshot_not_offered`: the size defence of `initDataSet`).
-/
import GunYu.Props.C08Faults
import GunYu.Proofs.StoreRoot

namespace GunYu.Props.C08
open GunYu GunYu.Store GunYu.StoreFs GunYu.StoreFsX

/-- the step is the failing commit (not its fall-back `rdbAppend`): a snapshot writer is attached
    and `chunk` is the last announced piece -/
def CommitPoint (s : XDisk) (r : DRdb) (chunk : Bytes) : Prop :=
  s.d.rdb = some r ∧ r.writing = true ∧ r.data.length + chunk.length = r.size

theorem commitFail_step {s : XDisk} {r : DRdb} {chunk : Bytes} (h : CommitPoint s r chunk) (ren rmOk : Bool) :
    xstep s (.rdbCommitFail chunk ren rmOk) =
      (⟨(s.d.step .rdbClose).1, s.fs.applyAll (okOps (commitFailAtts r chunk ren rmOk)), s.zombies⟩,
       commitFailAtts r chunk ren rmOk) := by
  obtain ⟨hr, hw, hl⟩ := h
  simp only [xstep, hr, hw, hl, Bool.true_and, decide_true, if_true]

/-- **commit_fail_dropped.** A commit that fails — at the sync, the close or the rename — is not
    announced: the index holds no snapshot afterwards, no rename took effect, and the attempted
    syscalls are exactly: the last write, the rename (only if sync and close succeeded), the
    removal of the temporary file. -/
theorem commit_fail_dropped {s : XDisk} {r : DRdb} {chunk : Bytes} (h : CommitPoint s r chunk) (ren rmOk : Bool) :
    (xstep s (.rdbCommitFail chunk ren rmOk)).1.d.rdb = none ∧
    (∀ o ∈ okOps (xstep s (.rdbCommitFail chunk ren rmOk)).2, ∀ a b, o ≠ .rename a b) ∧
    (xstep s (.rdbCommitFail chunk ren rmOk)).2 =
      [⟨.append (rdbTmpName r.left r.size) chunk, true⟩] ++
      (if ren then [⟨.rename (rdbTmpName r.left r.size) (rdbName r.left r.size), false⟩] else []) ++
      [⟨.remove (rdbTmpName r.left r.size), rmOk⟩] := by
  rw [commitFail_step h]
  refine ⟨?_, ?_, rfl⟩
  · simp only [Disk.step, h.1, h.2.1, if_true]
  · intro o ho a b e
    rcases commitFail_okOps_mem r chunk ren rmOk o ho with rfl | rfl <;> cases e

/-- the torn variant of an operation list touches the names the list touches -/
theorem tornLastX_names (ops : List FsOp) (k : Nat) :
    ∀ o ∈ tornLastX ops k, ∃ o' ∈ ops, o.names = o'.names := by
  intro o ho
  unfold tornLastX at ho
  split at ho
  · rename_i n bs hl
    rcases List.mem_append.mp ho with h1 | h1
    · exact ⟨o, List.dropLast_subset _ h1, rfl⟩
    · simp at h1; subst h1
      exact ⟨_, List.mem_of_getLast? hl, rfl⟩
  · rename_i n hdr hl
    rcases List.mem_append.mp ho with h1 | h1
    · exact ⟨o, List.dropLast_subset _ h1, rfl⟩
    · simp at h1; subst h1
      exact ⟨_, List.mem_of_getLast? hl, rfl⟩
  · exact ⟨o, ho, rfl⟩

/-- **commit_fail_crash_not_offered.** The process dies at ANY point of a failing commit (after
    `n` of its operations, the last write torn after `k` bytes — i.e. before or after the sync, the
    close, the failed rename, the announcement `Close(.., true)`, the removal): a snapshot the
    re-opened cache offers was a committed file of the directory BEFORE the step. The snapshot
    whose commit failed is never offered on the strength of this step. -/
theorem commit_fail_crash_not_offered {s : XDisk} {r : DRdb} {chunk : Bytes} (h : CommitPoint s r chunk)
    (ren rmOk : Bool) (n k L S : Nat)
    (ho : (reopen (crashImageX s.fs (okOps (xstep s (.rdbCommitFail chunk ren rmOk)).2) n k)).rdb = some (L, S)) :
    ∃ c, s.fs.get (rdbName L S) = some c := by
  rw [commitFail_step h] at ho
  obtain ⟨⟨content, hmem⟩, _⟩ := tmp_snapshot_not_offered _ L S ho
  obtain ⟨c', hget, _⟩ := get_some_of_mem hmem
  refine ⟨c', ?_⟩
  rw [← hget]
  symm
  apply get_applyAll_other
  intro o hoo
  obtain ⟨o', ho', hn⟩ := tornLastX_names _ k o hoo
  rw [hn, commitFail_okOps_names r chunk ren rmOk o' (List.mem_of_mem_take ho')]
  simp [rdbName, rdbTmpName]

/-- **commit_fail_then_nothing_new_offered**, for whole scripts from the empty store: a script
    whose LAST step is a failing commit, cut anywhere: what is offered is complete and is what a
    snapshot writer of the script received (instance of `fault_crash_snapshot_true`: the theorems
    over `XOp` cover the new step) -/
theorem commit_fail_script_snapshot_true (l m : Nat) (xs : List XOp) (chunk : Bytes) (ren rmOk : Bool)
    (hwf : wfX (XDisk.init l m) (xs ++ [.rdbCommitFail chunk ren rmOk])) (n k L S : Nat) :
    let img := crashImageX [] (xScriptOps (XDisk.init l m) (xs ++ [.rdbCommitFail chunk ren rmOk])) n k
    (reopen img).rdb = some (L, S) → ∃ c, img.get (rdbName L S) = some c ∧ c.length = S :=
  fault_crash_snapshot_complete l m _ hwf n k L S

/-! ### a committed NAME whose file has another size than announced (inside the quantifier now) -/

/-- **reopen_snapshot_sized.** For ANY directory image — not only crash images of the writers —
    a snapshot the re-opened cache offers is a file holding exactly the announced number of
    bytes: `initDataSet` compares `info.Size()` with the size in the name (/repo fix of session 5;
    before it the NAME was trusted whatever the file held). The length part of `SnapOk` for the
    OFFERED snapshot is a theorem of `reopen`, no longer a hypothesis. -/
theorem reopen_snapshot_sized (fs : FS) (l sz : Nat) (h : (reopen fs).rdb = some (l, sz)) :
    ∃ c, fs.get (rdbName l sz) = some c ∧ c.length = sz := by
  obtain ⟨⟨content, hmem⟩, _⟩ := tmp_snapshot_not_offered fs l sz h
  obtain ⟨c', hget, _⟩ := get_some_of_mem hmem
  refine ⟨c', hget, ?_⟩
  have := scanRdb_sized (reopen_rdb_some h)
  rw [hget] at this
  exact this

/-- **wrong_size_snapshot_not_offered.** A committed name with fewer (or more) bytes than
    announced — what a POWER LOSS can leave when the rename reaches the disk before the data, a
    copy cut short, a file-system repair — is NOT offered after re-opening, whatever else the
    directory holds. (No process death at a syscall of the writers produces such a file:
    `fault_crash_snapshot_complete`; this theorem widens the covered images to any image in which
    a committed name has the wrong size.) Lost pages INSIDE a full-length file are detected only by
    the optional CRC footer with verification on. -/
theorem wrong_size_snapshot_not_offered (fs : FS) (l sz : Nat)
    (h : ∀ c, fs.get (rdbName l sz) = some c → c.length ≠ sz) : (reopen fs).rdb ≠ some (l, sz) := by
  intro ho
  obtain ⟨c, hget, hlen⟩ := reopen_snapshot_sized fs l sz ho
  exact h c hget hlen

/-! ### `changeReplId` (pkg/store/util.go) and its second branch -/

/-- `changeReplId(dir, a, b)` as directory-level syscalls: `none` = the error of `Stat(a)` is
    returned; `b` absent: `os.Rename(a, b)`; `b` PRESENT (second branch): `os.RemoveAll(b)` (the
    entries in `readdir` order `order`, then the directory) and `os.MkdirAll(a)` — no syscall effect,
    `a` exists. -/
def changeReplIdSys (r : Root) (a b : String) (order : List FName) : Option (List RSys) :=
  if !r.has a then none
  else if !r.has b then some [.renameDir a b]
  else some (order.map (RSys.unlink b) ++ [.rmdir b])

/-- **changeReplId_second_branch_unreachable.** Whenever `SetRunId` calls `changeReplId` (its two
    guards — no current directory / the new id has a directory — did not send it to `newRunId`),
    the new id has NO directory: `changeReplId` takes its first branch, the rename, and that is
    the first thing `setRunIdSys` issues. The second branch (RemoveAll of the new id's directory)
    needs another process to create `<base>/<new>` between `ExistReplId` and `Stat` — outside the
    model (one process owns the base directory). -/
theorem changeReplId_second_branch_unreachable (r : Root) (cur new : String) (order : List FName)
    (hreal : realId new = true) (h : setRunIdRenames r cur new = true) :
    changeReplIdSys r cur new order = some [.renameDir cur new] ∧
    setRunIdSys r cur new = [.renameDir cur new] ++ newRunIdSys (r.applySys (.renameDir cur new)) cur new := by
  simp only [setRunIdRenames, Bool.and_eq_true, Bool.not_eq_true', Bool.or_eq_false_iff, Bool.not_eq_false'] at h
  obtain ⟨⟨h1, h2⟩, h3, h4⟩ := h
  constructor
  · simp [changeReplIdSys, h2, h4]
  · simp [setRunIdSys, hreal, h1, h2, h3, h4]

/-- **placeholder_id_ignored.** `SetRunId("")` / `SetRunId("?")` issue no syscall whatever the
    current id and the directories are (/repo 02e084c: before it, "?" with a current directory
    renamed that directory to `<base>/?`). -/
theorem placeholder_id_ignored (r : Root) (cur new : String) (h : realId new = false) :
    setRunIdSys r cur new = [] := by
  simp [setRunIdSys, h]

-- the second branch, had it been reached: the NEW id's directory is destroyed, the old one stays
-- under its old name (nothing of it is served under the new id)
example : changeReplIdSys [("A", [(.aof 100, [1])]), ("B", [(.aof 7, [2])])] "A" "B" [.aof 7] =
    some [.unlink "B" (.aof 7), .rmdir "B"] := by decide
example : (Root.applyAllSys [("A", [(.aof 100, [1])]), ("B", [(.aof 7, [2])])]
    [.unlink "B" (.aof 7), .rmdir "B"]).map (·.1) = ["A"] := by decide
example : setRunIdSys [("A", [])] "A" "?" = [] := placeholder_id_ignored _ _ _ rfl
example : setRunIdRenames [("A", [])] "A" "C" = true := by decide

/-! ### non-vacuity -/

/-- a snapshot whose commit fails at the rename (temporary file removed), received again and
    committed; then one whose commit fails at the sync and whose temporary file stays -/
def exCommit : List XOp :=
  [.op (.setRunId "a"), .op (.newRdbWriter 200 3), .op (.rdbAppend [7]), .rdbCommitFail [8, 9] true true,
   .op (.newRdbWriter 200 3), .op (.rdbAppend [7, 8, 9]),
   .op (.newRdbWriter 300 2), .rdbCommitFail [1, 2] false false]

example : wfX (XDisk.init 24 30) exCommit := by decide

-- the attempted syscalls of the first failing commit: write, failed rename, removal
example : ((xrun (XDisk.init 24 30) (exCommit.take 4)).drop 2) =
    [⟨.append (.rdbTmp 200 3) [8, 9], true⟩, ⟨.rename (.rdbTmp 200 3) (.rdb 200 3), false⟩,
     ⟨.remove (.rdbTmp 200 3), true⟩] := by decide +kernel

-- at the commit point the hypotheses of the step theorems hold
example : CommitPoint (xfinal (XDisk.init 24 30) (exCommit.take 3))
    ⟨200, 3, [7], true, false⟩ [8, 9] := ⟨by decide +kernel, rfl, rfl⟩

-- nothing is offered at any cut of the failing commit (here: after the complete last write)
example : (reopen (crashImageX [] (xScriptOps (XDisk.init 24 30) (exCommit.take 4)) 3 9)).rdb = none := by
  decide +kernel
-- the index dropped it
example : (xfinal (XDisk.init 24 30) (exCommit.take 4)).d.rdb = none := by decide +kernel
-- received again: offered, complete
example : (reopen (xfinal (XDisk.init 24 30) (exCommit.take 6)).fs).rdb = some (200, 3) := by decide +kernel
-- the second failing commit: the complete temporary file STAYS (removal failed) and is not offered
example : (xfinal (XDisk.init 24 30) exCommit).fs = [(.rdbTmp 300 2, [1, 2])] := by decide +kernel
example : (reopen (xfinal (XDisk.init 24 30) exCommit).fs).rdb = none := by decide +kernel

-- a committed name with 1 of 3 announced bytes is NOT offered; an older well-sized snapshot beside it is
example : (reopen [(rdbName 200 3, [7])]).rdb = none := by decide +kernel
example : (reopen [(rdbName 200 3, [7, 8, 9])]).rdb = some (200, 3) := by decide +kernel
example : (reopen [(rdbName 100 2, [1, 2]), (rdbName 200 3, [7])]).rdb = some (100, 2) := by decide +kernel

end GunYu.Props.C08
