/-
  C10 — the REGENERATED definitions of pkg/filter/range.go `IsSlotInList` and
  `InsertSlotInList` (lean/GunYu/Gen/FnRangeList.lean, translated from /repo's Go
  source on every run) equal the hand-written model of Model/Filter.lean
  (`RangeList.contains`, `RangeList.insert`), so the range theorems of C10 hold
  of the regenerated code: the lookup after any sequence of inserts answers
  "the key's HASH_SLOT lies in the union of the valid ranges".

  Side conditions, exactly those of the code: `len(key) < 2^63`, fewer than
  2^63-1 ranges; the receiver is non-nil and holds no nil range (the insert never
  stores one - part of the statement below); `InsertSlotInList` finds the
  insertion point by BINARY search (`sort.Search`), which is the model's linear
  "before the first greater Left" only on a list sorted by Left - the invariant
  the insert itself maintains (proved here as well).
-/
import GunYu.Model.Filter
import GunYu.Proofs.FilterRange
import GunYu.Props.C11Gen
import GunYu.Props.C10
import GunYu.Gen.FnRangeList

namespace GunYu.Props.C10
open GunYu GunYu.Filter GunYu.Gen
open GunYu.Props.C11 (index_nat lt_len_iff addI_nat)

/-- a Go `Range` as the model's pair -/
def absRange (r : Fn.Range) : Nat × Nat := (r.Left.toNat, r.Right.toNat)

/-- a Go `RangeList` without nil entries, and the model value it denotes -/
def concRL (xs : List Fn.Range) (mn mx : BitVec 16) : Fn.RangeList :=
  { list := xs.map some, minLeft := mn, maxRight := mx }

def absRL (xs : List Fn.Range) (mn mx : BitVec 16) : Filter.RangeList :=
  { list := xs.map absRange, minLeft := mn.toNat, maxRight := mx.toNat }

/-! ### IsSlotInList -/

theorem gen_isSlot_loop (xs : List Fn.Range) (mn mx s : BitVec 16)
    (hlen : xs.length < 9223372036854775807) :
    ∀ (fuel i : Nat), i ≤ xs.length → xs.length - i < fuel →
      Fn.isSlotInList_loop1 (concRL xs mn mx) s fuel (i : Int) =
        some (if scanRanges ((xs.drop i).map absRange) s.toNat then GoSem.Ctl.ret true else GoSem.Ctl.next ()) := by
  intro fuel
  induction fuel with
  | zero => intro i _ hf; omega
  | succ fuel ih =>
    intro i hi hf
    unfold Fn.isSlotInList_loop1
    have hl : GoSem.len (concRL xs mn mx).list = (xs.length : Int) := by simp [concRL, GoSem.len]
    by_cases hlt : i < xs.length
    · have h1 : ((i : Int) < GoSem.len (concRL xs mn mx).list) := by rw [hl]; omega
      have hix : GoSem.index (concRL xs mn mx).list (i : Int) = some (some xs[i]) := by
        rw [index_nat _ i (by simp [concRL]; exact hlt)]; simp [concRL]
      simp only [h1, ↓reduceIte, hix, Option.bind_some, bind]
      rw [List.drop_eq_getElem_cons hlt, List.map_cons, scanRanges.eq_def]
      simp only [absRange]
      by_cases h2 : xs[i].Left > s
      · have h2' : xs[i].Left.toNat > s.toNat := by simpa [BitVec.lt_def] using h2
        simp [h2, h2', pure]
      · have h2' : ¬ xs[i].Left.toNat > s.toNat := by simpa [BitVec.lt_def] using h2
        simp only [h2, h2', ↓reduceIte]
        by_cases h3 : s ≤ xs[i].Right
        · have h3' : s.toNat ≤ xs[i].Right.toNat := by simpa [BitVec.le_def] using h3
          simp [h3, h3', pure]
        · have h3' : ¬ s.toNat ≤ xs[i].Right.toNat := by simpa [BitVec.le_def] using h3
          simp only [h3, h3', ↓reduceIte]
          rw [addI_nat i (by omega), ih (i + 1) (by omega) (by omega)]
    · have h1 : ¬ ((i : Int) < GoSem.len (concRL xs mn mx).list) := by rw [hl]; omega
      have h2 : xs.drop i = [] := List.drop_eq_nil_of_le (by omega)
      rw [if_neg h1, h2]
      simp [scanRanges, pure]


/-- the regenerated `IsSlotInList` is the model's lookup on the key's slot -/
theorem gen_isSlotInList_eq_model (xs : List Fn.Range) (mn mx : BitVec 16) (key : Bytes)
    (hk : key.length < 9223372036854775807) (hlen : xs.length < 9223372036854775807) :
    Fn.isSlotInList (concRL xs mn mx) key = some ((absRL xs mn mx).contains (Slot.keyToSlot key)) := by
  unfold Fn.isSlotInList
  rw [C11.gen_keyToSlot_eq_bv key hk, ← C11.keyToSlotBV_toNat]
  generalize C11.keyToSlotBV key = s
  simp only [Option.bind_some, bind]
  have hl : GoSem.len (concRL xs mn mx).list = (xs.length : Int) := by simp [concRL, GoSem.len]
  unfold RangeList.contains
  by_cases he : xs = []
  · subst he
    simp [concRL, absRL, GoSem.len, pure]
  · have hne : xs.length ≠ 0 := by simpa using he
    have h0 : ¬ (GoSem.len (concRL xs mn mx).list = (0 : Int)) := by rw [hl]; omega
    have h0' : (absRL xs mn mx).list.isEmpty = false := by simp [absRL, he]
    rw [if_neg h0]
    simp only [h0', Bool.false_eq_true, ↓reduceIte]
    by_cases hb : s < (concRL xs mn mx).minLeft ∨ s > (concRL xs mn mx).maxRight
    · have hb' : (decide (s.toNat < (absRL xs mn mx).minLeft) || decide (s.toNat > (absRL xs mn mx).maxRight)) = true := by
        simp only [concRL, BitVec.lt_def, gt_iff_lt] at hb
        rw [Bool.or_eq_true]
        rcases hb with h | h
        · exact Or.inl (decide_eq_true h)
        · exact Or.inr (decide_eq_true h)
      rw [if_pos hb, if_pos hb']
      rfl
    · have hb' : ¬ ((decide (s.toNat < (absRL xs mn mx).minLeft) || decide (s.toNat > (absRL xs mn mx).maxRight)) = true) := by
        intro hc
        rw [Bool.or_eq_true] at hc
        apply hb
        simp only [concRL, BitVec.lt_def, gt_iff_lt]
        rcases hc with h | h
        · exact Or.inl (of_decide_eq_true h)
        · exact Or.inr (of_decide_eq_true h)
      rw [if_neg hb, if_neg hb']
      have hloop := gen_isSlot_loop xs mn mx s hlen ((GoSem.len (concRL xs mn mx).list).toNat + 1) 0 (by omega)
        (by rw [hl]; omega)
      simp only [Int.ofNat_zero, List.drop_zero] at hloop
      rw [hloop]
      simp only [absRL]
      cases scanRanges (xs.map absRange) s.toNat <;> rfl


/-! ### InsertSlotInList: `sort.Search` (binary search) on a sorted list -/

/-- binary search over a monotone predicate returns the first index where it holds -/
theorem sortSearchLoop_spec (n : Nat) (p : Nat → Bool) (f : Int → Option Bool)
    (hf : ∀ h : Nat, h < n → f (h : Int) = some (p h))
    (mono : ∀ a b, a ≤ b → b < n → p a = true → p b = true) :
    ∀ (fuel i j : Nat), i ≤ j → j ≤ n → j - i < fuel →
      (∀ h, h < i → p h = false) → (∀ h, j ≤ h → h < n → p h = true) →
      ∃ r : Nat, i ≤ r ∧ r ≤ j ∧ GoSem.sortSearchLoop f fuel (i : Int) (j : Int) = some (r : Int) ∧
        (∀ h, h < r → p h = false) ∧ (∀ h, r ≤ h → h < n → p h = true) := by
  intro fuel
  induction fuel with
  | zero => intro i j _ _ hfu; omega
  | succ fuel ih =>
    intro i j hij hjn hfu hlo hhi
    unfold GoSem.sortSearchLoop
    by_cases hlt : i < j
    · have h1 : ((i : Int) < (j : Int)) := by omega
      have hm : ((i : Int) + (j : Int)) / 2 = (((i + j) / 2 : Nat) : Int) := by omega
      have hmi : i ≤ (i + j) / 2 := by omega
      have hmj : (i + j) / 2 < j := by omega
      simp only [h1, ↓reduceIte, hm, hf ((i + j) / 2) (by omega), Option.bind_some, bind]
      cases hp : p ((i + j) / 2) with
      | false =>
        simp only [↓reduceIte]
        have e : (((i + j) / 2 : Nat) : Int) + 1 = (((i + j) / 2 + 1 : Nat) : Int) := by omega
        rw [e]
        obtain ⟨r, h1, h2, h3, h4, h5⟩ := ih ((i + j) / 2 + 1) j (by omega) hjn (by omega)
          (by
            intro h hh
            cases hph : p h with
            | false => rfl
            | true =>
              have := mono h ((i + j) / 2) (by omega) (by omega) hph
              rw [hp] at this; cases this)
          hhi
        exact ⟨r, by omega, h2, h3, h4, h5⟩
      | true =>
        simp only [Bool.true_eq_false, ↓reduceIte]
        obtain ⟨r, h1, h2, h3, h4, h5⟩ := ih i ((i + j) / 2) hmi (by omega) (by omega) hlo
          (by intro h hh hn; exact mono ((i + j) / 2) h hh hn hp)
        exact ⟨r, h1, by omega, h3, h4, h5⟩
    · have h1 : ¬ ((i : Int) < (j : Int)) := by omega
      have : i = j := by omega
      subst this
      rw [if_neg h1]
      exact ⟨i, Nat.le_refl _, Nat.le_refl _, rfl, hlo, hhi⟩

/-- the model's linear insert puts the range before the first greater Left -/
theorem insertSorted_at (l r : Nat) (xs : List (Nat × Nat)) (k : Nat) (hk : k ≤ xs.length)
    (hlo : ∀ h, (hh : h < k) → ¬ (xs[h].1 > l))
    (hhi : ∀ h, k ≤ h → (hh : h < xs.length) → xs[h].1 > l) :
    insertSorted l r xs = xs.take k ++ (l, r) :: xs.drop k := by
  induction xs generalizing k with
  | nil => simp [insertSorted]
  | cons x rest ih =>
    obtain ⟨a, b⟩ := x
    unfold insertSorted
    cases k with
    | zero =>
      have := hhi 0 (Nat.le_refl _) (by simp)
      simp only [List.getElem_cons_zero] at this
      simp [this]
    | succ k =>
      have h0 := hlo 0 (by omega)
      simp only [List.getElem_cons_zero] at h0
      simp only [h0, ↓reduceIte, List.take_succ_cons, List.drop_succ_cons, List.cons_append, List.cons.injEq, true_and]
      apply ih k (by simpa using hk)
      · intro h hh
        have := hlo (h + 1) (by omega)
        simpa using this
      · intro h hkh hh
        have := hhi (h + 1) (by omega) (by simp; omega)
        simpa using this

theorem sorted_getElem_le (ps : List (Nat × Nat)) (hs : SortedL ps) (a b : Nat) (hab : a ≤ b) (hb : b < ps.length) :
    (ps[a]'(by omega)).1 ≤ ps[b].1 := by
  rcases Nat.lt_or_eq_of_le hab with h | h
  · exact List.pairwise_iff_getElem.mp hs a b (by omega) hb h
  · subst h; exact Nat.le_refl _

/-- the regenerated `InsertSlotInList`, on a list sorted by Left and free of nil entries,
    yields such a list again, and it denotes the model's `RangeList.insert` -/
theorem gen_insertSlotInList_eq_model (xs : List Fn.Range) (mn mx l r : BitVec 16)
    (hlen : xs.length < 9223372036854775806) (hs : SortedL (xs.map absRange)) :
    ∃ ys mn' mx', Fn.insertSlotInList (concRL xs mn mx) l r = some (concRL ys mn' mx') ∧
      absRL ys mn' mx' = (absRL xs mn mx).insert l.toNat r.toNat := by
  unfold Fn.insertSlotInList RangeList.insert
  by_cases hle : l ≤ r
  · have hle' : l.toNat ≤ r.toNat := by simpa [BitVec.le_def] using hle
    rw [if_pos hle, if_pos hle']
    -- the binary search
    let p : Nat → Bool := fun h => decide (((xs.map absRange)[h]?.getD (0, 0)).1 > l.toNat)
    have hf : ∀ h : Nat, h < xs.length →
        (fun (i : Int) => (do
          let t1 ← GoSem.index (concRL xs mn mx).list i
          let t2 ← t1
          pure (decide (t2.Left > l)) : Option Bool)) (h : Int) = some (p h) := by
      intro h hh
      have hix : GoSem.index (concRL xs mn mx).list (h : Int) = some (some xs[h]) := by
        rw [index_nat _ h (by simp [concRL]; exact hh)]; simp [concRL]
      simp only [hix, Option.bind_some, bind, pure, p]
      congr 1
      simp [hh, absRange, BitVec.lt_def]
    have mono : ∀ a b, a ≤ b → b < xs.length → p a = true → p b = true := by
      intro a b hab hb hpa
      have := sorted_getElem_le (xs.map absRange) hs a b hab (by simpa using hb)
      simp only [p, List.getElem?_map, decide_eq_true_eq] at hpa ⊢
      rw [List.getElem?_eq_getElem (by omega)] at hpa
      rw [List.getElem?_eq_getElem hb]
      simp only [List.getElem_map] at this
      simp only [Option.map_some, Option.getD_some] at hpa ⊢
      omega
    obtain ⟨k, _, hk, hsrch, hlo, hhi⟩ := sortSearchLoop_spec xs.length p
      (fun (i : Int) => (do
          let t1 ← GoSem.index (concRL xs mn mx).list i
          let t2 ← t1
          pure (decide (t2.Left > l)) : Option Bool)) hf mono (xs.length + 1) 0 xs.length
      (by omega) (by omega) (by omega) (by intro h hh; omega) (by intro h h1 h2; omega)
    have hl : GoSem.len (concRL xs mn mx).list = (xs.length : Int) := by simp [concRL, GoSem.len]
    have hsrch' : GoSem.sortSearch (GoSem.len (concRL xs mn mx).list) (fun (i : Int) => (do
          let t1 ← GoSem.index (concRL xs mn mx).list i
          let t2 ← t1
          pure (decide (t2.Left > l)) : Option Bool)) = some (k : Int) := by
      unfold GoSem.sortSearch
      rw [hl]
      simpa using hsrch
    simp only [bind] at hsrch' ⊢
    simp only [hsrch', Option.bind_some]
    have hins : GoSem.insertAt (concRL xs mn mx).list (k : Int) (some ({ Left := l, Right := r } : Fn.Range)) =
        some ((xs.take k ++ ({ Left := l, Right := r } : Fn.Range) :: xs.drop k).map some) := by
      unfold GoSem.insertAt
      have h1 : (k : Int) ≤ GoSem.len (List.map some xs) := by simp [GoSem.len]; omega
      simp [concRL, h1]
    simp only [hins, Option.bind_some]
    -- the model side: same position
    have hpos : insertSorted l.toNat r.toNat (xs.map absRange) =
        (xs.map absRange).take k ++ (l.toNat, r.toNat) :: (xs.map absRange).drop k := by
      apply insertSorted_at _ _ _ k (by simpa using hk)
      · intro h hh
        have := hlo h hh
        simp only [p, decide_eq_false_iff_not] at this
        rw [List.getElem?_eq_getElem (by simp; omega)] at this
        simpa using this
      · intro h hkh hh
        have := hhi h hkh (by simpa using hh)
        simp only [p, decide_eq_true_eq] at this
        rw [List.getElem?_eq_getElem hh] at this
        simpa using this
    refine ⟨xs.take k ++ ({ Left := l, Right := r } : Fn.Range) :: xs.drop k,
      if l < mn then l else mn, if r > mx then r else mx, ?_, ?_⟩
    · by_cases h1 : l < mn <;> by_cases h2 : r > mx <;> simp [concRL, h1, h2, pure]
    · simp only [absRL, hpos, List.map_append, List.map_cons, List.map_take, List.map_drop, absRange]
      have e1 : (if l < mn then l else mn).toNat = (if l.toNat < mn.toNat then l.toNat else mn.toNat) := by
        by_cases h1 : l < mn
        · have : l.toNat < mn.toNat := by simpa [BitVec.lt_def] using h1
          simp [h1, this]
        · have : ¬ l.toNat < mn.toNat := by simpa [BitVec.lt_def] using h1
          simp [h1, this]
      have e2 : (if r > mx then r else mx).toNat = (if r.toNat > mx.toNat then r.toNat else mx.toNat) := by
        by_cases h1 : r > mx
        · have : r.toNat > mx.toNat := by simpa [BitVec.lt_def] using h1
          simp [h1, this]
        · have : ¬ r.toNat > mx.toNat := by simpa [BitVec.lt_def] using h1
          simp [h1, this]
      rw [e1, e2]
      first | rfl | (congr 1 <;> simp)
  · have hle' : ¬ l.toNat ≤ r.toNat := by simpa [BitVec.le_def] using hle
    rw [if_neg hle, if_neg hle']
    exact ⟨xs, mn, mx, rfl, rfl⟩


/-! ### any sequence of inserts, then a lookup: C10's range theorem about the regenerated code -/

theorem length_insertSorted (l r : Nat) (xs : List (Nat × Nat)) :
    (insertSorted l r xs).length = xs.length + 1 := by
  induction xs with
  | nil => simp [insertSorted]
  | cons x rest ih =>
    obtain ⟨a, b⟩ := x
    unfold insertSorted
    split <;> simp [ih]

/-- `InsertSlotInList` called for each pair in turn (Go: `rl.InsertSlotInList(l, r)` in a loop) -/
def genInsertAll (rl : Fn.RangeList) (rs : List (BitVec 16 × BitVec 16)) : Option Fn.RangeList :=
  rs.foldlM (fun rl p => Fn.insertSlotInList rl p.1 p.2) rl

def natPairs (rs : List (BitVec 16 × BitVec 16)) : List (Nat × Nat) := rs.map (fun p => (p.1.toNat, p.2.toNat))

theorem gen_insertAll_eq_model (rs : List (BitVec 16 × BitVec 16)) :
    ∀ (xs : List Fn.Range) (mn mx : BitVec 16), SortedL (xs.map absRange) →
      xs.length + rs.length < 9223372036854775806 →
      ∃ ys mn' mx', genInsertAll (concRL xs mn mx) rs = some (concRL ys mn' mx') ∧
        absRL ys mn' mx' = (natPairs rs).foldl (fun rl p => rl.insert p.1 p.2) (absRL xs mn mx) ∧
        ys.length ≤ xs.length + rs.length := by
  induction rs with
  | nil => intro xs mn mx _ _; exact ⟨xs, mn, mx, rfl, rfl, by simp⟩
  | cons p rest ih =>
    intro xs mn mx hs hlen
    obtain ⟨ys, mn', mx', h1, h2⟩ := gen_insertSlotInList_eq_model xs mn mx p.1 p.2 (by simp at hlen; omega) hs
    have hlist : ys.map absRange = ((absRL xs mn mx).insert p.1.toNat p.2.toNat).list := by
      rw [← h2]; rfl
    have hs' : SortedL (ys.map absRange) := by
      rw [hlist]
      unfold RangeList.insert
      split
      · exact sorted_insertSorted _ _ _ hs
      · exact hs
    have hl' : ys.length ≤ xs.length + 1 := by
      have : (ys.map absRange).length ≤ xs.length + 1 := by
        rw [hlist]
        unfold RangeList.insert
        split
        · simp [length_insertSorted, absRL]
        · simp [absRL]
      simpa using this
    obtain ⟨zs, mn'', mx'', h3, h4, h5⟩ := ih ys mn' mx' hs' (by simp at hlen; omega)
    refine ⟨zs, mn'', mx'', ?_, ?_, ?_⟩
    · unfold genInsertAll at h3 ⊢
      rw [List.foldlM_cons, h1]
      exact h3
    · rw [h4, h2]; rfl
    · simp; omega

/-- the regenerated `NewRangeList()` returns a non-nil, empty list with both bounds 0: the
    model's `RangeList.empty` -/
theorem gen_newRangeList_eq_model :
    Fn.newRangeList = some (some (concRL [] 0#16 0#16)) ∧ absRL [] 0#16 0#16 = RangeList.empty :=
  ⟨rfl, rfl⟩

/-- C10's range theorem, directly about the definitions regenerated from range.go
    (and slot.go, crc16.go): after ANY sequence of `InsertSlotInList` calls on the list the
    regenerated `NewRangeList()` returns, `IsSlotInList(key)` says exactly whether the key's Redis Cluster slot lies in
    the union of the valid ranges; neither call panics. -/
theorem gen_rangeLookup_iff (rs : List (BitVec 16 × BitVec 16)) (key : Bytes)
    (hk : key.length < 9223372036854775807) (hn : rs.length < 9223372036854775806) :
    ∃ rl0 rl b, Fn.newRangeList = some (some rl0) ∧
      genInsertAll rl0 rs = some rl ∧ Fn.isSlotInList rl key = some b ∧
      (b = true ↔ ∃ p ∈ rs, p.1.toNat ≤ p.2.toNat ∧
        p.1.toNat ≤ Slot.hashSlotSpec key ∧ Slot.hashSlotSpec key ≤ p.2.toNat) := by
  obtain ⟨ys, mn, mx, h1, h2, h3⟩ := gen_insertAll_eq_model rs [] 0#16 0#16 (by simp [SortedL]) (by simpa using hn)
  refine ⟨_, _, _, gen_newRangeList_eq_model.1, h1, gen_isSlotInList_eq_model ys mn mx key hk (by simp at h3; omega), ?_⟩
  have e : absRL ys mn mx = RangeList.insertAll (natPairs rs) := by rw [h2]; rfl
  rw [e, rangeLookup_iff, C11.keyToSlot_eq_spec]
  constructor
  · rintro ⟨q, hq, h⟩
    obtain ⟨p, hp, rfl⟩ := List.mem_map.mp hq
    exact ⟨p, hp, h⟩
  · rintro ⟨p, hp, h⟩
    exact ⟨(p.1.toNat, p.2.toNat), List.mem_map.mpr ⟨p, hp, rfl⟩, h⟩

/-! non-vacuity: nested + overlapping + reversed ranges through the regenerated code -/
example : (do
    let rl0 ← (← Fn.newRangeList)
    let rl ← genInsertAll rl0 [(10#16, 20#16), (30#16, 40#16), (15#16, 35#16), (9#16, 3#16), (15000#16, 16000#16)]
    let a ← Fn.isSlotInList rl [123,97,125,123,98,125]   -- "{a}{b}": slot 15495
    let b ← Fn.isSlotInList rl [97]                       -- "a": slot 15495
    let c ← Fn.isSlotInList rl [98]                       -- "b": slot 3300
    pure (a, b, c, rl.list.length)) = some (true, true, false, 4) := by decide +kernel

end GunYu.Props.C10
