/-
  C14 — sync mode on a target with ANY number of recovery slots (cluster).

  Property theorems only (model: Model/FrontierSyncN.lean, lemmas: Proofs/FrontierSyncN.lean).

  Quantifiers: any number `N` of scanned slots; ANY initial contents of the per-slot latest hashes
  (what earlier numberings left behind in any slots, records of foreign run ids, a root override that
  purged nothing), any assignment of units to slots, every interleaving of commits and restarts.
-/
import GunYu.Model.FrontierSyncN
import GunYu.Proofs.FrontierSyncN

namespace GunYu.Props.C14
open GunYu GunYu.Frontier

/-- `LoadBisyncLatestStartRecord`'s selection over any list of latest records (one per scanned slot, any
    order): the result is a record of the list with a reported run id whose END OFFSET is maximal among
    those (the unit sequence number plays no role: after a numbering restart an older slot may hold a
    larger one), and nothing is returned only when no record carries a reported run id. -/
theorem best_latest_is_max_end_offset (recs : List Rec) (ids : List Bytes) :
    (∀ b, (bestLatest recs ids).1 = some b →
      b ∈ recs ∧ matchRun b.runId ids = true ∧ ∀ r ∈ recs, matchRun r.runId ids = true → r.endOff ≤ b.endOff) ∧
    ((bestLatest recs ids).1 = none → ∀ r ∈ recs, matchRun r.runId ids = false) :=
  ⟨fun _ h => bestLatest_some h, fun h => bestLatest_none h⟩

/-- one scanned slot: the N-slot start is the start of `sync_mode_exact`'s model -/
theorem sync_start_one_slot (ns : NS) (ids : List Bytes) :
    startLatestN 1 ns.root (fun _ => ns.latest) ids = startLatest ns ids := startLatestN_one ns ids

/-- the invariant holds in a namespace whose latest hashes hold ANYTHING that does not end beyond the root
    checkpoint (fresh namespace: nothing; after a full resynchronisation: the latest records of the
    previous numbering - ANY sequence numbers - which no start ever purges in this mode); the process
    may hold any sequence number -/
theorem syncN_init_inv (next : Int → Int) (rid : Bytes) (ids : List Bytes) (N : Nat) (o₀ : Int) (db : Nat)
    (latest₀ : Nat → Option Rec) (cur₀ : Int)
    (hleft : ∀ t r, latest₀ t = some r → matchRun r.runId ids = true → r.endOff ≤ o₀) :
    SyncNInv next rid ids N o₀ { root := (rid, o₀, db), latest := latest₀, cur := cur₀, off := o₀ } 0 :=
  ⟨⟨db, rfl⟩, rfl, rfl, fun t r hr hm => ⟨hleft t r hr hm, fun h => absurd h (by omega)⟩,
   fun h => absurd h (by omega)⟩

/-- every step (a unit committed into the slot of its keys, a restart) preserves it -/
theorem syncN_each_step_preserves (next : Int → Int) (rid : Bytes) (ids : List Bytes) (N : Nat) (o₀ : Int)
    (s : SyncNSys) (n : Nat) (hi : SyncNInv next rid ids N o₀ s n)
    (hs : ∀ o, o < next o) (hrid : matchRun rid ids = true) (st : SyncNStep) :
    ∃ n', SyncNInv next rid ids N o₀ (syncNStep next rid ids N s st) n' := syncNStep_inv hi hs hrid st

/-- Sync mode over ANY number of recovery slots, units landing in ANY slots, restarts that really
    re-scan the target, starting over ANY leftovers that do not end beyond the root checkpoint (root
    override without purge; their sequence numbers are arbitrary): for EVERY interleaving of commits and
    restarts the units the target applied are exactly the first n units of the stream behind the root,
    in order — none twice, none skipped — a start resumes at the end of the n-th, and once a unit has
    been committed it hands the process the sequence number of that unit and the run id it was recorded
    under. `hs`: a unit ends after it starts (unit_offsets_grow for the parser's units). -/
theorem sync_mode_exact_slots (next : Int → Int) (rid : Bytes) (ids : List Bytes) (N : Nat) (o₀ : Int) (db : Nat)
    (latest₀ : Nat → Option Rec) (steps : List SyncNStep)
    (hs : ∀ o, o < next o) (hrid : matchRun rid ids = true)
    (hleft : ∀ t r, latest₀ t = some r → matchRun r.runId ids = true → r.endOff ≤ o₀) :
    let s := syncNRun next rid ids N { root := (rid, o₀, db), latest := latest₀, cur := 0, off := o₀ } steps
    ∃ n : Nat,
      s.applied = unitStarts next o₀ n ∧ s.off = iterOff next o₀ n ∧
      ∃ db' rid' seq, startLatestN N (some (rid, o₀, db)) s.latest ids = .point db' rid' (iterOff next o₀ n) seq ∧
        matchRun rid' ids = true ∧ (0 < n → seq = s.cur ∧ rid' = rid) := by
  intro s
  obtain ⟨n, hi⟩ := syncNRun_inv hs hrid steps (syncN_init_inv next rid ids N o₀ db latest₀ 0 hleft)
  obtain ⟨db', rid', seq, hst, hm, hseq⟩ := startLatestN_of_inv hi hs hrid
  refine ⟨n, hi.applied, hi.off, db', rid', seq, ?_, hm, hseq⟩
  rw [syncNRun_root] at hst
  exact hst

/-- … in the numbering of a `World` (unit i ends at `W.e i`, as in `sync_mode_exact`): starting from seq 0
    over leftovers that end strictly before the root, the units are numbered 1, 2, … and a start returns
    exactly (W.e n, n). -/
theorem sync_mode_exact_slots_numbered (next : Int → Int) (rid : Bytes) (ids : List Bytes) (N : Nat) (o₀ : Int)
    (db : Nat) (latest₀ : Nat → Option Rec) (steps : List SyncNStep)
    (hs : ∀ o, o < next o) (hrid : matchRun rid ids = true)
    (hleft : ∀ t r, latest₀ t = some r → matchRun r.runId ids = true → r.endOff ≤ o₀) :
    let s := syncNRun next rid ids N { root := (rid, o₀, db), latest := latest₀, cur := 0, off := o₀ } steps
    (∀ t r, latest₀ t = some r → matchRun r.runId ids = true → r.endOff < o₀) →
    ∃ n : Nat, s.applied = unitStarts next o₀ n ∧
      ∃ db', startLatestN N (some (rid, o₀, db)) s.latest ids = .point db' rid (iterOff next o₀ n) n := by
  intro s hstrict
  obtain ⟨n, hi, hcur, h0⟩ := syncNRun_numbered hs hrid steps
    (syncN_init_inv next rid ids N o₀ db latest₀ 0 hleft) rfl (fun _ => hstrict)
  refine ⟨n, hi.applied, ?_⟩
  cases Nat.eq_zero_or_pos n with
  | inr hpos =>
    obtain ⟨db', rid', seq, hst, _, hseq⟩ := startLatestN_of_inv hi hs hrid
    rw [syncNRun_root] at hst
    obtain ⟨h1, h2⟩ := hseq hpos
    refine ⟨db', ?_⟩
    rw [hst, h1, h2, hcur]
  | inl hz =>
    subst hz
    refine ⟨db, ?_⟩
    have := startLatestN_root_of_strict (N := N) (latest := s.latest) (db := db) hrid (h0 rfl)
    simpa [iterOff] using this

/-! ### non-vacuity -/

def exNext (o : Int) : Int := o + 10
def exIds : List Bytes := [[114], [112]]

/-- leftovers of an earlier numbering: slot 7 holds unit 50 ending AT the root 1000 (a full
    resynchronisation whose snapshot was taken right behind the last replayed unit), slot 2 a record of a
    foreign run id ending far beyond -/
def exLeft : Nat → Option Rec := latestOfList
  [(7, { seq := 50, endOff := 1000, mtime := 9, runId := [114], slot := 7 }),
   (2, { seq := 3, endOff := 5000, mtime := 9, runId := [99], slot := 2 })]

def exSN : SyncNSys := syncNRun exNext [114] exIds 16 { root := ([114], 1000, 0), latest := exLeft, cur := 0, off := 1000 }
  [SyncNStep.restart, .commitNext 3 5, .commitNext 9 6, .restart, .commitNext 3 7, .restart]

/-- the three units that start at 1000, 1010, 1020 — each once, in order; they carry the numbers 51, 52, 53
    (the first start took the leftover that ends at the root, and with it its sequence number) -/
example : exSN.applied = [1000, 1010, 1020] := by decide
example : (exSN.cur, exSN.off) = (53, 1030) := by decide
/-- slot 7 still holds the leftover, slot 9 unit 52, slot 3 unit 53: the start takes the largest END OFFSET -/
example : (scanLatest 16 exSN.latest).map (fun r => (r.slot, r.seq, r.endOff))
    = [(2, 3, 5000), (3, 53, 1030), (7, 50, 1000), (9, 52, 1020)] := by decide
example : startLatestN 16 (some exSN.root) exSN.latest exIds = .point 0 [114] 1030 53 := by decide
/-- before the first commit: the leftover is not older than the root, it is taken (same offset) -/
example : startLatestN 16 (some ([114], 1000, 0)) exLeft exIds = .point 0 [114] 1000 50 := by decide

theorem exLeft_le : ∀ t r, exLeft t = some r → matchRun r.runId exIds = true → r.endOff ≤ 1000 := by
  intro t r hr hm
  simp only [exLeft, latestOfList] at hr
  by_cases h7 : t = 7
  · subst h7; simp at hr; subst hr; decide
  · by_cases h2 : t = 2
    · subst h2; simp at hr; subst hr; exact absurd hm (by decide)
    · simp [List.find?, Ne.symm h7, Ne.symm h2] at hr

example : ∃ n : Nat, exSN.applied = unitStarts exNext 1000 n ∧ exSN.off = iterOff exNext 1000 n ∧
    ∃ db' rid' seq, startLatestN 16 (some ([114], 1000, 0)) exSN.latest exIds = .point db' rid' (iterOff exNext 1000 n) seq ∧
      matchRun rid' exIds = true ∧ (0 < n → seq = exSN.cur ∧ rid' = [114]) :=
  sync_mode_exact_slots exNext [114] exIds 16 1000 0 exLeft _ (by intro o; simp only [exNext]; omega) (by decide) exLeft_le

/-- strictly older leftovers: units numbered from 1 -/
def exLeft2 : Nat → Option Rec := latestOfList [(7, { seq := 50, endOff := 900, mtime := 9, runId := [114], slot := 7 })]
def exSN2 : SyncNSys := syncNRun exNext [114] exIds 16 { root := ([114], 1000, 0), latest := exLeft2, cur := 0, off := 1000 }
  [SyncNStep.restart, .commitNext 3 5, .commitNext 7 6, .restart]
example : startLatestN 16 (some ([114], 1000, 0)) exLeft2 exIds = .point 0 [114] 1000 0 := by decide
example : startLatestN 16 (some exSN2.root) exSN2.latest exIds = .point 0 [114] 1020 2 := by decide
example : ∃ n : Nat, exSN2.applied = unitStarts exNext 1000 n ∧
    ∃ db', startLatestN 16 (some ([114], 1000, 0)) exSN2.latest exIds = .point db' [114] (iterOff exNext 1000 n) n :=
  sync_mode_exact_slots_numbered exNext [114] exIds 16 1000 0 exLeft2 _ (by intro o; simp only [exNext]; omega) (by decide)
    (by
      intro t r hr hm
      simp only [exLeft2, latestOfList] at hr
      by_cases h7 : t = 7
      · subst h7; simp at hr; subst hr; decide
      · simp [List.find?, Ne.symm h7] at hr)
    (by
      intro t r hr hm
      simp only [exLeft2, latestOfList] at hr
      by_cases h7 : t = 7
      · subst h7; simp at hr; subst hr; decide
      · simp [List.find?, Ne.symm h7] at hr)
example : SyncNInv exNext [114] exIds 16 1000 { root := ([114], 1000, 0), latest := fun _ => none, cur := 0, off := 1000 } 0 :=
  syncN_init_inv exNext [114] exIds 16 1000 0 _ 0 (by intro t r hr; cases hr)
example : (bestLatest [⟨9, 1020, 1, [114], 0⟩, ⟨2, 1030, 1, [114], 5⟩, ⟨7, 1030, 0, [114], 9⟩] [[114]]).1
    = some ⟨2, 1030, 1, [114], 5⟩ := by decide

end GunYu.Props.C14
