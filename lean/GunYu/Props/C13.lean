/-
  C13 — Bidirectional sync never echoes its own writes nor swallows foreign
  ones.

  Property theorems only (helpers: Proofs/BisyncFilter, BisyncParse,
  BisyncProp, BisyncBlocks, BisyncWorld). Quantifiers:

  * all units (any commands, any key/value bytes), all three ways a unit is
    committed (`latest` = sync, `journal` = pipeline/parallel, `rdb` = snapshot
    phase), any checkpoint name, any marker value and record fields;
  * the site the unit is committed at: ANY store contents and clock, and every
    combination of the version/configuration dependent propagation choices of
    the master (`RedisCfg`: DEL or UNLINK for expired keys; Redis ≥ 7 or older
    MULTI/EXEC propagation; `SET … EX/PX` rewritten to `PXAT` or not);
  * `propagate` (Model/BisyncSite.lean) is the TRUSTED TRANSCRIPTION of what a
    Redis master writes to its replication stream: absolute expiries, no-op
    commands omitted, the deletion of a key found expired propagated ahead of
    the command that touched it;
  * the opposite link's parser in any slot mode with any key resolver; the
    output filter is the default one (`FOK`: the facts used about it, proved
    for `Filter.buildOutput {}` = NoRouteCmds + the two reserved prefixes) —
    the property's quantifier does not range over user filters;
  * `exactly_once_and_quiesce`: all event lists (client commands and
    transactions at either site, clock advances, expiry-cycle visits, link
    steps, snapshot units, bookkeeping writes) in any interleaving.
-/
import GunYu.Model.Bisync
import GunYu.Model.BisyncSite
import GunYu.Proofs.BisyncBlocks
import GunYu.Proofs.BisyncWorld
import GunYu.Proofs.BisyncDrain
import GunYu.Proofs.BisyncGlobal

namespace GunYu.Props.C13
open GunYu GunYu.BisyncUnit GunYu.Bisync

/-- the default output filter satisfies what the theorems assume of it -/
theorem default_filter_ok : FOK (Filter.buildOutput {}) := defaultFilter_ok

/-- **Mirrored transactions are recognised.** Whatever unit a link commits at
    a site and however it commits it, every block the site's master propagates
    for that commit is passed over by the opposite link: no unit, no error,
    parser still idle, sequence counter untouched. This includes the case
    where the previous marker had expired but was not reaped yet, so that
    `DEL`/`UNLINK marker` precedes `SET marker` inside the MULTI/EXEC. -/
theorem mirrored_recognised (pc : PCfg) (hf : FOK pc.filter) (rcfg : RedisCfg) (now : Nat) (st : Store)
    (cp : Bytes) (k : CommitKind) (u : RUnit) (p : Payload) (hu : ∀ c ∈ u.cmds, TxnSafe c)
    (pst : PState) (hi : Idle pst) :
    ∀ b ∈ toBlocks rcfg true (commitCmds cp k u p).length (execCmds rcfg now st (commitCmds cp k u p)).2,
      ∃ pst', parseBlock pc pst b = ([], pst', none) ∧ Idle pst' ∧ pst'.seq = pst.seq :=
  tool_blocks_quiet pc hf rcfg now st _ (markerKey_isMarker cp u.slotTag) _ (commit_toolTxn cp k u p hu) pst hi

/-- units come from the parser, which never hands on MULTI, EXEC or a SELECT:
    the hypothesis of `mirrored_recognised` holds for every emitted unit -/
theorem emitted_units_safe (pc : PCfg) (hf : FOK pc.filter) (b : Block) (hb : ∀ c ∈ b.body, Fgn pc c)
    (hne : b.body ≠ []) (pst pst' : PState) (hi : Idle pst) (e : Emit)
    (h : parseBlock pc pst b = ([e], pst', none)) : ∀ c ∈ e.unit.cmds, TxnSafe c := by
  rcases foreign_block pc hf b hb hne pst hi with ⟨p2, e2, h2, _, _, _, hc, _⟩ | ⟨p2, e2, h2, _⟩
  · rw [h] at h2
    injection h2 with h2 _
    injection h2 with h2 _
    rw [h2, hc]
    intro c hcm
    obtain ⟨c0, hc0, rfl⟩ := List.mem_map.mp hcm
    exact norm_txnSafe c0 (hb c0 hc0).safe
  · rw [h] at h2
    injection h2 with h2 _
    cases h2

-- The first-command-only test the code used before the repair misses the
-- lazy-expiry case; the repaired test recognises it.
private def mk0 : Bytes := Gen.markerKey [99,112] (slotTag 0)
private def expiredStore : Store := [(mk0, ⟨.str, [], some 5⟩)]
private def unit0 : RUnit := ⟨0, slotTag 0, [⟨[105,110,99,114], [[107]]⟩]⟩       -- INCR k
private def txn0 : List Cmd := commitCmds [99,112] .latest unit0 ⟨[123,125], [[102],[118]], 1⟩
example : (execCmds ⟨false, true, true⟩ 10 expiredStore txn0).2.map (·.name) =
    [wDel, wSet, [105,110,99,114], wHset] := by decide +kernel
example : isMirroredTxnFirstOnly (execCmds ⟨false, true, true⟩ 10 expiredStore txn0).2 = false := by decide +kernel
example : isMirroredTxn (execCmds ⟨false, true, true⟩ 10 expiredStore txn0).2 = true := by decide +kernel
example : ∀ c ∈ unit0.cmds, TxnSafe c := by
  intro c hc
  have : c = ⟨[105,110,99,114], [[107]]⟩ := by simpa [unit0] using hc
  rw [this]; exact ⟨by decide, by decide, by decide⟩

/-- **Bookkeeping traffic is skipped.** Every stand-alone request of the tool's
    bookkeeping (frontier save, journal deletion, index ZREM, a marker being
    expired by Redis, checkpoint-hash and root-checkpoint writes, namespace seed
    and cleanup — generated as the code generates them, checkpoint names as
    the tool forms them) met in a stream produces no unit and no error. -/
theorem bookkeeping_skipped (pc : PCfg) (hf : FOK pc.filter) (bk : Bookkeeping) (hv : bk.Valid)
    (pst : PState) (hi : Idle pst) :
    ∃ pst', parseBlock pc pst (.single bk.toCmd) = ([], pst', none) ∧ Idle pst' ∧ pst'.seq = pst.seq :=
  bookkeeping_cmd_quiet pc hf bk hv pst hi

-- a frontier save and a journal deletion under a generated checkpoint name
example : (Bookkeeping.frontierSave (Gen.bisyncCheckpointKeyPrefix ++ [58, 48]) [[118], [49]]).Valid := by
  show Gen.checkpointKey <+: Gen.bisyncCheckpointKeyPrefix ++ [58, 48]
  exact (show Gen.checkpointKey <+: Gen.bisyncCheckpointKeyPrefix from ⟨[45,98,105,115,121,110,99], by decide⟩).trans
    (List.prefix_append _ _)
example : (Bookkeeping.journalDel [99,112] (slotTag 7) 3).Valid := trivial

/-- **Foreign writes are never suppressed.** A block (a stand-alone command or
    a MULTI/EXEC) that the tool did not write — commands the parser forwards
    (`Fgn`: not framing/PING/SELECT/PUBLISH, not on the command blacklist), no
    key under a prefix the output filter withholds, first argument (all
    arguments for DEL/UNLINK) outside the bisync/checkpoint namespace;
    ANY values, including byte-identical copies of marker values or of control
    keys — either comes out as exactly one unit holding exactly its commands,
    or stops the replay with the builder's error. It is never dropped. -/
theorem foreign_never_suppressed (pc : PCfg) (hf : FOK pc.filter) (b : Block)
    (hb : ∀ c ∈ b.body, Fgn pc c) (hne : b.body ≠ []) (pst : PState) (hi : Idle pst) :
    (∃ pst' e, parseBlock pc pst b = ([e], pst', none) ∧ Idle pst' ∧ pst'.seq = pst.seq + 1 ∧
      e.seq = pst.seq ∧ e.unit.cmds = b.body.map norm) ∨
    (∃ pst' e, parseBlock pc pst b = ([], pst', some (.build e)) ∧
      buildUnit pc.mode pc.resolver (b.body.map norm) = .error e) := by
  rcases foreign_block pc hf b hb hne pst hi with ⟨p2, e2, h2, h3, h4, h5, h6, _⟩ | h
  · exact Or.inl ⟨p2, e2, h2, h3, h4, h5, h6⟩
  · exact Or.inr h

/-- … and in standalone mode, when the resolver names keys for every command,
    it always comes out. -/
theorem foreign_emitted_standalone (pc : PCfg) (hf : FOK pc.filter) (hm : pc.mode = standaloneMode) (b : Block)
    (hb : ∀ c ∈ b.body, Fgn pc c) (hne : b.body ≠ []) (hr : ∀ c ∈ b.body, Routable pc.resolver (norm c))
    (pst : PState) (hi : Idle pst) :
    ∃ pst' e, parseBlock pc pst b = ([e], pst', none) ∧ e.unit.cmds = b.body.map norm := by
  rcases foreign_never_suppressed pc hf b hb hne pst hi with ⟨p2, e2, h2, _, _, _, h6⟩ | ⟨p2, e2, _, h3⟩
  · exact ⟨p2, e2, h2, h6⟩
  · exfalso
    rw [hm, buildUnit_standalone pc.resolver (b.body.map norm)
      (by intro h; exact hne (List.map_eq_nil_iff.mp h))
      (by intro c hc
          obtain ⟨c0, hc0, rfl⟩ := List.mem_map.mp hc
          exact hr c0 hc0)] at h3
    cases h3

/-- The statement with the hypothesis on KEYS only (as the property words it).
    It differs from `foreign_never_suppressed` only for commands whose first
    argument is not a key: the code's namespace test looks at the first
    argument of every command (e.g. `PUBLISH redis-gunyu-bisync:x …` would be
    skipped, though it has no key). Kept as the full statement; the proved
    theorem carries the extra first-argument hypothesis inside `Fgn`. -/
def foreign_never_suppressed_stmt : Prop :=
  ∀ (pc : PCfg), FOK pc.filter → ∀ (b : Block),
    (∀ c ∈ b.body, TxnSafe c ∧ lower c.name ≠ wPing ∧ Filter.eqFold (lower c.name) wPublish = false ∧
      pc.filter.filterCmd (lower c.name) = false ∧
      ∀ idx, Filter.keyIndexes (lower c.name) c.args = some idx → ∀ i ∈ idx, ¬ Res (c.args.getD i [])) →
    b.body ≠ [] → ∀ pst, Idle pst →
    (∃ pst' e, parseBlock pc pst b = ([e], pst', none) ∧ e.unit.cmds = b.body.map norm) ∨
    (∃ pst' e, parseBlock pc pst b = ([], pst', some (.build e)))

/-- for commands whose first argument is one of their keys (every data command
    of the regenerated tables except the numkeys / BITOP / XGROUP / EVAL
    families) and for DEL/UNLINK, the keys-only hypothesis is enough -/
theorem fgn_of_keys (pc : PCfg) (c : Cmd) (hs : TxnSafe c) (hp : lower c.name ≠ wPing)
    (hpub : Filter.eqFold (lower c.name) wPublish = false) (hbl : pc.filter.filterCmd (lower c.name) = false)
    (idx : List Nat) (hidx : Filter.keyIndexes (lower c.name) c.args = some idx)
    (hkeys : ∀ i ∈ idx, ¬ Res (c.args.getD i []))
    (hfirst : 0 ∈ idx)
    (hdel : (lower c.name = wDel ∨ lower c.name = wUnlink) → ∀ i, i < c.args.length → i ∈ idx) : Fgn pc c where
  safe := hs
  notPing := hp
  notPublish := hpub
  notBlack := hbl
  keys := by
    intro idx' hidx' i hi hr
    rw [hidx] at hidx'
    injection hidx' with e
    rw [← e] at hi
    exact hkeys i hi (Or.inr hr)
  outside := by
    have hns : ∀ i ∈ idx, isNamespaceKey (c.args.getD i []) = false := by
      intro i hi
      cases hx : isNamespaceKey (c.args.getD i []) with
      | false => rfl
      | true => exact absurd (Or.inl hx) (hkeys i hi)
    unfold touchesNamespace norm
    cases hargs : c.args with
    | nil => simp
    | cons k rest =>
      simp only [List.isEmpty_cons, Bool.false_eq_true, ↓reduceIte, List.headD_cons]
      have h0 := hns 0 hfirst
      rw [hargs] at h0
      split
      · rename_i hd
        have hname : lower c.name = wDel ∨ lower c.name = wUnlink := by
          have e : lower (lower c.name) = lower c.name := Filter.lower_lower _
          rw [e] at hd
          simpa using hd
        rw [List.any_eq_false]
        intro a ha
        obtain ⟨i, hi, rfl⟩ := List.getElem_of_mem ha
        have hi' : i < c.args.length := by rw [hargs]; exact hi
        have := hns i (hdel hname i hi')
        rw [hargs, List.getD_eq_getElem?_getD, List.getElem?_eq_getElem hi] at this
        simpa using this
      · simpa using h0

-- a client SET whose VALUE is a byte-identical copy of a marker key and one
-- whose value is a marker JSON: both are foreign, whatever they carry
private def mkCopy : Bytes := Gen.markerKey [99,112] (slotTag 0)
private def fooSet (v : Bytes) : Cmd := ⟨[83,69,84], [[102,111,111], v]⟩      -- "SET" foo v
example (v : Bytes) : Fgn ⟨Filter.buildOutput {}, standaloneMode, defaultResolver⟩ (fooSet v) := by
  have hn : lower (fooSet v).name = wSet := by show lower [83,69,84] = wSet; decide
  apply fgn_of_keys _ (fooSet v) (txnSafe_of_name _ wSet hn safe_set) (by rw [hn]; decide) (by rw [hn]; decide)
    (by rw [hn]; exact default_filter_ok.setCmd) [0]
  · rw [hn]
    exact keyIndexes_generic wSet [102,111,111] [v] (by decide +kernel) (by decide +kernel)
  · intro i hi
    have : i = 0 := by simpa using hi
    rw [this]
    exact word_not_res _ (by show List.head? [102,111,111] ≠ some 114 ∧ List.head? [102,111,111] ≠ some 47; decide)
  · simp
  · intro h
    rw [hn] at h
    rcases h with h | h <;> exact absurd h (by decide)
example : (parseBlock ⟨Filter.buildOutput {}, standaloneMode, defaultResolver⟩ {} (.single (fooSet mkCopy))).1.length = 1 := by
  decide +kernel

/-- **Exactly once, and the exchange quiesces.** Start from empty sites; run
    ANY list of events (`GoodRun`: client commands satisfy `ClientOK` — a
    forwardable name and no argument under a reserved prefix; expiry visits do
    not concern `/redis-gunyu…` keys; snapshot units consist of safe commands;
    a bookkeeping request carries a generated checkpoint name and propagates
    as itself or not at all). Then at every moment, for each link:

    1. the units it has committed at the other site are, in order, exactly the
       client (or expiry) blocks with a non-empty body among the blocks it has
       consumed — each once, nothing else ever: no block written by the other
       link, no snapshot unit, no bookkeeping comes back (`commitsAt = dueTags`);
    2. it can only have stopped because the builder refused a client block;
    3. once nothing it still has to read is owed a commit (`NoPending`), any
       further sequence of link steps leaves both streams and the commit log
       unchanged: no unit is emitted in the round after the last client write. -/
theorem exactly_once_and_quiesce (cfg : WCfg) (hf : FOK cfg.parser.filter) (cpAB cpBA : Bytes)
    (evs : List Ev) (hgood : GoodRun cfg (World.init cpAB cpBA) evs) :
    let w := runWorld cfg (World.init cpAB cpBA) evs
    (∀ src, commitsAt w src.other = dueTags (w.site src).stream (w.link src).pos) ∧
    (∀ t ∈ w.commits, isForeign t.1 = true) ∧
    (∀ src e, (w.link src).halted = some e → ∃ be, e = .build be) ∧
    (NoPending w → ∀ more, (∀ e ∈ more, e.isLink) →
      (runWorld cfg w more).a.stream = w.a.stream ∧ (runWorld cfg w more).b.stream = w.b.stream ∧
      (runWorld cfg w more).commits = w.commits ∧
      ∀ s, ((runWorld cfg w more).link s).emitted = (w.link s).emitted) := by
  intro w
  have hinv : WInv cfg w := run_preserves cfg hf evs _ (winv_init cfg cpAB cpBA) hgood
  refine ⟨hinv.once, ?_, hinv.halt, ?_⟩
  · intro t ht
    have hsite : t.2 = SiteId.A ∨ t.2 = SiteId.B := by cases t.2 <;> simp
    have hmem : t.1 ∈ commitsAt w t.2 := by
      unfold commitsAt
      exact List.mem_map.mpr ⟨t, List.mem_filter.mpr ⟨ht, by simp⟩, rfl⟩
    have hsrc : t.2 = t.2.other.other := (other_other t.2).symm
    rw [hsrc, hinv.once t.2.other] at hmem
    exact dueTags_foreign _ _ _ hmem
  · intro hnp more hl
    exact quiesce cfg hf more w hinv hnp hl

/-- **What was committed is what was written.** In every reachable world, each
    unit a link has emitted holds exactly the commands (names lower-cased) of a
    block of its source stream, the block it is tagged with. Together with
    `exactly_once_and_quiesce` (which blocks were committed, once each): the
    commands applied at the other site are the client's, not merely the ids. -/
theorem emitted_content (cfg : WCfg) (hf : FOK cfg.parser.filter) (cpAB cpBA : Bytes)
    (evs : List Ev) (hgood : GoodRun cfg (World.init cpAB cpBA) evs) :
    let w := runWorld cfg (World.init cpAB cpBA) evs
    ∀ s, ∀ p ∈ (w.link s).emitted, ∃ tb ∈ (w.site s).stream, tb.tag = p.1 ∧ p.2.unit.cmds = tb.block.body.map norm :=
  content_run cfg hf evs _ (winv_init cfg cpAB cpBA) (content_init cpAB cpBA) hgood

/-- **The drain is bounded.** From any reachable world, over ANY sequence of
    link steps, pending client blocks plus commits is constant: every commit
    consumes exactly one pending client block and committing never creates a
    new pending block (what a link writes is not owed a commit). -/
theorem drain_bound (cfg : WCfg) (hf : FOK cfg.parser.filter) (cpAB cpBA : Bytes)
    (evs : List Ev) (hgood : GoodRun cfg (World.init cpAB cpBA) evs) (more : List Ev) (hl : ∀ e ∈ more, e.isLink) :
    let w := runWorld cfg (World.init cpAB cpBA) evs
    pendingDue (runWorld cfg w more) + (runWorld cfg w more).commits.length = pendingDue w + w.commits.length :=
  drain_count cfg hf more _ (run_preserves cfg hf evs _ (winv_init cfg cpAB cpBA) hgood) hl

/-- **The exchange quiesces.** From any reachable world there IS a finite
    sequence of link steps after which each link has stopped (only ever on the
    builder refusing a client block) or has no pending client block left; and
    from such a world on, any further link steps change neither stream, nor the
    commit log, nor the emitted units. -/
theorem drain_reaches (cfg : WCfg) (hf : FOK cfg.parser.filter) (cpAB cpBA : Bytes)
    (evs : List Ev) (hgood : GoodRun cfg (World.init cpAB cpBA) evs) :
    let w := runWorld cfg (World.init cpAB cpBA) evs
    ∃ more, (∀ e ∈ more, e.isLink) ∧ (∀ s, Settled (runWorld cfg w more) s) ∧
      ∀ further, (∀ e ∈ further, e.isLink) →
        (runWorld cfg (runWorld cfg w more) further).a.stream = (runWorld cfg w more).a.stream ∧
        (runWorld cfg (runWorld cfg w more) further).b.stream = (runWorld cfg w more).b.stream ∧
        (runWorld cfg (runWorld cfg w more) further).commits = (runWorld cfg w more).commits := by
  intro w
  have hinv : WInv cfg w := run_preserves cfg hf evs _ (winv_init cfg cpAB cpBA) hgood
  obtain ⟨more, h1, h2, h3⟩ := Bisync.drain_reaches cfg hf w hinv
  refine ⟨more, h1, h3, ?_⟩
  intro further hfu
  obtain ⟨a, b, c, _⟩ := quiesce_settled cfg hf further _ h2 h3 hfu
  exact ⟨a, b, c⟩

-- non-vacuity: a concrete history satisfying `GoodRun` in which a write at A
-- is applied at B, comes back in B's stream behind an expired marker, and is
-- not applied at A again
private def wcfg : WCfg :=
  { redisA := ⟨false, true, true⟩, redisB := ⟨false, true, true⟩,
    parser := ⟨Filter.buildOutput {}, standaloneMode, defaultResolver⟩ }
private def incrN : Cmd := ⟨[105,110,99,114,98,121], [[110,48], [53]]⟩     -- incrby n0 5
private def arg0 : CommitArg := ⟨.latest, [123,125], [[102],[118]]⟩
private def hist : List Ev :=
  [.client .A false [incrN], .link .A arg0, .tick .B 86400001, .client .A false [incrN], .link .A arg0,
   .link .B arg0, .link .B arg0, .link .A arg0]
private theorem incrN_ok : ClientOK wcfg.parser incrN where
  safe := ⟨by decide, by decide, by decide⟩
  notPing := by decide
  notPublish := by decide
  notBlack := by decide +kernel
  args := by
    intro a ha
    have : a = [110,48] ∨ a = [53] := by simpa [incrN] using ha
    rcases this with rfl | rfl <;> exact word_not_res _ (by decide)
example : GoodRun wcfg (World.init [99,112,49] [99,112,50]) hist :=
  ⟨fun c hc => by rw [List.mem_singleton.mp hc]; exact incrN_ok, trivial, trivial,
   fun c hc => by rw [List.mem_singleton.mp hc]; exact incrN_ok, trivial, trivial, trivial, trivial, trivial⟩
example : (runWorld wcfg (World.init [99,112,49] [99,112,50]) hist).commits.map (·.1) =
    [.foreign 0, .foreign 1] := by decide +kernel
example : ((runWorld wcfg (World.init [99,112,49] [99,112,50]) hist).b.stream.map (·.block.body.length)) =
    [3, 4] := by decide +kernel

/-! ### the global theorems: arbitrary interleavings, restarts included, nothing assumed about states -/

/-- **`BookClean` is derived, not assumed.** Start from two sites holding any
    data in which no key of the reserved namespace other than a marker key
    carries an expiry (`NsTtl`; empty sites in particular); run events that
    satisfy `EvOK'` (a condition on each event alone), restarts of any kind
    included. Then the only namespace keys with an expiry are still marker
    keys; hence every bookkeeping request the tool issues meets no lazily
    expiring key and propagates as itself or not at all — the hypothesis
    `exactly_once_and_quiesce` made per event. -/
theorem bookclean_derived (cfg : WCfg) (hf : FOK cfg.parser.filter) (cpAB cpBA : Bytes) (sa sb : Store) (na nb : Nat)
    (hab : Slot.lbrace ∉ cpAB) (hba : Slot.lbrace ∉ cpBA) (ha : NsTtl sa) (hb : NsTtl sb)
    (evs : List Ev) (hgood : GoodEvents cfg evs)
    (src : SiteId) (bk : Bookkeeping) (hv : bk.Valid) (hi : bk.Issued) :
    BookClean cfg (runWorld cfg (World.initWith cpAB cpBA sa sb na nb) evs) src bk :=
  bookClean_of_nsTtl cfg _ src bk hv hi
    ((lrun cfg hf evs _ (linv_initWith cfg cpAB cpBA sa sb na nb hab hba ha hb) hgood).ttl src.other)

/-- **No loop — always.** Two sites holding any data (`NsTtl`), two links with
    checkpoint names as the tool generates them (brace-free). Run ANY list of
    events, each satisfying `EvOK'` (a condition on the event alone): client
    commands and MULTI/EXEC transactions at either site on any keys outside the
    reserved prefixes (the same keys at both sites included), clock advances,
    expiry visits (marker keys included), link steps in either direction,
    snapshot units, every bookkeeping request the tool issues, and restarts /
    reconnects of either syncer that resume at ANY block already reached — behind
    the last committed unit (sync mode) or BEFORE it (pipeline / parallel mode
    resuming at the contiguous frontier: committed units are read and committed
    again). Then, at every moment:

    1. every commit ever made — repeats after a restart included — was built
       from a client (or expiry) block: nothing a link, a snapshot unit or the
       bookkeeping wrote at a site is ever sent back;
    2. every block the tool wrote at a site is passed over by the opposite link
       whenever and however often it reads it (no unit, no error, parser idle);
    3. no false suppression: every client block with a non-empty effect a link
       has consumed has been committed at the other site AT LEAST once, and each
       emitted unit holds exactly the commands of its block;
    4. a link stops only because the unit builder refused a client block.

    What does NOT hold here is "at most once": see `exactly_once_any_restart_stmt`. -/
theorem no_loop_always (cfg : WCfg) (hf : FOK cfg.parser.filter) (cpAB cpBA : Bytes) (sa sb : Store) (na nb : Nat)
    (hab : Slot.lbrace ∉ cpAB) (hba : Slot.lbrace ∉ cpBA) (ha : NsTtl sa) (hb : NsTtl sb)
    (evs : List Ev) (hgood : GoodEvents cfg evs) :
    let w := runWorld cfg (World.initWith cpAB cpBA sa sb na nb) evs
    (∀ t ∈ w.commits, isForeign t.1 = true) ∧
    (∀ s, ∀ tb ∈ (w.site s).stream, isForeign tb.tag = false → QuietB cfg.parser tb.block) ∧
    ((∀ s, ∀ t ∈ dueTags (w.site s).stream (w.link s).pos, t ∈ commitsAt w s.other) ∧
      ∀ s, ∀ p ∈ (w.link s).emitted, ∃ tb ∈ (w.site s).stream, tb.tag = p.1 ∧ p.2.unit.cmds = tb.block.body.map norm) ∧
    (∀ src e, (w.link src).halted = some e → ∃ be, e = .build be) := by
  intro w
  have hl : LInv cfg w := lrun cfg hf evs _ (linv_initWith cfg cpAB cpBA sa sb na nb hab hba ha hb) hgood
  refine ⟨hl.foreign, ?_, ⟨hl.sup, hl.content⟩, ?_⟩
  · intro s tb htb hnf
    have := hl.winv.blocks s tb (by rw [site_norm]; exact htb)
    unfold BlockOK at this
    rw [hnf] at this
    simpa using this
  · intro src e he
    exact hl.winv.halt src e (by rw [link_norm]; exact he)

/-- **Exactly once and quiescence — when every restart is exact.** As
    `no_loop_always`, and in addition every restart of the run resumes at or
    behind the last unit its link committed (`ExactRestarts`: what the commit
    records of SYNC mode give, C14 `sync_mode_exact`; the property text itself
    says "absent restarts"). Then moreover:

    2'. for each link, the units it has committed at the other site are, in
        order, EXACTLY the client blocks with a non-empty effect among the blocks
        it has consumed, each once: re-reading after such a restart commits
        nothing twice;
    4'. once no block still to be read is owed a commit, any further link steps
        and exact restarts change neither stream, nor the commit log, nor the units.

    The one exception of the property text is not in this model: databases
    (`D31_counterexample` below). -/
theorem no_loop_no_false_suppression (cfg : WCfg) (hf : FOK cfg.parser.filter) (cpAB cpBA : Bytes)
    (sa sb : Store) (na nb : Nat)
    (hab : Slot.lbrace ∉ cpAB) (hba : Slot.lbrace ∉ cpBA) (ha : NsTtl sa) (hb : NsTtl sb)
    (evs : List Ev) (hgood : GoodEvents cfg evs)
    (hexact : ExactRestarts cfg (World.initWith cpAB cpBA sa sb na nb) evs) :
    let w := runWorld cfg (World.initWith cpAB cpBA sa sb na nb) evs
    (∀ t ∈ w.commits, isForeign t.1 = true) ∧
    ((∀ src, commitsAt w src.other = dueTags (w.site src).stream (w.link src).pos) ∧
      ∀ s, ∀ p ∈ (w.link s).emitted, ∃ tb ∈ (w.site s).stream, tb.tag = p.1 ∧ p.2.unit.cmds = tb.block.body.map norm) ∧
    (∀ src e, (w.link src).halted = some e → ∃ be, e = .build be) ∧
    (NoPending w → ∀ more, (∀ e ∈ more, e.isLinkOrRestart) → ExactRestarts cfg w more →
      (runWorld cfg w more).a.stream = w.a.stream ∧ (runWorld cfg w more).b.stream = w.b.stream ∧
      (runWorld cfg w more).commits = w.commits ∧
      ∀ s, ((runWorld cfg w more).link s).emitted = (w.link s).emitted) := by
  intro w
  have hg0 := ginv_initWith cfg cpAB cpBA sa sb na nb hab hba ha hb
  have hg : GInv cfg w := grun cfg hf evs _ hg0 hgood hexact
  refine ⟨?_, ⟨hg.winv.once, ?_⟩, hg.winv.halt, ?_⟩
  · intro t ht
    have hmem : t.1 ∈ commitsAt w t.2 := by
      unfold commitsAt
      exact List.mem_map.mpr ⟨t, List.mem_filter.mpr ⟨ht, by simp⟩, rfl⟩
    have hsrc : t.2 = t.2.other.other := (other_other t.2).symm
    rw [hsrc, hg.winv.once t.2.other] at hmem
    exact dueTags_foreign _ _ _ hmem
  · exact content_grun cfg hf evs _ hg0 (content_initWith cpAB cpBA sa sb na nb) hgood hexact
  · intro hnp more hl hex
    exact gquiesce cfg hf more w hg hnp hl hex

/-- … and the exchange still drains: from any such world there is a finite
    sequence of link steps after which both links are settled (existence). -/
theorem drain_reaches_global (cfg : WCfg) (hf : FOK cfg.parser.filter) (cpAB cpBA : Bytes) (sa sb : Store) (na nb : Nat)
    (hab : Slot.lbrace ∉ cpAB) (hba : Slot.lbrace ∉ cpBA) (ha : NsTtl sa) (hb : NsTtl sb)
    (evs : List Ev) (hgood : GoodEvents cfg evs)
    (hexact : ExactRestarts cfg (World.initWith cpAB cpBA sa sb na nb) evs) :
    let w := runWorld cfg (World.initWith cpAB cpBA sa sb na nb) evs
    ∃ more, (∀ e ∈ more, e.isLink) ∧ (∀ s, Settled (runWorld cfg w more) s) := by
  intro w
  have hg : GInv cfg w := grun cfg hf evs _ (ginv_initWith cfg cpAB cpBA sa sb na nb hab hba ha hb) hgood hexact
  obtain ⟨more, h1, _, h3⟩ := Bisync.drain_reaches cfg hf w hg.winv
  exact ⟨more, h1, h3⟩

/-- the statement WITHOUT the condition on restarts: exactly once for any
    restart. It is false, and allowed to be (the property says "absent
    restarts"; pipeline / parallel mode resume at the contiguous frontier). -/
def exactly_once_any_restart_stmt : Prop :=
  ∀ (cfg : WCfg), FOK cfg.parser.filter → ∀ (cpAB cpBA : Bytes), Slot.lbrace ∉ cpAB → Slot.lbrace ∉ cpBA →
    ∀ (evs : List Ev), GoodEvents cfg evs →
      ∀ src, commitsAt (runWorld cfg (World.init cpAB cpBA) evs) src.other =
        dueTags ((runWorld cfg (World.init cpAB cpBA) evs).site src).stream ((runWorld cfg (World.init cpAB cpBA) evs).link src).pos

-- non-vacuity: both directions active, the same key written at both sites,
-- the A→B syncer restarted and re-reading a block it had already passed
private def hist2 : List Ev :=
  [.client .A false [incrN], .link .A arg0, .client .B false [incrN], .link .B arg0, .link .B arg0,
   .link .A arg0, .restart .A 1 2, .link .A arg0, .link .A arg0, .tick .B 86400001,
   .client .A true [incrN, incrN], .link .A arg0, .link .B arg0, .book .A (.frontierSave cpA [[118], [49]])]
where cpA : Bytes := Gen.bisyncCheckpointKeyPrefix ++ [58, 49]
private theorem cpA_valid : Gen.checkpointKey <+: Gen.bisyncCheckpointKeyPrefix ++ [58, 49] :=
  (show Gen.checkpointKey <+: Gen.bisyncCheckpointKeyPrefix from ⟨[45,98,105,115,121,110,99], by decide⟩).trans
    (List.prefix_append _ _)
private theorem incr_ok : ∀ c ∈ [incrN], ClientOK wcfg.parser c := fun c hc => by rw [List.mem_singleton.mp hc]; exact incrN_ok
private theorem hist2_good : GoodEvents wcfg hist2 := by
  have hcc : ∀ c ∈ [incrN, incrN], ClientOK wcfg.parser c := by
    intro c hc
    have : c = incrN := by simpa using hc
    rw [this]; exact incrN_ok
  unfold hist2
  refine goodEvents_cons _ _ _ incr_ok <| goodEvents_cons _ _ _ trivial <| goodEvents_cons _ _ _ incr_ok <|
    goodEvents_cons _ _ _ trivial <| goodEvents_cons _ _ _ trivial <| goodEvents_cons _ _ _ trivial <|
    goodEvents_cons _ _ _ trivial <| goodEvents_cons _ _ _ trivial <| goodEvents_cons _ _ _ trivial <|
    goodEvents_cons _ _ _ trivial <| goodEvents_cons _ _ _ hcc <| goodEvents_cons _ _ _ trivial <|
    goodEvents_cons _ _ _ trivial <| goodEvents_cons _ _ _ ⟨cpA_valid, trivial⟩ <| goodEvents_nil _
private theorem hist2_exact : ExactRestarts wcfg (World.initWith [99,112,49] [99,112,50] [] [] 0 0) hist2 := by decide +kernel
-- the restart really rewinds the A→B link (it had read two blocks, resumes at 1) …
example : ((runWorld wcfg (World.init [99,112,49] [99,112,50]) (hist2.take 6)).ab.pos,
    (runWorld wcfg (World.init [99,112,49] [99,112,50]) (hist2.take 7)).ab.pos) = (2, 1) := by decide +kernel
-- … and the history ends with each client block committed once at the other site, in order,
-- the block B's link wrote at A read twice by the restarted link and never sent back
example : (runWorld wcfg (World.init [99,112,49] [99,112,50]) hist2).commits =
    [(.foreign 0, .B), (.foreign 1, .A), (.foreign 2, .B)] := by decide +kernel
-- the theorem applied to that history
example : ∀ t ∈ (runWorld wcfg (World.initWith [99,112,49] [99,112,50] [] [] 0 0) hist2).commits, isForeign t.1 = true :=
  (no_loop_no_false_suppression wcfg default_filter_ok [99,112,49] [99,112,50] [] [] 0 0 (by decide) (by decide)
    nsTtl_nil nsTtl_nil hist2 hist2_good hist2_exact).1

-- a restart that resumes BEFORE the last committed unit (pipeline / parallel mode): the unit is committed again —
-- INCRBY n0 5 twice at the peer. `no_loop_always` covers this history; "exactly once" does not hold for it.
private def histRewind : List Ev := [.client .A false [incrN], .link .A arg0, .restart .A 0 1, .link .A arg0]
private theorem histRewind_good : GoodEvents wcfg histRewind := by
  unfold histRewind
  exact goodEvents_cons _ _ _ incr_ok <| goodEvents_cons _ _ _ trivial <| goodEvents_cons _ _ _ trivial <|
    goodEvents_cons _ _ _ trivial <| goodEvents_nil _
example : (runWorld wcfg (World.init [99,112,49] [99,112,50]) histRewind).commits =
    [(.foreign 0, .B), (.foreign 0, .B)] := by decide +kernel
example : ¬ ExactRestarts wcfg (World.init [99,112,49] [99,112,50]) histRewind := by decide +kernel
/-- "exactly once whatever the restart" is refuted by that history -/
theorem exactly_once_needs_exact_restarts : ¬ exactly_once_any_restart_stmt := by
  intro h
  have := h wcfg default_filter_ok [99,112,49] [99,112,50] (by decide) (by decide) histRewind histRewind_good .A
  revert this
  decide +kernel

/-! ### the exception: databases (known finding D31) -/

/-- the database a position of the source stream is written in: the argument
    of the last `SELECT` before it (a fresh replication stream starts in 0) -/
def dbBefore : List Item → Nat → Nat → Nat
  | [], _, cur => cur
  | it :: rest, off, cur =>
    if it.endOff > off then cur
    else if lower it.cmd.name == wSelect then dbBefore rest off ((decToNat? (it.cmd.args.headD [])).getD cur)
    else dbBefore rest off cur

/-- the database a commit transaction executes in at the target: the target
    connection's (0; the tool opens it and never selects) unless the
    transaction itself carries a `SELECT` -/
def commitDb (txn : List Cmd) : Nat :=
  match txn.find? (fun c => lower c.name == wSelect) with
  | some c => (decToNat? (c.args.headD [])).getD 0
  | none => 0

/-- what the property text asks for, with databases: every unit is committed in
    the database its commands were written in -/
def applied_in_source_db_stmt : Prop :=
  ∀ (pc : PCfg), FOK pc.filter → ∀ (its : List Item) (cp : Bytes) (k : CommitKind) (p : Payload),
    ∀ e ∈ (parse pc {} its []).1, commitDb (commitCmds cp k e.unit p) = dbBefore its e.startOff 0

private def selectSet : List Item :=
  items 0 [⟨wSelect, [[51]]⟩, ⟨wSet, [[107,48], [118]]⟩]           -- SELECT 3 ; SET k0 v

/-- **Known finding D31, as a counter-witness.** The statement with databases
    is FALSE for the tool as it is: the stream `SELECT 3; SET k0 v` yields one
    unit (the parser consumes the SELECT and the unit carries no database), and
    no commit transaction of that unit — whatever its kind — selects a
    database, so it executes in database 0 while the write was made in 3. -/
theorem D31_counterexample : ¬ applied_in_source_db_stmt := by
  intro h
  have hmem : (parse ⟨Filter.buildOutput {}, standaloneMode, defaultResolver⟩ {} selectSet []).1 ≠ [] := by
    decide +kernel
  cases hp : (parse ⟨Filter.buildOutput {}, standaloneMode, defaultResolver⟩ {} selectSet []).1 with
  | nil => exact hmem hp
  | cons e es =>
    have := h ⟨Filter.buildOutput {}, standaloneMode, defaultResolver⟩ default_filter_ok selectSet [99,112] .latest
      ⟨[123,125], [[102],[118]], 1⟩ e (by rw [hp]; simp)
    have hd : ∀ e' ∈ (parse ⟨Filter.buildOutput {}, standaloneMode, defaultResolver⟩ {} selectSet []).1,
        commitDb (commitCmds [99,112] .latest e'.unit ⟨[123,125], [[102],[118]], 1⟩) = 0 ∧
        dbBefore selectSet e'.startOff 0 = 3 := by decide +kernel
    obtain ⟨h0, h3⟩ := hd e (by rw [hp]; simp)
    rw [h0, h3] at this
    cases this

end GunYu.Props.C13
