/-
  C15 (etcd election) — the key space need not start empty.

  Props/C15Etcd.lean states its theorems from `Sys.init` (empty key space). The
  invariant they rest on asks of the store only that it is well formed
  (`Wf`: create revisions positive, ≤ the store revision and pairwise
  different; keys pairwise different, not empty, not "\x00" — what an etcd
  server guarantees of ANY key space) — so the same theorems hold from every
  well-formed key space: foreign junk under an election prefix, election
  keys of earlier incarnations whose lease is still alive or that carry no
  lease at all, any lease table, any revision and clock.
-/
import GunYu.Props.C15Etcd

namespace GunYu.Props.C15
open GunYu GunYu.Etcd

/-- any key space, lease table, revision and clock; fresh election objects, nobody told anything -/
def etcdInitWith (kvs : List KV) (rev : Nat) (leases : Nat → Option LeaseRec) (now : Nat) : Etcd.Sys :=
  { st := { kvs := kvs, rev := rev, leases := leases, now := now },
    el := fun _ _ => El.init, told := fun _ _ => false }

theorem etcd_inv_initWith (kvs : List KV) (rev : Nat) (leases : Nat → Option LeaseRec) (now : Nat)
    (h : Wf kvs rev) : Etcd.Inv (etcdInitWith kvs rev leases now) := by
  refine ⟨h, fun L p => Or.inl rfl, fun L p r hr => ?_, fun p L ht => ?_⟩
  · simp [etcdInitWith, El.init] at hr; omega
  · simp [etcdInitWith] at ht

/-- at most one holder per prefix, from EVERY well-formed key space (junk included) -/
theorem etcd_at_most_one_holder_any_keyspace (idOf : Nat → Bytes) (kvs : List KV) (rev : Nat)
    (leases : Nat → Option LeaseRec) (now : Nat) (hwf : Wf kvs rev) (evs : List Etcd.Ev) (p : Bytes)
    (L1 L2 : Nat)
    (h1 : Etcd.holder (Etcd.run idOf (etcdInitWith kvs rev leases now) evs) p L1)
    (h2 : Etcd.holder (Etcd.run idOf (etcdInitWith kvs rev leases now) evs) p L2) : L1 = L2 :=
  Etcd.holder_unique_of_inv (Etcd.inv_run idOf evs (etcd_inv_initWith kvs rev leases now hwf)) h1 h2

-- non-vacuity: a foreign key `k/zzz` (create revision 4, no lease) under the election prefix `k/`
section junkExamples
def junkKV : KV := { key := [107, 47, 122, 122, 122], val := [120], create := 4, lease := 0 }
def jRun (evs : List Etcd.Ev) : Etcd.Sys := Etcd.run eId (etcdInitWith [junkKV] 10 (fun _ => none) 5) evs
example : Wf [junkKV] 10 :=
  ⟨by simp [junkKV], by simp, by simp, by simp [junkKV, nulKey]⟩
-- it is the first-created key under the prefix for ever: every campaign loses, nobody holds (a liveness
-- loss of the deployment, not a second leader) …
example : (Etcd.step eId (jRun [.grant 1 3]) (.campaign eP 1 0)).2 = .role .follower .ok := by decide
example : Etcd.isHolder (jRun [.grant 1 3, .campaign eP 1 0, .grant 2 3, .campaign eP 2 0]) eP 1 = false ∧
    Etcd.isHolder (jRun [.grant 1 3, .campaign eP 1 0, .grant 2 3, .campaign eP 2 0]) eP 2 = false := by decide
-- … and `Leader` names the junk value
example : (Etcd.step eId (jRun [.grant 1 3]) (.leader eP)).2 = .leader [120] .ok := by decide
end junkExamples

end GunYu.Props.C15
