/-
  C12 — fragmentation: "read through buffers of any size and any fragmentation of
  the underlying reads" as THEOREMS.

  Model/RespFrag.lean writes decoder.go over a model of `bufio.Reader` (fill,
  ReadByte, UnreadByte, ReadBytes('\n') incl. its ErrBufferFull rounds, io.ReadFull
  over Reader.Read incl. the large-read bypass) in front of an underlying reader
  that returns the stream in ARBITRARY pieces. The theorems quantify over every
  buffer size and every list of pieces (also empty pieces, a piece boundary inside
  a CRLF, inside a length line, one byte per read, empty pieces = reads returning
  `0, nil`, …) and both kinds of reader (io.EOF by a call of its own, or together
  with the last bytes and then pending in `b.err`). That the bufio model is the
  standard library's bufio is tied by correspondence (`fr` ops: the same commands
  AND the same sequence of request sizes on the underlying reader).

  Also here: the decoder's counter in WRAPPING 64-bit arithmetic, unconditionally
  (review r2: the earlier int64 statements all carried a no-overflow hypothesis).
-/
import GunYu.Model.RespFrag
import GunYu.Proofs.RespFrag
import GunYu.Props.C12

namespace GunYu.Props.C12
open GunYu GunYu.Resp

/-- **Any buffer size, any fragmentation.** The parser loop reading through a
    `bufio.Reader` of any size over a reader that returns the stream in any
    pieces reports exactly what the parser loop over the plain byte sequence
    reports: same commands, same argument bytes, same offsets, same final error.
    No hypothesis on the stream (well-formed or not), on the pieces (empty pieces are reads that
    return `0, nil`) or on the kind of reader (`eofLast`: io.EOF is returned TOGETHER with the last
    bytes and kept pending in `b.err`, instead of by a call of its own). -/
theorem decodeAll_any_fragmentation (start pre size : Nat) (chunks : List Bytes) (eofLast : Bool) :
    decodeAllC start pre size chunks eofLast = decodeAllFrom start pre chunks.flatten :=
  decodeAllC_eq start pre size chunks eofLast

/-- two readers delivering the same bytes — whatever their buffer sizes and
    however differently they cut the stream — give the same result -/
theorem decodeAll_fragmentation_independent (start pre s1 s2 : Nat) (c1 c2 : List Bytes) (e1 e2 : Bool)
    (h : c1.flatten = c2.flatten) :
    decodeAllC start pre s1 c1 e1 = decodeAllC start pre s2 c2 e2 := by
  rw [decodeAllC_eq, decodeAllC_eq, h]

/-- **Lossless with exact offsets, through any buffer and any fragmentation**:
    for every sequence of well-formed commands, every start offset, every preset
    of the counter, every buffer size and every way of cutting the encoded
    stream into pieces, the parser loop reports every command with exactly its
    arguments and the offset of its end, then io.EOF -/
theorem decodeAll_offsets_fragmented (start pre size : Nat) (s : List (List Bytes)) (chunks : List Bytes)
    (eofLast : Bool) (hwf : ∀ c ∈ s, WF c) (hc : chunks.flatten = s.flatMap encodeCmd) :
    decodeAllC start pre size chunks eofLast = ((s.map cmdOf).zip (boundaries (start + pre) s), .eof) := by
  rw [decodeAllC_eq, hc]
  exact decodeAllFrom_stream start pre s hwf

/-- a stream cut inside its last command, delivered in any pieces: exactly the
    complete commands, then an end-of-input error -/
theorem decodeAll_truncated_fragmented (start size : Nat) (s : List (List Bytes)) (c : List Bytes) (k : Nat)
    (chunks : List Bytes) (eofLast : Bool) (hs : ∀ c ∈ s, WF c) (hcw : WF c) (hk : k < (encodeCmd c).length)
    (hc : chunks.flatten = s.flatMap encodeCmd ++ (encodeCmd c).take k) :
    decodeAllC start 0 size chunks eofLast = ((s.map cmdOf).zip (boundaries start s), .eof) ∨
    decodeAllC start 0 size chunks eofLast = ((s.map cmdOf).zip (boundaries start s), .ueof) := by
  rw [decodeAllC_eq, hc]
  exact decodeAllFrom_trunc start 0 s c k hs hcw hk

/-- **Encode for the target, decode again — through any buffer and any fragmentation** (a TCP
    connection delivers what `WriteArgs` + Flush sent in arbitrary segments): the same command and
    arguments, offset = bytes written, then io.EOF -/
theorem writeArgs_roundtrip_fragmented (size : Nat) (as : List Arg) (chunks : List Bytes) (eofLast : Bool)
    (h : WF (as.map Arg.payload)) (hc : chunks.flatten = writeArgs as) :
    decodeAllC 0 0 size chunks eofLast = ([(cmdOf (as.map Arg.payload), (writeArgs as).length)], .eof) := by
  have h1 : chunks.flatten = [as.map Arg.payload].flatMap encodeCmd := by
    rw [hc, writeArgs_eq_encodeCmd]; simp
  have h2 := decodeAll_offsets_fragmented 0 0 size [as.map Arg.payload] chunks eofLast
    (by intro c hcm; simp at hcm; subst hcm; exact h) h1
  rw [h2, writeArgs_eq_encodeCmd]
  simp [boundaries]

/-- one decoded value through the reader model: same value, same counter, and the
    reader is left holding exactly the unread rest (nothing over-read is lost:
    what bufio has buffered beyond the command is still delivered) -/
theorem decodeResp_fragmented (fuel depth size : Nat) (chunks : List Bytes) (eofLast : Bool) (off : Nat) :
    match decodeRespC fuel depth (Rd.new size chunks eofLast) off, decodeResp fuel depth chunks.flatten off with
    | .error e, .error e' => e = e'
    | .ok (v, o, r), .ok (v', o', rest) => v = v' ∧ o = o' ∧ r.flat = rest
    | _, _ => False := by
  have h := decodeRespC_sim fuel depth (Rd.new size chunks eofLast) off (Rd.new_inv size chunks eofLast)
  rw [Rd.new_flat] at h
  rcases h.inv with ⟨e, hx, hy⟩ | ⟨v, o, r, hx, hy, _⟩
  · rw [hx, hy]
  · rw [hx, hy]; exact ⟨rfl, rfl, rfl⟩

/-! ## the counter in wrapping int64, no hypothesis -/

theorem int64_ofNat_add (a b : Nat) : Int64.ofNat (a + b) = Int64.ofNat a + Int64.ofNat b := by
  apply Int64.toBitVec_inj.mp
  simp [Int64.toBitVec_add]

/-- Go's `d.offset++` / `d.offset += int64(len(b))` in wrapping int64, from any preset and for any
    sequence of increments, is the model's natural-number counter reduced to 64 bits — ALWAYS
    (no overflow hypothesis; `counter_int64_exact` is the corollary below 2^63) -/
theorem counter_int64_wraps (pre : Nat) (ks : List Nat) :
    count64 (Int64.ofNat pre) ks = Int64.ofNat (pre + ks.sum) := by
  unfold count64
  induction ks generalizing pre with
  | nil => simp
  | cons k ks ih =>
    simp only [List.foldl_cons, List.sum_cons]
    rw [← int64_ofNat_add, ih (pre + k), Nat.add_assoc]

/-- the parser's `startOffset + incrOffset` in wrapping int64 is the model's sum reduced to 64 bits -/
theorem parser_sum_int64_wraps (start incr : Nat) :
    Int64.ofNat start + Int64.ofNat incr = Int64.ofNat (start + incr) :=
  (int64_ofNat_add start incr).symm

/-! ## Non-vacuity -/

-- SET k "\r\n$" then PING, 43 bytes
private def demo : Bytes := encodeCmd [[83,69,84],[107],[13,10,36]] ++ encodeCmd [[80,73,78,71]]

-- cut between the '\r' and the '\n' that end the binary argument (index 27), buffer 16
example : decodeAllC 5 0 16 [demo.take 27, demo.drop 27] =
    ([(⟨[115,101,116], [[107],[13,10,36]]⟩, 34), (⟨[112,105,110,103], []⟩, 48)], .eof) := by decide +kernel
-- one byte per read
example : decodeAllC 5 0 16 (demo.map (fun b => [b])) =
    ([(⟨[115,101,116], [[107],[13,10,36]]⟩, 34), (⟨[112,105,110,103], []⟩, 48)], .eof) := by decide +kernel
-- the request sizes bufio makes on the underlying reader for [7 bytes | rest]: fill 16, fill 14 (2 still
-- buffered while the length line is searched), …
example : (decodeAllCReqs 5 0 16 [demo.take 7, demo.drop 7]).2.2 = [16, 14, 16, 16] := by decide +kernel
-- a line longer than the buffer (ErrBufferFull rounds of ReadBytes) on the inline path
example : (decodeAllC 0 0 16 [[80,73,78,71,32,32,32,32,32,32,32,32,32,32,32,32,32,32,32,65,13],[10]]).1.map (·.1.args) =
    [[[65]]] := by decide +kernel
-- cut inside the bulk payload (an empty read in between): ErrUnexpectedEOF, through the reader as on the plain bytes
example : decodeAllC 0 0 16 [demo.take 20, [], (demo.drop 20).take 6] = ([], .ueof) := by decide +kernel
-- WriteArgs of (string "SET", []byte "k", int64 -5), delivered as 5 + 1 + rest bytes
example : decodeAllC 0 0 16 [(writeArgs [.str [83,69,84], .bytes [107], .int (-5)]).take 5,
      ((writeArgs [.str [83,69,84], .bytes [107], .int (-5)]).drop 5).take 1,
      (writeArgs [.str [83,69,84], .bytes [107], .int (-5)]).drop 6] =
    ([(⟨[115,101,116], [[107],[45,53]]⟩, 28)], .eof) := by decide +kernel
-- a reader that stalls (empty pieces = `0, nil` reads) and reports io.EOF together with the last bytes
example : decodeAllC 5 0 16 [[], demo.take 27, [], [], demo.drop 27, []] true =
    ([(⟨[115,101,116], [[107],[13,10,36]]⟩, 34), (⟨[112,105,110,103], []⟩, 48)], .eof) := by decide +kernel
-- … and the error stays pending in the reader model after the last fill: one read of 16 bytes, EOF noted with it
example : ((Rd.new 16 [[42, 49, 13, 10]] true).fill.map (fun r => (r.buf, r.err))) = some ([42, 49, 13, 10], true) := by
  decide +kernel
-- wrap-around: 2^63 - 1 plus 1 is -2^63 in Go and in the theorem
example : count64 (Int64.ofNat (2^63 - 1)) [1] = Int64.ofNat (2^63) := counter_int64_wraps _ _
example : (Int64.ofNat (2^63)).toInt = -(2^63 : Int) := by decide +kernel

end GunYu.Props.C12
