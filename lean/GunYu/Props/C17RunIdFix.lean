/-
  C17 — the REPAIRED `RedisOutput.SetRunId` (`pendingRunId`, Model/BookRunIdSeq.lean `setRunIdP` / `srRunP`; /repo fix of
  finding C17-F1): the statement that is false for the state machine before the repair (`setRunIdSeq_stmt_refuted`) is a
  theorem for the repaired one.

  `setRunIdSeq_fixed`: one RedisOutput, any number of failovers and `SetRunId` calls, every attempt with any fate (dial
  error; the finishing step and the relabel proper each stopped after any number of their requests or failing with all of
  them applied), a failover whenever the HASH maps the master id (the position is readable under the ids reported after
  it): the SAME position stays readable under the reported ids.

  Invariant `InvP` (in-memory fields vs the label of the position):
    I1  cfg.RunId is the label; pendingRunId is "" or (label ≠ master id) the master id,
    I2  the hash maps the master id, cfg.RunId is the second id, pendingRunId the master id   (a call failed after it
        had repointed the hash),
    I3  the label is the second id and pendingRunId names it; cfg.RunId is some older id       (I2 + a failover): the
        finishing step `UpdateCheckpoint(key, [pending, cfg.RunId])` finds the hash on `pending` - nothing to do - and
        sets cfg.RunId to the label; the relabel proper then starts from the label, never from the stale id.
-/
import GunYu.Props.C17RunIdSeq

namespace GunYu.Props.C17
open GunYu GunYu.Checkpoint GunYu.BookSys

def InvP (c : Ctl) (s : RunIdStP) : Prop :=
  (s.runId = c.lab ∧ (s.pend = [] ∨ (s.pend = c.mas ∧ c.lab ≠ c.mas))) ∨
  (c.lab = c.mas ∧ s.runId = c.sec ∧ s.pend = c.mas) ∨
  (c.lab = c.sec ∧ s.pend = c.sec ∧ s.runId ≠ c.mas)

def FateOK (d : Nat) (f : AttemptF) : Prop := d ∈ f.a.o1 ∧ (-(2^63 : Int) ≤ f.a.now ∧ f.a.now < 2^63)

/-- the relabel proper from the label (`cfg.RunId` = label = second id), any fate -/
theorem main_step (ver : Bytes) {t : Checkpoint.Target} {c : Ctl} {X : Int} {d : Nat} (G : Good t c X d)
    (hp : c.pend = none) (hl : c.lab ≠ c.mas) (f : AttemptF) (hf : FateOK d f) :
    ∃ c', Good (attemptOnceF ver c.key ⟨t, c.sec⟩ c.mas f).1 c' X d ∧ SameIds c c' ∧ c'.ids = c.ids ∧
      ((attemptOnceF ver c.key ⟨t, c.sec⟩ c.mas f).2 = true → c'.lab = c.mas) ∧
      ((attemptOnceF ver c.key ⟨t, c.sec⟩ c.mas f).2 = false → c'.lab = c.mas ∨ c'.lab = c.lab) := by
  obtain ⟨ho1, hnow⟩ := hf
  have G' := good_relabel ver G hl hp f.a.o1 f.a.o2 ho1 f.a.now hnow f.a.k
  have hlen := relabel_len ver G hl f.a.o1 f.a.o2 ho1 f.a.now hnow
  obtain ⟨k1, k2, k3, k4, k5⟩ := relabelCtl_fields c f.a.k
  refine ⟨relabelCtl c f.a.k, ?_, ⟨k1, k2, k3, k4.trans hp⟩, k5, ?_, ?_⟩
  · simpa [attemptOnceF, attemptOnce] using G'
  · intro h
    simp only [attemptOnceF, attemptOnce, Bool.and_eq_true, decide_eq_true_eq] at h
    have h2 : 2 ≤ f.a.k := by omega
    unfold relabelCtl; rw [if_pos h2]
  · intro _
    unfold relabelCtl; split
    · exact Or.inl rfl
    · exact Or.inr rfl

theorem attemptP_good (ver : Bytes) {c : Ctl} {X : Int} {d : Nat} {s : RunIdStP} (G : Good s.t c X d)
    (hp : c.pend = none) (hi : InvP c s) (hr : s.runId ≠ c.mas) (ap : AttemptP) (h1 : FateOK d ap.fin)
    (h2 : FateOK d ap.a) :
    ∃ c', Good (attemptP ver c.key s c.mas ap).1.t c' X d ∧ SameIds c c' ∧ c'.ids = c.ids ∧
      InvP c' (attemptP ver c.key s c.mas ap).1 ∧
      ((attemptP ver c.key s c.mas ap).2 = true → (attemptP ver c.key s c.mas ap).1.runId = c.mas ∧ c'.lab = c.mas) ∧
      ((attemptP ver c.key s c.mas ap).2 = false → (attemptP ver c.key s c.mas ap).1.runId ≠ c.mas) := by
  obtain ⟨t, runId, pend⟩ := s
  simp only at G hr
  have hsame : SameIds c c := ⟨rfl, rfl, rfl, hp⟩
  by_cases hdial : ap.dial = true
  · have : attemptP ver c.key ⟨t, runId, pend⟩ c.mas ap = (⟨t, runId, pend⟩, false) := by simp [attemptP, hdial]
    rw [this]
    exact ⟨c, G, hsame, rfl, hi, fun h => (by cases h), fun _ => hr⟩
  have hdial' : ap.dial = false := by cases h : ap.dial <;> simp_all
  -- the relabel proper from a state whose field is the label = second id
  have main : ∀ (hl : c.lab ≠ c.mas) (hls : c.lab = c.sec),
      ∃ c', Good (attemptP ver c.key ⟨t, c.sec, c.mas⟩ c.mas { ap with dial := false }).1.t c' X d ∧ SameIds c c' ∧ c'.ids = c.ids ∧
        InvP c' (attemptP ver c.key ⟨t, c.sec, c.mas⟩ c.mas { ap with dial := false }).1 ∧
        ((attemptP ver c.key ⟨t, c.sec, c.mas⟩ c.mas { ap with dial := false }).2 = true →
          (attemptP ver c.key ⟨t, c.sec, c.mas⟩ c.mas { ap with dial := false }).1.runId = c.mas ∧ c'.lab = c.mas) ∧
        ((attemptP ver c.key ⟨t, c.sec, c.mas⟩ c.mas { ap with dial := false }).2 = false →
          (attemptP ver c.key ⟨t, c.sec, c.mas⟩ c.mas { ap with dial := false }).1.runId ≠ c.mas) := by
    intro hl hls
    obtain ⟨c', G', hs, hids, hT, hF⟩ := main_step ver G hp hl ap.a h2
    obtain ⟨s1, s2, s3, s4⟩ := hs
    have hfin : finStep ver c.key ⟨t, c.sec, c.mas⟩ c.mas ap.fin = (⟨t, c.sec, c.mas⟩, true) := by
      simp [finStep]
    by_cases hok : (attemptOnceF ver c.key ⟨t, c.sec⟩ c.mas ap.a).2 = true
    · have : attemptP ver c.key ⟨t, c.sec, c.mas⟩ c.mas { ap with dial := false } =
          (⟨(attemptOnceF ver c.key ⟨t, c.sec⟩ c.mas ap.a).1, c.mas, []⟩, true) := by
        simp [attemptP, hfin, hok]
      rw [this]
      have hl' := hT hok
      refine ⟨c', G', ⟨s1, s2, s3, s4⟩, hids, Or.inl ⟨?_, Or.inl rfl⟩, fun _ => ⟨rfl, hl'⟩, fun h => by cases h⟩
      show c.mas = c'.lab
      exact hl'.symm
    · have hok' : (attemptOnceF ver c.key ⟨t, c.sec⟩ c.mas ap.a).2 = false := by
        cases h : (attemptOnceF ver c.key ⟨t, c.sec⟩ c.mas ap.a).2 <;> simp_all
      have : attemptP ver c.key ⟨t, c.sec, c.mas⟩ c.mas { ap with dial := false } =
          (⟨(attemptOnceF ver c.key ⟨t, c.sec⟩ c.mas ap.a).1, c.sec, c.mas⟩, false) := by
        simp [attemptP, hfin, hok']
      rw [this]
      refine ⟨c', G', ⟨s1, s2, s3, s4⟩, hids, ?_, fun h => (by cases h), fun _ => fun e => G.ctl.hne e.symm⟩
      rcases hF hok' with h | h
      · exact Or.inr (Or.inl ⟨h.trans s2.symm, s3.symm, s2.symm⟩)
      · refine Or.inl ⟨?_, Or.inr ⟨s2.symm, ?_⟩⟩
        · show c.sec = c'.lab
          rw [h, hls]
        · rw [h, s2]; exact hl
  have hap : ({ ap with dial := false } : AttemptP) = ap := by
    cases ap; simp_all
  rcases hi with ⟨h1', h2'⟩ | ⟨hl, hrs, hpd⟩ | ⟨hls, hpd, hrm⟩
  · -- I1: the field is the label
    simp only at h1' h2'
    have hl : c.lab ≠ c.mas := fun e => hr (h1'.trans e)
    have hls : c.lab = c.sec := by rcases G.ctl.lab with h | h; exact absurd h hl; exact h
    have hrs : runId = c.sec := h1'.trans hls
    -- pendingRunId "" or the master id: the finishing step does not run, and the attempt sets it to the master id
    have heq : attemptP ver c.key ⟨t, runId, pend⟩ c.mas ap = attemptP ver c.key ⟨t, c.sec, c.mas⟩ c.mas { ap with dial := false } := by
      rw [hap, hrs]
      rcases h2' with h | ⟨h, _⟩
      · subst h
        simp [attemptP, finStep, hdial']
      · rw [h]
    rw [heq]
    exact main hl hls
  · -- I2: the hash already maps the master id
    simp only at hrs hpd
    subst hrs; subst hpd
    have hnoop : updateReqs ver t c.key [c.mas, c.sec] ap.a.a.o1 ap.a.a.o2 ap.a.a.now = [] :=
      updateReqs_noop ver _ _ _ (hl ▸ G.hashEq)
    by_cases hfail : ap.a.rfail = true
    · have : attemptP ver c.key ⟨t, c.sec, c.mas⟩ c.mas ap = (⟨t, c.sec, c.mas⟩, false) := by
        simp [attemptP, finStep, hdial', attemptOnceF, attemptOnce, hnoop, applyAll, hfail]
      rw [this]
      exact ⟨c, G, hsame, rfl, Or.inr (Or.inl ⟨hl, rfl, rfl⟩), fun h => (by cases h), fun _ => hr⟩
    · have : attemptP ver c.key ⟨t, c.sec, c.mas⟩ c.mas ap = (⟨t, c.mas, []⟩, true) := by
        simp [attemptP, finStep, hdial', attemptOnceF, attemptOnce, hnoop, applyAll, hfail]
      rw [this]
      exact ⟨c, G, hsame, rfl, Or.inl ⟨hl.symm, Or.inl rfl⟩, fun _ => ⟨rfl, hl⟩, fun h => by cases h⟩
  · -- I3: the label is the second id, pendingRunId names it, the field is older: the finishing step finds nothing
    -- to do and moves the field to the label
    simp only at hpd hrm
    subst hpd
    have hl : c.lab ≠ c.mas := fun e => G.ctl.hne (e.symm.trans hls)
    have hlk : hlookup t.hash c.sec = some c.key := hls ▸ G.fr.hashL
    have hnoop : updateReqs ver t c.key [c.sec, runId] ap.fin.a.o1 ap.fin.a.o2 ap.fin.a.now = [] :=
      updateReqs_noop ver _ _ _ (getHash_of_first hlk G.ctl.key0)
    have hne : c.sec ≠ c.mas := fun e => G.ctl.hne e.symm
    by_cases hfail : ap.fin.rfail = true
    · have : attemptP ver c.key ⟨t, runId, c.sec⟩ c.mas ap = (⟨t, runId, c.sec⟩, false) := by
        simp [attemptP, finStep, hdial', attemptOnceF, attemptOnce, hnoop, applyAll, hfail, G.ctl.s0, hne]
      rw [this]
      exact ⟨c, G, hsame, rfl, Or.inr (Or.inr ⟨hls, rfl, hrm⟩), fun h => (by cases h), fun _ => hr⟩
    · have heq : attemptP ver c.key ⟨t, runId, c.sec⟩ c.mas ap = attemptP ver c.key ⟨t, c.sec, c.mas⟩ c.mas { ap with dial := false } := by
        rw [hap]
        simp [attemptP, finStep, hdial', attemptOnceF, attemptOnce, hnoop, applyAll, hfail, G.ctl.s0, hne, G.ctl.m0]
      rw [heq]
      exact main hl hls

theorem retryLoopP_good (ver : Bytes) (as : List AttemptP) :
    ∀ {c : Ctl} {X : Int} {d : Nat} {s : RunIdStP} (G : Good s.t c X d) (hp : c.pend = none) (hi : InvP c s)
      (hr : s.runId ≠ c.mas) (has : ∀ a ∈ as, FateOK d a.fin ∧ FateOK d a.a),
      ∃ c', Good (retryLoopP ver c.key c.mas s as).1.t c' X d ∧ SameIds c c' ∧ c'.ids = c.ids ∧
        InvP c' (retryLoopP ver c.key c.mas s as).1 ∧
        ((retryLoopP ver c.key c.mas s as).2 = true → (retryLoopP ver c.key c.mas s as).1.runId = c.mas ∧ c'.lab = c.mas) := by
  induction as with
  | nil =>
    intro c X d s G hp hi hr _
    exact ⟨c, G, ⟨rfl, rfl, rfl, hp⟩, rfl, hi, fun h => by simp [retryLoopP] at h⟩
  | cons a rest ih =>
    intro c X d s G hp hi hr has
    obtain ⟨hf1, hf2⟩ := has a (List.mem_cons_self ..)
    obtain ⟨c1, G1, ⟨k1, m1, s1, p1⟩, i1, hI, hT, hF⟩ := attemptP_good ver G hp hi hr a hf1 hf2
    unfold retryLoopP
    by_cases hok : (attemptP ver c.key s c.mas a).2 = true
    · simp only [hok, if_true]
      exact ⟨c1, G1, ⟨k1, m1, s1, p1⟩, i1, hI, fun _ => hT hok⟩
    · have hok' : (attemptP ver c.key s c.mas a).2 = false := by
        cases h : (attemptP ver c.key s c.mas a).2 <;> simp_all
      simp only [hok']
      have := ih G1 p1 hI (by rw [m1]; exact hF hok') (fun a' ha' => has a' (List.mem_cons_of_mem _ ha'))
      rw [k1, m1] at this
      obtain ⟨c', G', ⟨k2, m2, s2, p2⟩, i2, hI', hT'⟩ := this
      exact ⟨c', G', ⟨k2.trans k1, m2.trans m1, s2.trans s1, p2⟩, i2.trans i1, hI', hT'⟩

/-- one call of the repaired `SetRunId(master id)` -/
theorem setRunIdP_good (ver : Bytes) {c : Ctl} {X : Int} {d : Nat} {s : RunIdStP} (G : Good s.t c X d)
    (hp : c.pend = none) (hi : InvP c s) (as : List AttemptP) (has : ∀ a ∈ as, FateOK d a.fin ∧ FateOK d a.a) :
    ∃ c', Good (setRunIdP ver c.key s c.mas as).1.t c' X d ∧ SameIds c c' ∧ c'.ids = c.ids ∧
      InvP c' (setRunIdP ver c.key s c.mas as).1 ∧
      ((setRunIdP ver c.key s c.mas as).2 = true → (setRunIdP ver c.key s c.mas as).1.runId = c.mas ∧ c'.lab = c.mas) := by
  unfold setRunIdP
  by_cases hr : s.runId = c.mas
  · rw [if_pos hr]
    refine ⟨c, G, ⟨rfl, rfl, rfl, hp⟩, rfl, hi, fun _ => ⟨hr, ?_⟩⟩
    rcases hi with ⟨h1, _⟩ | ⟨_, h2, _⟩ | ⟨_, _, h3⟩
    · exact h1.symm.trans hr
    · exact absurd (h2.symm.trans hr) (fun e => G.ctl.hne e.symm)
    · exact absurd hr h3
  · rw [if_neg hr, if_neg G.ctl.key0]
    exact retryLoopP_good ver (as.take 3) G hp hi hr (fun a ha => has a (List.mem_of_mem_take ha))

/-- an output without bookkeeping (`CheckpointName == ""`) issues NO request: the target is untouched, the field follows -/
theorem setRunIdP_no_name (ver : Bytes) (s : RunIdStP) (id : Bytes) (as : List AttemptP) :
    (setRunIdP ver [] s id as).1.t = s.t ∧ (setRunIdP ver [] s id as).2 = true ∧ (setRunIdP ver [] s id as).1.runId = id := by
  unfold setRunIdP
  by_cases h : s.runId = id
  · rw [if_pos h]; exact ⟨rfl, rfl, h⟩
  · rw [if_neg h, if_pos rfl]; exact ⟨rfl, rfl, rfl⟩

/-- the steps: a failover whenever the HASH maps the master id to the key (the position is readable under the ids
    reported after it), its id never used on this target; attempts with any fate -/
def StepsOKP (ver loc : Bytes) (d : Nat) : RunIdStP → Bytes → List Bytes → List SrStepP → Prop
  | _, _, _, [] => True
  | s, m, ids, .call as :: r =>
    (∀ a ∈ as, FateOK d a.fin ∧ FateOK d a.a) ∧ StepsOKP ver loc d (setRunIdP ver loc s m as).1 m ids r
  | s, m, ids, .failover N :: r =>
    hlookup s.t.hash m = some loc ∧ N ∉ ids ∧ N ≠ [] ∧ N ≠ qmark ∧ StepsOKP ver loc d s N (N :: ids) r

theorem setRunIdSeq_fixed_good (ver : Bytes) (steps : List SrStepP) :
    ∀ {c : Ctl} {X : Int} {d : Nat} {s : RunIdStP} (G : Good s.t c X d) (hp : c.pend = none) (hi : InvP c s)
      (hok : StepsOKP ver c.key d s c.mas c.ids steps),
      ∃ c', Good (srRunP ver c.key s c.mas steps).1.t c' X d ∧ c'.key = c.key ∧ c'.pend = none ∧
        c'.mas = (srRunP ver c.key s c.mas steps).2 ∧ c'.sec = srSecP c.mas c.sec steps ∧
        InvP c' (srRunP ver c.key s c.mas steps).1 := by
  induction steps with
  | nil => intro c X d s G hp hi _; exact ⟨c, G, rfl, hp, rfl, rfl, hi⟩
  | cons st rest ih =>
    intro c X d s G hp hi hok
    cases st with
    | call as =>
      obtain ⟨has, hok'⟩ := hok
      obtain ⟨c1, G1, ⟨k1, m1, s1, p1⟩, i1, hI, _⟩ := setRunIdP_good ver G hp hi as has
      simp only [srRunP, srSecP]
      have := ih G1 p1 hI (by rw [k1, m1, i1]; exact hok')
      rw [k1, m1, s1] at this
      exact this
    | failover N =>
      obtain ⟨hh, hN, hN0, hNq, hok'⟩ := hok
      have hl : c.lab = c.mas := by
        have h1 := G.hashEq
        rw [getHash_of_first hh G.ctl.key0] at h1
        injection h1 with h1; injection h1 with _ h1
        exact h1.symm
      have G1 := good_failover G hl N hN hN0 hNq
      simp only [srRunP, srSecP]
      refine ih G1 hp ?_ hok'
      rcases hi with ⟨h1, h2⟩ | ⟨_, h2, h3⟩ | ⟨h1, _, _⟩
      · refine Or.inl ⟨h1, Or.inl ?_⟩
        rcases h2 with h | ⟨_, h⟩
        · exact h
        · exact absurd hl h
      · refine Or.inr (Or.inr ⟨hl, h3, ?_⟩)
        show s.runId ≠ N
        rw [h2]
        exact fun e => hN (e ▸ G.ctl.secIn)
      · exact absurd (hl.symm.trans h1) G.ctl.hne

/-- **the statement that was false before the repair** (`setRunIdSeq_stmt`), for the repaired `SetRunId`: a fresh
    RedisOutput on a reachable state (cfg.RunId = the label, as `newOutput` sets it; pendingRunId ""), any failovers and
    calls, attempts with any fate: the next start reads the SAME position under the ids reported at the end. -/
theorem setRunIdSeq_fixed (ver : Bytes) {t : Checkpoint.Target} {c : Ctl} (h : Reach ver true t c) (hp : c.pend = none)
    (steps : List SrStepP) (o : List Nat) (ho : Lists o t c.key)
    (hok : ∀ X d, startPoint ver [c.mas, c.sec] o t = some (some (X, d)) →
      StepsOKP ver c.key d ⟨t, c.lab, []⟩ c.mas c.ids steps) :
    ∃ X d, startPoint ver [c.mas, c.sec] o t = some (some (X, d)) ∧
      startPoint ver [(srRunP ver c.key ⟨t, c.lab, []⟩ c.mas steps).2, srSecP c.mas c.sec steps] o
        (srRunP ver c.key ⟨t, c.lab, []⟩ c.mas steps).1.t = some (some (X, d)) := by
  obtain ⟨X, d, G⟩ := reach_good ver h
  have hd := ho d G.nonempty
  have h0 := good_startPoint ver G o hd
  obtain ⟨c', G', _, _, m, s, _⟩ :=
    setRunIdSeq_fixed_good ver steps (s := ⟨t, c.lab, []⟩) G hp (Or.inl ⟨rfl, Or.inl rfl⟩) (hok X d h0)
  have := good_startPoint ver G' o hd
  rw [m, s] at this
  exact ⟨X, d, h0, this⟩

/-! non-vacuity = the witness of C17-F1 on the repaired state machine: `SetRunId("b")` applies 3 of its 4 requests and
    fails, failover to "e", `SetRunId("e")`: the finishing step finds the hash on "b", the relabel starts from "b":
    the position 7@0 stays. -/

def rxSeqP : List SrStepP :=
  [.call [⟨false, ⟨⟨0, 0, [0], [0]⟩, false⟩, ⟨⟨3, 9, [0], [0]⟩, false⟩⟩], .failover rxE,
   .call [⟨true, ⟨⟨0, 0, [0], [0]⟩, false⟩, ⟨⟨9, 10, [0], [0]⟩, false⟩⟩,
          ⟨false, ⟨⟨0, 0, [0], [0]⟩, true⟩, ⟨⟨9, 10, [0], [0]⟩, false⟩⟩,
          ⟨false, ⟨⟨0, 0, [0], [0]⟩, false⟩, ⟨⟨9, 11, [0], [0]⟩, false⟩⟩]]

theorem rx_seqP_ok (X : Int) (d : Nat) (hsp : startPoint rxVer [rxB, rxA] [0] rxT0s = some (some (X, d))) :
    StepsOKP rxVer rxLoc d ⟨rxT0s, rxA, []⟩ rxB (rxB :: [rxA, rxZ]) rxSeqP := by
  have h7 : startPoint rxVer [rxB, rxA] [0] rxT0s = some (some (7, 0)) := by decide +kernel
  rw [h7] at hsp
  injection hsp with hsp; injection hsp with hsp; injection hsp with _ hd
  subst hd
  refine ⟨?_, ?_, by decide, by decide, by decide, ?_, trivial⟩
  · intro a ha
    simp only [List.mem_cons, List.not_mem_nil, or_false] at ha
    subst ha; exact ⟨⟨by decide, by decide⟩, ⟨by decide, by decide⟩⟩
  · decide +kernel
  · intro a ha
    simp only [List.mem_cons, List.not_mem_nil, or_false] at ha
    rcases ha with rfl | rfl | rfl <;> exact ⟨⟨by decide, by decide⟩, ⟨by decide, by decide⟩⟩

example := setRunIdSeq_fixed rxVer rx_reachB rfl rxSeqP [0] (rx_lists0s [0] (by decide)) rx_seqP_ok

example : startPoint rxVer [(srRunP rxVer rxLoc ⟨rxT0s, rxA, []⟩ rxB rxSeqP).2, srSecP rxB rxA rxSeqP] [0]
    (srRunP rxVer rxLoc ⟨rxT0s, rxA, []⟩ rxB rxSeqP).1.t = some (some (7, 0)) := by decide +kernel

end GunYu.Props.C17
