/-
  C13 — databases and recognition (session 5).

  The replication stream of a site switches databases with `SELECT n`; the
  opposite link's parser consumes it (and, with a database blacklist, starts or
  stops bypassing). Until now recognition behind a SELECT and under a database
  blacklist was examined by parse ops only. Proved here, for the parser model
  `step` / `parseBlock` (tied to parseAofReplayUnits by the parse ops, SELECT
  forms valid / negative / malformed and `dbBlacklist` included):

  * `select_transparent`     : a SELECT of a database that is not blacklisted is
                               consumed and leaves the parser idle with its unit
                               numbering - whatever state of bypass it was in;
  * `mirrored_recognised_behind_select` : hence every block a unit commit leaves
                               in the stream is passed over when it follows a
                               SELECT (the master writes `SELECT 0` ahead of the
                               commit whenever the previous write was elsewhere);
  * `select_blacklisted_bypasses`, `bypassed_block_dropped` : behind a SELECT of a
                               blacklisted database EVERY block - mirrored or a
                               client's - yields no unit and no error, and the
                               parser stays out of a transaction: a mirrored block
                               never becomes a unit or a stop because of the
                               blacklist, a client block in a blacklisted database
                               is withheld by the user's filter (outside the
                               property's quantifier);
  The exception stays what it was: a unit is COMMITTED in database 0 whatever
  database it was written in (`D31_counterexample`).
-/
import GunYu.Props.C13

namespace GunYu.Props.C13
open GunYu GunYu.BisyncUnit GunYu.Bisync

/-- the parser is between blocks (not inside a transaction); it may be bypassing -/
def Between (st : PState) : Prop := st.inTxn = false

private theorem step_select (pc : PCfg) (st : PState) (a : Bytes) (n : Int) (off : Nat)
    (ha : Filter.atoi? a = some n) (hn : n ≥ 0) :
    step pc st wSelect [a] off =
      ({ st with bypass := pc.filter.filterDb n, prevOff := off }, .none) := by
  obtain ⟨bypass, prevOff, seq, inTxn, txnStart, txn⟩ := st
  unfold step
  have h1 : (wSelect == wMulti) = false := by decide
  have h2 : (wSelect == wExec) = false := by decide
  have h3 : (wSelect != wPing) = true := by decide
  have h4 : Filter.eqFold wSelect wSelect = true := by decide
  rw [h1, h2]
  simp only [Bool.false_eq_true, ↓reduceIte]
  unfold preFilter
  rw [h3, h4]
  simp only [↓reduceIte, ha]
  cases hb : pc.filter.filterDb n with
  | true => simp
  | false => simp [hn]

/-- `SELECT <n>` as it stands in a stream (any letter case of the name) -/
def IsSelect (c : Cmd) (a : Bytes) : Prop := lower c.name = wSelect ∧ c.args = [a]

private theorem parse_select (pc : PCfg) (pst : PState) (c : Cmd) (a : Bytes) (n : Int)
    (hc : IsSelect c a) (ha : Filter.atoi? a = some n) (hn : n ≥ 0) (hb : Between pst) :
    parseBlock pc pst (.single c) =
      ([], { pst with bypass := pc.filter.filterDb n, prevOff := pst.prevOff + respLen c }, none) := by
  rw [parseBlock_single, parseCmds_cons, hc.1, hc.2, step_select pc pst a n _ ha hn]
  simp only [items, parse]
  have : pst.inTxn = false := hb
  simp [this]

/-- **A SELECT of a database that is not blacklisted is transparent**: consumed,
    no unit, no error, and the parser is idle behind it (not bypassing any more,
    if it was), its unit numbering untouched. -/
theorem select_transparent (pc : PCfg) (pst : PState) (c : Cmd) (a : Bytes) (n : Int)
    (hc : IsSelect c a) (ha : Filter.atoi? a = some n) (hn : n ≥ 0) (hdb : pc.filter.filterDb n = false)
    (hb : Between pst) :
    ∃ pst', parseBlock pc pst (.single c) = ([], pst', none) ∧ Idle pst' ∧ pst'.seq = pst.seq := by
  refine ⟨_, parse_select pc pst c a n hc ha hn hb, ⟨hb, ?_⟩, rfl⟩
  exact hdb

/-- **A mirrored block behind a SELECT is recognised.** Whatever unit a link
    commits and however, in the stream `SELECT n` (n not blacklisted; the master
    writes `SELECT 0` ahead of a commit whenever the previous write was in another
    database) followed by the blocks of that commit, every block is passed over:
    no unit, no error, parser idle, numbering untouched. -/
theorem mirrored_recognised_behind_select (pc : PCfg) (hf : FOK pc.filter) (rcfg : RedisCfg) (now : Nat) (st : Store)
    (cp : Bytes) (k : CommitKind) (u : RUnit) (p : Payload) (hu : ∀ c ∈ u.cmds, TxnSafe c)
    (pst : PState) (hb : Between pst) (c : Cmd) (a : Bytes) (n : Int)
    (hc : IsSelect c a) (ha : Filter.atoi? a = some n) (hn : n ≥ 0) (hdb : pc.filter.filterDb n = false) :
    ∃ pst1, parseBlock pc pst (.single c) = ([], pst1, none) ∧
      ∀ b ∈ toBlocks rcfg true (commitCmds cp k u p).length (execCmds rcfg now st (commitCmds cp k u p)).2,
        ∃ pst', parseBlock pc pst1 b = ([], pst', none) ∧ Idle pst' ∧ pst'.seq = pst.seq := by
  obtain ⟨pst1, h1, hi, hs⟩ := select_transparent pc pst c a n hc ha hn hdb hb
  refine ⟨pst1, h1, ?_⟩
  intro b hbm
  obtain ⟨pst', h2, hi', hs'⟩ := mirrored_recognised pc hf rcfg now st cp k u p hu pst1 hi b hbm
  exact ⟨pst', h2, hi', by rw [hs', hs]⟩

/-- a SELECT of a blacklisted database starts the bypass -/
theorem select_blacklisted_bypasses (pc : PCfg) (pst : PState) (c : Cmd) (a : Bytes) (n : Int)
    (hc : IsSelect c a) (ha : Filter.atoi? a = some n) (hn : n ≥ 0) (hdb : pc.filter.filterDb n = true)
    (hb : Between pst) :
    ∃ pst', parseBlock pc pst (.single c) = ([], pst', none) ∧ Between pst' ∧ pst'.bypass = true ∧ pst'.seq = pst.seq :=
  ⟨_, parse_select pc pst c a n hc ha hn hb, hb, hdb, rfl⟩

/-- while bypassing, a command that is not framing / SELECT only moves the offset -/
private theorem step_bypassed (pc : PCfg) (st : PState) (c : Cmd) (off : Nat) (hb : st.bypass = true) (hs : TxnSafe c) :
    step pc st (lower c.name) c.args off = ({ st with prevOff := off }, .none) := by
  obtain ⟨h1, h2, h3⟩ := hs
  obtain ⟨bypass, prevOff, seq, inTxn, txnStart, txn⟩ := st
  simp only at hb
  subst hb
  have hn : ¬ ((-1 : Int) ≥ 0) := by omega
  unfold step
  rw [beq_of_ne h1, beq_of_ne h2]
  simp only [Bool.false_eq_true, ↓reduceIte]
  unfold preFilter
  by_cases hp : lower c.name = wPing
  · have e1 : (lower c.name != wPing) = false := by simp [hp]
    have e2 : (lower c.name == wPing) = true := by simp [hp]
    rw [e1, e2]
    simp only [Bool.false_eq_true, ↓reduceIte, hn]
  · rw [bne_of_ne hp, h3]
    simp only [↓reduceIte, Bool.false_eq_true]
    cases pc.filter.filterCmd (lower c.name) with
    | true => simp
    | false =>
      simp only [Bool.false_eq_true, ↓reduceIte]
      cases (Filter.eqFold (lower c.name) wPublish && !c.args.isEmpty && Filter.eqFold (c.args.headD []) wSentinelHello) with
      | true => simp
      | false => simp

private theorem parseCmds_bypassed (pc : PCfg) (cs rest : List Cmd) (st : PState) (acc : List Emit)
    (hb : st.bypass = true) (hs : ∀ c ∈ cs, TxnSafe c) :
    ∃ off', parseCmds pc st (cs ++ rest) acc = parseCmds pc { st with prevOff := off' } rest acc := by
  induction cs generalizing st with
  | nil => exact ⟨st.prevOff, rfl⟩
  | cons c cs ih =>
    have hstep := step_bypassed pc st c (st.prevOff + respLen c) hb (hs c (by simp))
    rw [List.cons_append, parseCmds_step_none pc st _ c (cs ++ rest) acc hstep rfl]
    obtain ⟨off2, h2⟩ := ih { st with prevOff := st.prevOff + respLen c } hb (fun c' hc' => hs c' (List.mem_cons_of_mem _ hc'))
    exact ⟨off2, h2⟩

/-- **While a blacklisted database is selected every block is dropped, quietly.**
    A stand-alone command or a MULTI/EXEC block of commands that are not
    framing / SELECT - a mirrored block in particular, but also a client's block
    (that is what the user's database blacklist asks for) - yields no unit and no
    error; the parser ends between blocks, still bypassing, numbering untouched,
    and its transaction buffer empty. -/
theorem bypassed_block_dropped (pc : PCfg) (pst : PState) (b : Block) (hs : ∀ c ∈ b.body, TxnSafe c)
    (hb : Between pst) (hby : pst.bypass = true) :
    ∃ pst', parseBlock pc pst b = ([], pst', none) ∧ Between pst' ∧ pst'.bypass = true ∧ pst'.seq = pst.seq := by
  cases b with
  | single c =>
    have hstep := step_bypassed pc pst c (pst.prevOff + respLen c) hby (hs c (by simp [Block.body]))
    rw [parseBlock_single, parseCmds_step_none pc pst _ c [] [] hstep rfl, parseCmds_nil]
    have : pst.inTxn = false := hb
    refine ⟨{ pst with prevOff := pst.prevOff + respLen c }, ?_, hb, hby, rfl⟩
    simp [this]
  | multi cs =>
    rw [parseBlock_multi, List.cons_append]
    have hm : step pc pst (lower mMulti.name) mMulti.args (pst.prevOff + respLen mMulti) = _ :=
      step_multi pc pst [] (pst.prevOff + respLen mMulti) hb
    rw [parseCmds_step_none pc pst _ mMulti (cs ++ [mExec]) [] hm rfl]
    obtain ⟨off', h2⟩ := parseCmds_bypassed pc cs [mExec]
      { pst with inTxn := true, txnStart := pst.prevOff, txn := [], prevOff := pst.prevOff + respLen mMulti } [] hby
      (fun c hc => hs c (by simpa [Block.body] using hc))
    rw [h2]
    have he : step pc _ (lower mExec.name) mExec.args _ = _ :=
      step_exec_empty pc { pst with inTxn := true, txnStart := pst.prevOff, txn := [], prevOff := off' } []
        (off' + respLen mExec) rfl rfl
    rw [parseCmds_step_none pc _ _ mExec [] [] he rfl, parseCmds_nil]
    exact ⟨_, rfl, rfl, hby, rfl⟩

/-! ### non-vacuity -/

private def pcBl : PCfg := ⟨{ (Filter.buildOutput {}) with dbBlack := [2] }, standaloneMode, defaultResolver⟩
private def sel (d : Bytes) : Cmd := ⟨[83,69,76,69,67,84], [d]⟩            -- "SELECT" d
private def mkD : Bytes := Gen.markerKey [99,112] (slotTag 0)
private def mirrorD : Block := .multi [⟨wSet, [mkD, [109], [80,88,65,84], [57]]⟩, ⟨wSet, [[107], [118]]⟩]
private def clientD : Block := .single ⟨wSet, [[107], [118]]⟩

-- SELECT 3 ; mirrored block ; client SET: nothing, nothing, one unit
example : ((parseBlock pcBl {} (.single (sel [51]))).1, (parseBlock pcBl (parseBlock pcBl {} (.single (sel [51]))).2.1 mirrorD).1.length,
    (parseBlock pcBl (parseBlock pcBl {} (.single (sel [51]))).2.1 clientD).1.length) = ([], 0, 1) := by decide +kernel
-- SELECT 2 (blacklisted) ; the same two blocks: both dropped, no error, still bypassing; SELECT 0 ends the bypass
example : ((parseBlock pcBl (parseBlock pcBl {} (.single (sel [50]))).2.1 mirrorD).1.length,
    (parseBlock pcBl (parseBlock pcBl {} (.single (sel [50]))).2.1 mirrorD).2.2,
    (parseBlock pcBl (parseBlock pcBl {} (.single (sel [50]))).2.1 clientD).1.length,
    (parseBlock pcBl (parseBlock pcBl {} (.single (sel [50]))).2.1 clientD).2.1.bypass,
    (parseBlock pcBl (parseBlock pcBl (parseBlock pcBl {} (.single (sel [50]))).2.1 clientD).2.1 (.single (sel [48]))).2.1.bypass) =
    (0, none, 0, true, false) := by decide +kernel
example : IsSelect (sel [51]) [51] := ⟨by decide, rfl⟩

end GunYu.Props.C13
