/-
  C04 (session 5, gofn) — D23's property on the REGENERATED `Listpack.Next`
  (pkg/redis/types/listpack.go; lean/GunYu/Gen/FnListpack.lean, generator `gofn_listpack`): a call that
  returns has moved the cursor forward (strictly fewer bytes are left behind it), whatever the buffer
  holds; every first byte that is no element encoding panics instead of returning. A loop that calls
  `Next` until the end marker (StreamParser.ExecCmd's expansion of a stream listpack, the walk of
  NewListpack for the count field 65535) therefore ends after at most `len(data)` calls - it cannot
  spin on a damaged byte as it did before 53af0a3. Side conditions: `len(data) < 2^31`, `p ≤ len(data)`.
-/
import GunYu.Proofs.GenS5ListpackNext

namespace GunYu.Props.C04
open GunYu GunYu.Gen

theorem gen_lpNext_progress (lp lp' : Fn.Listpack) (e : Bytes) (hlen : lp.data.length < 2147483648)
    (hp : lp.p.toNat ≤ lp.data.length) (h : Fn.lpNext lp = some (lp', e)) :
    (lp'.data.drop lp'.p.toNat).length < (lp.data.drop lp.p.toNat).length :=
  Proofs.GenS5.gen_lpNext_progress lp lp' e hlen hp h

-- non-vacuity: a returning call (cursor 0 -> 2 on a 7 bit integer), and the damaged byte 0xF5 of D23's witness
example : Fn.lpNext ⟨[5, 1, 0xFF], 0#32, 0#32, 0⟩ = some (⟨[5, 1, 0xFF], 2#32, 0#32, 0⟩, [53]) := by decide +kernel
example : Fn.lpNext ⟨[0xF5, 1, 0xFF], 0#32, 0#32, 0⟩ = none := by decide +kernel

end GunYu.Props.C04
