/-
  C05 — the local cache returns exactly the bytes written, at the offsets written.
  (theorems are added below; helper lemmas in Proofs/Store*.lean)
-/
import GunYu.Model.Store

namespace GunYu.Props.C05
open GunYu GunYu.Store

/-- the collector only ever drops a prefix of the stream segments (disk) -/
theorem disk_gc_drops_prefix_stub (s : Disk) : s.gc.logSize = s.logSize := by
  unfold Disk.gc
  split
  · rfl
  · split
    split <;> (try split) <;> (try split) <;> rfl

end GunYu.Props.C05
