/-
  C05 — the local cache returns exactly the bytes written, at the offsets written.

  Property theorems only (models: Model/Store.lean; helper lemmas:
  Proofs/StoreDisk.lean, Proofs/StoreMem.lean, Proofs/StoreMemInv.lean).

  Quantifier: all sequences of cache operations — snapshot write, appends of
  arbitrary chunk sizes, rotation at any size limit, collector passes, reader
  open / read / rotation steps / close at any offset, writer replacement,
  replication-id switch and delete — in any interleaving of the steps of
  writers, readers and the collector (`List DOp` / `List MOp`; a reader's move to
  the next segment is two separate steps so that the collector can run in
  between). The only hypothesis on the list is the callers' protocol
  `Disk.wf`: a stream writer continues where the held stream ends, snapshot
  chunks stay within the announced size, and the replication id is SWITCHED only
  between two runs of the input (no writer open — readers may be open; the same
  id again, as at every source reconnect, is always allowed).
-/
import GunYu.Model.Store
import GunYu.Proofs.StoreDisk
import GunYu.Proofs.StoreMem
import GunYu.Proofs.StoreMemInv
import GunYu.Proofs.StoreMemSnap

namespace GunYu.Props.C05
open GunYu GunYu.Store

/-! ## Disk backend -/

/-- **reader_delivers (disk).** After any sequence of operations, every stream
    reader that is still open has delivered exactly the bytes that were appended
    at the offsets `[start, pos)` — contiguous, in order, nothing else — and its
    position is within what was written. (`hist`/`hbase` record the appended
    bytes: `disk_history_records_appends`.) -/
theorem disk_reader_delivers (l m : Nat) (ops : List DOp) (hwf : (Disk.init l m).wf ops) :
    let s := (Disk.init l m).run ops
    ∀ r ∈ s.readers, r.isOpen = true → r.isAof = true →
      s.hbase ≤ r.start ∧ r.start ≤ r.pos ∧ r.pos ≤ s.hbase + s.hist.length ∧
      r.out = (s.hist.drop (r.start - s.hbase)).take (r.pos - r.start) := by
  intro s r hr ho ha
  have hinv : DInv s := (DInv.init l m).run ops hwf
  obtain ⟨⟨g, hg, _, _, hpr⟩, _, hs, hp, hout⟩ := (hinv.readersOk r hr ho).1 ha
  have := (hinv.embed g hg).2.1
  exact ⟨hs, hp, by omega, hout⟩

/-- the ghost history is exactly what the writer appended: an accepted append
    extends it by the chunk, nothing else touches it except the start of a new
    history (reset, or a writer that does not continue), which empties it -/
theorem disk_history_records_appends (s : Disk) (op : DOp) :
    ((s.step op).1.hbase = s.hbase ∧ (s.step op).1.hist = s.hist) ∨
    (∃ chunk, op = .aofAppend chunk ∧ (s.step op).2 = .ok ∧
        (s.step op).1.hbase = s.hbase ∧ (s.step op).1.hist = s.hist ++ chunk) ∨
    (s.step op).1.hist = [] :=
  hist_step s op

/-- snapshot readers deliver exactly the snapshot bytes written so far, in order -/
theorem disk_snapshot_reader_delivers (l m : Nat) (ops : List DOp) (hwf : (Disk.init l m).wf ops) :
    let s := (Disk.init l m).run ops
    ∀ r ∈ s.readers, r.isOpen = true → r.isAof = false →
      ∃ rd, s.rdb = some rd ∧ r.pos ≤ rd.data.length ∧ r.out = rd.data.take r.pos := by
  intro s r hr ho ha
  have hinv : DInv s := (DInv.init l m).run ops hwf
  exact (hinv.readersOk r hr ho).2 ha

/-- **gc_keeps_contiguous_suffix (disk).** A collector pass removes a prefix of
    the closed segments, every removed segment is unreferenced, and the live
    segment is never touched — for every state, no hypothesis. -/
theorem disk_gc_keeps_contiguous_suffix (s : Disk) :
    ∃ pre, s.segs = pre ++ s.gc.segs ∧ (∀ g ∈ pre, readerRefs s.readers g.left = 0) ∧
      s.gc.live = s.live := by
  unfold Disk.gc
  split
  · exact ⟨[], by simp, by simp, rfl⟩
  · generalize gcScanRev s.maxSize s.all.reverse 0 = ks
    obtain ⟨k, size⟩ := ks
    obtain ⟨pre, hp, hz⟩ := dropUnref_suffix s.readers k s.segs
    simp only []
    split
    · exact ⟨pre, hp, hz, rfl⟩
    · split
      · split
        · exact ⟨pre, hp, hz, rfl⟩
        · exact ⟨[], by simp, by simp, rfl⟩
      · exact ⟨pre, hp, hz, rfl⟩

/-- **refinement.** `abs` maps the concrete index to the abstract `Log`; in every
    reachable state that holds stream segments, the abstract bytes are exactly the
    suffix of the written history that starts at the abstract base. Together with
    `disk_history_records_appends` (an append extends the history by the chunk,
    nothing else changes it except the start of a new history) this is the
    commuting diagram: appends extend `abs.bytes` at the end, the collector and
    nothing else moves `abs.base` forward, reads leave `abs` unchanged. -/
theorem disk_refines (l m : Nat) (ops : List DOp) (hwf : (Disk.init l m).wf ops) :
    let s := (Disk.init l m).run ops
    s.all ≠ [] → s.hbase ≤ s.abs.base ∧ s.abs.bytes = s.hist.drop (s.abs.base - s.hbase) :=
  fun hne => abs_bytes_eq ((DInv.init l m).run ops hwf) hne

/-- what is held stays one contiguous range through every operation (in
    particular through collection and rotation) -/
theorem disk_range_contiguous (l m : Nat) (ops : List DOp) (hwf : (Disk.init l m).wf ops) :
    Contig ((Disk.init l m).run ops).all :=
  ((DInv.init l m).run ops hwf).contig

/-- **invalidated_reader_ends (disk).** A closed reader — closed by its user, by
    a cache reset (new snapshot, id delete), by writer replacement, or with the
    empty segment it was tailing — fails every further read without changing
    anything … -/
theorem disk_closed_reader_read_fails (s : Disk) (rid n : Nat) (r : DReader)
    (hf : findReader s.readers rid = some r) (hc : r.isOpen = false) :
    s.step (.read rid n) = (s, Out.err) := by
  simp [Disk.step, Disk.read, hf, hc]

/-- … and no operation ever re-opens it or changes what it delivered: an
    invalidated reader never delivers other bytes. -/
theorem disk_closed_reader_frozen (l m : Nat) (ops : List DOp) (hwf : (Disk.init l m).wf ops)
    (op : DOp) (r : DReader) (hr : r ∈ ((Disk.init l m).run ops).readers) (hc : r.isOpen = false) :
    ∃ r' ∈ (((Disk.init l m).run ops).step op).1.readers,
      r'.id = r.id ∧ r'.isOpen = false ∧ r'.out = r.out :=
  closed_reader_frozen ((DInv.init l m).run ops hwf) op hr hc

/-- **invalidation events close the readers.** A reset (new snapshot, id delete)
    and a replication-id switch leave no reader open; a new stream writer leaves
    no stream reader open. -/
theorem disk_invalidation_closes_readers (s : Disk) :
    (∀ off size, ∀ r ∈ (s.step (.newRdbWriter off size)).1.readers, r.isOpen = false) ∧
    (s.runId ≠ "" → ∀ r ∈ (s.step .delRunId).1.readers, r.isOpen = false) ∧
    (∀ id, s.runId ≠ "" → id ≠ s.runId → ∀ r ∈ (s.step (.setRunId id)).1.readers, r.isOpen = false) ∧
    (∀ off, ∀ r ∈ (s.step (.newAofWriter off)).1.readers, r.isAof = true → r.isOpen = false) := by
  have hreset : ∀ r ∈ s.reset.readers, r.isOpen = false := by
    intro r hr
    simp only [Disk.reset, closeAllReaders] at hr
    obtain ⟨y, _, rfl⟩ := List.mem_map.mp hr
    rfl
  refine ⟨fun _ _ r hr => hreset r hr, fun hne r hr => ?_, fun id hne hid r hr => ?_, fun off r hr ha => ?_⟩
  · simp only [Disk.step, hne, if_false] at hr; exact hreset r hr
  · simp only [Disk.step, hne, hid, if_false] at hr
    have hr' : r ∈ s.closeAllForSwitch.rescan.readers := hr
    rw [(rescan_hist _).2.2] at hr'
    -- every reader was closed first; closing the live segment only closes more
    unfold Disk.closeAllForSwitch at hr'
    refine closeLive_readers_closed _ ?_ r hr'
    intro x hx
    rw [(dropWritingRdb_fields _).2.2.1] at hx
    have hx' : x ∈ closeAllReaders s.readers := hx
    simp only [closeAllReaders] at hx'
    obtain ⟨y, _, rfl⟩ := List.mem_map.mp hx'
    rfl
  · simp only [Disk.step, closeAofReaders] at hr
    obtain ⟨y, _, rfl⟩ := List.mem_map.mp hr
    by_cases hy : y.isAof = true
    · simp [hy, DReader.close]
    · simp [hy] at ha

/-- **nothing else closes a reader.** Appends, rotation, collector passes, reads,
    rotation steps of any reader, opening other readers and snapshot appends never
    close a reader: after any such step an open reader is still open. (The closing
    operations are exactly `closesReaders`: reset, id switch, writer replacement,
    the end of a writer, the reader's own close.) -/
theorem disk_reader_stays_open (l m : Nat) (ops : List DOp) (hwf : (Disk.init l m).wf ops) (op : DOp)
    (hop : closesReaders op = false) :
    let s := (Disk.init l m).run ops
    ∀ r ∈ s.readers, r.isOpen = true → ∃ r' ∈ (s.step op).1.readers, r'.id = r.id ∧ r'.isOpen = true :=
  fun r hr ho => reader_stays_open ((DInv.init l m).run ops hwf) op hr ho hop

/-- **keeps following (disk).** A valid stream reader that has not yet read
    everything that was appended can always take a step: either a read delivers
    at least one byte, or its rotation step is enabled (the next segment exists,
    and by `disk_gc_keeps_contiguous_suffix` + the reference it then holds it
    stays). -/
theorem disk_reader_progress (l m : Nat) (ops : List DOp) (hwf : (Disk.init l m).wf ops) :
    let s := (Disk.init l m).run ops
    ∀ r ∈ s.readers, r.isOpen = true → r.isAof = true → r.prev = none →
      r.pos < s.hbase + s.hist.length → ∀ n, 0 < n →
      (∃ bs, (s.read r.id n).2 = Out.data bs ∧ bs ≠ []) ∨ s.canAdvance r = true := by
  intro s r hr ho ha hp hlt n hn
  exact reader_progress ((DInv.init l m).run ops hwf) hr ho ha hp hlt n hn

/-- **valid_iff_readable (disk).** In every reachable state `IsValidOffset(off)`
    holds exactly when `GetReader(off)` finds something to read from (a stream
    segment covering `off`, or the snapshot for `off ≤ snapshot.left`). -/
theorem disk_valid_iff_readable (l m : Nat) (ops : List DOp) (hwf : (Disk.init l m).wf ops)
    (rid off : Nat) (hfresh : findReader ((Disk.init l m).run ops).readers rid = none) :
    ((Disk.init l m).run ops).inRange off = true ↔
      (((Disk.init l m).run ops).open rid off true).2 ≠ Out.notExist :=
  inRange_iff_open ((DInv.init l m).run ops hwf) rid off hfresh

/-- **snapshot_offered_iff_complete (disk).** `GetRdb` offers a snapshot exactly
    when one is indexed, and an indexed snapshot is either completely written and
    committed (all `size` bytes present) or still being written by a live writer
    (a writer that ends early takes the snapshot out of the index). -/
theorem disk_snapshot_offered_iff_complete (l m : Nat) (ops : List DOp) (hwf : (Disk.init l m).wf ops) :
    let s := (Disk.init l m).run ops
    s.getRdb ≠ (-1, -1) ↔
      ∃ r, s.rdb = some r ∧ ((r.final = true ∧ r.data.length = r.size) ∨ r.writing = true) :=
  getRdb_iff ((DInv.init l m).run ops hwf)

/-- **snapshot hands over to the stream.** Whenever a snapshot is indexed and
    stream segments are held, the snapshot's offset lies in an indexed segment: a
    consumer that replayed the snapshot can continue at `snapshot.left` without a hole. -/
theorem disk_snapshot_hands_over (l m : Nat) (ops : List DOp) (hwf : (Disk.init l m).wf ops) :
    let s := (Disk.init l m).run ops
    ∀ r, s.rdb = some r → s.all ≠ [] → s.inRange r.left = true ∧ (indexAof s.all r.left).isSome = true := by
  intro s r hr hne
  have hinv : DInv s := (DInv.init l m).run ops hwf
  have hidx := snapshot_hands_over hinv r hr hne
  refine ⟨?_, hidx⟩
  -- a fresh reader id always exists; use valid ⇔ readable backwards
  obtain ⟨g, hg⟩ := Option.isSome_iff_exists.mp hidx
  obtain ⟨_, hl, hrr⟩ := indexAof_some hg
  -- direct: the range contains r.left
  unfold Disk.inRange Disk.range
  cases hfl : firstLeft s.all with
  | none =>
    cases hall : s.all with
    | nil => exact absurd hall hne
    | cons a t => rw [hall] at hfl; simp [firstLeft] at hfl
  | some f =>
    cases hlr : lastRight s.all with
    | none => exact absurd (lastRight_eq_none.mp hlr) hne
    | some rr =>
      have hal := hinv.rdbAlign r f hr hfl
      have hgr : g.right ≤ rr := contig_right_le_last hinv.contig (indexAof_some hg).1 hlr
      simp only [hr, hfl, hlr]
      simp
      omega

/-- the collector drops the snapshot only when nothing references it (no reader
    is replaying it, no writer is writing it) -/
theorem disk_gc_drops_only_unreferenced_snapshot (s : Disk) (r : DRdb) (hr : s.rdb = some r)
    (hg : s.gc.rdb = none) : rdbRef s.readers r = 0 :=
  gc_snapshot_branch s r hr hg

/-! ### non-vacuity: a concrete history with rotation, collection and a reader
    that follows across segments -/

def exOps : List DOp :=
  [ .setRunId "id1", .newAofWriter 100,
    .aofAppend [1,2,3,4,5,6,7,8,9,10], .aofAppend [11,12,13,14,15,16,17,18,19,20],
    .openReader 0 103 false, .read 0 4,
    .aofAppend [21,22,23,24,25,26,27,28,29,30],
    .read 0 100, .advAcquire 0, .gc, .advRelease 0, .read 0 100, .gc, .read 0 5 ]

example : (Disk.init 24 12).wf exOps := by decide
example : (((Disk.init 24 12).run exOps).readers.map (fun r => (r.start, r.pos, r.out))) =
    [(103, 120, [4,5,6,7,8,9,10,11,12,13,14,15,16,17,18,19,20])] := by decide
example : ((Disk.init 24 12).run exOps).segs.map (·.left) = [110, 120] := by decide
example : ((Disk.init 24 12).run exOps).abs.base = 110 ∧
    ((Disk.init 24 12).run exOps).abs.bytes = [11,12,13,14,15,16,17,18,19,20,21,22,23,24,25,26,27,28,29,30] := by decide
-- the same id again (a source reconnect) leaves the open reader untouched; an id switch closes it
example : (((Disk.init 24 12).run (exOps ++ [.setRunId "id1"])).readers.map (·.isOpen)) = [true] := by decide
example : (((Disk.init 24 12).run (exOps ++ [.aofClose, .setRunId "id2"])).readers.map (·.isOpen)) = [false] ∧
    (Disk.init 24 12).wf (exOps ++ [.aofClose, .setRunId "id2"]) := by decide
example : ((Disk.init 24 12).run exOps).inRange 105 = false ∧ ((Disk.init 24 12).run exOps).inRange 125 = true := by decide

/-- non-vacuity of the snapshot theorems: a script with a snapshot (written in two
    chunks), a snapshot reader that replays it, the stream that follows at the
    snapshot's offset, rotation and a collector pass -/
def exSnapOps : List DOp :=
  [.setRunId "id1", .newRdbWriter 100 4, .rdbAppend [1, 2], .openReader 0 100 true, .read 0 2, .rdbAppend [3, 4],
   .read 0 8, .newAofWriter 100, .aofAppend [11, 12, 13, 14, 15, 16, 17, 18, 19], .aofAppend [20, 21], .gc]

example : (Disk.init 24 0).wf exSnapOps := by decide
example : ((Disk.init 24 0).run exSnapOps).getRdb = (100, 4) := by decide
example : (((Disk.init 24 0).run exSnapOps).readers.map (fun r => (r.isAof, r.isOpen, r.pos, r.out))) =
    [(false, true, 4, [1, 2, 3, 4])] := by decide
example : ((Disk.init 24 0).run exSnapOps).inRange 100 = true ∧ ((Disk.init 24 0).run exSnapOps).all ≠ [] := by decide


/-! ## Memory backend

    Two layers. (1) GLOBAL theorems over ARBITRARY operation lists (`List MOp`:
    writer appends of any size with rotation at any limit, capacity-blocked
    appends and their retries, writer close / replacement, snapshot writer,
    collector passes inside the appends, resets / id delete, reader open / start /
    every single iteration of a copy loop / consume / close, in any interleaving —
    NO hypothesis on the list), proved from the invariant `MemInv`
    (Proofs/StoreMemInv.lean: indexed segments contiguous and in written-history
    order, identities fresh and distinct, the writer's segment is the last one,
    every copy loop that holds an indexed segment is inside it and has written
    exactly the history's bytes `[start, pos)`, snapshot flags) and its
    preservation by every operation. (2) step-level facts that hold for every
    state. -/

/-- **mem_invariant.** The invariant holds after any operation list … -/
theorem mem_invariant (l m : Nat) (ops : List MOp) : MemInv ((Mem.init l m).run ops) :=
  run_inv _ ops (MemInv.init l m)

/-- … and is kept by the driver's settling (all copy loops run until blocked, blocked
    writers retry), i.e. in every state the correspondence harness compares. -/
theorem mem_invariant_settled (s : Mem) (h : MemInv s) : MemInv s.settle := settle_inv s h

/-- **mem_history_records_appends.** The ghost history is tied to the operations'
    INPUT and OUTPUT: one operation leaves it alone; or it is an `aofAppend chunk` that
    reports `.ok` and recorded the WHOLE chunk, or reports `.blocked n` and recorded
    exactly the first `n` bytes with the rest waiting in `pendA`; or it is the retry of
    such a blocked append and records a prefix of what was waiting (the rest keeps
    waiting, or nothing waits any more); or it is one of the three operations that
    start a new, empty history (`newRdbWriter`, `delRunId`, the first `newAofWriter`
    of a history). A writer that is closed or replaced while it is blocked loses the
    waiting bytes (`finishAof` clears `pendA`, as the code's `io.EOF`): they never
    enter the history. -/
theorem mem_history_records_appends (l m : Nat) (ops : List MOp) (op : MOp) :
    let s := (Mem.init l m).run ops
    ((s.step op).1.hbase = s.hbase ∧ (s.step op).1.hist = s.hist) ∨
    (∃ chunk, op = .aofAppend chunk ∧ (s.step op).1.hbase = s.hbase ∧
        (((s.step op).2 = .ok ∧ (s.step op).1.hist = s.hist ++ chunk) ∨
         (∃ n, (s.step op).2 = .blocked n ∧ (s.step op).1.hist = s.hist ++ chunk.take n ∧
            (s.step op).1.pendA = some (chunk.drop n)))) ∨
    (∃ buf k, op = .retryAppend ∧ s.pendA = some buf ∧ (s.step op).1.hbase = s.hbase ∧
        (s.step op).1.hist = s.hist ++ buf.take k ∧
        ((s.step op).1.pendA = some (buf.drop k) ∨ (s.step op).1.pendA = none)) ∨
    ((s.step op).1.hist = [] ∧ op.resetsHistory = true) :=
  step_hist _ op (mem_invariant l m ops)

/-- a writer that goes takes its blocked append with it (`finishAof`, reached from
    `aofClose` and from the replacement inside `newAofWriter`) -/
theorem mem_closed_writer_drops_pending (l m : Nat) (ops : List MOp) (cur : Nat) (isCurrent : Bool) :
    let s := (Mem.init l m).run ops
    (isCurrent = false → s.aofW ≠ some cur) → (s.finishAof cur isCurrent).pendA = none :=
  fun hw => (finishAof_inv _ cur isCurrent (mem_invariant l m ops) hw).2.2.2

/-- **mem_refines.** After ANY operation list, what the memory cache holds under
    its run id (`Mem.abs`: the newest contiguous run of indexed segments) is the
    suffix of the written history from its base — contiguous, in order, up to the
    last byte written. -/
theorem mem_refines (l m : Nat) (ops : List MOp) :
    let s := (Mem.init l m).run ops
    s.segs ≠ [] →
      s.abs.id = s.runId ∧ s.hbase ≤ s.abs.base ∧ s.abs.bytes = s.hist.drop (s.abs.base - s.hbase) ∧
      s.abs.base + s.abs.bytes.length = s.hbase + s.hist.length := by
  intro s hne
  exact ⟨rfl, mem_abs_bytes_eq s (mem_invariant l m ops) hne⟩

/-- the indexed segments are contiguous (the contiguous run IS the index) and carry distinct identities -/
theorem mem_index_contiguous (l m : Nat) (ops : List MOp) :
    let s := (Mem.init l m).run ops
    MContig s.segs ∧ s.runRev = s.segs.reverse ∧ (s.segs.map (·.sid)).Nodup :=
  let h := mem_invariant l m ops
  ⟨h.stream.contig, runRev_eq _ h, h.stream.nodup⟩

/-- **mem_reader_delivers.** After ANY operation list, every copy loop that still
    holds an indexed stream segment (it was not invalidated by a reset and has not
    returned) is inside that segment and has written to its pipe exactly the bytes
    appended at the offsets `[start, pos)` — contiguous, in order, nothing else. -/
theorem mem_reader_delivers (l m : Nat) (ops : List MOp) :
    let s := (Mem.init l m).run ops
    ∀ r ∈ s.readers, r.isAof = true → r.released = false → ∀ g ∈ s.segs, g.sid = r.seg →
      g.left ≤ r.pos ∧ r.pos ≤ g.right ∧ s.hbase ≤ r.start ∧ r.start ≤ r.pos ∧
      r.out = (s.hist.drop (r.start - s.hbase)).take (r.pos - r.start) := by
  intro s r hr ha hrel g hg hs
  have := ((mem_invariant l m ops).stream.readers r hr ha).2 hrel g hg hs
  exact ⟨this.inl, this.inr, this.base, this.ord, this.out⟩

/-- **mem_valid_iff_readable.** After ANY operation list: an offset is reported
    valid (`inRangeLocked`) exactly if a reader CAN BE OPENED there (fresh reader id).
    What kind of reader: a stream reader exactly at that offset when the log covers it
    (`mem_open_stream_reader`; what it then delivers is `mem_reader_delivers`), else a
    REPLAY OF THE OFFERED SNAPSHOT for an offset up to the snapshot's
    (`mem_valid_uncovered_is_snapshot_replay`). NOT claimed: that the log from the
    snapshot's offset on is held — after a replay the consumer stands at the snapshot's
    own offset, which is valid only while the log starts there or nothing is held
    (`mem_snapshot_offset_needs_handover`, a3509d3); otherwise the source is asked. -/
theorem mem_valid_iff_readable (l m : Nat) (ops : List MOp) (rid off : Nat) :
    let s := (Mem.init l m).run ops
    mFindReader s.readers rid = none →
      (s.inRange (off : Int) = true ↔ (s.open rid off).2 ≠ Out.notExist) :=
  fun hf => mem_inRange_iff_open _ (mem_invariant l m ops) rid off hf

/-- (named corollary of `Mem.open` + the index invariant) a stream reader opened there
    starts inside an indexed segment at exactly that offset with nothing delivered … -/
theorem mem_open_stream_reader (l m : Nat) (ops : List MOp) (rid off : Nat) :
    let s := (Mem.init l m).run ops
    (s.open rid off).2 = Out.aof off →
      ∃ r ∈ (s.open rid off).1.readers, r.id = rid ∧ r.isAof = true ∧ r.start = off ∧ r.pos = off ∧ r.out = [] ∧
        ∃ g ∈ s.segs, g.sid = r.seg ∧ g.left ≤ off ∧ off ≤ g.right := by
  intro s h
  have hinv := mem_invariant l m ops
  unfold Mem.open at h ⊢
  by_cases h1 : (mFindReader s.readers rid).isSome = true
  · simp [h1] at h
  · by_cases h2 : (!s.inRange (off : Int)) = true
    · simp [h1, h2] at h
    · simp only [h1, h2, if_false] at h ⊢
      cases hidx : s.indexAof off with
      | some g =>
        dsimp only
        obtain ⟨hg, hl, hr⟩ := mem_indexAof_some hinv.stream.contig hidx
        refine ⟨_, List.mem_append_right _ (List.mem_singleton.mpr rfl), rfl, rfl, rfl, rfl, rfl, g, hg, rfl, hl, hr⟩
      | none =>
        rw [hidx] at h
        dsimp only at h
        repeat' split at h
        all_goals cases h

/-- (named corollary: unfolds the a3509d3 clause of `Mem.inRange`, any state) the
    snapshot's own offset — the position a completed replay leaves — is valid only while
    the log starts there or nothing is held. -/
theorem mem_snapshot_offset_needs_handover (s : Mem) (rd : MRdb) (hro : s.rdbOffered = some rd)
    (hv : s.inRange (rd.left : Int) = true) : (s.indexAof rd.left).isSome = true ∨ s.segs = [] :=
  snapshot_offset_valid s rd hro hv

/-- (named corollary) a valid offset the log does not cover is served by a replay of the
    offered snapshot, and lies at or before the snapshot's offset -/
theorem mem_valid_uncovered_is_snapshot_replay (l m : Nat) (ops : List MOp) (rid off : Nat) :
    let s := (Mem.init l m).run ops
    mFindReader s.readers rid = none → s.inRange (off : Int) = true → s.indexAof off = none →
      ∃ rd, s.rdbOffered = some rd ∧ off ≤ rd.left ∧ (s.open rid off).2 = Out.rdb rd.left rd.size := by
  intro s hf hin hidx
  have hinv := mem_invariant l m ops
  have hne := (mem_inRange_iff_open s hinv rid off hf).mp hin
  unfold Mem.open at hne ⊢
  simp only [hf, Option.isSome_none, Bool.false_eq_true, if_false, hin, Bool.not_true, hidx] at hne ⊢
  cases hro : s.rdbOffered with
  | none => rw [hro] at hne; simp at hne
  | some rd =>
    rw [hro] at hne
    dsimp only at hne ⊢
    by_cases hle : off ≤ rd.left
    · simp only [hle, if_true] at hne ⊢
      cases hsg : rd.segs with
      | nil => rw [hsg] at hne; simp at hne
      | cons first rest => exact ⟨rd, rfl, hle, rfl⟩
    · simp [hle] at hne

/-- **mem_snapshot_offered_complete_or_live.** After ANY operation list, a snapshot
    that is offered (`GetRdb` ≠ (-1,-1)) is being received or was received
    completely, every byte received so far is held (nothing was collected), and it
    has a first segment to replay from. -/
theorem mem_snapshot_offered_complete_or_live (l m : Nat) (ops : List MOp) :
    let s := (Mem.init l m).run ops
    ∀ rd, s.rdbOffered = some rd →
      (rd.writing = true ∨ rd.size ≤ rd.written) ∧ mBuffered rd.segs = rd.written ∧ rd.segs ≠ [] :=
  fun rd h => offered_complete_or_live _ (mem_invariant l m ops) rd h

/-- **mem_snapshot_reader_delivers.** After ANY operation list, a copy loop that
    replays the OFFERED snapshot (it holds one of its segments and has not returned)
    is inside that segment and has written to its pipe exactly the first `pos` bytes
    the snapshot holds, in order. (The model has no ghost for the snapshot's SOURCE
    bytes: that the bytes held are the bytes received is the append step's
    definition + correspondence.) -/
theorem mem_snapshot_reader_delivers (l m : Nat) (ops : List MOp) :
    let s := (Mem.init l m).run ops
    ∀ rd, s.rdbOffered = some rd →
      ∀ r ∈ s.readers, r.isAof = false → r.released = false → ∀ g ∈ rd.segs, g.sid = r.seg →
        g.left ≤ r.pos ∧ r.pos ≤ g.right ∧ r.out = (mflat rd.segs).take r.pos :=
  fun rd hro => snapshot_reader_delivers ((FullInv.init l m).run ops) rd hro

/-- the offered snapshot's segments are contiguous from offset 0, chained by their
    `next` pointers, and hold exactly `written` bytes -/
theorem mem_snapshot_shape (l m : Nat) (ops : List MOp) :
    let s := (Mem.init l m).run ops
    ∀ rd, s.rdbOffered = some rd →
      MContig rd.segs ∧ Linked rd.segs ∧ (∀ first rest, rd.segs = first :: rest → first.left = 0) ∧
        (mflat rd.segs).length = rd.written :=
  fun rd hro => snapshot_shape ((FullInv.init l m).run ops) rd hro

/-- both invariants are kept by the driver's settling -/
theorem mem_full_invariant_settled (s : Mem) (h : FullInv s) : FullInv s.settle := h.settle

/-- **mem_refuses_discontinuous.** A stream writer that does not continue exactly
    where the held stream ends is refused and changes nothing … -/
theorem mem_refuses_discontinuous (s : Mem) (off r : Nat) (h : mLastRight s.segs = some r) (hne : r ≠ off) :
    s.step (.newAofWriter off) = (s, Out.refused) :=
  newAofWriter_refuses s off r h hne

/-- … and an accepted one continues at the end of what is held. -/
theorem mem_accepted_writer_is_continuous (s : Mem) (off r : Nat) (h : mLastRight s.segs = some r)
    (hok : (s.step (.newAofWriter off)).2 = Out.ok) : off = r :=
  newAofWriter_accepted s off r h hok

/-- **gc_keeps_contiguous_suffix (memory).** The collector removes a prefix of the
    stream segments only, and every removed segment is closed, unreferenced by any
    reader and not the writer's current segment. -/
theorem mem_gc_keeps_contiguous_suffix (s : Mem) (need : Nat) :
    ∃ pre, s.segs = pre ++ (s.gc need).segs ∧
      ∀ g ∈ pre, g.closed = true ∧ mRefs s.readers g.sid = 0 ∧ s.aofW ≠ some g.sid :=
  gc_prefix s need

/-- **snapshot_offered_iff_complete (memory), mechanism.** `GetRdb` offers a
    snapshot exactly while it is indexed and replayable; -/
theorem mem_snapshot_offered_iff_replayable (s : Mem) :
    s.getRdb ≠ (-1, -1) ↔ ∃ r, s.rdb = some r ∧ r.replayable = true :=
  getRdb_iff_offered s

/-- a snapshot whose writer ends is kept only if every announced byte was
    appended and the writer did not fail (repaired, D14); -/
theorem mem_finish_keeps_only_complete (s : Mem) (failed : Bool) (r : MRdb) (hr : s.rdb = some r)
    (hw : r.writing = true) :
    (s.finishRdb failed).rdb = none ∨
    (failed = false ∧ r.size ≤ r.written ∧
      ∃ r', (s.finishRdb failed).rdb = some r' ∧ r'.writing = false ∧ r'.written = r.written ∧ r'.size = r.size) :=
  finishRdb_keeps_only_complete s failed r hr hw

/-- and a snapshot that loses a segment to the collector stops being replayable
    (or disappears) in the same step. -/
theorem mem_collected_snapshot_not_offered (s s' : Mem) (h : s.gcRdb = some s') :
    s'.rdb = none ∨ ∃ r', s'.rdb = some r' ∧ r'.replayable = false := by
  obtain ⟨_, _, _, _, r, first, rest, _, _, _, _, hcase⟩ := gcRdb_spec h
  rcases hcase with h1 | ⟨r', h1, _, h2⟩
  · exact Or.inl h1
  · exact Or.inr ⟨r', h1, h2⟩

/-- **reader steps are faithful.** An iteration of a stream reader's copy loop
    that delivers bytes delivers exactly the rest of the segment it holds from
    its position on, and advances the position by that many bytes. -/
theorem mem_copy_step_faithful (s : Mem) (rid : Nat) (r : MReader) (g : MSeg)
    (hf : mFindReader s.readers rid = some r) (hrun : r.released = false) (hst : r.started = true)
    (hu : r.closedByUser = false) (ha : r.isAof = true) (hl : s.lookup r.seg = some g)
    (hpos : g.left ≤ r.pos) (hne : (g.data.drop (r.pos - g.left)) ≠ []) :
    (s.copyStep rid).1.readers = mSetReader s.readers
      { r with pos := r.pos + (g.data.drop (r.pos - g.left)).length,
               buf := r.buf ++ g.data.drop (r.pos - g.left),
               out := r.out ++ g.data.drop (r.pos - g.left) } :=
  copyStep_aof_faithful s rid r g hf hrun hst hu ha hl hpos hne

/-- **invalidated_reader_ends (memory).** A reset empties the index (every
    segment of the old history is closed and only reachable by the readers that
    hold it), and the successor of a segment is looked up by identity: a reader
    holding a segment that is not in the index finds no successor — it ends, it
    does not continue into a new history (repaired, D25). -/
theorem mem_reset_empties_index (s : Mem) : s.reset.segs = [] ∧ s.reset.rdb = none ∧ s.reset.aofW = none ∧
    ∀ g ∈ s.segs, ∃ g' ∈ s.reset.heap, g'.sid = g.sid ∧ g'.closed = true ∧ g'.data = g.data :=
  reset_index_empty s

theorem mem_stale_reader_has_no_successor (segs : List MSeg) (sid : Nat) (h : ∀ g ∈ segs, g.sid ≠ sid) :
    mNextOf segs sid = none :=
  mNextOf_none_of_not_mem segs sid h

/-- the full statement for the memory backend as it was announced before it was
    proved (kept under its name; `mem_reader_delivers` is the stronger form) -/
def mem_reader_delivers_stmt : Prop :=
  ∀ (l m : Nat) (ops : List MOp),
    let s := (Mem.init l m).run ops
    ∀ r ∈ s.readers, r.isAof = true → r.released = false → (∃ g ∈ s.segs, g.sid = r.seg) →
      s.hbase ≤ r.start ∧ r.start ≤ r.pos ∧
      r.out = (s.hist.drop (r.start - s.hbase)).take (r.pos - r.start)

theorem mem_reader_delivers_stmt_holds : mem_reader_delivers_stmt := by
  intro l m ops s r hr ha hrel hg
  obtain ⟨g, hg, hs⟩ := hg
  obtain ⟨_, _, h3, h4, h5⟩ := mem_reader_delivers l m ops r hr ha hrel g hg hs
  exact ⟨h3, h4, h5⟩

/-! ### non-vacuity (memory): rotation, collection with a pinned segment, a
    refused writer, a reader that follows across segments -/

def exMemOps : List MOp :=
  [ .setRunId "id1", .newAofWriter 100, .aofAppend [1,2,3,4,5,6,7,8],
    .openReader 0 102, .startReader 0, .copyStep 0,
    .aofAppend [9,10,11,12], .copyStep 0, .copyStep 0, .copyStep 0,
    .newAofWriter 999, .aofAppend [13,14,15,16,17,18,19,20], .copyStep 0, .consume 0 100 ]

example : (((Mem.init 8 16).run exMemOps).segs.map (fun g => (g.left, g.data.length, g.closed))) =
    [(108, 8, true), (116, 4, false)] := by decide
example : (((Mem.init 8 16).run exMemOps).readers.map (fun r => (r.start, r.pos, r.out))) =
    [(102, 116, [3,4,5,6,7,8,9,10,11,12,13,14,15,16])] := by decide
-- the discontinuous writer (offset 999, held stream ends at 112) is refused
example : (((Mem.init 8 16).run (exMemOps.take 10)).step (.newAofWriter 999)).2 = Out.refused := by decide

/-! ### non-vacuity of the global memory theorems: rotation, an append blocked on
    capacity by a LAGGING reader that pins the oldest segment, the collector, a
    reset (new snapshot) that invalidates both readers, a new history with an
    offered snapshot and a reader on it -/

def exMemOps2 : List MOp :=
  [ .setRunId "id1", .newAofWriter 100, .aofAppend [1,2,3,4,5,6,7,8],
    .openReader 0 100, .startReader 0, .copyStep 0,
    .aofAppend [9,10,11,12,13,14,15,16],
    .openReader 1 104, .startReader 1,
    .copyStep 0, .copyStep 0,
    .aofAppend [17,18,19,20,21,22,23,24],
    .copyStep 1, .copyStep 1, .copyStep 1, .retryAppend,
    .copyStep 0, .copyStep 0,
    .newRdbWriter 500 4, .copyStep 0, .copyStep 1,
    .rdbAppend [7,7,7,7], .newAofWriter 500, .aofAppend [31,32,33], .openReader 2 500, .startReader 2, .copyStep 2 ]

-- the third append is blocked: reader 1 never ran and pins the first segment
example : (((Mem.init 8 16).run (exMemOps2.take 12)).segs.map (fun g => (g.sid, g.left, g.data.length, g.closed)),
    ((Mem.init 8 16).run (exMemOps2.take 12)).pendA) =
    ([(0, 100, 8, true), (1, 108, 8, true), (2, 116, 0, false)], some [17,18,19,20,21,22,23,24]) := by decide
-- reader 1 moves on, the retry collects the first segment and appends
example : (((Mem.init 8 16).run (exMemOps2.take 16)).segs.map (fun g => (g.sid, g.left, g.data.length, g.closed)),
    ((Mem.init 8 16).run (exMemOps2.take 16)).pendA, ((Mem.init 8 16).run (exMemOps2.take 16)).hbase) =
    ([(1, 108, 8, true), (2, 116, 8, false)], none, 100) := by decide
-- both readers hold indexed segments and have delivered exactly the history's bytes
example : (((Mem.init 8 16).run (exMemOps2.take 18)).readers.map (fun r => (r.id, r.start, r.pos, r.out, r.released))) =
    [(0, 100, 124, [1,2,3,4,5,6,7,8,9,10,11,12,13,14,15,16,17,18,19,20,21,22,23,24], false),
     (1, 104, 116, [5,6,7,8,9,10,11,12,13,14,15,16], false)] := by decide
-- after the reset: the old readers have ended, the new history has its own base, the snapshot is offered
example : (((Mem.init 8 16).run exMemOps2).readers.map (fun r => (r.id, r.start, r.pos, r.out, r.released))) =
    [(0, 100, 124, [1,2,3,4,5,6,7,8,9,10,11,12,13,14,15,16,17,18,19,20,21,22,23,24], true),
     (1, 104, 116, [5,6,7,8,9,10,11,12,13,14,15,16], true),
     (2, 500, 503, [31,32,33], false)] := by decide
example : (((Mem.init 8 16).run exMemOps2).hbase, ((Mem.init 8 16).run exMemOps2).hist,
    ((Mem.init 8 16).run exMemOps2).getRdb) = (500, [31,32,33], (500, 4)) := by decide

-- a snapshot reader that follows the snapshot WHILE it is received, across a rotation
def exMemSnapOps : List MOp :=
  [ .setRunId "id1", .newRdbWriter 500 6, .rdbAppend [7,8,9], .openReader 0 400, .startReader 0, .copyStep 0,
    .rdbAppend [10,11,12], .copyStep 0, .copyStep 0, .copyStep 0 ]

example : ((Mem.init 4 0).run exMemSnapOps).readers.map (fun r => (r.isAof, r.seg, r.pos, r.out, r.released)) =
    [(false, 1, 6, [7,8,9,10,11,12], false)] := by decide
example : ((Mem.init 4 0).run exMemSnapOps).getRdb = (500, 6) := by decide
example : (((Mem.init 4 0).run exMemSnapOps).rdb.map (fun rd => rd.segs.map (fun g => (g.sid, g.left, g.data, g.next)))) =
    some [(0, 0, [7,8,9,10], some 1), (1, 4, [11,12], none)] := by decide

end GunYu.Props.C05
