/-
  C13 — "the exchange quiesces", for EVERY fair schedule (session 5).

  `drain_reaches` / `drain_reaches_global` (Props/C13.lean) say that a finite
  drain EXISTS. The theorems here say what the property means by "the exchange
  quiesces": whatever order the two links take their steps in - as long as each
  of them keeps stepping - the exchange ends, and it ends after a number of
  steps known in advance: link `s` needs exactly `needOf w s` of its own steps
  (the distance from its read position to just past its last pending client
  block; 0 for a stopped link), the other link's steps neither help nor hurt.
-/
import GunYu.Props.C13
import GunYu.Proofs.BisyncFair

namespace GunYu.Props.C13
open GunYu GunYu.BisyncUnit GunYu.Bisync

/-- **Work left never grows and each link pays only for itself.** From any
    reachable world, over ANY finite sequence of link steps (any order, any
    commit arguments), the work link `s` has left is at most what it had minus
    the number of steps `s` took. -/
theorem drain_work_bound (cfg : WCfg) (hf : FOK cfg.parser.filter) (cpAB cpBA : Bytes)
    (evs : List Ev) (hgood : GoodRun cfg (World.init cpAB cpBA) evs) (more : List Ev) (hl : ∀ e ∈ more, e.isLink)
    (s : SiteId) :
    let w := runWorld cfg (World.init cpAB cpBA) evs
    needOf (runWorld cfg w more) s ≤ needOf w s - stepsOf s more :=
  needOf_run_le cfg hf more _ (run_preserves cfg hf evs _ (winv_init cfg cpAB cpBA) hgood) hl s

/-- **Every fair schedule drains.** From any reachable world, along ANY infinite
    schedule of link steps in which each link steps again and again (`Fair`; the
    order and the commit arguments are arbitrary), there is an index `N` such
    that every longer prefix of the schedule leaves both links settled (stopped
    on a builder error, or nothing left to read that is owed a commit), and
    nothing moves after `N`: both streams, the commit log and the emitted units
    are those of the prefix of length `N`. -/
theorem every_fair_schedule_drains (cfg : WCfg) (hf : FOK cfg.parser.filter) (cpAB cpBA : Bytes)
    (evs : List Ev) (hgood : GoodRun cfg (World.init cpAB cpBA) evs)
    (sched : Nat → SiteId × CommitArg) (hfair : Fair sched) :
    let w := runWorld cfg (World.init cpAB cpBA) evs
    ∃ N, ∀ n, N ≤ n →
      (∀ s, Settled (runWorld cfg w (schedPrefix sched n)) s) ∧
      (runWorld cfg w (schedPrefix sched n)).a.stream = (runWorld cfg w (schedPrefix sched N)).a.stream ∧
      (runWorld cfg w (schedPrefix sched n)).b.stream = (runWorld cfg w (schedPrefix sched N)).b.stream ∧
      (runWorld cfg w (schedPrefix sched n)).commits = (runWorld cfg w (schedPrefix sched N)).commits ∧
      ∀ s, ((runWorld cfg w (schedPrefix sched n)).link s).emitted = ((runWorld cfg w (schedPrefix sched N)).link s).emitted :=
  fair_schedule_drains cfg hf _ (run_preserves cfg hf evs _ (winv_init cfg cpAB cpBA) hgood) sched hfair

/-- … and a finite schedule is long enough as soon as each link takes as many
    steps as it has work left: the bound is explicit, not merely existent. -/
theorem enough_steps_drain (cfg : WCfg) (hf : FOK cfg.parser.filter) (cpAB cpBA : Bytes)
    (evs : List Ev) (hgood : GoodRun cfg (World.init cpAB cpBA) evs) (more : List Ev) (hl : ∀ e ∈ more, e.isLink) :
    let w := runWorld cfg (World.init cpAB cpBA) evs
    (∀ s, needOf w s ≤ stepsOf s more) → ∀ s, Settled (runWorld cfg w more) s :=
  fun hen => enough_steps_settle cfg hf more _ (run_preserves cfg hf evs _ (winv_init cfg cpAB cpBA) hgood) hl hen

/-- **Every fair schedule drains — the global form.** As
    `every_fair_schedule_drains`, from the worlds of `no_loop_no_false_suppression`:
    two sites holding any data (`NsTtl`), brace-free checkpoint names, ANY list
    of events satisfying a condition on the event alone, restarts included as
    long as they are exact (sync mode). -/
theorem every_fair_schedule_drains_global (cfg : WCfg) (hf : FOK cfg.parser.filter) (cpAB cpBA : Bytes)
    (sa sb : Store) (na nb : Nat)
    (hab : Slot.lbrace ∉ cpAB) (hba : Slot.lbrace ∉ cpBA) (ha : NsTtl sa) (hb : NsTtl sb)
    (evs : List Ev) (hgood : GoodEvents cfg evs)
    (hexact : ExactRestarts cfg (World.initWith cpAB cpBA sa sb na nb) evs)
    (sched : Nat → SiteId × CommitArg) (hfair : Fair sched) :
    let w := runWorld cfg (World.initWith cpAB cpBA sa sb na nb) evs
    ∃ N, ∀ n, N ≤ n →
      (∀ s, Settled (runWorld cfg w (schedPrefix sched n)) s) ∧
      (runWorld cfg w (schedPrefix sched n)).a.stream = (runWorld cfg w (schedPrefix sched N)).a.stream ∧
      (runWorld cfg w (schedPrefix sched n)).b.stream = (runWorld cfg w (schedPrefix sched N)).b.stream ∧
      (runWorld cfg w (schedPrefix sched n)).commits = (runWorld cfg w (schedPrefix sched N)).commits ∧
      ∀ s, ((runWorld cfg w (schedPrefix sched n)).link s).emitted = ((runWorld cfg w (schedPrefix sched N)).link s).emitted :=
  fair_schedule_drains cfg hf _
    (grun cfg hf evs _ (ginv_initWith cfg cpAB cpBA sa sb na nb hab hba ha hb) hgood hexact).winv sched hfair

/-! ### non-vacuity: two writes at A, one at B, nothing forwarded yet; the
    alternating schedule B, A, B, A, … -/

private def wcfgD : WCfg :=
  { redisA := ⟨false, true, true⟩, redisB := ⟨false, true, true⟩,
    parser := ⟨Filter.buildOutput {}, standaloneMode, defaultResolver⟩ }
private def incrD : Cmd := ⟨[105,110,99,114,98,121], [[110,48], [53]]⟩     -- incrby n0 5
private def argD : CommitArg := ⟨.latest, [123,125], [[102],[118]]⟩
private def histD : List Ev := [.client .A false [incrD], .client .A true [incrD, incrD], .client .B false [incrD]]
private def altSched : Nat → SiteId × CommitArg := fun n => (if n % 2 = 0 then .B else .A, argD)

private theorem incrD_ok : ClientOK wcfgD.parser incrD where
  safe := ⟨by decide, by decide, by decide⟩
  notPing := by decide
  notPublish := by decide
  notBlack := by decide +kernel
  args := by
    intro a ha
    have : a = [110,48] ∨ a = [53] := by simpa [incrD] using ha
    rcases this with rfl | rfl <;> exact word_not_res _ (by decide)

private theorem histD_good : GoodRun wcfgD (World.init [99,112,49] [99,112,50]) histD := by
  have h1 : ∀ c ∈ [incrD], ClientOK wcfgD.parser c := fun c hc => by rw [List.mem_singleton.mp hc]; exact incrD_ok
  have h2 : ∀ c ∈ [incrD, incrD], ClientOK wcfgD.parser c := by
    intro c hc
    have : c = incrD := by simpa using hc
    rw [this]; exact incrD_ok
  exact ⟨h1, h2, h1, trivial⟩

private theorem altSched_fair : Fair altSched := by
  intro s n
  rcases Nat.mod_two_eq_zero_or_one n with h | h
  · cases s
    · refine ⟨n + 1, by omega, ?_⟩
      show (if (n + 1) % 2 = 0 then SiteId.B else SiteId.A) = SiteId.A
      rw [if_neg (by omega)]
    · refine ⟨n, Nat.le_refl _, ?_⟩
      show (if n % 2 = 0 then SiteId.B else SiteId.A) = SiteId.B
      rw [if_pos h]
  · cases s
    · refine ⟨n, Nat.le_refl _, ?_⟩
      show (if n % 2 = 0 then SiteId.B else SiteId.A) = SiteId.A
      rw [if_neg (by omega)]
    · refine ⟨n + 1, by omega, ?_⟩
      show (if (n + 1) % 2 = 0 then SiteId.B else SiteId.A) = SiteId.B
      rw [if_pos (by omega)]

-- work left before the drain: link A has two client blocks to forward, link B one
example : (needOf (runWorld wcfgD (World.init [99,112,49] [99,112,50]) histD) .A,
           needOf (runWorld wcfgD (World.init [99,112,49] [99,112,50]) histD) .B) = (2, 1) := by decide +kernel
-- three steps of the alternating schedule (B, A, B) are NOT enough (A has taken one step of two) …
example : needOf (runWorld wcfgD (runWorld wcfgD (World.init [99,112,49] [99,112,50]) histD) (schedPrefix altSched 3)) .A = 1 := by
  decide +kernel
-- … four are: three commits, each client block once, and the blocks the links wrote are never owed a commit
example : (needOf (runWorld wcfgD (runWorld wcfgD (World.init [99,112,49] [99,112,50]) histD) (schedPrefix altSched 4)) .A,
           needOf (runWorld wcfgD (runWorld wcfgD (World.init [99,112,49] [99,112,50]) histD) (schedPrefix altSched 4)) .B,
           (runWorld wcfgD (runWorld wcfgD (World.init [99,112,49] [99,112,50]) histD) (schedPrefix altSched 4)).commits.map (·.1)) =
    (0, 0, [.foreign 2, .foreign 0, .foreign 1]) := by decide +kernel
-- the theorem applied to that world and schedule
example : ∃ N, ∀ n, N ≤ n → ∀ s,
    Settled (runWorld wcfgD (runWorld wcfgD (World.init [99,112,49] [99,112,50]) histD) (schedPrefix altSched n)) s := by
  obtain ⟨N, h⟩ := every_fair_schedule_drains wcfgD default_filter_ok [99,112,49] [99,112,50] histD histD_good altSched altSched_fair
  exact ⟨N, fun n hn => (h n hn).1⟩

end GunYu.Props.C13
