/-
  C17 — the preconditions of the safety theorems of Props/C17.lean are INVARIANTS OF THE WRITERS.

  `Reach ver true t c`: the bookkeeping state `t` (control state `c`, Proofs/BookGood.lean `Ctl`) is
  reached from the EMPTY target by
    seed       the first start (`UpdateCheckpoint` on nothing) and the first `setCheckpoint` (SetCheckpoint
               on a new connection, after the snapshot replay),
    life       a sender session (Model/BookSys.lean `lifeReqs`: the HSETs `sendCmdsBatch` issues, in the
               database the target executes them in), the target dying after ANY number of requests on
               the wire; the stream is what the sender's theorems assume (`LifeHyp`),
    session    a sender session WITH gc passes beside it (`sessionRun`: the cron of the replaying process):
               the wire log executed piece by piece, after a piece a gc pass stopped after ANY number of its
               requests, the session going on with what it remembers (`good_session`; the proof needs that
               gc keeps the `_runid` field of a live id — the D24 repair),
    start      `syncer.updateCheckpoint`: `UpdateCheckpoint(loc, ids ordered by the hash)`, stopped after ANY
               number of its requests (an error reply = a stop); `loc` = the current key, the key a cut
               rename wrote to, or a name never used,
    relabel    `RedisOutput.SetRunId`: `UpdateCheckpoint(key, [master id, cfg.RunId])`, stopped after ANY number
               of its requests (retries = further `relabel` steps),
    gc         a pass of `gcStaleCp`, stopped after ANY number of its requests, any threshold, any
               database orders; the live set contains the two reported ids,
    failover / newSecond   the source reports a new master id (never used on this target) / a new second id,
    crash      the process stops.
  `reach_good`: every such state satisfies `Good`, hence (with hypotheses on NOTHING but reachability)
    `reach_position`      one database holds the STRICTLY largest offset of the reported ids, with a run id:
                          what the next start reads; no tie between databases is reachable (`reach_no_tie`),
    `reach_updPre_*`, `reach_gcPre`, `reach_solo`   the hypotheses `UpdPre` / `GcPre` / `Solo` + `RunidOwn` of
                          `update_prefix_safe` … `gc_spares_live_id` hold,
    `reach_start_safe`, `reach_relabel_safe`, `reach_gc_safe`, `reach_gc_spares_label`   the C17 statements themselves.
  The sender's part is IMPORTED (Props.C02 `crash_resume_db_resumed`, Props.C02Lives `crash_cut_resumed`,
  Props.C07 `cp_offset_has_runid`) through the refinement Proofs/BookAbs.lean.
-/
import GunYu.Props.C17
import GunYu.Proofs.BookSession
import GunYu.Proofs.BookBare

namespace GunYu.Props.C17
open GunYu GunYu.Checkpoint GunYu.BookSys

/-- `INFO keyspace` lists every database in which the key exists -/
def Lists (o : List Nat) (t : Checkpoint.Target) (key : Bytes) : Prop := ∀ db, t.cps db key ≠ [] → db ∈ o

inductive Reach (ver : Bytes) : Bool → Checkpoint.Target → Ctl → Prop
  | seed (loc A z : Bytes) (hA0 : A ≠ []) (hAq : A ≠ qmark) (hz : A ≠ z) (hzq : z ≠ qmark) (hz0 : z ≠ []) (hloc : loc ≠ [])
      (o1 o2 : List Nat) (now now' X0 : Int) (hnow : -(2^63 : Int) ≤ now ∧ now < 2^63)
      (hnow' : -(2^63 : Int) ≤ now' ∧ now' < 2^63) (hX0 : 0 ≤ X0 ∧ X0 < 2^63) :
      Reach ver true (seedTarget ver loc A z o1 o2 now now' X0) (seedCtl loc A z)
  | life {t : Checkpoint.Target} {c : Ctl} (h : Reach ver true t c) (hl : c.lab = c.mas) (hup : c.up = true)
      (X : Int) (d : Nat) (oS : List Nat) (hoS : Lists oS t c.key)
      (hsp : startPoint ver [c.mas, c.sec] oS t = some (some (X, d)))
      (pc : Sender.PCfg) (sc : Sender.SCfg) (raws : List Sender.Raw) (evs : List Sender.Ev)
      (H : LifeHyp pc sc raws X (d : Int) evs) (k : Nat)
      (hhi : ∀ w ∈ logTrace {} ((Sender.run sc Sender.initS evs).2.flatten.take k),
        ∀ o, w.2 = BkW.off o → o < 2^63) :
      Reach ver true (applyAll t (lifeReqs c.key c.mas ver ((Sender.run sc Sender.initS evs).2.flatten.take k))) c
  | session {t : Checkpoint.Target} {c : Ctl} (h : Reach ver true t c) (hl : c.lab = c.mas) (hup : c.up = true)
      (X : Int) (d : Nat) (oS : List Nat) (hoS : Lists oS t c.key)
      (hsp : startPoint ver [c.mas, c.sec] oS t = some (some (X, d)))
      (pc : Sender.PCfg) (sc : Sender.SCfg) (raws : List Sender.Raw) (evs : List Sender.Ev)
      (H : LifeHyp pc sc raws X (d : Int) evs)
      (hhi : ∀ o ∈ Target.cpReqs (fullLog sc evs), o < 2^63)
      (sched : List (Nat × Option GcPass)) (hok : SchedOK c.mas c.sec {} (fullLog sc evs) sched) :
      Reach ver true (sessionRun c.key c.mas ver {} t (fullLog sc evs) sched) c
  | start {t : Checkpoint.Target} {c : Ctl} (h : Reach ver true t c) (loc : Bytes) (hloc0 : loc ≠ [])
      (hloc : loc = c.key ∨ c.pend = some loc ∨ loc ∉ c.names) (o1 o2 : List Nat) (ho1 : Lists o1 t c.key)
      (now : Int) (hnow : -(2^63 : Int) ≤ now ∧ now < 2^63) (k : Nat) :
      Reach ver true (applyAll t ((updateReqs ver t loc (startIds t.hash [c.mas, c.sec]) o1 o2 now).take k))
        (startCtl c loc k (updateReqs ver t loc (startIds t.hash [c.mas, c.sec]) o1 o2 now).length)
  | relabel {t : Checkpoint.Target} {c : Ctl} (h : Reach ver true t c) (hl : c.lab ≠ c.mas) (hup : c.up = true)
      (o1 o2 : List Nat) (ho1 : Lists o1 t c.key) (now : Int) (hnow : -(2^63 : Int) ≤ now ∧ now < 2^63) (k : Nat) :
      Reach ver true (applyAll t ((updateReqs ver t c.key [c.mas, c.lab] o1 o2 now).take k)) (relabelCtl c k)
  | gc {t : Checkpoint.Target} {c : Ctl} (h : Reach ver true t c) (live : List Bytes) (h1 : c.mas ∈ live)
      (h2 : c.sec ∈ live) (before : Int) (orders : List (List Nat)) (k : Nat) :
      Reach ver true (applyAll t ((gcReqs t live before orders).take k)) c
  | failover {t : Checkpoint.Target} {c : Ctl} (h : Reach ver true t c) (hl : c.lab = c.mas) (N' : Bytes)
      (hN : N' ∉ c.ids) (hN0 : N' ≠ []) (hNq : N' ≠ qmark) :
      Reach ver true t { c with mas := N', sec := c.mas, ids := N' :: c.ids }
  | newSecond {t : Checkpoint.Target} {c : Ctl} (h : Reach ver true t c) (hl : c.lab = c.mas) (z : Bytes)
      (hz : z ∉ c.ids) (hzq : z ≠ qmark) (hz0 : z ≠ []) :
      Reach ver true t { c with sec := z, ids := z :: c.ids }
  | crash {t : Checkpoint.Target} {c : Ctl} (h : Reach ver true t c) : Reach ver true t { c with up := false }
  /-- `ResetStartPoint` (the source answered FULLRESYNC), complete: the position is deleted on purpose -/
  | reset {t : Checkpoint.Target} {c : Ctl} (h : Reach ver true t c) (hup : c.up = true) (order : List Nat)
      (hord : Lists order t c.key) :
      Reach ver false (applyAll t (resetReqs t c.key c.lab [c.mas, c.sec] order)) c
  /-- `SetRunId(master id)` on a target without a position (the `dbid < 0` branch), stopped anywhere -/
  | relabelB {t : Checkpoint.Target} {c : Ctl} (h : Reach ver false t c) (hl : c.lab ≠ c.mas) (hup : c.up = true)
      (o1 o2 : List Nat) (now : Int) (hnow : -(2^63 : Int) ≤ now ∧ now < 2^63) (k : Nat) :
      Reach ver false (applyAll t ((updateReqs ver t c.key [c.mas, c.lab] o1 o2 now).take k)) (relabelCtl c k)
  | gcB {t : Checkpoint.Target} {c : Ctl} (h : Reach ver false t c) (live : List Bytes) (h1 : c.mas ∈ live)
      (h2 : c.sec ∈ live) (before : Int) (orders : List (List Nat)) (k : Nat) :
      Reach ver false (applyAll t ((gcReqs t live before orders).take k)) c
  | crashB {t : Checkpoint.Target} {c : Ctl} (h : Reach ver false t c) : Reach ver false t { c with up := false }
  /-- the start of the next process with the same key name (nothing to do) -/
  | startB {t : Checkpoint.Target} {c : Ctl} (h : Reach ver false t c) (o1 o2 : List Nat) (now : Int) :
      Reach ver false (applyAll t (updateReqs ver t c.key (startIds t.hash [c.mas, c.sec]) o1 o2 now)) { c with up := true }
  /-- `setCheckpoint` after the snapshot replay: the position of the new history -/
  | reseed {t : Checkpoint.Target} {c : Ctl} (h : Reach ver false t c) (hl : c.lab = c.mas) (hup : c.up = true)
      (X0 now : Int) (hX0 : 0 ≤ X0 ∧ X0 < 2^63) (hnow : -(2^63 : Int) ≤ now ∧ now < 2^63) :
      Reach ver true (applyReq t (seedReq c.key c.mas ver X0 now)) c

theorem good_startPoint (ver : Bytes) {t : Checkpoint.Target} {c : Ctl} {X : Int} {d : Nat} (G : Good t c X d)
    (oS : List Nat) (hoS : d ∈ oS) : startPoint ver [c.mas, c.sec] oS t = some (some (X, d)) :=
  startPoint_of_holds ver G.hashEq G.ctl.key0 G.holds oS hoS

theorem bare_up {t : Checkpoint.Target} {c : Ctl} (B : Bare t c) : Bare t { c with up := true } := by
  obtain ⟨C, hp, h1, h2, h3, h4, h5, h6⟩ := B
  exact ⟨⟨C.hne, C.m0, C.mq, C.sq, C.lab, C.l0, C.key0, C.keyIn, C.masIn, C.secIn, fun _ => hp, C.s0⟩,
    hp, h1, h2, h3, h4, h5, h6⟩

/-- **Every reachable state satisfies the invariant**: `Good` for a position when it has one, `Bare` between a
    `ResetStartPoint` and the next `setCheckpoint`. -/
theorem reach_inv (ver : Bytes) {b : Bool} {t : Checkpoint.Target} {c : Ctl} (h : Reach ver b t c) :
    (b = true → ∃ X d, Good t c X d) ∧ (b = false → Bare t c) := by
  induction h with
  | seed loc A z hA0 hAq hz hzq hz0 hloc o1 o2 now now' X0 hnow hnow' hX0 =>
    exact ⟨fun _ => ⟨X0, 0, good_seed ver loc A z hA0 hAq hz hzq hz0 hloc o1 o2 now now' X0 hnow hnow' hX0⟩, fun h => by cases h⟩
  | @life t c _ hl hup X d oS hoS hsp pc sc raws evs H k hhi ih =>
    refine ⟨fun _ => ?_, fun h => by cases h⟩
    obtain ⟨X0, d0, G⟩ := ih.1 rfl
    have := good_startPoint ver G oS (hoS d0 G.nonempty)
    rw [hsp] at this
    injection this with this; injection this with this; injection this with hX hd
    subst hX; subst hd
    obtain ⟨Y, d', _, G'⟩ := good_life ver G hl (G.ctl.upk hup) pc sc raws evs H k hhi
    exact ⟨Y, d', G'⟩
  | @session t c _ hl hup X d oS hoS hsp pc sc raws evs H hhi sched hok ih =>
    refine ⟨fun _ => ?_, fun h => by cases h⟩
    obtain ⟨X0, d0, G⟩ := ih.1 rfl
    have := good_startPoint ver G oS (hoS d0 G.nonempty)
    rw [hsp] at this
    injection this with this; injection this with this; injection this with hX hd
    subst hX; subst hd
    obtain ⟨Y, d', _, G'⟩ := good_session ver G hl (G.ctl.upk hup) pc sc raws evs H hhi sched hok
    exact ⟨Y, d', G'⟩
  | @start t c _ loc hloc0 hloc o1 o2 ho1 now hnow k ih =>
    refine ⟨fun _ => ?_, fun h => by cases h⟩
    obtain ⟨X, d, G⟩ := ih.1 rfl
    exact ⟨X, d, good_start ver G loc hloc0 hloc o1 o2 (ho1 d G.nonempty) now hnow k⟩
  | @relabel t c _ hl hup o1 o2 ho1 now hnow k ih =>
    refine ⟨fun _ => ?_, fun h => by cases h⟩
    obtain ⟨X, d, G⟩ := ih.1 rfl
    have hls : c.lab = c.sec := by rcases G.ctl.lab with h | h; exact absurd h hl; exact h
    rw [hls]
    exact ⟨X, d, good_relabel ver G hl (G.ctl.upk hup) o1 o2 (ho1 d G.nonempty) now hnow k⟩
  | @gc t c _ live h1 h2 before orders k ih =>
    refine ⟨fun _ => ?_, fun h => by cases h⟩
    obtain ⟨X, d, G⟩ := ih.1 rfl
    exact ⟨X, d, good_gc G live h1 h2 before orders k⟩
  | @failover t c _ hl N' hN hN0 hNq ih =>
    refine ⟨fun _ => ?_, fun h => by cases h⟩
    obtain ⟨X, d, G⟩ := ih.1 rfl
    exact ⟨X, d, good_failover G hl N' hN hN0 hNq⟩
  | @newSecond t c _ hl z hz hzq hz0 ih =>
    refine ⟨fun _ => ?_, fun h => by cases h⟩
    obtain ⟨X, d, G⟩ := ih.1 rfl
    exact ⟨X, d, good_newSecond G hl z hz hzq hz0⟩
  | @crash t c _ ih =>
    refine ⟨fun _ => ?_, fun h => by cases h⟩
    obtain ⟨X, d, G⟩ := ih.1 rfl
    exact ⟨X, d, good_crash G⟩
  | @reset t c _ hup order hord ih =>
    refine ⟨(fun h => by cases h), fun _ => ?_⟩
    obtain ⟨X, d, G⟩ := ih.1 rfl
    exact good_reset G (G.ctl.upk hup) order hord
  | @relabelB t c _ hl hup o1 o2 now hnow k ih =>
    refine ⟨(fun h => by cases h), fun _ => ?_⟩
    have B := ih.2 rfl
    have hls : c.lab = c.sec := by rcases B.ctl.lab with h | h; exact absurd h hl; exact h
    rw [hls]
    exact bare_relabel ver B hl o1 o2 now hnow k
  | @gcB t c _ live h1 h2 before orders k ih =>
    exact ⟨(fun h => by cases h), fun _ => bare_gc (ih.2 rfl) live h1 h2 before orders k⟩
  | @crashB t c _ ih => exact ⟨(fun h => by cases h), fun _ => bare_crash (ih.2 rfl)⟩
  | @startB t c _ o1 o2 now ih =>
    refine ⟨(fun h => by cases h), fun _ => ?_⟩
    rw [bare_start_noop ver (ih.2 rfl)]
    exact bare_up (ih.2 rfl)
  | @reseed t c _ hl hup X0 now hX0 hnow ih =>
    exact ⟨fun _ => ⟨X0, 0, good_reseed ver (ih.2 rfl) hl X0 now hX0 hnow⟩, fun h => by cases h⟩

theorem reach_good (ver : Bytes) {t : Checkpoint.Target} {c : Ctl} (h : Reach ver true t c) :
    ∃ X d, Good t c X d := (reach_inv ver h).1 rfl

/-- a state between `ResetStartPoint` and the next `setCheckpoint` holds NO position: the next start reads
    none ("none only if none existed": it was deleted on purpose), whatever the writers did in between -/
theorem reach_bare_no_position (ver : Bytes) {t : Checkpoint.Target} {c : Ctl} (h : Reach ver false t c)
    (oS : List Nat) : ∃ r, startPoint ver [c.mas, c.sec] oS t = some r ∧ ∀ X d, r = some (X, d) → X = -1 := by
  have B := (reach_inv ver h).2 rfl
  have hh : getHash t.hash [c.mas, c.sec] = some (c.key, c.lab) := by
    rcases B.ctl.lab with h | h
    · rw [h]; exact getHash_of_first (h ▸ B.hashL) B.ctl.key0
    · by_cases hm : c.lab = c.mas
      · rw [hm]; exact getHash_of_first (hm ▸ B.hashL) B.ctl.key0
      · rw [h]; exact getHash_of_second (B.hashM hm) (h ▸ B.hashL)
  obtain ⟨cpKv, dbid, hgc, hoff, _⟩ := getCheckpoint_bare ver B oS
  unfold startPoint
  simp only [hh, B.ctl.key0, if_false, hgc]
  split
  · exact ⟨none, rfl, fun X d h => by cases h⟩
  · exact ⟨_, rfl, fun X d h => by injection h with h; injection h with h _; rw [← h, hoff]⟩

/-! ### what reachability alone gives -/

/-- In every reachable state ONE database `d` holds the position: the checkpoint hash resolves the
    reported ids to a key under which `d` reads an offset `X ≥ 0` with a run id, every `_offset` field of
    the two ids in any other database is STRICTLY smaller (never a tie), all numeric fields parse; every
    `_runid` field of the target stores its own id; and that `(X, d)` is what `GetCheckpointHash` +
    `GetCheckpoint` return for every iteration order of `INFO keyspace`. -/
theorem reach_position (ver : Bytes) {t : Checkpoint.Target} {c : Ctl} (h : Reach ver true t c) :
    ∃ X d, getHash t.hash [c.mas, c.sec] = some (c.key, c.lab) ∧ c.key ≠ [] ∧
      Holds [c.mas, c.sec] t c.key d X ∧ (∀ n, RunidOwn t n) ∧
      ∀ oS, Lists oS t c.key → startPoint ver [c.mas, c.sec] oS t = some (some (X, d)) := by
  obtain ⟨X, d, G⟩ := reach_good ver h
  exact ⟨X, d, G.hashEq, G.ctl.key0, G.holds, G.ownAll, fun oS hoS => good_startPoint ver G oS (hoS d G.nonempty)⟩

/-- no tie is reachable: whatever a start reads as the position, no other database holds an `_offset`
    field of the reported ids with the same (or a larger) value — the situation in which gc could move
    the position to another database (`exTie` in Props/C17.lean) does not arise -/
theorem reach_no_tie (ver : Bytes) {t : Checkpoint.Target} {c : Ctl} (h : Reach ver true t c)
    (oS : List Nat) (hoS : Lists oS t c.key) (X : Int) (d : Nat)
    (hsp : startPoint ver [c.mas, c.sec] oS t = some (some (X, d))) :
    ∀ db, db ≠ d → ∀ e ∈ t.cps db c.key, (e.rid = c.mas ∨ e.rid = c.sec) → e.kind = Kind.offset →
      ∀ v, Resp.parseInt64 e.val = some v → v < X := by
  obtain ⟨X0, d0, G⟩ := reach_good ver h
  have := good_startPoint ver G oS (hoS d0 G.nonempty)
  rw [hsp] at this
  injection this with this; injection this with this; injection this with hX hd
  subst hX; subst hd
  intro db hdb e he hr hk v hv
  exact G.holds.dom db hdb e he (by rw [offSel_iff, matchId_pair]; exact ⟨hr, hk⟩) v hv

/-- the hypotheses of `update_prefix_safe` / `update_restart_reads_local` / … for what the START runs -/
theorem reach_updPre_start (ver : Bytes) {t : Checkpoint.Target} {c : Ctl} (h : Reach ver true t c)
    (loc : Bytes) (hloc0 : loc ≠ []) (hloc : loc = c.key ∨ c.pend = some loc ∨ loc ∉ c.names) (now : Int)
    (hnow : -(2^63 : Int) ≤ now ∧ now < 2^63) :
    ∃ X d id1 id2, startIds t.hash [c.mas, c.sec] = [id1, id2] ∧ UpdPre id1 id2 loc t c.key c.lab d X now := by
  obtain ⟨X, d, G⟩ := reach_good ver h
  obtain ⟨P1, P2⟩ := G.updPre_start loc hloc0 hloc now hnow
  by_cases hl : c.lab = c.sec
  · exact ⟨X, d, c.sec, c.mas, by rw [G.startIdsEq, if_pos hl], P2 hl⟩
  · exact ⟨X, d, c.mas, c.sec, by rw [G.startIdsEq, if_neg hl], P1 hl⟩

/-- … for `SetRunId(master id)` -/
theorem reach_updPre_relabel (ver : Bytes) {t : Checkpoint.Target} {c : Ctl} (h : Reach ver true t c)
    (now : Int) (hnow : -(2^63 : Int) ≤ now ∧ now < 2^63) :
    ∃ X d, UpdPre c.mas c.sec c.key t c.key c.lab d X now := by
  obtain ⟨X, d, G⟩ := reach_good ver h
  exact ⟨X, d, G.updPre_relabel now hnow⟩

/-- the hypotheses of `gc_prefix_safe` -/
theorem reach_gcPre (ver : Bytes) {t : Checkpoint.Target} {c : Ctl} (h : Reach ver true t c) (live : List Bytes)
    (h1 : c.mas ∈ live) (h2 : c.sec ∈ live) : ∃ X d, GcPre c.mas c.sec live t c.key c.lab d X := by
  obtain ⟨X, d, G⟩ := reach_good ver h
  refine ⟨X, d, G.ctl.hne, G.ctl.m0, G.ctl.mq, G.ctl.sq, h1, h2, G.hashEq, G.ctl.key0, G.holds, G.ownAll _, ?_⟩
  rcases G.ctl.lab with hl | hl
  · exact Or.inl (hl ▸ G.carr)
  · exact Or.inr (hl ▸ G.carr)

/-- the hypotheses of `gc_spares_live_id` for the label -/
theorem reach_solo (ver : Bytes) {t : Checkpoint.Target} {c : Ctl} (h : Reach ver true t c) :
    ∃ X d, Solo c.lab t c.key d X ∧ c.lab ≠ qmark ∧ ∀ n, RunidOwn t n := by
  obtain ⟨X, d, G⟩ := reach_good ver h
  exact ⟨X, d, G.soloLab, G.labq, G.ownAll⟩

/-! ### the C17 statements on reachable states -/

/-- **The start (rename / nothing to do), stopped anywhere, on ANY reachable state**: the next start reads
    the same offset in the same database. `oS` lists the databases holding the key (before). -/
theorem reach_start_safe (ver : Bytes) {t : Checkpoint.Target} {c : Ctl} (h : Reach ver true t c)
    (loc : Bytes) (hloc0 : loc ≠ []) (hloc : loc = c.key ∨ c.pend = some loc ∨ loc ∉ c.names)
    (o1 o2 oS : List Nat) (ho1 : Lists o1 t c.key) (hoS : Lists oS t c.key) (now : Int)
    (hnow : -(2^63 : Int) ≤ now ∧ now < 2^63) :
    ∃ X d, 0 ≤ X ∧ startPoint ver [c.mas, c.sec] oS t = some (some (X, d)) ∧
      ∀ k, startPoint ver [c.mas, c.sec] oS
        (applyAll t ((updateReqs ver t loc (startIds t.hash [c.mas, c.sec]) o1 o2 now).take k))
        = some (some (X, d)) := by
  obtain ⟨X, d, G⟩ := reach_good ver h
  have hd := hoS d G.nonempty
  refine ⟨X, d, G.holds.nonneg, good_startPoint ver G oS hd, fun k => ?_⟩
  have G' := good_start ver G loc hloc0 hloc o1 o2 (ho1 d G.nonempty) now hnow k
  have := good_startPoint ver G' oS hd
  -- the control state after the step reports the same two ids
  have hm : ∀ len, (startCtl c loc k len).mas = c.mas ∧ (startCtl c loc k len).sec = c.sec := by
    intro len; unfold startCtl; split
    · exact ⟨rfl, rfl⟩
    · split
      · exact ⟨rfl, rfl⟩
      · split <;> exact ⟨rfl, rfl⟩
  rw [(hm _).1, (hm _).2] at this
  exact this

/-- a start that runs to completion leaves the position under the configured key -/
theorem reach_start_complete (ver : Bytes) {t : Checkpoint.Target} {c : Ctl} (h : Reach ver true t c)
    (loc : Bytes) (hloc0 : loc ≠ []) (hloc : loc = c.key ∨ c.pend = some loc ∨ loc ∉ c.names)
    (o1 o2 : List Nat) (ho1 : Lists o1 t c.key) (now : Int) (hnow : -(2^63 : Int) ≤ now ∧ now < 2^63) :
    ∃ X d c', Good (applyAll t (updateReqs ver t loc (startIds t.hash [c.mas, c.sec]) o1 o2 now)) c' X d ∧
      c'.key = loc ∧ c'.up = true ∧ c'.lab = c.lab := by
  obtain ⟨X, d, G⟩ := reach_good ver h
  have G' := good_start ver G loc hloc0 hloc o1 o2 (ho1 d G.nonempty) now hnow
    ((updateReqs ver t loc (startIds t.hash [c.mas, c.sec]) o1 o2 now).length + 2)
  rw [List.take_of_length_le (by omega)] at G'
  refine ⟨X, d, _, G', ?_⟩
  generalize hL : (updateReqs ver t loc (startIds t.hash [c.mas, c.sec]) o1 o2 now).length = L
  unfold startCtl
  by_cases h0 : L = 0
  · rw [if_pos h0]
    refine ⟨?_, rfl, rfl⟩
    -- nothing to do means the configured key is the current one
    rcases hloc with h | h | h
    · exact h.symm
    · exfalso
      have P := (G.fr.pend loc h)
      have hk : c.key ≠ loc := fun e => P.ne e.symm
      rw [G.startIdsEq] at hL
      obtain ⟨P1, P2⟩ := G.updPre_start loc hloc0 (Or.inr (Or.inl h)) now hnow
      by_cases hl : c.lab = c.sec
      · rw [if_pos hl] at hL
        have Pp := P2 hl
        obtain ⟨cc, hgc, _, _, _⟩ := getCheckpoint_of_holds ver Pp.holds o1 (ho1 d G.nonempty)
        rw [updateReqs_shape ver (loc := loc) o1 o2 now Pp.hn Pp.hn0 hgc, if_pos (Or.inl hk)] at hL
        simp at hL; omega
      · rw [if_neg hl] at hL
        have Pp := P1 hl
        obtain ⟨cc, hgc, _, _, _⟩ := getCheckpoint_of_holds ver Pp.holds o1 (ho1 d G.nonempty)
        rw [updateReqs_shape ver (loc := loc) o1 o2 now Pp.hn Pp.hn0 hgc, if_pos (Or.inl hk)] at hL
        simp at hL; omega
    · exfalso
      have hk : c.key ≠ loc := fun e => h (e ▸ G.ctl.keyIn)
      rw [G.startIdsEq] at hL
      obtain ⟨P1, P2⟩ := G.updPre_start loc hloc0 (Or.inr (Or.inr h)) now hnow
      by_cases hl : c.lab = c.sec
      · rw [if_pos hl] at hL
        have Pp := P2 hl
        obtain ⟨cc, hgc, _, _, _⟩ := getCheckpoint_of_holds ver Pp.holds o1 (ho1 d G.nonempty)
        rw [updateReqs_shape ver (loc := loc) o1 o2 now Pp.hn Pp.hn0 hgc, if_pos (Or.inl hk)] at hL
        simp at hL; omega
      · rw [if_neg hl] at hL
        have Pp := P1 hl
        obtain ⟨cc, hgc, _, _, _⟩ := getCheckpoint_of_holds ver Pp.holds o1 (ho1 d G.nonempty)
        rw [updateReqs_shape ver (loc := loc) o1 o2 now Pp.hn Pp.hn0 hgc, if_pos (Or.inl hk)] at hL
        simp at hL; omega
  · rw [if_neg h0, if_neg (by omega), if_neg (by omega)]
    exact ⟨rfl, by simp, rfl⟩

/-- **`SetRunId(master id)` on ANY reachable state of a running process, stopped anywhere** -/
theorem reach_relabel_safe (ver : Bytes) {t : Checkpoint.Target} {c : Ctl} (h : Reach ver true t c)
    (hl : c.lab ≠ c.mas) (hup : c.up = true) (o1 o2 oS : List Nat) (ho1 : Lists o1 t c.key)
    (hoS : Lists oS t c.key) (now : Int) (hnow : -(2^63 : Int) ≤ now ∧ now < 2^63) :
    ∃ X d, 0 ≤ X ∧ startPoint ver [c.mas, c.sec] oS t = some (some (X, d)) ∧
      ∀ k, startPoint ver [c.mas, c.sec] oS
        (applyAll t ((updateReqs ver t c.key [c.mas, c.lab] o1 o2 now).take k)) = some (some (X, d)) := by
  obtain ⟨X, d, G⟩ := reach_good ver h
  have hd := hoS d G.nonempty
  have hls : c.lab = c.sec := by rcases G.ctl.lab with h | h; exact absurd h hl; exact h
  refine ⟨X, d, G.holds.nonneg, good_startPoint ver G oS hd, fun k => ?_⟩
  have G' := good_relabel ver G hl (G.ctl.upk hup) o1 o2 (ho1 d G.nonempty) now hnow k
  have := good_startPoint ver G' oS hd
  have hm : (relabelCtl c k).mas = c.mas ∧ (relabelCtl c k).sec = c.sec := by
    unfold relabelCtl; split <;> exact ⟨rfl, rfl⟩
  rw [hm.1, hm.2] at this
  rw [hls]; exact this

/-- **gc on ANY reachable state, stopped anywhere, any threshold, any database orders** -/
theorem reach_gc_safe (ver : Bytes) {t : Checkpoint.Target} {c : Ctl} (h : Reach ver true t c) (live : List Bytes)
    (h1 : c.mas ∈ live) (h2 : c.sec ∈ live) (oS : List Nat) (hoS : Lists oS t c.key) :
    ∃ X d, 0 ≤ X ∧ startPoint ver [c.mas, c.sec] oS t = some (some (X, d)) ∧
      ∀ before orders k, startPoint ver [c.mas, c.sec] oS
        (applyAll t ((gcReqs t live before orders).take k)) = some (some (X, d)) := by
  obtain ⟨X, d, G⟩ := reach_good ver h
  have hd := hoS d G.nonempty
  exact ⟨X, d, G.holds.nonneg, good_startPoint ver G oS hd,
    fun before orders k => good_startPoint ver (good_gc G live h1 h2 before orders k) oS hd⟩

/-- **gc never removes the newest checkpoint of the label** (any id of the live set that labels a
    reachable position): no request of the pass deletes its hash entry or a field of it in the database
    of the position -/
theorem reach_gc_spares_label (ver : Bytes) {t : Checkpoint.Target} {c : Ctl} (h : Reach ver true t c)
    (live : List Bytes) (hl : c.lab ∈ live) (before : Int) (orders : List (List Nat)) :
    ∃ X d, Solo c.lab t c.key d X ∧ ∀ q ∈ gcReqs t live before orders,
      q ≠ Req.hdelHash c.lab ∧ ∀ ks, q = Req.hdelCp d c.key ks → ∀ k ∈ ks, k.1 ≠ c.lab := by
  obtain ⟨X, d, G⟩ := reach_good ver h
  exact ⟨X, d, G.soloLab,
    gc_spares_live_id t live before orders c.lab c.key d X hl G.labq G.soloLab G.ownAll⟩


/-- **A sender session with gc passes beside it never lowers the position** (the scenario of D24): on a reachable
    state, the wire log of a session executed piece by piece, a gc pass — any threshold, any database orders, live
    set containing the reported ids, stopped after any number of its requests — after any piece; the next start
    reads a position not smaller than the one the session started from. -/
theorem reach_session_safe (ver : Bytes) {t : Checkpoint.Target} {c : Ctl} (h : Reach ver true t c) (hl : c.lab = c.mas)
    (hup : c.up = true) (X : Int) (d : Nat) (oS : List Nat) (hoS : Lists oS t c.key)
    (hsp : startPoint ver [c.mas, c.sec] oS t = some (some (X, d)))
    (pc : Sender.PCfg) (sc : Sender.SCfg) (raws : List Sender.Raw) (evs : List Sender.Ev)
    (H : LifeHyp pc sc raws X (d : Int) evs) (hhi : ∀ o ∈ Target.cpReqs (fullLog sc evs), o < 2^63)
    (sched : List (Nat × Option GcPass)) (hok : SchedOK c.mas c.sec {} (fullLog sc evs) sched) :
    ∃ Y d', X ≤ Y ∧ ∀ oS', d' ∈ oS' →
      startPoint ver [c.mas, c.sec] oS' (sessionRun c.key c.mas ver {} t (fullLog sc evs) sched) = some (some (Y, d')) := by
  obtain ⟨X0, d0, G⟩ := (reach_inv ver h).1 rfl
  have := good_startPoint ver G oS (hoS d0 G.nonempty)
  rw [hsp] at this
  injection this with this; injection this with this; injection this with hX hd
  subst hX; subst hd
  obtain ⟨Y, d', hle, G'⟩ := good_session ver G hl (G.ctl.upk hup) pc sc raws evs H hhi sched hok
  exact ⟨Y, d', hle, fun oS' h' => good_startPoint ver G' oS' h'⟩

theorem goodChecks_names (dbs : List Nat) (keys : List Bytes) (t : Checkpoint.Target) (c : Ctl) (X : Int) (d : Nat) :
    ∀ p ∈ goodChecks dbs keys t c X d, p.1 ≠ "" := by
  intro p hp
  unfold goodChecks at hp
  simp only [List.mem_cons, List.not_mem_nil, or_false] at hp
  rcases hp with h | h | h | h | h | h | h | h | h | h | h <;> (subst h; simp)

/-- **The Bool the driver evaluates (op `c17good`) decides the invariant**: when no clause of `goodChecks` fails on
    the dumped databases / key names, the dump is the whole state, and the ghost clauses (names / ids never used
    do not occur) hold, the state satisfies `Good`. -/
theorem goodChecks_decide_good {dbs : List Nat} {keys : List Bytes} {t : Checkpoint.Target} {c : Ctl} {X : Int} {d : Nat}
    (h : firstBad (goodChecks dbs keys t c X d) = "")
    (hdbs : ∀ db, db ∉ dbs → ∀ n, t.cps db n = []) (hkeys : ∀ n, n ∉ keys → ∀ db, t.cps db n = [])
    (hkeyIn : c.key ∈ c.names) (hmasIn : c.mas ∈ c.ids) (hsecIn : c.sec ∈ c.ids)
    (hnames : ∀ n, n ∉ c.names → (∀ db, t.cps db n = []) ∧ ∀ p ∈ t.hash, p.2 ≠ n)
    (hids : ∀ ρ, ρ ∉ c.ids → (∀ db n, ∀ e ∈ t.cps db n, e.rid ≠ ρ) ∧ hlookup t.hash ρ = none)
    (hpmem : ∀ p, c.pend = some p → p ∈ c.names) : Good t c X d :=
  good_of_goodOn (goodChecks_sound dbs keys t c X d (firstBad_empty _ (goodChecks_names dbs keys t c X d) h))
    hdbs hkeys hkeyIn hmasIn hsecIn hnames hids hpmem

theorem bareChecks_names (dbs : List Nat) (keys : List Bytes) (t : Checkpoint.Target) (c : Ctl) :
    ∀ p ∈ bareChecks dbs keys t c, p.1 ≠ "" := by
  intro p hp
  unfold bareChecks at hp
  simp only [List.mem_cons, List.not_mem_nil, or_false] at hp
  rcases hp with h | h | h | h | h | h | h <;> (subst h; simp)

/-- the same for the position-less states (op `c17bare`) -/
theorem bareChecks_decide_bare {dbs : List Nat} {keys : List Bytes} {t : Checkpoint.Target} {c : Ctl}
    (h : firstBad (bareChecks dbs keys t c) = "")
    (hdbs : ∀ db, db ∉ dbs → ∀ n, t.cps db n = []) (hkeys : ∀ n, n ∉ keys → ∀ db, t.cps db n = [])
    (hkeyIn : c.key ∈ c.names) (hmasIn : c.mas ∈ c.ids) (hsecIn : c.sec ∈ c.ids)
    (hnames : ∀ n, n ∉ c.names → (∀ db, t.cps db n = []) ∧ ∀ p ∈ t.hash, p.2 ≠ n)
    (hids : ∀ ρ, ρ ∉ c.ids → (∀ db n, ∀ e ∈ t.cps db n, e.rid ≠ ρ) ∧ hlookup t.hash ρ = none) : Bare t c :=
  bare_of_checks (firstBad_empty _ (bareChecks_names dbs keys t c) h) hdbs hkeys hkeyIn hmasIn hsecIn hnames hids

/-- `UpdateCheckpoint` with the database order of its clean-up modelled (DelCheckpoints: all records read first, an
    unreadable one aborts, then ascending (offset, mtime, db): Model/BookSys.lean `updateReqsReal`, what op `c17u`
    compares the real requests with) issues a PREFIX of `updateReqs` for some order `o2` — the statements above, for
    every order and every prefix, cover it. -/
theorem update_real_is_prefix (ver : Bytes) (t : Checkpoint.Target) (loc : Bytes) (ids : List Bytes) (o1 order : List Nat)
    (now : Int) : ∃ o2 k, updateReqsReal ver t loc ids o1 order now = (updateReqs ver t loc ids o1 o2 now).take k :=
  updateReqsReal_prefix ver t loc ids o1 order now

/-! ### non-vacuity: reachable states, and the statements on them

  ids "a" (first master), "b" (master after a failover), second id "0"; key "c"; version "1".
  seed (position 0@0) → a sender life (`Props.C02TwoRuns` `trEvs1`: SELECT 2 (→ database 5), two SETs, a
  checkpoint tick; the target dies after 5 requests: position 50@5) → failover to "b" → `SetRunId("b")`
  stopped after its first request → crash → the next start renames the key to "d" and is stopped after
  its first request. -/

def rxA : Bytes := [97]
def rxB : Bytes := [98]
def rxZ : Bytes := [48]
def rxLoc : Bytes := [99]
def rxVer : Bytes := [49]

def rxT0 : Checkpoint.Target := seedTarget rxVer rxLoc rxA rxZ [] [] 5 6 0

theorem rx_reach0 : Reach rxVer true rxT0 (seedCtl rxLoc rxA rxZ) :=
  Reach.seed rxLoc rxA rxZ (by decide) (by decide) (by decide) (by decide) (by decide) (by decide) [] [] 5 6 0
    (by decide) (by decide) (by decide)

theorem lists_hsets {o : List Nat} {key : Bytes} (rs : List Req) : ∀ {t : Checkpoint.Target},
    Lists o t key → (∀ q ∈ rs, (∃ db n es, q = Req.hsetCp db n es ∧ db ∈ o) ∨ (∃ r n, q = Req.hsetHash r n) ∨
      (∃ db n ks, q = Req.hdelCp db n ks) ∨ (∃ r, q = Req.hdelHash r)) →
    Lists o (applyAll t rs) key := by
  induction rs with
  | nil => intro t h _; exact h
  | cons q rs ih =>
    intro t h hq
    simp only [applyAll, List.foldl_cons]
    apply ih _ (fun q' hq' => hq q' (List.mem_cons_of_mem _ hq'))
    intro db hne
    rcases hq q (List.mem_cons_self ..) with ⟨db0, n, es, rfl, hdb⟩ | ⟨r, n, rfl⟩ | ⟨db0, n, ks, rfl⟩ | ⟨r, rfl⟩
    · rw [applyReq_hsetCp_cps] at hne
      split at hne
      · rename_i hc; rw [hc.1]; exact hdb
      · exact h db hne
    · exact h db hne
    · rw [applyReq_hdelCp_cps] at hne
      split at hne
      · rename_i hc
        apply h db
        intro he
        apply hne
        rw [← hc.1, ← hc.2, he]; rfl
      · exact h db hne
    · exact h db hne

theorem rx_lists0 (o : List Nat) (h0 : 0 ∈ o) : Lists o rxT0 rxLoc := by
  intro db h
  by_cases hd : db = 0
  · subst hd; exact h0
  · exfalso; apply h
    unfold rxT0; rw [seedTarget_cps _ _ _ _ (by decide)]; simp [hd]

example : startPoint rxVer [rxA, rxZ] [0] rxT0 = some (some (0, 0)) :=
  (reach_position rxVer rx_reach0).elim fun X h => h.elim fun d h => by
    have := h.2.2.2.2 [0] (rx_lists0 [0] (by decide))
    have h2 : startPoint rxVer [rxA, rxZ] [0] rxT0 = some (some (0, 0)) := by decide +kernel
    exact h2

open GunYu.Sender GunYu.Props.C02 in
theorem rx_lifeHyp : LifeHyp trPc trCfg trRaws 0 ((0 : Nat) : Int) trEvs1 :=
  { items := by decide +kernel
    sorted := by decide +kernel
    above := by decide +kernel
    nodone := by unfold GunYu.Props.C01.NoDone; decide +kernel
    nonest := run1_items_noNested_src trPc trRaws 0 (by simp [RawNoNested, trRaws, bSelect, bMulti, bExec])
      (fun r _ _ => ⟨rfl, rfl⟩)
    nofail := by decide +kernel
    sel := selOK_spec trRaws (by decide +kernel)
    mapnn := mapDb_nonneg trPc rfl (by decide +kernel) }

open GunYu.Sender GunYu.Props.C02 in
def rxLog : List Sender.Req := (Sender.run trCfg Sender.initS trEvs1).2.flatten.take 5

open GunYu.Sender GunYu.Props.C02 in
theorem rx_trace : logTrace {} rxLog = [(5, BkW.rmeta), (5, BkW.off 50)] := by decide +kernel

def rxT1 : Checkpoint.Target := applyAll rxT0 (lifeReqs rxLoc rxA rxVer rxLog)

open GunYu.Sender GunYu.Props.C02 in
theorem rx_reach1 : Reach rxVer true rxT1 (seedCtl rxLoc rxA rxZ) :=
  Reach.life rx_reach0 rfl rfl 0 0 [0] (rx_lists0 [0] (by decide)) (by decide +kernel)
    trPc trCfg trRaws trEvs1 rx_lifeHyp 5
    (by
      show ∀ w ∈ logTrace {} rxLog, _
      rw [rx_trace]
      intro w hw o ho
      simp only [List.mem_cons, List.not_mem_nil, or_false] at hw
      rcases hw with rfl | rfl
      · cases ho
      · injection ho with ho; subst ho; decide)

theorem rx_lists1 : Lists [0, 5] rxT1 rxLoc := by
  unfold rxT1 lifeReqs
  rw [rx_trace]
  apply lists_hsets _ (rx_lists0 [0, 5] (by decide))
  intro q hq
  left
  simp only [List.flatMap_cons, List.flatMap_nil, writeReq, List.mem_append] at hq
  rcases hq with hq | hq | hq
  · exact ⟨5, _, _, by simpa using hq, by decide⟩
  · exact ⟨5, _, _, by simpa using hq, by decide⟩
  · cases hq

/-- the life moved the position to 50 in database 5 -/
example : startPoint rxVer [rxA, rxZ] [0, 5] rxT1 = some (some (50, 5)) := by
  unfold rxT1 lifeReqs; rw [rx_trace]; decide +kernel

/-- `reach_position` / `reach_no_tie` / `reach_gc_safe` / `reach_gc_spares_label` on it -/
example : ∃ X d, startPoint rxVer [rxA, rxZ] [0, 5] rxT1 = some (some (X, d)) :=
  (reach_position rxVer rx_reach1).elim fun X h => h.elim fun d h => ⟨X, d, h.2.2.2.2 _ rx_lists1⟩
example := reach_no_tie rxVer rx_reach1 [0, 5] rx_lists1
example := reach_gc_safe rxVer rx_reach1 [rxA, rxZ] (by decide) (by decide) [0, 5] rx_lists1
example := reach_gc_spares_label rxVer rx_reach1 [rxA, rxZ] (by decide) 77 [[5, 0]]
example := reach_gcPre rxVer rx_reach1 [rxA, rxZ] (by decide) (by decide)
example := reach_solo rxVer rx_reach1
/-- gc really has something to do there: the entry of database 0 (offset 0 is never collected: > 0 filter) stays,
    so take the rename instead: 4 requests -/
example : (updateReqs rxVer rxT1 [100] (startIds rxT1.hash [rxA, rxZ]) [0, 5] [0, 5] 9).length = 4 := by
  unfold rxT1 lifeReqs; rw [rx_trace]; decide +kernel
example := reach_start_safe rxVer rx_reach1 [100] (by decide) (Or.inr (Or.inr (by decide))) [0, 5] [0, 5] [0, 5]
  rx_lists1 rx_lists1 9 (by decide)
example := reach_start_complete rxVer rx_reach1 [100] (by decide) (Or.inr (Or.inr (by decide))) [0, 5] [0, 5]
  rx_lists1 9 (by decide)
example := reach_updPre_start rxVer rx_reach1 [100] (by decide) (Or.inr (Or.inr (by decide))) 9 (by decide)

/-- failover to "b", then `SetRunId("b")` stopped after its first request, a crash, and a rename by the next
    start stopped after its first request: reachable, with a pending rename and an orphan entry of "b" -/
theorem rx_reach2 : Reach rxVer true rxT1 { seedCtl rxLoc rxA rxZ with mas := rxB, sec := rxA, ids := rxB :: [rxA, rxZ] } :=
  Reach.failover rx_reach1 rfl rxB (by decide) (by decide) (by decide)

example := reach_relabel_safe rxVer rx_reach2 (by decide) rfl [0, 5] [0, 5] [0, 5] rx_lists1 rx_lists1 9 (by decide)
example := reach_updPre_relabel rxVer rx_reach2 9 (by decide)
example : (updateReqs rxVer rxT1 rxLoc [rxB, rxA] [0, 5] [0, 5] 9).length = 5 := by
  unfold rxT1 lifeReqs; rw [rx_trace]; decide +kernel

def rxT3 : Checkpoint.Target := applyAll rxT1 ((updateReqs rxVer rxT1 rxLoc [rxB, rxA] [0, 5] [0, 5] 9).take 1)

theorem rx_reach3 : Reach rxVer true rxT3
    { relabelCtl { seedCtl rxLoc rxA rxZ with mas := rxB, sec := rxA, ids := rxB :: [rxA, rxZ] } 1 with up := false } :=
  Reach.crash (Reach.relabel rx_reach2 (by decide) rfl [0, 5] [0, 5] rx_lists1 9 (by decide) 1)

/-- in that crash state the label is still "a" and the orphan of "b" sits beside it; the position is read -/
example : startPoint rxVer [rxB, rxA] [0, 5] rxT3 = some (some (50, 5)) := by
  unfold rxT3 rxT1 lifeReqs; rw [rx_trace]; decide +kernel

/-! ### non-vacuity of `Reach.session`: seed 7@0, the same stream; after 5 requests on the wire (position 50@5) a gc
    pass runs beside the session and deletes the stale entry of database 0 (one request), the session goes on -/

def rxT0s : Checkpoint.Target := seedTarget rxVer rxLoc rxA rxZ [] [] 5 6 7

theorem rx_reach0s : Reach rxVer true rxT0s (seedCtl rxLoc rxA rxZ) :=
  Reach.seed rxLoc rxA rxZ (by decide) (by decide) (by decide) (by decide) (by decide) (by decide) [] [] 5 6 7
    (by decide) (by decide) (by decide)

theorem rx_lists0s (o : List Nat) (h0 : 0 ∈ o) : Lists o rxT0s rxLoc := by
  intro db h
  by_cases hd : db = 0
  · subst hd; exact h0
  · exfalso; apply h
    unfold rxT0s; rw [seedTarget_cps _ _ _ _ (by decide)]; simp [hd]

open GunYu.Sender GunYu.Props.C02 in
theorem rx_lifeHyp7 : LifeHyp trPc trCfg trRaws 7 ((0 : Nat) : Int) trEvs1 :=
  { items := by decide +kernel
    sorted := by decide +kernel
    above := by decide +kernel
    nodone := by unfold GunYu.Props.C01.NoDone; decide +kernel
    nonest := run1_items_noNested_src trPc trRaws 7 (by simp [RawNoNested, trRaws, bSelect, bMulti, bExec])
      (fun r _ _ => ⟨rfl, rfl⟩)
    nofail := by decide +kernel
    sel := selOK_spec trRaws (by decide +kernel)
    mapnn := mapDb_nonneg trPc rfl (by decide +kernel) }

def rxGc : GcPass := { live := [rxA, rxZ], before := 100, orders := [[0, 5]], k := 1 }

open GunYu.Sender GunYu.Props.C02 in
def rxSched : List (Nat × Option GcPass) := [(5, some rxGc), (3, none)]

open GunYu.Sender GunYu.Props.C02 in
theorem rx_session : Reach rxVer true (sessionRun rxLoc rxA rxVer {} rxT0s (fullLog trCfg trEvs1) rxSched) (seedCtl rxLoc rxA rxZ) :=
  Reach.session rx_reach0s rfl rfl 7 0 [0] (rx_lists0s [0] (by decide)) (by decide +kernel)
    trPc trCfg trRaws trEvs1 rx_lifeHyp7
    (by
      have : Target.cpReqs (fullLog trCfg trEvs1) = [50] := by decide +kernel
      rw [this]; intro o ho; simp at ho; subst ho; decide)
    rxSched (by
      refine ⟨fun _ => by decide +kernel, ?_, fun _ => by decide +kernel, ?_, trivial⟩
      · intro p hp; injection hp with hp; subst hp; exact ⟨by decide, by decide⟩
      · intro p hp; cases hp)

-- the gc pass beside the session issued its request: the entry of database 0 lost `_offset` / `_mtime`
open GunYu.Sender GunYu.Props.C02 in
example : startPoint rxVer [rxA, rxZ] [0, 5]
    (sessionRun rxLoc rxA rxVer {} rxT0s (fullLog trCfg trEvs1) rxSched) = some (some (50, 5)) := by decide +kernel
open GunYu.Sender GunYu.Props.C02 in
example : (gcReqs (applyAll rxT0s (lifeReqs rxLoc rxA rxVer ((fullLog trCfg trEvs1).take 5))) [rxA, rxZ] 100 [[0, 5]])
    = [Req.hdelCp 0 rxLoc (staleKeys rxA true)] := by decide +kernel

/-- a reachable state with a PENDING rename: the start renames the key to "d" and is stopped after its first request -/
theorem rx_reach_pend : ∃ t c, Reach rxVer true t c ∧ c.pend = some [100] ∧ c.key = rxLoc :=
  ⟨_, _, Reach.start rx_reach1 [100] (by decide) (Or.inr (Or.inr (by decide))) [0, 5] [0, 5] rx_lists1 9 (by decide) 1, by
    have hlen : (updateReqs rxVer rxT1 [100] (startIds rxT1.hash [(seedCtl rxLoc rxA rxZ).mas, (seedCtl rxLoc rxA rxZ).sec]) [0, 5] [0, 5] 9).length = 4 := by
      unfold rxT1 lifeReqs; rw [rx_trace]; decide +kernel
    rw [hlen]; decide⟩

/-! ### non-vacuity of the steps without a position: after the failover (`rx_reach2`: label "a", master id "b")
    the source answers FULLRESYNC — `ResetStartPoint` deletes the position (2 HDELs per label and database with
    the key), `SetRunId("b")` runs the `dbid < 0` branch of `UpdateCheckpoint` (placeholder −1 in database 0 and the
    hash entry), the snapshot replay ends with `setCheckpoint("b", 900)` -/

def rxCtl2 : Ctl := { seedCtl rxLoc rxA rxZ with mas := rxB, sec := rxA, ids := rxB :: [rxA, rxZ] }
def rxT4 : Checkpoint.Target := applyAll rxT1 (resetReqs rxT1 rxLoc rxA [rxB, rxA] [0, 5])

theorem rx_reach4 : Reach rxVer false rxT4 rxCtl2 := Reach.reset rx_reach2 rfl [0, 5] rx_lists1

example : (resetReqs rxT1 rxLoc rxA [rxB, rxA] [0, 5]).length = 4 := by
  unfold rxT1 lifeReqs; rw [rx_trace]; decide +kernel
example : startPoint rxVer [rxB, rxA] [0, 5] rxT4 = some none := by
  unfold rxT4 rxT1 lifeReqs; rw [rx_trace]; decide +kernel
example := reach_bare_no_position rxVer rx_reach4 [0, 5]

def rxT5 : Checkpoint.Target := applyAll rxT4 ((updateReqs rxVer rxT4 rxLoc [rxB, rxA] [0, 5] [0, 5] 9).take 2)

theorem rx_reach5 : Reach rxVer false rxT5 (relabelCtl rxCtl2 2) :=
  Reach.relabelB rx_reach4 (by decide) rfl [0, 5] [0, 5] 9 (by decide) 2

/-- the placeholder written by the `dbid < 0` branch -/
example : updateReqs rxVer rxT4 rxLoc [rxB, rxA] [0, 5] [0, 5] 9 =
    [Req.hsetCp 0 rxLoc (cpEntries { runId := rxB, offset := -1, version := rxVer } 9), Req.hsetHash rxB rxLoc] := by
  unfold rxT4 rxT1 lifeReqs; rw [rx_trace]; decide +kernel

theorem rx_reach6 : Reach rxVer true (applyReq rxT5 (seedReq rxLoc rxB rxVer 900 11)) (relabelCtl rxCtl2 2) :=
  Reach.reseed rx_reach5 rfl rfl 900 11 (by decide) (by decide)

example : startPoint rxVer [rxB, rxA] [0, 5] (applyReq rxT5 (seedReq rxLoc rxB rxVer 900 11)) = some (some (900, 0)) := by
  unfold rxT5 rxT4 rxT1 lifeReqs; rw [rx_trace]; decide +kernel

end GunYu.Props.C17
