/-
  C17 — Resume bookkeeping maintenance never loses the live resume position.

  Property theorems only (helper lemmas: Proofs/Checkpoint.lean,
  Proofs/CheckpointOps.lean, Proofs/CheckpointUpdate.lean, Proofs/CheckpointRerun.lean; the migration of the
  bidirectional namespace: Proofs/CheckpointMigrate.lean).

  Quantifier: every initial bookkeeping state satisfying the stated
  preconditions, every database iteration order of every `for db := range mp`
  loop (the operation's own loops and the next start's), every prefix `k` of
  the write requests the operation issues.

  `startPoint ver ids order t` = `GetCheckpointHash` + `GetCheckpoint` on target
  state `t` (what `RedisOutput.StartPoint` reads), `some (some (X, d))` = resume
  at offset `X` in database `d`.
-/
import GunYu.Model.Checkpoint
import GunYu.Proofs.Checkpoint
import GunYu.Proofs.CheckpointOps
import GunYu.Proofs.CheckpointUpdate
import GunYu.Proofs.CheckpointRerun
import GunYu.Proofs.CheckpointMigrate
import GunYu.Gen.CheckpointConsts

namespace GunYu.Props.C17
open GunYu GunYu.Checkpoint GunYu.Migrate

/-- `UpdateCheckpoint` (renaming the checkpoint key and/or moving it to a new
    replication id), stopped after ANY number `k` of its write requests, leaves a
    target on which the next start reads the same offset in the same database.

    Preconditions (`UpdPre`, on the state before): the two ids are distinct, the
    new one is neither empty nor "?"; the hash resolves them to key `n`; under `n`
    database `d` reads offset `X ≥ 0` with a run id and every `_offset` field of
    the ids in any other database is smaller (`Holds`); `_runid` fields store
    their own id; a new key name holds no field of the ids yet OR what a rename cut after its
    first HSET left (`LocOk`: its fields of the ids read `X` in `d` and are smaller elsewhere,
    so the re-run after such a cut is covered as well). (A further precondition of earlier rounds —
    if the key stays and `d` already holds fields of the new id that the hash does not map, the old
    id's fields alone read `X` too — is gone with the repair D34: the operation no longer deletes the
    entry it has just written.)
    `o1`,`o2` = database orders of the operation's two loops, `oS` = of the next
    start (each only has to contain `d`, which is non-empty). -/
theorem update_prefix_safe (ver id1 id2 loc : Bytes) (t₀ : Target) (n r : Bytes) (d : Nat) (X now : Int)
    (P : UpdPre id1 id2 loc t₀ n r d X now) (o1 o2 oS : List Nat) (ho1 : d ∈ o1) (hoS : d ∈ oS)
    (k : Nat) :
    startPoint ver [id1, id2] oS
      (applyAll t₀ ((updateReqs ver t₀ loc [id1, id2] o1 o2 now).take k)) = some (some (X, d)) := by
  obtain ⟨n', r', hn0, hh, hH⟩ := update_prefix_inv ver P o1 o2 ho1 k
  exact startPoint_of_holds ver hh hn0 hH oS hoS

/-- … and that is the position held before the operation began. -/
theorem update_position_before (ver id1 id2 loc : Bytes) (t₀ : Target) (n r : Bytes) (d : Nat) (X now : Int)
    (P : UpdPre id1 id2 loc t₀ n r d X now) (oS : List Nat) (hoS : d ∈ oS) :
    startPoint ver [id1, id2] oS t₀ = some (some (X, d)) :=
  startPoint_of_holds ver P.hn P.hn0 P.holds oS hoS

/-- preconditions of `gc_prefix_safe` on the state before -/
structure GcPre (id1 id2 : Bytes) (live : List Bytes) (t₀ : Target) (n r : Bytes) (d : Nat) (X : Int) : Prop where
  hne : id1 ≠ id2
  h1 : id1 ≠ []
  h1q : id1 ≠ qmark
  h2q : id2 ≠ qmark
  live1 : id1 ∈ live
  live2 : id2 ∈ live
  hn : getHash t₀.hash [id1, id2] = some (n, r)
  hn0 : n ≠ []
  holds : Holds [id1, id2] t₀ n d X
  own : RunidOwn t₀ n
  /-- one of the two ids alone reads the position in `d` -/
  carrier : Carrier id1 t₀ n d X ∨ Carrier id2 t₀ n d X

/-- Garbage collection of stale checkpoints (`gcStaleCp`: `DelStaleCheckpoint` +
    `DelCheckpointHash` over every pair of the checkpoint hash), stopped after ANY
    number of its write requests, for EVERY staleness threshold `before` and every
    database order of every scan, keeps the resume position of ids the sources
    still report. -/
theorem gc_prefix_safe (ver id1 id2 : Bytes) (live : List Bytes) (t₀ : Target) (n r : Bytes) (d : Nat)
    (X : Int) (P : GcPre id1 id2 live t₀ n r d X) (before : Int) (orders : List (List Nat))
    (oS : List Nat) (hoS : d ∈ oS) (k : Nat) :
    startPoint ver [id1, id2] oS (applyAll t₀ ((gcReqs t₀ live before orders).take k))
      = some (some (X, d)) := by
  have hrid : ∀ db, ∀ e ∈ t₀.cps db n, ridSel [id1, id2] e = true → e.val ≠ qmark := by
    intro db e he hs
    rw [ridSel_iff] at hs
    rw [P.own db e he hs.2]
    rcases (matchId_pair id1 id2 _).mp hs.1 with h | h <;> rw [h]
    · exact P.h1q
    · exact P.h2q
  rcases P.carrier with hc | hc
  · have hi : Inv id1 id2 id1 t₀ n r d X := ⟨P.hn, P.holds, hc, hrid⟩
    exact (gcLoop_prefix P.hne P.h1 (Or.inl rfl) P.h1q live P.live1 P.live2 before t₀.hash orders t₀
      hi P.own k).startPoint P.hn0 ver oS hoS
  · have hi : Inv id1 id2 id2 t₀ n r d X := ⟨P.hn, P.holds, hc, hrid⟩
    exact (gcLoop_prefix P.hne P.h1 (Or.inr rfl) P.h2q live P.live1 P.live2 before t₀.hash orders t₀
      hi P.own k).startPoint P.hn0 ver oS hoS

/-- `DelStaleCheckpoint` with `exceptNewest` (what gc passes for an id a source
    still reports) never deletes in the database its scan found to hold the id's
    largest offset — for every clock position `before`, every state, every
    database order. -/
theorem gc_spares_newest_of_live_id (t : Target) (name rid : Bytes) (before : Int) (order : List Nat)
    (s : StaleScan) (hs : staleScan t name rid order = some s) :
    ∀ q ∈ (delStale t name rid before true order).2.2,
      ∃ db ks, q = Req.hdelCp db name ks ∧ db ≠ s.newestDb := by
  intro q hq
  simp only [delStale, hs] at hq
  obtain ⟨p, hp, rfl⟩ := List.mem_map.mp hq
  refine ⟨p.1, _, rfl, ?_⟩
  have := (List.mem_filter.mp hp).2
  simp only [decide_eq_true_eq] at this
  intro h; exact this (Or.inl ⟨h, trivial⟩)

/-- "Garbage collection never removes the newest checkpoint of a replication id that a source
    still reports": for ANY id `rid` of the live set (not only the two of the next start) whose
    largest offset `X ≥ 0` under key `name` is read in database `d` (smaller in every other
    database), whole-pass statement — NO request of `gcStaleCp`, whichever pair of the
    checkpoint hash it stems from (same key other id, other key, `rid` itself), for every
    threshold and every database order, deletes a field of `rid` in `d` or its hash entry.
    (`hown`: `_runid` fields store their own id, in every key the pass looks at.) -/
theorem gc_spares_live_id (t₀ : Target) (live : List Bytes) (before : Int) (orders : List (List Nat))
    (rid name : Bytes) (d : Nat) (X : Int) (hl : rid ∈ live) (hq : rid ≠ qmark)
    (hsolo : Solo rid t₀ name d X) (hown : ∀ n, RunidOwn t₀ n) :
    ∀ q ∈ gcReqs t₀ live before orders,
      q ≠ Req.hdelHash rid ∧ ∀ ks, q = Req.hdelCp d name ks → ∀ k ∈ ks, k.1 ≠ rid := by
  intro q hq'
  have hs := gcLoop_gsafe hq live hl before t₀.hash orders t₀ ⟨hsolo, hown⟩ q hq'
  constructor
  · intro h; rw [h] at hs; exact hs rfl
  · intro ks h k hk
    rw [h] at hs
    obtain ⟨ρ, hkeys, hsafe⟩ := hs
    rcases hsafe rfl with h1 | h1
    · rw [hkeys k hk]; exact h1
    · exact absurd rfl h1

/-! ### after a cut: the next start runs `UpdateCheckpoint` again, to completion, and reads under
    the LOCAL key

    `t₁` = the crash state (ANY prefix `k` of the first run's requests). Two kinds of "again":
    a START (`nextStart`: `syncer.updateCheckpoint` orders the reported ids by the checkpoint hash,
    then `UpdateCheckpoint(loc, ordered)`), with the ids reported in the order the first run had
    them or — when the first run was itself a start that swapped them — in the other order; and
    the RETRY of the same call with the same arguments (`RedisOutput.SetRunId` retries on an
    error). Both, run to completion on every crash state, leave the position readable under the
    LOCAL key: same offset, same database. -/

theorem update_restart_reads_local (ver id1 id2 loc : Bytes) (t₀ : Target) (n r : Bytes) (d : Nat)
    (X now now' : Int) (P : UpdPre id1 id2 loc t₀ n r d X now) (h2 : id2 ≠ [])
    (o1 o2 o1' o2' oS : List Nat) (ho1 : d ∈ o1) (ho1' : d ∈ o1') (hoS : d ∈ oS)
    (hnow' : -(2^63 : Int) ≤ now' ∧ now' < 2^63) (k : Nat) :
    ∃ c, getCheckpoint ver
        (nextStart ver (applyAll t₀ ((updateReqs ver t₀ loc [id1, id2] o1 o2 now).take k)) loc [id1, id2]
          o1' o2' now') loc [id1, id2] oS = some (c, (d : Int)) ∧ c.offset = X := by
  suffices h : Holds [id1, id2]
      (nextStart ver (applyAll t₀ ((updateReqs ver t₀ loc [id1, id2] o1 o2 now).take k)) loc [id1, id2]
        o1' o2' now') loc d X from (read_local ver h oS hoS).1
  have hne21 : id2 ≠ id1 := fun h => P.hne h.symm
  unfold nextStart
  rcases crash_class ver P o1 o2 ho1 k with F | ⟨hh, hH, _⟩
  · have hg : getHash (applyAll t₀ ((updateReqs ver t₀ loc [id1, id2] o1 o2 now).take k)).hash [id1, id2]
        = some (n, r) := by rw [F.hash]; exact P.hn
    rw [startIds_eq hg]
    by_cases hr : r = id2
    · subst hr
      rw [if_pos ⟨rfl, hne21⟩]
      exact rerun_on_first_swapped ver P h2 F hnow' o1' o2' ho1'
    · rw [if_neg (fun h => hr h.1)]
      have hr1 : r = id1 := by
        rcases getHash_cases P.hn P.hn0 with ⟨h, _⟩ | ⟨h, _⟩
        · exact h
        · exact absurd h hr
      by_cases hnl : n = loc
      · -- nothing to do: the hash maps id1 to the LOCAL key
        have : getHash (applyAll t₀ ((updateReqs ver t₀ loc [id1, id2] o1 o2 now).take k)).hash [id1, id2]
            = some (loc, id1) := by rw [hg, hnl, hr1]
        rw [updateReqs_noop ver o1' o2' now' this]
        exact hnl ▸ F.holds
      · exact rerun_on_first ver P F hnow' o1' o2' ho1'
  · rw [startIds_eq hh, if_neg (fun h => P.hne h.1), updateReqs_noop ver o1' o2' now' hh]
    exact hH

/-- the first run was a START that reported `[id2, id1]` and swapped them (the hash maps `id1`,
    the usual restart after a fail-over: reported `[new, old]`, stored under `old`): the next start
    reports the same `[id2, id1]`. -/
theorem update_restart_reads_local_swapped (ver id1 id2 loc : Bytes) (t₀ : Target) (n r : Bytes) (d : Nat)
    (X now now' : Int) (P : UpdPre id1 id2 loc t₀ n r d X now)
    (hs : startIds t₀.hash [id2, id1] = [id1, id2])
    (o1 o2 o1' o2' oS : List Nat) (ho1 : d ∈ o1) (ho1' : d ∈ o1') (hoS : d ∈ oS)
    (hnow' : -(2^63 : Int) ≤ now' ∧ now' < 2^63) (k : Nat) :
    ∃ c, getCheckpoint ver
        (nextStart ver (applyAll t₀ ((updateReqs ver t₀ loc [id1, id2] o1 o2 now).take k)) loc [id2, id1]
          o1' o2' now') loc [id2, id1] oS = some (c, (d : Int)) ∧ c.offset = X := by
  suffices h : Holds [id1, id2]
      (nextStart ver (applyAll t₀ ((updateReqs ver t₀ loc [id1, id2] o1 o2 now).take k)) loc [id2, id1]
        o1' o2' now') loc d X from (read_local ver h oS hoS).2
  obtain ⟨hu, m, hm⟩ := startIds_swapped P.hne P.h1 hs
  have hr1 : r = id1 := by
    rcases getHash_cases P.hn P.hn0 with ⟨h, _⟩ | ⟨_, h, _⟩
    · exact h
    · rcases hu with hu | hu <;> rw [hu] at h
      · exact absurd h (by simp)
      · exact absurd (Option.some.inj h).symm P.hn0
  unfold nextStart
  rcases crash_class ver P o1 o2 ho1 k with F | ⟨hh, hH, h3⟩
  · have : startIds (applyAll t₀ ((updateReqs ver t₀ loc [id1, id2] o1 o2 now).take k)).hash [id2, id1]
        = [id1, id2] := by rw [F.hash]; exact hs
    rw [this]
    by_cases hnl : n = loc
    · have hg : getHash (applyAll t₀ ((updateReqs ver t₀ loc [id1, id2] o1 o2 now).take k)).hash [id1, id2]
          = some (loc, id1) := by rw [F.hash, P.hn, hnl, hr1]
      rw [updateReqs_noop ver o1' o2' now' hg]
      exact hnl ▸ F.holds
    · exact rerun_on_first ver P F hnow' o1' o2' ho1'
  · have hg : getHash (applyAll t₀ ((updateReqs ver t₀ loc [id1, id2] o1 o2 now).take k)).hash [id2, id1]
        = some (loc, id1) := getHash_of_second (h3 hu) (getHash_first P.hne P.h1 hh).1
    rw [startIds_eq hg, if_pos ⟨rfl, P.hne⟩, updateReqs_noop ver o1' o2' now' hh]
    exact hH

/-- the RETRY of the same call (same ids, same order) on every state an attempt that did not complete
    leaves — a stop after `k` requests, or an error reply to request `k+1` (the failing request is not
    applied and `UpdateCheckpoint` returns: the same target state). After the repairs D33
    (`RedisOutput.SetRunId` keeps the old id while attempts fail, so its `RetryLinearJitter` passes
    `[new, old]` again) and D34 (`UpdateCheckpoint` does not delete the entry it has just written) this
    is what the code retries, and it needs no precondition beyond `update_prefix_safe`'s. -/
theorem update_rerun_reads_local (ver id1 id2 loc : Bytes) (t₀ : Target) (n r : Bytes) (d : Nat)
    (X now now' : Int) (P : UpdPre id1 id2 loc t₀ n r d X now)
    (o1 o2 o1' o2' oS : List Nat) (ho1 : d ∈ o1) (ho1' : d ∈ o1') (hoS : d ∈ oS)
    (hnow' : -(2^63 : Int) ≤ now' ∧ now' < 2^63) (k : Nat) :
    ∃ c, getCheckpoint ver
        (applyAll (applyAll t₀ ((updateReqs ver t₀ loc [id1, id2] o1 o2 now).take k))
          (updateReqs ver (applyAll t₀ ((updateReqs ver t₀ loc [id1, id2] o1 o2 now).take k)) loc [id1, id2]
            o1' o2' now')) loc [id1, id2] oS = some (c, (d : Int)) ∧ c.offset = X := by
  have h0 : Rerunnable id1 id2 loc t₀ d X := Or.inl ⟨n, r, P.renow (by omega)⟩
  have h1 := rerunnable_attempt ver h0 ⟨k, now, o1, o2⟩ ho1 P.hnow
  exact (read_local ver (rerunnable_complete ver h1 o1' o2' ho1' now' hnow') oS hoS).1

/-- `RedisOutput.SetRunId(new)` as a whole (`afterAttempts`): ANY number of attempts that do not complete
    (each stopped, or answered with an error, after any number of its requests; the 3 of one
    `RetryLinearJitter`, those of later calls, those of later processes), each reading the target as
    the ones before left it, then one attempt that completes: the position is read under the LOCAL
    key, same offset, same database. -/
theorem setrunid_retries_read_local (ver id1 id2 loc : Bytes) (t₀ : Target) (n r : Bytes) (d : Nat)
    (X now : Int) (P : UpdPre id1 id2 loc t₀ n r d X now) (as : List Attempt)
    (has : ∀ a ∈ as, d ∈ a.o1 ∧ (-(2^63 : Int) ≤ a.now ∧ a.now < 2^63))
    (o1 o2 oS : List Nat) (ho1 : d ∈ o1) (hoS : d ∈ oS) (now' : Int)
    (hnow' : -(2^63 : Int) ≤ now' ∧ now' < 2^63) :
    ∃ c, getCheckpoint ver
        (applyAll (afterAttempts ver loc [id1, id2] t₀ as)
          (updateReqs ver (afterAttempts ver loc [id1, id2] t₀ as) loc [id1, id2] o1 o2 now'))
        loc [id1, id2] oS = some (c, (d : Int)) ∧ c.offset = X := by
  have h0 : Rerunnable id1 id2 loc t₀ d X := Or.inl ⟨n, r, P.renow (by omega)⟩
  have h1 := rerunnable_attempts ver as h0 has
  exact (read_local ver (rerunnable_complete ver h1 o1 o2 ho1 now' hnow') oS hoS).1

/-- … and at every moment in between (after any number of incomplete attempts) a START reads it too:
    through the checkpoint hash, same offset, same database. -/
theorem setrunid_retries_start_safe (ver id1 id2 loc : Bytes) (t₀ : Target) (n r : Bytes) (d : Nat)
    (X now : Int) (P : UpdPre id1 id2 loc t₀ n r d X now) (as : List Attempt)
    (has : ∀ a ∈ as, d ∈ a.o1 ∧ (-(2^63 : Int) ≤ a.now ∧ a.now < 2^63)) (oS : List Nat) (hoS : d ∈ oS) :
    startPoint ver [id1, id2] oS (afterAttempts ver loc [id1, id2] t₀ as) = some (some (X, d)) := by
  have h0 : Rerunnable id1 id2 loc t₀ d X := Or.inl ⟨n, r, P.renow (by omega)⟩
  rcases rerunnable_attempts ver as h0 has with ⟨n', r', P'⟩ | ⟨hh, hH⟩
  · exact startPoint_of_holds ver P'.hn P'.hn0 P'.holds oS hoS
  · exact startPoint_of_holds ver hh P.hloc hH oS hoS

/-- gc asks for `exceptNewest` exactly for the ids that are live -/
theorem gc_passes_exceptNewest (live : List Bytes) (before : Int) (t : Target) (rid cpn : Bytes)
    (rest : List (Bytes × Bytes)) (orders : List (List Nat)) :
    ∃ tail, gcLoop live before t ((rid, cpn) :: rest) orders
      = (delStale t cpn rid before (live.contains rid) (orders.headD [])).2.2 ++ tail := by
  simp only [gcLoop, List.append_assoc]
  exact ⟨_, rfl⟩

/-- Switching the bidirectional recovery format (`resolveBisyncCheckpointNameWithClient`:
    mode inference, in-place switch, or migration to a freshly seeded namespace with
    repointing of the checkpoint hash and clean-up of the old namespace), stopped after ANY
    number of its requests to the checkpoint hash / the root keys, leaves a target on which
    the next start reads a position that is not smaller, in the same database (0, where
    bidirectional namespaces keep their root checkpoint).

    `ns` = recovery state of the old namespace (any), `nows` = the clock values used,
    `order` = database order of the operation's `GetCheckpoint`, `oS` = of the next start.
    Preconditions (`MigPre`): ids distinct, non-empty, not "?" and not a prefix-match of
    "bisync_mode"; the hash resolves to root key `n` holding `X ≥ 0` in database 0 (`Holds`);
    `_runid` fields store their own id; the freshly drawn name is new (no field of the ids,
    different from `n` and `n:frontier`); stored offsets / clock values are int64. -/
theorem migrate_prefix_safe (ver id1 id2 n r newName : Bytes) (t₀ : Target) (ns : Frontier.NS) (X : Int)
    (nows : List Int) (P : MigPre ver id1 id2 n r newName t₀ ns X nows) (desired : BMode)
    (order oS : List Nat) (ho : 0 ∈ order) (hoS : 0 ∈ oS) (k : Nat) :
    ∃ X', X ≤ X' ∧
      startPoint ver [id1, id2] oS
        (applyAll t₀ ((migrateReqs ver t₀ ns [id1, id2] desired newName nows order).take k))
        = some (some (X', 0)) := by
  obtain ⟨pre, core, heq, hpre, hcore⟩ := migrateReqs_form P order ho desired
  rw [heq]
  exact (minv_pre_core P.args ⟨P.hn, P.holds, P.fresh⟩ pre core hpre hcore k).startPoint
    P.hn0 P.args.hnew0 ver oS hoS

/-- what the scan calls "newest": no database it visited reads a larger offset for the id,
    and (when anything was read) `newestDb` is a visited database reading exactly it -/
theorem gc_newest_is_largest (t : Target) (name rid : Bytes) (order : List Nat) (s : StaleScan)
    (h : staleScan t name rid order = some s) : ScanMax t name rid order s :=
  staleScan_max t name rid order s h

/-- the literal names the models use are those of the Go source (regenerated each run by
    harness/extract/c17.go into Gen/CheckpointConsts.lean) -/
theorem consts_match_source :
    Migrate.modeField = Gen.bisyncModeField ∧
    Gen.bisyncModeMtimeField = Gen.bisyncModeField ++ Gen.cpSuffixMtime ∧
    BMode.bytes .sync = Gen.bisyncModeSync ∧ BMode.bytes .pipeline = Gen.bisyncModePipeline ∧
    BMode.bytes .parallel = Gen.bisyncModeParallel ∧
    (∀ n, Migrate.frontierKey n = n ++ Gen.bisyncFrontierSuffix) ∧
    -- the four suffixes are pairwise not suffixes of one another (field names parse uniquely)
    (∀ a ∈ [Gen.cpSuffixRunId, Gen.cpSuffixVersion, Gen.cpSuffixOffset, Gen.cpSuffixMtime],
      ∀ b ∈ [Gen.cpSuffixRunId, Gen.cpSuffixVersion, Gen.cpSuffixOffset, Gen.cpSuffixMtime],
        a ≠ b → ¬ a.isSuffixOf b = true) := by
  refine ⟨by decide, by decide, by decide, by decide, by decide, fun n => rfl, by decide⟩

/-! ### non-vacuity: a concrete state meeting the preconditions

  ids "a" (new) and "b" (old); the hash maps b ↦ key "c"; key "c" holds the
  position 700 in database 2 and an older one (100) in database 5. -/

def exId1 : Bytes := [97]
def exId2 : Bytes := [98]
def exCp : Bytes := [99]
def exA2 : Cp := [⟨exId2, .mtime, [53]⟩, ⟨exId2, .runid, exId2⟩, ⟨exId2, .offset, [55, 48, 48]⟩]
def exA5 : Cp := [⟨exId2, .runid, exId2⟩, ⟨exId2, .offset, [49, 48, 48]⟩]
def exT : Target :=
  { hash := [(exId2, exCp)],
    cps := fun db n => if n = exCp then (if db = 2 then exA2 else if db = 5 then exA5 else []) else [] }

theorem exT_cps (db : Nat) : exT.cps db exCp = if db = 2 then exA2 else if db = 5 then exA5 else [] := by
  simp [exT]

theorem ex_parses (ids : List Bytes) : ∀ db, Parses ids (exT.cps db exCp) := by
  intro db e he _ hk
  rw [exT_cps] at he
  split at he
  · simp only [exA2, List.mem_cons, List.not_mem_nil, or_false] at he
    rcases he with rfl | rfl | rfl <;> first | decide | (rcases hk with hk | hk <;> exact absurd hk (by decide))
  · split at he
    · simp only [exA5, List.mem_cons, List.not_mem_nil, or_false] at he
      rcases he with rfl | rfl <;> first | decide | (rcases hk with hk | hk <;> exact absurd hk (by decide))
    · exact absurd he (List.not_mem_nil)

theorem ex_holds : Holds [exId1, exId2] exT exCp 2 700 := by
  refine ⟨by decide, ex_parses _, by rw [exT_cps]; decide, by rw [exT_cps]; decide, ?_⟩
  intro db hdb x hx hs v hv
  rw [exT_cps] at hx
  simp only [hdb, if_false] at hx
  split at hx
  · simp only [exA5, List.mem_cons, List.not_mem_nil, or_false] at hx
    rcases hx with rfl | rfl
    · exact absurd hs (by decide)
    · have : v = 100 := by
        have h : Resp.parseInt64 [49, 48, 48] = some 100 := by decide
        rw [h] at hv; exact (Option.some.inj hv).symm
      omega
  · exact absurd hx (List.not_mem_nil)

theorem ex_own : RunidOwn exT exCp := by
  intro db e he hk
  rw [exT_cps] at he
  split at he
  · simp only [exA2, List.mem_cons, List.not_mem_nil, or_false] at he
    rcases he with rfl | rfl | rfl <;> first | rfl | exact absurd hk (by decide)
  · split at he
    · simp only [exA5, List.mem_cons, List.not_mem_nil, or_false] at he
      rcases he with rfl | rfl <;> first | rfl | exact absurd hk (by decide)
    · exact absurd he (List.not_mem_nil)

theorem ex_updPre : UpdPre exId1 exId2 exCp exT exCp exId2 2 700 9 :=
  { hne := by decide, h1 := by decide, h1q := by decide, h2q := by decide, hloc := by decide,
    hn := by decide, hn0 := by decide, holds := ex_holds, own := ex_own,
    fresh := fun h => absurd rfl h,
    hnow := by decide }


/-- the preconditions of `update_prefix_safe` are met, and the operation is not
    trivial there: 5 write requests (HSET new fields, repoint, 2 × HDEL, HDEL hash) -/
example : UpdPre exId1 exId2 exCp exT exCp exId2 2 700 9 := ex_updPre
example : (updateReqs [49] exT exCp [exId1, exId2] [5, 2] [2, 5] 9).length = 5 := by decide
example : startPoint [49] [exId1, exId2] [5, 2]
    (applyAll exT ((updateReqs [49] exT exCp [exId1, exId2] [5, 2] [2, 5] 9).take 3))
    = some (some (700, 2)) :=
  update_prefix_safe [49] exId1 exId2 exCp exT exCp exId2 2 700 9 ex_updPre [5, 2] [2, 5] [5, 2]
    (by decide) (by decide) 3

/-- the next start / the retry after a cut at request 1, 2, 3 of that run: position 700@2 under the LOCAL key -/
example (k : Nat) : ∃ c, getCheckpoint [49]
    (nextStart [49] (applyAll exT ((updateReqs [49] exT exCp [exId1, exId2] [5, 2] [2, 5] 9).take k)) exCp
      [exId1, exId2] [2, 5] [5, 2] 11) exCp [exId1, exId2] [5, 2] = some (c, ((2 : Nat) : Int)) ∧ c.offset = 700 :=
  update_restart_reads_local [49] exId1 exId2 exCp exT exCp exId2 2 700 9 11 ex_updPre (by decide)
    [5, 2] [2, 5] [2, 5] [5, 2] [5, 2] (by decide) (by decide) (by decide) (by decide) k
example (k : Nat) : ∃ c, getCheckpoint [49]
    (applyAll (applyAll exT ((updateReqs [49] exT exCp [exId1, exId2] [5, 2] [2, 5] 9).take k))
      (updateReqs [49] (applyAll exT ((updateReqs [49] exT exCp [exId1, exId2] [5, 2] [2, 5] 9).take k)) exCp
        [exId1, exId2] [2, 5] [5, 2] 11)) exCp [exId1, exId2] [5, 2] = some (c, ((2 : Nat) : Int)) ∧ c.offset = 700 :=
  update_rerun_reads_local [49] exId1 exId2 exCp exT exCp exId2 2 700 9 11 ex_updPre
    [5, 2] [2, 5] [2, 5] [5, 2] [5, 2] (by decide) (by decide) (by decide) (by decide) k
/-- the usual restart after a fail-over: the source reports `[new, old] = [exId1, exId2]`, the position is
    stored under the old id, the start swaps the ids and renames the key to `[100]` (4 requests); cut
    anywhere, the next start (same report) reads 700@2 under the new key -/
theorem ex_updPre_rename : UpdPre exId2 exId1 [100] exT exCp exId2 2 700 9 :=
  { hne := by decide, h1 := by decide, h1q := by decide, h2q := by decide, hloc := by decide,
    hn := by decide, hn0 := by decide, holds := ex_holds.swap, own := ex_own,
    fresh := fun _ => LocOk.of_fresh (by intro db e he; simp [exT, exCp] at he),
    hnow := by decide }
example : startIds exT.hash [exId1, exId2] = [exId2, exId1] := by decide
example : (updateReqs [49] exT [100] [exId2, exId1] [5, 2] [2, 5] 9).length = 4 := by decide
example (k : Nat) : ∃ c, getCheckpoint [49]
    (nextStart [49] (applyAll exT ((updateReqs [49] exT [100] [exId2, exId1] [5, 2] [2, 5] 9).take k)) [100]
      [exId1, exId2] [2, 5] [5, 2] 11) [100] [exId1, exId2] [5, 2] = some (c, ((2 : Nat) : Int)) ∧ c.offset = 700 :=
  update_restart_reads_local_swapped [49] exId2 exId1 [100] exT exCp exId2 2 700 9 11 ex_updPre_rename (by decide)
    [5, 2] [2, 5] [2, 5] [5, 2] [5, 2] (by decide) (by decide) (by decide) (by decide) k

/-- the retry really runs a second time after a cut at request 1: it writes the new id's entry again and
    repoints the hash, and (D34) deletes nothing — it read its own new id back; the start does not run
    (it orders the ids by the hash, which still maps the old id: nothing to do) -/
example : (updateReqs [49] (applyAll exT ((updateReqs [49] exT exCp [exId1, exId2] [5, 2] [2, 5] 9).take 1)) exCp
    [exId1, exId2] [2, 5] [5, 2] 11).length = 2 := by decide
/-- three attempts cut after 1, 0 and 3 requests, then a complete one -/
example : ∃ c, getCheckpoint [49]
    (applyAll (afterAttempts [49] exCp [exId1, exId2] exT [⟨1, 9, [5, 2], [2, 5]⟩, ⟨0, 10, [2, 5], [5, 2]⟩, ⟨3, 11, [2], [2]⟩])
      (updateReqs [49] (afterAttempts [49] exCp [exId1, exId2] exT [⟨1, 9, [5, 2], [2, 5]⟩, ⟨0, 10, [2, 5], [5, 2]⟩, ⟨3, 11, [2], [2]⟩])
        exCp [exId1, exId2] [2, 5] [5, 2] 12)) exCp [exId1, exId2] [5, 2] = some (c, ((2 : Nat) : Int)) ∧ c.offset = 700 :=
  setrunid_retries_read_local [49] exId1 exId2 exCp exT exCp exId2 2 700 9 ex_updPre
    [⟨1, 9, [5, 2], [2, 5]⟩, ⟨0, 10, [2, 5], [5, 2]⟩, ⟨3, 11, [2], [2]⟩]
    (by intro a ha; simp only [List.mem_cons, List.not_mem_nil, or_false] at ha
        rcases ha with rfl | rfl | rfl <;> decide)
    [2, 5] [5, 2] [5, 2] (by decide) (by decide) 12 (by decide)
example : startIds (applyAll exT ((updateReqs [49] exT exCp [exId1, exId2] [5, 2] [2, 5] 9).take 1)).hash
    [exId1, exId2] = [exId2, exId1] := by decide

/-- the state that made the retry lose the position BEFORE the repair D34 (it needed a precondition
    `Carrier id2` then): the hash maps the old id, whose own entry in database 2 reads 50; a larger
    `<new>_offset = 70` beside it makes the pair read 70@2 (reachable on the code before D33: the
    relabel failed three times, the next SetRunId of the process returned at once, the replay wrote
    under the unmapped new id). Cut after the first HSET, then the same call again: it read run
    id = NEW id, took it for the old one and deleted the new id's fields — 70 fell back to 50. With
    the repaired operation both the retry and the start keep 70@2. -/
def exOrph : Target :=
  { hash := [(exId2, exCp)],
    cps := fun db n => if n = exCp ∧ db = 2 then
      [⟨exId2, .runid, exId2⟩, ⟨exId2, .offset, [53, 48]⟩, ⟨exId1, .offset, [55, 48]⟩] else [] }
example : startPoint [49] [exId1, exId2] [2] exOrph = some (some (70, 2)) := by decide
example : startPoint [49] [exId1, exId2] [2]
    (applyAll (applyAll exOrph ((updateReqs [49] exOrph exCp [exId1, exId2] [2] [2] 9).take 1))
      (updateReqs [49] (applyAll exOrph ((updateReqs [49] exOrph exCp [exId1, exId2] [2] [2] 9).take 1)) exCp
        [exId1, exId2] [2] [2] 11)) = some (some (70, 2)) := by decide
example : startPoint [49] [exId1, exId2] [2]
    (nextStart [49] (applyAll exOrph ((updateReqs [49] exOrph exCp [exId1, exId2] [2] [2] 9).take 1)) exCp
      [exId1, exId2] [2] [2] 11) = some (some (70, 2)) := by decide

/-- the preconditions of `gc_prefix_safe` are met; gc deletes the stale entry of database 5 -/
example : GcPre exId1 exId2 [exId1, exId2] exT exCp exId2 2 700 :=
  { hne := by decide, h1 := by decide, h1q := by decide, h2q := by decide,
    live1 := by decide, live2 := by decide, hn := by decide, hn0 := by decide,
    holds := ex_holds, own := ex_own,
    carrier := Or.inr ⟨by rw [exT_cps]; decide, by rw [exT_cps]; decide⟩ }
example : gcReqs exT [exId1, exId2] 10 [[5, 2]]
    = [Req.hdelCp 5 exCp (staleKeys exId2 true)] := by decide

/-- the shape the replay path leaves: the NEWEST entry (database 2) has no `_mtime` field at all
    (Mtime reads 0, "stale" for every threshold) — gc still only deletes the older entry of database 5 -/
def exNoMt : Target :=
  { hash := [(exId2, exCp)],
    cps := fun db n => if n = exCp then
      (if db = 2 then [⟨exId2, .runid, exId2⟩, ⟨exId2, .offset, [55, 48, 48]⟩]
       else if db = 5 then [⟨exId2, .mtime, [53]⟩, ⟨exId2, .runid, exId2⟩, ⟨exId2, .offset, [49, 48, 48]⟩]
       else []) else [] }
example : gcReqs exNoMt [exId1, exId2] 10 [[5, 2]] = [Req.hdelCp 5 exCp (staleKeys exId2 true)] := by decide
example : startPoint [49] [exId1, exId2] [5, 2] (applyAll exNoMt (gcReqs exNoMt [exId1, exId2] 10 [[5, 2]]))
    = some (some (700, 2)) := by decide

/-- the strict maximum (`Holds.dom`) is needed: with EQUAL offsets in two databases
    `GetCheckpoint` breaks the tie by mtime, `DelStaleCheckpoint` by iteration order —
    gc visiting database 5 first deletes the entry the next start would have chosen, and
    the resume position moves to another database. (After the C02 repair stored offsets
    in different databases are never equal; the tie is outside the reachable states.) -/
def exTie : Target :=
  { hash := [(exId2, exCp)],
    cps := fun db n => if n = exCp then
      (if db = 2 then [⟨exId2, .mtime, [57]⟩, ⟨exId2, .runid, exId2⟩, ⟨exId2, .offset, [49, 48, 48]⟩]
       else if db = 5 then [⟨exId2, .mtime, [53]⟩, ⟨exId2, .runid, exId2⟩, ⟨exId2, .offset, [49, 48, 48]⟩]
       else []) else [] }
example : startPoint [49] [exId1, exId2] [5, 2] exTie = some (some (100, 2)) := by decide
example : startPoint [49] [exId1, exId2] [5, 2]
    (applyAll exTie (gcReqs exTie [exId1, exId2] 20 [[5, 2]])) = some (some (100, 5)) := by decide

/-! ### non-vacuity of `migrate_prefix_safe`: sync → parallel with a root checkpoint (700)
    newer than the latest record (650): 4 requests, the new namespace is seeded with 700 -/
def exM : Target :=
  { hash := [(exId1, exCp)],
    cps := fun db n => if n = exCp ∧ db = 0 then
      [⟨exId1, .runid, exId1⟩, ⟨exId1, .offset, [55, 48, 48]⟩, ⟨modeField, .other, BMode.bytes .sync⟩]
      else [] }
def exNs : Frontier.NS := { latest := some { seq := 4, endOff := 650, mtime := 3, runId := exId1 } }
def exNew : Bytes := [100]

theorem exM_cps (db : Nat) : exM.cps db exCp = if db = 0 then
    [⟨exId1, .runid, exId1⟩, ⟨exId1, .offset, [55, 48, 48]⟩, ⟨modeField, .other, BMode.bytes .sync⟩] else [] := by
  simp [exM]

theorem exM_pre : MigPre [49] exId1 exId2 exCp exId1 exNew exM exNs 700 [5, 6] :=
  { args := ⟨by decide, by decide, by decide, by decide, by decide, by decide, by decide⟩,
    h2 := by decide, hn := by decide, hn0 := by decide,
    holds := by
      refine ⟨by decide, ?_, by rw [exM_cps]; decide, by rw [exM_cps]; decide, ?_⟩
      · intro db e he _ hk
        rw [exM_cps] at he
        split at he
        · simp only [List.mem_cons, List.not_mem_nil, or_false] at he
          rcases he with rfl | rfl | rfl <;>
            first | decide | (rcases hk with hk | hk <;> exact absurd hk (by decide))
        · exact absurd he (List.not_mem_nil)
      · intro db hdb x hx
        rw [exM_cps] at hx
        simp only [hdb, if_false] at hx
        exact absurd hx (List.not_mem_nil),
    own := by
      intro db e he hk
      rw [exM_cps] at he
      split at he
      · simp only [List.mem_cons, List.not_mem_nil, or_false] at he
        rcases he with rfl | rfl | rfl <;> first | rfl | exact absurd hk (by decide)
      · exact absurd he (List.not_mem_nil),
    fresh := by intro db e he; simp [exM, exNew, exCp] at he,
    seedRange := by
      intro cur sd h
      cases cur with
      | sync =>
        have : loadSeed [49] exNs [exId1, exId2] .sync = some ⟨exId1, 4, 650, 3⟩ := by decide
        rw [this] at h; simp only [Option.some.injEq] at h; subst h; decide
      | pipeline =>
        have : loadSeed [49] exNs [exId1, exId2] .pipeline = none := by decide
        rw [this] at h; exact absurd h (by simp)
      | parallel =>
        have : loadSeed [49] exNs [exId1, exId2] .parallel = none := by decide
        rw [this] at h; exact absurd h (by simp),
    nowsRange := by intro x hx; simp only [List.mem_cons, List.not_mem_nil, or_false] at hx
                    rcases hx with rfl | rfl <;> decide }

example : (migrateReqs [49] exM exNs [exId1, exId2] .parallel exNew [5, 6] [0]).length = 4 := by decide
example : startPoint [49] [exId1, exId2] [0]
    (applyAll exM ((migrateReqs [49] exM exNs [exId1, exId2] .parallel exNew [5, 6] [0]).take 3))
    = some (some (700, 0)) := by decide

end GunYu.Props.C17
