/-
  C08 — extended operation set (session 4): torn header rewrites as crash images,
  and the writers' steps WITH FAULTS (failing header rewrite at close and at
  rotation, failing open at rotation, failing removals). Model:
  Model/StoreFsX.lean; lemmas: Proofs/StoreFsX*.lean.

  `crashImageX` tears the last write whatever it is (append or the 16-byte header
  rewrite); `xScriptOps` are the file operations of a script with faults that took
  effect, in the order the code issues them (compared op by op, failed attempts
  included, with the strace'd syscalls of the real writers).
-/
import GunYu.Props.C08
import GunYu.Proofs.StoreFsXSafe

namespace GunYu.Props.C08
open GunYu GunYu.Store GunYu.StoreFs GunYu.StoreFsX

/-- **crash_bytes_true_torn.** `crash_bytes_true` with the last write torn WHATEVER it
    is: for every script of the writers, at every instant the process may die (`n`
    operations issued, the last one — an append or a header rewrite — cut after `k`
    bytes), every byte a reader of the re-opened cache delivers is the source's. -/
theorem crash_bytes_true_torn (src : Nat → UInt8) (l m : Nat) (ops : List DOp) (hwf : (Disk.init l m).wf ops)
    (hsrc : SrcOk src (Disk.init l m) ops) (n k : Nat) (verify : Bool) (off : Nat)
    (bs : Bytes) (e : ServeEnd)
    (hs : serve (crashImageX [] (scriptOps (Disk.init l m) ops) n k) verify off = some (bs, e)) :
    ∀ j b, bs[j]? = some b → b = src (off + j) := by
  have hpos : Pos (OpTrueX src) [] (scriptOps (Disk.init l m) ops) :=
    Pos.mono (fun fs o h => OpTrueX_of_OpTrue fs o h) (script_ops_true src l m ops hwf hsrc)
  exact reopen_bytes_true src _ (crashImageX_true (fsTrue_nil src) _ hpos n k) verify off bs e hs

/-- **crash_snapshot_true_torn.** `crash_snapshot_true` (hence `crash_snapshot_complete`)
    for crash images with a torn header rewrite as well. -/
theorem crash_snapshot_true_torn (l m : Nat) (ops : List DOp) (hwf : (Disk.init l m).wf ops) (n k L S : Nat) :
    let img := crashImageX [] (scriptOps (Disk.init l m) ops) n k
    (reopen img).rdb = some (L, S) →
      ∃ c, img.get (rdbName L S) = some c ∧ 0 < S ∧ c.length = S ∧
        ∃ j, j ≤ ops.length ∧ received (ops.take j) = some ⟨L, S, c, false⟩ := by
  intro img h
  obtain ⟨⟨content, hmem⟩, _⟩ := tmp_snapshot_not_offered img L S h
  obtain ⟨c', hget, hmem'⟩ := get_some_of_mem hmem
  have hok : RdbOkP (Received ops) img :=
    crashImageX_rdbOkP (by intro e he; cases he) _
      (scriptOps_safeP ops ops [] _ _ rfl hwf (tmpRel_init l m) (GInv.init l m)) n k
  exact ⟨c', hget, hok _ hmem' L S rfl⟩

/-- **fault_ops_true.** The writers' scripts WITH FAULTS keep the directory truthful:
    every operation that takes effect — torn header rewrites, the operations before a
    failed open, what is left undone by failed removals — is truthful where it is
    applied (`script_ops_true` for the extended operation set). -/
theorem fault_ops_true (src : Nat → UInt8) (l m : Nat) (xs : List XOp) (hwf : wfX (XDisk.init l m) xs)
    (hsrc : SrcOkX src (XDisk.init l m) xs) :
    ∀ pre op post, xScriptOps (XDisk.init l m) xs = pre ++ op :: post → OpTrueX src (FS.applyAll [] pre) op :=
  (xrun_ok (src := src) (P := fun _ _ _ => True) ⟨"", none⟩ xs (fun _ _ _ _ => trivial) xs [] _ rfl hwf hsrc
    (xinv_init src l m) (GInv.init l m)).1

/-- **fault_crash_bytes_true.** For EVERY script of the writers with faults anywhere
    (header rewrite failing after `k' < 16` bytes at close or at rotation, the open of
    the next segment failing, removals failing at close / at an incomplete snapshot /
    in a collector pass — any number of them, followed by any further steps), at EVERY
    instant the process may die, the last write torn at any length: every byte a
    reader of the re-opened cache delivers — with or without verification — is the
    source's byte at that offset. -/
theorem fault_crash_bytes_true (src : Nat → UInt8) (l m : Nat) (xs : List XOp) (hwf : wfX (XDisk.init l m) xs)
    (hsrc : SrcOkX src (XDisk.init l m) xs) (n k : Nat) (verify : Bool) (off : Nat)
    (bs : Bytes) (e : ServeEnd)
    (hs : serve (crashImageX [] (xScriptOps (XDisk.init l m) xs) n k) verify off = some (bs, e)) :
    ∀ j b, bs[j]? = some b → b = src (off + j) :=
  reopen_bytes_true src _ (xcrash_true src l m xs hwf hsrc n k) verify off bs e hs

/-- **fault_crash_snapshot_true.** … and a snapshot the re-opened cache OFFERS is a
    committed file holding exactly the announced number of bytes, exactly the bytes a
    snapshot writer of the script received for that announcement (no hypothesis on the
    bytes: the snapshot side needs no source) — also when removals failed and left
    temporary or committed snapshot files behind that the index no longer knows. -/
theorem fault_crash_snapshot_true (l m : Nat) (xs : List XOp) (hwf : wfX (XDisk.init l m) xs) (n k L S : Nat) :
    let img := crashImageX [] (xScriptOps (XDisk.init l m) xs) n k
    (reopen img).rdb = some (L, S) →
      ∃ c, img.get (rdbName L S) = some c ∧ 0 < S ∧ c.length = S ∧
        ∃ j, j ≤ xs.length ∧ received ((xs.take j).map recvOp) = some ⟨L, S, c, false⟩ := by
  intro img h
  obtain ⟨⟨content, hmem⟩, _⟩ := tmp_snapshot_not_offered img L S h
  obtain ⟨c', hget, hmem'⟩ := get_some_of_mem hmem
  obtain ⟨hpos, hlen, j, hj, hr⟩ := xcrash_received l m xs hwf n k _ hmem' L S rfl
  refine ⟨c', hget, hpos, hlen, j, by simpa using hj, ?_⟩
  rw [List.map_take]
  exact hr

/-- **fault_crash_snapshot_complete.** the length part alone -/
theorem fault_crash_snapshot_complete (l m : Nat) (xs : List XOp) (hwf : wfX (XDisk.init l m) xs) (n k L S : Nat) :
    let img := crashImageX [] (xScriptOps (XDisk.init l m) xs) n k
    (reopen img).rdb = some (L, S) → ∃ c, img.get (rdbName L S) = some c ∧ c.length = S := by
  intro img h
  obtain ⟨c, hget, _, hlen, _⟩ := fault_crash_snapshot_true l m xs hwf n k L S h
  exact ⟨c, hget, hlen⟩

/-! ### non-vacuity -/

/-- a script with every kind of fault: a header rewrite failing after 3 bytes at a
    rotation, a new writer, a failing open at the next rotation, a collector pass whose
    removals fail, an empty segment whose removal fails, an incomplete snapshot whose
    temporary file cannot be removed, a new snapshot over the leftovers -/
def exFaults : List XOp :=
  [.op (.setRunId "a"), .op (.newAofWriter 100), .op (.aofAppend [1, 2, 3]),
   .aofAppendHdrFail [4, 5, 6, 7, 8, 9, 10, 11, 12, 13] 3,
   .op (.newAofWriter 113), .aofAppendOpenFail [14, 15, 16, 17, 18, 19, 20, 21, 22, 23],
   .gcRmFail [] true, .op (.newAofWriter 123), .aofCloseRmFail,
   .op (.newRdbWriter 200 3), .op (.rdbAppend [1]), .rdbCloseRmFail,
   .op (.newRdbWriter 200 3), .op (.rdbAppend [7, 8, 9]), .op (.newAofWriter 200), .op (.aofAppend [9]),
   .aofCloseHdrFail 0]

example : wfX (XDisk.init 24 30) exFaults := by decide

-- the operations that took effect around the first fault: data, then 3 of the 16 header bytes
example : ((xScriptOps (XDisk.init 24 30) exFaults).drop 3).take 2 =
    [.append (.aof 100) [4, 5, 6, 7, 8, 9, 10, 11, 12, 13],
     .pwriteHdr (.aof 100) ((closedHeader [1, 2, 3, 4, 5, 6, 7, 8, 9, 10, 11, 12, 13]).take 3)] := by decide +kernel

-- the failed attempts are part of the run (what strace shows), not of the directory
example : ((xrun (XDisk.init 24 30) exFaults).filter (fun a => !a.ok)).length = 5 := by decide +kernel

-- a collector pass whose removal fails: the index forgets the segment, the file stays, and the
-- re-opened cache serves it again (it still holds the source's bytes)
def exGcFail : List XOp :=
  [.op (.setRunId "a"), .op (.newAofWriter 100), .op (.aofAppend [1, 2, 3, 4, 5, 6, 7, 8, 9, 10]),
   .op (.aofAppend [11, 12, 13, 14, 15, 16, 17, 18, 19, 20]), .gcRmFail [] true]
example : wfX (XDisk.init 24 12) exGcFail := by decide
example : (xrun (XDisk.init 24 12) exGcFail).getLast? = some ⟨.remove (.aof 100), false⟩ := by decide +kernel
example : (xfinal (XDisk.init 24 12) exGcFail).d.segs.map (·.left) = [110] := by decide +kernel
example : ((reopen (xfinal (XDisk.init 24 12) exGcFail).fs).segs.map (·.left)) = [100, 110] := by decide +kernel

-- the final image: the snapshot committed over the leftover temporary file, offered, complete
example : (reopen (crashImageX [] (xScriptOps (XDisk.init 24 30) exFaults) 99 0)).rdb = some (200, 3) := by decide +kernel

-- a crash in the middle of a header rewrite of a fault-free script: 5 of 16 header bytes on disk
example : crashImageX [] (scriptOps (Disk.init 20 0) [.setRunId "a", .newAofWriter 100, .aofAppend [1, 2, 3, 4, 5]]) 4 5 =
    [(.aof 100, (closedHeader [1, 2, 3, 4, 5]).take 5 ++ List.replicate 11 0 ++ [1, 2, 3, 4, 5])] := by decide +kernel

-- a reader without verification serves the bytes, a verifying reader refuses the torn header
example : serve (crashImageX [] (scriptOps (Disk.init 20 0) [.setRunId "a", .newAofWriter 100, .aofAppend [1, 2, 3, 4, 5]]) 4 5)
    false 101 = some ([2, 3, 4, 5], ServeEnd.eof) := by decide +kernel
example : serve (crashImageX [] (scriptOps (Disk.init 20 0) [.setRunId "a", .newAofWriter 100, .aofAppend [1, 2, 3, 4, 5]]) 4 5)
    true 101 = some ([], ServeEnd.corrupt) := by decide +kernel

-- the hypotheses of `fault_crash_bytes_true` are satisfiable with a fault in the script
example : SrcOkX (fun i => UInt8.ofNat (i - 99)) (XDisk.init 20 0)
    [.op (.setRunId "a"), .op (.newAofWriter 100), .aofAppendHdrFail [1, 2, 3, 4, 5] 7] := by
  refine ⟨trivial, trivial, ?_, trivial⟩
  intro i b h
  match i, h with
  | 0, h => simp at h; subst h; decide
  | 1, h => simp at h; subst h; decide
  | 2, h => simp at h; subst h; decide
  | 3, h => simp at h; subst h; decide
  | 4, h => simp at h; subst h; decide
  | n + 5, h => simp at h

end GunYu.Props.C08
