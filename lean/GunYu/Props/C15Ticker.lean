/-
  C15 — cmd/syncer.go clusterTicker with election calls of any duration
  (Model/LeaseTicker.lean; parameters regenerated into Gen/TickerParams.lean).

  The schedule condition `TAllowed` of the timed system model (real time does
  not pass `okSent + hold` while an instance leads) is what these theorems
  establish for the ticker: whenever the leader's clusterTicker returns, and as
  long as it has not, the send instant of its last successful campaign /
  renewal is at most `hold` back — for EVERY script of answers with EVERY
  duration (incl. calls that never return), every renew period, hold, horizon
  and every instant at which somebody else closes the wait.
-/
import GunYu.Model.LeaseTicker

set_option linter.unusedSimpArgs false
set_option linter.unusedVariables false

namespace GunYu.Props.C15
open GunYu GunYu.Lease

theorem stopAt_le (dl : Nat) (ext : Option Nat) : stopAt dl ext ≤ dl := by
  unfold stopAt
  cases ext with
  | none => exact Nat.le_refl _
  | some e => dsimp only; split <;> omega

theorem stopOut_spec (calls : List Nat) (dl : Nat) (ext : Option Nat) (hor : Nat) :
    (stopOut calls dl ext hor).deadline = dl ∧
    (∀ r, (stopOut calls dl ext hor).returned = some r → r ≤ dl) ∧
    ((stopOut calls dl ext hor).returned = none → (stopOut calls dl ext hor).upto ≤ dl) := by
  unfold stopOut
  cases ext with
  | none =>
    dsimp only
    by_cases h : dl ≤ hor
    · simp only [h, ↓reduceIte]
      exact ⟨trivial, fun r hr => by simp only [Option.some.injEq] at hr; omega, fun hr => by simp at hr⟩
    · simp only [h, ↓reduceIte]
      exact ⟨trivial, fun r hr => by simp at hr, fun _ => by omega⟩
  | some e =>
    dsimp only
    by_cases he : e < dl
    · simp only [he, ↓reduceIte]
      by_cases h : e ≤ hor
      · simp only [h, ↓reduceIte]
        exact ⟨trivial, fun r hr => by simp only [Option.some.injEq] at hr; omega, fun hr => by simp at hr⟩
      · simp only [h, ↓reduceIte]
        exact ⟨trivial, fun r hr => by simp at hr, fun _ => by omega⟩
    · simp only [he, ↓reduceIte]
      by_cases h : dl ≤ hor
      · simp only [h, ↓reduceIte]
        exact ⟨trivial, fun r hr => by simp only [Option.some.injEq] at hr; omega, fun hr => by simp at hr⟩
      · simp only [h, ↓reduceIte]
        exact ⟨trivial, fun r hr => by simp at hr, fun _ => by omega⟩

/-- `util.Retry`: whatever it reports has returned by the instant the wait is
    closed from outside, and not before it was started -/
theorem tries_spec (stop : Nat) : ∀ (k cur : Nat) (e : ErrClass) (script : List TAns) (calls : List Nat),
    cur ≤ stop →
    match tries stop k cur e script calls with
    | .ok ret _ _ => cur ≤ ret ∧ ret ≤ stop
    | .failed ret _ _ _ => cur ≤ ret ∧ ret ≤ stop
    | .stuck _ => True := by
  intro k
  induction k with
  | zero => intro cur e script calls h; simp only [tries]; exact ⟨Nat.le_refl _, h⟩
  | succ k ih =>
    intro cur e script calls h
    simp only [tries]
    by_cases h1 : (script.headD { res := .ok, dur := 0 }).res = .blk
    · simp only [h1, ↓reduceIte]
    · simp only [h1, ↓reduceIte]
      by_cases h2 : stop < cur + (script.headD { res := .ok, dur := 0 }).dur
      · simp only [h2, ↓reduceIte]
      · simp only [h2, ↓reduceIte]
        by_cases h3 : renewErr (script.headD { res := .ok, dur := 0 }).res = .ok
        · simp only [h3, ↓reduceIte]; omega
        · simp only [h3, ↓reduceIte]
          have := ih (cur + (script.headD { res := .ok, dur := 0 }).dur)
            (renewErr (script.headD { res := .ok, dur := 0 }).res) script.tail (cur :: calls) (by omega)
          generalize tries stop k (cur + (script.headD { res := .ok, dur := 0 }).dur)
            (renewErr (script.headD { res := .ok, dur := 0 }).res) script.tail (cur :: calls) = T at this ⊢
          cases T with
          | ok ret rest calls' => dsimp only at this ⊢; omega
          | failed ret e' rest calls' => dsimp only at this ⊢; omega
          | stuck calls' => trivial

theorem ticksDuring_gt (R next : Nat) (buf : Bool) (b : Nat) (hR : 0 < R) (h : b < next ∨ next ≤ b) :
    b < (ticksDuring R next buf b).1 := by
  unfold ticksDuring
  by_cases hn : next ≤ b
  · simp only [hn, ↓reduceIte]
    have h1 : (b - next) % R < R := Nat.mod_lt _ hR
    have h2 := Nat.div_add_mod (b - next) R
    have : R * ((b - next) / R + 1) = R * ((b - next) / R) + R := by rw [Nat.mul_add, Nat.mul_one]
    omega
  · simp only [hn, ↓reduceIte]; omega

/-- THE ticker theorem, calls of any duration. For the re-arm expression of
    the source (`sentAt`-based): for EVERY script, renew period, hold, horizon,
    outside close and loop state with `t ≤ dl ≤ t + H`, `t ≤ next`:
    when clusterTicker returns it does so no later than the lease-timer
    deadline (= send instant of the last successful call + hold), and while it
    has not returned the observation is still inside that window. -/
theorem tickd_leader_within_hold (P : TParams) (hP : P.rearmFromSend = true) (R H hor : Nat) (hR : 0 < R)
    (ext : Option Nat) :
    ∀ (fuel t next : Nat) (buf : Bool) (dl : Nat) (script : List TAns) (calls : List Nat),
      t ≤ dl → dl ≤ t + H → t ≤ next →
      (∀ r, (leaderLoop P R H hor ext fuel t next buf dl script calls).returned = some r →
          r ≤ (leaderLoop P R H hor ext fuel t next buf dl script calls).deadline) ∧
      ((leaderLoop P R H hor ext fuel t next buf dl script calls).returned = none →
          (leaderLoop P R H hor ext fuel t next buf dl script calls).upto ≤
            (leaderLoop P R H hor ext fuel t next buf dl script calls).deadline) := by
  intro fuel
  induction fuel with
  | zero =>
    intro t next buf dl script calls h1 h2 h3
    simp only [leaderLoop]
    exact ⟨fun r hr => by simp at hr, fun _ => h1⟩
  | succ fuel ih =>
    intro t next buf dl script calls h1 h2 h3
    simp only [leaderLoop]
    have hsl := stopAt_le dl ext
    by_cases c1 : stopAt dl ext < (if buf = true then t else next)
    · simp only [c1, ↓reduceIte]
      obtain ⟨hd, hr, hn⟩ := stopOut_spec calls dl ext hor
      rw [hd]; exact ⟨hr, hn⟩
    · simp only [c1, ↓reduceIte]
      by_cases c2 : hor < (if buf = true then t else next)
      · simp only [c2, ↓reduceIte]
        exact ⟨fun r hr => by simp at hr, fun _ => by omega⟩
      · simp only [c2, ↓reduceIte]
        have htt : t ≤ (if buf = true then t else next) := by split <;> omega
        have hts := tries_spec (stopAt dl ext) P.retry (if buf = true then t else next) .other script calls (by omega)
        split
        · -- stuck
          obtain ⟨hd, hr, hn⟩ := stopOut_spec ‹List Nat› dl ext hor
          rw [hd]; exact ⟨hr, hn⟩
        · -- failed
          rename_i ret e rest calls' heq
          rw [heq] at hts
          dsimp only at hts
          refine ⟨fun r hr => ?_, fun hr => by simp at hr⟩
          simp only [Option.some.injEq] at hr
          show r ≤ dl
          omega
        · -- ok
          rename_i ret rest calls' heq
          rw [heq] at hts
          dsimp only at hts
          simp only [hP, ↓reduceIte]
          apply ih
          · omega
          · omega
          · have hn1 : ret < (if buf = true then next else next + R) ∨ (if buf = true then next else next + R) ≤ ret := by omega
            have := ticksDuring_gt R (if buf = true then next else next + R) false ret hR hn1
            omega

/-- the same for the whole ticker as cmd/syncer.go stands (parameters from
    the source), campaign sent `ago ≤ hold` before the ticker started -/
theorem tickd_leads_within_hold (R H ago hor : Nat) (hR : 0 < R) (hago : ago ≤ H) (ext : Option Nat)
    (pre : Bool) (script : List TAns) :
    (∀ r, (tickerRunD srcParams true R H ago hor ext pre script).returned = some r →
        r ≤ (tickerRunD srcParams true R H ago hor ext pre script).deadline) ∧
    ((tickerRunD srcParams true R H ago hor ext pre script).returned = none →
        (tickerRunD srcParams true R H ago hor ext pre script).upto ≤
          (tickerRunD srcParams true R H ago hor ext pre script).deadline) := by
  unfold tickerRunD
  cases pre with
  | true =>
    simp only [↓reduceIte]
    exact ⟨fun r hr => by simp only [Option.some.injEq] at hr; omega, fun hr => by simp at hr⟩
  | false =>
    simp only [Bool.false_eq_true, ↓reduceIte]
    exact tickd_leader_within_hold srcParams rfl R H hor hR ext _ 0 R false (H - ago) script []
      (Nat.zero_le _) (by omega) (Nat.zero_le _)

/-- the hand-written `tickerRun` (Model/Lease.lean: two attempts per tick, the theorems
    `ticker_failed_renewal_stops_leader` … are about it) uses the retry count of the source; the driver
    additionally compares `tickerRun` with `tickerRunD` (durations 0) on every ticker scenario it is given -/
theorem ticker_retry_is_two : srcParams.retry = 2 := rfl

-- non-vacuity (R = 1.5 s, hold 3.5 s = lease 5 s − R, campaign sent 200 ms before the ticker started)
-- a renewal sent at 3000 that takes 1637 ms: the tick of 4500 waits in the channel and is taken at 4637;
-- that call never returns: the lease timer, armed from the SEND at 3000, ends the ticker at 6500
example : tickerRunD srcParams true 1500 3500 200 9750 none false [⟨.ok, 0⟩, ⟨.ok, 1637⟩, ⟨.blk, 0⟩]
    = { calls := [1500, 3000, 4637], closed := some (6500, .notLeader), returned := some 6500,
        deadline := 6500, upto := 6500 } := by decide
-- COUNTER-WITNESS for the parameter: were the timer re-armed from the instant the answer ARRIVED,
-- the same script keeps the instance leading until 8137 — the lease written at 3000 ends at 8000
example : (tickerRunD { retry := 2, rearmFromSend := false } true 1500 3500 200 9750 none false
    [⟨.ok, 0⟩, ⟨.ok, 1637⟩, ⟨.blk, 0⟩]).returned = some 8137 := by decide
-- a renewal slower than the whole hold: the lease timer does not wait for it
example : (tickerRunD srcParams true 1500 3500 200 9750 none false [⟨.ok, 4037⟩]).returned = some 3300 := by decide
-- a first attempt that fails at once, a slow second attempt that succeeds: the leader goes on; the tick of 4500
-- waited in the channel, the renewal it starts at 4837 is refused twice: closed with ErrNotLeader there
example : tickerRunD srcParams true 1500 3500 200 7000 none false
      [⟨.ok, 0⟩, ⟨.err, 0⟩, ⟨.ok, 1837⟩, ⟨.notLeader, 0⟩, ⟨.notLeader, 0⟩]
    = { calls := [1500, 3000, 3000, 4837, 4837], closed := some (4837, .notLeader), returned := some 4837,
        deadline := 6500, upto := 4837 } := by decide
-- the syncer ends on its own at 2000: the ticker returns then
example : (tickerRunD srcParams true 1500 3500 200 9750 (some 2000) false []).returned = some 2000 := by decide
-- the wait is closed before the ticker starts: it returns at once, no call
example : (tickerRunD srcParams true 1500 3500 200 9750 none true [⟨.ok, 0⟩]).calls = [] := by decide
-- a follower whose slow campaign loses goes on; the next one wins
example : (tickerRunD srcParams false 1500 3500 200 9750 none false [⟨.follower, 2037⟩, ⟨.leader, 0⟩]).closed
    = some (3537, .ok) := by decide

end GunYu.Props.C15
