/-
  C20 (session 5) — `util.FnvHash` is `hash/fnv.New32a` + `Write` + `Sum32`: the public 32-bit FNV-1a
  (offset basis 2166136261 = 0x811c9dc5, prime 16777619 = 0x01000193; for every byte: hash ^= byte, hash *= prime,
  arithmetic modulo 2^32). `fnv1a32` is that algorithm written on machine words (`UInt32`: xor and wrapping multiplication
  are the hardware's); the model's `fnv32a` (natural numbers with an explicit `% 2^32`) is PROVED equal to it. The tie to
  the library call itself is the correspondence op c20fnv (the real util.FnvHash on random keys, the empty key included).
-/
import GunYu.Model.RestoreWorker

namespace GunYu.Props.C20
open GunYu GunYu.Restore

def fnvOffset32 : UInt32 := 2166136261
def fnvPrime32 : UInt32 := 16777619

/-- 32-bit FNV-1a on machine words -/
def fnv1a32 (bs : Bytes) : UInt32 := bs.foldl (fun h b => (h ^^^ b.toUInt32) * fnvPrime32) fnvOffset32

private theorem fnv_step (h : UInt32) (b : UInt8) :
    ((h ^^^ b.toUInt32) * fnvPrime32).toNat = ((h.toNat ^^^ b.toNat) * 16777619) % 4294967296 := by
  rw [UInt32.toNat_mul, UInt32.toNat_xor]
  simp [fnvPrime32]

private theorem fnv_fold (bs : Bytes) (h : UInt32) :
    (bs.foldl (fun h b => (h ^^^ b.toUInt32) * fnvPrime32) h).toNat =
      bs.foldl (fun h b => ((h ^^^ b.toNat) * 16777619) % 4294967296) h.toNat := by
  induction bs generalizing h with
  | nil => rfl
  | cons b bs ih => simp only [List.foldl_cons]; rw [ih, fnv_step]

/-- the model's hash IS FNV-1a/32 -/
theorem fnv32a_is_fnv1a32 (bs : Bytes) : fnv32a bs = (fnv1a32 bs).toNat := by
  unfold fnv32a fnv1a32
  rw [fnv_fold]; rfl

theorem fnv32a_lt (bs : Bytes) : fnv32a bs < 2 ^ 32 := by
  rw [fnv32a_is_fnv1a32]; exact (fnv1a32 bs).toNat_lt

/-- the published test vectors of FNV-1a/32: "" → 0x811c9dc5, "a" → 0xe40c292c, "foobar" → 0xbf9cf968 -/
example : fnv1a32 [] = 0x811c9dc5 := by decide
example : fnv1a32 [97] = 0xe40c292c := by decide
example : fnv1a32 [102, 111, 111, 98, 97, 114] = 0xbf9cf968 := by decide
example : fnv32a [102, 111, 111, 98, 97, 114] = 0xbf9cf968 := by decide

end GunYu.Props.C20
