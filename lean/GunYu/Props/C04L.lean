/-
  C04, session 4 — loops driven by UNGUARDED count fields (stream PEL sizes,
  entry num-fields, consumer counts, list / set / hash lengths …).

  The code bounds none of these counts; the loops end because a round that finds
  no bytes fails (an error from the tee'd reader in ReadBuffer, a recovered panic
  of the in-memory reader in ExecCmd). What a theorem can say about that, for
  EVERY round reader that reads at least k ≥ 1 bytes when it succeeds: the rounds
  that complete — and so everything a round appends or inserts — are at most
  |bytes present| / k, whatever the count field holds; and a count that a walk
  accepted was backed by k bytes per unit (where the decoder reads the count with the same width and signedness —
  see `walked_count_is_backed`).

  Instances proved here: the global PEL of a consumer group (25 bytes per round:
  two map insertions per round in ExecCmd, so ≤ 2·|buf|/25 insertions), the
  consumer PEL (16 bytes per round), strings (1 byte per round). For the listpack
  rounds of ExecCmd (`lp.Next()`: entry-num-fields) the hypothesis "a round reads
  at least one byte or panics" is C03's listpack model / the D23 repair, not
  re-proved here.
-/
import GunYu.Props.C04F
import GunYu.Proofs.RdbLoops

namespace GunYu.Props.C04
open GunYu GunYu.RdbFrame GunYu.RdbFrameX

/-- **a count field buys no more rounds than there are bytes** -/
theorem count_loop_linear (k : Nat) (r : Rd Unit) (h : ConsumesK k r) (n : Nat) (xs : Bytes) :
    k * iterations n r xs ≤ xs.length ∧ iterations n r xs ≤ n :=
  ⟨iterations_le_bytes k r h n xs, iterations_le_count r n xs⟩

/-- a count that a walk (`ReadBuffer`) accepted is backed by the bytes: `k · n ≤ |input|`. The value decoder (`ExecCmd`)
    re-reads the same bytes; where it reads the count the same way it runs a loop that was already paid for. That is NOT
    everywhere the case: `numConsumer` is read as 32 bits by ReadBuffer (`ReadLengthP`) and as 64 bits by ExecCmd
    (`ReadLength64P`), and a count ≥ 2^63 makes ReadBuffer's `int(n)` loops run zero times while ExecCmd's `uint64` loops
    run — for those ExecCmd loops only `count_loop_linear` applies (rounds ≤ bytes/k, then the read fails: an error). -/
theorem walked_count_is_backed (k : Nat) (r : Rd Unit) (h : ConsumesK k r) (n : Nat) (xs rest : Bytes)
    (hw : repeatN n r xs = .ok () rest) : k * n ≤ xs.length := by
  have := iterations_le_bytes k r h n xs
  rw [repeatN_ok_iterations r n xs rest hw] at this
  exact this

/-- the global PEL (`pelSize` unguarded, two map insertions per round in `StreamParser.ExecCmd`): at most
    2·|bytes|/25 insertions whatever `pelSize` is -/
theorem pel_loop_linear (pelSize : Nat) (xs : Bytes) :
    25 * (2 * iterations pelSize pelEntry xs) ≤ 2 * xs.length := by
  have := iterations_le_bytes 25 pelEntry pelEntry_consumes pelSize xs
  omega

/-- the consumer PEL (16 bytes per round) -/
theorem consumer_pel_loop_linear (pelSize : Nat) (xs : Bytes) :
    16 * iterations pelSize (skipBytes 16) xs ≤ xs.length :=
  iterations_le_bytes 16 _ (consumesK_skipBytes 16) pelSize xs

/-- every element loop of the walks (list, set, hash, zset, quicklist, stream nodes): one string per round at least -/
theorem string_loop_linear (n : Nat) (xs : Bytes) : iterations n strX xs ≤ xs.length := by
  have := iterations_le_bytes 1 strX (consumesK_of_consumes strX_consumes) n xs
  omega

/-! non-vacuity: a PEL size of 2^62 over 60 bytes completes two rounds; a walk that accepted 2 rounds had 50 bytes -/
example : iterations (2 ^ 62) pelEntry (List.replicate 60 0) = 2 := by decide +kernel
example : iterations 3 pelEntry (List.replicate 60 0) = 2 := by decide +kernel
example : repeatN 2 pelEntry (List.replicate 60 0) = .ok () (List.replicate 10 0) := by rfl
example : 25 * 2 ≤ (List.replicate 60 (0 : UInt8)).length :=
  walked_count_is_backed 25 pelEntry pelEntry_consumes 2 _ (List.replicate 10 0) (by rfl)

end GunYu.Props.C04
