/-
  C20 — the whole run: a snapshot is a sequence of key groups with pairwise
  distinct keys (one DB; "distinct" AFTER TargetDb / TargetDbMap and replaceHashTag
  rewriting); the worker's entry stream is their concatenation — with keyless
  entries (AUX fields, functions) anywhere between, see `StreamOf` — and may be cut
  ANYWHERE into a first part and a CONTINUED part (the same loop going on, also
  between the chunks of one key: `Run.resume`; that is the induction step of the
  whole-run theorems, NOT what a restarted replay does — for the restart see
  Props/C20Rerun.lean). Every key of the snapshot, every pre-existing key of the target and
  every other cell of the keyspace is accounted for, for each policy, for the
  plain and for the bidirectional worker.
-/
import GunYu.Props.C20
import GunYu.Proofs.RestoreRun

namespace GunYu.Props.C20
open GunYu GunYu.Restore

/-- a key group whose entries have the shape the loader delivers -/
def GoodGroup (g : KGroup) : Prop := Group g.1 g.2 ∧ Value g.1 g.2

/-- what the plain worker (`RdbReplay.Replay` per entry) does with a key group -/
def plainEff (pol : Policy) (cfg : Cfg) (t : Target) (g : KGroup) : Eff :=
  match pol with
  | .replace => .set (snapshotObj cfg t g.1 g.2)
  | .ignore => if (t.get g.key).isSome then .keep else .set (snapshotObj cfg t g.1 g.2)
  | .error => if (t.get g.key).isSome then .stop .errExists else .set (snapshotObj cfg t g.1 g.2)

/-- what the bidirectional worker does with a key group: the probe of `ignore` /
    `error` comes first; a payload the target cannot load fails the unit -/
def bisyncEff (pol : Policy) (cfg : Cfg) (t : Target) (g : KGroup) : Eff :=
  if (t.get g.key).isSome = true ∧ pol = .ignore then .keep
  else if (t.get g.key).isSome = true ∧ pol = .error then .stop .errExists
  else if useRestore cfg g.1 = true ∧ t.bad g.key = true then .stop .errBad
  else .set (snapshotObj cfg t g.1 g.2)

theorem plain_runner (pol : Policy) (cfg : Cfg) : Runner (runPlain pol cfg) (plainEff pol cfg) GoodGroup where
  nil := runPlain_nil pol cfg
  split := runPlain_split pol cfg
  inv := runPlain_inv pol cfg
  loc := by
    intro t t' g h1 h2 h3
    have h3' : t'.get g.1.key = t.get g.1.key := h3
    have hs : snapshotObj cfg t' g.1 g.2 = snapshotObj cfg t g.1 g.2 := by simp only [snapshotObj, h1, h2]
    cases pol <;> simp only [plainEff, hs]
    all_goals (cases hx : t.get g.key <;> simp [h3, hx])
  keep := by
    intro st t g hg he
    cases pol <;> simp only [plainEff] at he
    · cases he
    · split at he
      · rename_i hs
        obtain ⟨o, ho⟩ := Option.isSome_iff_exists.mp hs
        obtain ⟨h1, _, h3, _⟩ := ignore_untouched cfg st t g.1 g.2 o hg.1 ho
        exact ⟨h1, h3⟩
      · cases he
    · split at he <;> cases he
  set := by
    intro st t g o hg he
    cases pol <;> simp only [plainEff] at he
    · cases he
      obtain ⟨h1, h2, h3, _⟩ := replace_final cfg st t g.1 g.2 hg.1 hg.2
      exact ⟨h1, h2, h3⟩
    · split at he
      · cases he
      · rename_i hs
        cases he
        have hn : t.get g.1.key = none := by simpa [KGroup.key] using hs
        exact absent_final .ignore cfg st t g.1 g.2 hg.1 hg.2 hn
    · split at he
      · cases he
      · rename_i hs
        cases he
        have hn : t.get g.1.key = none := by simpa [KGroup.key] using hs
        exact absent_final .error cfg st t g.1 g.2 hg.1 hg.2 hn
  stop := by
    intro st t g out hg he
    cases pol <;> simp only [plainEff] at he
    · cases he
    · split at he <;> cases he
    · split at he
      · rename_i hs
        cases he
        obtain ⟨o, ho⟩ := Option.isSome_iff_exists.mp hs
        obtain ⟨h1, _, h3⟩ := error_before_modify cfg st t g.1 g.2 o hg.1 ho
        exact ⟨by simp, h1, h3⟩
      · cases he

theorem bisync_runner (pol : Policy) (cfg : Cfg) : Runner (runBisync pol cfg) (bisyncEff pol cfg) GoodGroup where
  nil := runBisync_nil pol cfg
  split := runBisync_split pol cfg
  inv := runBisync_inv pol cfg
  loc := by
    intro t t' g h1 h2 h3
    have hs : snapshotObj cfg t' g.1 g.2 = snapshotObj cfg t g.1 g.2 := by simp only [snapshotObj, h1, h2]
    simp only [bisyncEff, hs, h2, h3]
  keep := by
    intro st t g hg he
    unfold bisyncEff at he
    split at he
    · rename_i hc
      obtain ⟨o, ho⟩ := Option.isSome_iff_exists.mp hc.1
      have hp := hc.2; subst hp
      obtain ⟨h1, _, h3⟩ := ignore_untouched_bisync cfg st t g.1 g.2 o hg.1 ho
      exact ⟨h1, fun d k => by show (runBisync Policy.ignore cfg st t (g.1 :: g.2)).tgt.ks d k = _; rw [h3]⟩
    · split at he
      · cases he
      · split at he <;> cases he
  set := by
    intro st t g o hg he
    unfold bisyncEff at he
    split at he
    · cases he
    · rename_i c1
      split at he
      · cases he
      · rename_i c2
        split at he
        · cases he
        · rename_i c3
          cases he
          have hb : useRestore cfg g.1 = true → t.bad g.1.key = false := by
            intro hu
            cases hbad : t.bad g.1.key
            · rfl
            · exact absurd ⟨hu, hbad⟩ c3
          cases hex : t.get g.1.key with
          | none => exact absent_final_bisync pol cfg st t g.1 g.2 hg.1 hg.2 hb hex
          | some o' =>
            have hsome : (t.get g.key).isSome = true := by simp [KGroup.key, hex]
            have hp : pol = .replace := by
              cases pol
              · rfl
              · exact absurd ⟨hsome, rfl⟩ c1
              · exact absurd ⟨hsome, rfl⟩ c2
            subst hp
            obtain ⟨h1, h2, h3, _⟩ := replace_final_bisync cfg st t g.1 g.2 hg.1 hg.2 hb
            exact ⟨h1, h2, h3⟩
  stop := by
    intro st t g out hg he
    unfold bisyncEff at he
    split at he
    · cases he
    · rename_i c1
      split at he
      · rename_i c2
        cases he
        obtain ⟨o, ho⟩ := Option.isSome_iff_exists.mp c2.1
        have hp := c2.2; subst hp
        obtain ⟨h1, _, h3⟩ := error_before_modify_bisync cfg st t g.1 g.2 o hg.1 ho
        exact ⟨by simp, h1, fun d k => by show (runBisync Policy.error cfg st t (g.1 :: g.2)).tgt.ks d k = _; rw [h3]⟩
      · rename_i c2
        split at he
        · rename_i c3
          cases he
          have hreach : t.get g.1.key = none ∨ pol = .replace := by
            cases hex : t.get g.1.key with
            | none => exact Or.inl rfl
            | some o' =>
              have hsome : (t.get g.key).isSome = true := by simp [KGroup.key, hex]
              refine Or.inr ?_
              cases pol
              · rfl
              · exact absurd ⟨hsome, rfl⟩ c1
              · exact absurd ⟨hsome, rfl⟩ c2
          obtain ⟨h1, h2⟩ := bad_data_bisync_fails pol cfg st t g.1 g.2 hg.1 c3.1 c3.2 hreach
          exact ⟨by simp, h1, h2⟩
        · cases he

/-! ## every split point -/

/-- the run over a stream cut at ANY point — first part, then CONTINUED by the same
    loop from the remembered state and the target the first part left, unless it
    failed — IS the run over the whole stream (requests, outcome, state, target).
    (`resume` = the loop going on. A RESTART after an interruption has a fresh
    state and begins at entry 0: Props/C20Rerun.lean.) -/
theorem resumed_is_whole (pol : Policy) (cfg : Cfg) (st : RState) (t : Target) (a b es : List Entry) (h : a ++ b = es) :
    (runPlain pol cfg st t a).resume (fun st' t' => runPlain pol cfg st' t' b) = runPlain pol cfg st t es := by
  rw [← h, runPlain_split]

theorem resumed_is_whole_bisync (pol : Policy) (cfg : Cfg) (st : RState) (t : Target) (a b es : List Entry)
    (h : a ++ b = es) :
    (runBisync pol cfg st t a).resume (fun st' t' => runBisync pol cfg st' t' b) = runBisync pol cfg st t es := by
  rw [← h, runBisync_split]

/-! ## the whole snapshot, every policy at once (effects of the groups in order, first stop) -/

/-- plain worker over a whole snapshot `gs` (key groups, pairwise distinct keys),
    from ANY remembered state and ANY target:
    (1) cells outside the snapshot's keys are untouched;
    (2) if no group stops the run, it ends ok and every key holds the result of its
        group's effect on what the key held at the START;
    (3) otherwise, at the first stopping group the run ends with that outcome, the
        keys before it hold their results and every other cell is untouched. -/
theorem whole_plain (pol : Policy) (cfg : Cfg) (st : RState) (t : Target) (gs : List KGroup)
    (hg : ∀ g ∈ gs, GoodGroup g) (hk : (gs.map KGroup.key).Nodup) :
    (∀ d k, ¬ (d = t.cur ∧ k ∈ gs.map KGroup.key) → (runPlain pol cfg st t (flat gs)).tgt.ks d k = t.ks d k) ∧
    ((∀ g ∈ gs, (plainEff pol cfg t g).isStop = false) →
      (runPlain pol cfg st t (flat gs)).out = .ok ∧
      ∀ g ∈ gs, (runPlain pol cfg st t (flat gs)).tgt.get g.key = (plainEff pol cfg t g).result (t.get g.key)) ∧
    (∀ pre g post out, gs = pre ++ g :: post → (∀ p ∈ pre, (plainEff pol cfg t p).isStop = false) →
      plainEff pol cfg t g = .stop out →
      (runPlain pol cfg st t (flat gs)).out = out ∧
      (∀ p ∈ pre, (runPlain pol cfg st t (flat gs)).tgt.get p.key = (plainEff pol cfg t p).result (t.get p.key)) ∧
      (∀ d k, ¬ (d = t.cur ∧ k ∈ pre.map KGroup.key) → (runPlain pol cfg st t (flat gs)).tgt.ks d k = t.ks d k)) :=
  (plain_runner pol cfg).whole gs st t hg hk

/-- the same for the bidirectional worker (`bisyncEff`: a payload the target cannot load stops the run) -/
theorem whole_bisync (pol : Policy) (cfg : Cfg) (st : RState) (t : Target) (gs : List KGroup)
    (hg : ∀ g ∈ gs, GoodGroup g) (hk : (gs.map KGroup.key).Nodup) :
    (∀ d k, ¬ (d = t.cur ∧ k ∈ gs.map KGroup.key) → (runBisync pol cfg st t (flat gs)).tgt.ks d k = t.ks d k) ∧
    ((∀ g ∈ gs, (bisyncEff pol cfg t g).isStop = false) →
      (runBisync pol cfg st t (flat gs)).out = .ok ∧
      ∀ g ∈ gs, (runBisync pol cfg st t (flat gs)).tgt.get g.key = (bisyncEff pol cfg t g).result (t.get g.key)) ∧
    (∀ pre g post out, gs = pre ++ g :: post → (∀ p ∈ pre, (bisyncEff pol cfg t p).isStop = false) →
      bisyncEff pol cfg t g = .stop out →
      (runBisync pol cfg st t (flat gs)).out = out ∧
      (∀ p ∈ pre, (runBisync pol cfg st t (flat gs)).tgt.get p.key = (bisyncEff pol cfg t p).result (t.get p.key)) ∧
      (∀ d k, ¬ (d = t.cur ∧ k ∈ pre.map KGroup.key) → (runBisync pol cfg st t (flat gs)).tgt.ks d k = t.ks d k)) :=
  (bisync_runner pol cfg).whole gs st t hg hk

/-! ## the three policies, whole snapshot, plain worker -/

/-- **replace**: every key of the snapshot ends with exactly the snapshot's value
    and expiry, whatever the target held; nothing else changes. -/
theorem replace_whole (cfg : Cfg) (st : RState) (t : Target) (gs : List KGroup)
    (hg : ∀ g ∈ gs, GoodGroup g) (hk : (gs.map KGroup.key).Nodup) :
    (runPlain .replace cfg st t (flat gs)).out = .ok ∧
    (∀ g ∈ gs, (runPlain .replace cfg st t (flat gs)).tgt.get g.key = some (snapshotObj cfg t g.1 g.2)) ∧
    (∀ d k, ¬ (d = t.cur ∧ k ∈ gs.map KGroup.key) → (runPlain .replace cfg st t (flat gs)).tgt.ks d k = t.ks d k) := by
  obtain ⟨h1, h2, _⟩ := whole_plain .replace cfg st t gs hg hk
  obtain ⟨o1, o2⟩ := h2 (fun g _ => rfl)
  exact ⟨o1, fun g hg' => o2 g hg', h1⟩

/-- **ignore**: every key the target held at the start is exactly as it was;
    every other key of the snapshot ends with the snapshot's value and expiry;
    nothing else changes; the run succeeds. -/
theorem ignore_whole (cfg : Cfg) (st : RState) (t : Target) (gs : List KGroup)
    (hg : ∀ g ∈ gs, GoodGroup g) (hk : (gs.map KGroup.key).Nodup) :
    (runPlain .ignore cfg st t (flat gs)).out = .ok ∧
    (∀ g ∈ gs, ∀ o, t.get g.key = some o → (runPlain .ignore cfg st t (flat gs)).tgt.get g.key = some o) ∧
    (∀ g ∈ gs, t.get g.key = none →
      (runPlain .ignore cfg st t (flat gs)).tgt.get g.key = some (snapshotObj cfg t g.1 g.2)) ∧
    (∀ d k, ¬ (d = t.cur ∧ k ∈ gs.map KGroup.key) → (runPlain .ignore cfg st t (flat gs)).tgt.ks d k = t.ks d k) := by
  obtain ⟨h1, h2, _⟩ := whole_plain .ignore cfg st t gs hg hk
  obtain ⟨o1, o2⟩ := h2 (fun g _ => by simp only [plainEff]; split <;> rfl)
  refine ⟨o1, ?_, ?_, h1⟩
  · intro g hg' o ho
    rw [o2 g hg']; simp [plainEff, ho, Eff.result]
  · intro g hg' ho
    rw [o2 g hg']; simp [plainEff, ho, Eff.result]

/-- **error**, no key of the snapshot on the target: as `replace` -/
theorem error_whole_clean (cfg : Cfg) (st : RState) (t : Target) (gs : List KGroup)
    (hg : ∀ g ∈ gs, GoodGroup g) (hk : (gs.map KGroup.key).Nodup) (hnone : ∀ g ∈ gs, t.get g.key = none) :
    (runPlain .error cfg st t (flat gs)).out = .ok ∧
    (∀ g ∈ gs, (runPlain .error cfg st t (flat gs)).tgt.get g.key = some (snapshotObj cfg t g.1 g.2)) ∧
    (∀ d k, ¬ (d = t.cur ∧ k ∈ gs.map KGroup.key) → (runPlain .error cfg st t (flat gs)).tgt.ks d k = t.ks d k) := by
  obtain ⟨h1, h2, _⟩ := whole_plain .error cfg st t gs hg hk
  obtain ⟨o1, o2⟩ := h2 (fun g hg' => by simp [plainEff, hnone g hg', Eff.isStop])
  refine ⟨o1, ?_, h1⟩
  intro g hg'
  rw [o2 g hg']; simp [plainEff, hnone g hg', Eff.result]

/-- **error**, some key of the snapshot on the target: the run stops with the
    key-exists error at the FIRST such key; the keys before it hold the snapshot's
    values; that key, every later key, every other pre-existing key and every
    other cell are exactly as they were. -/
theorem error_whole_stop (cfg : Cfg) (st : RState) (t : Target) (pre post : List KGroup) (g : KGroup) (o : Obj)
    (hg : ∀ x ∈ pre ++ g :: post, GoodGroup x) (hk : ((pre ++ g :: post).map KGroup.key).Nodup)
    (hnone : ∀ p ∈ pre, t.get p.key = none) (hex : t.get g.key = some o) :
    (runPlain .error cfg st t (flat (pre ++ g :: post))).out = .errExists ∧
    (∀ p ∈ pre, (runPlain .error cfg st t (flat (pre ++ g :: post))).tgt.get p.key = some (snapshotObj cfg t p.1 p.2)) ∧
    (∀ d k, ¬ (d = t.cur ∧ k ∈ pre.map KGroup.key) →
      (runPlain .error cfg st t (flat (pre ++ g :: post))).tgt.ks d k = t.ks d k) := by
  obtain ⟨_, _, h3⟩ := whole_plain .error cfg st t (pre ++ g :: post) hg hk
  obtain ⟨o1, o2, o3⟩ := h3 pre g post .errExists rfl
    (fun p hp => by simp [plainEff, hnone p hp, Eff.isStop]) (by simp [plainEff, hex])
  refine ⟨o1, ?_, o3⟩
  intro p hp
  rw [o2 p hp]; simp [plainEff, hnone p hp, Eff.result]

/-! ## the three policies, whole snapshot, bidirectional worker

  `hb`: where the RESTORE path is taken the target can load the payload; the
  other case is `bad_data_whole_bisync`. -/

private theorem not_bad {cfg : Cfg} {t : Target} {g : KGroup}
    (hb : useRestore cfg g.1 = true → t.bad g.key = false) : ¬ (useRestore cfg g.1 = true ∧ t.bad g.key = true) := by
  rintro ⟨hu, hbd⟩; rw [hb hu] at hbd; cases hbd

theorem replace_whole_bisync (cfg : Cfg) (st : RState) (t : Target) (gs : List KGroup)
    (hg : ∀ g ∈ gs, GoodGroup g) (hk : (gs.map KGroup.key).Nodup)
    (hb : ∀ g ∈ gs, useRestore cfg g.1 = true → t.bad g.key = false) :
    (runBisync .replace cfg st t (flat gs)).out = .ok ∧
    (∀ g ∈ gs, (runBisync .replace cfg st t (flat gs)).tgt.get g.key = some (snapshotObj cfg t g.1 g.2)) ∧
    (∀ d k, ¬ (d = t.cur ∧ k ∈ gs.map KGroup.key) → (runBisync .replace cfg st t (flat gs)).tgt.ks d k = t.ks d k) := by
  obtain ⟨h1, h2, _⟩ := whole_bisync .replace cfg st t gs hg hk
  have he : ∀ g ∈ gs, bisyncEff .replace cfg t g = .set (snapshotObj cfg t g.1 g.2) := by
    intro g hg'; simp [bisyncEff, not_bad (hb g hg')]
  obtain ⟨o1, o2⟩ := h2 (fun g hg' => by rw [he g hg']; rfl)
  exact ⟨o1, fun g hg' => by rw [o2 g hg', he g hg']; rfl, h1⟩

theorem ignore_whole_bisync (cfg : Cfg) (st : RState) (t : Target) (gs : List KGroup)
    (hg : ∀ g ∈ gs, GoodGroup g) (hk : (gs.map KGroup.key).Nodup)
    (hb : ∀ g ∈ gs, t.get g.key = none → useRestore cfg g.1 = true → t.bad g.key = false) :
    (runBisync .ignore cfg st t (flat gs)).out = .ok ∧
    (∀ g ∈ gs, ∀ o, t.get g.key = some o → (runBisync .ignore cfg st t (flat gs)).tgt.get g.key = some o) ∧
    (∀ g ∈ gs, t.get g.key = none →
      (runBisync .ignore cfg st t (flat gs)).tgt.get g.key = some (snapshotObj cfg t g.1 g.2)) ∧
    (∀ d k, ¬ (d = t.cur ∧ k ∈ gs.map KGroup.key) → (runBisync .ignore cfg st t (flat gs)).tgt.ks d k = t.ks d k) := by
  obtain ⟨h1, h2, _⟩ := whole_bisync .ignore cfg st t gs hg hk
  have he1 : ∀ g ∈ gs, ∀ o, t.get g.key = some o → bisyncEff .ignore cfg t g = .keep := by
    intro g _ o ho; simp [bisyncEff, ho]
  have he2 : ∀ g ∈ gs, t.get g.key = none → bisyncEff .ignore cfg t g = .set (snapshotObj cfg t g.1 g.2) := by
    intro g hg' ho; simp [bisyncEff, ho, not_bad (hb g hg' ho)]
  obtain ⟨o1, o2⟩ := h2 (fun g hg' => by
    cases ho : t.get g.key with
    | none => rw [he2 g hg' ho]; rfl
    | some o => rw [he1 g hg' o ho]; rfl)
  refine ⟨o1, ?_, ?_, h1⟩
  · intro g hg' o ho; rw [o2 g hg', he1 g hg' o ho, ho]; rfl
  · intro g hg' ho; rw [o2 g hg', he2 g hg' ho]; rfl

theorem error_whole_clean_bisync (cfg : Cfg) (st : RState) (t : Target) (gs : List KGroup)
    (hg : ∀ g ∈ gs, GoodGroup g) (hk : (gs.map KGroup.key).Nodup) (hnone : ∀ g ∈ gs, t.get g.key = none)
    (hb : ∀ g ∈ gs, useRestore cfg g.1 = true → t.bad g.key = false) :
    (runBisync .error cfg st t (flat gs)).out = .ok ∧
    (∀ g ∈ gs, (runBisync .error cfg st t (flat gs)).tgt.get g.key = some (snapshotObj cfg t g.1 g.2)) ∧
    (∀ d k, ¬ (d = t.cur ∧ k ∈ gs.map KGroup.key) → (runBisync .error cfg st t (flat gs)).tgt.ks d k = t.ks d k) := by
  obtain ⟨h1, h2, _⟩ := whole_bisync .error cfg st t gs hg hk
  have he : ∀ g ∈ gs, bisyncEff .error cfg t g = .set (snapshotObj cfg t g.1 g.2) := by
    intro g hg'; simp [bisyncEff, hnone g hg', not_bad (hb g hg')]
  obtain ⟨o1, o2⟩ := h2 (fun g hg' => by rw [he g hg']; rfl)
  exact ⟨o1, fun g hg' => by rw [o2 g hg', he g hg']; rfl, h1⟩

theorem error_whole_stop_bisync (cfg : Cfg) (st : RState) (t : Target) (pre post : List KGroup) (g : KGroup) (o : Obj)
    (hg : ∀ x ∈ pre ++ g :: post, GoodGroup x) (hk : ((pre ++ g :: post).map KGroup.key).Nodup)
    (hnone : ∀ p ∈ pre, t.get p.key = none) (hb : ∀ p ∈ pre, useRestore cfg p.1 = true → t.bad p.key = false)
    (hex : t.get g.key = some o) :
    (runBisync .error cfg st t (flat (pre ++ g :: post))).out = .errExists ∧
    (∀ p ∈ pre, (runBisync .error cfg st t (flat (pre ++ g :: post))).tgt.get p.key = some (snapshotObj cfg t p.1 p.2)) ∧
    (∀ d k, ¬ (d = t.cur ∧ k ∈ pre.map KGroup.key) →
      (runBisync .error cfg st t (flat (pre ++ g :: post))).tgt.ks d k = t.ks d k) := by
  obtain ⟨_, _, h3⟩ := whole_bisync .error cfg st t (pre ++ g :: post) hg hk
  have he : ∀ p ∈ pre, bisyncEff .error cfg t p = .set (snapshotObj cfg t p.1 p.2) := by
    intro p hp; simp [bisyncEff, hnone p hp, not_bad (hb p hp)]
  obtain ⟨o1, o2, o3⟩ := h3 pre g post .errExists rfl (fun p hp => by rw [he p hp]; rfl) (by simp [bisyncEff, hex])
  exact ⟨o1, fun p hp => by rw [o2 p hp, he p hp]; rfl, o3⟩

/-- a payload the target cannot load, reached by the bidirectional worker (its key
    is absent, or the policy is replace): the run stops THERE with the bad-data
    error; the groups before it have had their effects; that key, every later key
    and every other cell are exactly as they were — nothing of the value is merged. -/
theorem bad_data_whole_bisync (pol : Policy) (cfg : Cfg) (st : RState) (t : Target) (pre post : List KGroup) (g : KGroup)
    (hg : ∀ x ∈ pre ++ g :: post, GoodGroup x) (hk : ((pre ++ g :: post).map KGroup.key).Nodup)
    (hpre : ∀ p ∈ pre, (bisyncEff pol cfg t p).isStop = false)
    (hu : useRestore cfg g.1 = true) (hbad : t.bad g.key = true) (hreach : t.get g.key = none ∨ pol = .replace) :
    (runBisync pol cfg st t (flat (pre ++ g :: post))).out = .errBad ∧
    (∀ p ∈ pre, (runBisync pol cfg st t (flat (pre ++ g :: post))).tgt.get p.key
      = (bisyncEff pol cfg t p).result (t.get p.key)) ∧
    (∀ d k, ¬ (d = t.cur ∧ k ∈ pre.map KGroup.key) →
      (runBisync pol cfg st t (flat (pre ++ g :: post))).tgt.ks d k = t.ks d k) := by
  obtain ⟨_, _, h3⟩ := whole_bisync pol cfg st t (pre ++ g :: post) hg hk
  refine h3 pre g post .errBad rfl hpre ?_
  rcases hreach with h | h
  · simp [bisyncEff, h, hu, hbad]
  · subst h; simp [bisyncEff, hu, hbad]

/-! ## … and for every split of the stream (the statements above are about `run (flat gs)`;
    a run cut anywhere and continued by the same loop is that run: `resumed_is_whole`; these four only restate
    the theorems above through that equality) -/

theorem replace_whole_resumed (cfg : Cfg) (st : RState) (t : Target) (gs : List KGroup) (a b : List Entry)
    (hab : a ++ b = flat gs) (hg : ∀ g ∈ gs, GoodGroup g) (hk : (gs.map KGroup.key).Nodup) :
    ((runPlain .replace cfg st t a).resume fun st' t' => runPlain .replace cfg st' t' b).out = .ok ∧
    (∀ g ∈ gs, ((runPlain .replace cfg st t a).resume fun st' t' => runPlain .replace cfg st' t' b).tgt.get g.key
      = some (snapshotObj cfg t g.1 g.2)) ∧
    (∀ d k, ¬ (d = t.cur ∧ k ∈ gs.map KGroup.key) →
      ((runPlain .replace cfg st t a).resume fun st' t' => runPlain .replace cfg st' t' b).tgt.ks d k = t.ks d k) := by
  rw [resumed_is_whole _ _ _ _ _ _ _ hab]; exact replace_whole cfg st t gs hg hk

theorem ignore_whole_resumed (cfg : Cfg) (st : RState) (t : Target) (gs : List KGroup) (a b : List Entry)
    (hab : a ++ b = flat gs) (hg : ∀ g ∈ gs, GoodGroup g) (hk : (gs.map KGroup.key).Nodup) :
    ((runPlain .ignore cfg st t a).resume fun st' t' => runPlain .ignore cfg st' t' b).out = .ok ∧
    (∀ g ∈ gs, ∀ o, t.get g.key = some o →
      ((runPlain .ignore cfg st t a).resume fun st' t' => runPlain .ignore cfg st' t' b).tgt.get g.key = some o) ∧
    (∀ g ∈ gs, t.get g.key = none →
      ((runPlain .ignore cfg st t a).resume fun st' t' => runPlain .ignore cfg st' t' b).tgt.get g.key
        = some (snapshotObj cfg t g.1 g.2)) ∧
    (∀ d k, ¬ (d = t.cur ∧ k ∈ gs.map KGroup.key) →
      ((runPlain .ignore cfg st t a).resume fun st' t' => runPlain .ignore cfg st' t' b).tgt.ks d k = t.ks d k) := by
  rw [resumed_is_whole _ _ _ _ _ _ _ hab]; exact ignore_whole cfg st t gs hg hk

theorem error_whole_stop_resumed (cfg : Cfg) (st : RState) (t : Target) (pre post : List KGroup) (g : KGroup) (o : Obj)
    (a b : List Entry) (hab : a ++ b = flat (pre ++ g :: post))
    (hg : ∀ x ∈ pre ++ g :: post, GoodGroup x) (hk : ((pre ++ g :: post).map KGroup.key).Nodup)
    (hnone : ∀ p ∈ pre, t.get p.key = none) (hex : t.get g.key = some o) :
    ((runPlain .error cfg st t a).resume fun st' t' => runPlain .error cfg st' t' b).out = .errExists ∧
    (∀ p ∈ pre, ((runPlain .error cfg st t a).resume fun st' t' => runPlain .error cfg st' t' b).tgt.get p.key
      = some (snapshotObj cfg t p.1 p.2)) ∧
    (∀ d k, ¬ (d = t.cur ∧ k ∈ pre.map KGroup.key) →
      ((runPlain .error cfg st t a).resume fun st' t' => runPlain .error cfg st' t' b).tgt.ks d k = t.ks d k) := by
  rw [resumed_is_whole _ _ _ _ _ _ _ hab]; exact error_whole_stop cfg st t pre post g o hg hk hnone hex

theorem whole_bisync_resumed (pol : Policy) (cfg : Cfg) (st : RState) (t : Target) (gs : List KGroup) (a b : List Entry)
    (hab : a ++ b = flat gs) (hg : ∀ g ∈ gs, GoodGroup g) (hk : (gs.map KGroup.key).Nodup) :
    let r := (runBisync pol cfg st t a).resume fun st' t' => runBisync pol cfg st' t' b
    (∀ d k, ¬ (d = t.cur ∧ k ∈ gs.map KGroup.key) → r.tgt.ks d k = t.ks d k) ∧
    ((∀ g ∈ gs, (bisyncEff pol cfg t g).isStop = false) →
      r.out = .ok ∧ ∀ g ∈ gs, r.tgt.get g.key = (bisyncEff pol cfg t g).result (t.get g.key)) ∧
    (∀ pre g post out, gs = pre ++ g :: post → (∀ p ∈ pre, (bisyncEff pol cfg t p).isStop = false) →
      bisyncEff pol cfg t g = .stop out →
      r.out = out ∧ (∀ p ∈ pre, r.tgt.get p.key = (bisyncEff pol cfg t p).result (t.get p.key)) ∧
      (∀ d k, ¬ (d = t.cur ∧ k ∈ pre.map KGroup.key) → r.tgt.ks d k = t.ks d k)) := by
  intro r
  have : r = runBisync pol cfg st t (flat gs) := resumed_is_whole_bisync _ _ _ _ _ _ _ hab
  rw [this]; exact whole_bisync pol cfg st t gs hg hk

/-! ## the worker loops with DB selection (`runWorker` = rdbReplay / rdbReplayBisync): a snapshot over SEVERAL DBs

  A key is a cell (db, key); the groups' cells are pairwise distinct; all chunks of
  a key carry its DB (`oneDb`); the connection starts in DB `c` (= what the worker
  believes). The worker issues SELECT whenever the next key's DB differs. The
  effect of a group is evaluated on the target as seen from the key's DB. -/

theorem whole_worker_plain (pol : Policy) (cfg : Cfg) (c : Nat) (st : RState) (t : Target) (gs : List KGroup)
    (hc : t.cur = c) (hg : ∀ g ∈ gs, GoodGroup g ∧ g.oneDb) (hk : (gs.map KGroup.cell).Nodup) :
    (∀ d k, (d, k) ∉ gs.map KGroup.cell →
      (workerTarget t (runWorker false pol cfg c st t (flat gs))).ks d k = t.ks d k) ∧
    ((∀ g ∈ gs, (plainEff pol cfg (t.inDb g.dbn) g).isStop = false) →
      lastOut (runWorker false pol cfg c st t (flat gs)) = .ok ∧
      ∀ g ∈ gs, (workerTarget t (runWorker false pol cfg c st t (flat gs))).ks g.dbn g.key
        = (plainEff pol cfg (t.inDb g.dbn) g).result (t.ks g.dbn g.key)) ∧
    (∀ pre g post out, gs = pre ++ g :: post → (∀ p ∈ pre, (plainEff pol cfg (t.inDb p.dbn) p).isStop = false) →
      plainEff pol cfg (t.inDb g.dbn) g = .stop out →
      lastOut (runWorker false pol cfg c st t (flat gs)) = out ∧
      (∀ p ∈ pre, (workerTarget t (runWorker false pol cfg c st t (flat gs))).ks p.dbn p.key
        = (plainEff pol cfg (t.inDb p.dbn) p).result (t.ks p.dbn p.key)) ∧
      (∀ d k, (d, k) ∉ pre.map KGroup.cell →
        (workerTarget t (runWorker false pol cfg c st t (flat gs))).ks d k = t.ks d k)) := by
  obtain ⟨_, b2, b3⟩ := runWorker_is_runWG_plain pol cfg (flat gs) c st t
  rw [b2, b3]
  exact (plain_runner pol cfg).wholeW gs c st t hc hg hk

theorem whole_worker_bisync (pol : Policy) (cfg : Cfg) (c : Nat) (st : RState) (t : Target) (gs : List KGroup)
    (hc : t.cur = c) (hg : ∀ g ∈ gs, GoodGroup g ∧ g.oneDb) (hk : (gs.map KGroup.cell).Nodup) :
    (∀ d k, (d, k) ∉ gs.map KGroup.cell →
      (workerTarget t (runWorker true pol cfg c st t (flat gs))).ks d k = t.ks d k) ∧
    ((∀ g ∈ gs, (bisyncEff pol cfg (t.inDb g.dbn) g).isStop = false) →
      lastOut (runWorker true pol cfg c st t (flat gs)) = .ok ∧
      ∀ g ∈ gs, (workerTarget t (runWorker true pol cfg c st t (flat gs))).ks g.dbn g.key
        = (bisyncEff pol cfg (t.inDb g.dbn) g).result (t.ks g.dbn g.key)) ∧
    (∀ pre g post out, gs = pre ++ g :: post → (∀ p ∈ pre, (bisyncEff pol cfg (t.inDb p.dbn) p).isStop = false) →
      bisyncEff pol cfg (t.inDb g.dbn) g = .stop out →
      lastOut (runWorker true pol cfg c st t (flat gs)) = out ∧
      (∀ p ∈ pre, (workerTarget t (runWorker true pol cfg c st t (flat gs))).ks p.dbn p.key
        = (bisyncEff pol cfg (t.inDb p.dbn) p).result (t.ks p.dbn p.key)) ∧
      (∀ d k, (d, k) ∉ pre.map KGroup.cell →
        (workerTarget t (runWorker true pol cfg c st t (flat gs))).ks d k = t.ks d k)) := by
  obtain ⟨_, b2, b3⟩ := runWorker_is_runWG_bisync pol cfg (flat gs) c st t
  rw [b2, b3]
  exact (bisync_runner pol cfg).wholeW gs c st t hc hg hk

/-- **replace**, worker with DB selection, any number of DBs: every (db, key) of the
    snapshot ends with the snapshot's value and expiry, every other cell is untouched -/
theorem replace_whole_worker (cfg : Cfg) (c : Nat) (st : RState) (t : Target) (gs : List KGroup)
    (hc : t.cur = c) (hg : ∀ g ∈ gs, GoodGroup g ∧ g.oneDb) (hk : (gs.map KGroup.cell).Nodup) :
    lastOut (runWorker false .replace cfg c st t (flat gs)) = .ok ∧
    (∀ g ∈ gs, (workerTarget t (runWorker false .replace cfg c st t (flat gs))).ks g.dbn g.key
      = some (snapshotObj cfg t g.1 g.2)) ∧
    (∀ d k, (d, k) ∉ gs.map KGroup.cell →
      (workerTarget t (runWorker false .replace cfg c st t (flat gs))).ks d k = t.ks d k) := by
  obtain ⟨h1, h2, _⟩ := whole_worker_plain .replace cfg c st t gs hc hg hk
  obtain ⟨o1, o2⟩ := h2 (fun g _ => rfl)
  exact ⟨o1, fun g hg' => o2 g hg', h1⟩

/-- **ignore**, worker with DB selection: a cell the target held is exactly as it was, the others get the snapshot's value -/
theorem ignore_whole_worker (cfg : Cfg) (c : Nat) (st : RState) (t : Target) (gs : List KGroup)
    (hc : t.cur = c) (hg : ∀ g ∈ gs, GoodGroup g ∧ g.oneDb) (hk : (gs.map KGroup.cell).Nodup) :
    lastOut (runWorker false .ignore cfg c st t (flat gs)) = .ok ∧
    (∀ g ∈ gs, ∀ o, t.ks g.dbn g.key = some o →
      (workerTarget t (runWorker false .ignore cfg c st t (flat gs))).ks g.dbn g.key = some o) ∧
    (∀ g ∈ gs, t.ks g.dbn g.key = none →
      (workerTarget t (runWorker false .ignore cfg c st t (flat gs))).ks g.dbn g.key = some (snapshotObj cfg t g.1 g.2)) ∧
    (∀ d k, (d, k) ∉ gs.map KGroup.cell →
      (workerTarget t (runWorker false .ignore cfg c st t (flat gs))).ks d k = t.ks d k) := by
  obtain ⟨h1, h2, _⟩ := whole_worker_plain .ignore cfg c st t gs hc hg hk
  obtain ⟨o1, o2⟩ := h2 (fun g _ => by simp only [plainEff]; split <;> rfl)
  refine ⟨o1, ?_, ?_, h1⟩
  · intro g hg' o ho
    have : (t.inDb g.dbn).get g.key = some o := ho
    rw [o2 g hg']; simp [plainEff, this, Eff.result, ho]
  · intro g hg' ho
    have : (t.inDb g.dbn).get g.key = none := ho
    have hs : snapshotObj cfg (t.inDb g.dbn) g.1 g.2 = snapshotObj cfg t g.1 g.2 := rfl
    rw [o2 g hg']; simp [plainEff, this, Eff.result, hs]

/-- **error**, worker with DB selection: stops at the first cell the target holds; nothing but the cells before it changed -/
theorem error_whole_stop_worker (cfg : Cfg) (c : Nat) (st : RState) (t : Target) (pre post : List KGroup) (g : KGroup) (o : Obj)
    (hc : t.cur = c) (hg : ∀ x ∈ pre ++ g :: post, GoodGroup x ∧ x.oneDb)
    (hk : ((pre ++ g :: post).map KGroup.cell).Nodup)
    (hnone : ∀ p ∈ pre, t.ks p.dbn p.key = none) (hex : t.ks g.dbn g.key = some o) :
    lastOut (runWorker false .error cfg c st t (flat (pre ++ g :: post))) = .errExists ∧
    (∀ p ∈ pre, (workerTarget t (runWorker false .error cfg c st t (flat (pre ++ g :: post)))).ks p.dbn p.key
      = some (snapshotObj cfg t p.1 p.2)) ∧
    (∀ d k, (d, k) ∉ pre.map KGroup.cell →
      (workerTarget t (runWorker false .error cfg c st t (flat (pre ++ g :: post)))).ks d k = t.ks d k) := by
  obtain ⟨_, _, h3⟩ := whole_worker_plain .error cfg c st t (pre ++ g :: post) hc hg hk
  have hn : ∀ p ∈ pre, (t.inDb p.dbn).get p.key = none := hnone
  have hx : (t.inDb g.dbn).get g.key = some o := hex
  obtain ⟨o1, o2, o3⟩ := h3 pre g post .errExists rfl
    (fun p hp => by simp [plainEff, hn p hp, Eff.isStop]) (by simp [plainEff, hx])
  refine ⟨o1, ?_, o3⟩
  intro p hp
  have hs : snapshotObj cfg (t.inDb p.dbn) p.1 p.2 = snapshotObj cfg t p.1 p.2 := rfl
  rw [o2 p hp]; simp [plainEff, hn p hp, Eff.result, hs]

/-! ## the stream a worker really gets: AUX fields and function libraries between the key groups

  `es` is ANY entry list whose keyed entries, in order, are the chunks of the groups `gs`
  (`StreamOf`); the keyless entries (`otype` func / aux — `redis-ver`, `redis-bits`, lua, function
  libraries) may stand anywhere, also between the chunks of a key. -/

def StreamOf (es : List Entry) (gs : List KGroup) : Prop := es.filter (fun e => !keyless e) = flat gs

theorem whole_plain_stream (pol : Policy) (cfg : Cfg) (st : RState) (t : Target) (gs : List KGroup) (es : List Entry)
    (hs : StreamOf es gs) (hg : ∀ g ∈ gs, GoodGroup g) (hk : (gs.map KGroup.key).Nodup) :
    (∀ d k, ¬ (d = t.cur ∧ k ∈ gs.map KGroup.key) → (runPlain pol cfg st t es).tgt.ks d k = t.ks d k) ∧
    ((∀ g ∈ gs, (plainEff pol cfg t g).isStop = false) →
      (runPlain pol cfg st t es).out = .ok ∧
      ∀ g ∈ gs, (runPlain pol cfg st t es).tgt.get g.key = (plainEff pol cfg t g).result (t.get g.key)) ∧
    (∀ pre g post out, gs = pre ++ g :: post → (∀ p ∈ pre, (plainEff pol cfg t p).isStop = false) →
      plainEff pol cfg t g = .stop out →
      (runPlain pol cfg st t es).out = out ∧
      (∀ p ∈ pre, (runPlain pol cfg st t es).tgt.get p.key = (plainEff pol cfg t p).result (t.get p.key)) ∧
      (∀ d k, ¬ (d = t.cur ∧ k ∈ pre.map KGroup.key) → (runPlain pol cfg st t es).tgt.ks d k = t.ks d k)) := by
  obtain ⟨h1, _, h3⟩ := runPlain_strip pol cfg es st t
  rw [h1, h3, hs]
  exact whole_plain pol cfg st t gs hg hk

theorem whole_bisync_stream (pol : Policy) (cfg : Cfg) (st : RState) (t : Target) (gs : List KGroup) (es : List Entry)
    (hs : StreamOf es gs) (hg : ∀ g ∈ gs, GoodGroup g) (hk : (gs.map KGroup.key).Nodup) :
    (∀ d k, ¬ (d = t.cur ∧ k ∈ gs.map KGroup.key) → (runBisync pol cfg st t es).tgt.ks d k = t.ks d k) ∧
    ((∀ g ∈ gs, (bisyncEff pol cfg t g).isStop = false) →
      (runBisync pol cfg st t es).out = .ok ∧
      ∀ g ∈ gs, (runBisync pol cfg st t es).tgt.get g.key = (bisyncEff pol cfg t g).result (t.get g.key)) ∧
    (∀ pre g post out, gs = pre ++ g :: post → (∀ p ∈ pre, (bisyncEff pol cfg t p).isStop = false) →
      bisyncEff pol cfg t g = .stop out →
      (runBisync pol cfg st t es).out = out ∧
      (∀ p ∈ pre, (runBisync pol cfg st t es).tgt.get p.key = (bisyncEff pol cfg t p).result (t.get p.key)) ∧
      (∀ d k, ¬ (d = t.cur ∧ k ∈ pre.map KGroup.key) → (runBisync pol cfg st t es).tgt.ks d k = t.ks d k)) := by
  obtain ⟨h1, _, h3⟩ := runBisync_strip pol cfg es st t
  rw [h1, h3, hs]
  exact whole_bisync pol cfg st t gs hg hk

theorem replace_whole_stream (cfg : Cfg) (st : RState) (t : Target) (gs : List KGroup) (es : List Entry)
    (hs : StreamOf es gs) (hg : ∀ g ∈ gs, GoodGroup g) (hk : (gs.map KGroup.key).Nodup) :
    (runPlain .replace cfg st t es).out = .ok ∧
    (∀ g ∈ gs, (runPlain .replace cfg st t es).tgt.get g.key = some (snapshotObj cfg t g.1 g.2)) ∧
    (∀ d k, ¬ (d = t.cur ∧ k ∈ gs.map KGroup.key) → (runPlain .replace cfg st t es).tgt.ks d k = t.ks d k) := by
  obtain ⟨h1, _, h3⟩ := runPlain_strip .replace cfg es st t
  rw [h1, h3, hs]
  exact replace_whole cfg st t gs hg hk

theorem ignore_whole_stream (cfg : Cfg) (st : RState) (t : Target) (gs : List KGroup) (es : List Entry)
    (hs : StreamOf es gs) (hg : ∀ g ∈ gs, GoodGroup g) (hk : (gs.map KGroup.key).Nodup) :
    (runPlain .ignore cfg st t es).out = .ok ∧
    (∀ g ∈ gs, ∀ o, t.get g.key = some o → (runPlain .ignore cfg st t es).tgt.get g.key = some o) ∧
    (∀ g ∈ gs, t.get g.key = none → (runPlain .ignore cfg st t es).tgt.get g.key = some (snapshotObj cfg t g.1 g.2)) ∧
    (∀ d k, ¬ (d = t.cur ∧ k ∈ gs.map KGroup.key) → (runPlain .ignore cfg st t es).tgt.ks d k = t.ks d k) := by
  obtain ⟨h1, _, h3⟩ := runPlain_strip .ignore cfg es st t
  rw [h1, h3, hs]
  exact ignore_whole cfg st t gs hg hk

/-- the worker with DB selection over a real stream (AUX entries carry the DB of their place in the file and make the
    worker SELECT; functions carry −1): the keyspace and the outcome are those of the worker over the keyed entries -/
theorem whole_worker_plain_stream (pol : Policy) (cfg : Cfg) (c : Nat) (st : RState) (t : Target) (gs : List KGroup)
    (es : List Entry) (hs : StreamOf es gs)
    (hc : t.cur = c) (hg : ∀ g ∈ gs, GoodGroup g ∧ g.oneDb) (hk : (gs.map KGroup.cell).Nodup) :
    (∀ d k, (d, k) ∉ gs.map KGroup.cell →
      (workerTarget t (runWorker false pol cfg c st t es)).ks d k = t.ks d k) ∧
    ((∀ g ∈ gs, (plainEff pol cfg (t.inDb g.dbn) g).isStop = false) →
      lastOut (runWorker false pol cfg c st t es) = .ok ∧
      ∀ g ∈ gs, (workerTarget t (runWorker false pol cfg c st t es)).ks g.dbn g.key
        = (plainEff pol cfg (t.inDb g.dbn) g).result (t.ks g.dbn g.key)) ∧
    (∀ pre g post out, gs = pre ++ g :: post → (∀ p ∈ pre, (plainEff pol cfg (t.inDb p.dbn) p).isStop = false) →
      plainEff pol cfg (t.inDb g.dbn) g = .stop out →
      lastOut (runWorker false pol cfg c st t es) = out ∧
      (∀ p ∈ pre, (workerTarget t (runWorker false pol cfg c st t es)).ks p.dbn p.key
        = (plainEff pol cfg (t.inDb p.dbn) p).result (t.ks p.dbn p.key)) ∧
      (∀ d k, (d, k) ∉ pre.map KGroup.cell → (workerTarget t (runWorker false pol cfg c st t es)).ks d k = t.ks d k)) := by
  obtain ⟨_, b2, b3⟩ := runWorker_is_runWG_plain pol cfg es c st t
  have hdb : ∀ e ∈ es, keyless e = false → ∃ d : Nat, e.db = Int.ofNat d := by
    intro e he hk'
    have : e ∈ flat gs := by rw [← hs]; exact List.mem_filter.mpr ⟨he, by simp [hk']⟩
    obtain ⟨g, hg', heg⟩ := List.mem_flatMap.mp this
    exact ⟨g.dbn, (hg g hg').2 e heg⟩
  obtain ⟨s1, _, s3⟩ := runWG_strip (runPlain pol cfg)
    (fun st t e h => by
      obtain ⟨a, b, c'⟩ := runPlain_keyless pol cfg st t e [] h
      exact ⟨by rw [a]; rfl, by rw [b]; rfl, by rw [c']; rfl⟩)
    (fun st t e => (runPlain_inv pol cfg [e] st t).1)
    es c c st t t hc hc rfl rfl rfl hdb
  rw [b2, b3, s1, s3, hs]
  exact (plain_runner pol cfg).wholeW gs c st t hc hg hk

/-- keyed entries of a stream of good one-DB groups carry a non-negative DB -/
theorem stream_keyed_db (gs : List KGroup) (es : List Entry) (hs : StreamOf es gs) (hg : ∀ g ∈ gs, GoodGroup g ∧ g.oneDb) :
    ∀ e ∈ es, keyless e = false → ∃ d : Nat, e.db = Int.ofNat d := by
  intro e he hk'
  have : e ∈ flat gs := by rw [← hs]; exact List.mem_filter.mpr ⟨he, by simp [hk']⟩
  obtain ⟨g, hg', heg⟩ := List.mem_flatMap.mp this
  exact ⟨g.dbn, (hg g hg').2 e heg⟩

/-- the BIDIRECTIONAL worker with DB selection over a real stream (keyless entries anywhere, AUX entries make the
    worker SELECT): keyspace and outcome are those of the worker over the keyed entries -/
theorem whole_worker_bisync_stream (pol : Policy) (cfg : Cfg) (c : Nat) (st : RState) (t : Target) (gs : List KGroup)
    (es : List Entry) (hs : StreamOf es gs)
    (hc : t.cur = c) (hg : ∀ g ∈ gs, GoodGroup g ∧ g.oneDb) (hk : (gs.map KGroup.cell).Nodup) :
    (∀ d k, (d, k) ∉ gs.map KGroup.cell →
      (workerTarget t (runWorker true pol cfg c st t es)).ks d k = t.ks d k) ∧
    ((∀ g ∈ gs, (bisyncEff pol cfg (t.inDb g.dbn) g).isStop = false) →
      lastOut (runWorker true pol cfg c st t es) = .ok ∧
      ∀ g ∈ gs, (workerTarget t (runWorker true pol cfg c st t es)).ks g.dbn g.key
        = (bisyncEff pol cfg (t.inDb g.dbn) g).result (t.ks g.dbn g.key)) ∧
    (∀ pre g post out, gs = pre ++ g :: post → (∀ p ∈ pre, (bisyncEff pol cfg (t.inDb p.dbn) p).isStop = false) →
      bisyncEff pol cfg (t.inDb g.dbn) g = .stop out →
      lastOut (runWorker true pol cfg c st t es) = out ∧
      (∀ p ∈ pre, (workerTarget t (runWorker true pol cfg c st t es)).ks p.dbn p.key
        = (bisyncEff pol cfg (t.inDb p.dbn) p).result (t.ks p.dbn p.key)) ∧
      (∀ d k, (d, k) ∉ pre.map KGroup.cell → (workerTarget t (runWorker true pol cfg c st t es)).ks d k = t.ks d k)) := by
  obtain ⟨_, b2, b3⟩ := runWorker_is_runWG_bisync pol cfg es c st t
  obtain ⟨s1, _, s3⟩ := runWG_strip (runBisync pol cfg)
    (fun st t e h => by
      obtain ⟨a, b, c'⟩ := runBisync_keyless pol cfg st t e [] h
      exact ⟨by rw [a]; rfl, by rw [b]; rfl, by rw [c']; rfl⟩)
    (fun st t e => (runBisync_inv pol cfg [e] st t).1)
    es c c st t t hc hc rfl rfl rfl (stream_keyed_db gs es hs hg)
  rw [b2, b3, s1, s3, hs]
  exact (bisync_runner pol cfg).wholeW gs c st t hc hg hk

/-! ## replaceHashTag: a good key group stays good under `retag` (so the whole-run theorems apply to what the worker
    really replays — with `Nodup` of the REWRITTEN keys) -/

theorem retag_value (b : Bool) (e0 : Entry) (rest : List Entry) (g : Group e0 rest) (v : Value e0 rest)
    (ha : ∀ c ∈ e0.cmds ++ rest.flatMap (·.cmds), c.args ≠ [] ∧ (c.name = sXGROUP → 2 ≤ c.args.length)) :
    Value (retag b e0) (rest.map (retag b)) := by
  cases b with
  | false =>
    have h0 : ∀ e : Entry, retag false e = e := fun e => by simp [retag]
    rw [h0]
    have : rest.map (retag false) = rest := by
      rw [show retag false = id from funext h0]; exact List.map_id rest
    rw [this]; exact v
  | true =>
    have hk0 : (retag true e0).key = stripTag e0.key := by simp [retag, g.data]
    have hc0 : (retag true e0).cmds = e0.cmds.map (rewriteCmd e0.key (stripTag e0.key)) := by simp [retag, g.data]
    refine ⟨?_, ?_, ?_, ?_⟩
    · intro c hc
      rw [hc0] at hc
      obtain ⟨c', hc', rfl⟩ := List.mem_map.mp hc
      rw [hk0]
      have := ha c' (List.mem_append_left _ hc')
      exact rewriteCmd_cmdKey _ _ c' (v.c0 c' hc') this.1 this.2
    · rw [hc0]; simp [v.ne]
    · intro e he c hc
      obtain ⟨e', he', rfl⟩ := List.mem_map.mp he
      have hl := g.later e' he'
      have hc1 : (retag true e').cmds = e'.cmds.map (rewriteCmd e0.key (stripTag e0.key)) := by simp [retag, hl.data, hl.key]
      rw [hc1] at hc
      obtain ⟨c', hc', rfl⟩ := List.mem_map.mp hc
      rw [hk0]
      have := ha c' (List.mem_append_right _ (List.mem_flatMap.mpr ⟨e', he', hc'⟩))
      exact rewriteCmd_cmdKey _ _ c' (v.cr e' he' c' hc') this.1 this.2
    · intro e he
      obtain ⟨e', he', rfl⟩ := List.mem_map.mp he
      have hl := g.later e' he'
      have h1 : (retag true e').expireAt = e'.expireAt := by simp [retag, hl.data]
      have h2 : (retag true e0).expireAt = e0.expireAt := by simp [retag, g.data]
      rw [h1, h2]; exact v.exp e' he'

/-- the group as the worker replays it under replaceHashTag -/
def retagG (b : Bool) (g : KGroup) : KGroup := (retag b g.1, g.2.map (retag b))

theorem retagG_good (b : Bool) (g : KGroup) (h : GoodGroup g)
    (ha : ∀ c ∈ g.1.cmds ++ g.2.flatMap (·.cmds), c.args ≠ [] ∧ (c.name = sXGROUP → 2 ≤ c.args.length)) :
    GoodGroup (retagG b g) := ⟨retag_group b g.1 g.2 h.1, retag_value b g.1 g.2 h.1 h.2 ha⟩

/-- **replace under replaceHashTag, whole snapshot**: every REWRITTEN key ends with the (rewritten) snapshot value -/
theorem replace_whole_retag (b : Bool) (cfg : Cfg) (st : RState) (t : Target) (gs : List KGroup)
    (hg : ∀ g ∈ gs, GoodGroup g)
    (ha : ∀ g ∈ gs, ∀ c ∈ g.1.cmds ++ g.2.flatMap (·.cmds), c.args ≠ [] ∧ (c.name = sXGROUP → 2 ≤ c.args.length))
    (hk : ((gs.map (retagG b)).map KGroup.key).Nodup) :
    (runPlain .replace cfg st t (flat (gs.map (retagG b)))).out = .ok ∧
    (∀ g ∈ gs, (runPlain .replace cfg st t (flat (gs.map (retagG b)))).tgt.get (retagG b g).key
      = some (snapshotObj cfg t (retagG b g).1 (retagG b g).2)) := by
  obtain ⟨h1, h2, _⟩ := replace_whole cfg st t (gs.map (retagG b)) (by
    intro x hx; obtain ⟨g, hg', rfl⟩ := List.mem_map.mp hx; exact retagG_good b g (hg g hg') (ha g hg')) hk
  exact ⟨h1, fun g hg' => h2 _ (List.mem_map_of_mem (f := retagG b) hg')⟩

/-! ## non-vacuity: a snapshot of two keys — `h` in three chunks (held by the target), `i` small enough for RESTORE (absent) -/

def exG1 : KGroup := (exE0, [exE1, exE2])
def exG2 : KGroup := (exK, [])

theorem exG1_good : GoodGroup exG1 :=
  ⟨⟨rfl, rfl, by intro e he; simp [exG1] at he; rcases he with rfl | rfl <;> exact ⟨rfl, rfl, rfl, rfl⟩, fun _ => rfl⟩,
   ⟨by intro c hc; simp [exG1, exE0] at hc; subst hc; rfl, by simp [exG1, exE0],
    by intro e he c hc; simp [exG1] at he; rcases he with rfl | rfl <;> (simp [exE1, exE2, exE0] at hc; subst hc; rfl),
    by intro e he; simp [exG1] at he; rcases he with rfl | rfl <;> simp [exE1, exE2, exE0, exG1]⟩⟩

theorem exG2_good : GoodGroup exG2 :=
  ⟨⟨rfl, rfl, by simp [exG2], by simp [exG2]⟩,
   ⟨by intro c hc; simp [exG2, exK] at hc; subst hc; rfl, by simp [exG2, exK], by simp [exG2], by simp [exG2]⟩⟩

theorem ex_good : ∀ g ∈ [exG1, exG2], GoodGroup g := by
  intro g hg; simp at hg; rcases hg with rfl | rfl
  · exact exG1_good
  · exact exG2_good

theorem ex_nodup : ([exG1, exG2].map KGroup.key).Nodup := by decide

theorem ex_good' : ∀ g ∈ [exG2] ++ exG1 :: [], GoodGroup g := by
  intro g hg; simp at hg; rcases hg with rfl | rfl
  · exact exG2_good
  · exact exG1_good

theorem ex_good'' : ∀ g ∈ [exG1] ++ exG2 :: [], GoodGroup g := by
  intro g hg; simp at hg; rcases hg with rfl | rfl
  · exact exG1_good
  · exact exG2_good

example : flat [exG1, exG2] = [exE0, exE1, exE2, exK] := rfl
-- the theorems, instantiated (their hypotheses are satisfiable) …
example : (runPlain .ignore exCfg none exT (flat [exG1, exG2])).tgt.get [104] = some { val := .old 0, exp := 777 } :=
  (ignore_whole exCfg none exT [exG1, exG2] ex_good ex_nodup).2.1 exG1 (by simp) _ rfl
example : (runPlain .ignore exCfg none exT (flat [exG1, exG2])).tgt.get [105] = some (snapshotObj exCfg exT exK []) :=
  (ignore_whole exCfg none exT [exG1, exG2] ex_good ex_nodup).2.2.1 exG2 (by simp) rfl
example : (runPlain .replace exCfg (some [9]) exT (flat [exG1, exG2])).tgt.get [104]
    = some { val := .native [exCmd 49 49, exCmd 50 50, exCmd 51 51], exp := 5000 } :=
  (replace_whole exCfg (some [9]) exT [exG1, exG2] ex_good ex_nodup).2.1 exG1 (by simp)
-- `error`: the snapshot lists the absent key first, then the key the target holds
example : (runPlain .error exCfg none exT (flat ([exG2] ++ exG1 :: []))).out = .errExists :=
  (error_whole_stop exCfg none exT [exG2] [] exG1 _ ex_good' (by decide) (by intro p hp; simp at hp; subst hp; rfl) rfl).1
example : (runPlain .error exCfg none exT (flat ([exG2] ++ exG1 :: []))).tgt.get [105] = some (snapshotObj exCfg exT exK []) :=
  (error_whole_stop exCfg none exT [exG2] [] exG1 _ ex_good' (by decide) (by intro p hp; simp at hp; subst hp; rfl) rfl).2.1 exG2 (by simp)
-- … and checked by evaluation, cut in the MIDDLE of the three chunks of `h` and resumed
example : ((runPlain .ignore exCfg none exT [exE0, exE1]).resume fun st' t' => runPlain .ignore exCfg st' t' [exE2, exK]).reqs
    = [Req.exists [104], Req.restore [105] 4000 [4, 3] [] false] := by decide
example : (runPlain .ignore exCfg none exT [exE0, exE1]).st = some [104] := by decide
example : ((runBisync .replace exCfg none exT [exE0]).resume fun st' t' => runBisync .replace exCfg st' t' [exE1, exE2, exK]).tgt.get [104]
    = some { val := .native [exCmd 49 49, exCmd 50 50, exCmd 51 51], exp := 5000 } := by decide
example : ((runBisync .replace exCfg none exT [exE0]).resume fun st' t' => runBisync .replace exCfg st' t' [exE1, exE2, exK]).reqs
    = (runBisync .replace exCfg none exT [exE0, exE1, exE2, exK]).reqs := by decide
-- bidirectional, the target cannot load the payload of `i`: the run stops there, `h` (before it) is replaced, `i` stays absent
def exTBadK : Target := { exT with bad := fun k => k == [105] }
example : (runBisync .replace exCfg none exTBadK (flat ([exG1] ++ exG2 :: []))).out = .errBad :=
  (bad_data_whole_bisync .replace exCfg none exTBadK [exG1] [] exG2 ex_good'' (by decide) (by intro p hp; simp at hp; subst hp; decide) (by decide) (by decide) (Or.inr rfl)).1
example : (runBisync .replace exCfg none exTBadK [exE0, exE1, exE2, exK]).tgt.get [105] = none := by decide

/-! in-file instances of every theorem above that had none (hypotheses discharged on the example snapshot) -/
def exTE : Target := { exT with ks := fun _ _ => none }
theorem ex_good2 : ∀ g ∈ [exG2] ++ exG1 :: [], GoodGroup g := ex_good'
example : (runPlain .error exCfg none exTE (flat [exG1, exG2])).out = .ok :=
  (error_whole_clean exCfg none exTE [exG1, exG2] ex_good ex_nodup (by intro g _; rfl)).1
example : (runBisync .replace exCfg none exT (flat [exG1, exG2])).tgt.get [105] = some (snapshotObj exCfg exT exK []) :=
  (replace_whole_bisync exCfg none exT [exG1, exG2] ex_good ex_nodup (fun _ _ _ => rfl)).2.1 exG2 (by simp)
example : (runBisync .ignore exCfg none exT (flat [exG1, exG2])).tgt.get [104] = some { val := .old 0, exp := 777 } :=
  (ignore_whole_bisync exCfg none exT [exG1, exG2] ex_good ex_nodup (fun _ _ _ _ => rfl)).2.1 exG1 (by simp) _ rfl
example : (runBisync .error exCfg none exTE (flat [exG1, exG2])).out = .ok :=
  (error_whole_clean_bisync exCfg none exTE [exG1, exG2] ex_good ex_nodup (by intro g _; rfl) (fun _ _ _ => rfl)).1
example : (runBisync .error exCfg none exT (flat ([exG2] ++ exG1 :: []))).out = .errExists :=
  (error_whole_stop_bisync exCfg none exT [exG2] [] exG1 _ ex_good2 (by decide) (by intro p hp; simp at hp; subst hp; rfl)
    (fun _ _ _ => rfl) rfl).1
-- the same loop, cut after two of the three chunks of `h` and continued
example : ((runPlain .replace exCfg none exT [exE0, exE1]).resume fun st' t' => runPlain .replace exCfg st' t' [exE2, exK]).out = .ok :=
  (replace_whole_resumed exCfg none exT [exG1, exG2] [exE0, exE1] [exE2, exK] rfl ex_good ex_nodup).1
example : ((runPlain .ignore exCfg none exT [exE0]).resume fun st' t' => runPlain .ignore exCfg st' t' [exE1, exE2, exK]).out = .ok :=
  (ignore_whole_resumed exCfg none exT [exG1, exG2] [exE0] [exE1, exE2, exK] rfl ex_good ex_nodup).1
example : ((runPlain .error exCfg none exT [exK, exE0]).resume fun st' t' => runPlain .error exCfg st' t' [exE1, exE2]).out = .errExists :=
  (error_whole_stop_resumed exCfg none exT [exG2] [] exG1 _ [exK, exE0] [exE1, exE2] rfl ex_good2 (by decide)
    (by intro p hp; simp at hp; subst hp; rfl) rfl).1
example : ∀ d k, ¬ (d = exT.cur ∧ k ∈ [exG1, exG2].map KGroup.key) →
    ((runBisync .replace exCfg none exT [exE0]).resume fun st' t' => runBisync .replace exCfg st' t' [exE1, exE2, exK]).tgt.ks d k
      = exT.ks d k :=
  (whole_bisync_resumed .replace exCfg none exT [exG1, exG2] [exE0] [exE1, exE2, exK] rfl ex_good ex_nodup).1
-- keyless entries in the stream: an AUX field before, between the chunks of `h`, and a function library behind
def exAux : Entry := { exE0 with key := [114], otype := .aux, first := true, splited := false, cmds := [] }
def exFn : Entry := { exE0 with db := -1, key := [], otype := .func, splited := false, cmds := [{ name := [102], args := [[120]] }] }
theorem ex_stream : StreamOf [exAux, exE0, exAux, exE1, exE2, exFn, exK] [exG1, exG2] := by unfold StreamOf; decide
example : (runPlain .replace exCfg none exT [exAux, exE0, exAux, exE1, exE2, exFn, exK]).tgt.get [104]
    = some (snapshotObj exCfg exT exE0 [exE1, exE2]) :=
  (replace_whole_stream exCfg none exT [exG1, exG2] _ ex_stream ex_good ex_nodup).2.1 exG1 (by simp)
example : (runPlain .ignore exCfg none exT [exAux, exE0, exAux, exE1, exE2, exFn, exK]).out = .ok :=
  (ignore_whole_stream exCfg none exT [exG1, exG2] _ ex_stream ex_good ex_nodup).1
example : ∀ d k, ¬ (d = exT.cur ∧ k ∈ [exG1, exG2].map KGroup.key) →
    (runBisync .error exCfg none exT [exAux, exE0, exAux, exE1, exE2, exFn, exK]).tgt.ks d k = exT.ks d k :=
  (whole_bisync_stream .error exCfg none exT [exG1, exG2] _ ex_stream ex_good ex_nodup).1
example : (runPlain .replace exCfg none exT [exAux, exE0, exAux, exE1, exE2, exFn, exK]).reqs.contains (Req.raw { name := [102], args := [[120]] }) = true := by decide
-- replaceHashTag: the group of `{h}` is good after `retag`, on the key `h`
def exTagE : Entry := { exR with key := [123, 104, 125], cmds := [{ name := [104, 115, 101, 116], args := [[123, 104, 125], [102], [118]] }] }
def exTagG : KGroup := (exTagE, [])
theorem exTagG_good : GoodGroup exTagG :=
  ⟨⟨rfl, rfl, by simp [exTagG], by simp [exTagG]⟩,
   ⟨by intro c hc; simp [exTagG, exTagE] at hc; subst hc; rfl, by simp [exTagG, exTagE], by simp [exTagG], by simp [exTagG]⟩⟩
theorem exTagG_args : ∀ c ∈ exTagG.1.cmds ++ exTagG.2.flatMap (·.cmds), c.args ≠ [] ∧ (c.name = sXGROUP → 2 ≤ c.args.length) := by
  intro c hc; simp [exTagG, exTagE] at hc; subst hc; exact ⟨by simp, by decide⟩
example : GoodGroup (retagG true exTagG) := retagG_good true exTagG exTagG_good exTagG_args
example : Group (retag true exTagE) ([].map (retag true)) := retag_group true exTagE [] exTagG_good.1
example : (retagG true exTagG).key = [104] := by decide
example : (runPlain .replace exCfg none exT (flat ([exTagG].map (retagG true)))).tgt.get [104]
    = some (snapshotObj exCfg exT (retag true exTagE) []) :=
  (replace_whole_retag true exCfg none exT [exTagG] (by intro g hg; simp at hg; subst hg; exact exTagG_good)
    (by intro g hg; simp at hg; subst hg; exact exTagG_args) (by decide)).2 exTagG (by simp)
example : cmdKey (rewriteCmd [123, 104, 125] [104] { name := sXGROUP, args := [[67], [123, 104, 125], [103]] }) = [104] :=
  rewriteCmd_cmdKey _ _ _ (by decide) (by simp) (by intro _; decide)

-- several DBs: the key NAME `h` also in DB 1 (absent there); the connection starts in DB 0
def exR1 : Entry := { exR with db := 1 }
def exG3 : KGroup := (exR1, [])
theorem exG3_good : GoodGroup exG3 :=
  ⟨⟨rfl, rfl, by simp [exG3], by simp [exG3]⟩,
   ⟨by intro c hc; simp [exG3, exR1, exR] at hc; rcases hc with rfl | rfl <;> rfl, by simp [exG3, exR1, exR],
    by simp [exG3], by simp [exG3]⟩⟩
theorem ex_goodW : ∀ g ∈ [exG1, exG3], GoodGroup g ∧ g.oneDb := by
  intro g hg; simp at hg; rcases hg with rfl | rfl
  · refine ⟨exG1_good, ?_⟩
    intro e he; simp [KGroup.entries, exG1] at he; rcases he with rfl | rfl | rfl <;> rfl
  · refine ⟨exG3_good, ?_⟩
    intro e he; simp [KGroup.entries, exG3] at he; subst he; rfl
example : ([exG1, exG3].map KGroup.cell).Nodup := by decide
example : (workerTarget exT (runWorker false .ignore exCfg 0 none exT (flat [exG1, exG3]))).ks 0 [104]
    = some { val := .old 0, exp := 777 } :=
  (ignore_whole_worker exCfg 0 none exT [exG1, exG3] rfl ex_goodW (by decide)).2.1 exG1 (by simp) _ rfl
example : (workerTarget exT (runWorker false .ignore exCfg 0 none exT (flat [exG1, exG3]))).ks 1 [104]
    = some (snapshotObj exCfg exT exR1 []) :=
  (ignore_whole_worker exCfg 0 none exT [exG1, exG3] rfl ex_goodW (by decide)).2.2.1 exG3 (by simp) rfl
example : (runWorker false .ignore exCfg 0 none exT [exE0, exE1, exE2, exR1]).flatMap (·.1)
    = [Req.exists [104], Req.select 1, Req.restore [104] 4000 [4, 3] [] false] := by decide

example : lastOut (runWorker false .replace exCfg 0 none exT (flat [exG1, exG3])) = .ok :=
  (replace_whole_worker exCfg 0 none exT [exG1, exG3] rfl ex_goodW (by decide)).1
theorem ex_goodW' : ∀ g ∈ [exG3] ++ exG1 :: [], GoodGroup g ∧ g.oneDb := by
  intro g hg; simp at hg; rcases hg with rfl | rfl
  · exact ex_goodW exG3 (by simp)
  · exact ex_goodW exG1 (by simp)
example : lastOut (runWorker false .error exCfg 0 none exT (flat ([exG3] ++ exG1 :: []))) = .errExists :=
  (error_whole_stop_worker exCfg 0 none exT [exG3] [] exG1 _ rfl ex_goodW' (by decide)
    (by intro p hp; simp at hp; subst hp; rfl) rfl).1
example : ∀ d k, (d, k) ∉ [exG1, exG3].map KGroup.cell →
    (workerTarget exT (runWorker true .ignore exCfg 0 none exT (flat [exG1, exG3]))).ks d k = exT.ks d k :=
  (whole_worker_bisync .ignore exCfg 0 none exT [exG1, exG3] rfl ex_goodW (by decide)).1
-- the worker over a stream with AUX entries (DB 0, then DB 1) and a function (DB −1)
def exAux1 : Entry := { exAux with db := 1 }
theorem ex_streamW : StreamOf [exAux, exE0, exE1, exE2, exFn, exAux1, exR1] [exG1, exG3] := by unfold StreamOf; decide
example : (workerTarget exT (runWorker false .replace exCfg 0 none exT [exAux, exE0, exE1, exE2, exFn, exAux1, exR1])).ks 1 [104]
    = some (snapshotObj exCfg exT exR1 []) := by
  have h := (whole_worker_plain_stream .replace exCfg 0 none exT [exG1, exG3] _ ex_streamW rfl ex_goodW (by decide)).2.1
    (fun g _ => rfl)
  exact h.2 exG3 (by simp)
-- the same stream through the bidirectional worker
example : (workerTarget exT (runWorker true .replace exCfg 0 none exT [exAux, exE0, exE1, exE2, exFn, exAux1, exR1])).ks 1 [104]
    = some (snapshotObj exCfg exT exR1 []) := by
  have h := (whole_worker_bisync_stream .replace exCfg 0 none exT [exG1, exG3] _ ex_streamW rfl ex_goodW (by decide)).2.1
    (fun g hg => by simp at hg; rcases hg with rfl | rfl <;> decide)
  exact h.2 exG3 (by simp)

end GunYu.Props.C20
