/-
  C15 — the duration arithmetic the lease rests on, as REGENERATED from the
  source on every run (Gen/LeaseArith.lean, generator c15arith):

    fixDur        config/config.go (*ClusterConfig).fix, statements on the two durations
    etcdTtl       … its `cc.MetaEtcd.Ttl = …`
    storeTtl      cmd/syncer.go run(): the ttl handed to cluster.NewRedisCluster
    leaseHold     cmd/syncer.go leaseHold()
    tickerPeriod  cmd/syncer.go clusterTicker: period of time.NewTicker

  (`+ - *` with a non-constant operand wrap like int64; `/` truncates like Go.)
  Proved here, for EVERY configuration as written (any two int64 durations):
  the regenerated `fix` is the hand model `fixCfg` the other theorems use; on
  its output nothing wraps, hold + renew period = the ttl the store counts,
  renew period ≤ hold, renew period ≥ 1 s; and the acting theorem with ALL its
  numeric hypotheses discharged from these definitions — what remains is the
  environment bound it names: clock drift over one lease + time to stop the
  syncer ≤ one renew period (≥ 1 s whatever was configured).
-/
import Lean.Elab.Tactic
import GunYu.Model.Lease
import GunYu.Model.LeaseTimed
import GunYu.Gen.LeaseArith
import GunYu.Props.C15

set_option linter.unusedSimpArgs false
set_option linter.unusedVariables false

namespace GunYu.Props.C15
open GunYu GunYu.Lease
open GunYu.Gen.LeaseArith

theorem wrap64_id (x : Int) (h1 : -9223372036854775808 ≤ x) (h2 : x < 9223372036854775808) :
    wrap64 x = x := by
  unfold wrap64; omega

open Lean Elab Tactic Meta in
/-- every let-bound local `x := v` of the goal's context becomes a plain local with a hypothesis `x = v`
    (so that a proof about a regenerated definition does not depend on how many statements it has) -/
elab "lets_to_eqs" : tactic => do
  for i in [0:64] do
    let more ← withMainContext do
      let lctx ← getLCtx
      match lctx.decls.toList.filterMap (fun d? => d?.bind fun d => if d.isLet then some d else none) with
      | [] => pure false
      | d :: _ =>
        let g ← getMainGoal
        let nm := Name.mkSimple s!"xlet{i}"
        let g' ← g.rename d.fvarId nm
        replaceMainGoal [g']
        let h : TSyntax `Lean.binderIdent := ⟨(mkIdent (Name.mkSimple s!"hlet{i}")).raw⟩
        evalTactic (← `(tactic| clear_value ($h : $(mkIdent nm) = _)))
        pure true
    if !more then break

theorem eq_ite_iff' (x a b : Int) (c : Prop) [Decidable c] :
    x = (if c then a else b) ↔ (c ∧ x = a) ∨ (¬ c ∧ x = b) := by
  by_cases h : c <;> simp [h]

/-- Go's truncated division by a positive constant, in terms `omega` understands -/
theorem eq_tdiv_iff (x a b : Int) (hb : 0 < b) :
    x = a.tdiv b ↔ (0 ≤ a ∧ x = a / b) ∨ (a < 0 ∧ x = -((-a) / b)) := by
  by_cases ha : 0 ≤ a
  · rw [Int.tdiv_eq_ediv_of_nonneg ha]
    constructor
    · intro h; exact Or.inl ⟨ha, h⟩
    · rintro (⟨_, h⟩ | ⟨h, _⟩)
      · exact h
      · omega
  · have hna : 0 ≤ -a := by omega
    have e : a.tdiv b = -((-a) / b) := by
      rw [← Int.tdiv_eq_ediv_of_nonneg hna, Int.neg_tdiv, Int.neg_neg]
    rw [e]
    constructor
    · intro h; exact Or.inr ⟨by omega, h⟩
    · rintro (⟨h, _⟩ | ⟨_, h⟩)
      · omega
      · exact h

/-- the regenerated `(*ClusterConfig).fix` IS the hand model `fixCfg`, for every
    pair of durations (no range condition: `fix` multiplies constants only).
    The proof names every intermediate value of both sides and hands the
    case analysis to `omega`: it does not depend on the number or the shape of
    the statements of `fix`. -/
theorem gen_fixDur_eq_model (c : Cfg) : fixDur c.lease c.renew = ((fixCfg c).lease, (fixCfg c).renew) := by
  obtain ⟨l, r⟩ := c
  unfold fixDur fixCfg
  extract_lets
  lets_to_eqs
  simp (disch := omega) only [eq_ite_iff', eq_tdiv_iff, second, Prod.mk.injEq] at *
  omega

/-- range of what the regenerated `fix` leaves behind -/
theorem gen_fix_range (c : Cfg) :
    3000000000 ≤ (fixDur c.lease c.renew).1 ∧ (fixDur c.lease c.renew).1 ≤ 600000000000 ∧
    1000000000 ≤ (fixDur c.lease c.renew).2 ∧ (fixDur c.lease c.renew).2 ≤ (fixDur c.lease c.renew).1 / 3 := by
  rw [gen_fixDur_eq_model]
  have h := renew_le_third c
  simp only [second] at h
  exact ⟨h.1, h.2.1, h.2.2.1, h.2.2.2.1⟩

/-- the ttl `run()` hands to the lease store is `ttlSeconds` of the model -/
theorem gen_storeTtl_eq_model (c : Cfg) (h : 0 ≤ c.lease) : storeTtl c.lease c.renew = ttlSeconds c := by
  simp only [storeTtl, ttlSeconds, second]
  exact Int.tdiv_eq_ediv_of_nonneg h

/-- the etcd session gets the ttl the Redis lease gets -/
theorem gen_etcdTtl_eq_storeTtl (lease renew : Int) (h : 0 ≤ lease) :
    etcdTtl lease renew = storeTtl lease renew := by
  unfold etcdTtl storeTtl
  first | rfl | simp (disch := omega) only [Int.tdiv_eq_ediv_of_nonneg]

/-- On every fixed configuration: nothing wraps; hold + renew period is exactly
    the lease as the store counts it (whole seconds); the renew period (= the
    ticker's period) is at least 1 s and at most the hold; ttl ∈ [3, 600]. -/
theorem gen_hold_plus_renew (c : Cfg) :
    leaseHold (fixDur c.lease c.renew).1 (fixDur c.lease c.renew).2
        + tickerPeriod (fixDur c.lease c.renew).1 (fixDur c.lease c.renew).2
      = storeTtl (fixDur c.lease c.renew).1 (fixDur c.lease c.renew).2 * 1000000000 ∧
    tickerPeriod (fixDur c.lease c.renew).1 (fixDur c.lease c.renew).2
      ≤ leaseHold (fixDur c.lease c.renew).1 (fixDur c.lease c.renew).2 ∧
    1000000000 ≤ tickerPeriod (fixDur c.lease c.renew).1 (fixDur c.lease c.renew).2 ∧
    3 ≤ storeTtl (fixDur c.lease c.renew).1 (fixDur c.lease c.renew).2 ∧
    storeTtl (fixDur c.lease c.renew).1 (fixDur c.lease c.renew).2 ≤ 600 := by
  obtain ⟨h1, h2, h3, h4⟩ := gen_fix_range c
  generalize (fixDur c.lease c.renew).1 = L at *
  generalize (fixDur c.lease c.renew).2 = R at *
  simp only [leaseHold, tickerPeriod, storeTtl]
  rw [Int.tdiv_eq_ediv_of_nonneg (by omega)]
  rw [wrap64_id (L / 1000000000 * 1000000000) (by omega) (by omega)]
  rw [wrap64_id _ (by omega) (by omega)]
  omega

/-- the driver's `leaseHoldMs` (ms, used by the ticker ops) is the regenerated
    `leaseHold` on whole-millisecond durations -/
theorem gen_leaseHold_eq_model (leaseMs renewMs : Nat) (hb : leaseMs ≤ 1000000000000)
    (h : renewMs ≤ leaseMs / 1000 * 1000) :
    leaseHold ((leaseMs : Int) * 1000000) ((renewMs : Int) * 1000000)
      = ((leaseHoldMs leaseMs renewMs : Nat) : Int) * 1000000 := by
  simp only [leaseHold, leaseHoldMs]
  rw [Int.tdiv_eq_ediv_of_nonneg (by omega)]
  rw [wrap64_id ((leaseMs : Int) * 1000000 / 1000000000 * 1000000000) (by omega) (by omega)]
  rw [wrap64_id _ (by omega) (by omega)]
  omega

/-! ### the acting theorem from the regenerated constants only -/

/-- ttl (s) the instance hands to the store, for a configuration AS WRITTEN -/
def cfgTtl (raw : Cfg) : Nat :=
  (storeTtl (fixDur raw.lease raw.renew).1 (fixDur raw.lease raw.renew).2).toNat
/-- its leaseHold, rounded UP to ms -/
def cfgHoldMs (raw : Cfg) : Nat :=
  ((leaseHold (fixDur raw.lease raw.renew).1 (fixDur raw.lease raw.renew).2 + 999999) / 1000000).toNat
/-- its renew period, rounded DOWN to ms -/
def cfgRenewMs (raw : Cfg) : Nat :=
  (tickerPeriod (fixDur raw.lease raw.renew).1 (fixDur raw.lease raw.renew).2 / 1000000).toNat

/-- the numeric hypotheses of the acting / ticker theorems, for every
    configuration as written -/
theorem cfg_hold_renew_ttl (raw : Cfg) :
    cfgHoldMs raw + cfgRenewMs raw ≤ cfgTtl raw * 1000 ∧ 1 ≤ cfgTtl raw ∧
    1000 ≤ cfgRenewMs raw ∧ cfgRenewMs raw ≤ cfgHoldMs raw := by
  obtain ⟨h1, h2, h3, h4, h5⟩ := gen_hold_plus_renew raw
  unfold cfgHoldMs cfgRenewMs cfgTtl
  generalize leaseHold (fixDur raw.lease raw.renew).1 (fixDur raw.lease raw.renew).2 = H at *
  generalize tickerPeriod (fixDur raw.lease raw.renew).1 (fixDur raw.lease raw.renew).2 = R at *
  generalize storeTtl (fixDur raw.lease raw.renew).1 (fixDur raw.lease raw.renew).2 = T at *
  omega

/-- AT MOST ONE ACTING, from the regenerated constants only. Every instance
    `id` runs with a configuration `raw id` as written (any durations); its
    ttl, hold and renew period are what the code computes from it. `D id` =
    drift of its clock against the store's over one lease, `S id` = time from
    clusterTicker's return until the syncer has stopped (real ms). If
    `D id + S id ≤ renew period of id`, then for every schedule that keeps to
    `TAllowed` two instances running RunLeader for one key are the same. -/
theorem at_most_one_acting_from_config (raw : Bytes → Cfg) (D S : Bytes → Nat)
    (hDS : ∀ id, D id + S id ≤ cfgRenewMs (raw id)) (st : Store) (now : Nat) (evs : List TEv)
    (hok : trunOk (fun id => cfgTtl (raw id)) (fun id => cfgHoldMs (raw id) + D id + S id)
      (TSys.init st now) evs) (key i j : Bytes)
    (hi : ((trun (fun id => cfgTtl (raw id)) (fun id => cfgHoldMs (raw id) + D id + S id)
      (TSys.init st now) evs).inst key i).acting = true)
    (hj : ((trun (fun id => cfgTtl (raw id)) (fun id => cfgHoldMs (raw id) + D id + S id)
      (TSys.init st now) evs).inst key j).acting = true) : i = j :=
  at_most_one_acting_with_drift (fun id => cfgTtl (raw id)) (fun id => cfgHoldMs (raw id)) D S
    (fun id => (cfg_hold_renew_ttl (raw id)).2.1)
    (fun id => by
      have h := cfg_hold_renew_ttl (raw id)
      have := hDS id
      show cfgHoldMs (raw id) + D id + S id ≤ cfgTtl (raw id) * 1000
      omega)
    st now evs hok key i j hi hj

/-- …in particular one second of drift + stop time is enough whatever was
    configured (the renew period is never below 1 s) -/
theorem at_most_one_acting_one_second (raw : Bytes → Cfg) (D S : Bytes → Nat)
    (hDS : ∀ id, D id + S id ≤ 1000) (st : Store) (now : Nat) (evs : List TEv)
    (hok : trunOk (fun id => cfgTtl (raw id)) (fun id => cfgHoldMs (raw id) + D id + S id)
      (TSys.init st now) evs) (key i j : Bytes)
    (hi : ((trun (fun id => cfgTtl (raw id)) (fun id => cfgHoldMs (raw id) + D id + S id)
      (TSys.init st now) evs).inst key i).acting = true)
    (hj : ((trun (fun id => cfgTtl (raw id)) (fun id => cfgHoldMs (raw id) + D id + S id)
      (TSys.init st now) evs).inst key j).acting = true) : i = j :=
  at_most_one_acting_from_config raw D S
    (fun id => Nat.le_trans (hDS id) (cfg_hold_renew_ttl (raw id)).2.2.1) st now evs hok key i j hi hj

-- non-vacuity: defaults (10 s / 3.33 s), a 5 s lease with 1.5 s renewals (the ticker examples), clamping
example : fixDur 0 0 = (10000000000, 3333333333) := by decide
example : cfgTtl ⟨0, 0⟩ = 10 ∧ cfgHoldMs ⟨0, 0⟩ = 6667 ∧ cfgRenewMs ⟨0, 0⟩ = 3333 := by decide
example : cfgTtl ⟨5000000000, 1500000000⟩ = 5 ∧ cfgHoldMs ⟨5000000000, 1500000000⟩ = 3500 := by decide
example : leaseHold 5000000000 1500000000 = 3500000000 := by decide
example : leaseHold 3900000000 1000000000 = 2000000000 ∧ storeTtl 3900000000 1000000000 = 3 := by decide
example : fixDur (-5) 7000000000000 = (3000000000, 1000000000) := by decide
-- the wrap is real outside the fixed range: leaseHold of an unfixed configuration overflows
example : leaseHold 0 (-9223372036854775808) = -9223372036854775808 := by decide
-- the schedule of Props/C15.lean (`okEvs`: ttl 3 s, hold 2 s) is one of a 3 s / 1 s configuration
example : cfgTtl ⟨3000000000, 1000000000⟩ = 3 ∧ cfgHoldMs ⟨3000000000, 1000000000⟩ + 0 + 0 = 2000 := by decide

-- … and the hypotheses of at_most_one_acting_from_config are met by it: every instance configured 3 s / 1 s,
-- drift + stop time 0 (the schedule has a slow call and a renewal; Props/C15.lean `okEvs`)
example : trunOk (fun _ => cfgTtl ⟨3000000000, 1000000000⟩) (fun _ => cfgHoldMs ⟨3000000000, 1000000000⟩ + 0 + 0)
    (TSys.init Store.empty 5) okEvs :=
  trunOk_of_B _ _ [(kK, iA)] okEvs _ (fun _ _ _ => rfl) (by decide) (by decide)
example : ((trun (fun _ => cfgTtl ⟨3000000000, 1000000000⟩) (fun _ => cfgHoldMs ⟨3000000000, 1000000000⟩ + 0 + 0)
    (TSys.init Store.empty 5) okEvs).inst kK iA).acting = true := by decide

end GunYu.Props.C15
