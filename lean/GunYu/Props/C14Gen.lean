/-
  C14 — the recovery computations REGENERATED from the Go source on every run
  (Gen/FnC14Frontier.lean, translator harness/extract/gofn_c14.go: RebuildBisyncFrontier as a whole,
  BisyncFrontierSnapshot.Clone, the selection of LoadBisyncLatestStartRecord) are equal to the
  hand-written model the theorems of Props/C14*.lean are about - for all inputs in the int64 range.
  An edit of the Go functions has to keep these proofs alive.
-/
import GunYu.Gen.FnC14Frontier
import GunYu.Proofs.FrontierGen
import GunYu.Props.C14

namespace GunYu.Props.C14
open GunYu GunYu.Frontier GunYu.Gen.C14

/-- `Clone` copies every field the model has (and panics on nil) -/
theorem gen_clone_eq (s : Option Snap) : clone s = s.map some := by
  cases s with
  | none => rfl
  | some s => simp [clone, cloneV]

/-- RebuildBisyncFrontier as translated from the Go source = the model's `rebuild`, for EVERY snapshot and
    record list whose sequence numbers are int64 values (`nextSeq++` wraps; the map, the `for {}` loop, the
    clone, the lazy `||` are the code's). `len(records)+1` iterations of the `for {}` suffice (the fuel
    argument of the translation; with less the translation says `none`). The error VALUE is `true`
    = ErrBisyncJournalGap (the only error the function returns). -/
theorem gen_rebuild_eq_model (ver : Bytes) (snap : Option Snap) (recs : List Rec)
    (hs : ∀ s, snap = some s → I64 s.seq) (hr : ∀ r ∈ recs, I64 r.seq) :
    rebuildFrontier ver (recs.length + 1) snap (recs.map some) =
      some (match rebuild ver snap recs with
        | .ok s => (s, false)
        | .error _ => (none, true)) := by
  by_cases hnil : recs = []
  · subst hnil
    cases snap with
    | none => simp [rebuildFrontier, rebuild]
    | some s => simp [rebuildFrontier, rebuild, gen_clone_eq]
  · have hemp : recs.isEmpty = false := by cases recs with | nil => exact absurd rfl hnil | cons _ _ => rfl
    obtain ⟨h1, h2, h3⟩ := loop1_eq ver (recs.length + 1) recs [] 0 (by intro p hp; cases hp)
    have hlook : ∀ n, look (List.foldl fillStep [] recs) n = pick recs n := by
      intro n; rw [h3 n]; rfl
    cases snap with
    | none =>
      have hb : I64 (0 : Int) := ⟨by decide, by decide⟩
      have hfix := advance_fix recs recs.length
        { runId := [], seq := 0, offset := 0, mtime := 0, version := ver } (above_le_length _ _)
      have h4 := loop2_eq ver (recs.length + 1) recs hr _ h2 hlook recs.length
        { runId := [], seq := 0, offset := 0, mtime := 0, version := ver } hb hfix
      unfold rebuildFrontier rebuild
      simp only [hemp] at h4 ⊢
      simp [hnil, h1, ← minSeq_eq_fold]
      by_cases hg : minSeq recs = 1
      · simp [hg, h4]
      · simp [hg]
    | some s =>
      have hb : I64 s.seq := hs s rfl
      have hfix := advance_fix recs recs.length s (above_le_length _ _)
      have h4 := loop2_eq ver (recs.length + 1) recs hr _ h2 hlook recs.length s hb hfix
      unfold rebuildFrontier rebuild
      simp only [hemp] at h4 ⊢
      simp [hnil, h1, ← minSeq_eq_fold, gen_clone_eq]
      by_cases hz : s.seq = 0
      · by_cases hg : minSeq recs = 1
        · simp [hz, hg]
          simp [hz] at h4
          simp [h4]
        · simp [hz, hg]
      · simp [hz, h4]

/-- more fuel than the fixed point of `advance` needs changes nothing -/
theorem advance_stable (recs : List Rec) :
    ∀ (F : Nat) (cur : Snap), pick recs ((advance F recs cur).seq + 1) = none →
      ∀ d, advance (F + d) recs cur = advance F recs cur := by
  intro F
  induction F with
  | zero =>
    intro cur h d
    simp only [advance] at h
    cases d with
    | zero => rfl
    | succ d => simp only [advance, h]
  | succ F ih =>
    intro cur h d
    have e : F + 1 + d = (F + d) + 1 := by omega
    rw [e]
    unfold advance at h ⊢
    cases hp : pick recs (cur.seq + 1) with
    | none => rfl
    | some r =>
      rw [hp] at h
      simp only at h ⊢
      exact ih (stepSnap cur r) h d

/-- nil entries of the record slice are skipped by the fill loop -/
theorem loop1_eq_opt (ver : Bytes) (fuel : Nat) (records : List (Option Rec)) :
    ∀ (m : List (Int × Option Rec)) (ms : Int), MapOK m →
      rebuildFrontier_loop1 ver fuel records (m, ms)
        = some (GoRet.next ((records.filterMap id).foldl fillStep m, (records.filterMap id).foldl minStep ms)) := by
  induction records with
  | nil => intro m ms h; simp [rebuildFrontier_loop1]
  | cons x rest ih =>
    intro m ms h
    cases x with
    | none =>
      have hb : rebuildFrontier_loop1_body ver fuel none (m, ms) = some (GoRet.next (m, ms)) := by
        simp [rebuildFrontier_loop1_body]
      simp only [rebuildFrontier_loop1, hb, List.filterMap_cons, id]
      simpa using ih m ms h
    | some r =>
      simp only [rebuildFrontier_loop1, loop1_body_eq ver fuel m ms r h, List.filterMap_cons, id, List.foldl_cons]
      simpa using ih (fillStep m r) (minStep ms r) (mapOK_fillStep h r)

/-- RebuildBisyncFrontier as translated = the model on the non-nil records, for EVERY record slice (nil
    entries anywhere) with at least one non-nil entry or none at all, and every fuel from len+1 on.
    (A slice of nil entries ONLY is the one input where the code and `rebuild` of the non-nil records differ:
    `len(records) != 0`, no record is filed, minSeq stays 0 and an absent / seq-0 snapshot gives
    ErrBisyncJournalGap where `rebuild _ []` returns the snapshot; LoadBisyncCommitRecords never produces a nil entry.) -/
theorem gen_rebuild_eq_model_nil (ver : Bytes) (snap : Option Snap) (records : List (Option Rec)) (fuel : Nat)
    (hf : (records.filterMap id).length + 1 ≤ fuel)
    (hne : records = [] ∨ records.filterMap id ≠ [])
    (hs : ∀ s, snap = some s → I64 s.seq) (hr : ∀ r ∈ records.filterMap id, I64 r.seq) :
    rebuildFrontier ver fuel snap records =
      some (match rebuild ver snap (records.filterMap id) with
        | .ok s => (s, false)
        | .error _ => (none, true)) := by
  rcases hne with hnil | hne
  · subst hnil
    cases snap with
    | none => simp [rebuildFrontier, rebuild]
    | some s => simp [rebuildFrontier, rebuild, gen_clone_eq]
  · generalize hrecs : records.filterMap id = recs at hf hne hr
    obtain ⟨d, rfl⟩ : ∃ d, fuel = recs.length + d + 1 := ⟨fuel - (recs.length + 1), by omega⟩
    have hrne : records ≠ [] := by intro h; subst h; simp at hrecs; exact hne hrecs
    have hemp : recs.isEmpty = false := by cases recs with | nil => exact absurd rfl hne | cons _ _ => rfl
    have h1 := loop1_eq_opt ver (recs.length + d + 1) records [] 0 (by intro p hp; cases hp)
    rw [hrecs] at h1
    obtain ⟨_, h2, h3⟩ := loop1_eq ver (recs.length + d + 1) recs [] 0 (by intro p hp; cases hp)
    have hlook : ∀ n, look (List.foldl fillStep [] recs) n = pick recs n := by
      intro n; rw [h3 n]; rfl
    cases snap with
    | none =>
      have hb : I64 (0 : Int) := ⟨by decide, by decide⟩
      have hfix0 := advance_fix recs recs.length
        { runId := [], seq := 0, offset := 0, mtime := 0, version := ver } (above_le_length _ _)
      have hst := advance_stable recs recs.length _ hfix0 d
      have hfix : pick recs ((advance (recs.length + d) recs
          { runId := [], seq := 0, offset := 0, mtime := 0, version := ver }).seq + 1) = none := by rw [hst]; exact hfix0
      have h4 := loop2_eq ver (recs.length + d + 1) recs hr _ h2 hlook (recs.length + d)
        { runId := [], seq := 0, offset := 0, mtime := 0, version := ver } hb hfix
      rw [hst] at h4
      unfold rebuildFrontier rebuild
      simp only [hemp] at h4 ⊢
      simp [hrne, h1, ← minSeq_eq_fold]
      by_cases hg : minSeq recs = 1
      · simp [hg, h4]
      · simp [hg]
    | some s =>
      have hb : I64 s.seq := hs s rfl
      have hfix0 := advance_fix recs recs.length s (above_le_length _ _)
      have hst := advance_stable recs recs.length _ hfix0 d
      have hfix : pick recs ((advance (recs.length + d) recs s).seq + 1) = none := by rw [hst]; exact hfix0
      have h4 := loop2_eq ver (recs.length + d + 1) recs hr _ h2 hlook (recs.length + d) s hb hfix
      rw [hst] at h4
      unfold rebuildFrontier rebuild
      simp only [hemp] at h4 ⊢
      simp [hrne, h1, ← minSeq_eq_fold, gen_clone_eq]
      by_cases hz : s.seq = 0
      · by_cases hg : minSeq recs = 1
        · simp [hz, hg]
          simp [hz] at h4
          simp [h4]
        · simp [hz, hg]
      · simp [hz, h4]

/-- the one input where they differ -/
example : rebuildFrontier [49] 3 none [none] = some (none, true) := by decide
example : (rebuild [49] none ([none].filterMap id)).toOption = some none := by decide


/-- LoadBisyncLatestStartRecord's loop over the parsed records with the REGENERATED selection step
    = the model's `bestLatest` (record and count) -/
theorem gen_bestLatest_eq_model (ids : List Bytes) (recs : List Rec) (hlen : (recs.length : Int) < 9223372036854775807) :
    genBestLatest ids recs (none, 0) = some ((bestLatest recs ids).1, ((bestLatest recs ids).2 : Int)) := by
  have h2 : (bestLatest recs ids).2 = 0 + (recs.filter (fun r => matchRun r.runId ids)).length :=
    bestLatest_snd_fold ids recs (none, 0)
  rw [genBestLatest_eq ids recs (none, 0) (by simp) (by simpa using hlen), bestLatest_fst, h2]
  simp

/-- what `rebuild_contiguous` proves about the model holds for the function the code now is -/
theorem gen_rebuild_contiguous (ver : Bytes) (snap : Option Snap) (recs : List Rec) (res : Snap)
    (hs : ∀ s, snap = some s → I64 s.seq) (hr : ∀ r ∈ recs, I64 r.seq)
    (h : rebuildFrontier ver (recs.length + 1) snap (recs.map some) = some (some res, false)) :
    baseSeq snap ≤ res.seq ∧
    (∀ m, baseSeq snap < m → m ≤ res.seq → ∃ r ∈ recs, r.seq = m ∧ 0 < r.seq) := by
  rw [gen_rebuild_eq_model ver snap recs hs hr] at h
  cases hm : rebuild ver snap recs with
  | error e => rw [hm] at h; simp at h
  | ok s =>
    rw [hm] at h
    simp only [Option.some.injEq, Prod.mk.injEq, and_true] at h
    subst h
    obtain ⟨a, b, _, _⟩ := rebuild_contiguous ver snap recs res hm
    exact ⟨a, b⟩

/-! ### non-vacuity -/

example : rebuildFrontier [49] 4 (some ⟨[114], 2, 1020, 5, [49]⟩) [some (exR 6 1), some (exR 4 2), some (exR 3 3)]
    = some (some ⟨[114], 4, 1040, 5, [49]⟩, false) := by decide
example : rebuildFrontier [49] 3 none [some (exR 3 1), some (exR 2 1)] = some (none, true) := by decide
/-- too little fuel: the translation says so (`none`), it does not invent a result -/
example : rebuildFrontier [49] 1 (some ⟨[114], 2, 1020, 5, [49]⟩) [some (exR 4 2), some (exR 3 3)] = none := by decide
/-- a nil snapshot pointer handed to Clone panics -/
example : clone none = none := rfl
example : rebuildFrontier [49] 4 (some ⟨[114], 2, 1020, 5, [49]⟩) ([exR 6 1, exR 4 2, exR 3 3].map some)
    = some (match rebuild [49] (some ⟨[114], 2, 1020, 5, [49]⟩) [exR 6 1, exR 4 2, exR 3 3] with
        | .ok s => (s, false) | .error _ => (none, true)) :=
  gen_rebuild_eq_model [49] _ [exR 6 1, exR 4 2, exR 3 3]
    (by intro s h; cases h; exact ⟨by decide, by decide⟩)
    (by intro r h; simp at h; rcases h with h | h | h <;> subst h <;> exact ⟨by decide, by decide⟩)
example : genBestLatest [[114]] [⟨9, 1020, 1, [114], 0⟩, ⟨2, 1030, 1, [114], 5⟩, ⟨7, 1030, 0, [99], 9⟩] (none, 0)
    = some (some ⟨2, 1030, 1, [114], 5⟩, 2) := by decide

end GunYu.Props.C14
