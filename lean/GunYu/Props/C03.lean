/-
  C03 — A full sync reproduces the source snapshot's dataset on the target.

  Property theorems only (helper lemmas: Proofs/Rdb/*.lean).
-/
import GunYu.Model.Rdb.Crc64
import GunYu.Proofs.Rdb.Crc64

namespace GunYu.Props.C03
open GunYu GunYu.Rdb

/-! ## CRC64 and the RESTORE payload footer -/

/-- The table-driven CRC64 of pkg/digest (over the table regenerated from the Go
    source on every run) is CRC-64/Jones (reflected polynomial
    0xad93d23594c935a9), for every byte string. -/
theorem crc64_tab_eq_jones (bs : Bytes) : crc64Tab bs = crc64Spec bs :=
  crc64Tab_eq_spec_from bs 0#64

/-- the reflected polynomial is the bit reversal of the one Redis writes down -/
theorem jones_reflected : jonesPolyRev = 0x95ac9329ac4bc9b5#64 := jonesPolyRev_val

/-- `CreateValueDump` is type byte, the value's serialization, the 2-byte
    little-endian RDB version 6 and the little-endian CRC64 of all that. -/
theorem dump_payload (t : UInt8) (raw : Bytes) :
    createValueDump t raw =
      [t] ++ raw ++ [6, 0] ++ le64 (crc64Spec ([t] ++ raw ++ [6, 0])).toNat := by
  unfold createValueDump
  simp only [← crc64TabFrom_append]
  have : le16 dumpVersion = [6, 0] := by decide
  rw [this]
  show _ ++ le64 (crc64Tab ([t] ++ raw ++ [6, 0])).toNat = _
  rw [crc64_tab_eq_jones]

/-- Redis' `verifyDumpPayload` accepts every payload `CreateValueDump` builds
    (any server whose RDB version is at least 6). -/
theorem dump_verifies (rdbVersion : Nat) (h : 6 ≤ rdbVersion) (t : UInt8) (raw : Bytes) :
    verifyDumpPayload rdbVersion (createValueDump t raw) = true := by
  rw [dump_payload]
  generalize hc : crc64Spec ([t] ++ raw ++ [6, 0]) = c
  unfold verifyDumpPayload
  have hl : ([t] ++ raw ++ [6, 0] ++ le64 c.toNat).length = raw.length + 11 := by
    simp [le64, leN_length]
  have e1 : ([t] ++ raw ++ [6, 0] ++ le64 c.toNat) = ([t] ++ raw) ++ ([6, 0] ++ le64 c.toNat) := by
    simp
  have e2 : ([t] ++ raw ++ [6, 0] ++ le64 c.toNat) = ([t] ++ raw ++ [6, 0]) ++ le64 c.toNat := rfl
  have l1 : ([t] ++ raw).length = raw.length + 1 := by simp
  have l2 : ([t] ++ raw ++ [6, 0]).length = raw.length + 3 := by simp
  simp only [hl, show ¬ (raw.length + 11 < 10) by omega, if_false,
    show raw.length + 11 - 10 = raw.length + 1 by omega,
    show raw.length + 11 - 8 = raw.length + 3 by omega]
  have t1 : ([t] ++ raw ++ [6, 0] ++ le64 c.toNat).take (raw.length + 1) = [t] ++ raw := by
    rw [e1, ← l1, List.take_left']
    rfl
  have d1 : ([t] ++ raw ++ [6, 0] ++ le64 c.toNat).drop (raw.length + 1) = [6, 0] ++ le64 c.toNat := by
    rw [e1, ← l1, List.drop_left']
    rfl
  have d2 : ([t] ++ raw ++ [6, 0] ++ le64 c.toNat).drop (raw.length + 3) = le64 c.toNat := by
    rw [e2, ← l2, List.drop_left']
    rfl
  rw [t1, d1, d2]
  have t2 : ([6, 0] ++ le64 c.toNat).take 2 = [6, 0] := rfl
  rw [t2, hc]
  have v : ofLE [6, 0] = 6 := by decide
  have hm : ofLE (le64 c.toNat) = c.toNat := by
    rw [le64, ofLE_leN]
    exact Nat.mod_eq_of_lt (by have := c.isLt; omega)
  simp [v, hm, h]

/-! Non-vacuity / check values -/

-- CRC-64/Jones("123456789") = 0xe9c6d914c4b8d9ca (Redis crc64.c test vector)
example : (crc64Spec [49,50,51,52,53,54,55,56,57]).toNat = 0xe9c6d914c4b8d9ca := by decide +kernel
example : (crc64Tab [49,50,51,52,53,54,55,56,57]).toNat = 0xe9c6d914c4b8d9ca := by decide +kernel
-- DUMP of the string "a" (type 0, raw 01 61): 13 bytes, accepted by a Redis 7 (RDB 10) server
example : (createValueDump 0 [1, 97]).length = 13 := by decide +kernel
example : verifyDumpPayload 10 (createValueDump 0 [1, 97]) = true := by decide +kernel
-- a flipped payload byte is rejected
example : verifyDumpPayload 10 ((createValueDump 0 [1, 97]).set 2 98) = false := by decide +kernel

end GunYu.Props.C03
