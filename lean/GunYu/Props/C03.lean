/-
  C03 — A full sync reproduces the source snapshot's dataset on the target.

  Property theorems only (helper lemmas: Proofs/Rdb/*.lean).
-/
import GunYu.Model.Rdb.Crc64
import GunYu.Model.Rdb.Value
import GunYu.Model.Rdb.Replay
import GunYu.Proofs.Rdb.Crc64
import GunYu.Proofs.Rdb.Read
import GunYu.Proofs.Rdb.Sem
import GunYu.Proofs.Rdb.Chunk
import GunYu.Proofs.Rdb.StreamNode
import GunYu.Proofs.Rdb.Frame
import GunYu.Proofs.Rdb.FanOut
import GunYu.Proofs.Rdb.Sync
import GunYu.Proofs.Rdb.Parallel
import GunYu.Proofs.Rdb.Commute
import GunYu.Proofs.Rdb.Interleave

namespace GunYu.Props.C03
open GunYu GunYu.Rdb GunYu.RedisSem

/-! ## CRC64 and the RESTORE payload footer -/

/-- The table-driven CRC64 of pkg/digest (over the table regenerated from the Go
    source on every run) is CRC-64/Jones (reflected polynomial
    0xad93d23594c935a9), for every byte string. -/
theorem crc64_tab_eq_jones (bs : Bytes) : crc64Tab bs = crc64Spec bs :=
  crc64Tab_eq_spec_from bs 0#64

/-- the reflected polynomial is the bit reversal of the one Redis writes down -/
theorem jones_reflected : jonesPolyRev = 0x95ac9329ac4bc9b5#64 := jonesPolyRev_val

/-- `CreateValueDump` is type byte, the value's serialization, the 2-byte
    little-endian RDB version 6 and the little-endian CRC64 of all that. -/
theorem dump_payload (t : UInt8) (raw : Bytes) :
    createValueDump t raw =
      [t] ++ raw ++ [6, 0] ++ le64 (crc64Spec ([t] ++ raw ++ [6, 0])).toNat := by
  unfold createValueDump
  simp only [← crc64TabFrom_append]
  have : le16 dumpVersion = [6, 0] := by decide
  rw [this]
  show _ ++ le64 (crc64Tab ([t] ++ raw ++ [6, 0])).toNat = _
  rw [crc64_tab_eq_jones]

/-- Redis' `verifyDumpPayload` accepts every payload `CreateValueDump` builds
    (any server whose RDB version is at least 6). -/
theorem dump_verifies (rdbVersion : Nat) (h : 6 ≤ rdbVersion) (t : UInt8) (raw : Bytes) :
    verifyDumpPayload rdbVersion (createValueDump t raw) = true := by
  rw [dump_payload]
  generalize hc : crc64Spec ([t] ++ raw ++ [6, 0]) = c
  unfold verifyDumpPayload
  have hl : ([t] ++ raw ++ [6, 0] ++ le64 c.toNat).length = raw.length + 11 := by
    simp [le64, leN_length]
  have e1 : ([t] ++ raw ++ [6, 0] ++ le64 c.toNat) = ([t] ++ raw) ++ ([6, 0] ++ le64 c.toNat) := by
    simp
  have e2 : ([t] ++ raw ++ [6, 0] ++ le64 c.toNat) = ([t] ++ raw ++ [6, 0]) ++ le64 c.toNat := rfl
  have l1 : ([t] ++ raw).length = raw.length + 1 := by simp
  have l2 : ([t] ++ raw ++ [6, 0]).length = raw.length + 3 := by simp
  simp only [hl, show ¬ (raw.length + 11 < 10) by omega, if_false,
    show raw.length + 11 - 10 = raw.length + 1 by omega,
    show raw.length + 11 - 8 = raw.length + 3 by omega]
  have t1 : ([t] ++ raw ++ [6, 0] ++ le64 c.toNat).take (raw.length + 1) = [t] ++ raw := by
    rw [e1, ← l1, List.take_left']
    rfl
  have d1 : ([t] ++ raw ++ [6, 0] ++ le64 c.toNat).drop (raw.length + 1) = [6, 0] ++ le64 c.toNat := by
    rw [e1, ← l1, List.drop_left']
    rfl
  have d2 : ([t] ++ raw ++ [6, 0] ++ le64 c.toNat).drop (raw.length + 3) = le64 c.toNat := by
    rw [e2, ← l2, List.drop_left']
    rfl
  rw [t1, d1, d2]
  have t2 : ([6, 0] ++ le64 c.toNat).take 2 = [6, 0] := rfl
  rw [t2, hc]
  have v : ofLE [6, 0] = 6 := by decide
  have hm : ofLE (le64 c.toNat) = c.toNat := by
    rw [le64, ofLE_leN]
    exact Nat.mod_eq_of_lt (by have := c.isLt; omega)
  simp [v, hm, h]

/-! ## Encodings: strings -/

/-- Every string encoding Redis writes (raw with any length form, 8/16/32-bit
    integer, LZF-compressed given as any well-formed literal/back-reference
    list) is read back by `ReadString` as exactly the string it denotes, and
    exactly its bytes are consumed. -/
theorem string_roundtrip (s : SE) (rest : Bytes) (h : s.wf) :
    readString (s.enc ++ rest) = some (s.val, rest) :=
  readString_enc s rest h

/-- the LZF decompressor inverts the LZF wire format (overlapping back
    references included) -/
theorem lzf_roundtrip (ops : List LzfOp) (h : lzfWfFrom 0 ops) :
    lzfDecompress (lzfEmit ops) (lzfExpand ops).length = some (lzfExpand ops) :=
  lzfDecompress_emit ops h

/-! ## Encodings: containers -/

/-- a ziplist blob (any entry encodings and integer widths/signs, 1- or 5-byte
    prevlen, known or unknown (0xFFFF) length) iterates to its entries' values -/
theorem ziplist_roundtrip (z : ZL) (h : z.wf) : zlAll z.blob = some z.vals := zlAll_blob z h

/-- a listpack blob (every string and integer encoding, ANY number of elements: from
    65535 on the count field says "unknown" and the elements are walked to the end
    marker) yields its entries' values -/
theorem listpack_roundtrip (es : List LPEntry) (h : lpWf es) :
    lpAll (lpBlob es) = some (es.map LPEntry.val) := lpAll_blob es h

/-- an intset blob of width 2, 4 or 8 yields its integers in decimal -/
theorem intset_roundtrip (width : Nat) (vs : List Int) (hw : width = 2 ∨ width = 4 ∨ width = 8)
    (hl : vs.length < 2 ^ 32) (h : ∀ v ∈ vs, inSigned (8 * width) v) :
    intsetAll (intsetBlob width vs) = some (vs.map intToDec) := intsetAll_blob width vs hw hl h

/-! ## Expansion round trip

For every value `o` of every string / list / set / sorted-set / hash encoding
(`ObjE`: raw, integer and LZF strings; linked list, ziplist, quicklist,
quicklist v2 plain + packed; hash-table set, intset 16/32/64, listpack set;
skiplist v1/v2, ziplist and listpack sorted sets; hash table, zipmap, ziplist
and listpack hashes — containers saved raw or LZF-compressed), the commands the
tool expands the serialization into rebuild exactly the source value when
replayed into an empty key. Hypotheses are what Redis guarantees of its own
data: the description is well-formed, the value is not empty, members / fields
are distinct. -/

theorem expand_roundtrip (x : XCfg) (k : Bytes) (o : ObjE)
    (hwf : o.wf) (hk : o.kind ≠ .other) (hne : o.nonempty) (hd : o.members.Nodup) :
    ∃ cmds, execCmd x (pobjOf k o) = some cmds ∧ applyCmds [] cmds = some [(k, o.value, 0)] := by
  refine ⟨o.cmds k, execCmd_pobjOf x k o hwf hk, ?_⟩
  unfold ObjE.cmds ObjE.value
  unfold ObjE.nonempty at hne
  unfold ObjE.members at hd
  cases hkind : o.kind with
  | other => exact absurd hkind hk
  | str =>
    cases o with
    | str s => simp [applyCmds, apply_set, put_nil]
    | _ => simp [ObjE.kind] at hkind
  | list =>
    simp only [hkind] at hne ⊢
    exact rpush_all k o.elems hne
  | set =>
    simp only [hkind] at hne hd ⊢
    exact sadd_all k o.elems hne hd
  | zset =>
    simp only [hkind] at hne hd ⊢
    exact zadd_all k o.scored hne hd
  | hash =>
    simp only [hkind] at hne hd ⊢
    exact hset_all k o.pairs hne hd

/-- frame rule: the same expansion replayed into ANY keyspace that does not hold
    the key (other keys, whatever their types) adds exactly the source value and
    leaves everything else as it was -/
theorem expand_roundtrip_frame (x : XCfg) (k : Bytes) (o : ObjE) (ks : Keyspace)
    (hwf : o.wf) (hk : o.kind ≠ .other) (hne : o.nonempty) (hd : o.members.Nodup) (hfresh : get ks k = none) :
    ∃ cmds, execCmd x (pobjOf k o) = some cmds ∧ applyCmds ks cmds = some (ks ++ [(k, o.value, 0)]) :=
  ⟨o.cmds k, execCmd_pobjOf x k o hwf hk, cmds_frame ks k o hk hne hd hfresh⟩

/-- The bytes teed while parsing are exactly the value's serialization
    (`ReadBuffer` after the key consumes `o.ser`, nothing more, nothing less, and
    stores it as the parser's buffer), so a RESTORE payload is byte for byte type +
    serialization + footer. (The chunkable hash table is covered by
    `hash_unsplit_raw_is_encode` / `chunked_roundtrip`.) -/
theorem raw_is_encode (cfg : DCfg) (key : SE) (o : ObjE) (rest : Bytes)
    (hkey : key.wf) (hwf : o.wf) (hk : o.kind ≠ .other) (hh : o.rtype ≠ 4) :
    readBuffer cfg {} o.rtype (key.enc ++ (o.ser ++ rest)) = some (pobjOf key.val o, {}, rest) ∧
      (pobjOf key.val o).buf = o.ser ∧ (pobjOf key.val o).key = key.val ∧
      (pobjOf key.val o).dump = createValueDump o.rtype o.ser :=
  ⟨readBuffer_plain cfg key o rest hkey hwf hk hh, rfl, rfl, rfl⟩

/-- `Loader.Next` on a key item (expiry / idle / freq opcodes, type byte, key,
    value) of any string / list / set / sorted-set / hash encoding that is never
    split: exactly ONE entry, with the key, the loader's DB, the absolute expiry,
    idle time, freq and the parser object `pobjOf` (buffer = serialization) that
    `expand_roundtrip`, `restore_path` and `expand_path` start from; the loader
    is ready for the next item, the input is positioned behind the value. -/
theorem next_key_entry (cfg : DCfg) (ls : LState) (k : KeyE) (rest : Bytes)
    (hls : ls.total = 0 ∧ ls.read = 0) (hwf : k.wf) (hk : k.obj.kind ≠ .other) (hh : k.obj.rtype ≠ 4) :
    ∃ e ls', next cfg ls (k.enc ++ rest) = some (some e, ls', rest) ∧
      e.key = k.key.val ∧ e.db = (ls.db : Int) ∧ e.expireAt = k.exp.at ∧
      e.idle = (match k.idle with | none => 0 | some (_, n) => n) ∧
      e.freq = (match k.freq with | none => 0 | some n => n) ∧
      e.type = k.obj.rtype ∧ e.obj = pobjOf k.key.val k.obj ∧
      ls'.db = ls.db ∧ ls'.total = 0 ∧ ls'.read = 0 :=
  next_plain cfg ls k rest hls hwf hk hh

/-! ## Values split into several chunks

Only the hash table (`RdbTypeHash`) is ever split (`maxBinEntryBuffer`). -/

/-- `chunked_roundtrip` — for ANY chunking threshold: repeated `Next` over a
    hash-table key item returns chunks which (1) all carry the key, the DB, the
    absolute expiry, idle time and freq of the value (D8 repaired), (2) are a
    first chunk exactly for the first one (so the key-exists probe / DEL happens
    once), (3) each expand without error, and whose expansions, replayed in
    order into an empty key, rebuild exactly the source hash; afterwards the
    loader is ready for the next item and the input is positioned behind the
    value. Chunks of one key reach one worker in this order (`fanOut_same_key`). -/
theorem chunked_roundtrip (cfg : DCfg) (x : XCfg) (ls : LState) (k : KeyE) (f : LenForm)
    (items : List (SE × SE)) (rest : Bytes)
    (hobj : k.obj = .hashTable f items) (hls : ls.total = 0 ∧ ls.read = 0) (hwf : k.wf)
    (hne : items ≠ []) (hd : ((pairVals items).map (·.1)).Nodup) :
    ∃ es ls', nextValue cfg (items.length + 1) ls (k.enc ++ rest) = some (es, ls', rest) ∧
      ls'.total - ls'.read = 0 ∧ ls'.db = ls.db ∧
      (∀ e ∈ es, ChunkOf ls k e) ∧
      (∃ e0 tl, es = e0 :: tl ∧ e0.obj.firstBin = true ∧ ∀ e ∈ tl, e.obj.firstBin = false) ∧
      (∀ e ∈ es, (execCmd x e.obj).isSome) ∧
      applyCmds [] (es.flatMap (fun e => (execCmd x e.obj).getD [])) =
        some [(k.key.val, .hash (pairVals items), 0)] := by
  obtain ⟨es, ls', h1, h2, h3, h4, h5, h6, h7, _⟩ := nextValue_hash cfg ls k f items rest hobj hls hwf hne
  refine ⟨es, ls', h1, h2, h3, h4, h5, ?_, ?_⟩
  · intro e he
    rw [execCmd_hash_chunk x e.obj (h4 e he).2.2.2.2.2.2.2]
    have := h6 e he
    cases hp : hashPairs e.obj with
    | none => simp [hp] at this
    | some ps => simp
  · have hcmds : es.flatMap (fun e => (execCmd x e.obj).getD []) =
        (es.flatMap (fun e => (hashPairs e.obj).getD [])).map (fun q => cmdB b!"HSET" [k.key.val, q.1, q.2]) := by
      rw [List.map_flatMap]
      apply flatMap_congr_mem
      intro e he
      rw [execCmd_hash_chunk x e.obj (h4 e he).2.2.2.2.2.2.2, (h4 e he).2.2.2.2.2.2.1]
      cases hp : hashPairs e.obj with
      | none => simp
      | some ps => simp
    rw [hcmds, h7]
    have hne' : pairVals items ≠ [] := by
      intro h0
      apply hne
      unfold pairVals at h0
      exact List.map_eq_nil_iff.mp h0
    exact hset_all k.key.val (pairVals items) hne' hd

/-- when the whole table fits under the threshold there is a single chunk whose
    buffer is the serialization: the teed bytes are the encoding -/
theorem hash_unsplit_raw_is_encode (cfg : DCfg) (key : SE) (f : LenForm) (items : List (SE × SE)) (rest : Bytes)
    (hkey : key.wf) (hwf : (ObjE.hashTable f items).wf)
    (hthr : (ObjE.hashTable f items).ser.length ≤ cfg.thr) :
    ∃ p ls, readBuffer cfg {} 4 (key.enc ++ ((ObjE.hashTable f items).ser ++ rest)) = some (p, ls, rest) ∧
      p.buf = (ObjE.hashTable f items).ser ∧ p.key = key.val ∧ p.isSplited = false := by
  obtain ⟨hf, h32, hitems⟩ := hwf
  have hser : (ObjE.hashTable f items).ser = encLen f items.length ++ encPairs items := rfl
  rw [hser] at hthr ⊢
  have hloop := hashChunkLoop_nobreak cfg.thr (encLen f items.length ++ (encPairs items ++ rest)).length
    items rest 0 (encLen f items.length).length hitems (by simp) (by simpa using hthr)
  have hrb := readBuffer_hash_first' cfg {} key f items rest items.length ⟨rfl, rfl⟩ hkey hf h32
    (by rw [hloop]; simp [encPairs])
  simp only [List.append_assoc]
  rw [hrb]
  refine ⟨{ rtype := 4, key := key.val, buf := encLen f items.length ++ encPairs (items.take items.length),
            total := items.length, read := items.length, history := 0 }, {}, ?_, ?_, rfl, ?_⟩
  · simp [encPairs]
  · simp
  · simp [PObj.isSplited]

/-- the keyed fan-out sends all entries of one key — in particular all chunks of
    one value — to the same worker, whatever was distributed in between; a
    worker consumes its pipe in FIFO order (Go channel semantics, trusted), so
    the chunks of a key are applied in snapshot order -/
theorem fanOut_same_key (n : Nat) (e1 e2 : Entry) (i1 i2 : Nat) (h : e1.key = e2.key)
    (h1 : otypeOf e1.obj.rtype ≠ some .function) (h2 : otypeOf e2.obj.rtype ≠ some .function) :
    workerOf n e1 i1 = workerOf n e2 i2 := by
  simp [workerOf, h1, h2, h]

/-- order is kept per worker: after the fan-out, the request log of EVERY worker
    is its log before, followed by the request blocks of exactly the entries
    routed to it (`fanOutTrace`: worker `workerOf …` and requests of each entry,
    in snapshot order) — entries of other workers never interleave into a
    worker's sequence, so the chunks of one key (same worker by
    `fanOut_same_key`) are applied in snapshot order. (That a worker consumes its
    pipe in FIFO order is Go channel semantics, trusted.) -/
theorem fanOut_keeps_order (cfg : RCfg) (es : List Entry) (idx : Nat) (ws : List Worker) (ex : Exists)
    (hn : 0 < ws.length) (j : Nat) (hj : j < ws.length) :
    ((fanOut cfg es idx ws ex).1.getD j {}).log =
      (ws.getD j {}).log ++ ((fanOutTrace cfg es idx ws ex).filter (fun p => p.1 == j)).flatMap (·.2) :=
  fanOut_logs cfg es idx ws ex hn j hj

/-! ## Streams (partial: the entries)

The statement still open for streams is the full `expand_roundtrip` (entries AND
last id, counters, consumer groups, PELs replayed through XSETID / XGROUP /
XCLAIM into the oracle). -/

/-- full round trip of a stream value — not yet proved (listed `partial`) -/
def stream_roundtrip_stmt : Prop :=
  ∀ (x : XCfg) (k : Bytes) (s : StreamE), s.wf →
    ∃ cmds v, execStream x s.rtype k s.ser = some cmds ∧ applyCmds [] cmds = some [(k, .stream v, 0)]

/-- `stream_roundtrip_partial` — the entries: every listpack node of a stream
    (any listpack integer width for counters, flags and id deltas, elements as
    strings or integers, SAMEFIELDS entries interleaved with entries that carry
    their own fields, deleted entries, blob saved raw or LZF) expands into
    exactly one `XADD key id field value …` per live entry, in order, with
    id = master id + stored deltas and the entry's own field/value list — the
    master entry's field count is never disturbed (D11 repaired), ids are exact
    up to 2^64-1. -/
theorem stream_roundtrip_partial (key : Bytes) (nodes : List SNodeE) (rest : Bytes)
    (hwf : ∀ n ∈ nodes, n.wf ∧ ∀ e ∈ n.entries, e.idWf n.masterMs n.masterSeq) :
    streamNodes key nodes.length (nodes.flatMap SNodeE.enc ++ rest) =
      some (nodes.flatMap (fun n => n.live.map (fun p => cmdB b!"XADD" (key :: p.1 :: p.2))), rest) :=
  streamNodes_spec key nodes rest hwf

/-! ## The file frame -/

/-- magic and version: every file the specification writes for RDB versions
    1 … 13 passes `Loader.Header`, which returns that version -/
theorem header_roundtrip (f : FileE) (h1 : 1 ≤ f.version) (h13 : f.version ≤ 13) (rest : Bytes) :
    header (b!"REDIS" ++ verDigits f.version ++ rest) = some (f.version, rest) :=
  header_file f h1 h13 rest

/-- EOF and checksum: the 8 bytes after the EOF opcode — the little-endian
    CRC-64/Jones of everything before them, or eight zero bytes — pass `Loader.Footer`,
    and the input ends there (`Loader.End`) -/
theorem footer_roundtrip (f : FileE) (hnb : f.footer ≠ .bad) :
    footer (rdbFile f) ((rdbFile f).drop f.body.length) = true ∧
    inputEnds ((rdbFile f).drop f.body.length) = true :=
  ⟨footer_file f hnb, inputEnds_file f⟩

/-! ## The two replay paths -/

/-- RESTORE path: an unsplit value whose payload fits `MaxProtoBulkLen` is sent
    as ONE request `restore key ttl payload [IDLETIME n] [FREQ n]` (and once
    more with REPLACE if the key exists) whose payload is byte for byte the type
    byte, the value's serialization, RDB version 6 and the CRC-64/Jones of all
    that, and whose TTL realises the absolute expiry. -/
theorem restore_path (cfg : RCfg) (db : Int) (ex : Exists) (e : Entry) (k : Bytes) (o : ObjE)
    (hobj : e.obj = pobjOf k o) (hkey : e.key = k) (hk : o.kind ≠ .other)
    (hon : cfg.enableRestore = true) (hsz : 1 + o.ser.length + 2 + 8 ≤ cfg.maxBulk)
    (hload : typeLoadable cfg.x.tgtMajor o.rtype = true) (hrht : cfg.replaceHashTag = false) :
    let payload := [o.rtype] ++ o.ser ++ [6, 0] ++ le64 (crc64Spec ([o.rtype] ++ o.ser ++ [6, 0])).toNat
    let params := [k, natToDec (ttlOf cfg.now e.expireAt), payload] ++
      (if cfg.x.tgtMajor ≥ 5 then
        (if e.idle ≠ 0 then [b!"IDLETIME", natToDec e.idle] else []) ++
        (if e.freq ≠ 0 then [b!"FREQ", natToDec e.freq] else []) else [])
    (replayEntry cfg db ex e).1 =
        (if ex.has db k then [cmdB b!"restore" params, cmdB b!"restore" (params ++ [b!"REPLACE"])]
         else [cmdB b!"restore" params]) ∧ (replayEntry cfg db ex e).2.2 = true := by
  have hot := otypeOf_rtype o hk
  have hnf : otOf o ≠ .function ∧ otOf o ≠ .aux ∧ otOf o ≠ .module := by
    unfold otOf; cases hkk : o.kind <;> simp_all
  have hsplit : (pobjOf k o).isSplited = false := by
    cases o <;> simp [pobjOf, PObj.isSplited]
  have hsize : ¬ ((pobjOf k o).valueDumpSize > cfg.maxBulk) := by
    simp only [PObj.valueDumpSize, pobjOf]; omega
  have hdump : (pobjOf k o).dump = [o.rtype] ++ o.ser ++ [6, 0] ++
      le64 (crc64Spec ([o.rtype] ++ o.ser ++ [6, 0])).toNat := by
    simp only [PObj.dump, pobjOf]
    exact dump_payload o.rtype o.ser
  simp only [replayEntry, dstKey, hrht, Bool.false_eq_true, if_false, hobj, hkey]
  have hrt : (pobjOf k o).rtype = o.rtype := rfl
  simp only [hrt, hot, hnf.1, hnf.2.1, or_self, if_false, hon, hsplit, hsize, decide_false, Bool.or_self,
    Bool.not_false, Bool.and_self, Bool.not_true, Bool.false_eq_true, hdump, hload, if_true]
  exact ⟨trivial, trivial⟩

/-- expansion path onto a key that does not exist on the target: the probe,
    the expansion (which rebuilds the value by `expand_roundtrip`), and — iff the
    key has an expiry — `pexpire key ttl`. -/
theorem expand_path (cfg : RCfg) (db : Int) (ex : Exists) (e : Entry) (k : Bytes) (o : ObjE)
    (hobj : e.obj = pobjOf k o) (hkey : e.key = k) (hwf : o.wf) (hk : o.kind ≠ .other)
    (hoff : cfg.enableRestore = false) (hfresh : ex.has db k = false) (hrht : cfg.replaceHashTag = false) :
    (replayEntry cfg db ex e).1 =
      [cmdB b!"exists" [k]] ++ o.cmds k ++
        (if e.expireAt ≠ 0 then [cmdB b!"pexpire" [k, natToDec (ttlOf cfg.now e.expireAt)]] else []) ∧
    (replayEntry cfg db ex e).2.2 = true := by
  have hot := otypeOf_rtype o hk
  have hnf : otOf o ≠ .function ∧ otOf o ≠ .aux ∧ otOf o ≠ .module := by
    unfold otOf; cases hkk : o.kind <;> simp_all
  have hfb : (pobjOf k o).firstBin = true := by simp [pobjOf, PObj.firstBin]
  have hrt : (pobjOf k o).rtype = o.rtype := rfl
  have hexec := execCmd_pobjOf cfg.x k o hwf hk
  have hrw : ∀ cs : List Cmd, cs.map (rewriteCmd k k) = cs := fun cs => by
    induction cs with
    | nil => rfl
    | cons c cs ih => simp [rewriteCmd, ih]
  simp only [replayEntry, expandEntry, dstKey, hrht, hobj, hkey, hrt, hot, hnf.1, hnf.2.1, hnf.2.2, or_self, if_false,
    hoff, Bool.false_and, Bool.not_false, if_true, hfb, hfresh, Bool.false_eq_true, hexec, Option.map_some, hrw]
  constructor <;> simp

/-- expansion path end to end for one entry (fresh key): ALL requests `Replay`
    issues — probe, expansion, PEXPIRE — replayed through the oracle leave the key
    with the source value AND the time to live that realises its absolute expiry
    (`ttlOf`: remaining ms, 1 = expires at once, 0 = none) -/
theorem expand_path_final (cfg : RCfg) (db : Int) (e : Entry) (k : Bytes) (o : ObjE)
    (hobj : e.obj = pobjOf k o) (hkey : e.key = k) (hwf : o.wf) (hk : o.kind ≠ .other)
    (hne : o.nonempty) (hd : o.members.Nodup) (hoff : cfg.enableRestore = false)
    (hrht : cfg.replaceHashTag = false) :
    applyCmds [] (replayEntry cfg db [] e).1 = some [(k, o.value, ttlOf cfg.now e.expireAt)] := by
  obtain ⟨hreq, _⟩ := expand_path cfg db [] e k o hobj hkey hwf hk hoff rfl hrht
  rw [hreq, applyCmds_append, applyCmds_append]
  simp only [applyCmds, apply_exists, Option.bind_some]
  rw [cmds_frame [] k o hk hne hd rfl]
  simp only [List.nil_append, Option.bind_some]
  by_cases h0 : e.expireAt = 0
  · simp [h0, applyCmds, ttlOf]
  · simp only [h0, ne_eq, not_false_eq_true, if_true, applyCmds, apply_pexpire, doPexpire,
      decToNat_natToDec, get_single, put_single]

/-! ## TTL and database -/

/-- The TTL handed to RESTORE / PEXPIRE realises the source's absolute expiry:
    `now + ttl = expireAt` while it lies ahead, `1` ms (expires at once) when it
    is already past, `0` (no expiry) only for keys without one. -/
theorem ttl_absolute (now expireAt : Nat) :
    (expireAt = 0 → ttlOf now expireAt = 0) ∧
    (expireAt ≠ 0 → now < expireAt → now + ttlOf now expireAt = expireAt) ∧
    (expireAt ≠ 0 → expireAt ≤ now → ttlOf now expireAt = 1) := by
  unfold ttlOf
  refine ⟨fun h => by simp [h], fun h0 hlt => ?_, fun h0 hle => ?_⟩
  · have : ¬ now ≥ expireAt := by omega
    simp [h0, this]; omega
  · have : now ≥ expireAt := hle
    simp [h0, this]

/-- The database an entry is replayed into: the configured target DB if set,
    else the mapped DB, else the source DB. -/
theorem replay_db (cfg : RCfg) (origin : Int) :
    (cfg.targetDb ≠ -1 → mapDb cfg origin = cfg.targetDb) ∧
    (cfg.targetDb = -1 → ∀ t, cfg.dbMap.find? (fun p => p.1 == origin) = some (origin, t) → mapDb cfg origin = t) ∧
    (cfg.targetDb = -1 → cfg.dbMap.find? (fun p => p.1 == origin) = none → mapDb cfg origin = origin) := by
  unfold mapDb
  refine ⟨fun h => by simp [h], fun h t hf => by simp [h, hf], fun h hf => by simp [h, hf]⟩

/-! ## The whole dataset

`full_sync_partial` composes everything above over a WHOLE snapshot file: header,
every item of the frame, every key with its metadata and value, EOF and checksum —
parsed by the loader model with any chunk threshold, fanned out to ONE worker,
replayed by the replay model under any DB mapping / filter / RESTORE setting, and
the requests of that worker applied to the oracle target (`applyReqs`: numbered
databases, SELECT, keyspace commands) starting from empty databases. -/

/-- **`full_sync_partial`** — for every well-formed dataset `f` (`FileE`: any RDB version
    1…13, any number of databases, AUX fields, SELECTDB / RESIZEDB / slot-info items
    and function libraries between the keys, keys with EXPIRETIME(_MS) / IDLE / FREQ,
    values of EVERY string / list / set / sorted-set / hash encoding, containers raw or
    LZF-compressed, checksum present or disabled), every chunk threshold and module-aux
    policy (`d`), every target version, `fnExists`, RESTORE on/off, `MaxProtoBulkLen`,
    target DB / DB map, clock reading and every DB / key / slot filter (`cfg`):
    `sendRdb` with one worker succeeds (`true`: every entry applied, `Done` reached),
    and its request log applied to a target with empty databases yields, in EVERY
    database `D`, exactly the keys of `f` that are not filtered out and are mapped to
    `D` — in file order, nothing else — each with its value (`Holds`: the logical
    value rebuilt by the expansion, or the object RESTORE creates from the byte-exact
    payload) and the time to live that realises its absolute expiry.

    Hypotheses. `hcar`: no module aux item; values are not streams / module values;
    collections are not empty and their members / fields distinct (what Redis
    stores). `hload`: when RESTORE is enabled the target can load the value types
    (the `Bad data format` fall-back needs an oracle with error replies). `htick`:
    the harness clock stands still during the replay (`ttl_absolute` holds for every
    reading). `hrht`: `ReplaceHashTag` off. `hdb`: the DB mapping yields valid
    (non-negative) indices. `hdistinct`: the replayed keys are distinct per target
    database (true of any snapshot unless a DB map merges databases). -/
theorem full_sync_partial (d : DCfg) (cfg : RCfg) (f : FileE)
    (hwf : f.wf) (hfoot : f.footer ≠ .bad) (hcar : ∀ i ∈ f.items, i.carried)
    (hpar : cfg.parallel = 1) (htick : cfg.tick = 0) (hrht : cfg.replaceHashTag = false)
    (hload : ∀ p ∈ f.keys, cfg.enableRestore = true → typeLoadable cfg.x.tgtMajor p.2.obj.rtype = true)
    (hdb : ∀ n : Nat, cfg.filterDb (n : Int) = false → 0 ≤ mapDb cfg (n : Int))
    (hdistinct : ((f.keys.filter (replayed cfg)).map (fun p => (mapDb cfg (p.1 : Int), p.2.key.val))).Nodup) :
    ∃ log T, sendRdb d cfg [] (rdbFile f) = ([log], true) ∧ applyReqs {} log = some T ∧
      ∀ D, Pointwise (Holds cfg) (expectedKeys cfg D f.keys) (T.dbs D) :=
  full_sync_core d cfg f hwf hfoot hcar hpar htick hrht hload hdb hdistinct

/-- what `full_sync_partial` says of a single key: a key of `f` that is not filtered out is
    present in its target database after the sync, with the time to live of its absolute expiry -/
theorem full_sync_key (d : DCfg) (cfg : RCfg) (f : FileE)
    (hwf : f.wf) (hfoot : f.footer ≠ .bad) (hcar : ∀ i ∈ f.items, i.carried)
    (hpar : cfg.parallel = 1) (htick : cfg.tick = 0) (hrht : cfg.replaceHashTag = false)
    (hload : ∀ p ∈ f.keys, cfg.enableRestore = true → typeLoadable cfg.x.tgtMajor p.2.obj.rtype = true)
    (hdb : ∀ n : Nat, cfg.filterDb (n : Int) = false → 0 ≤ mapDb cfg (n : Int))
    (hdistinct : ((f.keys.filter (replayed cfg)).map (fun p => (mapDb cfg (p.1 : Int), p.2.key.val))).Nodup)
    (p : Nat × KeyE) (hp : p ∈ f.keys) (hrep : replayed cfg p = true) :
    ∃ log T, sendRdb d cfg [] (rdbFile f) = ([log], true) ∧ applyReqs {} log = some T ∧
      ∃ x ∈ T.dbs (mapDb cfg (p.1 : Int)), Holds cfg p x := by
  obtain ⟨log, T, h1, h2, h3⟩ := full_sync_partial d cfg f hwf hfoot hcar hpar htick hrht hload hdb hdistinct
  refine ⟨log, T, h1, h2, ?_⟩
  have hmem : p ∈ expectedKeys cfg (mapDb cfg (p.1 : Int)) f.keys := by
    simp [expectedKeys, hp, hrep]
  have key : ∀ (as : List (Nat × KeyE)) (bs : List (Bytes × Val × Nat)), Pointwise (Holds cfg) as bs →
      p ∈ as → ∃ x ∈ bs, Holds cfg p x := by
    intro as bs h
    induction h with
    | nil => intro h; cases h
    | cons hab _ ih =>
      intro h
      rcases List.mem_cons.mp h with rfl | h
      · exact ⟨_, List.mem_cons_self .., hab⟩
      · obtain ⟨x, hx, hh⟩ := ih h
        exact ⟨x, List.mem_cons_of_mem _ hx, hh⟩
  exact key _ _ (h3 _) hmem

/-! ## Any number of workers

The target with one connection per worker is `MState` (`applySched`: a schedule of
requests tagged with their connection; every connection has its own selected
database, the keyspaces are shared; requests are atomic). -/

/-- the number of workers is irrelevant — for ANY entries the loader can produce
    (an entry without database is a function library; no stream values), any
    existence table and any two numbers of workers: replaying the entries in
    snapshot order, each on the connection of the worker the fan-out routes it to,
    leaves the same keyspaces in every database (or fails on both), and the tool
    reports the same success. (Each worker switches ITS connection to the entry's
    database before it issues the entry's requests, and what it issues does not
    depend on the worker: `step_M`, `fanOut_dbs`.) -/
theorem fanout_workers_irrelevant (cfg : RCfg) (es : List Entry) (ex : Exists) (n1 n2 : Nat)
    (h1 : 0 < n1) (h2 : 0 < n2) (htick : cfg.tick = 0)
    (hdb : ∀ n : Nat, cfg.filterDb (n : Int) = false → 0 ≤ mapDb cfg (n : Int))
    (hes : ∀ e ∈ es, ((e.db = -1 ∧ e.obj.rtype = 0xF5) ∨ ∃ n : Nat, e.db = (n : Int)) ∧
      otypeOf e.obj.rtype ≠ some .stream) :
    (applySched {} (schedOf (fanOutTrace cfg es 0 (List.replicate n1 {}) ex))).map (·.dbs) =
      (applySched {} (schedOf (fanOutTrace cfg es 0 (List.replicate n2 {}) ex))).map (·.dbs) ∧
    (fanOut cfg es 0 (List.replicate n1 {}) ex).2.2 = (fanOut cfg es 0 (List.replicate n2 {}) ex).2.2 := by
  have a := fanOut_dbs cfg htick hdb es hes 0 (List.replicate n1 {}) ex {} (by simpa using h1)
    (fun j _ => getD_replicate_cur n1 j)
  have b := fanOut_dbs cfg htick hdb es hes 0 (List.replicate n2 {}) ex {} (by simpa using h2)
    (fun j _ => getD_replicate_cur n2 j)
  exact ⟨a.1.trans b.1.symm, a.2.trans b.2.symm⟩

/-- requests on different keys commute on the oracle: for any two commands of the plain
    kinds (SET, DEL, EXISTS, PEXPIRE, RPUSH, SADD, ZADD, HSET, RESTORE — everything the
    replay of strings, lists, sets, sorted sets and hashes issues) that name different
    keys, from ANY keyspace: either order fails, or both orders succeed with the same
    value and time to live under every key (`KEq`; only the order of the key list may
    differ). Every such command is LOCAL to its key (`local_applyXCmd`: reply and
    update are a function of the key's own state). -/
theorem oracle_keys_commute (c1 c2 : Cmd) (k1 k2 : Bytes) (r1 r2 : List Arg) (ks : Keyspace)
    (h1 : c1.args = .b k1 :: r1) (h2 : c2.args = .b k2 :: r2)
    (n1 : lower c1.name ∈ plainNames) (n2 : lower c2.name ∈ plainNames) (hne : k1 ≠ k2) :
    ORel KEq ((applyXCmd ks c1).bind (fun ks' => applyXCmd ks' c2))
             ((applyXCmd ks c2).bind (fun ks' => applyXCmd ks' c1)) :=
  local_commute (local_applyXCmd c1 k1 r1 h1 n1) (local_applyXCmd c2 k2 r2 h2 n2) hne ks

/-- **`fanout_parallel_partial`** — `full_sync_partial` for ANY number of workers
    (`parallel = n ≥ 1`): `sendRdb` succeeds with `n` request logs, and there is a
    schedule of all requests — snapshot order, `schedOf (fanOutTrace …)` — whose
    projection to every connection `j` is exactly worker `j`'s log and which leaves on
    the target, in every database, exactly the keys `full_sync_partial` names, with
    their values and times to live. (`fanout_parallel` extends this to EVERY
    interleaving of the `n` logs.) -/
theorem fanout_parallel_partial (d : DCfg) (cfg : RCfg) (f : FileE)
    (hwf : f.wf) (hfoot : f.footer ≠ .bad) (hcar : ∀ i ∈ f.items, i.carried)
    (htick : cfg.tick = 0) (hrht : cfg.replaceHashTag = false)
    (hload : ∀ p ∈ f.keys, cfg.enableRestore = true → typeLoadable cfg.x.tgtMajor p.2.obj.rtype = true)
    (hdb : ∀ n : Nat, cfg.filterDb (n : Int) = false → 0 ≤ mapDb cfg (n : Int))
    (hdistinct : ((f.keys.filter (replayed cfg)).map (fun p => (mapDb cfg (p.1 : Int), p.2.key.val))).Nodup)
    (n : Nat) (hn : 1 ≤ n) (hpar : cfg.parallel = n) :
    ∃ logs sched M, sendRdb d cfg [] (rdbFile f) = (logs, true) ∧ logs.length = n ∧
      (∀ j, j < n → (sched.filter (fun p => p.1 == j)).map (·.2) = logs.getD j []) ∧
      applySched {} sched = some M ∧
      ∀ D, Pointwise (Holds cfg) (expectedKeys cfg D f.keys) (M.dbs D) := by
  obtain ⟨logs, sched, M, h1, h2, h3, h4, h5, _⟩ :=
    fanout_parallel_core d cfg f hwf hfoot hcar htick hrht hload hdb hdistinct n hn hpar
  exact ⟨logs, sched, M, h1, h2, h3, h4, h5⟩

/-- **`fanout_parallel`** — the final keyspace does not depend on the number of workers NOR
    on how their requests interleave: for `parallel = n ≥ 1`, `sendRdb` succeeds with `n`
    request logs, and EVERY schedule of all requests (requests are atomic; any order
    that keeps each connection's own order, i.e. whose projection to connection `j` is
    worker `j`'s log) succeeds on the target with one connection per worker and leaves,
    under every key of every database, the value and time to live of the snapshot-order
    result `M0` (`KEq`: the same keys with the same contents; only the order in which the
    key list enumerates them may differ) — and `M0` holds exactly the keys
    `full_sync_partial` names. Proof: a worker's log consists of SELECT, SCRIPT/FUNCTION
    and plain commands local to one key (`local_applyXCmd`); every key is routed to one
    worker (`fnv(key) mod n`), so requests of different workers never name the same
    key and commute (`oracle_keys_commute`, `tagged_comm`); two schedules with the same
    per-connection projections are then connected by swaps of adjacent independent
    requests (`sched_indep`). Same hypotheses as `full_sync_partial` (without `hpar`). -/
theorem fanout_parallel (d : DCfg) (cfg : RCfg) (f : FileE)
    (hwf : f.wf) (hfoot : f.footer ≠ .bad) (hcar : ∀ i ∈ f.items, i.carried)
    (htick : cfg.tick = 0) (hrht : cfg.replaceHashTag = false)
    (hload : ∀ p ∈ f.keys, cfg.enableRestore = true → typeLoadable cfg.x.tgtMajor p.2.obj.rtype = true)
    (hdb : ∀ n : Nat, cfg.filterDb (n : Int) = false → 0 ≤ mapDb cfg (n : Int))
    (hdistinct : ((f.keys.filter (replayed cfg)).map (fun p => (mapDb cfg (p.1 : Int), p.2.key.val))).Nodup)
    (n : Nat) (hn : 1 ≤ n) (hpar : cfg.parallel = n) :
    ∃ (logs : List (List Cmd)) (M0 : MState), sendRdb d cfg [] (rdbFile f) = (logs, true) ∧ logs.length = n ∧
      (∀ D, Pointwise (Holds cfg) (expectedKeys cfg D f.keys) (M0.dbs D)) ∧
      ∀ sched : List (Nat × Cmd),
        (∀ j, (sched.filter (fun p => p.1 == j)).map (·.2) = logs.getD j []) →
        ∃ M, applySched {} sched = some M ∧ ∀ D, KEq (M.dbs D) (M0.dbs D) :=
  any_interleaving_core d cfg f hwf hfoot hcar htick hrht hload hdb hdistinct n hn hpar

/-- the statement at full strength — NOT proved (listed `partial`): as `full_sync_partial`, but
    also for streams (consumer groups, PELs; `sval` = the denotation of a stream
    description, which the specification side does not define yet), for module values
    (which only travel by RESTORE) and for module aux items when the policy skips
    them. Missing for it: `stream_roundtrip_stmt` (XSETID / XGROUP / XCLAIM through the
    oracle), a `Next` lemma for module values and module aux data
    (`skipModuleValue` over `modulePayload`). -/
def valueWith (sval : StreamE → XStream) (o : ObjE) : Val :=
  match o with
  | .stream s => .stream (sval s)
  | _ => o.value

def HoldsFull (sval : StreamE → XStream) (cfg : RCfg) (p : Nat × KeyE) (x : Bytes × Val × Nat) : Prop :=
  x.1 = p.2.key.val ∧ x.2.2 = ttlOf cfg.now p.2.exp.at ∧
  ((x.2.1 = valueWith sval p.2.obj ∧ (¬ viaRestore cfg p.2.obj ∨ p.2.obj.rtype = 4)) ∨
   (x.2.1 = .restored (createValueDump p.2.obj.rtype p.2.obj.ser) ∧ viaRestore cfg p.2.obj))

def carriedFull (d : DCfg) (cfg : RCfg) : Item → Prop
  | .moduleAux .. => d.failModAux = false
  | .key k =>
    match k.obj with
    | .stream _ => True
    | .module2 .. => viaRestore cfg k.obj
    | .raw .. => False
    | o => o.nonempty ∧ o.members.Nodup
  | _ => True

def full_sync_stmt : Prop :=
  ∃ sval : StreamE → XStream, ∀ (d : DCfg) (cfg : RCfg) (f : FileE),
    f.wf → f.footer ≠ .bad → (∀ i ∈ f.items, carriedFull d cfg i) →
    cfg.parallel = 1 → cfg.tick = 0 → cfg.replaceHashTag = false →
    (∀ p ∈ f.keys, cfg.enableRestore = true → typeLoadable cfg.x.tgtMajor p.2.obj.rtype = true) →
    (∀ n : Nat, cfg.filterDb (n : Int) = false → 0 ≤ mapDb cfg (n : Int)) →
    ((f.keys.filter (replayed cfg)).map (fun p => (mapDb cfg (p.1 : Int), p.2.key.val))).Nodup →
    ∃ log T, sendRdb d cfg [] (rdbFile f) = ([log], true) ∧ applyReqs {} log = some T ∧
      ∀ D, Pointwise (HoldsFull sval cfg) (expectedKeys cfg D f.keys) (T.dbs D)

/-! Non-vacuity / check values -/

-- CRC-64/Jones("123456789") = 0xe9c6d914c4b8d9ca (Redis crc64.c test vector)
example : (crc64Spec [49,50,51,52,53,54,55,56,57]).toNat = 0xe9c6d914c4b8d9ca := by decide +kernel
example : (crc64Tab [49,50,51,52,53,54,55,56,57]).toNat = 0xe9c6d914c4b8d9ca := by decide +kernel
-- DUMP of the string "a" (type 0, raw 01 61): 13 bytes, accepted by a Redis 7 (RDB 10) server
example : (createValueDump 0 [1, 97]).length = 13 := by decide +kernel
example : verifyDumpPayload 10 (createValueDump 0 [1, 97]) = true := by decide +kernel
-- a flipped payload byte is rejected
example : verifyDumpPayload 10 ((createValueDump 0 [1, 97]).set 2 98) = false := by decide +kernel

/-! Non-vacuity of the encoding theorems: concrete descriptions meeting every hypothesis -/

-- an LZF string with an overlapping back reference: "ab" + 10 bytes copied from 2 back
example : (SE.lzf .b6 .b6 [.lit [97, 98], .ref 2 10]).wf := by decide
example : (SE.lzf .b6 .b6 [.lit [97, 98], .ref 2 10]).val = [97,98,97,98,97,98,97,98,97,98,97,98] := by decide
-- a ziplist with unknown length, a 5-byte prevlen and the negative 24-bit integer -2 (D9, D10)
def exZl : ZL := { entries := [(false, .i24 (-2)), (true, .s6 [97]), (false, .i4 12)], unknown := true }
example : exZl.wf := by decide
example : exZl.vals = [[45, 50], [97], [49, 50]] := by decide
example : zlAll exZl.blob = some [[45, 50], [97], [49, 50]] := ziplist_roundtrip exZl (by decide)
-- a hash saved as that ziplist would need an even entry count; a list takes it as it is
def exList : ObjE := .listZiplist (SE.plain exZl.blob) exZl
example : exList.wf ∧ exList.kind ≠ .other ∧ exList.nonempty ∧ exList.members.Nodup := by decide
-- a sorted set in a listpack: member "m" ↦ score token "-3" (13-bit integer), member 7 ↦ "1.5"
def exZsetLp : List LPEntry := [.s6 [109], .i13 (-3), .u7 7, .s6 [49, 46, 53]]
def exZset : ObjE := .zsetListpack (SE.plain (lpBlob exZsetLp)) exZsetLp
example : exZset.wf ∧ exZset.kind ≠ .other ∧ exZset.nonempty ∧ exZset.members.Nodup := by decide
example : exZset.value = .zset [([109], .b [45, 51]), ([55], .b [49, 46, 53])] := by decide
-- an intset of width 2 and a quicklist v2 with a plain and a packed node
def exSet : ObjE := .setIntset (SE.plain (intsetBlob 2 [-32768, 5])) 2 [-32768, 5]
example : exSet.wf ∧ exSet.kind ≠ .other ∧ exSet.nonempty ∧ exSet.members.Nodup := by decide
def exQl2 : ObjE := .listQuick2 .b6 [.plain (.int8 (-5)), .packed (SE.plain (lpBlob [.i64 (-1), .s12 [120]])) [.i64 (-1), .s12 [120]]]
example : exQl2.wf ∧ exQl2.kind ≠ .other ∧ exQl2.nonempty ∧ exQl2.members.Nodup := by decide
example : exQl2.value = .list [[45, 53], [45, 49], [120]] := by decide
-- a stream node: master 1-1 with fields a b; entries 1-1 {a 1 b 2} (same fields), 1-2 {c 3}, deleted 1-3, 1-4 {a 4 b 5}
def exEntries : List SEntryE :=
  [{ deleted := false, same := true, msDelta := .u7 0, seqDelta := .u7 0, items := [.u7 1, .u7 2] },
   { deleted := false, same := false, msDelta := .u7 0, seqDelta := .u7 1, items := [.s6 [99], .u7 3] },
   { deleted := true, same := true, msDelta := .u7 0, seqDelta := .i13 2, items := [.u7 7, .u7 7] },
   { deleted := false, same := true, msDelta := .u7 0, seqDelta := .i16 3, items := [.u7 4, .u7 5] }]
def exNode0 : SNodeE :=
  { w := SE.plain [], masterMs := 1, masterSeq := 1, masterFields := [.s6 [97], .s6 [98]], entries := exEntries }
def exNode : SNodeE := { exNode0 with w := SE.plain exNode0.blob }
example : exNode.wf := by decide +kernel
example : ∀ e ∈ exNode.entries, e.idWf exNode.masterMs exNode.masterSeq := by
  intro e he
  have he' : e ∈ exEntries := he
  simp only [exEntries, List.mem_cons, List.mem_nil_iff, or_false] at he'
  rcases he' with rfl | rfl | rfl | rfl <;>
    exact ⟨_, _, rfl, rfl, by decide, by decide, by decide, by decide⟩
example : exNode.live = [([49,45,49], [[97],[49],[98],[50]]), ([49,45,50], [[99],[51]]), ([49,45,52], [[97],[52],[98],[53]])] := by
  decide +kernel
-- a hash table of three pairs with threshold 1 byte is read as THREE chunks
def exHashKey : KeyE :=
  { exp := .ms 5000, key := SE.plain [104],
    obj := .hashTable .b6 [(SE.plain [97], SE.plain [49]), (SE.plain [98], SE.plain [50]), (SE.plain [99], SE.plain [51])] }
example : exHashKey.wf := by decide
example : (nextValue { thr := 1 } 4 {} (exHashKey.enc ++ [0xFF])).map (fun r => (r.1.length, r.1.map (·.expireAt), r.2.2)) =
    some (3, [5000, 5000, 5000], [0xFF]) := by decide +kernel
-- restore_path / expand_path / expand_path_final on the list of `exList`, key "l", expiry 6000 at clock 5000
def exEntry : Entry := { db := 0, key := [108], type := 10, expireAt := 6000, obj := pobjOf [108] exList }
example : (replayEntry { enableRestore := true, now := 5000 } 0 [] exEntry).2.2 = true :=
  (restore_path { enableRestore := true, now := 5000 } 0 [] exEntry [108] exList rfl rfl (by decide) rfl
    (by decide) (by decide) rfl).2
example : applyCmds [] (replayEntry { enableRestore := false, now := 5000 } 0 [] exEntry).1 =
    some [([108], exList.value, 1000)] :=
  expand_path_final { enableRestore := false, now := 5000 } 0 exEntry [108] exList rfl rfl (by decide) (by decide)
    (by decide) (by decide) rfl rfl
-- TTL: expiry 1000 ms ahead / already past
example : ttlOf 5000 6000 = 1000 ∧ ttlOf 5000 4000 = 1 ∧ ttlOf 5000 0 = 0 := by decide

-- full_sync_partial on a file with an AUX field, three databases, RESIZEDB, a function library, a string
-- with expiry, the three-pair hash table of `exHashKey` (threshold 1: three chunks) and the list `exList`
def exFile : FileE :=
  { version := 9,
    items := [.aux (SE.plain [118]) (SE.plain [55]), .selectDb .b6 1, .resizeDb .b6 2 .b6 1,
              .key { exp := .ms 6000, key := SE.plain [115], obj := .str (SE.plain [118]) },
              .key exHashKey, .function (SE.plain [1, 2, 3]), .selectDb .b6 2,
              .key { key := SE.plain [108], obj := exList }] }
example : exFile.wf ∧ (∀ i ∈ exFile.items, i.carried) := by decide
example : (exFile.keys.map (fun p => (p.1, p.2.key.val))) = [(1, [115]), (1, [104]), (2, [108])] := by decide
example : ∃ log T, sendRdb { thr := 1 } { enableRestore := false, now := 5000 } [] (rdbFile exFile) = ([log], true) ∧
    applyReqs {} log = some T ∧
    ∀ D, Pointwise (Holds { enableRestore := false, now := 5000 })
      (expectedKeys { enableRestore := false, now := 5000 } D exFile.keys) (T.dbs D) :=
  full_sync_partial { thr := 1 } { enableRestore := false, now := 5000 } exFile (by decide) (by decide) (by decide)
    rfl rfl rfl (fun _ _ h => by cases h) (fun n _ => by simp [mapDb]) (by decide)
-- … and with RESTORE on (target 8.x), the whole hash under the default threshold, DB 1 mapped to 7, key "s" filtered out
def exCfg : RCfg := { x := { tgtMajor := 8 }, now := 5000, dbMap := [(1, 7)], filterKey := fun k => k == [115] }
example : ∃ log T, sendRdb {} exCfg [] (rdbFile exFile) = ([log], true) ∧ applyReqs {} log = some T ∧
    ∃ x ∈ T.dbs 7, Holds exCfg (1, exHashKey) x :=
  full_sync_key {} exCfg exFile (by decide) (by decide) (by decide) rfl rfl rfl
    (fun _ _ _ => by simp [typeLoadable, exCfg])
    (fun n _ => by
      unfold mapDb
      simp only [exCfg, ne_eq, not_true_eq_false, if_false, List.find?]
      cases h : ((1 : Int) == (n : Int)) <;> simp <;> omega)
    (by decide) (1, exHashKey) (by simp [FileE.keys, exFile, keysFrom, dbAfter]) (by decide)
-- the same file with three workers
example : ∃ logs sched M, sendRdb { thr := 1 } { enableRestore := false, now := 5000, parallel := 3 } []
      (rdbFile exFile) = (logs, true) ∧ logs.length = 3 ∧
    (∀ j, j < 3 → (sched.filter (fun p => p.1 == j)).map (·.2) = logs.getD j []) ∧
    applySched {} sched = some M ∧
    ∀ D, Pointwise (Holds { enableRestore := false, now := 5000, parallel := 3 })
      (expectedKeys { enableRestore := false, now := 5000, parallel := 3 } D exFile.keys) (M.dbs D) :=
  fanout_parallel_partial { thr := 1 } { enableRestore := false, now := 5000, parallel := 3 } exFile (by decide)
    (by decide) (by decide) rfl rfl (fun _ _ h => by cases h) (fun n _ => by simp [mapDb]) (by decide) 3 (by decide) rfl
-- … and every interleaving of the three workers' requests
example : ∃ (logs : List (List Cmd)) (M0 : MState),
    sendRdb { thr := 1 } { enableRestore := false, now := 5000, parallel := 3 } [] (rdbFile exFile) = (logs, true) ∧
    logs.length = 3 ∧
    (∀ D, Pointwise (Holds { enableRestore := false, now := 5000, parallel := 3 })
      (expectedKeys { enableRestore := false, now := 5000, parallel := 3 } D exFile.keys) (M0.dbs D)) ∧
    ∀ sched : List (Nat × Cmd), (∀ j, (sched.filter (fun p => p.1 == j)).map (·.2) = logs.getD j []) →
      ∃ M, applySched {} sched = some M ∧ ∀ D, KEq (M.dbs D) (M0.dbs D) :=
  fanout_parallel { thr := 1 } { enableRestore := false, now := 5000, parallel := 3 } exFile (by decide)
    (by decide) (by decide) rfl rfl (fun _ _ h => by cases h) (fun n _ => by simp [mapDb]) (by decide) 3 (by decide) rfl

end GunYu.Props.C03
