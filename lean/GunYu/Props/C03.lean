/-
  C03 — A full sync reproduces the source snapshot's dataset on the target.

  Property theorems only (helper lemmas: Proofs/Rdb/*.lean).
-/
import GunYu.Model.Rdb.Crc64
import GunYu.Model.Rdb.Value
import GunYu.Model.Rdb.Replay
import GunYu.Proofs.Rdb.Crc64
import GunYu.Proofs.Rdb.Read
import GunYu.Proofs.Rdb.Sem
import GunYu.Proofs.Rdb.Chunk
import GunYu.Proofs.Rdb.StreamNode
import GunYu.Proofs.Rdb.Frame
import GunYu.Proofs.Rdb.FanOut
import GunYu.Proofs.Rdb.Sync
import GunYu.Proofs.Rdb.Parallel
import GunYu.Proofs.Rdb.Commute
import GunYu.Proofs.Rdb.Interleave
import GunYu.Proofs.Rdb.SyncS
import GunYu.Proofs.Rdb.Fallback
import GunYu.Proofs.Rdb.ParallelS
import GunYu.Proofs.Rdb.StreamPel

namespace GunYu.Props.C03
open GunYu GunYu.Rdb GunYu.RedisSem

/-! ## CRC64 and the RESTORE payload footer -/

/-- The table-driven CRC64 of pkg/digest (over the table regenerated from the Go
    source on every run) is CRC-64/Jones (reflected polynomial
    0xad93d23594c935a9), for every byte string. -/
theorem crc64_tab_eq_jones (bs : Bytes) : crc64Tab bs = crc64Spec bs :=
  crc64Tab_eq_spec_from bs 0#64

/-- the reflected polynomial is the bit reversal of the one Redis writes down -/
theorem jones_reflected : jonesPolyRev = 0x95ac9329ac4bc9b5#64 := jonesPolyRev_val

/-- `CreateValueDump` is type byte, the value's serialization, the 2-byte
    little-endian RDB version 6 and the little-endian CRC64 of all that. -/
theorem dump_payload (t : UInt8) (raw : Bytes) :
    createValueDump t raw =
      [t] ++ raw ++ [6, 0] ++ le64 (crc64Spec ([t] ++ raw ++ [6, 0])).toNat := by
  unfold createValueDump
  simp only [← crc64TabFrom_append]
  have : le16 dumpVersion = [6, 0] := by decide
  rw [this]
  show _ ++ le64 (crc64Tab ([t] ++ raw ++ [6, 0])).toNat = _
  rw [crc64_tab_eq_jones]

/-- Redis' `verifyDumpPayload` accepts every payload `CreateValueDump` builds
    (any server whose RDB version is at least 6). -/
theorem dump_verifies (rdbVersion : Nat) (h : 6 ≤ rdbVersion) (t : UInt8) (raw : Bytes) :
    verifyDumpPayload rdbVersion (createValueDump t raw) = true := by
  rw [dump_payload]
  generalize hc : crc64Spec ([t] ++ raw ++ [6, 0]) = c
  unfold verifyDumpPayload
  have hl : ([t] ++ raw ++ [6, 0] ++ le64 c.toNat).length = raw.length + 11 := by
    simp [le64, leN_length]
  have e1 : ([t] ++ raw ++ [6, 0] ++ le64 c.toNat) = ([t] ++ raw) ++ ([6, 0] ++ le64 c.toNat) := by
    simp
  have e2 : ([t] ++ raw ++ [6, 0] ++ le64 c.toNat) = ([t] ++ raw ++ [6, 0]) ++ le64 c.toNat := rfl
  have l1 : ([t] ++ raw).length = raw.length + 1 := by simp
  have l2 : ([t] ++ raw ++ [6, 0]).length = raw.length + 3 := by simp
  simp only [hl, show ¬ (raw.length + 11 < 10) by omega, if_false,
    show raw.length + 11 - 10 = raw.length + 1 by omega,
    show raw.length + 11 - 8 = raw.length + 3 by omega]
  have t1 : ([t] ++ raw ++ [6, 0] ++ le64 c.toNat).take (raw.length + 1) = [t] ++ raw := by
    rw [e1, ← l1, List.take_left']
    rfl
  have d1 : ([t] ++ raw ++ [6, 0] ++ le64 c.toNat).drop (raw.length + 1) = [6, 0] ++ le64 c.toNat := by
    rw [e1, ← l1, List.drop_left']
    rfl
  have d2 : ([t] ++ raw ++ [6, 0] ++ le64 c.toNat).drop (raw.length + 3) = le64 c.toNat := by
    rw [e2, ← l2, List.drop_left']
    rfl
  rw [t1, d1, d2]
  have t2 : ([6, 0] ++ le64 c.toNat).take 2 = [6, 0] := rfl
  rw [t2, hc]
  have v : ofLE [6, 0] = 6 := by decide
  have hm : ofLE (le64 c.toNat) = c.toNat := by
    rw [le64, ofLE_leN]
    exact Nat.mod_eq_of_lt (by have := c.isLt; omega)
  simp [v, hm, h]

/-! ## Encodings: strings -/

/-- Every string encoding Redis writes (raw with any length form, 8/16/32-bit
    integer, LZF-compressed given as any well-formed literal/back-reference
    list) is read back by `ReadString` as exactly the string it denotes, and
    exactly its bytes are consumed. -/
theorem string_roundtrip (s : SE) (rest : Bytes) (h : s.wf) :
    readString (s.enc ++ rest) = some (s.val, rest) :=
  readString_enc s rest h

/-- the LZF decompressor inverts the LZF wire format (overlapping back
    references included) -/
theorem lzf_roundtrip (ops : List LzfOp) (h : lzfWfFrom 0 ops) :
    lzfDecompress (lzfEmit ops) (lzfExpand ops).length = some (lzfExpand ops) :=
  lzfDecompress_emit ops h

/-! ## Encodings: containers -/

/-- a ziplist blob (any entry encodings and integer widths/signs, 1- or 5-byte
    prevlen, known or unknown (0xFFFF) length) iterates to its entries' values -/
theorem ziplist_roundtrip (z : ZL) (h : z.wf) : zlAll z.blob = some z.vals := zlAll_blob z h

/-- a listpack blob (every string and integer encoding, ANY number of elements: from
    65535 on the count field says "unknown" and the elements are walked to the end
    marker) yields its entries' values -/
theorem listpack_roundtrip (es : List LPEntry) (h : lpWf es) :
    lpAll (lpBlob es) = some (es.map LPEntry.val) := lpAll_blob es h

/-- an intset blob of width 2, 4 or 8 yields its integers in decimal -/
theorem intset_roundtrip (width : Nat) (vs : List Int) (hw : width = 2 ∨ width = 4 ∨ width = 8)
    (hl : vs.length < 2 ^ 32) (h : ∀ v ∈ vs, inSigned (8 * width) v) :
    intsetAll (intsetBlob width vs) = some (vs.map intToDec) := intsetAll_blob width vs hw hl h

/-! ## Expansion round trip

For every value `o` of every string / list / set / sorted-set / hash encoding
(`ObjE`: raw, integer and LZF strings; linked list, ziplist, quicklist,
quicklist v2 plain + packed; hash-table set, intset 16/32/64, listpack set;
skiplist v1/v2, ziplist and listpack sorted sets; hash table, zipmap, ziplist
and listpack hashes — containers saved raw or LZF-compressed), the commands the
tool expands the serialization into rebuild exactly the source value when
replayed into an empty key. Hypotheses are what Redis guarantees of its own
data: the description is well-formed, the value is not empty, members / fields
are distinct. -/

theorem expand_roundtrip (x : XCfg) (k : Bytes) (o : ObjE)
    (hwf : o.wf) (hk : o.kind ≠ .other) (hne : o.nonempty) (hd : o.members.Nodup) :
    ∃ cmds, execCmd x (pobjOf k o) = some cmds ∧ applyCmds [] cmds = some [(k, o.value, 0)] := by
  refine ⟨o.cmds k, execCmd_pobjOf x k o hwf hk, ?_⟩
  unfold ObjE.cmds ObjE.value
  unfold ObjE.nonempty at hne
  unfold ObjE.members at hd
  cases hkind : o.kind with
  | other => exact absurd hkind hk
  | str =>
    cases o with
    | str s => simp [applyCmds, apply_set, put_nil]
    | _ => simp [ObjE.kind] at hkind
  | list =>
    simp only [hkind] at hne ⊢
    exact rpush_all k o.elems hne
  | set =>
    simp only [hkind] at hne hd ⊢
    exact sadd_all k o.elems hne hd
  | zset =>
    simp only [hkind] at hne hd ⊢
    exact zadd_all k o.scored hne hd
  | hash =>
    simp only [hkind] at hne hd ⊢
    exact hset_all k o.pairs hne hd

/-- frame rule: the same expansion replayed into ANY keyspace that does not hold
    the key (other keys, whatever their types) adds exactly the source value and
    leaves everything else as it was -/
theorem expand_roundtrip_frame (x : XCfg) (k : Bytes) (o : ObjE) (ks : Keyspace)
    (hwf : o.wf) (hk : o.kind ≠ .other) (hne : o.nonempty) (hd : o.members.Nodup) (hfresh : get ks k = none) :
    ∃ cmds, execCmd x (pobjOf k o) = some cmds ∧ applyCmds ks cmds = some (ks ++ [(k, o.value, 0)]) :=
  ⟨o.cmds k, execCmd_pobjOf x k o hwf hk, cmds_frame ks k o hk hne hd hfresh⟩

/-- The bytes teed while parsing are exactly the value's serialization
    (`ReadBuffer` after the key consumes `o.ser`, nothing more, nothing less, and
    stores it as the parser's buffer), so a RESTORE payload is byte for byte type +
    serialization + footer. (The chunkable hash table is covered by
    `hash_unsplit_raw_is_encode` / `chunked_roundtrip`.) -/
theorem raw_is_encode (cfg : DCfg) (key : SE) (o : ObjE) (rest : Bytes)
    (hkey : key.wf) (hwf : o.wf) (hk : o.kind ≠ .other) (hh : o.rtype ≠ 4) :
    readBuffer cfg {} o.rtype (key.enc ++ (o.ser ++ rest)) = some (pobjOf key.val o, {}, rest) ∧
      (pobjOf key.val o).buf = o.ser ∧ (pobjOf key.val o).key = key.val ∧
      (pobjOf key.val o).dump = createValueDump o.rtype o.ser :=
  ⟨readBuffer_plain cfg key o rest hkey hwf hk hh, rfl, rfl, rfl⟩

/-- `Loader.Next` on a key item (expiry / idle / freq opcodes, type byte, key,
    value) of any string / list / set / sorted-set / hash encoding that is never
    split: exactly ONE entry, with the key, the loader's DB, the absolute expiry,
    idle time, freq and the parser object `pobjOf` (buffer = serialization) that
    `expand_roundtrip`, `restore_path` and `expand_path` start from; the loader
    is ready for the next item, the input is positioned behind the value. -/
theorem next_key_entry (cfg : DCfg) (ls : LState) (k : KeyE) (rest : Bytes)
    (hls : ls.total = 0 ∧ ls.read = 0) (hwf : k.wf) (hk : k.obj.kind ≠ .other) (hh : k.obj.rtype ≠ 4) :
    ∃ e ls', next cfg ls (k.enc ++ rest) = some (some e, ls', rest) ∧
      e.key = k.key.val ∧ e.db = (ls.db : Int) ∧ e.expireAt = k.exp.at ∧
      e.idle = (match k.idle with | none => 0 | some (_, n) => n) ∧
      e.freq = (match k.freq with | none => 0 | some n => n) ∧
      e.type = k.obj.rtype ∧ e.obj = pobjOf k.key.val k.obj ∧
      ls'.db = ls.db ∧ ls'.total = 0 ∧ ls'.read = 0 :=
  next_plain cfg ls k rest hls hwf hk hh

/-! ## Values split into several chunks

Only the hash table (`RdbTypeHash`) is ever split (`maxBinEntryBuffer`). -/

/-- `chunked_roundtrip` — for ANY chunking threshold: repeated `Next` over a
    hash-table key item returns chunks which (1) all carry the key, the DB, the
    absolute expiry, idle time and freq of the value (D8 repaired), (2) are a
    first chunk exactly for the first one (so the key-exists probe / DEL happens
    once), (3) each expand without error, and whose expansions, replayed in
    order into an empty key, rebuild exactly the source hash; afterwards the
    loader is ready for the next item and the input is positioned behind the
    value. Chunks of one key reach one worker in this order (`fanOut_same_key`). -/
theorem chunked_roundtrip (cfg : DCfg) (x : XCfg) (ls : LState) (k : KeyE) (f : LenForm)
    (items : List (SE × SE)) (rest : Bytes)
    (hobj : k.obj = .hashTable f items) (hls : ls.total = 0 ∧ ls.read = 0) (hwf : k.wf)
    (hne : items ≠ []) (hd : ((pairVals items).map (·.1)).Nodup) :
    ∃ es ls', nextValue cfg (items.length + 1) ls (k.enc ++ rest) = some (es, ls', rest) ∧
      ls'.total - ls'.read = 0 ∧ ls'.db = ls.db ∧
      (∀ e ∈ es, ChunkOf ls k e) ∧
      (∃ e0 tl, es = e0 :: tl ∧ e0.obj.firstBin = true ∧ ∀ e ∈ tl, e.obj.firstBin = false) ∧
      (∀ e ∈ es, (execCmd x e.obj).isSome) ∧
      applyCmds [] (es.flatMap (fun e => (execCmd x e.obj).getD [])) =
        some [(k.key.val, .hash (pairVals items), 0)] := by
  obtain ⟨es, ls', h1, h2, h3, h4, h5, h6, h7, _⟩ := nextValue_hash cfg ls k f items rest hobj hls hwf hne
  refine ⟨es, ls', h1, h2, h3, h4, h5, ?_, ?_⟩
  · intro e he
    rw [execCmd_hash_chunk x e.obj (h4 e he).2.2.2.2.2.2.2]
    have := h6 e he
    cases hp : hashPairs e.obj with
    | none => simp [hp] at this
    | some ps => simp
  · have hcmds : es.flatMap (fun e => (execCmd x e.obj).getD []) =
        (es.flatMap (fun e => (hashPairs e.obj).getD [])).map (fun q => cmdB b!"HSET" [k.key.val, q.1, q.2]) := by
      rw [List.map_flatMap]
      apply flatMap_congr_mem
      intro e he
      rw [execCmd_hash_chunk x e.obj (h4 e he).2.2.2.2.2.2.2, (h4 e he).2.2.2.2.2.2.1]
      cases hp : hashPairs e.obj with
      | none => simp
      | some ps => simp
    rw [hcmds, h7]
    have hne' : pairVals items ≠ [] := by
      intro h0
      apply hne
      unfold pairVals at h0
      exact List.map_eq_nil_iff.mp h0
    exact hset_all k.key.val (pairVals items) hne' hd

/-- when the whole table fits under the threshold there is a single chunk whose
    buffer is the serialization: the teed bytes are the encoding -/
theorem hash_unsplit_raw_is_encode (cfg : DCfg) (key : SE) (f : LenForm) (items : List (SE × SE)) (rest : Bytes)
    (hkey : key.wf) (hwf : (ObjE.hashTable f items).wf)
    (hthr : (ObjE.hashTable f items).ser.length ≤ cfg.thr) :
    ∃ p ls, readBuffer cfg {} 4 (key.enc ++ ((ObjE.hashTable f items).ser ++ rest)) = some (p, ls, rest) ∧
      p.buf = (ObjE.hashTable f items).ser ∧ p.key = key.val ∧ p.isSplited = false := by
  obtain ⟨hf, h32, hitems⟩ := hwf
  have hser : (ObjE.hashTable f items).ser = encLen f items.length ++ encPairs items := rfl
  rw [hser] at hthr ⊢
  have hloop := hashChunkLoop_nobreak cfg.thr (encLen f items.length ++ (encPairs items ++ rest)).length
    items rest 0 (encLen f items.length).length hitems (by simp) (by simpa using hthr)
  have hrb := readBuffer_hash_first' cfg {} key f items rest items.length ⟨rfl, rfl⟩ hkey hf h32
    (by rw [hloop]; simp [encPairs])
  simp only [List.append_assoc]
  rw [hrb]
  refine ⟨{ rtype := 4, key := key.val, buf := encLen f items.length ++ encPairs (items.take items.length),
            total := items.length, read := items.length, history := 0 }, {}, ?_, ?_, rfl, ?_⟩
  · simp [encPairs]
  · simp
  · simp [PObj.isSplited]

/-- the keyed fan-out sends all entries that are REPLAYED TO one key — in particular
    all chunks of one value, and under `ReplaceHashTag` two snapshot keys that rewrite to
    one target key (`{a}b`, `ab`; /repo 630424b) — to the same worker, whatever was
    distributed in between; a worker consumes its pipe in FIFO order (Go channel
    semantics, trusted), so they are applied in snapshot order -/
theorem fanOut_same_key (cfg : RCfg) (n : Nat) (e1 e2 : Entry) (i1 i2 : Nat)
    (h : dstKey cfg e1.key = dstKey cfg e2.key)
    (h1 : otypeOf e1.obj.rtype ≠ some .function) (h2 : otypeOf e2.obj.rtype ≠ some .function) :
    workerOf cfg n e1 i1 = workerOf cfg n e2 i2 := by
  simp [workerOf, h1, h2, h]

/-- order is kept per worker: after the fan-out, the request log of EVERY worker
    is its log before, followed by the request blocks of exactly the entries
    routed to it (`fanOutTrace`: worker `workerOf …` and requests of each entry,
    in snapshot order) — entries of other workers never interleave into a
    worker's sequence, so the chunks of one key (same worker by
    `fanOut_same_key`) are applied in snapshot order. (That a worker consumes its
    pipe in FIFO order is Go channel semantics, trusted.) -/
theorem fanOut_keeps_order (cfg : RCfg) (es : List Entry) (idx : Nat) (ws : List Worker) (ex : Exists)
    (hn : 0 < ws.length) (j : Nat) (hj : j < ws.length) :
    ((fanOut cfg es idx ws ex).1.getD j {}).log =
      (ws.getD j {}).log ++ ((fanOutTrace cfg es idx ws ex).filter (fun p => p.1 == j)).flatMap (·.2) :=
  fanOut_logs cfg es idx ws ex hn j hj

/-! ## Streams

`stream_roundtrip_partial` is the listpack-node level (entries); `stream_roundtrip`
closes what was `stream_roundtrip_stmt`: the whole value through the oracle. -/

/-- `stream_roundtrip_partial` — the entries: every listpack node of a stream
    (any listpack integer width for counters, flags and id deltas, elements as
    strings or integers, SAMEFIELDS entries interleaved with entries that carry
    their own fields, deleted entries, blob saved raw or LZF) expands into
    exactly one `XADD key id field value …` per live entry, in order, with
    id = master id + stored deltas and the entry's own field/value list — the
    master entry's field count is never disturbed (D11 repaired), ids are exact
    up to 2^64-1. -/
theorem stream_roundtrip_partial (key : Bytes) (nodes : List SNodeE) (rest : Bytes)
    (hwf : ∀ n ∈ nodes, n.wf ∧ ∀ e ∈ n.entries, e.idWf n.masterMs n.masterSeq) :
    streamNodes key nodes.length (nodes.flatMap SNodeE.enc ++ rest) =
      some (nodes.flatMap (fun n => n.live.map (fun p => cmdB b!"XADD" (key :: p.1 :: p.2))), rest) :=
  streamNodes_spec key nodes rest hwf

/-- **`stream_roundtrip`** (was the open `stream_roundtrip_stmt`) — for every stream
    description `s` of RDB type 15 / 19 / 21 / 26 that is well-formed (`StreamE.wf`) and
    `sound` (what a Redis server guarantees: ids without 64-bit wrap-around, above 0-0 and
    strictly increasing, none above the last id; `length` = number of live entries; every
    entry has a field; entries-added a long long ≥ length; max-deleted id ≤ last id;
    entries-read ≥ -1; delivery times long longs; distinct group names, distinct consumer
    names; a pending id owned by one consumer), every target version and whatever follows:
    (1) `StreamParser.ExecCmd` expands the serialization into EXACTLY `s.cmds` — one
        `XADD key id f v …` per live entry, `XADD key MAXLEN 0 0-1 x y` iff the stream is
        empty, `XSETID key last [ENTRIESADDED n MAXDELETEDID id]` (counters iff target ≥ 7;
        for type 15: n = length, id = 0-0), and per group `XGROUP CREATE key g last
        [ENTRIESREAD r]` (target ≥ 7; `r` signed, -1 = unknown; for type 15 the tool's
        estimate), then per consumer one `XCLAIM key g consumer 0 id TIME t RETRYCOUNT c JUSTID
        FORCE` per entry of its PEL, `t`, `c` from the group's PEL; for a consumer with an EMPTY
        PEL `XGROUP CREATECONSUMER key g consumer` when the target is 6.2+ (session 5: repair of
        known finding C03-F1, /repo fix commit), nothing on an older target;
    (2) replayed through the oracle — which follows t_stream.c: XSETID's range checks,
        XGROUP CREATE's ENTRIESREAD check, XCLAIM FORCE creating a pending entry ONLY for an
        id that is an entry of the stream — into any keyspace that does not hold the key,
        these commands leave exactly the logical value `s.xval`: entries with ids and field
        lists in order, last id, entries-added, max-deleted id, every group with its
        last-delivered id, entries-read, its consumers (`consumersIdeal`) and its pending entries
        with owner, delivery time and count RESTRICTED TO THE IDS THAT ARE STILL ENTRIES OF
        THE STREAM (`pelX`); no time to live, every other key untouched.
    LOST on the expansion path (kept by the RESTORE path; stated by the shape of `xval`):
    pending ids whose entry was deleted or trimmed — ordinary production data, but no
    command recreates them (Redis' own AOF rewrite loses them the same way); a consumer all
    of whose pending ids are such; a consumer with an EMPTY PEL on a target OLDER THAN 6.2 (no
    command exists there; on 6.2+ it is recreated since the repair of C03-F1); seen-time /
    active-time; the IDMP state of type 26. The first-id field is recomputed by the target. -/
theorem stream_roundtrip (x : XCfg) (k : Bytes) (s : StreamE) (rest : Bytes) (ks : Keyspace)
    (hwf : s.wf) (hs : s.sound) (hfresh : get ks k = none) :
    execStream x s.rtype k (s.ser ++ rest) = some (s.cmds x k) ∧
    applyCmds ks (s.cmds x k) = some (ks ++ [(k, .stream (s.xval x), 0)]) :=
  ⟨execStream_ser x k s rest hwf hs, stream_cmds_apply ks k x s hwf hs hfresh⟩

/-- the pending entries in `StreamE.xval` — listed consumer by consumer, the order the
    XCLAIMs are issued in — are, as a set, EXACTLY the group's PEL as a server holds it
    (`pelLogical`: every record of the group's PEL whose id is still an entry of the stream,
    with its delivery time, delivery count and the one consumer whose PEL lists it), given
    what Redis guarantees of it
    (`pelPartition`: one record per id, the consumers' PELs partition the group's) -/
theorem stream_pel_logical (x : XCfg) (s : StreamE) (g : SGroupE) (hp : g.pelPartition) :
    (g.xgroup x s).pel.Perm (g.pelLogical s) := pelX_perm_logical s g hp

/-- the test the driver applies to every generated stream before the harness compares
    `StreamE.cmds` / `StreamE.xval` with the real code (`soundB`, computable) implies the
    hypothesis `sound` of `stream_roundtrip` and `full_sync_streams` -/
theorem sound_test_sound (s : StreamE) (h : s.soundB = true) : s.sound := soundB_sound s h

/-- `stream_roundtrip` in the shape of `expand_roundtrip`: `ExecCmd` on the parser object
    `ReadBuffer` built, replayed into an empty keyspace -/
theorem stream_expand_roundtrip (x : XCfg) (k : Bytes) (s : StreamE) (hwf : s.wf) (hs : s.sound) :
    ∃ cmds, execCmd x (pobjOf k (.stream s)) = some cmds ∧
      applyCmds [] cmds = some [(k, .stream (s.xval x), 0)] := by
  obtain ⟨h1, h2⟩ := stream_roundtrip x k s [] [] hwf hs rfl
  refine ⟨s.cmds x k, ?_, by simpa using h2⟩
  have hot : otypeOf (pobjOf k (ObjE.stream s)).rtype = some .stream :=
    (opaque_rtype (.stream s) ⟨hwf, hs⟩).1
  unfold execCmd
  simp only [hot]
  simpa [pobjOf, ObjE.rtype, ObjE.ser] using h1

/-- `raw_is_encode` for streams and module values (type 7): `ReadBuffer` after the key
    consumes exactly the serialization — every listpack node, the counters, all groups
    with PELs and consumers, the IDMP state of type 26; module id, items and EOF opcode
    of a module payload — and stores it as the parser's buffer, so their RESTORE payload
    is byte for byte type + serialization + footer -/
theorem raw_is_encode_opaque (cfg : DCfg) (key : SE) (o : ObjE) (rest : Bytes)
    (hkey : key.wf) (ho : o.opaque) :
    readBuffer cfg {} o.rtype (key.enc ++ (o.ser ++ rest)) = some (pobjOf key.val o, {}, rest) ∧
      (pobjOf key.val o).buf = o.ser ∧ (pobjOf key.val o).key = key.val ∧
      (pobjOf key.val o).dump = createValueDump o.rtype o.ser :=
  ⟨readBuffer_opaque cfg {} key o rest ⟨rfl, rfl⟩ hkey ho, rfl, rfl, rfl⟩

/-- `Loader.Next` on a key item holding a stream or a module value: ONE entry, never
    split, with key, DB, absolute expiry and the parser object of the whole value -/
theorem next_opaque_entry (cfg : DCfg) (ls : LState) (k : KeyE) (rest : Bytes)
    (hls : ls.total = 0 ∧ ls.read = 0) (hwf : k.wf) (ho : k.obj.opaque) :
    ∃ e ls', next cfg ls (k.enc ++ rest) = some (some e, ls', rest) ∧
      e.key = k.key.val ∧ e.db = (ls.db : Int) ∧ e.expireAt = k.exp.at ∧
      e.type = k.obj.rtype ∧ e.obj = pobjOf k.key.val k.obj ∧
      ls'.db = ls.db ∧ ls'.total = 0 ∧ ls'.read = 0 :=
  next_opaque cfg ls k rest hls hwf ho

/-- module aux data under the `skip` policy leaves no entry: `Next` steps over module
    id, items and EOF opcode and goes on with the following item (under the `fail`
    policy — the default — the model, like the code, refuses the snapshot) -/
theorem next_skips_module_aux (cfg : DCfg) (F : Nat) (ls : LState) (e : Entry) (id : Nat) (ops : List ModOp) (X : Bytes)
    (hls : ls.total - ls.read = 0) (hid : id < 2 ^ 64) (hw : ∀ o ∈ ops, o.wf) (hpol : cfg.failModAux = false) :
    nextLoop cfg (F + 1) ls e ((Item.moduleAux id ops).enc ++ X) = nextLoop cfg F ls e X :=
  nextLoop_modaux cfg F ls e id ops X hls hid hw hpol

/-! ## The file frame -/

/-- magic and version: every file the specification writes for RDB versions
    1 … 13 passes `Loader.Header`, which returns that version -/
theorem header_roundtrip (f : FileE) (h1 : 1 ≤ f.version) (h13 : f.version ≤ 13) (rest : Bytes) :
    header (b!"REDIS" ++ verDigits f.version ++ rest) = some (f.version, rest) :=
  header_file f h1 h13 rest

/-- EOF and checksum: the 8 bytes after the EOF opcode — the little-endian
    CRC-64/Jones of everything before them, or eight zero bytes — pass `Loader.Footer`,
    and the input ends there (`Loader.End`) -/
theorem footer_roundtrip (f : FileE) (hnb : f.footer ≠ .bad) :
    footer (rdbFile f) ((rdbFile f).drop f.body.length) = true ∧
    inputEnds ((rdbFile f).drop f.body.length) = true :=
  ⟨footer_file f hnb, inputEnds_file f⟩

/-! ## The two replay paths -/

/-- RESTORE path: an unsplit value whose payload fits `MaxProtoBulkLen` is sent
    as ONE request `restore key ttl payload [IDLETIME n] [FREQ n]` (and once
    more with REPLACE if the key exists) whose payload is byte for byte the type
    byte, the value's serialization, RDB version 6 and the CRC-64/Jones of all
    that, and whose TTL realises the absolute expiry. -/
theorem restore_path (cfg : RCfg) (db : Int) (ex : Exists) (e : Entry) (k : Bytes) (o : ObjE)
    (hobj : e.obj = pobjOf k o) (hkey : e.key = k) (hk : o.kind ≠ .other)
    (hon : cfg.enableRestore = true) (hsz : 1 + o.ser.length + 2 + 8 ≤ cfg.maxBulk)
    (hload : typeLoadable cfg.x.tgtMajor o.rtype = true) (hrht : cfg.replaceHashTag = false) :
    let payload := [o.rtype] ++ o.ser ++ [6, 0] ++ le64 (crc64Spec ([o.rtype] ++ o.ser ++ [6, 0])).toNat
    let params := [k, natToDec (ttlOf cfg.now e.expireAt), payload] ++
      (if cfg.x.tgtMajor ≥ 5 then
        (if e.idle ≠ 0 then [b!"IDLETIME", natToDec e.idle] else []) ++
        (if e.freq ≠ 0 then [b!"FREQ", natToDec e.freq] else []) else [])
    (replayEntry cfg db ex e).1 =
        (if ex.has db k then [cmdB b!"restore" params, cmdB b!"restore" (params ++ [b!"REPLACE"])]
         else [cmdB b!"restore" params]) ∧ (replayEntry cfg db ex e).2.2 = true := by
  have hot := otypeOf_rtype o hk
  have hnf : otOf o ≠ .function ∧ otOf o ≠ .aux ∧ otOf o ≠ .module := by
    unfold otOf; cases hkk : o.kind <;> simp_all
  have hsplit : (pobjOf k o).isSplited = false := by
    cases o <;> simp [pobjOf, PObj.isSplited]
  have hsize : ¬ ((pobjOf k o).valueDumpSize > cfg.maxBulk) := by
    simp only [PObj.valueDumpSize, pobjOf]; omega
  have hdump : (pobjOf k o).dump = [o.rtype] ++ o.ser ++ [6, 0] ++
      le64 (crc64Spec ([o.rtype] ++ o.ser ++ [6, 0])).toNat := by
    simp only [PObj.dump, pobjOf]
    exact dump_payload o.rtype o.ser
  simp only [replayEntry, dstKey, hrht, Bool.false_eq_true, if_false, hobj, hkey]
  have hrt : (pobjOf k o).rtype = o.rtype := rfl
  simp only [hrt, hot, hnf.1, hnf.2.1, or_self, if_false, hon, hsplit, hsize, decide_false, Bool.or_self,
    Bool.not_false, Bool.and_self, Bool.not_true, Bool.false_eq_true, hdump, hload, if_true]
  exact ⟨trivial, trivial⟩

/-- expansion path onto a key that does not exist on the target: the probe,
    the expansion (which rebuilds the value by `expand_roundtrip`), and — iff the
    key has an expiry — `pexpire key ttl`. -/
theorem expand_path (cfg : RCfg) (db : Int) (ex : Exists) (e : Entry) (k : Bytes) (o : ObjE)
    (hobj : e.obj = pobjOf k o) (hkey : e.key = k) (hwf : o.wf) (hk : o.kind ≠ .other)
    (hoff : cfg.enableRestore = false) (hfresh : ex.has db k = false) (hrht : cfg.replaceHashTag = false) :
    (replayEntry cfg db ex e).1 =
      [cmdB b!"exists" [k]] ++ o.cmds k ++
        (if e.expireAt ≠ 0 then [cmdB b!"pexpire" [k, natToDec (ttlOf cfg.now e.expireAt)]] else []) ∧
    (replayEntry cfg db ex e).2.2 = true := by
  have hot := otypeOf_rtype o hk
  have hnf : otOf o ≠ .function ∧ otOf o ≠ .aux ∧ otOf o ≠ .module := by
    unfold otOf; cases hkk : o.kind <;> simp_all
  have hfb : (pobjOf k o).firstBin = true := by simp [pobjOf, PObj.firstBin]
  have hrt : (pobjOf k o).rtype = o.rtype := rfl
  have hexec := execCmd_pobjOf cfg.x k o hwf hk
  have hrw : ∀ cs : List Cmd, cs.map (rewriteCmd k k) = cs := fun cs => by
    induction cs with
    | nil => rfl
    | cons c cs ih => simp [rewriteCmd, ih]
  simp only [replayEntry, expandEntry, dstKey, hrht, hobj, hkey, hrt, hot, hnf.1, hnf.2.1, hnf.2.2, or_self, if_false,
    hoff, Bool.false_and, Bool.not_false, if_true, hfb, hfresh, Bool.false_eq_true, hexec, Option.map_some, hrw]
  constructor <;> simp

/-- expansion path end to end for one entry (fresh key): ALL requests `Replay`
    issues — probe, expansion, PEXPIRE — replayed through the oracle leave the key
    with the source value AND the time to live that realises its absolute expiry
    (`ttlOf`: remaining ms, 1 = expires at once, 0 = none) -/
theorem expand_path_final (cfg : RCfg) (db : Int) (e : Entry) (k : Bytes) (o : ObjE)
    (hobj : e.obj = pobjOf k o) (hkey : e.key = k) (hwf : o.wf) (hk : o.kind ≠ .other)
    (hne : o.nonempty) (hd : o.members.Nodup) (hoff : cfg.enableRestore = false)
    (hrht : cfg.replaceHashTag = false) :
    applyCmds [] (replayEntry cfg db [] e).1 = some [(k, o.value, ttlOf cfg.now e.expireAt)] := by
  obtain ⟨hreq, _⟩ := expand_path cfg db [] e k o hobj hkey hwf hk hoff rfl hrht
  rw [hreq, applyCmds_append, applyCmds_append]
  simp only [applyCmds, apply_exists, Option.bind_some]
  rw [cmds_frame [] k o hk hne hd rfl]
  simp only [List.nil_append, Option.bind_some]
  by_cases h0 : e.expireAt = 0
  · simp [h0, applyCmds, ttlOf]
  · simp only [h0, ne_eq, not_false_eq_true, if_true, applyCmds, apply_pexpire, doPexpire,
      decToNat_natToDec, get_single, put_single]

/-! ## TTL and database -/

/-- The TTL handed to RESTORE / PEXPIRE realises the source's absolute expiry:
    `now + ttl = expireAt` while it lies ahead, `1` ms (expires at once) when it
    is already past, `0` (no expiry) only for keys without one. -/
theorem ttl_absolute (now expireAt : Nat) :
    (expireAt = 0 → ttlOf now expireAt = 0) ∧
    (expireAt ≠ 0 → now < expireAt → now + ttlOf now expireAt = expireAt) ∧
    (expireAt ≠ 0 → expireAt ≤ now → ttlOf now expireAt = 1) := by
  unfold ttlOf
  refine ⟨fun h => by simp [h], fun h0 hlt => ?_, fun h0 hle => ?_⟩
  · have : ¬ now ≥ expireAt := by omega
    simp [h0, this]; omega
  · have : now ≥ expireAt := hle
    simp [h0, this]

/-- The database an entry is replayed into: the configured target DB if set,
    else the mapped DB, else the source DB. -/
theorem replay_db (cfg : RCfg) (origin : Int) :
    (cfg.targetDb ≠ -1 → mapDb cfg origin = cfg.targetDb) ∧
    (cfg.targetDb = -1 → ∀ t, cfg.dbMap.find? (fun p => p.1 == origin) = some (origin, t) → mapDb cfg origin = t) ∧
    (cfg.targetDb = -1 → cfg.dbMap.find? (fun p => p.1 == origin) = none → mapDb cfg origin = origin) := by
  unfold mapDb
  refine ⟨fun h => by simp [h], fun h t hf => by simp [h, hf], fun h hf => by simp [h, hf]⟩

/-! ## The whole dataset

`full_sync_partial` composes everything above over a WHOLE snapshot file: header,
every item of the frame, every key with its metadata and value, EOF and checksum —
parsed by the loader model with any chunk threshold, fanned out to ONE worker,
replayed by the replay model under any DB mapping / filter / RESTORE setting, and
the requests of that worker applied to the oracle target (`applyReqs`: numbered
databases, SELECT, keyspace commands) starting from empty databases. -/

/-- **`full_sync_partial`** — for every well-formed dataset `f` (`FileE`: any RDB version
    1…13, any number of databases, AUX fields, SELECTDB / RESIZEDB / slot-info items
    and function libraries between the keys, keys with EXPIRETIME(_MS) / IDLE / FREQ,
    values of EVERY string / list / set / sorted-set / hash encoding, containers raw or
    LZF-compressed, checksum present or disabled), every chunk threshold and module-aux
    policy (`d`), every target version, `fnExists`, RESTORE on/off, `MaxProtoBulkLen`,
    target DB / DB map, clock reading and every DB / key / slot filter (`cfg`):
    `sendRdb` with one worker succeeds (`true`: every entry applied, `Done` reached),
    and its request log applied to a target with empty databases yields, in EVERY
    database `D`, exactly the keys of `f` that are not filtered out and are mapped to
    `D` — in file order, nothing else — each with its value (`Holds`: the logical
    value rebuilt by the expansion, or the object RESTORE creates from the byte-exact
    payload) and the time to live that realises its absolute expiry.

    Hypotheses. `hcar`: no module aux item; values are not streams / module values;
    collections are not empty and their members / fields distinct (what Redis
    stores). `hload`: when RESTORE is enabled the target can load the value types
    (the `Bad data format` fall-back needs an oracle with error replies). `htick`:
    the harness clock stands still during the replay (`ttl_absolute` holds for every
    reading). `hrht`: `ReplaceHashTag` off. `hdb`: the DB mapping yields valid
    (non-negative) indices. `hdistinct`: the replayed keys are distinct per target
    database (true of any snapshot unless a DB map merges databases). -/
theorem full_sync_partial (d : DCfg) (cfg : RCfg) (f : FileE)
    (hwf : f.wf) (hfoot : f.footer ≠ .bad) (hcar : ∀ i ∈ f.items, i.carried)
    (hpar : cfg.parallel = 1) (htick : cfg.tick = 0) (hrht : cfg.replaceHashTag = false)
    (hload : ∀ p ∈ f.keys, cfg.enableRestore = true → typeLoadable cfg.x.tgtMajor p.2.obj.rtype = true)
    (hdb : ∀ n : Nat, cfg.filterDb (n : Int) = false → 0 ≤ mapDb cfg (n : Int))
    (hdistinct : ((f.keys.filter (replayed cfg)).map (fun p => (mapDb cfg (p.1 : Int), p.2.key.val))).Nodup) :
    ∃ log T, sendRdb d cfg [] (rdbFile f) = ([log], true) ∧ applyReqs {} log = some T ∧
      ∀ D, Pointwise (Holds cfg) (expectedKeys cfg D f.keys) (T.dbs D) :=
  full_sync_core d cfg f hwf hfoot hcar hpar htick hrht hload hdb hdistinct

/-- what `full_sync_partial` says of a single key: a key of `f` that is not filtered out is
    present in its target database after the sync, with the time to live of its absolute expiry -/
theorem full_sync_key (d : DCfg) (cfg : RCfg) (f : FileE)
    (hwf : f.wf) (hfoot : f.footer ≠ .bad) (hcar : ∀ i ∈ f.items, i.carried)
    (hpar : cfg.parallel = 1) (htick : cfg.tick = 0) (hrht : cfg.replaceHashTag = false)
    (hload : ∀ p ∈ f.keys, cfg.enableRestore = true → typeLoadable cfg.x.tgtMajor p.2.obj.rtype = true)
    (hdb : ∀ n : Nat, cfg.filterDb (n : Int) = false → 0 ≤ mapDb cfg (n : Int))
    (hdistinct : ((f.keys.filter (replayed cfg)).map (fun p => (mapDb cfg (p.1 : Int), p.2.key.val))).Nodup)
    (p : Nat × KeyE) (hp : p ∈ f.keys) (hrep : replayed cfg p = true) :
    ∃ log T, sendRdb d cfg [] (rdbFile f) = ([log], true) ∧ applyReqs {} log = some T ∧
      ∃ x ∈ T.dbs (mapDb cfg (p.1 : Int)), Holds cfg p x := by
  obtain ⟨log, T, h1, h2, h3⟩ := full_sync_partial d cfg f hwf hfoot hcar hpar htick hrht hload hdb hdistinct
  refine ⟨log, T, h1, h2, ?_⟩
  have hmem : p ∈ expectedKeys cfg (mapDb cfg (p.1 : Int)) f.keys := by
    simp [expectedKeys, hp, hrep]
  have key : ∀ (as : List (Nat × KeyE)) (bs : List (Bytes × Val × Nat)), Pointwise (Holds cfg) as bs →
      p ∈ as → ∃ x ∈ bs, Holds cfg p x := by
    intro as bs h
    induction h with
    | nil => intro h; cases h
    | cons hab _ ih =>
      intro h
      rcases List.mem_cons.mp h with rfl | h
      · exact ⟨_, List.mem_cons_self .., hab⟩
      · obtain ⟨x, hx, hh⟩ := ih h
        exact ⟨x, List.mem_cons_of_mem _ hx, hh⟩
  exact key _ _ (h3 _) hmem

/-! ## Any number of workers

The target with one connection per worker is `MState` (`applySched`: a schedule of
requests tagged with their connection; every connection has its own selected
database, the keyspaces are shared; requests are atomic). -/

/-- the number of workers is irrelevant — for ANY entries the loader can produce
    (an entry without database is a function library; values of every kind, stream values
    included since session 4: whatever buffer `ExecCmd` of a stream runs on, it emits
    XADD / XSETID / XGROUP / XCLAIM only, `execStream_names`), any
    existence table and any two numbers of workers: replaying the entries in
    snapshot order, each on the connection of the worker the fan-out routes it to,
    leaves the same keyspaces in every database (or fails on both), and the tool
    reports the same success. (Each worker switches ITS connection to the entry's
    database before it issues the entry's requests, and what it issues does not
    depend on the worker: `step_M`, `fanOut_dbs`.) -/
theorem fanout_workers_irrelevant (cfg : RCfg) (es : List Entry) (ex : Exists) (n1 n2 : Nat)
    (h1 : 0 < n1) (h2 : 0 < n2) (htick : cfg.tick = 0)
    (hdb : ∀ n : Nat, cfg.filterDb (n : Int) = false → 0 ≤ mapDb cfg (n : Int))
    (hes : ∀ e ∈ es, (e.db = -1 ∧ e.obj.rtype = 0xF5) ∨ ∃ n : Nat, e.db = (n : Int)) :
    (applySched {} (schedOf (fanOutTrace cfg es 0 (List.replicate n1 {}) ex))).map (·.dbs) =
      (applySched {} (schedOf (fanOutTrace cfg es 0 (List.replicate n2 {}) ex))).map (·.dbs) ∧
    (fanOut cfg es 0 (List.replicate n1 {}) ex).2.2 = (fanOut cfg es 0 (List.replicate n2 {}) ex).2.2 := by
  have a := fanOut_dbs cfg htick hdb es hes 0 (List.replicate n1 {}) ex {} (by simpa using h1)
    (fun j _ => getD_replicate_cur n1 j)
  have b := fanOut_dbs cfg htick hdb es hes 0 (List.replicate n2 {}) ex {} (by simpa using h2)
    (fun j _ => getD_replicate_cur n2 j)
  exact ⟨a.1.trans b.1.symm, a.2.trans b.2.symm⟩

/-- requests on different keys commute on the oracle: for any two commands of the plain
    kinds (SET, DEL, EXISTS, PEXPIRE, RPUSH, SADD, ZADD, HSET, RESTORE — everything the
    replay of strings, lists, sets, sorted sets and hashes issues) that name different
    keys, from ANY keyspace: either order fails, or both orders succeed with the same
    value and time to live under every key (`KEq`; only the order of the key list may
    differ). Every such command is LOCAL to its key (`local_applyXCmd`: reply and
    update are a function of the key's own state). -/
theorem oracle_keys_commute (c1 c2 : Cmd) (k1 k2 : Bytes) (r1 r2 : List Arg) (ks : Keyspace)
    (h1 : c1.args = .b k1 :: r1) (h2 : c2.args = .b k2 :: r2)
    (n1 : lower c1.name ∈ plainNames) (n2 : lower c2.name ∈ plainNames) (hne : k1 ≠ k2) :
    ORel KEq ((applyXCmd ks c1).bind (fun ks' => applyXCmd ks' c2))
             ((applyXCmd ks c2).bind (fun ks' => applyXCmd ks' c1)) :=
  local_commute (local_applyXCmd c1 k1 r1 h1 n1) (local_applyXCmd c2 k2 r2 h2 n2) hne ks

/-- **`fanout_parallel_partial`** — `full_sync_partial` for ANY number of workers
    (`parallel = n ≥ 1`): `sendRdb` succeeds with `n` request logs, and there is a
    schedule of all requests — snapshot order, `schedOf (fanOutTrace …)` — whose
    projection to every connection `j` is exactly worker `j`'s log and which leaves on
    the target, in every database, exactly the keys `full_sync_partial` names, with
    their values and times to live. (`fanout_parallel` extends this to EVERY
    interleaving of the `n` logs.) -/
theorem fanout_parallel_partial (d : DCfg) (cfg : RCfg) (f : FileE)
    (hwf : f.wf) (hfoot : f.footer ≠ .bad) (hcar : ∀ i ∈ f.items, i.carried)
    (htick : cfg.tick = 0) (hrht : cfg.replaceHashTag = false)
    (hload : ∀ p ∈ f.keys, cfg.enableRestore = true → typeLoadable cfg.x.tgtMajor p.2.obj.rtype = true)
    (hdb : ∀ n : Nat, cfg.filterDb (n : Int) = false → 0 ≤ mapDb cfg (n : Int))
    (hdistinct : ((f.keys.filter (replayed cfg)).map (fun p => (mapDb cfg (p.1 : Int), p.2.key.val))).Nodup)
    (n : Nat) (hn : 1 ≤ n) (hpar : cfg.parallel = n) :
    ∃ logs sched M, sendRdb d cfg [] (rdbFile f) = (logs, true) ∧ logs.length = n ∧
      (∀ j, j < n → (sched.filter (fun p => p.1 == j)).map (·.2) = logs.getD j []) ∧
      applySched {} sched = some M ∧
      ∀ D, Pointwise (Holds cfg) (expectedKeys cfg D f.keys) (M.dbs D) := by
  obtain ⟨logs, sched, M, h1, h2, h3, h4, h5, _⟩ :=
    fanout_parallel_core d cfg f hwf hfoot hcar htick hrht hload hdb hdistinct n hn hpar
  exact ⟨logs, sched, M, h1, h2, h3, h4, h5⟩

/-- **`fanout_parallel`** — the final keyspace does not depend on the number of workers NOR
    on how their requests interleave: for `parallel = n ≥ 1`, `sendRdb` succeeds with `n`
    request logs, and EVERY schedule of all requests (requests are atomic; any order
    that keeps each connection's own order, i.e. whose projection to connection `j` is
    worker `j`'s log) succeeds on the target with one connection per worker and leaves,
    under every key of every database, the value and time to live of the snapshot-order
    result `M0` (`KEq`: the same keys with the same contents; only the order in which the
    key list enumerates them may differ) — and `M0` holds exactly the keys
    `full_sync_partial` names. Proof: a worker's log consists of SELECT, SCRIPT/FUNCTION
    and plain commands local to one key (`local_applyXCmd`); every key is routed to one
    worker (`fnv(key) mod n`), so requests of different workers never name the same
    key and commute (`oracle_keys_commute`, `tagged_comm`); two schedules with the same
    per-connection projections are then connected by swaps of adjacent independent
    requests (`sched_indep`). Same hypotheses as `full_sync_partial` (without `hpar`). -/
theorem fanout_parallel (d : DCfg) (cfg : RCfg) (f : FileE)
    (hwf : f.wf) (hfoot : f.footer ≠ .bad) (hcar : ∀ i ∈ f.items, i.carried)
    (htick : cfg.tick = 0) (hrht : cfg.replaceHashTag = false)
    (hload : ∀ p ∈ f.keys, cfg.enableRestore = true → typeLoadable cfg.x.tgtMajor p.2.obj.rtype = true)
    (hdb : ∀ n : Nat, cfg.filterDb (n : Int) = false → 0 ≤ mapDb cfg (n : Int))
    (hdistinct : ((f.keys.filter (replayed cfg)).map (fun p => (mapDb cfg (p.1 : Int), p.2.key.val))).Nodup)
    (n : Nat) (hn : 1 ≤ n) (hpar : cfg.parallel = n) :
    ∃ (logs : List (List Cmd)) (M0 : MState), sendRdb d cfg [] (rdbFile f) = (logs, true) ∧ logs.length = n ∧
      (∀ D, Pointwise (Holds cfg) (expectedKeys cfg D f.keys) (M0.dbs D)) ∧
      ∀ sched : List (Nat × Cmd),
        (∀ j, (sched.filter (fun p => p.1 == j)).map (·.2) = logs.getD j []) →
        ∃ M, applySched {} sched = some M ∧ ∀ D, KEq (M.dbs D) (M0.dbs D) :=
  any_interleaving_core d cfg f hwf hfoot hcar htick hrht hload hdb hdistinct n hn hpar

/-! ## The whole dataset, with streams, module values and module aux items -/

/-- **`full_sync_streams`** — `full_sync_partial` lifted to datasets WITH stream values
    (RDB types 15 / 19 / 21 / 26: entries, last id, counters, consumer groups, PELs),
    module values (type 7) and module aux items. For every well-formed dataset `f` whose
    items are `carriedS` — as before for strings / lists / sets / sorted sets / hashes;
    streams `sound` (what Redis guarantees, see `stream_roundtrip`); module values only
    where they can travel by RESTORE (otherwise the tool refuses the sync, by design);
    module aux items only under the `skip` policy (`d.failModAux = false`; under `fail`
    the tool refuses the snapshot, by design) — and every configuration as in
    `full_sync_partial`: `sendRdb` with one worker succeeds and its request log applied
    to a target with empty databases leaves, in EVERY database, exactly the unfiltered
    keys of `f` mapped there, in file order, each with the time to live of its absolute
    expiry and its value (`HoldsS`): for a stream either the object RESTORE creates from
    the byte-exact payload (type + serialization + version + CRC64; `raw_is_encode_opaque`)
    or — RESTORE off / payload above `MaxProtoBulkLen` — the logical stream `StreamE.xval`
    rebuilt by XADD / XSETID / XGROUP CREATE / XCLAIM; for a module value the restored
    object. Module aux items leave no request. Remaining hypotheses: `hload`, `htick`,
    `hrht`, `hdb`, `hdistinct`, `hpar` as in `full_sync_partial`. -/
theorem full_sync_streams (d : DCfg) (cfg : RCfg) (f : FileE)
    (hwf : f.wf) (hfoot : f.footer ≠ .bad) (hcar : ∀ i ∈ f.items, i.carriedS d cfg)
    (hpar : cfg.parallel = 1) (htick : cfg.tick = 0) (hrht : cfg.replaceHashTag = false)
    (hload : ∀ p ∈ f.keys, cfg.enableRestore = true → typeLoadable cfg.x.tgtMajor p.2.obj.rtype = true)
    (hdb : ∀ n : Nat, cfg.filterDb (n : Int) = false → 0 ≤ mapDb cfg (n : Int))
    (hdistinct : ((f.keys.filter (replayed cfg)).map (fun p => (mapDb cfg (p.1 : Int), p.2.key.val))).Nodup) :
    ∃ log T, sendRdb d cfg [] (rdbFile f) = ([log], true) ∧ applyReqs {} log = some T ∧
      ∀ D, Pointwise (HoldsS cfg) (expectedKeys cfg D f.keys) (T.dbs D) :=
  full_sync_coreS d cfg f hwf hfoot hcar hpar htick hrht hload hdb hdistinct

/-- **`fanout_parallel_streams`** — `full_sync_streams` for ANY number of workers
    (`parallel = n ≥ 1`), snapshot-order schedule: `sendRdb` succeeds with `n` request logs,
    and the schedule of all requests in snapshot order — whose projection to every
    connection `j` is exactly worker `j`'s log — leaves on the target with one connection
    per worker, in every database, exactly the keys `full_sync_streams` names, with their
    values (streams, module values included) and times to live. The number of workers is
    irrelevant for entries of every kind (`fanout_workers_irrelevant`). Open for streams:
    OTHER interleavings of the workers' requests (`fanout_parallel` proves them for the
    other kinds; XGROUP / XCLAIM are not in `plainNames`). -/
theorem fanout_parallel_streams (d : DCfg) (cfg : RCfg) (f : FileE)
    (hwf : f.wf) (hfoot : f.footer ≠ .bad) (hcar : ∀ i ∈ f.items, i.carriedS d cfg)
    (htick : cfg.tick = 0) (hrht : cfg.replaceHashTag = false)
    (hload : ∀ p ∈ f.keys, cfg.enableRestore = true → typeLoadable cfg.x.tgtMajor p.2.obj.rtype = true)
    (hdb : ∀ n : Nat, cfg.filterDb (n : Int) = false → 0 ≤ mapDb cfg (n : Int))
    (hdistinct : ((f.keys.filter (replayed cfg)).map (fun p => (mapDb cfg (p.1 : Int), p.2.key.val))).Nodup)
    (n : Nat) (hn : 1 ≤ n) (hpar : cfg.parallel = n) :
    ∃ logs sched M, sendRdb d cfg [] (rdbFile f) = (logs, true) ∧ logs.length = n ∧
      (∀ j, j < n → (sched.filter (fun p => p.1 == j)).map (·.2) = logs.getD j []) ∧
      applySched {} sched = some M ∧
      ∀ D, Pointwise (HoldsS cfg) (expectedKeys cfg D f.keys) (M.dbs D) :=
  fanout_parallel_coreS d cfg f hwf hfoot hcar htick hrht hload hdb hdistinct n hn hpar

/-- every dataset `full_sync_partial` carries is carried by `full_sync_streams`
    (`carried → carriedS`), with the same per-key result (`HoldsS` = `Holds` off streams) -/
theorem carried_carriedS (d : DCfg) (cfg : RCfg) (i : Item) (h : i.carried) : i.carriedS d cfg := by
  cases i with
  | moduleAux id ops => exact absurd h (by simp [Item.carried])
  | key k =>
    obtain ⟨hk, hne, hd⟩ := h
    simp only [Item.carriedS]
    cases hoo : k.obj <;> rw [hoo] at hk hne hd <;> first
      | exact ⟨hk, hne, hd⟩
      | exact absurd rfl hk
  | _ => trivial

/-! ## Onto a key that EXISTS on the target (re-sync), expansion path -/

/-- **`expand_path_existing`** — an unsplit value (any string / list / set / sorted-set / hash
    encoding, or a stream) that does not travel by RESTORE, replayed onto a key the target
    ALREADY HOLDS (policy `replace`): `Replay` issues the probe, `DEL key`, the expansion, and
    PEXPIRE iff the key has an expiry; it succeeds, and whatever the key held before — another
    type, a stream with a higher last id, other groups and pending entries, a time to live —
    is gone: the keyspace is the old one without the key, plus the key with exactly its
    logical value and the time to live of its absolute expiry (for a stream: XADD would be
    refused "equal or smaller" and XGROUP CREATE "BUSYGROUP" had the DEL been missed). -/
theorem expand_path_existing (cfg : RCfg) (db : Int) (ex : Exists) (e : Entry) (k : Bytes) (o : ObjE) (ks : Keyspace)
    (hobj : e.obj = pobjOf k o) (hkey : e.key = k)
    (hcar : (o.kind ≠ .other ∧ o.wf ∧ o.nonempty ∧ o.members.Nodup) ∨ (∃ s, o = .stream s ∧ s.wf ∧ s.sound))
    (hnv : ¬ viaRestore cfg o) (hrht : cfg.replaceHashTag = false) (hex : ex.has db k = true) :
    (replayEntry cfg db ex e).1 =
      [cmdB b!"exists" [k], cmdB b!"del" [k]] ++ o.cmdsS cfg.x k ++
        (if e.expireAt ≠ 0 then [cmdB b!"pexpire" [k, natToDec (ttlOf cfg.now e.expireAt)]] else []) ∧
    (replayEntry cfg db ex e).2.2 = true ∧
    applyCmds ks (replayEntry cfg db ex e).1 =
      some (del ks k ++ [(k, o.valueS cfg.x, ttlOf cfg.now e.expireAt)]) := by
  rcases hcar with ⟨hk, hwf, hne, hd⟩ | ⟨s, rfl, hwf, hs⟩
  · obtain ⟨hot, hnf1, hnf2, hnf3, hsplit, hfb⟩ := pobjOf_facts k o hk
    obtain ⟨h1, h2⟩ := replay_expand_existingG cfg db ex e k o _ (o.cmds k) hobj hkey hot hnf1 hnf2 hnf3 hsplit hfb
      (execCmd_pobjOf cfg.x k o hwf hk) hnv hrht hex
    rw [cmdsS_plain cfg.x k o hk, valueS_plain cfg.x o hk]
    refine ⟨h1, h2, ?_⟩
    rw [h1]
    exact apply_expand_existingG ks k (o.cmds k) o.value e.expireAt (ttlOf cfg.now e.expireAt)
      (fun ks' hf => cmds_frame ks' k o hk hne hd hf) (fun h0 => by rw [h0]; exact ttlOf_zero _)
  · have ho : (ObjE.stream s).opaque := ⟨hwf, hs⟩
    obtain ⟨hot, _, _, _, _, _⟩ := opaque_rtype _ ho
    have hpo := pobjOf_opaque k _ ho
    obtain ⟨h1, h2⟩ := replay_expand_existingG cfg db ex e k (.stream s) .stream (s.cmds cfg.x k) hobj hkey hot
      (by decide) (by decide) (by decide) (by rw [hpo]; simp [PObj.isSplited]) (by rw [hpo]; simp [PObj.firstBin])
      (execCmd_streamObj cfg.x k s hwf hs) hnv hrht hex
    refine ⟨h1, h2, ?_⟩
    rw [h1]
    exact apply_expand_existingG ks k (s.cmds cfg.x k) (.stream (s.xval cfg.x)) e.expireAt (ttlOf cfg.now e.expireAt)
      (fun ks' hf => stream_cmds_apply ks' k cfg.x s hwf hs hf) (fun h0 => by rw [h0]; exact ttlOf_zero _)

/-! ## The `Bad data format` fall-back (hypothesis `hload`), entry level

`RedisSem.applyCmdsV v` is the oracle of a target of major version `v`: RESTORE of a value
type it cannot load is answered with an error and has no effect. -/

/-- **`restore_fallback_path`** — an unsplit value (any string / list / set / sorted-set /
    hash encoding, or a stream) whose RESTORE payload fits but whose type the target
    cannot load (e.g. a listpack hash or a type-21 stream into Redis 6): `Replay` issues
    `restore key ttl payload …` — refused: `Bad data format` — and then, for a key that
    does not exist, the SAME requests as with RESTORE off: probe, the expansion, PEXPIRE
    iff the key has an expiry (defect G1 repaired: it had skipped probe and PEXPIRE);
    it succeeds, and on a target of that version the requests leave the key with its
    logical value and the time to live of its absolute expiry, everything else untouched. -/
theorem restore_fallback_path (cfg : RCfg) (db : Int) (ex : Exists) (e : Entry) (k : Bytes) (o : ObjE) (ks : Keyspace)
    (hobj : e.obj = pobjOf k o) (hkey : e.key = k)
    (hcar : (o.kind ≠ .other ∧ o.wf ∧ o.nonempty ∧ o.members.Nodup) ∨ (∃ s, o = .stream s ∧ s.wf ∧ s.sound))
    (hv : viaRestore cfg o) (hnl : typeLoadable cfg.x.tgtMajor o.rtype = false)
    (hrht : cfg.replaceHashTag = false) (hex : ex.has db k = false) (hfresh : get ks k = none) :
    (∃ opts, (replayEntry cfg db ex e).1 =
      cmdB b!"restore" (k :: natToDec (ttlOf cfg.now e.expireAt) :: createValueDump o.rtype o.ser :: opts) ::
        ([cmdB b!"exists" [k]] ++ o.cmdsS cfg.x k ++
          (if e.expireAt ≠ 0 then [cmdB b!"pexpire" [k, natToDec (ttlOf cfg.now e.expireAt)]] else []))) ∧
    (replayEntry cfg db ex e).2.2 = true ∧
    applyCmdsV cfg.x.tgtMajor ks (replayEntry cfg db ex e).1 =
      some (ks ++ [(k, o.valueS cfg.x, ttlOf cfg.now e.expireAt)]) := by
  rcases hcar with ⟨hk, hwf, hne, hd⟩ | ⟨s, rfl, hwf, hs⟩
  · obtain ⟨hot, hnf1, hnf2, hnf3, hsplit, hfb⟩ := pobjOf_facts k o hk
    rw [cmdsS_plain cfg.x k o hk, valueS_plain cfg.x o hk]
    exact restore_fallback_core cfg db ex e k o ks _ (o.cmds k) o.value hobj hkey hot hnf1 hnf2 hnf3 hsplit hfb
      (execCmd_pobjOf cfg.x k o hwf hk) (cmds_not_restore o k) (cmds_frame ks k o hk hne hd hfresh) hv hnl hrht hex hfresh
  · have ho : (ObjE.stream s).opaque := ⟨hwf, hs⟩
    obtain ⟨hot, _, _, _, _, _⟩ := opaque_rtype _ ho
    have hpo := pobjOf_opaque k _ ho
    exact restore_fallback_core cfg db ex e k (.stream s) ks .stream (s.cmds cfg.x k) (.stream (s.xval cfg.x)) hobj hkey
      hot (by decide) (by decide) (by decide)
      (by rw [hpo]; simp [PObj.isSplited]) (by rw [hpo]; simp [PObj.firstBin])
      (execCmd_streamObj cfg.x k s hwf hs) (cmdsS_not_restore cfg.x k (.stream s))
      (stream_cmds_apply ks k cfg.x s hwf hs hfresh) hv hnl hrht hex hfresh

/-- what is STILL open of the whole-file statement (listed `partial`): `full_sync_streams`
    WITHOUT the hypothesis `hload`, on the version-aware target `applyReqsV` — a value whose
    RESTORE the target refuses arrives expanded (`HoldsV`; `restore_fallback_path` is the
    single-entry step of it). Also open, not in this statement: `ReplaceHashTag`, a clock
    that advances during the replay, streams under more than one worker. -/
def full_sync_stmt : Prop :=
  ∀ (d : DCfg) (cfg : RCfg) (f : FileE),
    f.wf → f.footer ≠ .bad → (∀ i ∈ f.items, i.carriedS d cfg) →
    cfg.parallel = 1 → cfg.tick = 0 → cfg.replaceHashTag = false →
    (∀ n : Nat, cfg.filterDb (n : Int) = false → 0 ≤ mapDb cfg (n : Int)) →
    ((f.keys.filter (replayed cfg)).map (fun p => (mapDb cfg (p.1 : Int), p.2.key.val))).Nodup →
    ∃ log T, sendRdb d cfg [] (rdbFile f) = ([log], true) ∧ applyReqsV cfg.x.tgtMajor {} log = some T ∧
      ∀ D, Pointwise (HoldsV cfg) (expectedKeys cfg D f.keys) (T.dbs D)

/-! Non-vacuity / check values -/

-- CRC-64/Jones("123456789") = 0xe9c6d914c4b8d9ca (Redis crc64.c test vector)
example : (crc64Spec [49,50,51,52,53,54,55,56,57]).toNat = 0xe9c6d914c4b8d9ca := by decide +kernel
example : (crc64Tab [49,50,51,52,53,54,55,56,57]).toNat = 0xe9c6d914c4b8d9ca := by decide +kernel
-- DUMP of the string "a" (type 0, raw 01 61): 13 bytes, accepted by a Redis 7 (RDB 10) server
example : (createValueDump 0 [1, 97]).length = 13 := by decide +kernel
example : verifyDumpPayload 10 (createValueDump 0 [1, 97]) = true := by decide +kernel
-- a flipped payload byte is rejected
example : verifyDumpPayload 10 ((createValueDump 0 [1, 97]).set 2 98) = false := by decide +kernel

/-! Non-vacuity of the encoding theorems: concrete descriptions meeting every hypothesis -/

-- an LZF string with an overlapping back reference: "ab" + 10 bytes copied from 2 back
example : (SE.lzf .b6 .b6 [.lit [97, 98], .ref 2 10]).wf := by decide
example : (SE.lzf .b6 .b6 [.lit [97, 98], .ref 2 10]).val = [97,98,97,98,97,98,97,98,97,98,97,98] := by decide
-- a ziplist with unknown length, a 5-byte prevlen and the negative 24-bit integer -2 (D9, D10)
def exZl : ZL := { entries := [(false, .i24 (-2)), (true, .s6 [97]), (false, .i4 12)], unknown := true }
example : exZl.wf := by decide
example : exZl.vals = [[45, 50], [97], [49, 50]] := by decide
example : zlAll exZl.blob = some [[45, 50], [97], [49, 50]] := ziplist_roundtrip exZl (by decide)
-- a hash saved as that ziplist would need an even entry count; a list takes it as it is
def exList : ObjE := .listZiplist (SE.plain exZl.blob) exZl
example : exList.wf ∧ exList.kind ≠ .other ∧ exList.nonempty ∧ exList.members.Nodup := by decide
-- a sorted set in a listpack: member "m" ↦ score token "-3" (13-bit integer), member 7 ↦ "1.5"
def exZsetLp : List LPEntry := [.s6 [109], .i13 (-3), .u7 7, .s6 [49, 46, 53]]
def exZset : ObjE := .zsetListpack (SE.plain (lpBlob exZsetLp)) exZsetLp
example : exZset.wf ∧ exZset.kind ≠ .other ∧ exZset.nonempty ∧ exZset.members.Nodup := by decide
example : exZset.value = .zset [([109], .b [45, 51]), ([55], .b [49, 46, 53])] := by decide
-- an intset of width 2 and a quicklist v2 with a plain and a packed node
def exSet : ObjE := .setIntset (SE.plain (intsetBlob 2 [-32768, 5])) 2 [-32768, 5]
example : exSet.wf ∧ exSet.kind ≠ .other ∧ exSet.nonempty ∧ exSet.members.Nodup := by decide
def exQl2 : ObjE := .listQuick2 .b6 [.plain (.int8 (-5)), .packed (SE.plain (lpBlob [.i64 (-1), .s12 [120]])) [.i64 (-1), .s12 [120]]]
example : exQl2.wf ∧ exQl2.kind ≠ .other ∧ exQl2.nonempty ∧ exQl2.members.Nodup := by decide
example : exQl2.value = .list [[45, 53], [45, 49], [120]] := by decide
-- a stream node: master 1-1 with fields a b; entries 1-1 {a 1 b 2} (same fields), 1-2 {c 3}, deleted 1-3, 1-4 {a 4 b 5}
def exEntries : List SEntryE :=
  [{ deleted := false, same := true, msDelta := .u7 0, seqDelta := .u7 0, items := [.u7 1, .u7 2] },
   { deleted := false, same := false, msDelta := .u7 0, seqDelta := .u7 1, items := [.s6 [99], .u7 3] },
   { deleted := true, same := true, msDelta := .u7 0, seqDelta := .i13 2, items := [.u7 7, .u7 7] },
   { deleted := false, same := true, msDelta := .u7 0, seqDelta := .i16 3, items := [.u7 4, .u7 5] }]
def exNode0 : SNodeE :=
  { w := SE.plain [], masterMs := 1, masterSeq := 1, masterFields := [.s6 [97], .s6 [98]], entries := exEntries }
def exNode : SNodeE := { exNode0 with w := SE.plain exNode0.blob }
example : exNode.wf := by decide +kernel
theorem exNode_idWf : ∀ e ∈ exNode.entries, e.idWf exNode.masterMs exNode.masterSeq := by
  intro e he
  have he' : e ∈ exEntries := he
  simp only [exEntries, List.mem_cons, List.mem_nil_iff, or_false] at he'
  rcases he' with rfl | rfl | rfl | rfl <;>
    exact ⟨_, _, rfl, rfl, by decide, by decide, by decide, by decide⟩
example : exNode.live = [([49,45,49], [[97],[49],[98],[50]]), ([49,45,50], [[99],[51]]), ([49,45,52], [[97],[52],[98],[53]])] := by
  decide +kernel
-- a hash table of three pairs with threshold 1 byte is read as THREE chunks
def exHashKey : KeyE :=
  { exp := .ms 5000, key := SE.plain [104],
    obj := .hashTable .b6 [(SE.plain [97], SE.plain [49]), (SE.plain [98], SE.plain [50]), (SE.plain [99], SE.plain [51])] }
example : exHashKey.wf := by decide
example : (nextValue { thr := 1 } 4 {} (exHashKey.enc ++ [0xFF])).map (fun r => (r.1.length, r.1.map (·.expireAt), r.2.2)) =
    some (3, [5000, 5000, 5000], [0xFF]) := by decide +kernel
-- restore_path / expand_path / expand_path_final on the list of `exList`, key "l", expiry 6000 at clock 5000
def exEntry : Entry := { db := 0, key := [108], type := 10, expireAt := 6000, obj := pobjOf [108] exList }
example : (replayEntry { enableRestore := true, now := 5000 } 0 [] exEntry).2.2 = true :=
  (restore_path { enableRestore := true, now := 5000 } 0 [] exEntry [108] exList rfl rfl (by decide) rfl
    (by decide) (by decide) rfl).2
example : applyCmds [] (replayEntry { enableRestore := false, now := 5000 } 0 [] exEntry).1 =
    some [([108], exList.value, 1000)] :=
  expand_path_final { enableRestore := false, now := 5000 } 0 exEntry [108] exList rfl rfl (by decide) (by decide)
    (by decide) (by decide) rfl rfl
-- TTL: expiry 1000 ms ahead / already past
example : ttlOf 5000 6000 = 1000 ∧ ttlOf 5000 4000 = 1 ∧ ttlOf 5000 0 = 0 := by decide

-- full_sync_partial on a file with an AUX field, three databases, RESIZEDB, a function library, a string
-- with expiry, the three-pair hash table of `exHashKey` (threshold 1: three chunks) and the list `exList`
def exFile : FileE :=
  { version := 9,
    items := [.aux (SE.plain [118]) (SE.plain [55]), .selectDb .b6 1, .resizeDb .b6 2 .b6 1,
              .key { exp := .ms 6000, key := SE.plain [115], obj := .str (SE.plain [118]) },
              .key exHashKey, .function (SE.plain [1, 2, 3]), .selectDb .b6 2,
              .key { key := SE.plain [108], obj := exList }] }
example : exFile.wf ∧ (∀ i ∈ exFile.items, i.carried) := by decide
example : (exFile.keys.map (fun p => (p.1, p.2.key.val))) = [(1, [115]), (1, [104]), (2, [108])] := by decide
example : ∃ log T, sendRdb { thr := 1 } { enableRestore := false, now := 5000 } [] (rdbFile exFile) = ([log], true) ∧
    applyReqs {} log = some T ∧
    ∀ D, Pointwise (Holds { enableRestore := false, now := 5000 })
      (expectedKeys { enableRestore := false, now := 5000 } D exFile.keys) (T.dbs D) :=
  full_sync_partial { thr := 1 } { enableRestore := false, now := 5000 } exFile (by decide) (by decide) (by decide)
    rfl rfl rfl (fun _ _ h => by cases h) (fun n _ => by simp [mapDb]) (by decide)
-- … and with RESTORE on (target 8.x), the whole hash under the default threshold, DB 1 mapped to 7, key "s" filtered out
def exCfg : RCfg := { x := { tgtMajor := 8 }, now := 5000, dbMap := [(1, 7)], filterKey := fun k => k == [115] }
example : ∃ log T, sendRdb {} exCfg [] (rdbFile exFile) = ([log], true) ∧ applyReqs {} log = some T ∧
    ∃ x ∈ T.dbs 7, Holds exCfg (1, exHashKey) x :=
  full_sync_key {} exCfg exFile (by decide) (by decide) (by decide) rfl rfl rfl
    (fun _ _ _ => by simp [typeLoadable, exCfg])
    (fun n _ => by
      unfold mapDb
      simp only [exCfg, ne_eq, not_true_eq_false, if_false, List.find?]
      cases h : ((1 : Int) == (n : Int)) <;> simp <;> omega)
    (by decide) (1, exHashKey) (by simp [FileE.keys, exFile, keysFrom, dbAfter]) (by decide)
-- the same file with three workers
example : ∃ logs sched M, sendRdb { thr := 1 } { enableRestore := false, now := 5000, parallel := 3 } []
      (rdbFile exFile) = (logs, true) ∧ logs.length = 3 ∧
    (∀ j, j < 3 → (sched.filter (fun p => p.1 == j)).map (·.2) = logs.getD j []) ∧
    applySched {} sched = some M ∧
    ∀ D, Pointwise (Holds { enableRestore := false, now := 5000, parallel := 3 })
      (expectedKeys { enableRestore := false, now := 5000, parallel := 3 } D exFile.keys) (M.dbs D) :=
  fanout_parallel_partial { thr := 1 } { enableRestore := false, now := 5000, parallel := 3 } exFile (by decide)
    (by decide) (by decide) rfl rfl (fun _ _ h => by cases h) (fun n _ => by simp [mapDb]) (by decide) 3 (by decide) rfl
-- … and every interleaving of the three workers' requests
example : ∃ (logs : List (List Cmd)) (M0 : MState),
    sendRdb { thr := 1 } { enableRestore := false, now := 5000, parallel := 3 } [] (rdbFile exFile) = (logs, true) ∧
    logs.length = 3 ∧
    (∀ D, Pointwise (Holds { enableRestore := false, now := 5000, parallel := 3 })
      (expectedKeys { enableRestore := false, now := 5000, parallel := 3 } D exFile.keys) (M0.dbs D)) ∧
    ∀ sched : List (Nat × Cmd), (∀ j, (sched.filter (fun p => p.1 == j)).map (·.2) = logs.getD j []) →
      ∃ M, applySched {} sched = some M ∧ ∀ D, KEq (M.dbs D) (M0.dbs D) :=
  fanout_parallel { thr := 1 } { enableRestore := false, now := 5000, parallel := 3 } exFile (by decide)
    (by decide) (by decide) rfl rfl (fun _ _ h => by cases h) (fun n _ => by simp [mapDb]) (by decide) 3 (by decide) rfl


/-! Non-vacuity of the stream / module / fall-back theorems (session 4) -/

-- a type-21 stream over `exNode` (live 1-1, 1-2, 1-4; 1-3 deleted): last id 1-4, 4 entries added,
-- max deleted 1-3; one group "g" (last delivered 1-2, 2 entries read) whose PEL holds 1-1 (consumer
-- "a", delivered twice at 1000), 1-2 (consumer "b", once at 1001) and 1-3 - the DELETED entry - (consumer
-- "d"); consumer "c" has nothing pending
def exStream : StreamE :=
  { ver := 3, nodes := [exNode], length := 3, lastMs := 1, lastSeq := 4, firstMs := 1, firstSeq := 1,
    maxDelMs := 1, maxDelSeq := 3, entriesAdded := 4,
    groups := [{ name := SE.plain [103], lastMs := 1, lastSeq := 2, entriesRead := 2,
                 pel := [⟨1, 1, 1000, 2⟩, ⟨1, 2, 1001, 1⟩, ⟨1, 3, 1002, 1⟩],
                 consumers := [⟨SE.plain [97], 5, 6, [(1, 1)]⟩, ⟨SE.plain [98], 5, 6, [(1, 2)]⟩,
                               ⟨SE.plain [99], 7, 7, []⟩, ⟨SE.plain [100], 8, 8, [(1, 3)]⟩] }] }
theorem exStream_wf : exStream.wf := by decide +kernel
theorem exStream_sound : exStream.sound := by
  refine ⟨by decide, by decide, by decide, ?_, by decide +kernel, by decide +kernel, by decide +kernel,
    by decide, by decide, by unfold SIdmpE.sizes; decide, by unfold StreamE.counters; decide +kernel⟩
  intro n hn
  have : n = exNode := by simpa [exStream] using hn
  subst this
  exact exNode_idWf
-- its logical value on a Redis 7 target …
example : exStream.xval { tgtMajor := 7 } =
    { entries := [⟨b!"1-1", [[97],[49],[98],[50]]⟩, ⟨b!"1-2", [[99],[51]]⟩, ⟨b!"1-4", [[97],[52],[98],[53]]⟩],
      lastId := b!"1-4", entriesAdded := some b!"4", maxDeleted := some b!"1-3",
      groups := [⟨[103], b!"1-2", some b!"2",
        [⟨b!"1-1", [97], b!"1000", b!"2"⟩, ⟨b!"1-2", [98], b!"1001", b!"1"⟩], [[97], [98], [99]]⟩] } := by decide +kernel
-- (the pending id 1-3 of the deleted entry, and with it consumer "d", cannot be recreated by commands;
--  the idle consumer "c" is created by XGROUP CREATECONSUMER on a 6.2+ target: repair of C03-F1, session 5)
-- … and on a Redis 6 target (no counters); the consumers that are recreated
example : (exStream.xval { tgtMajor := 6 }).entriesAdded = none ∧
    ((exStream.xval { tgtMajor := 6 }).groups.map (·.entriesRead)) = [none] := by decide +kernel
example : exStream.groups.map (SGroupE.consumersX exStream) = [[[97], [98]]] ∧
    exStream.groups.map (SGroupE.consumersIdeal { tgtMajor := 6 } exStream) = [[[97], [98]]] ∧
    exStream.groups.map (SGroupE.consumersIdeal { tgtMajor := 6, tgtMinor := 2 } exStream) = [[[97], [98], [99]]] := by
  decide +kernel
example : ∀ g ∈ exStream.groups, g.pelPartition := by
  intro g hg
  simp only [exStream, List.mem_singleton] at hg
  subst hg
  exact ⟨by decide, by decide⟩
-- the expansion: 3 XADD, XSETID, XGROUP CREATE, XCLAIM (a), XCLAIM (b), XGROUP CREATECONSUMER (c; nothing for it on a
-- target older than 6.2), XCLAIM (d: ignored by the target)
example : (exStream.cmds { tgtMajor := 7 } [115]).map (·.name) =
    [b!"XADD", b!"XADD", b!"XADD", b!"XSETID", b!"XGROUP", b!"XCLAIM", b!"XCLAIM", b!"XGROUP", b!"XCLAIM"] ∧
    (exStream.cmds { tgtMajor := 6, tgtMinor := 0 } [115]).map (·.name) =
    [b!"XADD", b!"XADD", b!"XADD", b!"XSETID", b!"XGROUP", b!"XCLAIM", b!"XCLAIM", b!"XCLAIM"] := by
  decide +kernel
example : exStream.rtype = 21 := by decide
example : execStream { tgtMajor := 7 } exStream.rtype [115] exStream.ser = some (exStream.cmds { tgtMajor := 7 } [115]) ∧
    applyCmds [] (exStream.cmds { tgtMajor := 7 } [115]) = some [([115], .stream (exStream.xval { tgtMajor := 7 }), 0)] := by
  have := stream_roundtrip { tgtMajor := 7 } [115] exStream [] [] exStream_wf exStream_sound rfl
  simpa using this
-- an empty stream (all entries deleted) with a group: the MAXLEN 0 trick
def exEmptyStream : StreamE :=
  { ver := 1, nodes := [], length := 0, lastMs := 9, lastSeq := 0,
    groups := [{ name := SE.plain [103], lastMs := 9, lastSeq := 0, entriesRead := 0, pel := [], consumers := [] }] }
example : exEmptyStream.wf ∧ exEmptyStream.sound := by
  refine ⟨by decide, by decide, by decide, by decide, ?_, by decide, by decide, ?_, by decide, by decide,
    by unfold SIdmpE.sizes; decide, by unfold StreamE.counters; decide⟩
  · intro n hn; cases hn
  · intro n hn; cases hn
example : (exEmptyStream.cmds { tgtMajor := 7 } [115]).map (·.name) = [b!"XADD", b!"XSETID", b!"XGROUP"] := by decide
-- a module aux item is skipped, a module value travels by RESTORE, the stream (payload above
-- MaxProtoBulkLen = 30) is expanded: full_sync_streams on such a file
def exFileS : FileE :=
  { version := 11,
    items := [.moduleAux 5 [.uint 7, .str (SE.plain [1, 2])], .selectDb .b6 3,
              .key { exp := .ms 9000, key := SE.plain [120], obj := .stream exStream },
              .key { key := SE.plain [109], obj := .module2 9 [.str (SE.plain [1])] }] }
def exCfgS : RCfg := { x := { tgtMajor := 8 }, now := 5000, maxBulk := 30 }
theorem exFileS_wf : exFileS.wf := by decide +kernel
theorem exFileS_carried : ∀ i ∈ exFileS.items, i.carriedS { failModAux := false } exCfgS := by
  intro i hi
  simp only [exFileS, List.mem_cons, List.mem_nil_iff, or_false] at hi
  rcases hi with rfl | rfl | rfl | rfl
  · rfl
  · trivial
  · exact exStream_sound
  · show viaRestore exCfgS _
    unfold viaRestore; decide
example : ¬ viaRestore exCfgS (.stream exStream) := by unfold viaRestore; decide +kernel
example : ∃ log T, sendRdb { failModAux := false } exCfgS [] (rdbFile exFileS) = ([log], true) ∧
    applyReqs {} log = some T ∧
    ∀ D, Pointwise (HoldsS exCfgS) (expectedKeys exCfgS D exFileS.keys) (T.dbs D) :=
  full_sync_streams { failModAux := false } exCfgS exFileS exFileS_wf (by decide) exFileS_carried rfl rfl rfl
    (fun _ _ _ => by simp [typeLoadable, exCfgS]) (fun n _ => by simp [mapDb, exCfgS]) (by decide)
-- … and with three workers
example : ∃ logs sched M, sendRdb { failModAux := false } { exCfgS with parallel := 3 } [] (rdbFile exFileS) = (logs, true) ∧
    logs.length = 3 ∧ (∀ j, j < 3 → (sched.filter (fun p => p.1 == j)).map (·.2) = logs.getD j []) ∧
    applySched {} sched = some M ∧
    ∀ D, Pointwise (HoldsS { exCfgS with parallel := 3 }) (expectedKeys { exCfgS with parallel := 3 } D exFileS.keys) (M.dbs D) :=
  fanout_parallel_streams { failModAux := false } { exCfgS with parallel := 3 } exFileS exFileS_wf (by decide)
    (fun i hi => exFileS_carried i hi) rfl rfl
    (fun _ _ _ => by simp [typeLoadable, exCfgS]) (fun n _ => by simp [mapDb, exCfgS]) (by decide) 3 (by decide) rfl
-- the Bad-data-format fall-back: the listpack sorted set `exZset` (type 17) into a Redis 6 target
def exEntryZ : Entry := { db := 0, key := [122], type := 17, expireAt := 6000, obj := pobjOf [122] exZset }
example : applyCmdsV 6 [] (replayEntry { x := { tgtMajor := 6 }, now := 5000 } 0 [] exEntryZ).1 =
    some [([122], exZset.value, 1000)] := by
  have := (restore_fallback_path { x := { tgtMajor := 6 }, now := 5000 } 0 [] exEntryZ [122] exZset [] rfl rfl
    (Or.inl (by decide)) (by unfold viaRestore; decide) (by decide) rfl rfl rfl).2.2
  simpa [ObjE.valueS, exZset, ttlOf, exEntryZ] using this
-- … the stream branch: the type-21 stream `exStream` into a Redis 6.2 target, next to another key
def exEntryS : Entry := { db := 0, key := [115], type := 21, expireAt := 0, obj := pobjOf [115] (.stream exStream) }
def exCfg6 : RCfg := { x := { tgtMajor := 6, tgtMinor := 2 }, now := 5000 }
example : applyCmdsV exCfg6.x.tgtMajor [([111], .str [1], 0)] (replayEntry exCfg6 0 [] exEntryS).1 =
    some [([111], .str [1], 0), ([115], .stream (exStream.xval exCfg6.x), 0)] := by
  have := (restore_fallback_path exCfg6 0 [] exEntryS [115] (.stream exStream) [([111], .str [1], 0)] rfl rfl
    (Or.inr ⟨exStream, rfl, exStream_wf, exStream_sound⟩) (by unfold viaRestore; decide +kernel) (by decide) rfl rfl rfl).2.2
  simpa [ObjE.valueS, ttlOf, exEntryS] using this
-- stream_roundtrip with a non-empty keyspace
example : applyCmds [([111], .str [1], 7)] (exStream.cmds { tgtMajor := 7 } [115]) =
    some [([111], .str [1], 7), ([115], .stream (exStream.xval { tgtMajor := 7 }), 0)] :=
  (stream_roundtrip { tgtMajor := 7 } [115] exStream [] [([111], .str [1], 7)] exStream_wf exStream_sound rfl).2
-- expand_path_existing: `exStream` onto a key that holds ANOTHER stream (last id 9-9, a group) with a TTL
def exOldGroup : XGroup := ⟨[103], b!"9-9", none, [⟨b!"9-9", [122], b!"1", b!"1"⟩], [[122]]⟩
def exOldStream : Val := .stream { entries := [⟨b!"9-9", [[111], [108]]⟩], lastId := b!"9-9", groups := [exOldGroup] }
example : applyCmds [([115], exOldStream, 77)]
      (replayEntry { enableRestore := false, now := 5000 } 0 [(0, [115])] { exEntryS with expireAt := 6000 }).1 =
    some [([115], .stream (exStream.xval { tgtMajor := 7 }), 1000)] := by
  have := (expand_path_existing { enableRestore := false, now := 5000 } 0 [(0, [115])] { exEntryS with expireAt := 6000 }
    [115] (.stream exStream) [([115], exOldStream, 77)] rfl rfl
    (Or.inr ⟨exStream, rfl, exStream_wf, exStream_sound⟩) (by unfold viaRestore; decide) rfl (by decide)).2.2
  simpa [ObjE.valueS, ttlOf, exEntryS, del] using this

end GunYu.Props.C03
