/-
  C03 — session 5 additions (property theorems; helper lemmas in Proofs/Rdb/*.lean).

  * zipmaps (RDB type 9) of ANY item length below 2^32 and ANY number of pairs
    (`zipmap_roundtrip`, `zipmap_expand_roundtrip`) — was bounded to < 254 pairs of
    < 253 bytes; the lifted model found two defects of the reader (/repo 5c537f6).
  * module values of version 1 (RDB type 6) are REFUSED by the parser, as a theorem
    about the parser model (`module_v1_refused`, `module_v1_ends_parse`).
-/
import GunYu.Props.C03
import GunYu.Proofs.Rdb.StreamKey

namespace GunYu.Props.C03
open GunYu GunYu.Rdb GunYu.RedisSem

/-! ## zipmap, unbounded -/

/-- A zipmap blob as zipmap.c lays it out — `<zmlen>` exact below 254 pairs, 254 above; item
    lengths in one byte up to 253, `254` + 4 bytes little endian above; `free` slack bytes
    behind a value — decodes to its field/value pairs, for EVERY number of pairs and every
    item length below 2^32. -/
theorem zipmap_roundtrip (items : List (Bytes × Bytes × Nat))
    (h : ∀ i ∈ items, i.1.length < 2 ^ 32 ∧ i.2.1.length < 2 ^ 32 ∧ i.2.2 < 256) :
    zipmapAll (zipmapBlob items) = some (items.map (fun i => (i.1, i.2.1))) :=
  zipmapAll_blob items h

/-- the same through the whole expansion: a type-9 hash (blob saved raw or LZF-compressed)
    replayed into an empty key rebuilds the hash — an instance of `expand_roundtrip` whose
    well-formedness no longer bounds the map -/
theorem zipmap_expand_roundtrip (x : XCfg) (k : Bytes) (w : SE) (items : List (Bytes × Bytes × Nat))
    (hw : w.wf) (hv : w.val = zipmapBlob items)
    (h : ∀ i ∈ items, i.1.length < 2 ^ 32 ∧ i.2.1.length < 2 ^ 32 ∧ i.2.2 < 256)
    (hne : (ObjE.hashZipmap w items).nonempty) (hd : (ObjE.hashZipmap w items).members.Nodup) :
    ∃ cmds, execCmd x (pobjOf k (.hashZipmap w items)) = some cmds ∧
      applyCmds [] cmds = some [(k, (ObjE.hashZipmap w items).value, 0)] :=
  expand_roundtrip x k (.hashZipmap w items) ⟨hw, hv, h⟩ (by simp [ObjE.kind]) hne hd

/-- non-vacuity: a value of 254 bytes (five-byte length form) and a field of 253 bytes (the
    largest one-byte form), evaluated -/
example :
    zipmapAll (zipmapBlob [(List.replicate 253 97, List.replicate 254 98, 2), ([99], [], 0)]) =
      some [(List.replicate 253 97, List.replicate 254 98), ([99], [])] := by
  apply zipmap_roundtrip
  intro i hi
  simp only [List.mem_cons, List.not_mem_nil, or_false] at hi
  rcases hi with rfl | rfl
  · refine ⟨?_, ?_, by decide⟩ <;> (show (List.replicate _ _).length < _; rw [List.length_replicate]; omega)
  · exact ⟨by decide, by decide, by decide⟩

/-- non-vacuity of the counting path: 254 pairs (`<zmlen>` = 254) -/
example : (zipmapAll (zipmapBlob ((List.range 254).map (fun i => ([UInt8.ofNat i], [7], 0))))).map List.length
    = some 254 := by
  rw [zipmap_roundtrip]
  · simp
  · intro i hi
    simp only [List.mem_map] at hi
    obtain ⟨n, _, rfl⟩ := hi
    simp

/-! ## sorted sets of the old format (type 3): every decimal score text -/

/-- A score as `rdbSaveDoubleValue` (Redis < 4.0) writes it — the markers 253 / 254 / 255, or a
    length byte and a text of at most 252 bytes that strconv.ParseFloat accepts (`parseF64`: any
    decimal text `[+-]digits[.digits][e[+-]digits]` with a finite value, correctly rounded to the
    nearest binary64, ties to even; `inf` / `infinity` / `nan`) — is read back by `ReadFloat` to
    exactly the bit pattern the description denotes. Was: integers below 2^53, inf, nan only. What
    is trusted of strconv is stated in Model/Rdb/Float.lean. -/
theorem zset_v1_score_roundtrip (sc : Score1) (h : sc.wf) : floatStrBits sc.enc = some sc.bits :=
  floatStrBits_enc sc h

/-- a whole type-3 sorted set with arbitrary decimal scores expands to the ZADDs of its members
    with those scores (instance of `expand_roundtrip`) -/
theorem zset_v1_expand_roundtrip (x : XCfg) (k : Bytes) (f : LenForm) (items : List (SE × Score1))
    (hwf : (ObjE.zset1 f items).wf) (hne : (ObjE.zset1 f items).nonempty) (hd : (ObjE.zset1 f items).members.Nodup) :
    ∃ cmds, execCmd x (pobjOf k (.zset1 f items)) = some cmds ∧
      applyCmds [] cmds = some [(k, (ObjE.zset1 f items).value, 0)] :=
  expand_roundtrip x k (.zset1 f items) hwf (by simp [ObjE.kind]) hne hd

/-- non-vacuity, evaluated by the kernel: `%.17g` of 0.1 and of 3.14, the smallest subnormal, a tie
    (2^53 + 1 rounds to even), the largest finite double; overflow is refused -/
example : parseF64 b!"0.10000000000000001" = some 0x3FB999999999999A := by decide
example : parseF64 b!"-3.1400000000000001" = some 0xC0091EB851EB851F := by decide
set_option exponentiation.threshold 2000 in
example : parseF64 b!"4.9406564584124654e-324" = some 1 := by decide +kernel
example : parseF64 b!"9007199254740993" = some 0x4340000000000000 := by decide
set_option exponentiation.threshold 2000 in
example : parseF64 b!"1.7976931348623157e+308" = some 0x7FEFFFFFFFFFFFFF := by decide +kernel
set_option exponentiation.threshold 2000 in
example : parseF64 b!"1.7976931348623159e+308" = none := by decide +kernel
example : (Score1.ascii b!"2.5e-3").wf ∧ (Score1.ascii b!"2.5e-3").bits = 0x3F647AE147AE147B := by decide

/-! ## module values of version 1 (type 6) are refused -/

/-- `ReadBuffer` has no branch for type 6: `NewParser` builds a ModuleParser, its
    `ReadBuffer` panics with "does not support module type 1" -/
theorem skipValue_module_v1 (bs : Bytes) : skipValue 6 bs = none := by
  unfold skipValue
  simp (decide := true)

theorem readBuffer_module_v1 (cfg : DCfg) (ls : LState) (bs : Bytes) : readBuffer cfg ls 6 bs = none := by
  unfold readBuffer
  have ho : otypeOf 6 = some .module := by decide
  simp only [ho, show ((6 : UInt8) = 4) = False by decide, if_false, skipValue_module_v1]
  split <;> rfl

/-- **`Loader.Next` positioned at a key item whose value is a version-1 module value fails**
    (whatever bytes follow the type byte), for every expiry / idle / freq prefix -/
theorem module_v1_refused (cfg : DCfg) (ls : LState) (k : KeyE) (rest : Bytes)
    (hls : ls.total - ls.read = 0) (hwf : k.wf) (h6 : k.obj.rtype = 6) :
    next cfg ls (k.enc ++ rest) = none := by
  obtain ⟨fuel, hn⟩ := next_at_key cfg ls k rest hls hwf
  rw [hn, h6]
  have hc : ¬ (ls.total - ls.read ≠ 0) := by omega
  obtain ⟨n1, n2, n3, n4, n5, n6, n7, n8, n9, n10, n11⟩ := not_opcode 6 (by decide)
  simp only [nextLoop, hc, if_false, n1, n2, n3, n4, n5, n6, n7, n8, n9, n10, n11, readBuffer_module_v1]

/-- … and the parse ends there with an error: no entry for that key, none for any later key,
    `Done` is not reached (the sync fails; by design — the tool cannot re-create a module value
    of the old format) -/
theorem module_v1_ends_parse (cfg : DCfg) (whole : Bytes) (fuel : Nat) (ls : LState) (k : KeyE) (rest : Bytes)
    (hls : ls.total - ls.read = 0) (hwf : k.wf) (h6 : k.obj.rtype = 6) :
    parseLoop cfg whole (fuel + 1) ls (k.enc ++ rest) = ([], false) := by
  simp only [parseLoop, module_v1_refused cfg ls k rest hls hwf h6]

/-- non-vacuity: a key with expiry whose value is declared type 6 -/
example : next {} {} (({ exp := .ms 5, key := .raw .b6 [107], obj := .raw 6 [1, 2, 3] } : KeyE).enc ++ [0xFF]) = none :=
  module_v1_refused {} {} _ _ rfl (by decide) rfl

/-! ## every command of a stream expansion names the key (for C20's existing-key theorems) -/

/-- Whatever buffer `StreamParser.ExecCmd` runs on (no well-formedness), each command it emits is
    XADD / XSETID / XGROUP / XCLAIM AND carries the entry's key at its key position (first argument;
    second for `XGROUP CREATE key …`). This is the premise C20's `Value` (every expanded command is a
    command on the key: probe + DEL + expansion + PEXPIRE onto an EXISTING key, policies replace /
    ignore / error) needs of a stream entry: Props/C20StreamS5.lean proves C20's `loader_stream_stmt`
    from it, so the existing-key branch for streams is C20's whole-run theorems applied to C03's
    loader model - imported, not restated. -/
theorem stream_cmds_name_key (x : XCfg) (p : PObj) (hot : otypeOf p.rtype = some .stream) :
    ∀ c ∈ (execCmd x p).getD [], streamOnKey p.key c := by
  intro c hc
  unfold execCmd at hc
  rw [hot] at hc
  simp only at hc
  cases h : execStream x p.rtype p.key p.buf with
  | none => simp [h] at hc
  | some cs =>
    simp only [h, Option.getD_some] at hc
    exact execStream_onKey x p.rtype p.key p.buf cs h c hc

/-- non-vacuity: the example stream's expansion (XADD, XSETID, XGROUP CREATE, XCLAIM) under key "s" -/
example : ((execCmd {} (pobjOf [115] (.stream exStream))).getD []).length ≠ 0 ∧
    ∀ c ∈ (execCmd {} (pobjOf [115] (.stream exStream))).getD [], streamOnKey [115] c :=
  ⟨by decide, stream_cmds_name_key {} _ (by decide)⟩

end GunYu.Props.C03
