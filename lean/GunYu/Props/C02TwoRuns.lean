/-
  C02, THE TWO RUNS AS ONE THEOREM. `Props/C02.lean` proves, per run, what a
  stored position covers, and, at the parser level, what a resumed parser does.
  Here the halves are joined across the crash:

    source stream `raws` --parser--> items --sender loop (any schedule)--> wire
      --target, dies after ANY number `k` of requests--> crashed target
      --StartPoint--> (position `o`, database `d`) --fresh parser on the rest of
      the stream, sender loop (any schedule), new connection--> target

  `crash_cut`: the commands the crashed target executed before the last position
  write are EXACTLY the forwarded commands of the source commands ending at or
  before `o`; what it executed after that write is a prefix of the forwarded
  commands of the rest; and `o` is a safe place to cut (parser outside every
  filtered database).
  `crash_then_resume`: hence the crashed target has executed `S1 ++ X`, and the
  resumed run executes a prefix of `S2` (all of it once it is done, ticker mode),
  where `S1 ++ S2` is the one-pass specification `specStream` of the whole stream
  and `X` is a prefix of `S2` -- NO WRITE IS LOST; `X` is what may be repeated.
  `crash_then_resume_txn`: in transactional resumable mode `X = []` -- NOTHING IS
  REPEATED: the two runs together execute exactly the specification.
-/
import GunYu.Props.C01
import GunYu.Props.C02
import GunYu.Proofs.TwoRuns

namespace GunYu.Props.C02
open GunYu GunYu.Sender GunYu.Target

theorem cut_of_noDone (evs : List Ev) (h : C01.NoDone evs) : cut evs = evs := by
  induction evs with
  | nil => rfl
  | cons ev rest ih =>
    have hne : ev ≠ .done := h ev (List.mem_cons_self ..)
    simp only [cut, hne, ↓reduceIte]
    rw [ih (fun e he => h e (List.mem_cons_of_mem _ he))]

theorem dataBO_key {l : List Req} {x : CmdO} (h : x ∈ dataBO l) : 2 * x.2.2 ∈ keysB l := by
  unfold dataBO at h
  obtain ⟨r, hr, hx⟩ := List.mem_filterMap.mp h
  unfold keysB
  refine List.mem_filterMap.mpr ⟨r, hr, ?_⟩
  cases r with
  | cmd n a off =>
    simp only [cmdOfReqO] at hx
    simp only [keyOfReq]
    split at hx
    · cases hx
    · rename_i hp; injection hx with hx; rw [← hx]; simp [hp]
  | cpOffset o => cases hx
  | multi => cases hx
  | exec => cases hx
  | cpMeta => cases hx

theorem dataBO_cons_cp (o : Int) (l : List Req) : dataBO (Req.cpOffset o :: l) = dataBO l := by
  unfold dataBO; rw [List.filterMap_cons]; rfl

/-- **What a crashed target has executed, relative to the position it stored.**
    Any configuration, any source stream, any schedule; the target has executed the
    request prefix `E = E1 ++ [<rid>_offset o] ++ E2` of the wire. Split the SOURCE
    stream at `o` (`A`: commands ending at or before `o`, `B`: after). Then the
    commands executed before the position write are exactly the forwarded commands
    of `A`, those executed after it are a prefix of the forwarded commands of `B`,
    and the parser is outside every filtered database after `A`. -/
theorem crash_cut (pc : PCfg) (sc : SCfg) (raws : List Raw) (start0 : Int) (evs : List Ev)
    (hitems : itemsOf evs = parseAll pc { lastSent := start0 } raws)
    (hraw : (raws.map (·.off)).Pairwise (· < ·)) (hlo : ∀ r ∈ raws, start0 < r.off)
    (hstart : 0 ≤ start0) (hnd : C01.NoDone evs)
    (hnn : ItemsNoNested false (parseAll pc { lastSent := start0 } raws))
    (hnf : parseFails pc { lastSent := start0 } raws = false)
    (E E1 E2 : List Req) (o : Int) (hE : E <+: bodies (run sc initS evs).2)
    (hsplit : E = E1 ++ Req.cpOffset o :: E2) :
    raws = raws.filter (fun r => decide (r.off ≤ o)) ++ raws.filter (fun r => decide (o < r.off)) ∧
    parseFails pc { lastSent := start0 } (raws.filter (fun r => decide (r.off ≤ o))) = false ∧
    (parseState pc { lastSent := start0 } (raws.filter (fun r => decide (r.off ≤ o)))).bypass = false ∧
    dataBO E1 = itemCmdsO (parseAll pc { lastSent := start0 } (raws.filter (fun r => decide (r.off ≤ o)))) ∧
    dataBO E2 <+: itemCmdsO (parseAll pc
      (parseState pc { lastSent := start0 } (raws.filter (fun r => decide (r.off ≤ o))))
      (raws.filter (fun r => decide (o < r.off)))) := by
  have hAB := sorted_split raws o hraw
  generalize hA : raws.filter (fun r => decide (r.off ≤ o)) = A at hAB ⊢
  generalize hB : raws.filter (fun r => decide (o < r.off)) = B at hAB ⊢
  have hAle : ∀ r ∈ A, r.off ≤ o := by
    intro r hr; rw [← hA] at hr; simpa using (List.mem_filter.mp hr).2
  have hBgt : ∀ r ∈ B, o < r.off := by
    intro r hr; rw [← hB] at hr; simpa using (List.mem_filter.mp hr).2
  have hnfA : parseFails pc { lastSent := start0 } A = false := by
    rw [hAB] at hnf; exact parseFails_append_left pc _ A B hnf
  have hwf := run_wf sc initS evs
  have hm : SMono initS.txn initS.lastOffset evs :=
    parser_feeds_smono pc raws start0 evs hitems hraw hlo hstart
  obtain ⟨R, hR⟩ := hE
  -- the position is on the wire
  have hocp : o ∈ cpOffsets (run sc initS evs).2 := by
    rw [← cpOffsetsB_bodies _ hwf, ← hR, hsplit, cpOffsetsB_append, cpOffsetsB_append]
    apply List.mem_append_left; apply List.mem_append_right
    simp [cpOffsetsB, cpOfReq]
  -- 1. the cut is safe
  have hbyp : (parseState pc { lastSent := start0 } A).bypass = false := by
    rcases run_cp_origin sc initS evs o hocp with ⟨he, hp⟩ | ⟨i, hi, he⟩
    · simp only [initS] at he; omega
    · rw [hitems] at hi
      rcases offset_cut_unbypassed pc raws { lastSent := start0 } hraw hlo i hi with h | ⟨pre, r, post, hr, hro, _, hb⟩
      · -- the position is the start offset: nothing of the stream lies before it
        have : A = [] := by
          rw [← hA]
          apply List.filter_eq_nil_iff.mpr
          intro x hx
          have := hlo x hx
          simp only at h
          simp only [decide_eq_true_eq]; omega
        rw [this]; rfl
      · -- the position is the end of `r`: A = pre ++ [r]
        have hsorted := hraw
        rw [hr, show pre ++ r :: post = (pre ++ [r]) ++ post by simp, List.map_append,
          List.pairwise_append] at hsorted
        have h1 : ∀ x ∈ pre ++ [r], x.off ≤ o := by
          intro x hx
          rcases List.mem_append.mp hx with hx' | hx'
          · have hs := hsorted.1
            rw [List.map_append, List.pairwise_append] at hs
            have := hs.2.2 _ (List.mem_map.mpr ⟨x, hx', rfl⟩) r.off (by simp)
            omega
          · simp only [List.mem_singleton] at hx'; subst hx'; omega
        have h2 : ∀ x ∈ post, ¬ x.off ≤ o := by
          intro x hx
          have := hsorted.2.2 r.off (List.mem_map.mpr ⟨r, by simp, rfl⟩) _ (List.mem_map.mpr ⟨x, hx, rfl⟩)
          omega
        have heq : A ++ B = (pre ++ [r]) ++ post := by rw [← hAB, hr]; simp
        have := (split_unique (fun x : Raw => x.off ≤ o) heq hAle
          (fun x hx => by have := hBgt x hx; omega) h1 h2).1
        rw [this]; exact hb
  -- 2. conservation with offsets: wire ++ queue = the forwarded commands of A, then of B
  have hcons := run_dataO sc initS evs
  have hq0 : qdO initS = [] := rfl
  have ht0 : initS.txn = Txn.no := rfl
  rw [hq0, List.nil_append, ht0, ← cut_of_noDone evs hnd, fwdO_cut_items, cut_of_noDone evs hnd,
    hitems, fwdItemsO_eq Txn.no _ hnn, ← dataBO_bodies _ hwf, ← hR, hsplit] at hcons
  rw [hAB, parseAll_append pc _ A B hnfA, itemCmdsO_append] at hcons
  simp only [dataBO_append, dataBO_cons_cp, List.append_assoc] at hcons
  -- keys are ordered
  have hsorted := wire_ordered sc evs hm
  rw [← keys_bodies _ hwf, ← hR, hsplit] at hsorted
  simp only [keysB_append, List.append_assoc] at hsorted
  have hkcp : keysB (Req.cpOffset o :: E2) = (2 * o + 1) :: keysB E2 := by
    rw [keysB_cons]; simp [keyOfReq]
  rw [hkcp] at hsorted
  have hs1 := (List.pairwise_append.mp hsorted)
  have hs2 := List.pairwise_cons.mp hs1.2.1
  have hsplit' := split_unique (fun x : CmdO => x.2.2 ≤ o) hcons
    (by
      intro x hx
      have := hs1.2.2 _ (dataBO_key hx) (2 * o + 1) (List.mem_cons_self ..)
      omega)
    (by
      intro x hx
      rcases List.mem_append.mp hx with h | h
      · have := hs2.1 _ (List.mem_append_left _ (dataBO_key h)); omega
      · rcases List.mem_append.mp h with h | h
        · have := hs2.1 _ (List.mem_append_right _ (dataBO_key h)); omega
        · obtain ⟨i, hi, hio⟩ := qdO_mem_offset h
          have := pending_not_covered sc evs hm o hocp i hi
          omega)
    (by
      intro x hx
      obtain ⟨r, hr, hxr⟩ := itemCmdsO_own pc _ A x hx
      have := hAle r hr; omega)
    (by
      intro x hx
      obtain ⟨r, hr, hxr⟩ := itemCmdsO_own pc _ B x hx
      have := hBgt r hr; omega)
  exact ⟨hAB, hnfA, hbyp, hsplit'.1, ⟨_, hsplit'.2⟩⟩

/-! ### The resumed run on the target (C01's end-to-end chain for `parserItems`) -/

theorem itemsNoNested_parserItems (pc : PCfg) (start : Int) (raws : List Raw)
    (h : ItemsNoNested false (parseAll pc { lastSent := start } raws)) :
    ItemsNoNested false (parserItems pc start raws) := by
  unfold parserItems
  split
  · have h1 : bSelect ≠ bMulti := by decide
    have h2 : bSelect ≠ bExec := by decide
    simpa [ItemsNoNested, selectItem, h1, h2] using h
  · simpa using h

/-- resumed run, any mode, any moment: what the target has executed since the
    restart is a prefix of what the resumed parser's items execute -/
theorem resumed_executed_prefix (pc : PCfg) (sc : SCfg) (raws : List Raw) (evs : List Ev) (start : Int)
    (hitems : itemsOf evs = parserItems pc start raws) (hnd : C01.NoDone evs)
    (hnn : ItemsNoNested false (parseAll pc { lastSent := start } raws))
    (t : TState) (hq : t.queued = none) :
    ∃ rest, t.applied ++ (seqApplied t.cur (itemCmds (parserItems pc start raws))).2 =
      (applyLog t (run sc initS evs).2.flatten).applied ++ rest := by
  have h1 := (C01.executed_in_order sc evs t hq).2
  obtain ⟨pend, hp⟩ := C01.wire_prefix sc evs
  have hnn' : C01.NoNested (inT .no) evs :=
    C01.noNested_of_items _ evs (by rw [hitems]; exact itemsNoNested_parserItems pc start raws hnn)
  rw [h1, ← hitems, ← C01.plainItems_eq_itemCmds, ← C01.fwd_eq_plainItems .no evs hnd hnn', ← hp,
    seqApplied_append]
  exact ⟨(seqApplied (seqApplied t.cur (dataOut (run sc initS evs).2)).1 pend).2,
    by simp [List.append_assoc]⟩

/-- resumed run, ticker mode, finished: the target has executed exactly what the
    resumed parser's items execute -/
theorem resumed_executed_all (pc : PCfg) (sc : SCfg) (hsc : sc.txnMode = false)
    (raws : List Raw) (evs : List Ev) (start : Int)
    (hitems : itemsOf evs = parserItems pc start raws) (hnd : C01.NoDone evs)
    (hnn : ItemsNoNested false (parseAll pc { lastSent := start } raws))
    (t : TState) (hq : t.queued = none) :
    (applyLog t (run sc initS (evs ++ [.done])).2.flatten).applied =
      t.applied ++ (seqApplied t.cur (itemCmds (parserItems pc start raws))).2 := by
  have h1 := (C01.executed_in_order sc (evs ++ [.done]) t hq).2
  have hnn' : C01.NoNested (inT .no) evs :=
    C01.noNested_of_items _ evs (by rw [hitems]; exact itemsNoNested_parserItems pc start raws hnn)
  rw [h1, C01.done_flushes_all sc hsc evs hnd, C01.fwd_append_done _ _ hnd,
    C01.fwd_eq_plainItems .no evs hnd hnn', C01.plainItems_eq_itemCmds, hitems]

theorem seqApplied_prefix (cur : Int) {x y : List Cmd} (h : x <+: y) :
    (seqApplied cur x).2 <+: (seqApplied cur y).2 := by
  obtain ⟨z, rfl⟩ := h
  rw [seqApplied_append]
  exact List.prefix_append _ _

theorem dataB_cons_cp (o : Int) (l : List Req) : dataB (Req.cpOffset o :: l) = dataB l := by
  unfold dataB; rw [List.filterMap_cons]; rfl

/-- **A crash at any instant loses no source write, and the restart completes the
    stream -- the two runs as one theorem.**

    RUN 1: any filter/mapping configuration `pc`, any batching configuration `sc1`
    (either mode), any source stream `raws` above the start offset, any schedule
    `evs1` of the parser's items and ticks; the target (no position stored yet, new
    connection) dies after ANY number `k` of requests, having executed the wire
    prefix `E` whose last position write is `<rid>_offset o` (`E = E1 ++ [o] ++ E2`).
    Let `A`/`B` be the source commands ending at or before / after `o`, let the
    configuration's `startDbId` be the database the connection was in at that write.
    Then, with `S1` = what the parser's items for `A` execute and `S2` = what a FRESH
    parser started at `(o, startDbId)` on `B` executes (`parserItems`):

     1. `(startDbId, o)` is what `StartPoint` finds: the unique largest offset;
     2. `S1 ++ S2` is the one-pass specification `specStream` of the whole stream;
     3. the crashed target has executed `S1 ++ X` with `X` a prefix of `S2`: every
        write up to the stored position is there, in order, in its database --
        NOTHING IS LOST; `X` (executed but not covered) is what may be repeated;

    RUN 2, any batching configuration `sc2`, any schedule `evs2` of the resumed
    parser's items on the crashed target with a new connection:

     4. at any moment it has executed a prefix of `S2` (nothing beyond, nothing out
        of order), and
     5. in ticker mode, once done, exactly `S2`: the target then holds
        `S1 ++ X ++ S2` -- the whole specification, with only `X` twice. -/
theorem crash_then_resume (pc : PCfg) (sc1 : SCfg) (raws : List Raw) (start0 : Int) (evs1 : List Ev)
    (hitems : itemsOf evs1 = parseAll pc { lastSent := start0 } raws)
    (hraw : (raws.map (·.off)).Pairwise (· < ·)) (hlo : ∀ r ∈ raws, start0 < r.off)
    (hstart : 0 ≤ start0) (hnd : C01.NoDone evs1)
    (hnn : ItemsNoNested false (parseAll pc { lastSent := start0 } raws))
    (hnf : parseFails pc { lastSent := start0 } raws = false)
    (hsel : ∀ x ∈ raws, x.cmd = bSelect → ∀ a n, x.args = [a] → atoi? a = some n → 0 ≤ n)
    (hmap : ∀ n : Int, 0 ≤ n → mapDb pc n ≠ -1)
    (t : TState) (hcur : t.cur = 0) (hfresh : t.cps = []) (k : Nat)
    (E E1 E2 : List Req) (o : Int) (hE : E <+: bodies (run sc1 initS evs1).2)
    (hsame : SameData (applyLog t ((run sc1 initS evs1).2.flatten.take k)) (E.foldl execReq t))
    (hsplit : E = E1 ++ Req.cpOffset o :: E2) (hlast : cpOffsetsB E2 = [])
    (hd : pc.startDbId = (E1.foldl execReq t).cur) (hd0 : 0 ≤ pc.startDbId) :
    let T1 := applyLog t ((run sc1 initS evs1).2.flatten.take k)
    let A := raws.filter (fun r => decide (r.off ≤ o))
    let B := raws.filter (fun r => decide (o < r.off))
    let S1 := (seqApplied 0 (itemCmds (parseAll pc { lastSent := start0 } A))).2
    let S2 := (seqApplied 0 (itemCmds (parserItems pc o B))).2
    UniqueMax T1.cps pc.startDbId o ∧
    specStream pc false 0 raws = S1 ++ S2 ∧
    (∃ X, T1.applied = t.applied ++ S1 ++ X ∧ X <+: S2 ∧
      X = (seqApplied pc.startDbId (dataB E2)).2) ∧
    (∀ (sc2 : SCfg) (evs2 : List Ev), itemsOf evs2 = parserItems pc o B → C01.NoDone evs2 →
      ItemsNoNested false (parseAll pc { lastSent := o } B) →
      (∃ rest, T1.applied ++ S2 = (applyLog (crash T1) (run sc2 initS evs2).2.flatten).applied ++ rest) ∧
      (sc2.txnMode = false →
        (applyLog (crash T1) (run sc2 initS (evs2 ++ [.done])).2.flatten).applied = T1.applied ++ S2)) := by
  simp only
  obtain ⟨hAB, hnfA, hbyp, hd1, hd2⟩ := crash_cut pc sc1 raws start0 evs1 hitems hraw hlo hstart hnd hnn hnf
    E E1 E2 o hE hsplit
  generalize hA : raws.filter (fun r => decide (r.off ≤ o)) = A at hAB hnfA hbyp hd1 hd2 ⊢
  generalize hB : raws.filter (fun r => decide (o < r.off)) = B at hAB hd2 ⊢
  have hwf := run_wf sc1 initS evs1
  have hm : SMono initS.txn initS.lastOffset evs1 :=
    parser_feeds_smono pc raws start0 evs1 hitems hraw hlo hstart
  -- the executed requests are plain
  have hplainE : ∀ r ∈ E, Plain r = true := fun r hr => bodies_plain _ hwf r (hE.subset hr)
  have hplain1 : ∀ r ∈ E1, Plain r = true := fun r hr => hplainE r (by rw [hsplit]; exact List.mem_append_left _ hr)
  -- data of E1 / E2 without offsets
  have hdb1 : dataB E1 = itemCmds (parseAll pc { lastSent := start0 } A) := by
    rw [← dataBO_proj, hd1, itemCmdsO_proj]
  have hdb2 : dataB E2 <+: itemCmds (parseAll pc (parseState pc { lastSent := start0 } A) B) := by
    rw [← dataBO_proj, ← itemCmdsO_proj]
    obtain ⟨z, hz⟩ := hd2
    exact ⟨z.map dropOff, by rw [← List.map_append, hz]⟩
  -- the database at the position write
  have hdb : pc.startDbId = (seqApplied 0 (itemCmds (parseAll pc { lastSent := start0 } A))).1 := by
    rw [hd, (foldl_execReq_seq E1 hplain1 t).1, hcur, hdb1]
  have hselAB : ∀ x ∈ A ++ B, x.cmd = bSelect → ∀ a n, x.args = [a] → atoi? a = some n → 0 ≤ n := by
    rw [← hAB]; exact hsel
  obtain ⟨hspec, hres⟩ := restart_completes_spec_gen pc { lastSent := start0 } 0 A B o hnfA hbyp
    (Or.inr rfl) hselAB hmap hdb hd0
  refine ⟨?_, ?_, ?_, ?_⟩
  · -- 1. what StartPoint finds
    have := crash_resume_db sc1 evs1 hm t hfresh k E hE hsame E1 E2 o hsplit hlast
    simp only at this
    rw [← hd] at this
    exact this
  · -- 2. the specification splits at the position
    have := hspec
    rw [← hAB] at this
    exact this
  · -- 3. what the crashed target has executed
    refine ⟨(seqApplied pc.startDbId (dataB E2)).2, ?_, ?_, rfl⟩
    · rw [hsame.1, (foldl_execReq_seq E hplainE t).2, hcur, hsplit]
      have : dataB (E1 ++ Req.cpOffset o :: E2) = dataB E1 ++ dataB E2 := by
        rw [dataB_append, dataB_cons_cp]
      rw [this, seqApplied_append, hdb1, ← hdb, List.append_assoc]
    · rw [← hres]
      exact seqApplied_prefix _ hdb2
  · -- 4./5. the resumed run
    intro sc2 evs2 hitems2 hnd2 hnn2
    have hq1 : (crash (applyLog t ((run sc1 initS evs1).2.flatten.take k))).queued = none := rfl
    constructor
    · have := resumed_executed_prefix pc sc2 B evs2 o hitems2 hnd2 hnn2 _ hq1
      simpa [crash] using this
    · intro hsc2
      have := resumed_executed_all pc sc2 hsc2 B evs2 o hitems2 hnd2 hnn2 _ hq1
      simpa [crash] using this

/-- **Transactional, resumable mode: the crash repeats nothing** -- the executed
    wire prefix can be chosen as whole MULTI/EXEC blocks, and then nothing the
    target executed lies after the last position write: `X = []` in
    `crash_then_resume`, the two runs together execute EXACTLY the specification.
    (The witness `E` of this theorem is the one to instantiate `crash_then_resume`
    with.) -/
theorem crash_then_resume_txn (pc : PCfg) (sc1 : SCfg) (htx : sc1.txnMode = true) (hres : sc1.resume = true)
    (raws : List Raw) (start0 : Int) (evs1 : List Ev)
    (hitems : itemsOf evs1 = parseAll pc { lastSent := start0 } raws)
    (hraw : (raws.map (·.off)).Pairwise (· < ·)) (hlo : ∀ r ∈ raws, start0 < r.off)
    (hstart : 0 ≤ start0) (hnneg : NonNeg evs1)
    (t : TState) (hq : t.queued = none) (k : Nat) :
    ∃ E, E <+: bodies (run sc1 initS evs1).2 ∧
      SameData (applyLog t ((run sc1 initS evs1).2.flatten.take k)) (E.foldl execReq t) ∧
      ∀ E1 o E2, E = E1 ++ Req.cpOffset o :: E2 → cpOffsetsB E2 = [] → dataB E2 = [] := by
  have hm : SMono initS.txn initS.lastOffset evs1 :=
    parser_feeds_smono pc raws start0 evs1 hitems hraw hlo hstart
  obtain ⟨E, hE, hsame, hcov⟩ := txn_crash_repeats_nothing_prefix sc1 htx hres evs1 hm hnneg t hq k
  refine ⟨E, hE, hsame, ?_⟩
  intro E1 o E2 hsplit hlast
  -- keys of E are ordered
  have hwf := run_wf sc1 initS evs1
  obtain ⟨R, hR⟩ := hE
  have hsorted := wire_ordered sc1 evs1 hm
  rw [← keys_bodies _ hwf, ← hR, hsplit] at hsorted
  simp only [keysB_append, List.append_assoc] at hsorted
  have hkcp : keysB (Req.cpOffset o :: E2) = (2 * o + 1) :: keysB E2 := by
    rw [keysB_cons]; simp [keyOfReq]
  rw [hkcp] at hsorted
  have hs1 := List.pairwise_append.mp hsorted
  have hs2 := List.pairwise_cons.mp hs1.2.1
  apply List.eq_nil_iff_forall_not_mem.mpr
  intro x hx
  -- x is a data command of E2: its key follows the position write ...
  unfold dataB at hx
  obtain ⟨r, hr, hxr⟩ := List.mem_filterMap.mp hx
  cases r with
  | cmd n a off =>
    simp only [cmdOfReq] at hxr
    split at hxr
    · cases hxr
    · rename_i hp
      have hkey : 2 * off ∈ keysB E2 := List.mem_filterMap.mpr ⟨_, hr, by simp [keyOfReq, hp]⟩
      have h1 := hs2.1 _ (List.mem_append_left _ hkey)
      -- ... but some executed position write covers it
      obtain ⟨o', ho', hle⟩ := hcov off (by
        rw [hsplit, keysB_append, hkcp]
        exact List.mem_append_right _ (List.mem_cons_of_mem _ hkey))
      rw [hsplit, cpOffsetsB_append] at ho'
      rcases List.mem_append.mp ho' with h | h
      · have hk' : 2 * o' + 1 ∈ keysB E1 := by
          unfold cpOffsetsB at h
          obtain ⟨r', hr', hro⟩ := List.mem_filterMap.mp h
          refine List.mem_filterMap.mpr ⟨r', hr', ?_⟩
          cases r' <;> simp_all [cpOfReq, keyOfReq]
        have := hs1.2.2 _ hk' (2 * o + 1) (List.mem_cons_self ..)
        omega
      · have : cpOffsetsB (Req.cpOffset o :: E2) = o :: cpOffsetsB E2 := by
          simp [cpOffsetsB, cpOfReq]
        rw [this, hlast] at h
        simp only [List.mem_singleton] at h
        omega
  | cpOffset o => cases hxr
  | multi => cases hxr
  | exec => cases hxr
  | cpMeta => cases hxr


/-- **Transactional, resumable first run: the two runs execute EXACTLY the
    specification.** For the whole-block witness `E` of `crash_then_resume_txn`:
    the crashed target holds exactly `S1` (every write up to the stored position,
    none after it), at any moment of the resumed run the target holds a prefix of
    the specification, and once the resumed run is done (ticker mode) it holds the
    specification of the whole stream -- nothing lost, nothing twice. -/
theorem crash_then_resume_txn_exact (pc : PCfg) (sc1 : SCfg) (htx : sc1.txnMode = true)
    (hres : sc1.resume = true) (raws : List Raw) (start0 : Int) (evs1 : List Ev)
    (hitems : itemsOf evs1 = parseAll pc { lastSent := start0 } raws)
    (hraw : (raws.map (·.off)).Pairwise (· < ·)) (hlo : ∀ r ∈ raws, start0 < r.off)
    (hstart : 0 ≤ start0) (hnd : C01.NoDone evs1) (hnneg : NonNeg evs1)
    (hnn : ItemsNoNested false (parseAll pc { lastSent := start0 } raws))
    (hnf : parseFails pc { lastSent := start0 } raws = false)
    (hsel : ∀ x ∈ raws, x.cmd = bSelect → ∀ a n, x.args = [a] → atoi? a = some n → 0 ≤ n)
    (hmap : ∀ n : Int, 0 ≤ n → mapDb pc n ≠ -1)
    (t : TState) (hq : t.queued = none) (hcur : t.cur = 0) (hfresh : t.cps = []) (k : Nat) :
    ∃ E, E <+: bodies (run sc1 initS evs1).2 ∧
      SameData (applyLog t ((run sc1 initS evs1).2.flatten.take k)) (E.foldl execReq t) ∧
      ∀ E1 o E2, E = E1 ++ Req.cpOffset o :: E2 → cpOffsetsB E2 = [] →
        pc.startDbId = (E1.foldl execReq t).cur → 0 ≤ pc.startDbId →
        let T1 := applyLog t ((run sc1 initS evs1).2.flatten.take k)
        let A := raws.filter (fun r => decide (r.off ≤ o))
        let B := raws.filter (fun r => decide (o < r.off))
        UniqueMax T1.cps pc.startDbId o ∧
        T1.applied = t.applied ++ (seqApplied 0 (itemCmds (parseAll pc { lastSent := start0 } A))).2 ∧
        (∀ (sc2 : SCfg) (evs2 : List Ev), itemsOf evs2 = parserItems pc o B → C01.NoDone evs2 →
          ItemsNoNested false (parseAll pc { lastSent := o } B) →
          (∃ rest, t.applied ++ specStream pc false 0 raws =
            (applyLog (crash T1) (run sc2 initS evs2).2.flatten).applied ++ rest) ∧
          (sc2.txnMode = false →
            (applyLog (crash T1) (run sc2 initS (evs2 ++ [.done])).2.flatten).applied =
              t.applied ++ specStream pc false 0 raws)) := by
  obtain ⟨E, hE, hsame, hnox⟩ := crash_then_resume_txn pc sc1 htx hres raws start0 evs1 hitems hraw hlo
    hstart hnneg t hq k
  refine ⟨E, hE, hsame, ?_⟩
  intro E1 o E2 hsplit hlast hd hd0
  obtain ⟨h1, h2, ⟨X, h3, _, hX⟩, h4⟩ := crash_then_resume pc sc1 raws start0 evs1 hitems hraw hlo hstart hnd
    hnn hnf hsel hmap t hcur hfresh k E E1 E2 o hE hsame hsplit hlast hd hd0
  have hXnil : X = [] := by rw [hX, hnox E1 o E2 hsplit hlast]; rfl
  rw [hXnil, List.append_nil] at h3
  simp only
  refine ⟨h1, h3, ?_⟩
  intro sc2 evs2 hi2 hnd2 hnn2
  obtain ⟨h5, h6⟩ := h4 sc2 evs2 hi2 hnd2 hnn2
  rw [h3, List.append_assoc, ← h2] at h5 h6
  exact ⟨h5, h6⟩


/-! ### The well-bracketing hypotheses, from the source stream -/

theorem rawNoNested_weaken (b : Bool) (l : List Raw) (h : RawNoNested b l) : RawNoNested false l := by
  induction l generalizing b with
  | nil => trivial
  | cons r rest ih =>
    simp only [RawNoNested] at h ⊢
    split
    · rename_i hm; rw [if_pos hm] at h; exact ⟨trivial, h.2⟩
    · rename_i hm
      rw [if_neg hm] at h
      split
      · rename_i he; rw [if_pos he] at h; exact h
      · rename_i he; rw [if_neg he] at h; exact ih b h

theorem rawNoNested_suffix (b : Bool) (x y : List Raw) (h : RawNoNested b (x ++ y)) :
    RawNoNested false y := by
  induction x generalizing b with
  | nil => exact rawNoNested_weaken b y h
  | cons r rest ih =>
    simp only [List.cons_append, RawNoNested] at h
    split at h
    · exact ih true h.2
    · split at h
      · exact ih false h
      · exact ih b h

/-- hypothesis `hnn` of `crash_then_resume` for a source stream whose MULTI/EXEC
    are not nested and not removed by the user's command / key filters -/
theorem run1_items_noNested_src (pc : PCfg) (raws : List Raw) (start0 : Int)
    (hnest : RawNoNested false raws)
    (hpass : ∀ r ∈ raws, (r.cmd = bMulti ∨ r.cmd = bExec) →
      pc.filterCmd r.cmd = false ∧ (pc.filterCmdKey r.cmd r.args).isSome) :
    ItemsNoNested false (parseAll pc { lastSent := start0 } raws) :=
  parseAll_noNested pc raws { lastSent := start0 } false rfl hnest hpass

/-- hypothesis `hnn2` of the resumed run, from the same facts about the source:
    the rest of a well-bracketed stream is well bracketed for a fresh parser (a
    cut inside a transaction leaves an EXEC without MULTI, which is not nesting) -/
theorem run2_items_noNested_src (pc : PCfg) (raws : List Raw) (o : Int)
    (hraw : (raws.map (·.off)).Pairwise (· < ·))
    (hnest : RawNoNested false raws)
    (hpass : ∀ r ∈ raws, (r.cmd = bMulti ∨ r.cmd = bExec) →
      pc.filterCmd r.cmd = false ∧ (pc.filterCmdKey r.cmd r.args).isSome) :
    ItemsNoNested false (parseAll pc { lastSent := o } (raws.filter (fun r => decide (o < r.off)))) := by
  have hAB := sorted_split raws o hraw
  apply parseAll_noNested pc _ { lastSent := o } false rfl
  · rw [hAB] at hnest
    exact rawNoNested_suffix false _ _ hnest
  · intro r hr
    exact hpass r (List.mem_filter.mp hr).1

/-! Non-vacuity of `crash_then_resume`: database 1 filtered, 2 → 5, 3 → 7; ticker
    mode; the target dies after 5 requests, one command beyond the stored position
    50 (found in database 5). All hypotheses are discharged for this instance, and
    the values the theorem speaks about are computed: `S1`, `S2`, `X`, `specStream`. -/
def trPc : PCfg :=
  { filterDb := fun d => d == 1, filterCmd := fun _ => false, filterCmdKey := fun _ a => some a,
    targetDb := -1, dbMap := [(2, 5), (3, 7)], startDbId := 5 }
def trRaws : List Raw :=
  [ { cmd := bSelect, args := [[50]], off := 23 },                 -- SELECT 2 (→ 5)
    { cmd := [115,101,116], args := [[97],[49]], off := 50 },      -- set a 1   (db 5)
    { cmd := [115,101,116], args := [[98],[50]], off := 77 },      -- set b 2   (db 5)
    { cmd := bSelect, args := [[49]], off := 96 },                  -- SELECT 1 (filtered)
    { cmd := [115,101,116], args := [[120],[50]], off := 119 },    -- set x 2   (bypassed)
    { cmd := bSelect, args := [[51]], off := 140 },                 -- SELECT 3 (→ 7)
    { cmd := [100,101,108], args := [[98]], off := 160 } ]          -- del b     (db 7)
def trCfg : SCfg := { txnMode := false, resume := true, batchCount := 100, batchBytes := 100000 }
def trItems := parseAll trPc { lastSent := 0 } trRaws
def trEvs1 : List Ev := (trItems.take 2).map Ev.item ++ [.cpTick] ++ (trItems.drop 2).map Ev.item ++ [.batchTick]
def trT : TState := {}
def trE : List Req := (bodies (run trCfg initS trEvs1).2).take 5
def trE1 : List Req := trE.take 3
def trE2 : List Req := trE.drop 4
example : itemsOf trEvs1 = parseAll trPc { lastSent := 0 } trRaws := by decide +kernel
example : (trRaws.map (·.off)).Pairwise (· < ·) := by decide +kernel
example : ∀ r ∈ trRaws, (0:Int) < r.off := by decide +kernel
example : ∀ e ∈ trEvs1, e ≠ Ev.done := by decide +kernel
example : ItemsNoNested false (parseAll trPc { lastSent := 0 } trRaws) := by
  have : parseAll trPc { lastSent := 0 } trRaws = trItems := rfl
  rw [this]
  have h : trItems = [{ cmd := [115, 101, 108, 101, 99, 116], args := [[53]], offset := 23, db := 5 },
 { cmd := [115, 101, 116], args := [[97], [49]], offset := 50, db := 5 },
 { cmd := [115, 101, 116], args := [[98], [50]], offset := 77, db := 5 },
 { cmd := [115, 101, 108, 101, 99, 116], args := [[55]], offset := 140, db := 7 },
 { cmd := [100, 101, 108], args := [[98]], offset := 160, db := 7 }] := by decide +kernel
  rw [h]
  simp [ItemsNoNested, bMulti, bExec]
example : parseFails trPc { lastSent := 0 } trRaws = false := by decide +kernel
example : selOK trRaws = true := by decide +kernel
example : trE <+: bodies (run trCfg initS trEvs1).2 := List.take_prefix _ _
example : SameData (applyLog trT ((run trCfg initS trEvs1).2.flatten.take 5)) (trE.foldl execReq trT) := by
  constructor <;> decide +kernel
example : trE = trE1 ++ Req.cpOffset 50 :: trE2 := by decide +kernel
example : cpOffsetsB trE2 = [] := by decide +kernel
example : trPc.startDbId = (trE1.foldl execReq trT).cur := by decide +kernel
example : dataB trE2 = [([115,101,116], [[98],[50]])] := by decide +kernel

example : True := by
  have h := crash_then_resume trPc trCfg trRaws 0 trEvs1 (by decide +kernel) (by decide +kernel)
    (by decide +kernel) (by omega) (by unfold GunYu.Props.C01.NoDone; decide +kernel)
    (by
      have : parseAll trPc { lastSent := 0 } trRaws = trItems := rfl
      rw [this]
      have h : trItems = [{ cmd := [115, 101, 108, 101, 99, 116], args := [[53]], offset := 23, db := 5 },
        { cmd := [115, 101, 116], args := [[97], [49]], offset := 50, db := 5 },
        { cmd := [115, 101, 116], args := [[98], [50]], offset := 77, db := 5 },
        { cmd := [115, 101, 108, 101, 99, 116], args := [[55]], offset := 140, db := 7 },
        { cmd := [100, 101, 108], args := [[98]], offset := 160, db := 7 }] := by decide +kernel
      rw [h]
      simp [ItemsNoNested, bMulti, bExec])
    (by decide +kernel) (selOK_spec trRaws (by decide +kernel))
    (mapDb_ok trPc rfl (by decide +kernel))
    trT rfl rfl 5 trE trE1 trE2 50 (List.take_prefix _ _)
    (by constructor <;> decide +kernel) (by decide +kernel) (by decide +kernel) (by decide +kernel)
    (by decide +kernel)
  trivial
-- the values the theorem speaks about
example : (seqApplied 0 (itemCmds (parseAll trPc { lastSent := 0 } (trRaws.filter (fun r => decide (r.off ≤ 50)))))).2
    = [ { db := 5, name := [115,101,116], args := [[97],[49]] } ] := by decide +kernel
example : (seqApplied 0 (itemCmds (parserItems trPc 50 (trRaws.filter (fun r => decide (50 < r.off)))))).2
    = [ { db := 5, name := [115,101,116], args := [[98],[50]] },
        { db := 7, name := [100,101,108], args := [[98]] } ] := by decide +kernel
example : (seqApplied trPc.startDbId (dataB trE2)).2 = [ { db := 5, name := [115,101,116], args := [[98],[50]] } ] := by
  decide +kernel
example : specStream trPc false 0 trRaws =
    [ { db := 5, name := [115,101,116], args := [[97],[49]] },
      { db := 5, name := [115,101,116], args := [[98],[50]] },
      { db := 7, name := [100,101,108], args := [[98]] } ] := by decide +kernel

/-- the resumed run of the example: the fresh parser's items for the rest of the
    stream and a keep-alive tick; once done the target holds `S1 ++ X ++ S2` -/
def trEvs2 : List Ev :=
  (parserItems trPc 50 (trRaws.filter (fun r => decide (50 < r.off)))).map Ev.item ++ [.keepaliveTick]
example : itemsOf trEvs2 = parserItems trPc 50 (trRaws.filter (fun r => decide (50 < r.off))) := by
  decide +kernel
example : (applyLog (crash (applyLog trT ((run trCfg initS trEvs1).2.flatten.take 5)))
      (run trCfg initS (trEvs2 ++ [.done])).2.flatten).applied =
    [ { db := 5, name := [115,101,116], args := [[97],[49]] },
      { db := 5, name := [115,101,116], args := [[98],[50]] },      -- X: executed before the crash ...
      { db := 5, name := [115,101,116], args := [[98],[50]] },      -- ... and again by the resumed run
      { db := 7, name := [100,101,108], args := [[98]] } ] := by decide +kernel

/-- transactional resumable mode, same stream: the target dies inside the second
    block; the hypotheses of `crash_then_resume_txn` hold -/
def trCfgTx : SCfg := { txnMode := true, resume := true, batchCount := 100, batchBytes := 100000 }
example : True := by
  have h := crash_then_resume_txn trPc trCfgTx rfl rfl trRaws 0 trEvs1 (by decide +kernel)
    (by decide +kernel) (by decide +kernel) (by omega)
    (nonNegB_spec trEvs1 (by decide +kernel)) trT rfl 10
  trivial
/-- ten requests = the first block and three requests of the second: the target
    holds the first block only, and the position stored with it -/
example : (applyLog trT ((run trCfgTx initS trEvs1).2.flatten.take 10)).applied =
    [ { db := 5, name := [115,101,116], args := [[97],[49]] },
      { db := 5, name := [115,101,116], args := [[98],[50]] } ] ∧
    (applyLog trT ((run trCfgTx initS trEvs1).2.flatten.take 10)).cps =
      [(5, { offset := some 77, hasRunId := true })] := by decide +kernel

end GunYu.Props.C02
