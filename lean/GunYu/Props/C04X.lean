/-
  C04, session 4 — the frame theorems for the EXTENDED grammar
  (Model/RdbFrameX.lean: LZF strings, streams, modules, module-aux, text-float
  sorted sets, the chunk continuation of big hashes) and for ANY stateful item
  reader that is sequential in every state; the composition with the fan-out;
  the LZF output buffer (D33).

  For `parseX` the item reader's goodness is PROVED (`itemS_good`), not trusted:
  a snapshot with rdbcompression on, with streams and modules is inside the
  theorems. What stays a parameter is `Cfg.floatOk` (strconv.ParseFloat's verdict
  on the text score of a type-3 sorted set): the theorems hold for every such
  predicate.
-/
import GunYu.Props.C04
import GunYu.Proofs.RdbFrameXTotal
import GunYu.Proofs.RdbLzf

namespace GunYu.Props.C04
open GunYu

section FrameX
open GunYu.RdbFrame GunYu.RdbFrameX

/-- the parser is total and needs no more fuel than input bytes — for ANY stateful item reader that is
    sequential and consumes in every state -/
theorem parse_total_s {σ} (it : σ → Rd (Item × σ)) (g : GoodItemS it) (s0 : σ) (maxVer : Nat) (f : Bytes) :
    parseS it s0 maxVer f ≠ .fuelOut := by
  unfold parseS
  split
  · exact bodyS_fuel it g _ _ _ _ _ (by omega)
  · simp
  · simp

theorem truncation_errors_s {σ} (it : σ → Rd (Item × σ)) (g : GoodItemS it) (s0 : σ) (maxVer : Nat) (f : Bytes) (n : Nat)
    (h : parseS it s0 maxVer f = .done n) :
    ∀ k, k < f.length → ∃ m, parseS it s0 maxVer (f.take k) = .err m := by
  intro k hk
  unfold parseS at h
  cases hh : header maxVer f with
  | err => rw [hh] at h; cases h
  | unsup => rw [hh] at h; cases h
  | ok u rest =>
    rw [hh] at h
    simp only at h
    obtain ⟨c, hc, hall, htr⟩ := header_seq maxVer f u rest hh
    by_cases hlt : k < c.length
    · have : f.take k = c.take k := by rw [hc]; exact List.take_append_of_le_length (by omega)
      exact ⟨0, by unfold parseS; rw [this, htr k hlt]⟩
    · have hge : c.length ≤ k := by omega
      have hx : f.take k = c ++ rest.take (k - c.length) := by
        rw [hc, List.take_append, List.take_of_length_le hge]
      have hk' : k - c.length < rest.length := by
        rw [hc, List.length_append] at hk; omega
      obtain ⟨m, hm⟩ := bodyS_trunc it g _ f rest s0 0 n h (k - c.length) hk'
        ((rest.take (k - c.length)).length + 1) (f.take k) 0 (by rw [List.length_take]; omega)
      exact ⟨m, by unfold parseS; rw [hx, hall]; simp only; rw [← hx]; exact hm⟩

/-- what `Done` pins down about the file -/
def FooterFacts (f : Bytes) : Prop :=
  8 ≤ f.length ∧ (Rdb.ofLE (footerOf f) = 0 ∨ (Rdb.crc64Tab (covered f)).toNat = Rdb.ofLE (footerOf f))

theorem done_ends_with_footer_s {σ} (it : σ → Rd (Item × σ)) (g : GoodItemS it) (s0 : σ) (maxVer : Nat) (f : Bytes) (m : Nat)
    (h : parseS it s0 maxVer f = .done m) : FooterFacts f := by
  unfold parseS at h
  cases hh : header maxVer f with
  | err => rw [hh] at h; cases h
  | unsup => rw [hh] at h; cases h
  | ok u rest =>
    rw [hh] at h
    obtain ⟨c, hc, _, _⟩ := header_seq maxVer f u rest hh
    exact endsWithFooter_parts (bodyS_done it g _ f c rest s0 0 m hc h)

/-- a checksummed file and the same file with one covered byte altered cannot BOTH satisfy the footer
    condition (CRC-64/Jones separates strings that differ in one byte) — whatever parser established it -/
theorem altered_breaks_footer (f : Bytes) (i : Nat) (b : UInt8) (hF : FooterFacts f)
    (hnz : Rdb.ofLE (footerOf f) ≠ 0) (hi : i < f.length - 8) (hb : f[i]? ≠ some b) :
    ¬ FooterFacts (f.set i b) := by
  intro hG
  obtain ⟨_, hcf⟩ := hF
  obtain ⟨_, hcg⟩ := hG
  rw [set_covered_of_lt f i b hi] at hcg
  have hcrc : Rdb.crc64Tab (covered (f.set i b)) = Rdb.crc64Tab (covered f) := by
    rcases hcf with h | hcf
    · exact absurd h hnz
    · rcases hcg with h | hcg
      · exact absurd h hnz
      · exact BitVec.eq_of_toNat_eq (by rw [hcg, hcf])
  have hlen : i < (covered f).length := by unfold covered; rw [List.length_take]; omega
  have hset : covered (f.set i b) = (covered f).set i b := by
    unfold covered; rw [List.length_set, List.take_set]
  have hx : (covered f)[i]'hlen ≠ b := by
    intro h
    apply hb
    have : (covered f)[i]? = some b := by rw [List.getElem?_eq_getElem hlen, h]
    unfold covered at this
    rw [List.getElem?_take_of_lt hi] at this
    exact this
  have h1 : covered f = (covered f).take i ++ (covered f)[i]'hlen :: (covered f).drop (i + 1) := by
    rw [List.getElem_cons_drop, List.take_append_drop]
  have h2 : (covered f).set i b = (covered f).take i ++ b :: (covered f).drop (i + 1) := by
    rw [List.set_eq_take_append_cons_drop, if_pos hlen]
  rw [hset, h2] at hcrc
  conv at hcrc => rhs; rw [h1]
  exact Rdb.crc64Tab_single_byte _ _ _ _ hx hcrc.symm

/-- an altered footer byte: the footer condition survives only if the new footer is all zero -/
theorem altered_footer_zero (f : Bytes) (i : Nat) (b : UInt8) (hF : FooterFacts f)
    (hnz : Rdb.ofLE (footerOf f) ≠ 0) (hi : f.length - 8 ≤ i) (hi2 : i < f.length) (hb : f[i]? ≠ some b)
    (hG : FooterFacts (f.set i b)) : Rdb.ofLE (footerOf (f.set i b)) = 0 := by
  obtain ⟨h8, hcf⟩ := hF
  obtain ⟨_, hcg⟩ := hG
  have hcov : covered (f.set i b) = covered f := by
    unfold covered; rw [List.length_set, List.take_set_of_le hi]
  rcases hcg with h | hcg
  · exact h
  · exfalso
    rcases hcf with h | hcf
    · exact hnz h
    · rw [hcov, hcf] at hcg
      have hlen : (footerOf f).length = (footerOf (f.set i b)).length := by
        unfold footerOf; simp [List.length_drop, List.length_set]
      have heq := ofLE_inj _ _ hlen hcg
      have h1 : (footerOf f)[i - (f.length - 8)]? = (footerOf (f.set i b))[i - (f.length - 8)]? := by rw [heq]
      unfold footerOf at h1
      rw [List.length_set, List.getElem?_drop, List.getElem?_drop] at h1
      have hidx : f.length - 8 + (i - (f.length - 8)) = i := by omega
      rw [hidx, List.getElem?_set_self hi2] at h1
      exact hb h1

theorem alteration_detected_s {σ} (it : σ → Rd (Item × σ)) (g : GoodItemS it) (s0 : σ) (maxVer : Nat) (f : Bytes)
    (n i : Nat) (b : UInt8) (hf : parseS it s0 maxVer f = .done n) (hnz : Rdb.ofLE (footerOf f) ≠ 0)
    (hi : i < f.length - 8) (hb : f[i]? ≠ some b) :
    ∀ m, parseS it s0 maxVer (f.set i b) ≠ .done m := fun m hg =>
  altered_breaks_footer f i b (done_ends_with_footer_s it g s0 maxVer f n hf) hnz hi hb
    (done_ends_with_footer_s it g s0 maxVer _ m hg)

theorem parseS_ne_unsup {σ} (it : σ → Rd (Item × σ)) (ht : TotalS it) (s0 : σ) (maxVer : Nat) (f : Bytes) :
    parseS it s0 maxVer f ≠ .unsup := by
  unfold parseS
  cases hh : header maxVer f with
  | err => simp
  | unsup => exact absurd hh (header_ne_unsup maxVer _)
  | ok u rest => exact bodyS_total it ht _ _ _ _ _

theorem alteration_is_error_s {σ} (it : σ → Rd (Item × σ)) (g : GoodItemS it) (ht : TotalS it) (s0 : σ) (maxVer : Nat)
    (f : Bytes) (n i : Nat) (b : UInt8) (hf : parseS it s0 maxVer f = .done n) (hnz : Rdb.ofLE (footerOf f) ≠ 0)
    (hi : i < f.length - 8) (hb : f[i]? ≠ some b) :
    ∃ m, parseS it s0 maxVer (f.set i b) = .err m := by
  cases hp : parseS it s0 maxVer (f.set i b) with
  | done m => exact absurd hp (alteration_detected_s it g s0 maxVer f n i b hf hnz hi hb m)
  | err m => exact ⟨m, rfl⟩
  | unsup => exact absurd hp (parseS_ne_unsup it ht s0 maxVer _)
  | fuelOut => exact absurd hp (parse_total_s it g s0 maxVer _)

/-! #### the extended grammar: `parseX cfg` -/

/-- **the item reader of the extended grammar is good in every state** — sequential (its result depends only on the
    bytes it consumes, every proper prefix of them is an error), consumes at least one byte, answers EOF only for the
    byte 0xFF: what the `_gen` theorems of Props/C04.lean ASSUME of the real `Loader.Next` is PROVED here for LZF
    strings, streams, modules, module-aux, text floats and the continuation of a split hash -/
theorem itemX_good (cfg : Cfg) : GoodItemS (itemS cfg) := itemS_good cfg

/-- … and it decides every input as soon as the float predicate does -/
theorem itemX_total (cfg : Cfg) (hfl : ∀ bs, cfg.floatOk bs ≠ .dunno) : TotalS (itemS cfg) := itemS_total cfg hfl

/-- `ParseRdb` over LZF strings, streams, modules, module-aux, text floats and split hashes terminates within
    |input| rounds (every threshold, both module-aux modes, every float predicate) -/
theorem parse_total_x (cfg : Cfg) (maxVer : Nat) (f : Bytes) : parseX cfg maxVer f ≠ .fuelOut :=
  parse_total_s _ (itemS_good cfg) none maxVer f

/-- every truncation of an accepted snapshot — with LZF strings, streams, modules, split hashes in it — is an error -/
theorem truncation_errors_x (cfg : Cfg) (maxVer : Nat) (f : Bytes) (n : Nat) (h : parseX cfg maxVer f = .done n) :
    ∀ k, k < f.length → ∃ m, parseX cfg maxVer (f.take k) = .err m :=
  truncation_errors_s _ (itemS_good cfg) none maxVer f n h

theorem done_ends_with_footer_x (cfg : Cfg) (maxVer : Nat) (f : Bytes) (m : Nat) (h : parseX cfg maxVer f = .done m) :
    8 ≤ f.length ∧ (Rdb.ofLE (footerOf f) = 0 ∨ (Rdb.crc64Tab (covered f)).toNat = Rdb.ofLE (footerOf f)) :=
  done_ends_with_footer_s _ (itemS_good cfg) none maxVer f m h

/-- no single-byte alteration of a covered byte of a checksummed snapshot is accepted -/
theorem alteration_detected_x (cfg : Cfg) (maxVer : Nat) (f : Bytes) (n i : Nat) (b : UInt8)
    (hf : parseX cfg maxVer f = .done n) (hnz : Rdb.ofLE (footerOf f) ≠ 0)
    (hi : i < f.length - 8) (hb : f[i]? ≠ some b) : ∀ m, parseX cfg maxVer (f.set i b) ≠ .done m :=
  alteration_detected_s _ (itemS_good cfg) none maxVer f n i b hf hnz hi hb

/-- … it is an ERROR, as soon as the float predicate decides every text (e.g. a snapshot without type-3 sorted sets
    never asks it) -/
theorem alteration_is_error_x (cfg : Cfg) (hfl : ∀ bs, cfg.floatOk bs ≠ .dunno) (maxVer : Nat) (f : Bytes) (n i : Nat) (b : UInt8)
    (hf : parseX cfg maxVer f = .done n) (hnz : Rdb.ofLE (footerOf f) ≠ 0)
    (hi : i < f.length - 8) (hb : f[i]? ≠ some b) : ∃ m, parseX cfg maxVer (f.set i b) = .err m :=
  alteration_is_error_s _ (itemS_good cfg) (itemS_total cfg hfl) none maxVer f n i b hf hnz hi hb

theorem zero_footer_exception_x (cfg : Cfg) (maxVer : Nat) (f : Bytes) (n m i : Nat) (b : UInt8)
    (hf : parseX cfg maxVer f = .done n) (hnz : Rdb.ofLE (footerOf f) ≠ 0)
    (hi : f.length - 8 ≤ i) (hi2 : i < f.length) (hb : f[i]? ≠ some b)
    (hg : parseX cfg maxVer (f.set i b) = .done m) : Rdb.ofLE (footerOf (f.set i b)) = 0 :=
  altered_footer_zero f i b (done_ends_with_footer_x cfg maxVer f n hf) hnz hi hi2 hb
    (done_ends_with_footer_x cfg maxVer _ m hg)

/-! non-vacuity: REDIS0009, SELECTDB 0, string "a" = LZF("aaaaaaaaaa"), hash "h" of three pairs, stream "s" (type 15:
    one node, one group with a pending entry and a consumer), module value "m" (type 7: uint, string, double), a
    module-aux section, sorted set "z" with the text score "1.5", EOF, CRC64. With the chunk threshold at 4 bytes the
    hash is delivered in two entries (6 entries in all), with the production threshold in one (5). -/
def exCfg4 : Cfg := { maxBuf := 4, failAux := false, floatOk := fun _ => .yes }
def exCfgProd : Cfg := { maxBuf := 16777216, failAux := false, floatOk := fun _ => .yes }

def exBodyX : Bytes :=
  [82, 69, 68, 73, 83, 48, 48, 48, 57, 0xFE, 0,
   0, 1, 97, 0xC3, 5, 10, 0, 97, 0xE0, 0, 0,
   4, 1, 104, 3, 1, 102, 1, 49, 1, 103, 1, 50, 1, 105, 1, 51,
   15, 1, 115, 1, 16, 0, 0, 0, 0, 0, 0, 0, 1, 0, 0, 0, 0, 0, 0, 0, 0, 3, 120, 121, 122, 1, 0, 1,
     1, 1, 103, 0, 0, 1, 0, 0, 0, 0, 0, 0, 0, 1, 0, 0, 0, 0, 0, 0, 0, 0, 9, 9, 9, 9, 9, 9, 9, 9, 1,
     1, 1, 99, 8, 8, 8, 8, 8, 8, 8, 8, 1, 0, 0, 0, 0, 0, 0, 0, 1, 0, 0, 0, 0, 0, 0, 0, 0,
   7, 1, 109, 0, 2, 5, 5, 1, 120, 4, 1, 2, 3, 4, 5, 6, 7, 8, 0,
   0xF7, 0, 0,
   3, 1, 122, 1, 1, 109, 3, 49, 46, 53,
   0xFF]
def exFileX : Bytes := exBodyX ++ Rdb.le64 (Rdb.crc64Tab exBodyX).toNat

example : parseX exCfg4 13 exFileX = .done 6 := by decide +kernel
example : parseX exCfgProd 13 exFileX = .done 5 := by decide +kernel
example : Rdb.ofLE (footerOf exFileX) ≠ 0 := by decide +kernel
-- the old grammar does not decide this file (LZF on the path)
example : parse 13 exFileX = .unsup := by decide +kernel
-- cut inside the LZF payload / inside the second chunk of the hash / inside the stream's PEL / inside the module value
example : parseX exCfg4 13 (exFileX.take 20) = .err 0 := by decide +kernel
example : parseX exCfg4 13 (exFileX.take 33) = .err 2 := by decide +kernel
example : parseX exCfg4 13 (exFileX.take 90) = .err 3 := by decide +kernel
example : parseX exCfg4 13 (exFileX.take 140) = .err 4 := by decide +kernel
-- the declared LZF length altered (10 → 11): the decompressor refuses, one entry earlier than the checksum would
example : parseX exCfg4 13 (exFileX.set 16 11) = .err 0 := by decide +kernel
-- the stream key length altered (16 → 17): "key length is not 16B"
example : parseX exCfg4 13 (exFileX.set 42 17) = .err 3 := by decide +kernel
-- failOnModuleAux: the module-aux section is an error
example : parseX { exCfg4 with failAux := true } 13 exFileX = .err 5 := by decide +kernel
-- a float text the predicate refuses / does not decide
example : parseX { exCfg4 with floatOk := fun _ => .no } 13 exFileX = .err 5 := by decide +kernel
example : parseX { exCfg4 with floatOk := fun _ => .dunno } 13 exFileX = .unsup := by decide +kernel
/-- the theorems, instantiated: every cut and every altered covered byte of `exFileX` is an error -/
example (k : Nat) (hk : k < exFileX.length) : ∃ m, parseX exCfg4 13 (exFileX.take k) = .err m :=
  truncation_errors_x exCfg4 13 exFileX 6 (by decide +kernel) k hk
example (i : Nat) (b : UInt8) (hi : i < exFileX.length - 8) (hb : exFileX[i]? ≠ some b) :
    ∃ m, parseX exCfg4 13 (exFileX.set i b) = .err m :=
  alteration_is_error_x exCfg4 (fun _ => by show Dec.yes ≠ Dec.dunno; decide) 13 exFileX 6 i b (by decide +kernel) (by decide +kernel) hi hb

end FrameX

/-! ## from the bytes to the checkpoint, extended grammar -/
section EndToEndX
open GunYu.RdbFanout

/-- what the parser goroutine hands to the fan-out, given the outcome of the frame parser -/
def feedO (o : RdbFrame.Outcome) (junk : List (Item Nat)) : Option (List (Item Nat)) :=
  match o with
  | .done n => some (parserOutput (List.range n) .done junk)
  | .err n => some (parserOutput (List.range n) .err junk)
  | _ => none

theorem recorded_only_if_done_o (o : RdbFrame.Outcome) (junk items : List (Item Nat)) (hfeed : feedO o junk = some items)
    (c : Cfg Nat) (hn : 0 < c.n) (sched : List Ev)
    (h : (run c (init items) sched).checkpoint = true ∨ (run c (init items) sched).ret = some .ok) :
    ∃ n, o = .done n ∧ ∀ a, a < n → a ∈ (run c (init items) sched).applied := by
  unfold feedO at hfeed
  cases o with
  | done n =>
    simp only [Option.some.injEq] at hfeed; subst hfeed
    refine ⟨n, rfl, ?_⟩
    intro a ha
    rcases h with h | h
    · exact (no_checkpoint_unless_all_applied c hn _ _ _ sched h).2 a (List.mem_range.mpr ha)
    · exact (ok_only_if_all_applied c hn _ _ _ sched h).2 a (List.mem_range.mpr ha)
  | err n =>
    simp only [Option.some.injEq] at hfeed; subst hfeed
    rcases h with h | h
    · exact absurd (no_checkpoint_unless_all_applied c hn _ _ _ sched h).1 (by simp)
    · exact absurd (ok_only_if_all_applied c hn _ _ _ sched h).1 (by simp)
  | unsup => cases hfeed
  | fuelOut => cases hfeed

theorem err_never_recorded (m : Nat) (junk : List (Item Nat)) (c : Cfg Nat) (hn : 0 < c.n) (sched : List Ev) :
    (run c (init (parserOutput (List.range m) .err junk)) sched).checkpoint = false ∧
    (run c (init (parserOutput (List.range m) .err junk)) sched).ret ≠ some .ok := by
  constructor
  · cases hc : (run c (init (parserOutput (List.range m) .err junk)) sched).checkpoint with
    | false => rfl
    | true => exact absurd (no_checkpoint_unless_all_applied c hn _ _ _ sched hc).1 (by simp)
  · intro hr
    exact absurd (ok_only_if_all_applied c hn _ _ _ sched hr).1 (by simp)

/-- **from bytes to checkpoint, extended grammar**: for every snapshot (LZF, streams, modules, split hashes …),
    worker count, pipe size, routing and EVERY schedule, the checkpoint is written / nil returned only if the input
    parses to `Done` and every entry (every chunk) was applied -/
theorem recorded_only_if_parsed_and_applied_x (cfg : RdbFrameX.Cfg) (maxVer : Nat) (f : Bytes)
    (junk items : List (Item Nat)) (hfeed : feedO (RdbFrameX.parseX cfg maxVer f) junk = some items)
    (c : Cfg Nat) (hn : 0 < c.n) (sched : List Ev)
    (h : (run c (init items) sched).checkpoint = true ∨ (run c (init items) sched).ret = some .ok) :
    ∃ n, RdbFrameX.parseX cfg maxVer f = .done n ∧ ∀ a, a < n → a ∈ (run c (init items) sched).applied :=
  recorded_only_if_done_o _ junk items hfeed c hn sched h

theorem truncated_never_recorded_x (cfg : RdbFrameX.Cfg) (maxVer : Nat) (f : Bytes) (n : Nat)
    (hf : RdbFrameX.parseX cfg maxVer f = .done n) (k : Nat) (hk : k < f.length) (junk : List (Item Nat)) :
    ∃ items, feedO (RdbFrameX.parseX cfg maxVer (f.take k)) junk = some items ∧
      ∀ (c : Cfg Nat), 0 < c.n → ∀ sched : List Ev,
        (run c (init items) sched).checkpoint = false ∧ (run c (init items) sched).ret ≠ some .ok := by
  obtain ⟨m, hm⟩ := truncation_errors_x cfg maxVer f n hf k hk
  exact ⟨parserOutput (List.range m) .err junk, by simp [feedO, hm], fun c hn sched => err_never_recorded m junk c hn sched⟩

theorem altered_never_recorded_x (cfg : RdbFrameX.Cfg) (hfl : ∀ bs, cfg.floatOk bs ≠ .dunno) (maxVer : Nat) (f : Bytes)
    (n i : Nat) (b : UInt8) (hf : RdbFrameX.parseX cfg maxVer f = .done n) (hnz : Rdb.ofLE (footerOf f) ≠ 0)
    (hi : i < f.length - 8) (hb : f[i]? ≠ some b) (junk : List (Item Nat)) :
    ∃ items, feedO (RdbFrameX.parseX cfg maxVer (f.set i b)) junk = some items ∧
      ∀ (c : Cfg Nat), 0 < c.n → ∀ sched : List Ev,
        (run c (init items) sched).checkpoint = false ∧ (run c (init items) sched).ret ≠ some .ok := by
  obtain ⟨m, hm⟩ := alteration_is_error_x cfg hfl maxVer f n i b hf hnz hi hb
  exact ⟨parserOutput (List.range m) .err junk, by simp [feedO, hm], fun c hn sched => err_never_recorded m junk c hn sched⟩

/-- the goroutine's transcript over the stateful reader is an instance of `feedO` -/
def chanFeedS {σ} (it : σ → RdbFrame.Rd (RdbFrame.Item × σ)) (s0 : σ) (maxVer : Nat) (f : Bytes) : Option (List (Item Nat)) :=
  (RdbFrameX.chanS it s0 maxVer f).map (fun p => (List.range p.1).map Item.entry ++ p.2.map Item.term)

theorem bodyChanS_agrees {σ} (it : σ → RdbFrame.Rd (RdbFrame.Item × σ)) :
    ∀ (fuel : Nat) (all xs : Bytes) (s : σ) (cnt n : Nat) (ts : List Term),
      RdbFrameX.bodyChanS it fuel all xs s cnt = some (n, ts) →
        (ts = [.done] ∧ RdbFrameX.bodyS it fuel all xs s cnt = .done n) ∨
        ((ts = [.err] ∨ ts = [.err, .done]) ∧ RdbFrameX.bodyS it fuel all xs s cnt = .err n)
  | 0, _, _, _, _, _, _, h => by simp [RdbFrameX.bodyChanS] at h
  | fuel+1, all, xs, s, cnt, n, ts, h => by
    unfold RdbFrameX.bodyChanS at h
    unfold RdbFrameX.bodyS
    cases hi : it s xs with
    | err => rw [hi] at h; simp only [Option.some.injEq, Prod.mk.injEq] at h; obtain ⟨rfl, rfl⟩ := h; simp
    | unsup => rw [hi] at h; cases h
    | ok p rest =>
      obtain ⟨a, s'⟩ := p
      rw [hi] at h
      cases a with
      | entry => exact bodyChanS_agrees it fuel all rest s' (cnt + 1) n ts h
      | other => exact bodyChanS_agrees it fuel all rest s' cnt n ts h
      | eofOp =>
        simp only at h ⊢
        have hf : RdbFrame.footer all rest cnt = .done cnt ∨ RdbFrame.footer all rest cnt = .err cnt := by
          unfold RdbFrame.footer; split
          · split
            · exact Or.inr rfl
            · split
              · exact Or.inr rfl
              · exact Or.inl rfl
          · exact Or.inr rfl
        rcases hf with hf | hf
        · rw [hf] at h ⊢; simp only [Option.some.injEq, Prod.mk.injEq] at h; obtain ⟨rfl, rfl⟩ := h; simp
        · rw [hf] at h ⊢; simp only [Option.some.injEq, Prod.mk.injEq] at h; obtain ⟨rfl, rfl⟩ := h; simp

theorem chanFeedS_is_feed {σ} (it : σ → RdbFrame.Rd (RdbFrame.Item × σ)) (s0 : σ) (maxVer : Nat) (f : Bytes)
    (items : List (Item Nat)) (h : chanFeedS it s0 maxVer f = some items) :
    ∃ junk, feedO (RdbFrameX.parseS it s0 maxVer f) junk = some items := by
  unfold chanFeedS RdbFrameX.chanS at h
  unfold feedO RdbFrameX.parseS
  cases hh : RdbFrame.header maxVer f with
  | unsup => rw [hh] at h; simp at h
  | err =>
    rw [hh] at h; simp only [Option.map_some, Option.some.injEq] at h; subst h
    exact ⟨[], by simp [parserOutput]⟩
  | ok u rest =>
    rw [hh] at h
    simp only at h ⊢
    cases hb : RdbFrameX.bodyChanS it (rest.length + 1) f rest s0 0 with
    | none => rw [hb] at h; simp at h
    | some p =>
      obtain ⟨n, ts⟩ := p
      rw [hb] at h; simp only [Option.map_some, Option.some.injEq] at h; subst h
      rcases bodyChanS_agrees it _ _ _ _ _ n ts hb with ⟨rfl, hd⟩ | ⟨hts, he⟩
      · exact ⟨[], by rw [hd]; simp [parserOutput]⟩
      · rcases hts with rfl | rfl
        · exact ⟨[], by rw [he]; simp [parserOutput]⟩
        · exact ⟨[Item.term .done], by rw [he]; simp [parserOutput]⟩

/-- with the goroutine's transcript (Err-then-Done after a bad footer) spelled out, extended grammar -/
theorem recorded_only_if_parsed_and_applied_chan_x (cfg : RdbFrameX.Cfg) (maxVer : Nat) (f : Bytes)
    (items : List (Item Nat)) (hfeed : chanFeedS (RdbFrameX.itemS cfg) none maxVer f = some items)
    (c : Cfg Nat) (hn : 0 < c.n) (sched : List Ev)
    (h : (run c (init items) sched).checkpoint = true ∨ (run c (init items) sched).ret = some .ok) :
    ∃ n, RdbFrameX.parseX cfg maxVer f = .done n ∧ ∀ a, a < n → a ∈ (run c (init items) sched).applied := by
  obtain ⟨junk, hj⟩ := chanFeedS_is_feed _ none maxVer f items hfeed
  exact recorded_only_if_done_o _ junk items hj c hn sched h

/-! non-vacuity -/
example : feedO (RdbFrameX.parseX exCfg4 13 exFileX) [] = some (parserOutput [0, 1, 2, 3, 4, 5] .done []) := by
  decide +kernel
example : chanFeedS (RdbFrameX.itemS exCfg4) none 13 (exFileX.set (exFileX.length - 1) 0) =
    some ((List.range 6).map Item.entry ++ [Item.term .err, Item.term .done]) := by decide +kernel
example (k : Nat) (hk : k < exFileX.length) : ∃ items, feedO (RdbFrameX.parseX exCfg4 13 (exFileX.take k)) [] = some items ∧
    ∀ (c : Cfg Nat), 0 < c.n → ∀ sched : List Ev,
      (run c (init items) sched).checkpoint = false ∧ (run c (init items) sched).ret ≠ some .ok :=
  truncated_never_recorded_x exCfg4 13 exFileX 6 (by decide +kernel) k hk []
example (i : Nat) (b : UInt8) (hi : i < exFileX.length - 8) (hb : exFileX[i]? ≠ some b) :
    ∃ items, feedO (RdbFrameX.parseX exCfg4 13 (exFileX.set i b)) [] = some items ∧
    ∀ (c : Cfg Nat), 0 < c.n → ∀ sched : List Ev,
      (run c (init items) sched).checkpoint = false ∧ (run c (init items) sched).ret ≠ some .ok :=
  altered_never_recorded_x exCfg4 (fun _ => by show RdbFrameX.Dec.yes ≠ RdbFrameX.Dec.dunno; decide) 13 exFileX 6 i b (by decide +kernel) (by decide +kernel) hi hb []

end EndToEndX

/-! ## the LZF output buffer (D33) -/
section Lzf
open GunYu.RdbLzf

/-- **the LZF output buffer is never sized by the declared length alone** (fix f4eb5a7, transcribed in
    Model/RdbLzf.lean): when `lzfDecompress` stops, by success or by ANY error,
    `len(out) ≤ produced + 264 + step` and `produced ≤ 264 · len(in)`; the declared length only caps the buffer.
    With an `append` that at most doubles no single request of the allocator exceeds twice that. -/
theorem lzf_buffer_follows_output (g : Nat → Nat → Nat) (hg : RdbAlloc.GrowOK g) (step : Nat) (inp : Bytes) (outlen : Nat) :
    (run step inp outlen).blen ≤ (run step inp outlen).o + 264 + step ∧
    (run step inp outlen).o ≤ 264 * inp.length ∧
    (run step inp outlen).blen ≤ outlen ∧
    (requests g step inp outlen).1 ≤ 2 * ((run step inp outlen).o + 264 + step) :=
  ⟨(run_buffer_bounded step inp outlen).1, (run_buffer_bounded step inp outlen).2.1,
   (run_buffer_bounded step inp outlen).2.2.1, (requests_bounded g hg step inp outlen).1⟩

/-- in bytes of the INPUT alone. NOTE: this bound is a consequence of the GUARD `outlen ≤ 264·len(in)` together with
    `len(out) ≤ outlen` — it held before the D33 fix as well (then with len(out) = outlen). What the fix adds is
    `lzf_buffer_follows_output`: the buffer is bounded by the bytes PRODUCED, which for a damaged length is far below
    264·len(in). Kept as the coarse, input-only corollary. -/
theorem lzf_buffer_linear_in_input (step : Nat) (inp : Bytes) (outlen : Nat) :
    (run step inp outlen).blen ≤ 264 * inp.length + 264 + step :=
  run_buffer_linear step inp outlen

theorem lzf_ok_length (step : Nat) (inp : Bytes) (outlen : Nat) (h : (run step inp outlen).ok = true) :
    (run step inp outlen).o = outlen ∧ (run step inp outlen).blen = outlen :=
  ⟨(run_ok step inp outlen h).1, (run_ok step inp outlen h).2.1⟩

/-! non-vacuity (step = 8 to see the growth): "a" + a back reference of 9, declared 10 → ok, buffer 10;
    the same input declared 4294967295: refused by the guard, nothing allocated; 30 literals declared 4000:
    the buffer stops at produced + step, not at 4000 -/
example : run 8 [0, 97, 0xE0, 0, 0] 10 = ⟨true, 10, 10, [(8, 10)]⟩ := by decide
example : run 8 [0, 97, 0xE0, 0, 0] 4294967295 = ⟨false, 0, 0, []⟩ := by decide
def exLits : Bytes := (List.range 30).flatMap (fun _ => [0, 120])
example : (run 8 exLits 4000).ok = false ∧ (run 8 exLits 4000).o = 30 ∧ (run 8 exLits 4000).blen = 35 := by decide +kernel
-- the D33 shape: 16.3 MB of compressed zeros (every pair "00 00" is one literal byte) declaring 4 GiB − 1. Whatever the
-- input, the buffer is at most produced + 264 + step; for THIS kind of input produced ≤ len(in)/2 would give ≈ 72 MB
-- (the walk on the concrete 16 MB list is left to the driver: op c04lzfseg "0000*524288" at 1 MiB scale, 64 MiB measured)
example (inp : Bytes) : (run stepBytes inp 4294967295).blen ≤ (run stepBytes inp 4294967295).o + 264 + 67108864 :=
  (lzf_buffer_follows_output growDouble growDouble_ok stepBytes inp 4294967295).1
example : (requests growDouble 8 exLits 4000).1 ≤ 2 * (30 + 264 + 8) := by
  have h := (requests_bounded growDouble growDouble_ok 8 exLits 4000).1
  have ho : (run 8 exLits 4000).o = 30 := by decide +kernel
  rw [ho] at h; exact h

end Lzf

end GunYu.Props.C04
