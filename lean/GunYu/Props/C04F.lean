/-
  C04, session 4 — the fan-out with MULTIPLICITY and with the cluster-only global
  lane of bidirectional replay.

  Part 1 of Props/C04.lean concludes membership ("every entry is among the applied
  ones"). Here: in every reachable state every entry the distributor took is in
  exactly one place (applied / dropped by a failing worker / queued for the worker
  its route names); when the checkpoint is written, or nil returned, the applied
  entries are a PERMUTATION of the snapshot's entries — each applied exactly once.
  Otherwise the replay is an error (Part 1). The global lane (FUNCTION / AUX
  objects replayed to every primary by one more goroutine) is the same event system
  with n + 1 workers (`withGlobal`); all theorems apply to it, and its routing sends
  exactly the global entries to the global worker.
-/
import GunYu.Props.C04X
import GunYu.Proofs.RdbFanoutOnce

namespace GunYu.Props.C04
open GunYu GunYu.RdbFanout

/-- **never twice**: at every moment of every schedule, what has been applied, what failing workers dropped and what
    is still queued is — with multiplicity — exactly what the distributor took, and that is a prefix of what the
    parser produced. No entry is applied twice, none is invented. -/
theorem applied_at_most_once {α} (c : Cfg α) (hn : 0 < c.n) (items : List (Item α)) (sched : List Ev) :
    ((run c (init items) sched).applied ++ (run c (init items) sched).dropped ++ queued c (run c (init items) sched)).Perm
      (run c (init items) sched).consumed ∧
    ∃ rest, items = (run c (init items) sched).consumed.map Item.entry ++ rest := by
  have inv := run_inv c items hn sched _ (init_inv c _)
  have once := run_once c items hn sched _ (init_inv c _) (init_once c _)
  refine ⟨once.perm.symm, termList (run c (init items) sched).term ++ ((run c (init items) sched).pipe0 ++ (run c (init items) sched).todo), ?_⟩
  have := inv.frame
  rw [List.append_assoc, List.append_assoc] at this
  exact this.symm

/-- **exactly once**: the checkpoint is written only when the applied entries are a permutation of the snapshot's
    entries (and the parser ended with `Done`) -/
theorem checkpoint_exactly_once {α} (c : Cfg α) (hn : 0 < c.n)
    (es : List α) (t : Term) (junk : List (Item α)) (sched : List Ev)
    (hcp : (run c (init (parserOutput es t junk)) sched).checkpoint = true) :
    t = .done ∧ (run c (init (parserOutput es t junk)) sched).applied.Perm es := by
  have inv := run_inv c (parserOutput es t junk) hn sched _ (init_inv c _)
  have once := run_once c (parserOutput es t junk) hn sched _ (init_inv c _) (init_once c _)
  obtain ⟨_, _, hdrop, hq⟩ := once.cpDone hcp
  have hperm := once.perm
  rw [hdrop, hq] at hperm
  simp only [List.append_nil] at hperm
  obtain ⟨hterm, _⟩ := inv.cp hcp
  have hfr := inv.frame
  rcases hterm with ht | ⟨ht, hp, htd⟩
  · rw [ht] at hfr
    simp only [termList, List.append_assoc, List.singleton_append] at hfr
    obtain ⟨hl, htt⟩ := entries_prefix_unique _ _ _ _ _ _
      (show es.map Item.entry ++ Item.term t :: junk = _ from hfr.symm)
    exact ⟨htt, hperm.symm.trans (List.Perm.of_eq hl.symm)⟩
  · rw [ht, hp, htd] at hfr
    simp only [termList, List.append_nil] at hfr
    exact absurd hfr (map_entry_ne _ _ _ _)

theorem ok_exactly_once {α} (c : Cfg α) (hn : 0 < c.n)
    (es : List α) (t : Term) (junk : List (Item α)) (sched : List Ev)
    (hret : (run c (init (parserOutput es t junk)) sched).ret = some .ok) :
    t = .done ∧ (run c (init (parserOutput es t junk)) sched).applied.Perm es := by
  have inv := run_inv c (parserOutput es t junk) hn sched _ (init_inv c _)
  exact checkpoint_exactly_once c hn es t junk sched (inv.retOk hret)

/-- **from bytes to checkpoint, exactly once** (extended grammar): recorded only if the input parses to `Done` after
    `n` entries and the applied entries are a permutation of `0 … n−1` — none missing, none twice -/
theorem recorded_exactly_once_x (cfg : RdbFrameX.Cfg) (maxVer : Nat) (f : Bytes)
    (junk items : List (Item Nat)) (hfeed : feedO (RdbFrameX.parseX cfg maxVer f) junk = some items)
    (c : Cfg Nat) (hn : 0 < c.n) (sched : List Ev)
    (h : (run c (init items) sched).checkpoint = true ∨ (run c (init items) sched).ret = some .ok) :
    ∃ n, RdbFrameX.parseX cfg maxVer f = .done n ∧ (run c (init items) sched).applied.Perm (List.range n) := by
  unfold feedO at hfeed
  cases hp : RdbFrameX.parseX cfg maxVer f with
  | done n =>
    rw [hp] at hfeed; simp only [Option.some.injEq] at hfeed; subst hfeed
    refine ⟨n, rfl, ?_⟩
    rcases h with h | h
    · exact (checkpoint_exactly_once c hn _ _ _ sched h).2
    · exact (ok_exactly_once c hn _ _ _ sched h).2
  | err n =>
    rw [hp] at hfeed; simp only [Option.some.injEq] at hfeed; subst hfeed
    rcases h with h | h
    · exact absurd (checkpoint_exactly_once c hn _ _ _ sched h).1 (by simp)
    · exact absurd (ok_exactly_once c hn _ _ _ sched h).1 (by simp)
  | unsup => rw [hp] at hfeed; cases hfeed
  | fuelOut => rw [hp] at hfeed; cases hfeed

/-! ### the global lane -/

theorem withGlobal_pos {α} (c : Cfg α) (glob : α → Bool) : 0 < (withGlobal c glob).n := by
  simp [withGlobal]

/-- the routing of `withGlobal`: the global worker (number `c.n`) gets exactly the global entries -/
theorem withGlobal_route {α} (c : Cfg α) (hn : 0 < c.n) (glob : α → Bool) (a : α) :
    ((withGlobal c glob).route a % (withGlobal c glob).n = c.n ↔ glob a = true) ∧
    (withGlobal c glob).route a % (withGlobal c glob).n < c.n + 1 := by
  simp only [withGlobal]
  cases hg : glob a with
  | true => simp
  | false =>
    have h1 : c.route a % c.n < c.n := Nat.mod_lt _ hn
    have h2 : c.route a % c.n % (c.n + 1) = c.route a % c.n := Nat.mod_eq_of_lt (by omega)
    simp only [Bool.false_eq_true, if_false, h2, iff_false]
    omega

/-- **the global lane carries the global entries and nothing else**: in every reachable state an entry queued for the
    global worker is a global one, an entry queued for a keyed worker is not -/
theorem global_lane_routing {α} (c : Cfg α) (hn : 0 < c.n) (glob : α → Bool) (items : List (Item α)) (sched : List Ev)
    (i : Nat) (hi : i < c.n + 1) (a : α) (ha : a ∈ (run (withGlobal c glob) (init items) sched).pipes i) :
    (i = c.n ↔ glob a = true) := by
  have once := run_once (withGlobal c glob) items (withGlobal_pos c glob) sched _ (init_inv _ _) (init_once _ _)
  have hl := once.lane i (by simpa [withGlobal] using hi) a ha
  rw [← hl]
  exact (withGlobal_route c hn glob a).1

/-- `no_checkpoint_unless_terminated` with the global lane: n keyed workers + the global worker, n + 2 results -/
theorem no_checkpoint_unless_terminated_global {α} (c : Cfg α) (glob : α → Bool)
    (items : List (Item α)) (sched : List Ev) :
    (run (withGlobal c glob) (init items) sched).checkpoint = true →
      (∃ (es : List α) (junk : List (Item α)), items = es.map Item.entry ++ Item.term .done :: junk ∧
          ∀ a ∈ es, a ∈ (run (withGlobal c glob) (init items) sched).applied)
      ∨ (∃ es : List α, items = es.map Item.entry ∧ ∀ a ∈ es, a ∈ (run (withGlobal c glob) (init items) sched).applied) :=
  no_checkpoint_unless_terminated (withGlobal c glob) (withGlobal_pos c glob) items sched

/-- **bytes → checkpoint with the global lane, exactly once**: cluster bidirectional replay records the snapshot only
    if it parses to `Done` and every entry — keyed ones by their worker, FUNCTION / AUX ones by the global lane — was
    applied exactly once -/
theorem recorded_only_if_parsed_and_applied_global (cfg : RdbFrameX.Cfg) (maxVer : Nat) (f : Bytes)
    (junk items : List (Item Nat)) (hfeed : feedO (RdbFrameX.parseX cfg maxVer f) junk = some items)
    (c : Cfg Nat) (glob : Nat → Bool) (sched : List Ev)
    (h : (run (withGlobal c glob) (init items) sched).checkpoint = true ∨
         (run (withGlobal c glob) (init items) sched).ret = some .ok) :
    ∃ n, RdbFrameX.parseX cfg maxVer f = .done n ∧
      (run (withGlobal c glob) (init items) sched).applied.Perm (List.range n) :=
  recorded_exactly_once_x cfg maxVer f junk items hfeed (withGlobal c glob) (withGlobal_pos c glob) sched h

/-! non-vacuity: two keyed workers + the global lane; entries 10, 11, 12 keyed (routes 0, 1, 0), entry 7 global -/
def exCfgG : Cfg Nat := withGlobal { n := 2, cap0 := 2, capW := 1, route := fun a => a } (fun a => a == 7)
def exItemsG : List (Item Nat) := parserOutput [10, 7, 11, 12] .done []
/-- a complete run: worker 2 is the global lane -/
def exGoodG : List Ev :=
  [.parse, .parse, .dist, .dist, .parse, .parse, .work 0, .work 2, .dist, .dist, .parse, .work 1, .work 0, .dist,
   .workClosed 0, .workClosed 1, .workClosed 2, .collectW 1, .collectD, .collectW 0, .collectW 2, .finish true]
example : (run exCfgG (init exItemsG) exGoodG).checkpoint = true := by decide
example : (run exCfgG (init exItemsG) exGoodG).applied = [10, 7, 11, 12] := by decide
/-- the global worker's result missing: no checkpoint, sendRdb has not returned -/
example : (run exCfgG (init exItemsG) (exGoodG.filter (fun e => match e with | .collectW 2 => false | _ => true))).ret = none := by
  decide
/-- the global lane fails on its entry: error, no checkpoint -/
example : (run exCfgG (init exItemsG)
    [.parse, .parse, .dist, .dist, .work 0, .workFail 2, .collectW 2, .distCancel, .workCancel 0, .workCancel 1,
     .collectD, .collectW 0, .collectW 1, .finish true]).ret = some .err := by decide
/-- the D6 window on the global lane: everything distributed, the global worker still holds entry 7, cancel -/
example : (run exCfgG (init exItemsG)
    [.parse, .parse, .dist, .dist, .parse, .parse, .work 0, .dist, .dist, .parse, .work 1, .work 0, .dist,
     .cancel, .workCancel 0, .workCancel 1, .workCancel 2, .collectD, .collectW 0, .collectW 1, .collectW 2, .finish true]).checkpoint = false := by
  decide
/-- exactly once, instantiated -/
example (sched : List Ev) (h : (run exCfgG (init exItemsG) sched).checkpoint = true) :
    (run exCfgG (init exItemsG) sched).applied.Perm [10, 7, 11, 12] :=
  (checkpoint_exactly_once exCfgG (by decide) _ _ _ sched h).2

end GunYu.Props.C04
