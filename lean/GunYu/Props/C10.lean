import GunYu.Model.Filter
namespace GunYu.Props.C10
open GunYu GunYu.Filter

theorem db_iff (c : FilterCfg) (db : Int) :
    (build c).filterDb db = true ↔ db ≠ -1 ∧ db ∈ c.dbBlack := by
  simp [build, KeyFilter.filterDb, KeyFilter.insertDbBlackList, KeyFilter.insertSlotBlackList,
    KeyFilter.insertSlotWhiteList, KeyFilter.insertPrefixKeyWhiteList, KeyFilter.insertPrefixKeyBlackList,
    KeyFilter.insertCmdWhiteList, KeyFilter.insertCmdBlackList]

end GunYu.Props.C10
