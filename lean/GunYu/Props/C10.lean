/-
  C10 — Filters pass exactly the configured set of commands, keys, slots and
  databases.

  Property theorems only (helper lemmas: Proofs/FilterRange.lean,
  FilterTrie.lean, FilterKeys.lean, FilterCmdKey.lean). Quantifier: all filter
  configurations (any number of slot entries in any order — overlapping,
  nested, adjacent, single-slot, reversed, malformed; any prefix white/black
  lists of arbitrary byte strings; any database list; any command blacklist)
  and all commands / keys (arbitrary byte strings).

  Vocabulary (defined in Proofs/, repeated here):
    entryRange? e      what a configured slot entry denotes: [x] ↦ (x,x),
                       [l,r] with l ≤ r ↦ (l,r), anything else ↦ nothing
    slotIn es s        ∃ e ∈ es, entryRange? e = some (l,r) ∧ l ≤ s ≤ r
    prefixHit ps k     ∃ p ∈ ps, p ≠ [] ∧ p <+: k        (byte-wise prefix)
    cmdListed l c      ∃ b ∈ l, c = lower b ∨ c = upper b (ASCII case)
    keptIdx f args idx the key positions whose key `f` accepts, in order
  `build c` is a bare RedisKeyFilter built from `c`; `buildOutput c` is the
  filter NewRedisOutput builds (NoRouteCmds and the two reserved prefixes,
  regenerated from source, always inserted). The empty-string prefix is "no
  rule" for code and specification alike (`p ≠ []`).
-/
import GunYu.Model.Filter
import GunYu.Proofs.FilterRange
import GunYu.Proofs.FilterTrie
import GunYu.Proofs.FilterKeys
import GunYu.Proofs.FilterCmdKey
import GunYu.Proofs.FilterParse
import GunYu.Props.C11

namespace GunYu.Props.C10
open GunYu GunYu.Filter

/-! ### slot ranges -/

/-- After ANY sequence of `InsertSlotInList` calls (any number, order, overlap,
    nesting, adjacency; calls with `left > right` are ignored) the lookup
    answers exactly "the slot lies in the union of the valid ranges". -/
theorem rangeLookup_iff (rs : List (Nat × Nat)) (s : Nat) :
    (RangeList.insertAll rs).contains s = true ↔ ∃ p ∈ rs, p.1 ≤ p.2 ∧ p.1 ≤ s ∧ s ≤ p.2 := by
  unfold RangeList.insertAll
  rw [RangeList.contains_iff _ _ (RangeList.wf_foldl rs _ RangeList.wf_empty)]
  constructor
  · rintro ⟨p, hp, h1, h2⟩
    rcases (RangeList.mem_foldl rs _ p).mp hp with ⟨hp, hle⟩ | hp
    · exact ⟨p, hp, hle, h1, h2⟩
    · simp [RangeList.empty] at hp
  · rintro ⟨p, hp, hle, h1, h2⟩
    exact ⟨p, (RangeList.mem_foldl rs _ p).mpr (Or.inl ⟨hp, hle⟩), h1, h2⟩

-- nested + overlapping + reversed: the D2 witness configuration
example : (RangeList.insertAll [(0, 16383), (10, 20), (30, 40), (9, 3)]).contains 21 = true := by decide
example : (RangeList.insertAll [(10, 20), (30, 40), (15, 35), (9, 3)]).contains 41 = false := by decide
example : ∃ p ∈ [(0, 16383), (10, 20), (30, 40)], p.1 ≤ p.2 ∧ p.1 ≤ 21 ∧ 21 ≤ p.2 :=
  ⟨(0, 16383), by simp, by decide, by decide, by decide⟩

private theorem filterSlot_of (f : KeyFilter) (sw sb : List (List Nat)) (k : Bytes)
    (hw : f.slotWhite = insertSlotList none sw) (hb : f.slotBlack = insertSlotList none sb) :
    f.filterSlot k = true ↔
      slotIn sb (Slot.hashSlotSpec k) ∨ (sw ≠ [] ∧ ¬ slotIn sw (Slot.hashSlotSpec k)) := by
  rw [filterSlot_eq, hw, hb, C11.keyToSlot_eq_spec, Bool.or_eq_true, Bool.and_eq_true,
    optContains_insertSlotList, isSome_insertSlotList, Bool.not_eq_true', ← optContains_insertSlotList sw]
  simp

/-- The slot rule of the tool's output filter rejects a key exactly when its
    cluster slot (Redis HASH_SLOT, by C11) lies in the union of the black
    entries, or a white list is configured and the slot is outside the union
    of the white entries. -/
theorem filterSlot_iff (c : FilterCfg) (k : Bytes) :
    (buildOutput c).filterSlot k = true ↔
      slotIn c.slotBlack (Slot.hashSlotSpec k) ∨
      (c.slotWhite ≠ [] ∧ ¬ slotIn c.slotWhite (Slot.hashSlotSpec k)) :=
  filterSlot_of _ _ _ k (out_slotWhite c) (out_slotBlack c)

/-- the same for a bare filter -/
theorem filterSlot_iff_bare (c : FilterCfg) (k : Bytes) :
    (build c).filterSlot k = true ↔
      slotIn c.slotBlack (Slot.hashSlotSpec k) ∨
      (c.slotWhite ≠ [] ∧ ¬ slotIn c.slotWhite (Slot.hashSlotSpec k)) :=
  filterSlot_of _ _ _ k (build_slotWhite c) (build_slotBlack c)

-- "{a}{b}" has slot 15495: inside white [0,16383],[10,20],[30,40] ⇒ accepted;
-- with black [15000,16000] nested in white ⇒ rejected
example : (buildOutput { slotWhite := [[0, 16383], [10, 20], [30, 40]] }).filterSlot
    [123,97,125,123,98,125] = false := by decide +kernel
example : (buildOutput { slotWhite := [[0, 16383], [10, 20]], slotBlack := [[15000, 16000], [7]] }).filterSlot
    [123,97,125,123,98,125] = true := by decide +kernel
example : slotIn [[15000, 16000], [7], [9, 3], []] 15495 :=
  ⟨[15000, 16000], by simp, 15000, 16000, by decide, by decide, by decide⟩

/-! ### key prefixes -/

/-- The byte-indexed trie built from any list of prefixes matches a key exactly
    when some non-empty configured prefix is a byte-wise prefix of the key. -/
theorem prefixMatch_iff (ps : List Bytes) (k : Bytes) :
    (ps.foldl (fun t p => t.insert p) Trie.empty).isPrefixMatch k = true ↔
      ∃ p ∈ ps, p ≠ [] ∧ p <+: k := by
  rw [Trie.isPrefixMatch_iff]
  constructor
  · rintro ⟨p, h1, h2, h3⟩
    rcases (Trie.search_foldl_insert ps _ p).mp h2 with h2 | h2
    · exact ⟨p, h2, h1, h3⟩
    · rw [Trie.search_empty] at h2; cases h2
  · rintro ⟨p, h1, h2, h3⟩
    exact ⟨p, h2, (Trie.search_foldl_insert ps _ p).mpr (Or.inl h1), h3⟩

-- D3 witnesses: prefix \xff does not match \xfe…; prefix \xc3 matches \xc3\xa9;
-- shared prefixes; the empty prefix is no rule
example : ([[0xff]].foldl (fun t p => t.insert p) Trie.empty).isPrefixMatch [0xfe, 97, 98] = false := by decide
example : ([[0xc3]].foldl (fun t p => t.insert p) Trie.empty).isPrefixMatch [0xc3, 0xa9] = true := by decide
example : ([[97, 98, 99], [97, 98], []].foldl (fun t p => t.insert p) Trie.empty).isPrefixMatch [97, 98, 100] = true := by
  decide
example : ([[]].foldl (fun t p => t.insert p) Trie.empty).isPrefixMatch [97] = false := by decide

/-- The prefix rule of the tool's output filter: black hit (the two reserved
    prefixes are always part of the black list), or a white list is configured
    and no white prefix hits. -/
theorem filterKey_iff (c : FilterCfg) (k : Bytes) :
    (buildOutput c).filterKey k = true ↔
      prefixHit (reservedPrefixes ++ c.prefBlack) k ∨ (c.prefWhite ≠ [] ∧ ¬ prefixHit c.prefWhite k) := by
  rw [filterKey_eq, out_prefBlack, out_prefWhite, Bool.or_eq_true, Bool.and_eq_true,
    optMatch_prefixes2, isSome_insertPrefixes, Bool.not_eq_true', ← optMatch_prefixes c.prefWhite]
  simp

/-- the same for a bare filter -/
theorem filterKey_iff_bare (c : FilterCfg) (k : Bytes) :
    (build c).filterKey k = true ↔
      prefixHit c.prefBlack k ∨ (c.prefWhite ≠ [] ∧ ¬ prefixHit c.prefWhite k) := by
  rw [filterKey_eq, build_prefBlack, build_prefWhite, Bool.or_eq_true, Bool.and_eq_true,
    optMatch_prefixes, isSome_insertPrefixes, Bool.not_eq_true', ← optMatch_prefixes c.prefWhite]
  simp

/-- The tool's own bookkeeping keys are never forwarded: a key that starts with
    `config.CheckpointKey` or `config.NamespacePrefixKey` (constants
    regenerated from source) is rejected under EVERY configuration. -/
theorem bookkeeping_never_forwarded (c : FilterCfg) (k : Bytes)
    (h : Gen.checkpointKey <+: k ∨ Gen.namespacePrefixKey <+: k) :
    (buildOutput c).filterKey k = true ∧ (buildOutput c).keyRejected k = true := by
  have hk : (buildOutput c).filterKey k = true := by
    rw [filterKey_iff]
    left
    rcases h with h | h
    · exact ⟨Gen.checkpointKey, by simp [reservedPrefixes], by decide, h⟩
    · exact ⟨Gen.namespacePrefixKey, by simp [reservedPrefixes], by decide, h⟩
  exact ⟨hk, by simp [KeyFilter.keyRejected, hk]⟩

-- "redis-gunyu-checkpoint:x" and "/redis-gunyu/a" under an empty and under a permissive configuration
example : Gen.checkpointKey <+: Gen.checkpointKey ++ [58, 120] := List.prefix_append _ _
example : (buildOutput {}).filterKey (Gen.checkpointKey ++ [58, 120]) = true := by decide +kernel
example : (buildOutput { prefWhite := [Gen.namespacePrefixKey] }).filterKey (Gen.namespacePrefixKey ++ [47, 97]) = true := by
  decide +kernel
example : (buildOutput {}).filterKey [117, 115, 101, 114] = false := by decide +kernel

/-! ### commands carrying keys -/

/-- Every key position the command table resolves is a position of an actual
    argument (so the "index out of range ⇒ reject" guard never fires), and a
    resolved command has at least one key. -/
theorem keyPositions_inRange (cmd : Bytes) (args : List Bytes) (idx : List Nat)
    (h : keyIndexes cmd args = some idx) : idx ≠ [] ∧ ∀ i ∈ idx, i < args.length :=
  keyIndexes_inRange h

/-- A command is forwarded untouched when no key rule is configured or when
    the (regenerated) command table does not resolve its key positions. -/
theorem filterCmdKey_passthrough (f : KeyFilter) (cmd : Bytes) (args : List Bytes)
    (h : f.hasKeyRules = false ∨ keyIndexes cmd args = none) :
    f.filterCmdKey cmd args = some args := by
  unfold KeyFilter.filterCmdKey
  rcases h with h | h
  · simp [h]
  · simp [h]

/-- For every filter with a key rule and every command whose key positions the
    table resolves to `idx` (with `kept` the positions of accepted keys):
    * all keys accepted ⇒ forwarded unchanged;
    * no key accepted ⇒ withheld;
    * otherwise DEL / UNLINK ⇒ exactly the accepted keys, in order;
      MSET ⇒ exactly the accepted key/value pairs, in order (withheld if an
      accepted key has no value); any other command ⇒ withheld entirely. -/
theorem filterCmdKey_spec (f : KeyFilter) (cmd : Bytes) (args : List Bytes) (idx : List Nat)
    (hr : f.hasKeyRules = true) (hidx : keyIndexes cmd args = some idx) :
    (keptIdx f args idx = idx → f.filterCmdKey cmd args = some args) ∧
    (keptIdx f args idx = [] → f.filterCmdKey cmd args = none) ∧
    (keptIdx f args idx ≠ idx → keptIdx f args idx ≠ [] →
      ((lower cmd = wDel ∨ lower cmd = wUnlink) →
        f.filterCmdKey cmd args = some ((keptIdx f args idx).map (fun i => args.getD i []))) ∧
      (lower cmd = wMset → (∀ i ∈ keptIdx f args idx, i + 1 < args.length) →
        f.filterCmdKey cmd args =
          some ((keptIdx f args idx).flatMap (fun i => [args.getD i [], args.getD (i + 1) []]))) ∧
      (lower cmd = wMset → (∃ i ∈ keptIdx f args idx, args.length ≤ i + 1) →
        f.filterCmdKey cmd args = none) ∧
      (lower cmd ≠ wDel → lower cmd ≠ wUnlink → lower cmd ≠ wMset →
        f.filterCmdKey cmd args = none)) := by
  refine ⟨filterCmdKey_all f cmd args idx hr hidx, filterCmdKey_none f cmd args idx hr hidx, ?_⟩
  intro hk1 hk2
  have hs := filterCmdKey_some f cmd args idx hr hidx hk1 hk2
  refine ⟨?_, ?_, ?_, ?_⟩
  · intro hd
    rw [hs, if_pos hd]
  · intro hm hall
    have hnd : ¬ (lower cmd = wDel ∨ lower cmd = wUnlink) := by
      rw [hm]; decide
    have hne : ¬ ∃ i ∈ keptIdx f args idx, args.length ≤ i + 1 := by
      rintro ⟨i, hi, hle⟩
      have := hall i hi
      omega
    rw [hs, if_neg hnd, if_pos hm, if_neg hne]
  · intro hm hex
    have hnd : ¬ (lower cmd = wDel ∨ lower cmd = wUnlink) := by
      rw [hm]; decide
    rw [hs, if_neg hnd, if_pos hm, if_pos hex]
  · intro h1 h2 h3
    have hnd : ¬ (lower cmd = wDel ∨ lower cmd = wUnlink) := fun h => h.elim h1 h2
    rw [hs, if_neg hnd, if_neg h3]

/-- A resolved key position holding a bookkeeping key is never among the
    forwarded positions, under every configuration: the filter has a key rule,
    the position is not in `keptIdx`, hence `keptIdx ≠ idx` and by
    `filterCmdKey_spec` the command is withheld or projected (DEL / UNLINK /
    MSET) to positions that exclude it. -/
theorem bookkeeping_cmd (c : FilterCfg) (args : List Bytes) (idx : List Nat) (i : Nat)
    (hi : i ∈ idx)
    (h : Gen.checkpointKey <+: args.getD i [] ∨ Gen.namespacePrefixKey <+: args.getD i []) :
    (buildOutput c).hasKeyRules = true ∧
    i ∉ keptIdx (buildOutput c) args idx ∧
    keptIdx (buildOutput c) args idx ≠ idx := by
  have hrej := (bookkeeping_never_forwarded c _ h).2
  have hnot : i ∉ keptIdx (buildOutput c) args idx := by
    unfold keptIdx
    rw [List.mem_filter]
    rintro ⟨_, h2⟩
    rw [hrej] at h2
    exact absurd h2 (by decide)
  have hr : (buildOutput c).hasKeyRules = true := by
    have : (buildOutput c).prefBlack.isSome = true := by
      rw [out_prefBlack, isSome_insertPrefixes, isSome_insertPrefixes]
      right; left; simp [reservedPrefixes]
    simp [KeyFilter.hasKeyRules, this]
  exact ⟨hr, hnot, fun he => hnot (by rw [he]; exact hi)⟩

-- DEL a b {reserved}: projected to the accepted keys; SET {reserved} v: withheld;
-- MSET with a rejected pair: accepted pairs kept; RENAME with one rejected key: withheld
example : (buildOutput {}).filterCmdKey wDel [[97], Gen.checkpointKey ++ [58, 49], [98]] = some [[97], [98]] := by
  decide +kernel
example : (buildOutput {}).filterCmdKey [115,101,116] [Gen.namespacePrefixKey ++ [47, 120], [118]] = none := by
  decide +kernel
example : (build { prefBlack := [[120]] }).filterCmdKey [77,83,69,84] [[97], [49], [120, 49], [50], [98], [51]] =
    some [[97], [49], [98], [51]] := by decide +kernel
example : (build { prefBlack := [[120]] }).filterCmdKey [114,101,110,97,109,101] [[97], [120, 49]] = none := by
  decide +kernel
example : keyIndexes [77,83,69,84] [[97], [49], [120, 49], [50], [98], [51]] = some [0, 2, 4] := by decide +kernel
example : keptIdx (build { prefBlack := [[120]] }) [[97], [49], [120, 49], [50], [98], [51]] [0, 2, 4] = [0, 4] := by
  decide +kernel

/-! ### command names -/

/-- The command rule of the tool's output filter: a name is withheld exactly
    when it equals the lower- or upper-case form of an entry of `NoRouteCmds`
    (regenerated) or of the configured blacklist. -/
theorem cmd_blacklist_iff (c : FilterCfg) (cmd : Bytes) :
    (buildOutput c).filterCmd cmd = true ↔ cmdListed (Gen.noRouteCmds ++ c.cmdBlack) cmd := by
  rw [filterCmd_eq, out_cmdBlack, out_cmdWhite]
  simp only [Option.isSome_none, Bool.false_and, Bool.or_false]
  rw [optSearch_insertCmds, optSearch_insertCmds]
  unfold cmdListed
  constructor
  · rintro (⟨b, hb, h⟩ | ⟨b, hb, h⟩ | h)
    · exact ⟨b, List.mem_append.mpr (Or.inr hb), h⟩
    · exact ⟨b, List.mem_append.mpr (Or.inl hb), h⟩
    · simp [optSearch] at h
  · rintro ⟨b, hb, h⟩
    rcases List.mem_append.mp hb with hb | hb
    · exact Or.inr (Or.inl ⟨b, hb, h⟩)
    · exact Or.inl ⟨b, hb, h⟩

/-- As the parser uses it (names arrive lower-cased): the name `n` is withheld
    exactly when it equals a listed name up to ASCII case. -/
theorem cmd_blacklist_folded (c : FilterCfg) (n : Bytes) :
    (buildOutput c).filterCmd (lower n) = true ↔ ∃ b ∈ Gen.noRouteCmds ++ c.cmdBlack, lower b = lower n := by
  rw [cmd_blacklist_iff]
  unfold cmdListed
  constructor
  · rintro ⟨b, hb, h | h⟩
    · exact ⟨b, hb, h.symm⟩
    · refine ⟨b, hb, ?_⟩
      have := congrArg lower h
      rw [lower_lower, lower_upper] at this
      exact this.symm
  · rintro ⟨b, hb, h⟩
    exact ⟨b, hb, Or.inl h.symm⟩

/-- bare filter with black and white command lists -/
theorem cmd_filter_iff_bare (c : FilterCfg) (cmd : Bytes) :
    (build c).filterCmd cmd = true ↔
      cmdListed c.cmdBlack cmd ∨ (c.cmdWhite ≠ [] ∧ ¬ cmdListed c.cmdWhite cmd) := by
  have hs : ∀ l : List Bytes, optSearch (insertCmds none l true) cmd = true ↔ cmdListed l cmd := by
    intro l
    rw [optSearch_insertCmds]
    unfold cmdListed
    simp [optSearch]
  rw [filterCmd_eq, build_cmdBlack, build_cmdWhite, Bool.or_eq_true, Bool.and_eq_true, hs,
    isSome_insertCmds, Bool.not_eq_true', ← hs c.cmdWhite]
  simp

-- "flushall" (NoRouteCmds has FLUSHALL), configured "Del" catches "del" and "DEL" but not "Del"
example : (buildOutput {}).filterCmd [102,108,117,115,104,97,108,108] = true := by decide +kernel
example : (buildOutput { cmdBlack := [[68,101,108]] }).filterCmd [100,101,108] = true := by decide +kernel
example : (buildOutput { cmdBlack := [[68,101,108]] }).filterCmd [115,101,116] = false := by decide +kernel
example : cmdListed (Gen.noRouteCmds ++ [[68,101,108]]) [100,101,108] :=
  ⟨[68,101,108], by simp, Or.inl (by decide)⟩

/-! ### databases -/

/-- A database is bypassed exactly when it is listed (−1 = "no database" never is). -/
theorem db_iff (c : FilterCfg) (db : Int) :
    (buildOutput c).filterDb db = true ↔ db ≠ -1 ∧ db ∈ c.dbBlack := by
  unfold KeyFilter.filterDb
  rw [out_dbBlack]
  by_cases h : db = -1 <;> simp [h]

theorem db_iff_bare (c : FilterCfg) (db : Int) :
    (build c).filterDb db = true ↔ db ≠ -1 ∧ db ∈ c.dbBlack := by
  unfold KeyFilter.filterDb
  rw [build_dbBlack]
  by_cases h : db = -1 <;> simp [h]

example : (buildOutput { dbBlack := [1, 3, -1] }).filterDb 3 = true := by decide
example : (buildOutput { dbBlack := [1, 3, -1] }).filterDb (-1) = false := by decide
example : (buildOutput { dbBlack := [1, 3, -1] }).filterDb 2 = false := by decide

/-! ### what a forwarded command carries (output level) -/

/-- Soundness and shape of the forwarded argument list, stated on the OUTPUT:
    whenever a command with resolved key positions is forwarded,
    * the table resolves the key positions of what is forwarded, and every key
      at these positions is accepted by the rules;
    * the forwarded keys are exactly the accepted keys of the command, in
      order (`(idx.map args[·]).filter accepted`);
    * either nothing was removed (`out = args`), or the command is DEL / UNLINK
      and `out` is that key list, or it is MSET and `out` is the accepted keys
      each followed by its own value. -/
theorem forwarded_keys_accepted (f : KeyFilter) (cmd : Bytes) (args out : List Bytes) (idx : List Nat)
    (hr : f.hasKeyRules = true) (hidx : keyIndexes cmd args = some idx)
    (h : f.filterCmdKey cmd args = some out) :
    (∃ idx', keyIndexes cmd out = some idx' ∧
        (∀ i ∈ idx', f.keyRejected (out.getD i []) = false) ∧
        idx'.map (fun i => out.getD i []) =
          (idx.map (fun i => args.getD i [])).filter (fun k => !f.keyRejected k)) ∧
    (out = args ∨
     ((lower cmd = wDel ∨ lower cmd = wUnlink) ∧
        out = (idx.map (fun i => args.getD i [])).filter (fun k => !f.keyRejected k)) ∨
     (lower cmd = wMset ∧
        out = (keptIdx f args idx).flatMap (fun i => [args.getD i [], args.getD (i + 1) []]))) := by
  have hkm : (keptIdx f args idx).map (fun i => args.getD i []) =
      (idx.map (fun i => args.getD i [])).filter (fun k => !f.keyRejected k) := by
    unfold keptIdx
    rw [List.filter_map]
    rfl
  have hacc : ∀ i ∈ keptIdx f args idx, f.keyRejected (args.getD i []) = false := by
    intro i hi
    unfold keptIdx at hi
    have := (List.mem_filter.mp hi).2
    simpa using this
  by_cases hk1 : keptIdx f args idx = idx
  · -- nothing removed
    have hout : out = args := by
      have := filterCmdKey_all f cmd args idx hr hidx hk1
      rw [this] at h; exact (Option.some.inj h).symm
    rw [hout]
    refine ⟨⟨idx, hidx, ?_, ?_⟩, Or.inl rfl⟩
    · intro i hi; exact hacc i (by rw [hk1]; exact hi)
    · rw [← hkm, hk1]
  · by_cases hk2 : keptIdx f args idx = []
    · rw [filterCmdKey_none f cmd args idx hr hidx hk2] at h; cases h
    · rw [filterCmdKey_some f cmd args idx hr hidx hk1 hk2] at h
      by_cases hd : lower cmd = wDel ∨ lower cmd = wUnlink
      · rw [if_pos hd] at h
        have hout := (Option.some.inj h).symm
        have hne : out ≠ [] := by
          rw [hout]; intro hc; exact hk2 (List.map_eq_nil_iff.mp hc)
        refine ⟨⟨List.range out.length, keyIndexes_del cmd hd out hne, ?_, ?_⟩, Or.inr (Or.inl ⟨hd, by rw [hout, hkm]⟩)⟩
        · intro i hi
          have hi' : i < out.length := List.mem_range.mp hi
          have hmem : out.getD i [] ∈ out := by
            rw [List.getD_eq_getElem?_getD, List.getElem?_eq_getElem hi']
            exact List.getElem_mem hi'
          have hmem' : out.getD i [] ∈ (keptIdx f args idx).map (fun i => args.getD i []) := by
            rw [← hout]; exact hmem
          obtain ⟨j, hj, hjeq⟩ := List.mem_map.mp hmem'
          rw [← hjeq]; exact hacc j hj
        · have : (List.range out.length).map (fun i => out.getD i []) = out := by
            apply List.ext_getElem
            · simp
            · intro n h1 h2
              simp [List.getD_eq_getElem?_getD, List.getElem?_eq_getElem (by simpa using h1 : n < out.length)]
          rw [this, hout, hkm]
      · rw [if_neg hd] at h
        by_cases hm : lower cmd = wMset
        · rw [if_pos hm] at h
          split at h
          · cases h
          · have hout := (Option.some.inj h).symm
            refine ⟨⟨_, by rw [hout]; exact keyIndexes_mset cmd hm (keptIdx f args idx) _ _ hk2, ?_, ?_⟩,
              Or.inr (Or.inr ⟨hm, hout⟩)⟩
            · intro i hi
              obtain ⟨j, hj, rfl⟩ := List.mem_map.mp hi
              have hj' := List.mem_range.mp hj
              rw [hout, getD_flatMap_pairs _ _ _ j hj']
              exact hacc _ (List.getElem_mem hj')
            · rw [← hkm, hout]
              apply List.ext_getElem
              · simp
              · intro n h1 h2
                have hn : n < (keptIdx f args idx).length := by simpa using h2
                simp only [List.getElem_map, List.getElem_range]
                exact getD_flatMap_pairs _ _ _ n hn
        · rw [if_neg hm] at h; cases h

/-- No bookkeeping key is ever forwarded at a key position, under every
    configuration: in whatever the tool's filter lets through of a command with
    resolved key positions, no key position holds a key with a reserved prefix. -/
theorem forwarded_keys_not_reserved (c : FilterCfg) (cmd : Bytes) (args out : List Bytes) (idx : List Nat)
    (hidx : keyIndexes cmd args = some idx)
    (h : (buildOutput c).filterCmdKey cmd args = some out) :
    ∃ idx', keyIndexes cmd out = some idx' ∧
      ∀ i ∈ idx', ¬ (Gen.checkpointKey <+: out.getD i [] ∨ Gen.namespacePrefixKey <+: out.getD i []) := by
  have hr : (buildOutput c).hasKeyRules = true := by
    have : (buildOutput c).prefBlack.isSome = true := by
      rw [out_prefBlack, isSome_insertPrefixes, isSome_insertPrefixes]
      right; left; simp [reservedPrefixes]
    simp [KeyFilter.hasKeyRules, this]
  obtain ⟨⟨idx', h1, h2, _⟩, _⟩ := forwarded_keys_accepted _ cmd args out idx hr hidx h
  refine ⟨idx', h1, ?_⟩
  intro i hi hres
  have := (bookkeeping_never_forwarded c _ hres).2
  rw [h2 i hi] at this
  cases this

/-! ### the bisync control namespace (plain links and both snapshot loops) -/

/-- the namespace filter rejects exactly the keys under "redis-gunyu-bisync:" -/
theorem nsFilter_iff (k : Bytes) : nsFilter.filterKey k = true ↔ bisyncNamespace <+: k := by
  have h1 : nsFilter.prefBlack = insertPrefixes none [bisyncNamespace] := rfl
  have h2 : nsFilter.prefWhite = none := rfl
  rw [filterKey_eq, h1, h2]
  simp only [Option.isSome_none, Bool.false_and, Bool.or_false]
  rw [optMatch_prefixes]
  unfold prefixHit
  constructor
  · rintro ⟨p, hp, _, hpre⟩
    simp only [List.mem_singleton] at hp
    rw [← hp]; exact hpre
  · intro h
    exact ⟨bisyncNamespace, by simp, by decide, h⟩

/-- the three bookkeeping namespaces the tool documents (docs/bisync.md §4.1):
    `redis-gunyu-checkpoint…`, `/redis-gunyu…`, `redis-gunyu-bisync:…` -/
def Bookkeeping (k : Bytes) : Prop :=
  Gen.checkpointKey <+: k ∨ Gen.namespacePrefixKey <+: k ∨ bisyncNamespace <+: k

/-- On a plain link every key of the three bookkeeping namespaces is withheld,
    under every configuration. -/
theorem bookkeeping_never_forwarded_plain (c : FilterCfg) (k : Bytes) (h : Bookkeeping k) :
    plainKeyRejected (buildOutput c) k = true := by
  unfold plainKeyRejected
  rcases h with h | h | h
  · rw [(bookkeeping_never_forwarded c k (Or.inl h)).2]; rfl
  · rw [(bookkeeping_never_forwarded c k (Or.inr h)).2]; rfl
  · rw [(nsFilter_iff k).mpr h]; simp

/-- every key constructor of pkg/redis/checkpoint/bisync.go (regenerated:
    marker, commit index, latest, commit record, rdb record) builds a key of
    the bisync namespace, for every checkpoint name, slot tag and sequence -/
theorem bisync_keys_in_namespace (cp tag : Bytes) (seq : Nat) :
    Bookkeeping (Gen.markerKey cp tag) ∧ Bookkeeping (Gen.commitIndexKey cp tag) ∧
    Bookkeeping (Gen.latestKey cp tag) ∧ Bookkeeping (Gen.commitRecordKey cp tag seq) ∧
    Bookkeeping (Gen.rdbRecordKey cp tag seq) := by
  refine ⟨?_, ?_, ?_, ?_, ?_⟩ <;>
  · right; right
    simp only [Gen.markerKey, Gen.commitIndexKey, Gen.latestKey, Gen.commitRecordKey, Gen.rdbRecordKey,
      bisyncNamespace, List.append_assoc]
    exact List.prefix_append _ _

/-- What a plain link forwards of a table-resolved command (`outFilter`, then
    the namespace filter): the key positions of the result resolve, and no key
    at them is rejected by either filter — in particular none lies in a
    bookkeeping namespace. -/
theorem plain_forwarded_keys_accepted (c : FilterCfg) (cmd : Bytes) (args out : List Bytes) (idx : List Nat)
    (hidx : keyIndexes cmd args = some idx)
    (h : plainFilterCmdKey (buildOutput c) cmd args = some out) :
    ∃ idx', keyIndexes cmd out = some idx' ∧
      ∀ i ∈ idx', plainKeyRejected (buildOutput c) (out.getD i []) = false ∧ ¬ Bookkeeping (out.getD i []) := by
  unfold plainFilterCmdKey at h
  cases h1 : (buildOutput c).filterCmdKey cmd args with
  | none => rw [h1] at h; cases h
  | some o1 =>
    rw [h1] at h
    simp only [Option.bind_some] at h
    have hr : (buildOutput c).hasKeyRules = true := by
      have : (buildOutput c).prefBlack.isSome = true := by
        rw [out_prefBlack, isSome_insertPrefixes, isSome_insertPrefixes]
        right; left; simp [reservedPrefixes]
      simp [KeyFilter.hasKeyRules, this]
    have hrn : nsFilter.hasKeyRules = true := by decide
    obtain ⟨⟨idx1, hi1, hacc1, _⟩, _⟩ := forwarded_keys_accepted _ cmd args o1 idx hr hidx h1
    obtain ⟨⟨idx2, hi2, hacc2, hkeys2⟩, _⟩ := forwarded_keys_accepted _ cmd o1 out idx1 hrn hi1 h
    refine ⟨idx2, hi2, ?_⟩
    intro i hi
    have hmem : out.getD i [] ∈ idx2.map (fun i => out.getD i []) := List.mem_map.mpr ⟨i, hi, rfl⟩
    rw [hkeys2] at hmem
    obtain ⟨hm1, _⟩ := List.mem_filter.mp hmem
    obtain ⟨j, hj, hjeq⟩ := List.mem_map.mp hm1
    have hA : (buildOutput c).keyRejected (out.getD i []) = false := by rw [← hjeq]; exact hacc1 j hj
    have hB : nsFilter.filterKey (out.getD i []) = false := by
      have := hacc2 i hi
      unfold KeyFilter.keyRejected at this
      simp only [Bool.or_eq_false_iff] at this
      exact this.1
    have hrej : plainKeyRejected (buildOutput c) (out.getD i []) = false := by
      unfold plainKeyRejected; rw [hA, hB]; rfl
    refine ⟨hrej, ?_⟩
    intro hbk
    rw [bookkeeping_never_forwarded_plain c _ hbk] at hrej
    cases hrej

-- DEL a <latest record> b on a plain link: projected; SET <marker> v: withheld
example : plainFilterCmdKey (buildOutput {}) wDel [[97], Gen.latestKey [99,112] [116], [98]] = some [[97], [98]] := by
  decide +kernel
example : plainFilterCmdKey (buildOutput {}) [115,101,116] [Gen.markerKey [99,112] [116], [118]] = none := by
  decide +kernel
example : Bookkeeping (Gen.commitRecordKey [99,112] [116] 7) := (bisync_keys_in_namespace [99,112] [116] 7).2.2.2.1

/-! ### the snapshot path -/

/-- A snapshot key of database `db` is replayed by `rdbReplay` exactly when the
    database is not listed, no black prefix hits and — if a white list is
    configured — a white prefix hits, the slot rule accepts its cluster slot,
    and it is not a bisync control key. -/
theorem rdbKeep_iff (c : FilterCfg) (db : Int) (k : Bytes) :
    rdbKeep (buildOutput c) db k = true ↔
      ¬ (db ≠ -1 ∧ db ∈ c.dbBlack) ∧
      ¬ (prefixHit (reservedPrefixes ++ c.prefBlack) k ∨ (c.prefWhite ≠ [] ∧ ¬ prefixHit c.prefWhite k)) ∧
      ¬ (slotIn c.slotBlack (Slot.hashSlotSpec k) ∨
          (c.slotWhite ≠ [] ∧ ¬ slotIn c.slotWhite (Slot.hashSlotSpec k))) ∧
      ¬ bisyncNamespace <+: k := by
  unfold rdbKeep
  rw [Bool.and_eq_true, Bool.not_eq_true', Bool.not_eq_true', Bool.or_eq_false_iff, Bool.or_eq_false_iff,
    ← db_iff, ← filterKey_iff, ← filterSlot_iff, ← nsFilter_iff]
  simp only [Bool.not_eq_true, and_assoc]

/-- the same for `rdbReplayBisync` (whose namespace test also names the
    checkpoint prefix, already reserved) -/
theorem rdbKeepBisync_iff (c : FilterCfg) (db : Int) (k : Bytes) :
    rdbKeepBisync (buildOutput c) db k = rdbKeep (buildOutput c) db k := by
  unfold rdbKeepBisync rdbKeep isBisyncNamespaceKey
  cases hn : nsFilter.filterKey k
  · have hnot : ¬ bisyncNamespace <+: k := fun h => by rw [(nsFilter_iff k).mpr h] at hn; cases hn
    have h1 : bisyncNamespace.isPrefixOf k = false := by
      cases hb : bisyncNamespace.isPrefixOf k
      · rfl
      · exact absurd (List.isPrefixOf_iff_prefix.mp hb) hnot
    cases hc : Gen.checkpointKey.isPrefixOf k
    · simp [h1]
    · have hk := (bookkeeping_never_forwarded c k (Or.inl (List.isPrefixOf_iff_prefix.mp hc))).1
      simp [hk]
  · have hp : bisyncNamespace.isPrefixOf k = true := List.isPrefixOf_iff_prefix.mpr ((nsFilter_iff k).mp hn)
    simp [hp]

/-- no bookkeeping key found in a snapshot is replayed, under every configuration -/
theorem snapshot_never_replays_bookkeeping (c : FilterCfg) (db : Int) (k : Bytes) (h : Bookkeeping k) :
    rdbKeep (buildOutput c) db k = false ∧ rdbKeepBisync (buildOutput c) db k = false := by
  have h1 : rdbKeep (buildOutput c) db k = false := by
    have := bookkeeping_never_forwarded_plain c k h
    unfold plainKeyRejected KeyFilter.keyRejected at this
    unfold rdbKeep
    cases hk : (buildOutput c).filterKey k <;> cases hs : (buildOutput c).filterSlot k <;>
      cases hn : nsFilter.filterKey k <;> simp [hk, hs, hn] at this ⊢
  exact ⟨h1, by rw [rdbKeepBisync_iff]; exact h1⟩

example : rdbKeep (buildOutput { dbBlack := [2], prefBlack := [[120]] }) 1 [97] = true := by decide +kernel
example : rdbKeep (buildOutput { dbBlack := [2], prefBlack := [[120]] }) 2 [97] = false := by decide +kernel
example : rdbKeep (buildOutput { dbBlack := [2], prefBlack := [[120]] }) 1 [120, 97] = false := by decide +kernel
example : rdbKeep (buildOutput {}) 0 (Gen.checkpointKey ++ [58]) = false := by decide +kernel
example : rdbKeep (buildOutput {}) 0 (Gen.latestKey [99,112] [116]) = false := by decide +kernel
example : rdbKeepBisync (buildOutput {}) 0 (Gen.latestKey [99,112] [116]) = false := by decide +kernel

/-! ### the parser's use of the filter (stream level)

  `pcfgOf f …` is the parser configuration of a RedisOutput whose filter is `f`
  (Model/FilterParse.lean); `Sender.parseStep` / `Sender.parseAll` are the
  parser-loop model shared with C01 (Model/Sender.lean). -/

/-- An ordinary command (not PING / SELECT) outside a bypassed database is
    handed to the sender exactly when its name is not withheld, it is not the
    sentinel hello, and the key rules (`outFilter`, then the bisync namespace
    filter) let it through — with the arguments the key rules produce, its own
    end offset and the current target database. -/
theorem parse_forward_iff (f : KeyFilter) (tdb : Int) (m : List (Int × Int)) (sdb : Int)
    (s : Sender.PState) (r : Sender.Raw) (i : Sender.Item)
    (hp : r.cmd ≠ Sender.bPing) (hs : r.cmd ≠ Sender.bSelect) (hb : s.bypass = false) :
    (∃ s', Sender.parseStep (pcfgOf f tdb m sdb) s r = (s', .emit i)) ↔
      f.filterCmd r.cmd = false ∧
      ¬ (r.cmd = Sender.bPublish ∧ (r.args.head?.map lower) = some Sender.bSentinelHello) ∧
      ∃ out, plainFilterCmdKey f r.cmd r.args = some out ∧
        i = { cmd := r.cmd, args := out, offset := r.off, db := s.currentDB } := by
  unfold Sender.parseStep pcfgOf
  simp only [hp, hs, if_false]
  have hct : Sender.passBracket s r.cmd = false := by simp [Sender.passBracket, hb]
  by_cases hfc : f.filterCmd r.cmd = true
  · simp [hfc]
  · have hfc' : f.filterCmd r.cmd = false := by simpa using hfc
    simp only [hfc', Bool.false_eq_true, if_false, true_and]
    by_cases hsen : r.cmd = Sender.bPublish ∧ Option.map lower r.args.head? = some Sender.bSentinelHello
    · simp [hsen]
    · simp only [hsen, if_false, not_false_eq_true, true_and, hb, hct, Bool.false_eq_true, false_and]
      cases hk : plainFilterCmdKey f r.cmd r.args with
      | none => simp
      | some out =>
        simp only [Option.some.injEq, exists_eq_left', Prod.mk.injEq, Sender.POut.emit.injEq]
        exact eq_comm

/-- The database rule over a command STREAM. After a well-formed `SELECT n` of
    a listed database, until the next SELECT (`mid` holds no SELECT):
    * the SELECT itself is withheld and the state only gains the bypass flag;
    * everything of `mid` that is handed to the sender is a transaction bracket
      (MULTI / EXEC, which the sender absorbs: a withheld bracket would let a
      transaction that enters or leaves the database run half inside, half
      outside a transaction), carrying the offset of the last command handed
      over before the switch — no data command of a listed database is ever
      forwarded, whatever else the stream contains, and the resume position
      does not move into the region. -/
theorem no_forward_in_listed_db (c : FilterCfg) (tdb : Int) (m : List (Int × Int)) (sdb : Int)
    (s : Sender.PState) (a : Bytes) (n : Int) (off : Int) (mid : List Sender.Raw)
    (ha : Sender.atoi? a = some n) (hn : n ≠ -1) (hdb : n ∈ c.dbBlack)
    (hmid : ∀ p ∈ mid, p.cmd ≠ Sender.bSelect) :
    let pc := pcfgOf (buildOutput c) tdb m sdb
    Sender.parseAll pc s ({ cmd := Sender.bSelect, args := [a], off := off } :: mid) =
      Sender.parseAll pc { s with bypass := true } mid ∧
    ∀ i ∈ Sender.parseAll pc { s with bypass := true } mid,
      (i.cmd = Sender.bMulti ∨ i.cmd = Sender.bExec) ∧ i.offset = s.lastSent := by
  intro pc
  have hf : pc.filterDb n = true := (db_iff c n).mpr ⟨hn, hdb⟩
  have hstep := parseStep_select_listed pc s a n off ha hf
  refine ⟨by rw [Sender.parseAll, hstep], ?_⟩
  exact parseAll_bypass pc { s with bypass := true } mid rfl hmid

/-- The converse over a command STREAM: after a well-formed `SELECT n` of an
    UNLISTED database and any commands but SELECT (`mid`), the parser is not in
    bypass, so an ordinary command is handed to the sender exactly when the
    name and key rules accept it (with `no_forward_in_listed_db`: "exactly"). -/
theorem unlisted_db_forwards_exactly (c : FilterCfg) (tdb : Int) (m : List (Int × Int)) (sdb : Int)
    (s : Sender.PState) (a : Bytes) (n : Int) (off : Int) (mid : List Sender.Raw)
    (r : Sender.Raw) (i : Sender.Item)
    (ha : Sender.atoi? a = some n) (hdb : ¬ (n ≠ -1 ∧ n ∈ c.dbBlack))
    (hmid : ∀ p ∈ mid, p.cmd ≠ Sender.bSelect)
    (hp : r.cmd ≠ Sender.bPing) (hs : r.cmd ≠ Sender.bSelect) :
    let pc := pcfgOf (buildOutput c) tdb m sdb
    let s2 := stateAfter pc s ({ cmd := Sender.bSelect, args := [a], off := off } :: mid)
    s2.bypass = false ∧
    ((∃ s', Sender.parseStep pc s2 r = (s', .emit i)) ↔
      (buildOutput c).filterCmd r.cmd = false ∧
      ¬ (r.cmd = Sender.bPublish ∧ (r.args.head?.map lower) = some Sender.bSentinelHello) ∧
      ∃ out, plainFilterCmdKey (buildOutput c) r.cmd r.args = some out ∧
        i = { cmd := r.cmd, args := out, offset := r.off, db := s2.currentDB }) := by
  intro pc s2
  have hf : pc.filterDb n = false := by
    cases hfd : pc.filterDb n
    · rfl
    · exact absurd ((db_iff c n).mp hfd) hdb
  have hb : s2.bypass = false := by
    show (stateAfter pc s (_ :: mid)).bypass = false
    unfold stateAfter
    rw [List.foldl_cons]
    have := stateAfter_keeps_bypass pc (Sender.parseStep pc s { cmd := Sender.bSelect, args := [a], off := off }).1 mid hmid
    unfold stateAfter at this
    rw [this]
    exact parseStep_select_unlisted pc s a n off ha hf
  exact ⟨hb, parse_forward_iff (buildOutput c) tdb m sdb s2 r i hp hs hb⟩

-- db 1 listed: SET in db 1 withheld, the EXEC of the transaction opened in db 0 passes with
-- the offset of the last command handed over (20), SET after SELECT 0 is forwarded again
example :
    (Sender.parseAll (pcfgOf (buildOutput { dbBlack := [1] })) { lastSent := 0 }
      [ { cmd := Sender.bMulti, args := [], off := 10 },
        { cmd := [115,101,116], args := [[97],[49]], off := 20 },
        { cmd := Sender.bSelect, args := [[49]], off := 30 },
        { cmd := [115,101,116], args := [[98],[50]], off := 40 },
        { cmd := Sender.bExec, args := [], off := 50 },
        { cmd := [115,101,116], args := [[99],[51]], off := 60 },
        { cmd := Sender.bSelect, args := [[48]], off := 70 },
        { cmd := [115,101,116], args := [[100],[52]], off := 80 } ]).map (fun i => (i.cmd, i.offset)) =
    [(Sender.bMulti, 10), ([115,101,116], 20), (Sender.bExec, 20), (Sender.bSelect, 70), ([115,101,116], 80)] := by
  decide +kernel

-- a transaction wholly inside the listed database: both brackets handed over (empty), at offset 0;
-- a transaction that starts inside and leaves it: MULTI(0), select 0, the SET, EXEC
example :
    (Sender.parseAll (pcfgOf (buildOutput { dbBlack := [1] })) { lastSent := 0 }
      [ { cmd := Sender.bSelect, args := [[49]], off := 10 },
        { cmd := Sender.bMulti, args := [], off := 20 },
        { cmd := [115,101,116], args := [[107],[118]], off := 30 },
        { cmd := Sender.bExec, args := [], off := 40 },
        { cmd := Sender.bMulti, args := [], off := 50 },
        { cmd := Sender.bSelect, args := [[48]], off := 60 },
        { cmd := [115,101,116], args := [[107],[118]], off := 70 },
        { cmd := Sender.bExec, args := [], off := 80 } ]).map (fun i => (i.cmd, i.offset)) =
    [(Sender.bMulti, 0), (Sender.bExec, 0), (Sender.bMulti, 0), (Sender.bSelect, 60), ([115,101,116], 70),
     (Sender.bExec, 80)] := by
  decide +kernel

end GunYu.Props.C10
