/-
  C05, disk backend — the reader REACHES the writer's end (bounded progress as safety).

  Session 4 proved the catch-up STEP (`disk_reader_delivers_next`). Here the steps are
  composed over ANY schedule of the reader's own moves (`AofRotateReader.read`, with or
  without a collector pass inside its rotation step), collector passes, appends of the
  stream writer, snapshot chunks and every move of OTHER readers: the reader's distance
  to the writer's end obeys a counted bound. The fairness assumption of the liveness
  reading ("the reader is scheduled k times after the last append") is a hypothesis of
  a proved safety theorem; no interleaving of collector passes can stall the reader.
-/
import GunYu.Proofs.StoreReach

namespace GunYu.Props.C05
open GunYu GunYu.Store

/-- the two statements over any state satisfying the disk invariant -/
theorem disk_reach_core {s : Disk} (hi : DInv s) (rid : Nat) (sch : List PMove) (r : DReader)
    (hF : Follows s rid r) (hok : s.schedOk rid sch) :
    ∃ r', Follows (s.sched rid sch) rid r' ∧ r'.start = r.start ∧ r.pos ≤ r'.pos ∧
      (s.sched rid sch).endOff - r'.pos ≤ lagBound (s.endOff - r.pos) sch ∧
      r'.pos ≤ (s.sched rid sch).endOff ∧ (s.sched rid sch).hbase ≤ r'.start ∧ r'.start ≤ r'.pos ∧
      r'.out = ((s.sched rid sch).hist.drop (r'.start - (s.sched rid sch).hbase)).take (r'.pos - r'.start) := by
  obtain ⟨r', hi', hF', hst, hle, _, hlag⟩ := sched_lag sch hi hF hok
  obtain ⟨hpe, hs, hsp, hout⟩ := follows_le_end hi' hF'
  exact ⟨r', hF', hst, hle, hlag, hpe, hs, hsp, hout⟩

/-- **disk_reader_lag_bounded.** In every state reachable by the callers' protocol, for
    an open stream reader between two moves and ANY schedule (own moves with buffers of
    any positive size, collector passes — also inside the rotation step —, appends,
    snapshot chunks, opens / reads / rotation halves / closes of other readers): the
    reader is still a valid stream reader opened at the same offset, never moved back,
    its distance to the writer's end is at most `lagBound` (−1 per own move while
    positive, + length per append, unchanged by everything else), and what it delivered
    are exactly the history's bytes from its start to its position. -/
theorem disk_reader_lag_bounded (l m : Nat) (ops : List DOp) (hwf : (Disk.init l m).wf ops) (rid : Nat)
    (sch : List PMove) :
    let s := (Disk.init l m).run ops
    ∀ r, Follows s rid r → s.schedOk rid sch →
      ∃ r', Follows (s.sched rid sch) rid r' ∧ r'.start = r.start ∧ r.pos ≤ r'.pos ∧
        (s.sched rid sch).endOff - r'.pos ≤ lagBound (s.endOff - r.pos) sch ∧
        r'.pos ≤ (s.sched rid sch).endOff ∧
        r'.out = ((s.sched rid sch).hist.drop (r'.start - (s.sched rid sch).hbase)).take (r'.pos - r'.start) := by
  intro s r hF hok
  obtain ⟨r', h1, h2, h3, h4, h5, _, _, h8⟩ := disk_reach_core ((DInv.init l m).run ops hwf) rid sch r hF hok
  exact ⟨r', h1, h2, h3, h4, h5, h8⟩

/-- the same with the fairness hypothesis: no append in the schedule, at least as many own
    moves as the reader is behind -/
theorem disk_reach_end_core {s : Disk} (hi : DInv s) (rid : Nat) (sch : List PMove) (r : DReader)
    (hF : Follows s rid r) (hok : s.schedOk rid sch) (hna : noAppend sch = true)
    (hk : s.endOff - r.pos ≤ ownMoves sch) :
    ∃ r', Follows (s.sched rid sch) rid r' ∧ r'.start = r.start ∧
      r'.pos = (s.sched rid sch).endOff ∧
      r'.out = (s.sched rid sch).hist.drop (r'.start - (s.sched rid sch).hbase) := by
  obtain ⟨r', hF', hst, _, hlag, hpe, hs, hsp, hout⟩ := disk_reach_core hi rid sch r hF hok
  rw [lagBound_noAppend sch _ hna] at hlag
  have hpos : r'.pos = (s.sched rid sch).endOff := by omega
  refine ⟨r', hF', hst, hpos, ?_⟩
  rw [hout]
  apply List.take_of_length_le
  simp only [List.length_drop]
  unfold Disk.endOff at hpos
  omega

/-- **disk_reader_reaches_end.** No append in the schedule and at least as many own moves
    as the reader was behind (one byte per move is the worst case; a move delivers up to a
    buffer or the rest of its file): after the schedule the reader STANDS AT THE WRITER'S
    END and has delivered every byte of the history from its start — whatever collector
    passes and moves of other readers the schedule interleaves. -/
theorem disk_reader_reaches_end (l m : Nat) (ops : List DOp) (hwf : (Disk.init l m).wf ops) (rid : Nat)
    (sch : List PMove) :
    let s := (Disk.init l m).run ops
    ∀ r, Follows s rid r → s.schedOk rid sch → noAppend sch = true → s.endOff - r.pos ≤ ownMoves sch →
      ∃ r', Follows (s.sched rid sch) rid r' ∧ r'.start = r.start ∧
        r'.pos = (s.sched rid sch).endOff ∧
        r'.out = (s.sched rid sch).hist.drop (r'.start - (s.sched rid sch).hbase) := by
  intro s r hF hok hna hk
  exact disk_reach_end_core ((DInv.init l m).run ops hwf) rid sch r hF hok hna hk

/-- the bound is tight in the worst case and generous otherwise: with buffers at least as
    large as a segment ONE move per segment suffices — stated as the general monotone
    fact that a larger bound never hurts (used by the examples below) -/
theorem disk_lag_bound_mono (sch : List PMove) {a b : Nat} (h : a ≤ b) : lagBound a sch ≤ lagBound b sch :=
  lagBound_mono sch h

/-- a collector pass inside or between the reader's moves never adds to the distance:
    the bound of a schedule does not change when collector passes are inserted -/
theorem disk_gc_never_adds_lag (d : Nat) (pre post : List PMove) :
    lagBound d (pre ++ .other .gc :: post) = lagBound d (pre ++ post) := by
  induction pre generalizing d with
  | nil => rfl
  | cons m t ih =>
    cases m with
    | follow n => exact ih (d - 1)
    | followGc n => exact ih (d - 1)
    | other op =>
      cases op <;> first | exact ih _ | exact ih d

/-! ### non-vacuity: three segments, collector passes between and inside the moves, a
    second reader moving and closing; the first reader ends at the writer's end -/

def exReachOps : List DOp :=
  [ .setRunId "id1", .newAofWriter 100, .aofAppend [1,2,3,4,5,6,7,8,9],
    .openReader 1 100 true, .aofAppend [10,11,12,13,14,15,16,17,18], .aofAppend [19,20], .openReader 0 105 true ]

def exReachSched : List PMove :=
  [ .other .gc, .follow 2, .other (.read 1 100), .followGc 100, .other .gc, .other (.closeReader 1),
    .followGc 100, .other .gc, .follow 100, .follow 1, .follow 1, .follow 1, .follow 1, .follow 1,
    .follow 1, .follow 1, .follow 1, .follow 1, .follow 1, .follow 1 ]

example : (Disk.init 24 10).wf exReachOps := by decide
example : ((Disk.init 24 10).run exReachOps).schedOk 0 exReachSched := by decide
example : noAppend exReachSched = true := by decide
example : ((Disk.init 24 10).run exReachOps).endOff = 120 ∧ ownMoves exReachSched = 15 := by decide
example : (findReader ((Disk.init 24 10).run exReachOps).readers 0).map (fun r => (r.isOpen, r.isAof, r.prev, r.pos)) =
    some (true, true, none, 105) := by decide
/-- the collector really removes a segment on the way -/
example : ((Disk.init 24 10).run exReachOps).all.map (·.left) = [100, 109, 118] ∧
    (((Disk.init 24 10).run exReachOps).sched 0 exReachSched).all.map (·.left) = [109, 118] := by decide
set_option maxRecDepth 8000 in
example : (findReader (((Disk.init 24 10).run exReachOps).sched 0 exReachSched).readers 0).map (fun r => (r.pos, r.out)) =
    some (120, [6,7,8,9,10,11,12,13,14,15,16,17,18,19,20]) := by decide
/-- with an append in the schedule the bound grows by its length -/
example : lagBound 3 [.follow 1, .other (.aofAppend [1,2]), .other .gc, .followGc 4] = 3 := by decide

end GunYu.Props.C05
