/-
  C03 (session 5, gofn) — the listpack element decoder is REGENERATED from
  pkg/redis/types/listpack.go (`lpEncodeBacklen`, `Listpack.Next`; lean/GunYu/Gen/FnListpack.lean,
  generator `gofn_listpack`) on every run and proved equal, for EVERY listpack buffer and cursor,
  to the hand model `Rdb.lpNext` that C03's decode theorems (`lpNext_enc`, `lpAll_blob`,
  `lpPairs_blob`, the hash / zset / set / quicklist2 / stream readers) are about - including every
  way it fails (Go index / slice panic ⇔ the model's `none`; 0xF5..0xFF ⇔ "invalid element encoding").
  Side conditions: `len(data) < 2^31` (so that no uint32 cursor arithmetic of a returning call wraps;
  RDB strings are below 512 MiB) and `p ≤ len(data)`.
  This is where N2 (count field 65535) and D23 (cursor not advancing) were found: an edit of any mask,
  shift, width or skip in `Next` changes the generated definition and breaks these proofs.
-/
import GunYu.Proofs.GenS5ListpackNext

namespace GunYu.Props.C03
open GunYu GunYu.Gen GunYu.Rdb

/-- `lpEncodeBacklen(len)` = `len + (size of the back-length field)` of the model, in uint32, for all 2^32 inputs -/
theorem gen_lpEncodeBacklen_eq_model (len : BitVec 32) :
    Fn.lpEncodeBacklen len = some (BitVec.ofNat 32 (lpSkip len.toNat)) :=
  Proofs.GenS5.gen_lpEncodeBacklen_eq len

/-- the regenerated `Listpack.Next` IS the model's `lpNext` on `data[p:]`: same element, same bytes left
    behind the new cursor, same failures -/
theorem gen_lpNext_eq_model (lp : Fn.Listpack) (hlen : lp.data.length < 2147483648) (hp : lp.p.toNat ≤ lp.data.length) :
    (Fn.lpNext lp).map (fun r => (r.2, r.1.data.drop r.1.p.toNat)) = lpNext (lp.data.drop lp.p.toNat) :=
  Proofs.GenS5.gen_lpNext_eq_model lp hlen hp

/-- `Next` moves the cursor and nothing else: the buffer and the header fields (`NumElements()` is what the
    callers count their reads by) are those of the listpack it was called on -/
theorem gen_lpNext_frame (lp lp' : Fn.Listpack) (e : Bytes) (hlen : lp.data.length < 2147483648)
    (hp : lp.p.toNat ≤ lp.data.length) (h : Fn.lpNext lp = some (lp', e)) :
    lp'.data = lp.data ∧ lp'.numBytes = lp.numBytes ∧ lp'.numElements = lp.numElements :=
  Proofs.GenS5.gen_lpNext_frame lp lp' e hlen hp h

/-- a first byte 0xF5..0xFF (no element encoding; 0xFF = end marker) never yields an element -/
theorem gen_lpNext_invalid_panics (lp : Fn.Listpack) (hlen : lp.data.length < 2147483648)
    (hp : lp.p.toNat < lp.data.length) (hb : 245 ≤ (lp.data[lp.p.toNat]'hp).toNat) :
    Fn.lpNext lp = none := by
  have h := gen_lpNext_eq_model lp hlen (Nat.le_of_lt hp)
  rw [List.drop_eq_getElem_cons hp] at h
  have hlt := (lp.data[lp.p.toNat]'hp).toNat_lt
  have hm : lpNext (lp.data[lp.p.toNat] :: lp.data.drop (lp.p.toNat + 1)) = none := by
    unfold lpNext
    have c1 : ¬ ((lp.data[lp.p.toNat]'hp).toNat / 128 = 0) := by omega
    have c2 : ¬ ((lp.data[lp.p.toNat]'hp).toNat / 64 = 2) := by omega
    have c3 : ¬ ((lp.data[lp.p.toNat]'hp).toNat / 32 = 6) := by omega
    have c4 : ¬ ((lp.data[lp.p.toNat]'hp).toNat / 16 = 14) := by omega
    have c5 : ¬ ((lp.data[lp.p.toNat]'hp).toNat = 240) := by omega
    have c6 : ¬ ((lp.data[lp.p.toNat]'hp).toNat = 241) := by omega
    have c7 : ¬ ((lp.data[lp.p.toNat]'hp).toNat = 242) := by omega
    have c8 : ¬ ((lp.data[lp.p.toNat]'hp).toNat = 243) := by omega
    have c9 : ¬ ((lp.data[lp.p.toNat]'hp).toNat = 244) := by omega
    simp only [c1, c2, c3, c4, c5, c6, c7, c8, c9, ↓reduceIte]
  rw [hm] at h
  cases hr : Fn.lpNext lp with
  | none => rfl
  | some r => rw [hr] at h; simp at h

-- non-vacuity, evaluated on the GENERATED definitions: a 16 bit integer -2 (0xF1 FE FF, back-length 3), a 6 bit
-- string "ab", the 7 bit integer 5; an end marker; a truncated 32 bit integer
example : Fn.lpNext ⟨[0xF1, 0xFE, 0xFF, 3, 0xFF], 0#32, 0#32, 0⟩ = some (⟨[0xF1, 0xFE, 0xFF, 3, 0xFF], 4#32, 0#32, 0⟩, [45, 50]) := by
  decide +kernel
example : Fn.lpNext ⟨[9, 9, 0x82, 97, 98, 3, 5, 1, 0xFF], 2#32, 0#32, 0⟩ = some (⟨[9, 9, 0x82, 97, 98, 3, 5, 1, 0xFF], 6#32, 0#32, 0⟩, [97, 98]) := by
  decide +kernel
example : Fn.lpNext ⟨[9, 9, 0x82, 97, 98, 3, 5, 1, 0xFF], 6#32, 0#32, 0⟩ = some (⟨[9, 9, 0x82, 97, 98, 3, 5, 1, 0xFF], 8#32, 0#32, 0⟩, [53]) := by
  decide +kernel
example : Fn.lpNext ⟨[9, 9, 0x82, 97, 98, 3, 5, 1, 0xFF], 8#32, 0#32, 0⟩ = none := by decide +kernel
example : Fn.lpNext ⟨[0xF3, 1, 2], 0#32, 0#32, 0⟩ = none := by decide +kernel
example : Fn.lpEncodeBacklen 127#32 = some 128#32 ∧ Fn.lpEncodeBacklen 128#32 = some 130#32 ∧
    Fn.lpEncodeBacklen 16383#32 = some 16386#32 := by decide +kernel

end GunYu.Props.C03
