/-
  C20 (session 5) — the distributor of `sendRdb` with BOUNDED pipes (back-pressure), and a failed worker.

  `Sys` (Model/RestoreWorker.lean) starts with PRE-FILLED pipes (`queueOf`): "a worker can never take an entry earlier
  in the real system than here" was argued. Here the distributor is a process of its own:

      for { e <- rdbPipe ; idx = route(e, idx) ;
            select { case pipes[idx] <- e:            -- only when pipe idx holds fewer than `cap` entries
                     case <-ctx.Done(): return ctx.Err() } }          (syncer/output.go distributeTask)

  `BSt` = the entries not yet distributed, `idx`, the content of every pipe (FIFO), what every worker has taken so far
  (ghost), "the distributor has returned" and the cancel flag. Moves, in ANY order (`BSt.run`): the distributor sends
  the next entry (BLOCKED - no change - while the pipe of its worker is full), the distributor takes the cancelled
  branch, a worker takes the head of its pipe, somebody cancels (a failed worker through sendRdb's errChan loop, the
  parent context). What a worker does with an entry is `Sys`'s business.

    * `dist_conserves`      for every capacity and every schedule: taken_i ++ pipe_i ++ (what is still to be routed to i)
                            = `queueOf … i` - nothing is lost, duplicated, reordered or handed to another worker,
                            however full the pipes are;
    * `taken_prefix`        hence what worker i has consumed is a PREFIX of the pre-filled pipe of `Sys`, in order: the
                            bounded system's workers see exactly what `Sys` with `Move.close` lets them see;
    * `pipes_bounded`       no pipe ever holds more than `cap` entries;
    * `blocked_send_full`   the distributor is blocked only on a FULL pipe - whose worker can take (`take_enabled`) …
    * `abort_after_cancel`  … and when that worker has FAILED (it takes nothing any more) the cancel that sendRdb raises
                            for its error un-blocks the distributor: it returns with an error, whatever the pipes hold -
                            it does not block for ever (`no_deadlock`: in every state the distributor has returned, or
                            can move, or the worker it waits for can take, or - after a cancel - it can return);
    * `error_surfaces`      once the distributor returned through the cancelled branch it reports an error (sendRdb then
                            joins it with the worker's: the run is not reported as complete).
  Tie: source facts c20_distribute (the whole closure incl. both selects) and c20_workers; the real SendRdb under
  back-pressure (scopes send-backpressure, send-backpressure-fail: a worker fails while the pipes are full - SendRdb
  returns the worker's error) with c20route / key-on-two-connections as monitors of the conservation.
-/
import GunYu.Model.RestoreWorker

namespace GunYu.Props.C20
open GunYu GunYu.Restore

/-- what is routed to worker `i` from the stream `src` when the previous choice was `idx` -/
def queueFrom (w : WCfg) (n : Nat) (idx : Nat) (src : List Entry) (i : Nat) : List Entry :=
  ((routeAll w n idx src).filter (fun p => p.1 == i)).map (·.2)

theorem queueOf_eq_queueFrom (w : WCfg) (n : Nat) (es : List Entry) (i : Nat) : queueOf w n es i = queueFrom w n 0 es i := rfl

theorem queueFrom_cons (w : WCfg) (n idx : Nat) (e : Entry) (r : List Entry) (i : Nat) :
    queueFrom w n idx (e :: r) i =
      (if route w n e idx = i then [e] else []) ++ queueFrom w n (route w n e idx) r i := by
  unfold queueFrom
  simp only [routeAll, List.filter_cons]
  by_cases h : route w n e idx = i
  · simp [h]
  · have : (route w n e idx == i) = false := by simpa using h
    simp [h, this]

structure BSt where
  src    : List Entry
  idx    : Nat := 0
  pipes  : Nat → List Entry := fun _ => []
  taken  : Nat → List Entry := fun _ => []
  ddone  : Bool := false
  derr   : Bool := false
  cancel : Bool := false

inductive BMove
  | send                 -- the distributor's next iteration
  | abort                -- the distributor's `case <-ctx.Done(): return ctx.Err()`
  | take (i : Nat)       -- worker i receives from its pipe
  | cancel               -- cancel() (sendRdb on any error of errChan; the parent context)

def upd (f : Nat → List Entry) (i : Nat) (v : List Entry) : Nat → List Entry := fun j => if j = i then v else f j

def BSt.move (w : WCfg) (n cap : Nat) (S : BSt) : BMove → BSt
  | .send =>
    if S.ddone then S else
    match S.src with
    | [] => { S with ddone := true }                       -- rdbPipe closed / Done: return nil, pipes closed
    | e :: r =>
      let i := route w n e S.idx
      if (S.pipes i).length < cap then { S with src := r, idx := i, pipes := upd S.pipes i (S.pipes i ++ [e]) }
      else S                                                -- pipe full: the send blocks
  | .abort => if S.cancel ∧ ¬ S.ddone then { S with ddone := true, derr := true } else S
  | .take i =>
    match S.pipes i with
    | [] => S
    | e :: r => { S with pipes := upd S.pipes i r, taken := upd S.taken i (S.taken i ++ [e]) }
  | .cancel => { S with cancel := true }

def BSt.run (w : WCfg) (n cap : Nat) (S : BSt) : List BMove → BSt
  | [] => S
  | m :: ms => BSt.run w n cap (S.move w n cap m) ms

def BSt.init (es : List Entry) : BSt := { src := es }

/-- conservation, per worker -/
def BInv (w : WCfg) (n : Nat) (es : List Entry) (S : BSt) : Prop :=
  ∀ i, S.taken i ++ S.pipes i ++ queueFrom w n S.idx S.src i = queueOf w n es i

theorem binv_init (w : WCfg) (n : Nat) (es : List Entry) : BInv w n es (BSt.init es) := by
  intro i; simp [BSt.init, queueOf_eq_queueFrom]

theorem binv_move (w : WCfg) (n cap : Nat) (es : List Entry) (S : BSt) (m : BMove) (h : BInv w n es S) :
    BInv w n es (S.move w n cap m) := by
  cases m with
  | send =>
    simp only [BSt.move]
    split
    · exact h
    · split
      · exact h
      · rename_i e r hsrc
        split
        · intro i
          have hi := h i
          rw [hsrc, queueFrom_cons] at hi
          simp only [upd]
          by_cases hr : i = route w n e S.idx
          · subst hr
            simp only [if_true] at hi ⊢
            rw [← hi]; simp
          · have hr' : ¬ route w n e S.idx = i := fun x => hr x.symm
            simp only [hr, hr', if_false, List.nil_append] at hi ⊢
            exact hi
        · exact h
  | abort =>
    simp only [BSt.move]
    split
    · exact h
    · exact h
  | take i0 =>
    simp only [BSt.move]
    split
    · exact h
    · rename_i e r hp
      intro i
      have hi := h i
      simp only [upd]
      by_cases hr : i = i0
      · subst hr
        rw [hp] at hi
        simp only [if_true]
        rw [← hi]; simp
      · simp only [hr, if_false]; exact hi
  | cancel => exact h

/-- **conservation**: for every pipe capacity and every schedule -/
theorem dist_conserves (w : WCfg) (n cap : Nat) (es : List Entry) (ms : List BMove) :
    BInv w n es ((BSt.init es).run w n cap ms) := by
  suffices ∀ S, BInv w n es S → BInv w n es (S.run w n cap ms) from this _ (binv_init w n es)
  induction ms with
  | nil => intro S h; exact h
  | cons m ms ih => intro S h; exact ih _ (binv_move w n cap es S m h)

/-- what a worker has consumed is a prefix of the pre-filled pipe `Sys` gives it, in order -/
theorem taken_prefix (w : WCfg) (n cap : Nat) (es : List Entry) (ms : List BMove) (i : Nat) :
    ((BSt.init es).run w n cap ms).taken i <+: queueOf w n es i := by
  have := dist_conserves w n cap es ms i
  exact ⟨_, by rw [← this, List.append_assoc]⟩

/-- … and when the distributor has sent everything and the pipe is drained, it is the WHOLE of it -/
theorem taken_all (w : WCfg) (n cap : Nat) (es : List Entry) (ms : List BMove) (i : Nat)
    (hsrc : ((BSt.init es).run w n cap ms).src = []) (hp : ((BSt.init es).run w n cap ms).pipes i = []) :
    ((BSt.init es).run w n cap ms).taken i = queueOf w n es i := by
  have := dist_conserves w n cap es ms i
  rw [hsrc, hp] at this
  simpa [queueFrom, routeAll] using this

def BBound (cap : Nat) (S : BSt) : Prop := ∀ i, (S.pipes i).length ≤ cap

theorem bbound_move (w : WCfg) (n cap : Nat) (S : BSt) (m : BMove) (h : BBound cap S) : BBound cap (S.move w n cap m) := by
  cases m with
  | send =>
    simp only [BSt.move]
    split
    · exact h
    · split
      · exact h
      · split
        · rename_i hlt
          intro i; simp only [upd]
          split
          · simp; omega
          · exact h i
        · exact h
  | abort => simp only [BSt.move]; split <;> exact h
  | take i0 =>
    simp only [BSt.move]
    split
    · exact h
    · rename_i e r hp
      intro i; simp only [upd]
      split
      · rename_i hi; subst hi; have := h i; rw [hp] at this; simp at this; omega
      · exact h i
  | cancel => exact h

theorem pipes_bounded (w : WCfg) (n cap : Nat) (es : List Entry) (ms : List BMove) :
    BBound cap ((BSt.init es).run w n cap ms) := by
  suffices ∀ S, BBound cap S → BBound cap (S.run w n cap ms) from this _ (by intro i; simp [BSt.init])
  induction ms with
  | nil => intro S h; exact h
  | cons m ms ih => intro S h; exact ih _ (bbound_move w n cap S m h)

/-- the distributor's send leaves the state unchanged only when the pipe of the entry's worker is FULL -/
theorem blocked_send_full (w : WCfg) (n cap : Nat) (S : BSt) (e : Entry) (r : List Entry)
    (hd : S.ddone = false) (hsrc : S.src = e :: r) (hblk : (S.move w n cap .send).src = S.src) :
    cap ≤ (S.pipes (route w n e S.idx)).length := by
  simp only [BSt.move, hd, hsrc] at hblk
  by_cases h : (S.pipes (route w n e S.idx)).length < cap
  · simp [h] at hblk
  · omega

/-- … and then (cap ≥ 1) that worker can take -/
theorem take_enabled (w : WCfg) (n cap : Nat) (S : BSt) (i : Nat) (hc : 0 < cap) (hfull : cap ≤ (S.pipes i).length) :
    ((S.move w n cap (.take i)).taken i).length = (S.taken i).length + 1 := by
  simp only [BSt.move]
  cases hp : S.pipes i with
  | nil => rw [hp] at hfull; simp at hfull; omega
  | cons e r => simp [upd]

/-- a cancelled context un-blocks the distributor whatever the pipes hold: it returns, with an error -/
theorem abort_after_cancel (w : WCfg) (n cap : Nat) (S : BSt) (hc : S.cancel = true) (hd : S.ddone = false) :
    (S.move w n cap .abort).ddone = true ∧ (S.move w n cap .abort).derr = true := by
  simp [BSt.move, hc, hd]

/-- **no deadlock around the distributor** (cap ≥ 1): it has returned, or its send goes through, or the worker it waits
    for can take an entry; and if that worker is dead (it failed: sendRdb cancelled) the cancelled branch is enabled -/
theorem no_deadlock (w : WCfg) (n cap : Nat) (S : BSt) (hc : 0 < cap) :
    S.ddone = true ∨ (S.move w n cap .send).src ≠ S.src ∨ (S.move w n cap .send).ddone = true ∨
    (∃ i, ((S.move w n cap (.take i)).taken i).length = (S.taken i).length + 1 ∧
      (S.cancel = true → (S.move w n cap .abort).ddone = true ∧ (S.move w n cap .abort).derr = true)) := by
  cases hd : S.ddone with
  | true => exact Or.inl rfl
  | false =>
    right
    cases hsrc : S.src with
    | nil => right; left; simp [BSt.move, hd, hsrc]
    | cons e r =>
      by_cases hblk : (S.move w n cap .send).src = S.src
      · right; right
        have hfull := blocked_send_full w n cap S e r hd hsrc hblk
        exact ⟨_, take_enabled w n cap S _ hc hfull, fun hcn => abort_after_cancel w n cap S hcn hd⟩
      · left; rw [← hsrc]; exact hblk

/-- the cancel flag and the distributor's error are never taken back: once it returned through the cancelled branch
    the run reports an error -/
theorem error_surfaces (w : WCfg) (n cap : Nat) (S : BSt) (ms : List BMove) (h : S.derr = true) :
    (S.run w n cap ms).derr = true := by
  induction ms generalizing S with
  | nil => exact h
  | cons m ms ih =>
    apply ih
    cases m <;> simp only [BSt.move]
    · split
      · exact h
      · split
        · exact h
        · split <;> exact h
    · split
      · rfl
      · exact h
    · split <;> exact h
    · exact h

/-! ## non-vacuity: three workers, pipes of ONE entry, 5 keys; worker of "h" never takes (it failed) -/

def exBD (k : UInt8) : Entry :=
  { db := 0, key := [k], otype := .data, first := true, splited := false, canRestore := true,
    dumpSize := 3, expireAt := 0, idle := 0, freq := 0, dump := [1], cmds := [] }
def exBDs : List Entry := [exBD 104, exBD 105, exBD 104, exBD 106, exBD 107]
def exBDW : WCfg := {}
-- both "h" entries go to one worker; with cap = 1 the second send to it blocks until the worker takes
example : (routeAll exBDW 3 0 exBDs).map (·.1) = [1, 2, 1, 2, 0] := by decide
example : (((BSt.init exBDs).run exBDW 3 1 [.send, .send, .send, .send]).src).length = 3 := by decide   -- 3rd send blocked, 4th too
example : (((BSt.init exBDs).run exBDW 3 1 [.send, .send, .send, .take 1, .send, .send]).src).length = 2 := by decide
example : ((BSt.init exBDs).run exBDW 3 1 [.send, .send, .send, .take 1, .send, .send]).taken 1 = [exBD 104] := by decide
-- worker 1 failed and takes nothing: cancel, then the blocked distributor returns with an error
example : let S := (BSt.init exBDs).run exBDW 3 1 [.send, .send, .send, .cancel, .send, .abort]
    S.ddone = true ∧ S.derr = true ∧ S.src.length = 3 := by decide
example : ((BSt.init exBDs).run exBDW 3 1 [.send, .take 1, .send, .take 2, .send, .take 1, .send, .take 0, .send, .take 1, .send]).taken 1
    = queueOf exBDW 3 exBDs 1 := by decide

end GunYu.Props.C20
