/-
  C18 (extension) — the key positions the tool's static tables name for the
  commands Redis flags `movablekeys`, compared with Redis 7.0's OWN key
  extraction (Model/RedisKeys.lean, a trusted transcription of the getkeys
  procs of src/db.c).

  * numkeys family (EVAL EVALSHA FCALL FCALL_RO ZUNIONSTORE ZINTERSTORE
    ZDIFFSTORE ZMPOP BZMPOP LMPOP BLMPOP): the regenerated rows are Redis's
    procs, the positions agree for ALL argument lists, in both directions —
    so the single-slot theorem of C18 speaks about the keys REDIS sees
    (`movable_unit_keys_redis_single_slot`).
  * SORT: the tool names every STORE destination, Redis the last one
    (over-approximation, sound, can refuse a unit Redis would accept);
    covering fails only on argument lists SORT itself rejects.
  * GEORADIUS / GEORADIUSBYMEMBER, XREADGROUP: concrete DISAGREEMENTS
    (finding F1) — the tool takes the FIRST store/storedist (from args[1] on)
    resp. the first "streams" word anywhere, Redis the LAST store option from
    args[4] on resp. the STREAMS behind the options.
-/
import GunYu.Model.RedisKeys
import GunYu.Proofs.FilterKeys
import GunYu.Props.C18

namespace GunYu.Props.C18
open GunYu GunYu.Slot GunYu.BisyncUnit GunYu.Filter

/-! ### short words for the concrete instances -/

private def bK : Bytes := [107]                             -- "k"
private def bD1 : Bytes := [100,49]                         -- "d1"
private def bD2 : Bytes := [100,50]                         -- "d2"
private def bSTORE : Bytes := [83,84,79,82,69]              -- "STORE"
private def bStore : Bytes := [115,116,111,114,101]         -- "store"
private def bSTOREDIST : Bytes := [83,84,79,82,69,68,73,83,84]  -- "STOREDIST"
private def bKm : Bytes := [107,109]                        -- "km"
private def b1 : Bytes := [49]
private def b2 : Bytes := [50]
private def b3 : Bytes := [51]
private def bGROUP : Bytes := [71,82,79,85,80]              -- "GROUP"
private def bStreams : Bytes := [115,116,114,101,97,109,115]  -- "streams"
private def bSTREAMS : Bytes := [83,84,82,69,65,77,83]      -- "STREAMS"
private def bC : Bytes := [99]                              -- "c"
private def bGt : Bytes := [62]                             -- ">"

/-! ### 1–3, 7. the numkeys family -/

/-- the tool's `fixedKeys` list for an optional destination position -/
def fixedOf : Option Nat → List Int
  | none => []
  | some s => [(s : Int)]

/-- Redis's `storeKeyOfs` (argv offset, 0 = none) for the same -/
def storeOfs : Option Nat → Nat
  | none => 0
  | some s => s + 1

/-- a positive `parseCommandInt` is Redis's `atoi` of a well-formed count -/
theorem atoi_of_parse {x : Bytes} (h : 0 < parseCommandInt x) :
    RedisKeys.atoiDigits x = some (parseCommandInt x).toNat := by
  unfold parseCommandInt at *
  unfold RedisKeys.atoiDigits
  split at h
  · rename_i hd
    cases x with
    | nil => simp at h
    | cons c cs => simp [hd]
  · omega

theorem parse_of_atoi {x : Bytes} {v : Nat} (h : RedisKeys.atoiDigits x = some v) :
    parseCommandInt x = (v : Int) := by
  unfold RedisKeys.atoiDigits at h
  unfold parseCommandInt
  split at h
  · cases h
  · split at h
    · rename_i hd
      injection h with h
      simp [hd, h]
    · cases h

theorem mem_keys_iff (b num : Nat) (st : Option Nat) (i : Nat) :
    i ∈ (fixedOf st).map Int.toNat ++
        (List.range num).map (fun (j : Nat) => ((b : Int) + (j : Int) * 1).toNat) ↔
    i ∈ (List.range num).map (fun i => b + 1 + i * 1 - 1) ++
        (if storeOfs st = 0 then [] else [storeOfs st - 1]) := by
  have e1 : (fun (j : Nat) => ((b : Int) + (j : Int) * 1).toNat) = fun j => b + j := by
    funext j; omega
  have e2 : (fun i => b + 1 + i * 1 - 1) = fun j => b + j := by
    funext j; omega
  rw [e1, e2]
  cases st with
  | none => simp [fixedOf, storeOfs]
  | some s => simp [fixedOf, storeOfs, or_comm]

/-- **2. The generic lemma, forward (ALL argument lists).** Whenever the tool's
    `numkeysStepExtractor(a, b, 1, fixed…)` (fixed = none or one destination
    position) names positions, Redis's `genericGetKeys(store, a+1, b+1, 1)` names
    the same SET of positions (Redis lists the destination last, the tool first). -/
theorem numkeys_extractor_exact (a b : Nat) (st : Option Nat) (args : List Bytes) (idx : List Nat)
    (h : numkeysStepIdx a b 1 (fixedOf st) args = some idx) :
    ∃ idx', RedisKeys.genericGetKeys (storeOfs st) (a + 1) (b + 1) 1 args = some idx' ∧
      ∀ i, i ∈ idx ↔ i ∈ idx' := by
  unfold numkeysStepIdx at h
  simp only at h
  split at h
  · cases h
  · split at h
    · cases h
    · split at h
      · cases h
      · split at h
        · cases h
        · split at h
          · cases h
          · rename_i h1 h2 h3 h4 h5
            injection h with h
            subst h
            have ha : a < args.length := by omega
            have hget : args[a]? = some (args.getD a []) := by
              simp [List.getD, ha]
            have hpos : 0 < parseCommandInt (args.getD a []) := by
              simp only [Int.toNat_natCast] at h3; omega
            have hat := atoi_of_parse hpos
            simp only [Int.toNat_natCast] at *
            generalize parseCommandInt (args.getD a []) = nk at *
            refine ⟨_, ?_, fun i => mem_keys_iff b nk.toNat st i⟩
            unfold RedisKeys.genericGetKeys
            simp only [Nat.add_sub_cancel, hget, hat, Nat.div_one]
            rw [if_neg]
            omega

-- ZUNIONSTORE {a}d 2 {a}x {a}y: tool [0,2,3], Redis [2,3,0]
example : numkeysStepIdx 1 2 1 (fixedOf (some 0)) [[123,97,125,100], [50], [123,97,125,120], [123,97,125,121]] = some [0, 2, 3] ∧
    RedisKeys.genericGetKeys (storeOfs (some 0)) 2 3 1 [[123,97,125,100], [50], [123,97,125,120], [123,97,125,121]] = some [2, 3, 0] := by
  decide +kernel

/-- **2. The generic lemma, converse.** Whenever Redis's proc names positions
    (a digits-only count; the model's `parseCommandInt` is unbounded, the Go
    accumulator is an int64: counts below 2^63) and the destination position
    is an argument position, the tool's extractor answers too, non-empty, with
    the same set of positions. -/
theorem numkeys_extractor_complete (a b : Nat) (st : Option Nat) (args : List Bytes) (idx' : List Nat)
    (hst : ∀ s, st = some s → s < args.length)
    (h : RedisKeys.genericGetKeys (storeOfs st) (a + 1) (b + 1) 1 args = some idx') :
    ∃ idx, numkeysStepIdx a b 1 (fixedOf st) args = some idx ∧ idx ≠ [] ∧ ∀ i, i ∈ idx ↔ i ∈ idx' := by
  unfold RedisKeys.genericGetKeys at h
  simp only [Nat.add_sub_cancel, Nat.div_one] at h
  split at h
  · cases h
  · rename_i x hx
    split at h
    · cases h
    · rename_i num hnum
      split at h
      · cases h
      · rename_i hc
        injection h with h
        subst h
        obtain ⟨ha, hxe⟩ := List.getElem?_eq_some_iff.mp hx
        have hgd : args.getD a [] = x := by simp [List.getD, hx]
        have hp := parse_of_atoi hnum
        have hn0 : num ≠ 0 := by omega
        refine ⟨_, ?_, by simp [hn0], fun i => mem_keys_iff b num st i⟩
        unfold numkeysStepIdx
        simp only [Int.toNat_natCast, hgd, hp]
        rw [if_neg (by omega), if_neg (by omega), if_neg (by omega), if_neg (by omega), if_neg]
        cases st with
        | none => simp [fixedOf]
        | some s =>
          have := hst s rfl
          simp [fixedOf]
          omega

/-- the numkeys family of the tool's extractor table: lower-case name, the
    destination position (`args` coordinates) if Redis's proc has one, the
    positions of the count and of the first key: Redis's proc for the name is
    `genericGetKeys (storeOfs st) (a+1) (b+1) 1` -/
def numkeysRows : List (Bytes × Option Nat × Nat × Nat) := [
  ([101,118,97,108], none, 1, 2),                                   -- eval         evalGetKeys (0,2,3,1)
  ([101,118,97,108,115,104,97], none, 1, 2),                        -- evalsha
  ([102,99,97,108,108], none, 1, 2),                                -- fcall        functionGetKeys (0,2,3,1)
  ([102,99,97,108,108,95,114,111], none, 1, 2),                     -- fcall_ro
  ([122,117,110,105,111,110,115,116,111,114,101], some 0, 1, 2),    -- zunionstore  zunionInterDiffStoreGetKeys (1,2,3,1)
  ([122,105,110,116,101,114,115,116,111,114,101], some 0, 1, 2),    -- zinterstore
  ([122,100,105,102,102,115,116,111,114,101], some 0, 1, 2),        -- zdiffstore
  ([122,109,112,111,112], none, 0, 1),                              -- zmpop        zmpopGetKeys (0,1,2,1)
  ([98,122,109,112,111,112], none, 1, 2),                           -- bzmpop       bzmpopGetKeys (0,2,3,1)
  ([108,109,112,111,112], none, 0, 1),                              -- lmpop        lmpopGetKeys (0,1,2,1)
  ([98,108,109,112,111,112], none, 1, 2)]                           -- blmpop       blmpopGetKeys (0,2,3,1)

def numkeysNames : List Bytes := numkeysRows.map (·.1)

/-- **1. The regenerated rows are Redis's procs.** For each of the 11 names the
    tool's `commandKeyExtractors` row is `numkeysStepExtractor(a, b, 1, fixed)`
    with a = keyCountOfs-1, b = firstKeyOfs-1, fixed = [storeKeyOfs-1] / none of
    the `genericGetKeys` instance Redis's command table gives the name (second
    conjunct: the transcribed `procTable`); names are lower-case; the only
    destination position is args[0]. -/
theorem movable_numkeys_rows_match_redis :
    ∀ r ∈ numkeysRows,
      Gen.commandKeyExtractors.lookup r.1 = some (.numkeysStep (r.2.2.1 : Nat) (r.2.2.2 : Nat) 1 (fixedOf r.2.1)) ∧
      RedisKeys.procTable.lookup r.1 = some (.generic (storeOfs r.2.1) (r.2.2.1 + 1) (r.2.2.2 + 1) 1) ∧
      lower r.1 = r.1 ∧ (r.2.1 = none ∨ r.2.1 = some 0) := by
  decide +kernel

theorem keyIndexes_lower (name : Bytes) (args : List Bytes) :
    keyIndexes (lower name) args = keyIndexes name args := by
  unfold keyIndexes
  rw [lower_lower]

theorem getKeys_lower (name : Bytes) (args : List Bytes) :
    RedisKeys.getKeys (lower name) args = RedisKeys.getKeys name args := by
  unfold RedisKeys.getKeys
  rw [lower_lower]

theorem keyIndexes_extractor {name : Bytes} {args : List Bytes} {idx : List Nat} {ex : Gen.KeyExtractor}
    (hl : Gen.commandKeyExtractors.lookup (lower name) = some ex) (h : keyIndexes name args = some idx) :
    runExtractor ex args = some idx := by
  unfold keyIndexes at h
  simp only [hl] at h
  split at h
  · cases h
  · split at h
    · split at h
      · cases h
      · rename_i hex _
        injection h with h
        rw [← h]; exact hex
    · cases h

theorem keyIndexes_of_extractor {name : Bytes} {args : List Bytes} {idx : List Nat} {ex : Gen.KeyExtractor}
    (hl : Gen.commandKeyExtractors.lookup (lower name) = some ex) (h : runExtractor ex args = some idx)
    (hne : idx ≠ []) (ha : args ≠ []) : keyIndexes name args = some idx := by
  unfold keyIndexes
  simp only [hl, h]
  cases args with
  | nil => exact absurd rfl ha
  | cons x xs =>
    cases idx with
    | nil => exact absurd rfl hne
    | cons i is => simp

example : numkeysNames.length = 11 ∧ [122,117,110,105,111,110,115,116,111,114,101] ∈ numkeysNames := by decide

/-- **3. Exact, forward.** For the 11 numkeys names and ALL argument lists:
    the positions the tool's `CommandKeyIndexes` names are, as a set, the
    positions Redis's getkeys proc names. -/
theorem movable_numkeys_keys_exact (name : Bytes) (hn : name ∈ numkeysNames) (args : List Bytes)
    (idx : List Nat) (h : keyIndexes name args = some idx) :
    ∃ idx', RedisKeys.getKeys name args = some idx' ∧ ∀ i, i ∈ idx ↔ i ∈ idx' := by
  obtain ⟨r, hr, rfl⟩ := List.mem_map.mp hn
  obtain ⟨h1, h2, h3, _⟩ := movable_numkeys_rows_match_redis r hr
  have hex := keyIndexes_extractor (by rw [h3]; exact h1) h
  unfold RedisKeys.getKeys
  rw [h3, h2]
  exact numkeys_extractor_exact _ _ _ _ _ hex

/-- **3. Exact, converse.** … and whenever Redis names keys the tool's static
    table resolves the command (no fall-back to COMMAND GETKEYS), to the same set. -/
theorem movable_numkeys_keys_complete (name : Bytes) (hn : name ∈ numkeysNames) (args : List Bytes)
    (idx' : List Nat) (h : RedisKeys.getKeys name args = some idx') :
    ∃ idx, keyIndexes name args = some idx ∧ ∀ i, i ∈ idx ↔ i ∈ idx' := by
  obtain ⟨r, hr, rfl⟩ := List.mem_map.mp hn
  obtain ⟨h1, h2, h3, h4⟩ := movable_numkeys_rows_match_redis r hr
  unfold RedisKeys.getKeys at h
  rw [h3, h2] at h
  have hargs : args ≠ [] := by
    rintro rfl
    simp [RedisKeys.runProc, RedisKeys.genericGetKeys] at h
  have hst : ∀ s, r.2.1 = some s → s < args.length := by
    intro s hs
    have : 0 < args.length := List.length_pos_iff.mpr hargs
    rcases h4 with e | e
    · rw [e] at hs; cases hs
    · rw [e] at hs; injection hs with hs; omega
  obtain ⟨idx, hi, hne, hm⟩ := numkeys_extractor_complete _ _ _ _ _ hst h
  exact ⟨idx, keyIndexes_of_extractor (ex := .numkeysStep _ _ 1 _) (by rw [h3]; exact h1) hi hne hargs, hm⟩

/-- the same for names in any letter case -/
theorem movable_numkeys_keys_exact_anycase (name : Bytes) (hn : lower name ∈ numkeysNames) (args : List Bytes) :
    (∀ idx, keyIndexes name args = some idx →
      ∃ idx', RedisKeys.getKeys name args = some idx' ∧ ∀ i, i ∈ idx ↔ i ∈ idx') ∧
    (∀ idx', RedisKeys.getKeys name args = some idx' →
      ∃ idx, keyIndexes name args = some idx ∧ ∀ i, i ∈ idx ↔ i ∈ idx') := by
  rw [← keyIndexes_lower, ← getKeys_lower]
  exact ⟨movable_numkeys_keys_exact _ hn args, movable_numkeys_keys_complete _ hn args⟩

-- "ZUNIONSTORE" (upper case) {a}d 2 {a}x {a}y, and a count exceeding the keys present (both refuse)
example : keyIndexes [90,85,78,73,79,78,83,84,79,82,69] [[123,97,125,100], [50], [123,97,125,120], [123,97,125,121]] = some [0, 2, 3] ∧
    RedisKeys.getKeys [90,85,78,73,79,78,83,84,79,82,69] [[123,97,125,100], [50], [123,97,125,120], [123,97,125,121]] = some [2, 3, 0] ∧
    keyIndexes [90,85,78,73,79,78,83,84,79,82,69] [[123,97,125,100], [51], [123,97,125,120], [123,97,125,121]] = none ∧
    RedisKeys.getKeys [90,85,78,73,79,78,83,84,79,82,69] [[123,97,125,100], [51], [123,97,125,120], [123,97,125,121]] = none := by
  decide +kernel

/-- **7. The bridge.** In a unit the builder accepts in cluster mode (the tool's
    resolver: static tables, then any COMMAND GETKEYS fall-back `fb`), every
    command of the numkeys family (any letter case) has EVERY position REDIS's
    own getkeys proc names on the unit's slot (HASH_SLOT specification). No
    hypothesis that the static table resolved the command is needed: by the
    converse of 3, whenever Redis names keys the table does (the fall-back is
    never consulted for these commands). -/
theorem movable_unit_keys_redis_single_slot (fb : Bytes → List Bytes → Fb) (cmds : List Cmd) (u : RUnit)
    (h : buildUnit clusterMode (resolverWith fb) cmds = .ok u) :
    ∀ c ∈ u.cmds, lower c.name ∈ numkeysNames →
      ∀ idx', RedisKeys.getKeys c.name c.args = some idx' →
        ∀ i ∈ idx', hashSlotSpec (c.args.getD i []) = u.slot := by
  intro c hc hn idx' hr i hi
  obtain ⟨idx, hk, hm⟩ := (movable_numkeys_keys_exact_anycase c.name hn c.args).2 idx' hr
  obtain ⟨hne, hlt⟩ := keyIndexes_inRange hk
  have hck : commandKeys c.name c.args = some (idx.map (fun i => c.args.getD i [])) := by
    unfold commandKeys
    rw [hk]
    simp only
    rw [if_neg (by simpa using hne), if_neg]
    simp only [List.any_eq_true, decide_eq_true_eq, not_exists, not_and]
    intro j hj
    have := hlt j hj
    omega
  have hres : resolverWith fb c.name c.args = .ok (idx.map (fun i => c.args.getD i [])) := by
    unfold resolverWith
    rw [hck]
  have hmem : c.args.getD i [] ∈ unitKeys (resolverWith fb) u := by
    unfold unitKeys
    refine List.mem_flatMap.mpr ⟨c, hc, ?_⟩
    rw [hres]
    exact List.mem_map.mpr ⟨i, (hm i).mpr hi, rfl⟩
  have hs := (unit_single_slot (resolverWith fb) cmds u [] .rdb ⟨[], [], 0⟩ (by simp) h).2
  exact hs _ (List.mem_append.mpr (Or.inl hmem))


private def cZus : Cmd := ⟨[90,85,78,73,79,78,83,84,79,82,69], [[123,97,125,100], [50], [123,97,125,120], [123,97,125,121]]⟩

-- non-vacuity: the unit of `ZUNIONSTORE {a}d 2 {a}x {a}y` is accepted, Redis names [2,3,0], all on slot 15495
example : buildUnit clusterMode (resolverWith (fun _ _ => .none)) [cZus] = .ok ⟨15495, slotTag 15495, [cZus]⟩ ∧
    lower cZus.name ∈ numkeysNames ∧ RedisKeys.getKeys cZus.name cZus.args = some [2, 3, 0] := by decide +kernel
example : hashSlotSpec [123,97,125,121] = 15495 :=
  movable_unit_keys_redis_single_slot (fun _ _ => .none) [cZus] ⟨15495, slotTag 15495, [cZus]⟩ (by decide +kernel)
    cZus (by simp) (by decide +kernel) [2, 3, 0] (by decide +kernel) 3 (by simp)

/-! ### 5. GEORADIUS / GEORADIUSBYMEMBER (finding C18-F1, REPAIRED in session 5: the tool's extractor now
    names the keys Redis's georadiusGetKeys names) -/

/-- the repaired loop of `geoRadiusStoreExtractor` IS Redis's loop -/
theorem geoScan_eq_geoLoop (l : List Bytes) :
    ∀ (s i : Nat) (st : Option Nat), RedisKeys.geoScan s i l st = Filter.geoLoop s i l st := by
  induction l with
  | nil => intro s i st; simp [RedisKeys.geoScan, Filter.geoLoop]
  | cons a rest ih =>
    intro s i st
    cases s with
    | succ s => simp only [RedisKeys.geoScan, Filter.geoLoop]; exact ih s (i + 1) st
    | zero =>
      simp only [RedisKeys.geoScan, Filter.geoLoop]
      split
      · exact ih 1 (i + 1) (some (i + 1))
      · exact ih 0 (i + 1) st

/-- **GEORADIUS / GEORADIUSBYMEMBER, exact.** Whenever the tool's extractor names keys, they are
    exactly (same list) the keys Redis's `georadiusGetKeys` names — for ALL argument lists: store
    option given twice, a member spelling an option word, any letter case. -/
theorem geo_keys_exact (args : List Bytes) (idx : List Nat)
    (h : Filter.geoIdx args = some idx) : RedisKeys.geoKeys args = some idx := by
  unfold Filter.geoIdx at h
  unfold RedisKeys.geoKeys
  cases args with
  | nil => cases h
  | cons a rest =>
    simp only at h ⊢
    rw [geoScan_eq_geoLoop]
    split at h
    · rename_i d hd
      rw [hd]; exact h
    · cases h

/-- … and conversely: whenever Redis names a destination, the tool names the same two keys
    (Redis alone answers `[0]` for the read-only form without a store option; the tool then
    declines and the command is resolved dynamically). -/
theorem geo_keys_complete (args : List Bytes) (d : Nat)
    (h : RedisKeys.geoKeys args = some [0, d]) : Filter.geoIdx args = some [0, d] := by
  unfold RedisKeys.geoKeys at h
  unfold Filter.geoIdx
  cases args with
  | nil => cases h
  | cons a rest =>
    simp only at h ⊢
    rw [geoScan_eq_geoLoop] at h
    split at h
    · cases h
    · rename_i p hp
      rw [hp]
      injection h with h
      injection h with _ h
      injection h with h
      subst h; rfl

/-- `GEORADIUS k 1 2 3 km STORE d1 STOREDIST d2`: both name the LAST destination -/
theorem geo_last_store_wins :
    Filter.geoIdx [bK, b1, b2, b3, bKm, bSTORE, bD1, bSTOREDIST, bD2] = some [0, 8] ∧
    RedisKeys.geoKeys [bK, b1, b2, b3, bKm, bSTORE, bD1, bSTOREDIST, bD2] = some [0, 8] := by
  decide +kernel

/-- `GEORADIUSBYMEMBER k store 3 km STORE d1`: a member spelling an option word is none -/
theorem geo_member_named_store_ok :
    Filter.geoIdx [bK, bStore, b3, bKm, bSTORE, bD1] = some [0, 5] ∧
    RedisKeys.geoKeys [bK, bStore, b3, bKm, bSTORE, bD1] = some [0, 5] := by
  decide +kernel

example : RedisKeys.geoKeys [bK, b1, b2, b3, bKm, bSTORE, bD1, bSTOREDIST, bD2] = some [0, 8] :=
  geo_keys_exact _ _ geo_last_store_wins.1
example : Filter.geoIdx [bK, bStore, b3, bKm, bSTORE, bD1] = some [0, 5] :=
  geo_keys_complete _ _ geo_member_named_store_ok.2
-- no store option: Redis names the source alone, the tool declines
example : Filter.geoIdx [bK, b1, b2, b3, bKm] = none ∧ RedisKeys.geoKeys [bK, b1, b2, b3, bKm] = some [0] := by
  decide +kernel

/-! ### 4. SORT (finding C18-F1, REPAIRED: the LAST STORE destination; LIMIT's arguments stepped over; a
    destination that spells an option word is left to the target) -/

theorem eqFold_excl {a w1 w2 : Bytes} (h : eqFold a w1 = true) (hne : (lower w1 == lower w2) = false) :
    eqFold a w2 = false := by
  unfold eqFold at h ⊢
  have := eq_of_beq h
  rw [this]; exact hne

/-- whatever the repaired `sortExtractor` loop computes, Redis's `sortGetKeys` loop computes too -/
theorem sortScan_of_sortLoop (l : List Bytes) :
    ∀ (s i : Nat) (st r : Option Nat), Filter.sortLoop s i l st = some r → RedisKeys.sortScan s i l st = r := by
  induction l with
  | nil =>
    intro s i st r h
    simp only [Filter.sortLoop, Option.some.injEq] at h
    simp [RedisKeys.sortScan, h]
  | cons a rest ih =>
    intro s i st r h
    cases s with
    | succ s =>
      simp only [Filter.sortLoop] at h
      simp only [RedisKeys.sortScan]
      exact ih s (i + 1) st r h
    | zero =>
      simp only [Filter.sortLoop] at h
      split at h
      · rename_i hl
        simp only [RedisKeys.sortScan, hl, if_true]
        exact ih 2 (i + 1) st r h
      · rename_i hl
        split at h
        · rename_i hs
          cases rest with
          | nil => simp at h
          | cons d rest' =>
            simp only at h
            split at h
            · cases h
            · rename_i hd
              have hd' : Filter.isSortOptionWord d = false := by simpa using hd
              unfold Filter.isSortOptionWord at hd'
              simp only [Bool.or_eq_false_iff] at hd'
              obtain ⟨⟨⟨hdl, hds⟩, hdb⟩, hdg⟩ := hd'
              have h1 := ih 1 (i + 1) (some (i + 1)) r h
              simp only [RedisKeys.sortScan] at h1
              simp only [RedisKeys.sortScan, hl, hs, hdl, hds, hdb, hdg, List.isEmpty_cons, Bool.not_false,
                Bool.and_self, Bool.false_and, if_true, if_false, Bool.false_eq_true]
              exact h1
        · rename_i hs
          split at h
          · rename_i hb
            have hg : eqFold a wGet = false := eqFold_excl hb (by decide)
            cases rest with
            | nil => simp at h
            | cons p rest' =>
              simp only at h
              split at h
              · cases h
              · simp only [RedisKeys.sortScan, hl, hs, hg, hb, Bool.false_and, if_true, if_false, Bool.false_eq_true]
                exact ih 1 (i + 1) st r h
          · rename_i hb
            split at h
            · rename_i hg
              cases rest with
              | nil => simp at h
              | cons p rest' =>
                simp only at h
                split at h
                · cases h
                · simp only [RedisKeys.sortScan, hl, hs, hg, Bool.false_and, if_true, if_false, Bool.false_eq_true]
                  exact ih 1 (i + 1) st r h
            · rename_i hg
              simp only [RedisKeys.sortScan, hl, hs, hg, hb, Bool.false_and, if_false, Bool.false_eq_true]
              exact ih 0 (i + 1) st r h

/-- **SORT, exact.** Whenever the tool's extractor names keys, they are exactly the keys Redis's
    `sortGetKeys` names — for ALL argument lists (STORE given several times, LIMIT / BY nosort /
    GET # anywhere, any letter case). Where the tool declines (a BY / GET pattern that brings in
    other keys, a destination spelling an option word, no STORE) the command is resolved
    dynamically, i.e. by Redis itself. -/
theorem sort_keys_exact (args : List Bytes) (idx : List Nat)
    (h : Filter.sortIdx args = some idx) : RedisKeys.sortKeys args = some idx := by
  unfold Filter.sortIdx at h
  unfold RedisKeys.sortKeys
  cases args with
  | nil => cases h
  | cons a rest =>
    simp only at h ⊢
    split at h
    · rename_i d hd
      rw [sortScan_of_sortLoop rest 0 1 none (some d) hd]
      exact h
    · cases h

/-- `SORT k STORE d1 STORE d2`: both name the LAST destination (the earlier one is not written) -/
theorem sort_last_store_wins :
    Filter.sortIdx [bK, bSTORE, bD1, bSTORE, bD2] = some [0, 4] ∧
    RedisKeys.sortKeys [bK, bSTORE, bD1, bSTORE, bD2] = some [0, 4] := by
  decide +kernel

/-- a destination that spells an option word (`SORT k STORE store d1`: Redis's scan reads it as a
    second STORE) is not answered from the table: the target is asked -/
theorem sort_dest_spelling_option_deferred :
    Filter.sortIdx [bK, bSTORE, bStore, bD1] = none ∧ RedisKeys.sortKeys [bK, bSTORE, bStore, bD1] = some [0, 3] := by
  decide +kernel

example : RedisKeys.sortKeys [bK, bSTORE, bD1, bSTORE, bD2] = some [0, 4] :=
  sort_keys_exact _ _ sort_last_store_wins.1
-- SORT k BY nosort LIMIT 0 10 GET # STORE d1: both [0, 9]
example : Filter.sortIdx [bK, [66,89], [110,111,115,111,114,116], [76,73,77,73,84], [48], [49,48], [71,69,84], [35], bSTORE, bD1] = some [0, 9] ∧
    RedisKeys.sortKeys [bK, [66,89], [110,111,115,111,114,116], [76,73,77,73,84], [48], [49,48], [71,69,84], [35], bSTORE, bD1] = some [0, 9] := by
  decide +kernel

/-! ### 6. XREADGROUP: a group named "streams" -/

/-- `XREADGROUP GROUP streams c STREAMS k >`: the tool takes the first argument
    equal to "streams" (case-insensitively) — the GROUP NAME at args[1] — as the
    marker and names args[2], args[3] (the consumer `c` and the word STREAMS) as
    keys; Redis steps over GROUP's two arguments and names args[4], the stream
    `k`. The real key is not among the tool's positions. -/
theorem xread_group_named_streams :
    Filter.streamsIdx [bGROUP, bStreams, bC, bSTREAMS, bK, bGt] = some [2, 3] ∧
    RedisKeys.xreadKeys [bGROUP, bStreams, bC, bSTREAMS, bK, bGt] = some [4] ∧
    Filter.keyIndexes [120,114,101,97,100,103,114,111,117,112] [bGROUP, bStreams, bC, bSTREAMS, bK, bGt] = some [2, 3] ∧
    RedisKeys.getKeys [120,114,101,97,100,103,114,111,117,112] [bGROUP, bStreams, bC, bSTREAMS, bK, bGt] = some [4] := by
  decide +kernel

-- the ordinary form agrees: XREADGROUP GROUP g c STREAMS k >
example : Filter.streamsIdx [bGROUP, bD1, bC, bSTREAMS, bK, bGt] = some [4] ∧
    RedisKeys.xreadKeys [bGROUP, bD1, bC, bSTREAMS, bK, bGt] = some [4] := by decide +kernel

/-! ### 8. movablekeys commands WITHOUT a row in the tool's tables: resolved by the target, or refused -/

/-- Redis 7 `movablekeys` commands the tool's tables have no row for (all read-only, or - MIGRATE -
    never propagated): the `_ro` script forms, the non-storing set / sorted-set combinations, the
    cardinality forms, XREAD, MIGRATE, SORT_RO -/
def unlistedMovable : List Bytes :=
  [[101,118,97,108,95,114,111], [101,118,97,108,115,104,97,95,114,111],            -- eval_ro evalsha_ro
   [122,117,110,105,111,110], [122,105,110,116,101,114], [122,100,105,102,102],    -- zunion zinter zdiff
   [115,105,110,116,101,114,99,97,114,100], [122,105,110,116,101,114,99,97,114,100], -- sintercard zintercard
   [120,114,101,97,100], [109,105,103,114,97,116,101], [115,111,114,116,95,114,111]] -- xread migrate sort_ro

/-- over the REGENERATED tables: none of these names has a row, in either table -/
theorem unlisted_movable_no_row :
    ∀ n ∈ unlistedMovable, Gen.commandKeyExtractors.lookup n = none ∧ Gen.commandKeyPositions.lookup n = none := by
  decide +kernel

/-- … so the static tables never answer for them, whatever the arguments and the letter case -/
theorem unlisted_movable_static_none (name : Bytes) (hn : lower name ∈ unlistedMovable) (args : List Bytes) :
    Filter.keyIndexes name args = none ∧ commandKeys name args = none := by
  obtain ⟨h1, h2⟩ := unlisted_movable_no_row _ hn
  have hk : Filter.keyIndexes name args = none := by
    unfold Filter.keyIndexes
    simp only [h1, h2]
    split <;> rfl
  refine ⟨hk, ?_⟩
  unfold commandKeys
  rw [hk]

/-- the tool's resolver hands such a command to the target: its verdict IS the target's COMMAND GETKEYS
    answer (keys ⇒ those keys; nothing / an empty answer ⇒ not routable; an error ⇒ error) -/
theorem unlisted_movable_resolved_by_target (fb : Bytes → List Bytes → Fb) (name : Bytes)
    (hn : lower name ∈ unlistedMovable) (args : List Bytes) :
    resolverWith fb name args =
      (match fb name args with
       | .keys ks => if ks.isEmpty then .notOk else .ok ks
       | .none => .notOk
       | .err => .err) := by
  unfold resolverWith
  simp only [(unlisted_movable_static_none name hn args).2]
  cases fb name args <;> rfl

/-- **single-slot or refused.** In a unit the builder accepts in cluster mode every command of this
    family was answered by the target with a non-empty key list, and EVERY key the target named is on
    the unit's slot; if the target names no key or answers with an error the unit is refused
    (`unlisted_movable_refused_without_answer`). With a target that answers like Redis
    (`RedisKeys.getKeys`), these are Redis's keys. -/
theorem unlisted_movable_keys_on_slot (fb : Bytes → List Bytes → Fb) (cmds : List Cmd) (u : RUnit)
    (h : buildUnit clusterMode (resolverWith fb) cmds = .ok u) :
    ∀ c ∈ u.cmds, lower c.name ∈ unlistedMovable →
      ∃ ks, fb c.name c.args = .keys ks ∧ ks ≠ [] ∧ ∀ k ∈ ks, hashSlotSpec k = u.slot := by
  intro c hc hn
  obtain ⟨_, hrt, _, _, hcmds⟩ := (buildUnit_cluster_iff (resolverWith fb) cmds u).mp h
  obtain ⟨ks, hks, hne⟩ := hrt c (hcmds ▸ hc)
  rw [unlisted_movable_resolved_by_target fb c.name hn c.args] at hks
  cases hfb : fb c.name c.args with
  | none => rw [hfb] at hks; cases hks
  | err => rw [hfb] at hks; cases hks
  | keys ks' =>
    rw [hfb] at hks
    simp only at hks
    split at hks
    · cases hks
    · injection hks with hks
      subst hks
      refine ⟨ks', rfl, hne, ?_⟩
      intro k hk
      have hs := (unit_single_slot (resolverWith fb) cmds u [] .rdb ⟨[], [], 0⟩ (by simp) h).2
      apply hs k
      refine List.mem_append.mpr (Or.inl ?_)
      unfold unitKeys
      refine List.mem_flatMap.mpr ⟨c, hc, ?_⟩
      rw [unlisted_movable_resolved_by_target fb c.name hn c.args, hfb]
      simp only
      rw [if_neg (by simpa using hne)]
      exact hk

/-- a transaction holding such a command for which the target names no key (or answers with an
    error) is refused as a whole -/
theorem unlisted_movable_refused_without_answer (fb : Bytes → List Bytes → Fb) (cmds : List Cmd)
    (c : Cmd) (hc : c ∈ cmds) (hn : lower c.name ∈ unlistedMovable)
    (hfb : ∀ ks, fb c.name c.args = .keys ks → ks = []) :
    ∃ e, buildUnit clusterMode (resolverWith fb) cmds = .error e := by
  cases hb : buildUnit clusterMode (resolverWith fb) cmds with
  | error e => exact ⟨e, rfl⟩
  | ok u =>
    obtain ⟨_, _, _, _, hcmds⟩ := (buildUnit_cluster_iff (resolverWith fb) cmds u).mp hb
    obtain ⟨ks, hks, hne, _⟩ := unlisted_movable_keys_on_slot fb cmds u hb c (hcmds ▸ hc) hn
    exact absurd (hfb ks hks) hne

/-- a target that answers COMMAND GETKEYS as Redis's own procs do (for the movablekeys commands) -/
def redisFb : Bytes → List Bytes → Fb := fun name args =>
  match RedisKeys.getKeys name args with
  | some idx => .keys (idx.map (fun i => args.getD i []))
  | none => .none

private def cZunion (k1 k2 : Bytes) : Cmd := ⟨[90,85,78,73,79,78], [[50], k1, k2, [87,73,84,72,83,67,79,82,69,83]]⟩

-- non-vacuity: ZUNION 2 {a}x {a}y WITHSCORES is resolved by the target and accepted; with a key on another slot refused;
-- with a target that does not know the command refused
example : buildUnit clusterMode (resolverWith redisFb) [cZunion [123,97,125,120] [123,97,125,121]] =
    .ok ⟨15495, slotTag 15495, [cZunion [123,97,125,120] [123,97,125,121]]⟩ := by decide +kernel
example : buildUnit clusterMode (resolverWith redisFb) [cZunion [123,97,125,120] [123,98,125,121]] = .error .crossSlot := by
  decide +kernel
example : buildUnit clusterMode (resolverWith (fun _ _ => .none)) [cZunion [123,97,125,120] [123,97,125,121]] = .error .notRoutable := by
  decide +kernel
example : lower (cZunion [] []).name ∈ unlistedMovable := by decide
example : ∃ e, buildUnit clusterMode (resolverWith (fun _ _ => .err)) [cZunion [123,97,125,120] [123,97,125,121]] = .error e :=
  unlisted_movable_refused_without_answer _ _ (cZunion [123,97,125,120] [123,97,125,121]) (by simp) (by decide) (by intro ks h; cases h)

end GunYu.Props.C18
