/-
  C11 — the REGENERATED definitions of digest.Crc16, redis.KeyToSlot and the
  cluster client's `hash` (lean/GunYu/Gen/Fn{Crc16,KeyToSlot,ClusterHash}.lean,
  translated from /repo's Go source on every run by harness/extract/gofn*.go)
  equal the hand-written models of Model/Slot.lean for every key, hence
  HASH_SLOT. Side condition, exactly the one the code has: `len(key) < 2^63`
  (every Go string; `int` index arithmetic then never wraps).
  When the Go source changes, the generated file changes and these proofs must
  still go through.
-/
import GunYu.Model.Slot
import GunYu.Proofs.Crc16
import GunYu.Proofs.SlotScan
import GunYu.Props.C11
import GunYu.Gen.FnCrc16
import GunYu.Gen.FnKeyToSlot
import GunYu.Gen.FnClusterHash

namespace GunYu.Props.C11
open GunYu GunYu.Slot GunYu.Gen

/-! ### helper lemmas about the Go prelude -/

theorem addI_nat (i : Nat) (h : i < 9223372036854775807) :
    GoSem.addI (i : Int) (1 : Int) = ((i + 1 : Nat) : Int) := by
  unfold GoSem.addI
  rw [GoSem.wrap64_eq] <;> omega

theorem index_nat {α : Type} (s : List α) (i : Nat) (h : i < s.length) :
    GoSem.index s (i : Int) = some s[i] := by
  unfold GoSem.index
  simp [h]

theorem lt_len_iff {α : Type} (s : List α) (i : Nat) : ((i : Int) < GoSem.len s) ↔ i < s.length := by
  unfold GoSem.len; omega

theorem table_size : Gen.crc16Table.size = 256 := by decide +kernel

theorem arrIdx_table (n : Nat) (h : n < 256) :
    GoSem.arrIdx Gen.crc16Table n = some (Gen.crc16Table.getD n 0#16) := by
  unfold GoSem.arrIdx
  have : n < Gen.crc16Table.size := by rw [table_size]; exact h
  simp [Array.getD, this]

/-! ### digest.Crc16 -/

theorem gen_crc16_loop (buf : Bytes) (hlen : buf.length < 9223372036854775807) :
    ∀ (fuel i : Nat) (crc : BitVec 16), i ≤ buf.length → buf.length - i < fuel →
      Fn.crc16_loop1 buf fuel crc (i : Int) = some ((buf.drop i).foldl tabStep crc) := by
  intro fuel
  induction fuel with
  | zero => intro i crc _ h; omega
  | succ fuel ih =>
    intro i crc hi hf
    unfold Fn.crc16_loop1
    by_cases hlt : i < buf.length
    · have h1 : ((i : Int) < GoSem.len buf) := (lt_len_iff buf i).2 hlt
      simp only [h1, ↓reduceIte, index_nat buf i hlt, Option.bind_some, bind]
      rw [arrIdx_table _ (and_mask_toNat_lt _)]
      simp only [Option.bind_some]
      rw [addI_nat i (by omega), ih (i + 1) _ (by omega) (by omega)]
      rw [List.drop_eq_getElem_cons hlt, List.foldl_cons]
      rfl
    · have h1 : ¬ ((i : Int) < GoSem.len buf) := fun h => hlt ((lt_len_iff buf i).1 h)
      have h2 : buf.drop i = [] := List.drop_eq_nil_of_le (by omega)
      rw [if_neg h1, h2]
      rfl

/-- the regenerated `digest.Crc16` is the table-driven model, for every string -/
theorem gen_crc16_eq_model (buf : Bytes) (hlen : buf.length < 9223372036854775807) :
    Fn.crc16 buf = some (crc16Tab buf) := by
  unfold Fn.crc16
  have h := gen_crc16_loop buf hlen ((GoSem.len buf - (0 : Int)).toNat + 1) 0 0#16 (by omega)
    (by unfold GoSem.len; omega)
  simp only [Int.ofNat_zero, Int.sub_zero, List.drop_zero] at h
  simp [h, crc16Tab]


/-! ### redis.KeyToSlot -/

theorem slice_nat {α : Type} (s : List α) (a b : Nat) (h : a ≤ b) (hb : b ≤ s.length) :
    GoSem.slice s (a : Int) (b : Int) = some ((s.drop a).take (b - a)) := by
  unfold GoSem.slice GoSem.len
  have h1 : (0 : Int) ≤ (a : Int) ∧ (a : Int) ≤ (b : Int) ∧ (b : Int) ≤ (s.length : Int) := by omega
  have h2 : ((b : Int) - (a : Int)).toNat = b - a := by omega
  simp only [h1, and_self, ↓reduceIte, Int.toNat_natCast, h2]

theorem splitFirst_cons_eq (c b : UInt8) (rest : Bytes) (h : b = c) :
    splitFirst c (b :: rest) = some ([], rest) := by
  simp [splitFirst, h]

theorem splitFirst_cons_ne (c b : UInt8) (rest : Bytes) (h : b ≠ c) :
    splitFirst c (b :: rest) = (splitFirst c rest).map (fun p => (b :: p.1, p.2)) := by
  have : (b == c) = false := by simp [h]
  rw [splitFirst]
  simp only [this, Bool.false_eq_true, ↓reduceIte]
  cases splitFirst c rest with
  | none => rfl
  | some p => rfl

/-- inner loop (scan for the first `}` from k > i): the tag is key[i+1:k] followed by the
    bytes before the first `}` at or after k; untouched when there is none -/
theorem gen_kts_loop2 (key : Bytes) (hlen : key.length < 9223372036854775807) (i : Nat) :
    ∀ (fuel k : Nat) (h : Bytes), i + 1 ≤ k → k ≤ key.length → key.length - k < fuel →
      Fn.keyToSlot_loop2 key (i : Int) fuel h (k : Int) =
        some (match splitFirst rbrace (key.drop k) with
              | none => h
              | some p => (key.drop (i + 1)).take (k - (i + 1)) ++ p.1) := by
  intro fuel
  induction fuel with
  | zero => intro k h _ _ hf; omega
  | succ fuel ih =>
    intro k h hik hk hf
    unfold Fn.keyToSlot_loop2
    by_cases hlt : k < key.length
    · have h1 : ((k : Int) < GoSem.len key) := (lt_len_iff key k).2 hlt
      simp only [h1, ↓reduceIte, index_nat key k hlt, Option.bind_some, bind]
      rw [List.drop_eq_getElem_cons hlt]
      by_cases hb : key[k] = (125 : UInt8)
      · simp only [hb, ↓reduceIte]
        rw [addI_nat i (by omega), slice_nat key (i + 1) k hik (by omega)]
        rw [splitFirst_cons_eq rbrace _ _ (by rfl)]
        simp [pure]
      · simp only [hb, ↓reduceIte]
        rw [addI_nat k (by omega), ih (k + 1) h (by omega) (by omega) (by omega)]
        rw [splitFirst_cons_ne rbrace _ _ (by intro e; exact hb (by rw [e]; rfl))]
        cases splitFirst rbrace (key.drop (k + 1)) with
        | none => rfl
        | some p =>
          simp only [Option.map_some]
          have e1 : k + 1 - (i + 1) = (k - (i + 1)) + 1 := by omega
          have e2 : k - (i + 1) < (key.drop (i + 1)).length := by simp; omega
          rw [e1, List.take_succ_eq_append_getElem e2]
          have e3 : (key.drop (i + 1))[k - (i + 1)] = key[k] := by
            simp only [List.getElem_drop]
            congr 1; omega
          rw [e3]; simp
    · have h1 : ¬ ((k : Int) < GoSem.len key) := fun h => hlt ((lt_len_iff key k).1 h)
      have h2 : key.drop k = [] := List.drop_eq_nil_of_le (by omega)
      rw [if_neg h1, h2]
      rfl

/-- the inner loop starts ON the `{` (k = i), which is not a `}` -/
theorem gen_kts_loop2_first (key : Bytes) (hlen : key.length < 9223372036854775807) (i : Nat)
    (hlt : i < key.length) (hb : key[i] = (123 : UInt8)) (fuel : Nat) (h : Bytes)
    (hf : key.length - (i + 1) < fuel) :
    Fn.keyToSlot_loop2 key (i : Int) (fuel + 1) h (i : Int) =
      some (match splitFirst rbrace (key.drop (i + 1)) with
            | none => h
            | some p => p.1) := by
  unfold Fn.keyToSlot_loop2
  have h1 : ((i : Int) < GoSem.len key) := (lt_len_iff key i).2 hlt
  have hne : ¬ ((123 : UInt8) = (125 : UInt8)) := by simp
  simp only [h1, ↓reduceIte, index_nat key i hlt, Option.bind_some, bind, hb, hne]
  rw [addI_nat i (by omega), gen_kts_loop2 key hlen i fuel (i + 1) h (by omega) (by omega) hf]
  simp only [Nat.sub_self, List.take_zero, List.nil_append]

/-- the tag selected by the model's scanner, via `splitFirst` (Proofs/SlotScan.ktsOuter_spec) -/
def ktsTagFrom (h : Bytes) (rest : Bytes) : Bytes :=
  match splitFirst lbrace rest with
  | none => h
  | some p =>
    match splitFirst rbrace p.2 with
    | none => h
    | some q => q.1

theorem gen_kts_loop1 (key : Bytes) (hlen : key.length < 9223372036854775807) :
    ∀ (fuel i : Nat) (h : Bytes), i ≤ key.length → key.length - i < fuel →
      Fn.keyToSlot_loop1 key fuel h (i : Int) = some (ktsTagFrom h (key.drop i)) := by
  intro fuel
  induction fuel with
  | zero => intro i h _ hf; omega
  | succ fuel ih =>
    intro i h hi hf
    unfold Fn.keyToSlot_loop1
    by_cases hlt : i < key.length
    · have h1 : ((i : Int) < GoSem.len key) := (lt_len_iff key i).2 hlt
      simp only [h1, ↓reduceIte, index_nat key i hlt, Option.bind_some, bind]
      rw [List.drop_eq_getElem_cons hlt]
      by_cases hb : key[i] = (123 : UInt8)
      · simp only [hb, ↓reduceIte]
        -- first iteration of the inner loop sits on the `{` itself
        rw [gen_kts_loop2_first key hlen i hlt hb _ h (by unfold GoSem.len; omega)]
        unfold ktsTagFrom
        rw [splitFirst_cons_eq lbrace _ _ (by rfl)]
      · simp only [hb, ↓reduceIte]
        rw [addI_nat i (by omega), ih (i + 1) h (by omega) (by omega)]
        unfold ktsTagFrom
        rw [splitFirst_cons_ne lbrace _ _ (by intro e; exact hb (by rw [e]; rfl))]
        cases splitFirst lbrace (key.drop (i + 1)) with
        | none => rfl
        | some p => rfl
    · have h1 : ¬ ((i : Int) < GoSem.len key) := fun h => hlt ((lt_len_iff key i).1 h)
      have h2 : key.drop i = [] := List.drop_eq_nil_of_le (by omega)
      rw [if_neg h1, h2]
      rfl

theorem ktsTagFrom_nil (k : Bytes) : ktsTagFrom [] k = ktsOuter k := by
  rw [ktsOuter_spec]
  unfold ktsTagFrom
  cases splitFirst lbrace k with
  | none => rfl
  | some p =>
    obtain ⟨x, y⟩ := p
    simp only
    cases splitFirst rbrace y with
    | none => rfl
    | some q => obtain ⟨a, b⟩ := q; rfl

/-- the slot as a 16-bit value, as the model computes it -/
def keyToSlotBV (k : Bytes) : BitVec 16 :=
  if (ktsOuter k).length > 0 then crc16Tab (ktsOuter k) &&& 0x3fff#16 else crc16Tab k &&& 0x3fff#16

theorem keyToSlotBV_toNat (k : Bytes) : (keyToSlotBV k).toNat = keyToSlot k := by
  unfold keyToSlotBV keyToSlot
  simp only
  split <;> rfl

theorem take_length_le {α : Type} (n : Nat) (l : List α) : (l.take n).length ≤ l.length := by
  simp [List.length_take]; omega

theorem ktsOuter_length_le (k : Bytes) : (ktsOuter k).length ≤ k.length := by
  induction k with
  | nil => simp [ktsOuter]
  | cons b rest ih =>
    rw [ktsOuter]
    split
    · rw [ktsInner_spec]
      have : ∀ (l : Bytes) (p : Bytes × Bytes), splitFirst rbrace l = some p → p.1.length ≤ l.length := by
        intro l
        induction l with
        | nil => intro p h; simp [splitFirst] at h
        | cons c r ih2 =>
          intro p h
          by_cases hc : c = rbrace
          · rw [splitFirst_cons_eq rbrace c r hc] at h
            cases h; simp
          · rw [splitFirst_cons_ne rbrace c r hc] at h
            cases hs : splitFirst rbrace r with
            | none => rw [hs] at h; simp at h
            | some q =>
              rw [hs] at h
              simp only [Option.map_some, Option.some.injEq] at h
              have := ih2 q hs
              rw [← h]; simp; omega
      cases hs : splitFirst rbrace rest with
      | none => simp
      | some p =>
        have := this rest p hs
        simp; omega
    · simp; omega

/-- the regenerated `redis.KeyToSlot` computes the model's slot, for every key -/
theorem gen_keyToSlot_eq_bv (k : Bytes) (hlen : k.length < 9223372036854775807) :
    Fn.keyToSlot k = some (keyToSlotBV k) := by
  unfold Fn.keyToSlot
  have h := gen_kts_loop1 k hlen ((GoSem.len k).toNat + 1) 0 [] (by omega) (by unfold GoSem.len; omega)
  simp only [Int.ofNat_zero, List.drop_zero, ktsTagFrom_nil] at h
  simp only [bind, h, Option.bind_some]
  unfold keyToSlotBV
  have hl : (GoSem.len (ktsOuter k) > (0 : Int)) ↔ (ktsOuter k).length > 0 := by unfold GoSem.len; omega
  by_cases hp : (ktsOuter k).length > 0
  · have hp' := hl.2 hp
    have := ktsOuter_length_le k
    simp only [hp, hp', ↓reduceIte]
    rw [gen_crc16_eq_model _ (by omega)]
    rfl
  · have hp' : ¬ (GoSem.len (ktsOuter k) > (0 : Int)) := fun h => hp (hl.1 h)
    simp only [hp, hp', ↓reduceIte]
    rw [gen_crc16_eq_model _ hlen]
    rfl

theorem gen_keyToSlot_eq_model (k : Bytes) (hlen : k.length < 9223372036854775807) :
    (Fn.keyToSlot k).map BitVec.toNat = some (keyToSlot k) := by
  rw [gen_keyToSlot_eq_bv k hlen, Option.map_some, keyToSlotBV_toNat]

/-- C11's main theorem, directly about the definition regenerated from slot.go -/
theorem gen_keyToSlot_eq_hashSlotSpec (k : Bytes) (hlen : k.length < 9223372036854775807) :
    (Fn.keyToSlot k).map BitVec.toNat = some (hashSlotSpec k) := by
  rw [gen_keyToSlot_eq_model k hlen, keyToSlot_eq_spec]


/-! ### cluster client `hash` -/

theorem scanFor_le (c : UInt8) (l : Bytes) : scanFor c l ≤ l.length := by
  induction l with
  | nil => simp [scanFor]
  | cons b rest ih => rw [scanFor]; split <;> simp <;> omega

theorem scanFor_cons_eq (c b : UInt8) (rest : Bytes) (h : b = c) : scanFor c (b :: rest) = 0 := by
  simp [scanFor, h]

theorem scanFor_cons_ne (c b : UInt8) (rest : Bytes) (h : b ≠ c) :
    scanFor c (b :: rest) = scanFor c rest + 1 := by
  have : (b == c) = false := by simp [h]
  rw [scanFor]; simp [this]

theorem gen_ch_loop1 (key : Bytes) (hlen : key.length < 9223372036854775807) :
    ∀ (fuel s : Nat), s ≤ key.length → key.length - s < fuel →
      Fn.clusterHash_loop1 key fuel (s : Int) = some (((s + scanFor lbrace (key.drop s) : Nat)) : Int) := by
  intro fuel
  induction fuel with
  | zero => intro s _ hf; omega
  | succ fuel ih =>
    intro s hs hf
    unfold Fn.clusterHash_loop1
    by_cases hlt : s < key.length
    · have h1 : ((s : Int) < GoSem.len key) := (lt_len_iff key s).2 hlt
      simp only [h1, ↓reduceIte, index_nat key s hlt, Option.bind_some, bind]
      rw [List.drop_eq_getElem_cons hlt]
      by_cases hb : key[s] = (123 : UInt8)
      · simp only [hb, ↓reduceIte]
        rw [scanFor_cons_eq lbrace _ _ (by rfl)]
        rfl
      · simp only [hb, ↓reduceIte]
        rw [addI_nat s (by omega), ih (s + 1) (by omega) (by omega)]
        rw [scanFor_cons_ne lbrace _ _ (by intro e; exact hb (by rw [e]; rfl))]
        congr 2; omega
    · have h1 : ¬ ((s : Int) < GoSem.len key) := fun h => hlt ((lt_len_iff key s).1 h)
      have h2 : key.drop s = [] := List.drop_eq_nil_of_le (by omega)
      rw [if_neg h1, h2]
      rfl

theorem gen_ch_loop2 (key : Bytes) (hlen : key.length < 9223372036854775807) (s0 : Int) :
    ∀ (fuel e : Nat), e ≤ key.length → key.length - e < fuel →
      Fn.clusterHash_loop2 key s0 fuel (e : Int) = some (((e + scanFor rbrace (key.drop e) : Nat)) : Int) := by
  intro fuel
  induction fuel with
  | zero => intro e _ hf; omega
  | succ fuel ih =>
    intro e he hf
    unfold Fn.clusterHash_loop2
    by_cases hlt : e < key.length
    · have h1 : ((e : Int) < GoSem.len key) := (lt_len_iff key e).2 hlt
      simp only [h1, ↓reduceIte, index_nat key e hlt, Option.bind_some, bind]
      rw [List.drop_eq_getElem_cons hlt]
      by_cases hb : key[e] = (125 : UInt8)
      · simp only [hb, ↓reduceIte]
        rw [scanFor_cons_eq rbrace _ _ (by rfl)]
        rfl
      · simp only [hb, ↓reduceIte]
        rw [addI_nat e (by omega), ih (e + 1) (by omega) (by omega)]
        rw [scanFor_cons_ne rbrace _ _ (by intro h; exact hb (by rw [h]; rfl))]
        congr 2; omega
    · have h1 : ¬ ((e : Int) < GoSem.len key) := fun h => hlt ((lt_len_iff key e).1 h)
      have h2 : key.drop e = [] := List.drop_eq_nil_of_le (by omega)
      rw [if_neg h1, h2]
      rfl

/-- the slot as a 16-bit value, as the model of `hash` computes it -/
def clusterHashBV (k : Bytes) : BitVec 16 :=
  let s := scanFor lbrace k
  if s = k.length then crc16Tab k &&& 16383#16
  else
    let e := s + 1 + scanFor rbrace (k.drop (s + 1))
    if e = k.length ∨ e = s + 1 then crc16Tab k &&& 16383#16
    else crc16Tab ((k.drop (s + 1)).take (e - (s + 1))) &&& 16383#16

theorem clusterHashBV_toNat (k : Bytes) : (clusterHashBV k).toNat = clusterHash k := by
  unfold clusterHashBV clusterHash
  simp only
  split
  · rfl
  · split <;> rfl

/-- the regenerated cluster `hash` computes the model's slot, for every key -/
theorem gen_clusterHash_eq_bv (k : Bytes) (hlen : k.length < 9223372036854775807) :
    Fn.clusterHash k = some (clusterHashBV k) := by
  unfold Fn.clusterHash
  have h1 := gen_ch_loop1 k hlen ((GoSem.len k - (0 : Int)).toNat + 1) 0 (by omega) (by unfold GoSem.len; omega)
  simp only [Int.ofNat_zero, List.drop_zero, Nat.zero_add] at h1
  simp only [bind, h1, Option.bind_some]
  unfold clusterHashBV
  have hs := scanFor_le lbrace k
  generalize scanFor lbrace k = s at hs ⊢
  have hc : (((s : Nat) : Int) = GoSem.len k) ↔ s = k.length := by unfold GoSem.len; omega
  by_cases hsl : s = k.length
  · rw [if_pos (hc.2 hsl), if_pos hsl, gen_crc16_eq_model _ hlen]
    rfl
  · rw [if_neg (fun h => hsl (hc.1 h)), if_neg hsl]
    rw [addI_nat s (by omega)]
    have h2 := gen_ch_loop2 k hlen (s : Int) ((GoSem.len k - ((s + 1 : Nat) : Int)).toNat + 1) (s + 1)
      (by omega) (by unfold GoSem.len; omega)
    simp only [h2, Option.bind_some]
    have he := scanFor_le rbrace (k.drop (s + 1))
    simp only [List.length_drop] at he
    generalize scanFor rbrace (k.drop (s + 1)) = d at he ⊢
    have hc2 : ((((s + 1 + d : Nat)) : Int) = GoSem.len k ∨ (((s + 1 + d : Nat)) : Int) = ((s + 1 : Nat) : Int)) ↔
        (s + 1 + d = k.length ∨ s + 1 + d = s + 1) := by unfold GoSem.len; omega
    by_cases hcase : s + 1 + d = k.length ∨ s + 1 + d = s + 1
    · rw [if_pos (hc2.2 hcase), if_pos hcase, gen_crc16_eq_model _ hlen]
      rfl
    · rw [if_neg (fun h => hcase (hc2.1 h)), if_neg hcase]
      rw [slice_nat k (s + 1) (s + 1 + d) (by omega) (by omega)]
      simp only [Option.bind_some]
      rw [gen_crc16_eq_model _ (by simp [List.length_take]; omega)]
      rfl

theorem gen_clusterHash_eq_model (k : Bytes) (hlen : k.length < 9223372036854775807) :
    (Fn.clusterHash k).map BitVec.toNat = some (clusterHash k) := by
  rw [gen_clusterHash_eq_bv k hlen, Option.map_some, clusterHashBV_toNat]

/-- C11's main theorem, directly about the definition regenerated from cluster.go -/
theorem gen_clusterHash_eq_hashSlotSpec (k : Bytes) (hlen : k.length < 9223372036854775807) :
    (Fn.clusterHash k).map BitVec.toNat = some (hashSlotSpec k) := by
  rw [gen_clusterHash_eq_model k hlen, clusterHash_eq_spec]

/-- the regenerated CRC is CRC16/XMODEM -/
theorem gen_crc16_eq_xmodem (buf : Bytes) (hlen : buf.length < 9223372036854775807) :
    Fn.crc16 buf = some (crc16Spec buf) := by
  rw [gen_crc16_eq_model buf hlen, crc16Tab_eq_xmodem]

/-- the two regenerated implementations agree on every key -/
theorem gen_keyToSlot_eq_gen_clusterHash (k : Bytes) (hlen : k.length < 9223372036854775807) :
    (Fn.keyToSlot k).map BitVec.toNat = (Fn.clusterHash k).map BitVec.toNat := by
  rw [gen_keyToSlot_eq_hashSlotSpec k hlen, gen_clusterHash_eq_hashSlotSpec k hlen]

/-! non-vacuity: the regenerated definitions evaluate (no panic, fuel suffices) -/
example : Fn.crc16 [49,50,51,52,53,54,55,56,57] = some 0x31C3#16 := by decide +kernel
example : (Fn.keyToSlot [123,97,125,123,98,125]).map BitVec.toNat = some 15495 := by decide +kernel
example : (Fn.clusterHash [123,97,125,123,98,125]).map BitVec.toNat = some 15495 := by decide +kernel
example : (Fn.keyToSlot [0xff, 0x7b, 0x7d]).map BitVec.toNat = some (hashSlotSpec [0xff, 0x7b, 0x7d]) := by decide +kernel

end GunYu.Props.C11
