/-
  C07 — the REGENERATED definitions of the checkpoint field-name helpers
  (pkg/redis/checkpoint/checkpoint_info.go RunIdKey / VersionKey / OffsetKey /
  MTimeKey; lean/GunYu/Gen/FnCheckpointKeys.lean, translated from /repo's Go
  source on every run) are `<run id> ++ suffix` with the regenerated suffix
  constants, and the naming is INJECTIVE: the field a WRITER names for the position
  (`<rid>_offset`, what C07's theorems are about) is never the name it uses for
  another kind of field or for another run id's field, so a write of `_runid` /
  `_version` / `_mtime`, or of another id's `_offset`, cannot overwrite it.

  What this does NOT give: a correct PARSE of the stored hash. The reader
  (checkpoint.go fetchCheckpoint) does not match names exactly; it uses
  `strings.HasPrefix(field, runId)` and `strings.Contains(field, suffix)`. That the
  parsed form `(rid, kind) ↦ value` of the models (Model/Checkpoint.lean `Entry`,
  `matchId`) is what the reader sees needs the separate ASSUMPTION listed in the
  property configs: run ids are equal-length hex strings (no `_`, none a prefix of
  another) - a run id `x_offset`, or one id that is a prefix of another, would be
  mis-parsed although the names are distinct.
-/
import GunYu.Model.Checkpoint
import GunYu.Gen.CheckpointConsts
import GunYu.Gen.FnCheckpointKeys

namespace GunYu.Props.C07
open GunYu GunYu.Checkpoint GunYu.Gen

/-- the wire name of a parsed field (hand model: rid ++ suffix of the kind) -/
def fieldName (rid : Bytes) : Kind → Bytes
  | .runid => rid ++ Gen.cpSuffixRunId
  | .version => rid ++ Gen.cpSuffixVersion
  | .offset => rid ++ Gen.cpSuffixOffset
  | .mtime => rid ++ Gen.cpSuffixMtime
  | .other => rid

/-- the regenerated helper of a kind -/
def genFieldName (cp : Fn.CheckpointInfo) : Kind → Option Bytes
  | .runid => Fn.runIdKey cp
  | .version => Fn.versionKey cp
  | .offset => Fn.offsetKey cp
  | .mtime => Fn.mtimeKey cp
  | .other => some cp.RunId

theorem gen_runIdKey_eq_model (cp : Fn.CheckpointInfo) : Fn.runIdKey cp = some (fieldName cp.RunId .runid) := rfl
theorem gen_versionKey_eq_model (cp : Fn.CheckpointInfo) : Fn.versionKey cp = some (fieldName cp.RunId .version) := rfl
theorem gen_offsetKey_eq_model (cp : Fn.CheckpointInfo) : Fn.offsetKey cp = some (fieldName cp.RunId .offset) := rfl
theorem gen_mtimeKey_eq_model (cp : Fn.CheckpointInfo) : Fn.mtimeKey cp = some (fieldName cp.RunId .mtime) := rfl

/-- all four regenerated helpers at once -/
theorem gen_fieldName_eq_model (cp : Fn.CheckpointInfo) (k : Kind) :
    genFieldName cp k = some (fieldName cp.RunId k) := by
  cases k <;> rfl

theorem getLast_append_of_ne_nil {α : Type} (a b : List α) (hb : b ≠ []) :
    (a ++ b).getLast? = b.getLast? := by
  simp [List.getLast?_append]
  cases h : b.getLast? with
  | none => simp [List.getLast?_eq_none_iff] at h; exact absurd h hb
  | some x => simp

/-- the four suffixes end in four different bytes (d, n, t, e): names of different kinds differ -/
theorem fieldName_kind_injective (r1 r2 : Bytes) (k1 k2 : Kind) (h1 : k1 ≠ .other) (h2 : k2 ≠ .other)
    (h : fieldName r1 k1 = fieldName r2 k2) : k1 = k2 := by
  have hl := congrArg List.getLast? h
  cases k1 <;> cases k2 <;> first | rfl | exact absurd rfl h1 | exact absurd rfl h2 | skip
  all_goals
    simp only [fieldName] at hl
    rw [getLast_append_of_ne_nil _ _ (by decide), getLast_append_of_ne_nil _ _ (by decide)] at hl
    revert hl; decide

/-- **the naming is injective**: the field `<rid>_offset` of one run id is never another
    kind of field nor any field of another run id -/
theorem fieldName_injective (r1 r2 : Bytes) (k1 k2 : Kind) (h1 : k1 ≠ .other) (h2 : k2 ≠ .other)
    (h : fieldName r1 k1 = fieldName r2 k2) : r1 = r2 ∧ k1 = k2 := by
  have hk := fieldName_kind_injective r1 r2 k1 k2 h1 h2 h
  subst hk
  refine ⟨?_, rfl⟩
  cases k1 <;> simp only [fieldName] at h
  · exact List.append_cancel_right h
  · exact List.append_cancel_right h
  · exact List.append_cancel_right h
  · exact List.append_cancel_right h
  · exact absurd rfl h1

/-- C07's position field, about the regenerated helpers: whatever two checkpoint records and
    kinds, the regenerated names coincide only for the same run id and the same kind - a write
    of `<rid>_runid` / `_version` / `_mtime`, or of another id's `_offset`, never touches
    the stored position `<rid>_offset` -/
theorem gen_fieldName_injective (c1 c2 : Fn.CheckpointInfo) (k1 k2 : Kind) (h1 : k1 ≠ .other) (h2 : k2 ≠ .other)
    (h : genFieldName c1 k1 = genFieldName c2 k2) : c1.RunId = c2.RunId ∧ k1 = k2 := by
  rw [gen_fieldName_eq_model, gen_fieldName_eq_model] at h
  exact fieldName_injective _ _ _ _ h1 h2 (Option.some.inj h)

/-! non-vacuity -/
example : Fn.offsetKey { Key := [], RunId := [97, 98], Version := [], Offset := 7, Mtime := 0 } =
    some [97, 98, 95, 111, 102, 102, 115, 101, 116] := by decide
example : genFieldName { Key := [], RunId := [97], Version := [], Offset := 0, Mtime := 0 } .mtime ≠
    genFieldName { Key := [], RunId := [97], Version := [], Offset := 0, Mtime := 0 } .offset := by decide

end GunYu.Props.C07
