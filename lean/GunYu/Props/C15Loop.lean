/-
  C15 — runCluster AFTER its first campaign (campaign → lead → stop → resign / lose → follow →
  campaign again).

  That loop has a model already: Model/Handover.lean (built for C16's hand-over clause, tied to
  cmd/syncer.go by C16's source facts and by its harness C16ho, which runs the REAL runCluster of
  two instances through lead / stop / resign / pause / campaign / follow on the wall clock —
  testing/synctest cannot carry that run: real loopback sockets). C15 so far ASSUMED what it
  needs of the loop ("an instance stops acting as leader before it calls Resign"; "after an
  error its belief is unchanged"). Here those assumptions are replaced by the theorems of that
  model, imported — not re-proved, and not counted as C15's own content:

    loop_resign_only_after_stop     Resign is issued only in the phase entered by `stopped`
                                    (sy.Stop(); WgWait returned), which is not a sending phase
    loop_silent_until_campaign_won  a stopped instance does not send again before it WINS a campaign
    loop_campaign_outcome           a candidate's campaign: leader iff the key is free / expired / its own
    loop_no_two_senders             in every reachable state of every interleaving (crashes, restarts,
                                    failed calls included) whoever sends holds the unexpired lease

  The timing guard of that model (`timely`: a sender's lease does not run out while it sends) is
  exactly what C15 proves of the Redis lease from the ticker: Props/C15Sim.lean (ticker ⇒ TAllowed)
  ⇒ Props/C15.lean `acting_has_lease` (an instance that leads holds the unexpired lease at the
  store). The two models (TSys here, Handover.State there) are NOT connected by a Lean theorem:
  the chain is ticker ⇒ TAllowed ⇒ acting_has_lease on one side, timely ⇒ no_two_senders on the
  other, `acting_has_lease` and `timely` saying the same thing in two vocabularies.
-/
import GunYu.Props.C16Handover

namespace GunYu.Props.C15
open GunYu.Handover

theorem loop_resign_only_after_stop (c : Cfg) (g : Bool) (s : State) (i : Nat) (ok : Bool) :
    ((∀ w, (s.loc i).phase ≠ .resign w) → step c g s (.resigned i ok) = s) ∧
      (∀ w, (s.loc i).phase = .resign w → sending (s.loc i) = false) :=
  GunYu.Props.C16.resign_after_stop c g s i ok

theorem loop_silent_until_campaign_won (c : Cfg) (g : Bool) (s : State) (ev : Ev) (i : Nat)
    (hns : sending (s.loc i) = false) (hev : ev ≠ .campaign i true) :
    sending ((step c g s ev).loc i) = false :=
  GunYu.Props.C16.silent_until_campaign_won c g s ev i hns hev

theorem loop_campaign_outcome (c : Cfg) (g : Bool) (s : State) (j w : Nat)
    (hp : (s.loc j).phase = .cand w) (hw : w ≤ s.now) :
    (heldByOther s j = false →
        ((step c g s (.campaign j true)).loc j).phase = .lead ∧
        (step c g s (.campaign j true)).lease = some (j, s.now + c.ttl)) ∧
      (heldByOther s j = true → ((step c g s (.campaign j true)).loc j).phase = .foll ∧
        (step c g s (.campaign j true)).lease = s.lease) :=
  GunYu.Props.C16.campaign_outcome c g s j w hp hw

theorem loop_no_two_senders (c : Cfg) (httl : 0 < c.ttl) (evs : List Ev) (s : State)
    (hb : Bounded c s) (hw : ∀ ev ∈ evs, ev.within c) (hs : Safe s) :
    (∀ i, sending ((run c true s evs).loc i) = true →
        holdsUntil (run c true s evs) i (run c true s evs).now = true) ∧
      ∀ i j, sending ((run c true s evs).loc i) = true → sending ((run c true s evs).loc j) = true → i = j :=
  GunYu.Props.C16.no_two_senders c httl evs s hb hw hs

-- non-vacuity: C16's start state is safe (nobody sends)
example : Safe GunYu.Props.C16.s0 := GunYu.Props.C16.s0_safe

end GunYu.Props.C15
