/-
  C17 — switching the bidirectional recovery format: THE POSITION A BIDIRECTIONAL START REALLY USES.

  `migrate_prefix_safe` (Props/C17.lean) bounds the ROOT checkpoint. A bidirectional start
  (`RedisOutput.StartPoint` → `bisyncStartPoint`, C14's start model `Frontier.startLatest` /
  `Frontier.startFrontier`) overrides the root by the latest record / the rebuilt frontier unless the root
  is newer. `migrate_start_exact`: for the migration proper (stored mode of another recovery family, an
  authoritative seed), stopped after ANY number `k` of its requests — the namespace-level ones included
  (Model/MigrateNs.lean) — the next start of a process configured for the new mode (the switch run again to
  completion on the crash state with another freshly drawn name, then `StartPoint` on the namespace it
  resolved) resumes at EXACTLY the offset the start in the old mode resumed at before the switch began:
  never lower (nothing replayed twice beyond what the old mode would have), never higher (nothing skipped).
  `migrate_start_inferred`: the same when the old namespace carries no mode marker (mode inferred).
-/
import GunYu.Props.C17
import GunYu.Proofs.MigrateStart

namespace GunYu.MigrateNs
open GunYu GunYu.Checkpoint GunYu.Migrate

set_option linter.unusedSimpArgs false
set_option linter.unusedVariables false

/-- the namespace-level state of a freshly seeded namespace -/
def NsSeeded (id1 : Bytes) (desired : BMode) (S : Int) (ns : Frontier.NS) : Prop :=
  ns.index = [] ∧
  (if desired.usesFrontier then ∃ s, ns.frontier = some s ∧ s.runId = id1 ∧ s.offset = S
   else ∃ r, ns.latest = some r ∧ r.runId = id1 ∧ r.endOff = S)

/-- the requests after the repointing of the hash -/
def tailB (n r id1 : Bytes) (cur : BMode) : List BReq :=
  (if r ≠ [] ∧ r ≠ id1 then [BReq.cp (Req.hdelHash r)] else [])
  ++ (if cur.usesFrontier then [BReq.dropJournal n] else [])
  ++ [BReq.dropSlots n, BReq.delRoot n]

def seedB (id1 newName ver : Bytes) (desired : BMode) (seq S mt : Int) : BReq :=
  if desired.usesFrontier
    then BReq.seedFrontier newName { runId := id1, seq := seq, offset := S, mtime := mt, version := ver }
    else BReq.seedLatest newName { seq := seq, endOff := S, mtime := mt, runId := id1 }

/-- the request list of the migration proper -/
theorem migrateReqsB_form (ver : Bytes) (b : BT) (id1 id2 n r newName : Bytes) (cur desired : BMode) (sd : Seed)
    (c : CpInfo) (nows : List Int) (order : List Nat) (mt : Int) (h1 : id1 ≠ [])
    (hn : getHash b.t.hash [id1, id2] = some (n, r)) (hn0 : n ≠ [])
    (hmode : loadMode b.t n = some (some cur)) (hcd : cur ≠ desired) (hfam : sameFamily cur desired = false)
    (hsd : loadSeed ver (b.ns n) [id1, id2] cur = some sd)
    (hgc : getCheckpoint ver b.t n [id1, id2] order = some (c, 0)) :
    migrateReqsB ver b [id1, id2] desired newName nows order mt =
      [BReq.cp (Req.hsetCp 0 newName (cpEntries { runId := id1, offset := seedOffset sd c [id1, id2], version := ver } (nows.headD 0))),
       seedB id1 newName ver desired (seedSeq sd c [id1, id2]) (seedOffset sd c [id1, id2]) mt,
       BReq.cp (Req.hsetCp 0 newName (modeEntries desired (nows.tail.headD 0))),
       BReq.cp (Req.hsetHash id1 newName)] ++ tailB n r id1 cur := by
  unfold migrateReqsB
  simp only [hn, hn0, if_false, hmode, hcd, hfam, Bool.false_eq_true, hsd, hgc, migrateCoreB,
    preferredRunId_first id1 id2 _ h1, seedB, tailB, List.cons_append, List.nil_append, List.append_assoc]

theorem tailB_post {n r id1 newName : Bytes} (cur : BMode) (hnn : newName ≠ n) (hnf : newName ≠ frontierKey n) :
    ∀ q ∈ (tailB n r id1 cur).filterMap cpPart, PostReq id1 newName q := by
  intro q hq
  obtain ⟨x, hx, hxq⟩ := List.mem_filterMap.mp hq
  unfold tailB at hx
  simp only [List.mem_append, List.mem_cons, List.not_mem_nil, or_false] at hx
  rcases hx with (hx | hx) | hx | hx
  · split at hx
    · rename_i hc
      have : x = BReq.cp (Req.hdelHash r) := by simpa using hx
      subst this
      simp only [cpPart, Option.some.injEq] at hxq
      exact Or.inl ⟨r, hxq.symm, hc.2⟩
    · simp at hx
  · split at hx
    · have : x = BReq.dropJournal n := by simpa using hx
      subst this; simp [cpPart] at hxq
    · simp at hx
  · subst hx; simp [cpPart] at hxq
  · subst hx
    simp only [cpPart, Option.some.injEq] at hxq
    refine Or.inr ⟨0, _, hxq.symm, ?_⟩
    rw [List.contains_iff_mem]
    intro hmem
    simp only [List.mem_cons, List.not_mem_nil, or_false] at hmem
    rcases hmem with h | h
    · exact hnn h
    · exact hnf h

theorem tailB_ns {n r id1 : Bytes} (cur : BMode) (nm : Bytes) (hnm : nm ≠ n) :
    ∀ q ∈ tailB n r id1 cur, nsName q ≠ some nm := by
  intro q hq
  unfold tailB at hq
  simp only [List.mem_append, List.mem_cons, List.not_mem_nil, or_false] at hq
  rcases hq with (hq | hq) | hq | hq
  · split at hq
    · have : q = BReq.cp (Req.hdelHash r) := by simpa using hq
      subst this; simp [nsName]
    · simp at hq
  · split at hq
    · have : q = BReq.dropJournal n := by simpa using hq
      subst this; simp only [nsName, ne_eq, Option.some.injEq]; exact fun h => hnm h.symm
    · simp at hq
  · subst hq; simp only [nsName, ne_eq, Option.some.injEq]; exact fun h => hnm h.symm
  · subst hq; simp only [nsName, ne_eq, Option.some.injEq]; exact fun h => hnm h.symm

theorem take_mem {α : Type} {l : List α} {k : Nat} {a : α} (h : a ∈ l.take k) : a ∈ l := List.mem_of_mem_take h

/-- **the states from the repointing of the hash on**: the target is `Seeded`, the recovery state of the new
    namespace is what `seedBisyncNamespace` wrote -/
theorem run_ge4 {ver id1 id2 n r newName : Bytes} (A : MArgs id1 id2 n newName) (b : BT) (cur desired : BMode)
    (S seq mt now1 now2 : Int) (hS0 : 0 ≤ S) (hSr : -(2^63 : Int) ≤ S ∧ S < 2^63)
    (hnow : -(2^63 : Int) ≤ now1 ∧ now1 < 2^63) (hf : Fresh [id1, id2] b.t newName)
    (hidx : (b.ns newName).index = []) (j : Nat) :
    Seeded id1 id2 newName desired S
      (applyAllB b ([BReq.cp (Req.hsetCp 0 newName (cpEntries { runId := id1, offset := S, version := ver } now1)),
         seedB id1 newName ver desired seq S mt,
         BReq.cp (Req.hsetCp 0 newName (modeEntries desired now2)),
         BReq.cp (Req.hsetHash id1 newName)] ++ (tailB n r id1 cur).take j)).t ∧
    NsSeeded id1 desired S
      ((applyAllB b ([BReq.cp (Req.hsetCp 0 newName (cpEntries { runId := id1, offset := S, version := ver } now1)),
         seedB id1 newName ver desired seq S mt,
         BReq.cp (Req.hsetCp 0 newName (modeEntries desired now2)),
         BReq.cp (Req.hsetHash id1 newName)] ++ (tailB n r id1 cur).take j)).ns newName) := by
  constructor
  · rw [applyAllB_t, List.filterMap_append]
    have h4 : List.filterMap cpPart
        [BReq.cp (Req.hsetCp 0 newName (cpEntries { runId := id1, offset := S, version := ver } now1)),
         seedB id1 newName ver desired seq S mt,
         BReq.cp (Req.hsetCp 0 newName (modeEntries desired now2)),
         BReq.cp (Req.hsetHash id1 newName)] =
        [Req.hsetCp 0 newName (cpEntries { runId := id1, offset := S, version := ver } now1),
         Req.hsetCp 0 newName (modeEntries desired now2), Req.hsetHash id1 newName] := by
      unfold seedB
      by_cases hu : desired.usesFrontier = true <;> simp [hu, cpPart, List.filterMap_cons]
    rw [h4, applyAll_append]
    apply seeded_post A.hne A.h1 _ (seeded_after_three (r := r) A hf desired S now1 now2 hS0 hSr hnow)
    intro q hq
    obtain ⟨x, hx, hxq⟩ := List.mem_filterMap.mp hq
    exact tailB_post cur A.hnewn A.hnewf q (List.mem_filterMap.mpr ⟨x, take_mem hx, hxq⟩)
  · rw [applyAllB_append, applyAllB_ns_other _ newName _ (fun q hq => tailB_ns cur newName A.hnewn q (take_mem hq))]
    unfold NsSeeded seedB
    by_cases hu : desired.usesFrontier = true
    · simp only [hu, if_true, applyAllB, List.foldl_cons, List.foldl_nil, applyB, setNs]
      exact ⟨hidx, _, rfl, rfl, rfl⟩
    · simp only [hu, if_false, applyAllB, List.foldl_cons, List.foldl_nil, applyB, setNs, Bool.false_eq_true]
      exact ⟨hidx, _, rfl, rfl, rfl⟩

/-- a start in the new mode on a seeded namespace resumes at the seed offset -/
theorem start_on_seeded (ver id1 id2 newName : Bytes) (h1 : id1 ≠ []) (bt : BT) (desired : BMode) (S : Int)
    (hs : Seeded id1 id2 newName desired S bt.t) (hns : NsSeeded id1 desired S (bt.ns newName))
    (order : List Nat) (h0 : 0 ∈ order) :
    startOff (bisyncStart ver bt newName [id1, id2] desired order) = some S := by
  obtain ⟨c, hgc, hcS, _, _⟩ := getCheckpoint_of_holds ver hs.holds order h0
  unfold bisyncStart rootOf
  simp only [hgc]
  have hz : ¬ (((0 : Nat) : Int) < 0) := by omega
  simp only [hz, if_false, Int.toNat_natCast]
  obtain ⟨hidx, hrec⟩ := hns
  by_cases hu : desired.usesFrontier = true
  · simp only [hu, if_true] at hrec ⊢
    obtain ⟨s, hf, hsr, hso⟩ := hrec
    obtain ⟨d, rid, seq, he⟩ := seeded_start_frontier ver id1 id2 h1
      { bt.ns newName with root := some (c.runId, c.offset, 0) } (c.runId, c.offset, 0) s hf hidx rfl hsr
      (by rw [hso, hcS])
    rw [he]; simp [startOff, hcS]
  · simp only [hu, if_false, Bool.false_eq_true] at hrec ⊢
    obtain ⟨rr, hl, hsr, hso⟩ := hrec
    obtain ⟨d, rid, seq, he⟩ := seeded_start_latest id1 id2 h1
      { bt.ns newName with root := some (c.runId, c.offset, 0) } (c.runId, c.offset, 0) rr hl rfl hsr
      (by rw [hso, hcS])
    rw [he]; simp [startOff, hcS]

/-- on a seeded target the switch has nothing to do -/
theorem rerun_noop (ver id1 id2 newName : Bytes) (hnew0 : newName ≠ []) (bt : BT) (desired : BMode) (S : Int)
    (hs : Seeded id1 id2 newName desired S bt.t) (nn : Bytes) (nows : List Int) (order : List Nat) (mt : Int) :
    migrateReqsB ver bt [id1, id2] desired nn nows order mt = [] := by
  unfold migrateReqsB
  simp only [hs.hash, hnew0, if_false, hs.mode, if_true]

/-- the next start on a seeded state -/
theorem nextStart_on_seeded (ver id1 id2 newName : Bytes) (h1 : id1 ≠ []) (hnew0 : newName ≠ []) (bt : BT)
    (desired : BMode) (S : Int) (hs : Seeded id1 id2 newName desired S bt.t)
    (hns : NsSeeded id1 desired S (bt.ns newName)) (nn : Bytes) (nows : List Int) (order : List Nat)
    (h0 : 0 ∈ order) (mt : Int) :
    startOff (nextStart ver bt [id1, id2] desired nn nows order mt) = some S := by
  unfold nextStart
  simp only [rerun_noop ver id1 id2 newName hnew0 bt desired S hs, applyAllB, List.foldl_nil, hs.hash, hnew0, if_false]
  exact start_on_seeded ver id1 id2 newName h1 bt desired S hs hns order h0


/-- requests that only write under the first drawn name -/
def OnlyNew (newName : Bytes) (q : BReq) : Prop :=
  (∃ es, q = BReq.cp (Req.hsetCp 0 newName es)) ∨ (∃ s, q = BReq.seedFrontier newName s) ∨
  (∃ r, q = BReq.seedLatest newName r)

/-- agreement outside a name -/
def AgreeOff (newName : Bytes) (b' b : BT) : Prop :=
  b'.t.hash = b.t.hash ∧ (∀ db nm, nm ≠ newName → b'.t.cps db nm = b.t.cps db nm) ∧
  (∀ nm, nm ≠ newName → b'.ns nm = b.ns nm)

theorem agree_step {newName : Bytes} {b' b : BT} (h : AgreeOff newName b' b) (q : BReq) (hq : OnlyNew newName q) :
    AgreeOff newName (applyB b' q) b := by
  obtain ⟨h1, h2, h3⟩ := h
  rcases hq with ⟨es, rfl⟩ | ⟨s, rfl⟩ | ⟨r, rfl⟩
  · refine ⟨h1, ?_, h3⟩
    intro db nm hnm
    show (applyReq b'.t (Req.hsetCp 0 newName es)).cps db nm = _
    rw [applyReq_hsetCp_cps]
    have : ¬ (db = 0 ∧ nm = newName) := fun hc => hnm hc.2
    simp only [this, if_false]
    exact h2 db nm hnm
  · refine ⟨h1, h2, ?_⟩
    intro nm hnm
    simp only [applyB, setNs, hnm, if_false]
    exact h3 nm hnm
  · refine ⟨h1, h2, ?_⟩
    intro nm hnm
    simp only [applyB, setNs, hnm, if_false]
    exact h3 nm hnm

theorem agree_steps {newName : Bytes} {b : BT} (rs : List BReq) : ∀ {b' : BT}, AgreeOff newName b' b →
    (∀ q ∈ rs, OnlyNew newName q) → AgreeOff newName (applyAllB b' rs) b := by
  induction rs with
  | nil => intro b' h _; exact h
  | cons q rs ih =>
    intro b' h hq
    simp only [applyAllB, List.foldl_cons]
    exact ih (agree_step h q (hq q (List.mem_cons_self ..))) (fun q' hq' => hq q' (List.mem_cons_of_mem _ hq'))

theorem onlyNew_seedB (id1 newName ver : Bytes) (desired : BMode) (seq S mt : Int) :
    OnlyNew newName (seedB id1 newName ver desired seq S mt) := by
  unfold seedB
  split
  · exact Or.inr (Or.inl ⟨_, rfl⟩)
  · exact Or.inr (Or.inr ⟨_, rfl⟩)

end GunYu.MigrateNs

namespace GunYu.Props.C17
open GunYu GunYu.Checkpoint GunYu.Migrate GunYu.MigrateNs

/-- hypotheses of `migrate_start_exact`: those of `migrate_prefix_safe` (`MigPre`), the stored mode `cur` of the old
    namespace (another recovery family than `desired`), an authoritative seed, and a second freshly drawn name for
    the run of the switch after the crash; both drawn names hold no field of the ids and no journal index -/
structure MigStartPre (ver id1 id2 n r newName newName2 : Bytes) (b : BT) (X : Int) (nows nows2 : List Int)
    (cur desired : BMode) (sd : Seed) : Prop where
  pre : MigPre ver id1 id2 n r newName b.t (b.ns n) X nows
  args2 : MArgs id1 id2 n newName2
  ne12 : newName2 ≠ newName
  fresh2 : Fresh [id1, id2] b.t newName2
  mode : loadMode b.t n = some (some cur)
  hcd : cur ≠ desired
  hfam : sameFamily cur desired = false
  seed : loadSeed ver (b.ns n) [id1, id2] cur = some sd
  idx1 : (b.ns newName).index = []
  idx2 : (b.ns newName2).index = []
  nows2Range : ∀ x ∈ nows2, -(2^63 : Int) ≤ x ∧ x < 2^63

/-- **The recovery-format switch never changes the position a bidirectional start uses.** The start in
    the OLD mode on the old namespace resumes at some offset `S`; after ANY number `k` of the requests of the
    switch (root checkpoint, frontier snapshot / latest record, mode marker, hash, clean-up of the old
    namespace), the next start of a process configured for the NEW mode resumes at exactly `S`. -/
theorem migrate_start_exact (ver id1 id2 n r newName newName2 : Bytes) (b : BT) (X : Int) (nows nows2 : List Int)
    (cur desired : BMode) (sd : Seed) (P : MigStartPre ver id1 id2 n r newName newName2 b X nows nows2 cur desired sd)
    (order order2 : List Nat) (h0 : 0 ∈ order) (h02 : 0 ∈ order2) (mt mt2 : Int) :
    ∃ S, startOff (bisyncStart ver b n [id1, id2] cur order) = some S ∧
      ∀ k, startOff (nextStart ver
          (applyAllB b ((migrateReqsB ver b [id1, id2] desired newName nows order mt).take k))
          [id1, id2] desired newName2 nows2 order2 mt2) = some S := by
  have A := P.pre.args
  obtain ⟨c, hgc, hcX, hcq, hfetch⟩ := getCheckpoint_of_holds ver P.pre.holds order h0
  -- the root checkpoint's run id is one of the ids
  obtain ⟨c', hc', hoff', hrid'⟩ := fetch_spec [id1, id2] (b.t.cps 0 n) (P.pre.holds.parses 0)
  have hcc : c' = c := by rw [hfetch] at hc'; exact (Option.some.inj hc').symm
  subst hcc
  have hrun : c'.runId = id1 ∨ c'.runId = id2 := by
    have := foldl_ridStep_mem [id1, id2] (b.t.cps 0 n) (P.pre.own 0) qmark (Or.inl rfl)
    rw [show (b.t.cps 0 n).foldl (ridStep [id1, id2]) qmark = ridOf [id1, id2] (b.t.cps 0 n) from rfl,
      ← hrid'] at this
    rcases this with h | h
    · exact absurd h hcq
    · exact (matchId_pair id1 id2 _).mp h
  have hmatch : Frontier.matchRun c'.runId [id1, id2] = true := by
    unfold Frontier.matchRun
    rcases hrun with h | h <;> rw [h] <;> simp [A.h1, P.pre.h2]
  have hXS : X ≤ seedOffset sd c' [id1, id2] := by
    unfold seedOffset
    split
    · omega
    · rename_i hc
      have : ¬ (c'.offset > sd.offset) := fun hgt => hc ⟨hcq, hgt, hmatch⟩
      omega
  have hSr : -(2^63 : Int) ≤ seedOffset sd c' [id1, id2] ∧ seedOffset sd c' [id1, id2] < 2^63 := by
    unfold seedOffset
    split
    · rw [hoff']; exact offOf_range _ _
    · exact P.pre.seedRange cur sd P.seed
  have hS0 : 0 ≤ seedOffset sd c' [id1, id2] := Int.le_trans P.pre.holds.nonneg hXS
  refine ⟨seedOffset sd c' [id1, id2], ?_, ?_⟩
  · -- before: the start in the old mode
    unfold bisyncStart rootOf
    simp only [hgc]
    have hz : ¬ (((0 : Nat) : Int) < 0) := by omega
    simp only [hz, if_false, Int.toNat_natCast]
    obtain ⟨d, rid, seq, he⟩ := old_start ver (b.ns n) [id1, id2] cur sd P.seed c' 0 hcq
    by_cases hu : cur.usesFrontier = true
    · simp only [hu, if_true] at he ⊢; rw [he]; rfl
    · simp only [hu, if_false, Bool.false_eq_true] at he ⊢; rw [he]; rfl
  · intro k
    have hform := migrateReqsB_form ver b id1 id2 n r newName cur desired sd c' nows order mt A.h1
      P.pre.hn P.pre.hn0 P.mode P.hcd P.hfam P.seed hgc
    rw [hform]
    by_cases hk : 4 ≤ k
    · -- the hash is repointed: nothing left to do for the switch, the start reads the seeded namespace
      rw [List.take_append]
      have h4 : ([BReq.cp (Req.hsetCp 0 newName (cpEntries { runId := id1, offset := seedOffset sd c' [id1, id2], version := ver } (nows.headD 0))),
          seedB id1 newName ver desired (seedSeq sd c' [id1, id2]) (seedOffset sd c' [id1, id2]) mt,
          BReq.cp (Req.hsetCp 0 newName (modeEntries desired (nows.tail.headD 0))),
          BReq.cp (Req.hsetHash id1 newName)] : List BReq).take k = _ := List.take_of_length_le (by simpa using hk)
      rw [h4]
      obtain ⟨hs, hns⟩ := run_ge4 (ver := ver) (r := r) A b cur desired (seedOffset sd c' [id1, id2]) (seedSeq sd c' [id1, id2]) mt
        (nows.headD 0) (nows.tail.headD 0) hS0 hSr (headD_range P.pre.nowsRange) P.pre.fresh P.idx1
        (k - ([BReq.cp (Req.hsetCp 0 newName (cpEntries { runId := id1, offset := seedOffset sd c' [id1, id2], version := ver } (nows.headD 0))),
          seedB id1 newName ver desired (seedSeq sd c' [id1, id2]) (seedOffset sd c' [id1, id2]) mt,
          BReq.cp (Req.hsetCp 0 newName (modeEntries desired (nows.tail.headD 0))),
          BReq.cp (Req.hsetHash id1 newName)] : List BReq).length)
      exact nextStart_on_seeded ver id1 id2 newName A.h1 A.hnew0 _ desired _ hs hns newName2 nows2 order2 h02 mt2
    · -- the hash still resolves the old namespace, which is untouched: the switch runs again, into the second name
      have hk' : k ≤ 3 := by omega
      rw [List.take_append]
      have htl : (tailB n r id1 cur).take (k - ([BReq.cp (Req.hsetCp 0 newName (cpEntries { runId := id1, offset := seedOffset sd c' [id1, id2], version := ver } (nows.headD 0))),
          seedB id1 newName ver desired (seedSeq sd c' [id1, id2]) (seedOffset sd c' [id1, id2]) mt,
          BReq.cp (Req.hsetCp 0 newName (modeEntries desired (nows.tail.headD 0))),
          BReq.cp (Req.hsetHash id1 newName)] : List BReq).length) = [] := by
        have : k - 4 = 0 := by omega
        simp [this]
      rw [htl, List.append_nil]
      generalize hbk : applyAllB b (([BReq.cp (Req.hsetCp 0 newName (cpEntries { runId := id1, offset := seedOffset sd c' [id1, id2], version := ver } (nows.headD 0))),
          seedB id1 newName ver desired (seedSeq sd c' [id1, id2]) (seedOffset sd c' [id1, id2]) mt,
          BReq.cp (Req.hsetCp 0 newName (modeEntries desired (nows.tail.headD 0))),
          BReq.cp (Req.hsetHash id1 newName)] : List BReq).take k) = bk
      -- the crash state agrees with the state before outside the first drawn name
      have hagree : AgreeOff newName bk b := by
        rw [← hbk]
        have h3 : ([BReq.cp (Req.hsetCp 0 newName (cpEntries { runId := id1, offset := seedOffset sd c' [id1, id2], version := ver } (nows.headD 0))),
            seedB id1 newName ver desired (seedSeq sd c' [id1, id2]) (seedOffset sd c' [id1, id2]) mt,
            BReq.cp (Req.hsetCp 0 newName (modeEntries desired (nows.tail.headD 0))),
            BReq.cp (Req.hsetHash id1 newName)] : List BReq).take k =
          ([BReq.cp (Req.hsetCp 0 newName (cpEntries { runId := id1, offset := seedOffset sd c' [id1, id2], version := ver } (nows.headD 0))),
            seedB id1 newName ver desired (seedSeq sd c' [id1, id2]) (seedOffset sd c' [id1, id2]) mt,
            BReq.cp (Req.hsetCp 0 newName (modeEntries desired (nows.tail.headD 0)))] : List BReq).take k := by
          have := List.take_append_of_le_length (l₁ := ([BReq.cp (Req.hsetCp 0 newName (cpEntries { runId := id1, offset := seedOffset sd c' [id1, id2], version := ver } (nows.headD 0))),
            seedB id1 newName ver desired (seedSeq sd c' [id1, id2]) (seedOffset sd c' [id1, id2]) mt,
            BReq.cp (Req.hsetCp 0 newName (modeEntries desired (nows.tail.headD 0)))] : List BReq))
            (l₂ := [BReq.cp (Req.hsetHash id1 newName)]) (i := k) (by simpa using hk')
          simpa using this
        rw [h3]
        apply agree_steps _ ⟨rfl, fun _ _ _ => rfl, fun _ _ => rfl⟩
        intro q hq
        have hq' := take_mem hq
        simp only [List.mem_cons, List.not_mem_nil, or_false] at hq'
        rcases hq' with rfl | rfl | rfl
        · exact Or.inl ⟨_, rfl⟩
        · exact onlyNew_seedB ..
        · exact Or.inl ⟨_, rfl⟩
      obtain ⟨hh, hcps, hnsq⟩ := hagree
      have hnn : n ≠ newName := fun h => A.hnewn h.symm
      have hholds : Holds [id1, id2] bk.t n 0 X := P.pre.holds.congr (fun db => hcps db n hnn)
      obtain ⟨c2, hgc2, _, _, hfetch2⟩ := getCheckpoint_of_holds ver hholds order2 h02
      have hc2 : c2 = c' := by
        rw [hcps 0 n hnn, hfetch] at hfetch2; exact (Option.some.inj hfetch2).symm
      subst hc2
      have hform2 := migrateReqsB_form ver bk id1 id2 n r newName2 cur desired sd c2 nows2 order2 mt2 A.h1
        (hh ▸ P.pre.hn) P.pre.hn0 (by rw [loadMode_congr (hcps 0 n hnn)]; exact P.mode) P.hcd P.hfam
        (by rw [hnsq n hnn]; exact P.seed) hgc2
      have hfresh2 : Fresh [id1, id2] bk.t newName2 := by
        intro db e he; rw [hcps db newName2 P.ne12] at he; exact P.fresh2 db e he
      obtain ⟨hs, hns⟩ := run_ge4 (ver := ver) (r := r) P.args2 bk cur desired (seedOffset sd c2 [id1, id2]) (seedSeq sd c2 [id1, id2]) mt2
        (nows2.headD 0) (nows2.tail.headD 0) hS0 hSr (headD_range P.nows2Range) hfresh2
        (by rw [hnsq newName2 P.ne12]; exact P.idx2) (tailB n r id1 cur).length
      rw [List.take_length] at hs hns
      unfold MigrateNs.nextStart
      rw [hform2]
      simp only [hs.hash, P.args2.hnew0, if_false]
      exact start_on_seeded ver id1 id2 newName2 A.h1 _ desired _ hs hns order2 h02

/-- the mode marker written on a root key changes nothing `GetCheckpoint` reads there -/
theorem getCheckpoint_marker (ver id1 id2 n : Bytes) (hm : matchId [id1, id2] modeField = false)
    {t : Checkpoint.Target} {X : Int} (h : Holds [id1, id2] t n 0 X) (m : BMode) (now : Int) (order order' : List Nat)
    (h0 : 0 ∈ order) (h0' : 0 ∈ order') :
    ∃ c c1, getCheckpoint ver t n [id1, id2] order = some (c, 0) ∧
      getCheckpoint ver (applyReq t (Req.hsetCp 0 n (modeEntries m now))) n [id1, id2] order' = some (c1, 0) ∧
      c1.offset = c.offset ∧ c1.runId = c.runId ∧ c.runId ≠ qmark := by
  have hes : ∀ e ∈ modeEntries m now, matchId [id1, id2] e.rid = false :=
    fun e he => by rw [modeEntries_rid m now e he]; exact hm
  have h1 := holds_hset_nonmatching h 0 n _ hes
  obtain ⟨c, hgc, hcX, hcq, hf⟩ := getCheckpoint_of_holds ver h order h0
  obtain ⟨c1, hgc1, hcX1, _, hf1⟩ := getCheckpoint_of_holds ver h1 order' h0'
  refine ⟨c, c1, hgc, hgc1, by rw [hcX, hcX1], ?_, hcq⟩
  obtain ⟨a, ha, _, har⟩ := fetch_spec [id1, id2] (t.cps 0 n) (h.parses 0)
  obtain ⟨a1, ha1, _, har1⟩ := fetch_spec [id1, id2] ((applyReq t (Req.hsetCp 0 n (modeEntries m now))).cps 0 n) (h1.parses 0)
  rw [hf] at ha; rw [hf1] at ha1
  cases ha; cases ha1
  rw [har, har1, applyReq_hsetCp_cps]
  simp only [and_self, if_true]
  apply ridOf_hsetMany_irrelevant
  intro e he
  rw [← Bool.not_eq_true, ridSel_iff, hes e he]; simp

theorem seed_congr (sd : Seed) (c c1 : CpInfo) (ids : List Bytes) (ho : c1.offset = c.offset) (hr : c1.runId = c.runId) :
    seedOffset sd c1 ids = seedOffset sd c ids ∧ seedSeq sd c1 ids = seedSeq sd c ids := by
  unfold seedOffset seedSeq; rw [ho, hr]; exact ⟨rfl, rfl⟩

/-- **The same when the old namespace carries NO mode marker** and the mode is inferred from its recovery state
    (`inferBisyncNamespaceMode`): the switch first stores the inferred mode on the old root key, then migrates. -/
theorem migrate_start_inferred (ver id1 id2 n r newName newName2 : Bytes) (b : BT) (X : Int) (nows nows2 : List Int)
    (cur desired : BMode) (sd : Seed) (pre : MigPre ver id1 id2 n r newName b.t (b.ns n) X nows)
    (args2 : MArgs id1 id2 n newName2) (ne12 : newName2 ≠ newName) (fresh2 : Fresh [id1, id2] b.t newName2)
    (hmode : loadMode b.t n = none) (hinf : inferMode (b.ns n) [id1, id2] = some cur) (hcd : cur ≠ desired)
    (hfam : sameFamily cur desired = false) (hseed : loadSeed ver (b.ns n) [id1, id2] cur = some sd)
    (idx1 : (b.ns newName).index = []) (idx2 : (b.ns newName2).index = [])
    (nows2Range : ∀ x ∈ nows2, -(2^63 : Int) ≤ x ∧ x < 2^63)
    (order order2 : List Nat) (h0 : 0 ∈ order) (h02 : 0 ∈ order2) (mt mt2 : Int) :
    ∃ S, startOff (bisyncStart ver b n [id1, id2] cur order) = some S ∧
      ∀ k, startOff (MigrateNs.nextStart ver
          (applyAllB b ((migrateReqsB ver b [id1, id2] desired newName nows order mt).take k))
          [id1, id2] desired newName2 nows2 order2 mt2) = some S := by
  have A := pre.args
  -- the state after a mode marker write on the old root key satisfies the hypotheses of `migrate_start_exact`
  have hP : ∀ (now : Int) (nws nws2 : List Int) (hnws : ∀ x ∈ nws, -(2^63 : Int) ≤ x ∧ x < 2^63)
      (nows2Range : ∀ x ∈ nws2, -(2^63 : Int) ≤ x ∧ x < 2^63),
      MigStartPre ver id1 id2 n r newName newName2 (applyB b (BReq.cp (Req.hsetCp 0 n (modeEntries cur now)))) X nws nws2
        cur desired sd := by
    intro now nws nws2 hnws nows2Range
    have hes : ∀ e ∈ modeEntries cur now, matchId [id1, id2] e.rid = false :=
      fun e he => by rw [modeEntries_rid cur now e he]; exact A.hm
    refine ⟨⟨A, pre.h2, pre.hn, pre.hn0, holds_hset_nonmatching pre.holds 0 n _ hes, ?_,
      fresh_hset_nonmatching pre.fresh 0 n _ hes, pre.seedRange, hnws⟩, args2, ne12,
      fresh_hset_nonmatching fresh2 0 n _ hes, loadMode_after _ n cur now, hcd, hfam, hseed, idx1, idx2, nows2Range⟩
    intro db e he hk
    rw [show (applyB b (BReq.cp (Req.hsetCp 0 n (modeEntries cur now)))).t = applyReq b.t (Req.hsetCp 0 n (modeEntries cur now)) from rfl,
      applyReq_hsetCp_cps] at he
    split at he
    · rcases mem_hsetMany he with he' | he'
      · simp only [modeEntries, List.mem_cons, List.not_mem_nil, or_false] at he'
        rcases he' with rfl | rfl <;> simp at hk
      · exact pre.own 0 e he' hk
    · exact pre.own db e he hk
  -- what the two runs of the switch read on the old root key: the same run id and offset
  obtain ⟨c, c1, hgc, hgc1, ho1, hr1, hcq⟩ := getCheckpoint_marker ver id1 id2 n A.hm pre.holds cur (nows.headD 0) order order h0 h0
  -- the start in the inferred mode, before
  have hstart0 : ∀ (now : Int), bisyncStart ver (applyB b (BReq.cp (Req.hsetCp 0 n (modeEntries cur now)))) n [id1, id2] cur order
      = bisyncStart ver b n [id1, id2] cur order := by
    intro now
    obtain ⟨c0, c3, hg0, hg3, ho3, hr3, _⟩ := getCheckpoint_marker ver id1 id2 n A.hm pre.holds cur now order order h0 h0
    unfold bisyncStart rootOf
    rw [show (applyB b (BReq.cp (Req.hsetCp 0 n (modeEntries cur now)))).t = applyReq b.t (Req.hsetCp 0 n (modeEntries cur now)) from rfl,
      hg0, hg3]
    simp only [ho3, hr3]
    rfl
  obtain ⟨S, hS, hall⟩ := migrate_start_exact ver id1 id2 n r newName newName2 _ X nows.tail nows2 cur desired sd
    (hP (nows.headD 0) nows.tail nows2 (tail_range pre.nowsRange) nows2Range) order order2 h0 h02 mt mt2
  rw [hstart0] at hS
  refine ⟨S, hS, ?_⟩
  -- the request list: the marker, then the list of the state after the marker
  have hL : migrateReqsB ver b [id1, id2] desired newName nows order mt =
      BReq.cp (Req.hsetCp 0 n (modeEntries cur (nows.headD 0))) ::
        migrateReqsB ver (applyB b (BReq.cp (Req.hsetCp 0 n (modeEntries cur (nows.headD 0))))) [id1, id2] desired newName nows.tail order mt := by
    rw [migrateReqsB_form ver (applyB b (BReq.cp (Req.hsetCp 0 n (modeEntries cur (nows.headD 0))))) id1 id2 n r newName cur
      desired sd c1 nows.tail order mt A.h1 pre.hn pre.hn0 (loadMode_after _ n cur _) hcd hfam hseed hgc1]
    unfold migrateReqsB
    simp only [pre.hn, pre.hn0, if_false, hmode, hinf, hcd, hfam, Bool.false_eq_true, hseed, hgc, migrateCoreB,
      preferredRunId_first id1 id2 _ A.h1, seedB, tailB, List.cons_append, List.nil_append, List.append_assoc,
      (seed_congr sd c c1 [id1, id2] ho1 hr1).1, (seed_congr sd c c1 [id1, id2] ho1 hr1).2]
  intro k
  cases k with
  | succ k =>
    rw [hL, List.take_succ_cons]
    exact hall k
  | zero =>
    -- nothing was issued: the next start runs the whole switch, marker included, into the second name
    simp only [List.take_zero, applyAllB, List.foldl_nil]
    obtain ⟨S', hS', hall'⟩ := migrate_start_exact ver id1 id2 n r newName newName2 _ X nows2.tail nows2.tail cur desired sd
      (hP (nows2.headD 0) nows2.tail nows2.tail (tail_range nows2Range) (tail_range nows2Range)) order order2 h0 h02 mt mt2
    rw [hstart0, hS] at hS'
    injection hS' with hS'
    subst hS'
    have h0k := hall' 0
    simp only [List.take_zero, applyAllB, List.foldl_nil] at h0k
    -- the run from the state before = the marker, then the run from the state after the marker
    have hL2 : migrateReqsB ver b [id1, id2] desired newName2 nows2 order2 mt2 =
        BReq.cp (Req.hsetCp 0 n (modeEntries cur (nows2.headD 0))) ::
          migrateReqsB ver (applyB b (BReq.cp (Req.hsetCp 0 n (modeEntries cur (nows2.headD 0))))) [id1, id2] desired newName2 nows2.tail order2 mt2 := by
      obtain ⟨c4, c5, hg4, hg5, ho5, hr5, _⟩ := getCheckpoint_marker ver id1 id2 n A.hm pre.holds cur (nows2.headD 0) order2 order2 h02 h02
      rw [migrateReqsB_form ver (applyB b (BReq.cp (Req.hsetCp 0 n (modeEntries cur (nows2.headD 0))))) id1 id2 n r newName2 cur
        desired sd c5 nows2.tail order2 mt2 A.h1 pre.hn pre.hn0 (loadMode_after _ n cur _) hcd hfam hseed hg5]
      unfold migrateReqsB
      simp only [pre.hn, pre.hn0, if_false, hmode, hinf, hcd, hfam, Bool.false_eq_true, hseed, hg4, migrateCoreB,
        preferredRunId_first id1 id2 _ A.h1, seedB, tailB, List.cons_append, List.nil_append, List.append_assoc,
        (seed_congr sd c4 c5 [id1, id2] ho5 hr5).1, (seed_congr sd c4 c5 [id1, id2] ho5 hr5).2]
    unfold MigrateNs.nextStart at h0k ⊢
    rw [hL2]
    exact h0k

/-! ### non-vacuity: `exM` / `exNs` of Props/C17.lean (sync → parallel, root checkpoint 700 newer than the latest
    record 650): the start in sync mode resumed at 700 (root override); after any prefix the next start in
    parallel mode resumes at 700 -/

def exB : BT := { t := exM, ns := fun nm => if nm = exCp then exNs else {} }
def exNew2 : Bytes := [101]

theorem exB_pre : MigStartPre [49] exId1 exId2 exCp exId1 exNew exNew2 exB 700 [5, 6] [7, 8] .sync .parallel
    ⟨exId1, 4, 650, 3⟩ :=
  { pre := by
      have : exB.ns exCp = exNs := by simp [exB]
      rw [this]; exact exM_pre
    args2 := ⟨by decide, by decide, by decide, by decide, by decide, by decide, by decide⟩
    ne12 := by decide
    fresh2 := by intro db e he; simp [exB, exM, exNew2, exCp] at he
    mode := by decide
    hcd := by decide
    hfam := by decide
    seed := by
      have : exB.ns exCp = exNs := by simp [exB]
      rw [this]; decide
    idx1 := by simp [exB, exNew, exCp]
    idx2 := by simp [exB, exNew2, exCp]
    nows2Range := by
      intro x hx; simp only [List.mem_cons, List.not_mem_nil, or_false] at hx
      rcases hx with rfl | rfl <;> decide }

example := migrate_start_exact [49] exId1 exId2 exCp exId1 exNew exNew2 exB 700 [5, 6] [7, 8] .sync .parallel
  ⟨exId1, 4, 650, 3⟩ exB_pre [0] [0] (by decide) (by decide) 3 9
example : (migrateReqsB [49] exB [exId1, exId2] .parallel exNew [5, 6] [0] 3).length = 6 := by decide
example : startOff (bisyncStart [49] exB exCp [exId1, exId2] .sync [0]) = some 700 := by decide
example : startOff (MigrateNs.nextStart [49]
    (applyAllB exB ((migrateReqsB [49] exB [exId1, exId2] .parallel exNew [5, 6] [0] 3).take 2))
    [exId1, exId2] .parallel exNew2 [7, 8] [0] 9) = some 700 := by decide

/-- the same namespace without a mode marker: the mode (sync) is inferred from the latest record; 5 requests
    (marker on the old root key first) -/
def exM2 : Checkpoint.Target :=
  { hash := [(exId1, exCp)],
    cps := fun db n => if n = exCp ∧ db = 0 then
      [⟨exId1, .runid, exId1⟩, ⟨exId1, .offset, [55, 48, 48]⟩] else [] }
def exB2 : BT := { t := exM2, ns := fun nm => if nm = exCp then exNs else {} }

theorem exM2_cps (db : Nat) : exM2.cps db exCp = if db = 0 then
    [⟨exId1, .runid, exId1⟩, ⟨exId1, .offset, [55, 48, 48]⟩] else [] := by
  simp [exM2]

theorem exM2_pre : MigPre [49] exId1 exId2 exCp exId1 exNew exM2 exNs 700 [5, 6, 7] :=
  { args := ⟨by decide, by decide, by decide, by decide, by decide, by decide, by decide⟩,
    h2 := by decide, hn := by decide, hn0 := by decide,
    holds := by
      refine ⟨by decide, ?_, by rw [exM2_cps]; decide, by rw [exM2_cps]; decide, ?_⟩
      · intro db e he _ hk
        rw [exM2_cps] at he
        split at he
        · simp only [List.mem_cons, List.not_mem_nil, or_false] at he
          rcases he with rfl | rfl <;>
            first | decide | (rcases hk with hk | hk <;> exact absurd hk (by decide))
        · exact absurd he (List.not_mem_nil)
      · intro db hdb x hx
        rw [exM2_cps] at hx
        simp only [hdb, if_false] at hx
        exact absurd hx (List.not_mem_nil),
    own := by
      intro db e he hk
      rw [exM2_cps] at he
      split at he
      · simp only [List.mem_cons, List.not_mem_nil, or_false] at he
        rcases he with rfl | rfl <;> first | rfl | exact absurd hk (by decide)
      · exact absurd he (List.not_mem_nil),
    fresh := by intro db e he; simp [exM2, exNew, exCp] at he,
    seedRange := by
      intro cur sd h
      cases cur with
      | sync =>
        have : loadSeed [49] exNs [exId1, exId2] .sync = some ⟨exId1, 4, 650, 3⟩ := by decide
        rw [this] at h; simp only [Option.some.injEq] at h; subst h; decide
      | pipeline =>
        have : loadSeed [49] exNs [exId1, exId2] .pipeline = none := by decide
        rw [this] at h; exact absurd h (by simp)
      | parallel =>
        have : loadSeed [49] exNs [exId1, exId2] .parallel = none := by decide
        rw [this] at h; exact absurd h (by simp),
    nowsRange := by intro x hx; simp only [List.mem_cons, List.not_mem_nil, or_false] at hx
                    rcases hx with rfl | rfl | rfl <;> decide }

example := migrate_start_inferred [49] exId1 exId2 exCp exId1 exNew exNew2 exB2 700 [5, 6, 7] [7, 8, 9] .sync .parallel
  ⟨exId1, 4, 650, 3⟩ (by
    have : exB2.ns exCp = exNs := by simp [exB2]
    rw [this]; exact exM2_pre)
  ⟨by decide, by decide, by decide, by decide, by decide, by decide, by decide⟩ (by decide)
  (by intro db e he; simp [exB2, exM2, exNew2, exCp] at he) (by decide)
  (by
    have : exB2.ns exCp = exNs := by simp [exB2]
    rw [this]; decide) (by decide) (by decide)
  (by
    have : exB2.ns exCp = exNs := by simp [exB2]
    rw [this]; decide)
  (by simp [exB2, exNew, exCp]) (by simp [exB2, exNew2, exCp])
  (by intro x hx; simp only [List.mem_cons, List.not_mem_nil, or_false] at hx
      rcases hx with rfl | rfl | rfl <;> decide)
  [0] [0] (by decide) (by decide) 3 9
example : (migrateReqsB [49] exB2 [exId1, exId2] .parallel exNew [5, 6, 7] [0] 3).length = 7 := by decide
example : startOff (MigrateNs.nextStart [49]
    (applyAllB exB2 ((migrateReqsB [49] exB2 [exId1, exId2] .parallel exNew [5, 6, 7] [0] 3).take 1))
    [exId1, exId2] .parallel exNew2 [7, 8, 9] [0] 9) = some 700 := by decide

end GunYu.Props.C17
