/-
  C07 / C02 — the READER side of the checkpoint field names (checkpoint.go
  `fetchCheckpoint`): a hash field belongs to a run id when
  `strings.HasPrefix(field, runId)`. `Props/C07Gen.lean` shows that the WRITERS'
  names are injective; this file decides when the reader's prefix test is exact.

  * `prefix_match_equal_length`: for ids of EQUAL length the prefix test accepts a
    field `<rid'><suffix>` only for `rid' = rid` -- replication ids are 40 characters
    (`redis.GetRunIds` reads `master_replid` / `master_replid2`, both always 40 hex
    characters on Redis >= 4), so records of other ids are invisible.
  * `prefix_match_longer_id`: for ids of different length the test is NOT exact: every
    field of an id that extends `rid` is read as `rid`'s (the real `StartPoint` does
    read it: harness counter `prefix_id_reads_longer_id`). Unreachable with
    replication ids; stated, not assumed away silently.
  * `empty_id_matches_all`: the empty id matches every field (a source without
    `master_replid`, i.e. Redis < 4, reports two empty ids): outside the supported
    sources, stated for the same reason.
-/
import GunYu.Props.C07Gen

namespace GunYu.Props.C07
open GunYu GunYu.Checkpoint

/-- equal-length ids: `HasPrefix(field of rid', rid)` only for `rid' = rid` -/
theorem prefix_match_equal_length (rid rid' : Bytes) (k : Kind) (hlen : rid.length = rid'.length)
    (h : rid <+: fieldName rid' k) : rid = rid' := by
  have h1 := List.prefix_iff_eq_take.mp h
  rw [hlen] at h1
  cases k <;> simp only [fieldName] at h1
  · rw [List.take_left' rfl] at h1; exact h1
  · rw [List.take_left' rfl] at h1; exact h1
  · rw [List.take_left' rfl] at h1; exact h1
  · rw [List.take_left' rfl] at h1; exact h1
  · rw [List.take_length] at h1; exact h1

/-- so the reader's view of one id's position is exactly the field the writers named:
    a field of another equal-length id is never taken for `<rid>_offset` -/
theorem reader_sees_only_own_fields (rid rid' : Bytes) (k : Kind) (hlen : rid.length = rid'.length)
    (hne : rid ≠ rid') : ¬ (rid <+: fieldName rid' k) :=
  fun h => hne (prefix_match_equal_length rid rid' k hlen h)

/-- an id that EXTENDS `rid`: all its fields pass the prefix test for `rid` -/
theorem prefix_match_longer_id (rid ext : Bytes) (k : Kind) : rid <+: fieldName (rid ++ ext) k := by
  cases k <;> simp only [fieldName, List.append_assoc] <;> exact List.prefix_append _ _

/-- the empty id matches every field -/
theorem empty_id_matches_all (field : Bytes) : ([] : Bytes) <+: field := List.nil_prefix

/-! non-vacuity -/
example : ¬ (([114, 49] : Bytes) <+: fieldName [114, 50] .offset) :=
  reader_sees_only_own_fields _ _ _ rfl (by decide)
example : ([114, 49] : Bytes) <+: fieldName [114, 49, 120] .offset := prefix_match_longer_id [114, 49] [120] .offset

end GunYu.Props.C07
