/-
  C16 — the reader a leader opens for a follower "serves its own run id to the end":
  DERIVED from C05's cache model instead of assumed.

  C16's model (Model/Replica.lean, Props/C16.lean) takes as hypothesis `Leader.Faithful`:
  the leader's cache AND the bytes its input appends while a follower's stream reader is
  open (`Leader.tail`) are history of the leader's run id. This file proves the reader half
  of that hypothesis on C05's step-level cache model (Model/Store.lean):

  * disk backend (`Disk`): `disk_open_reader_serves_own_id` — whatever the leader's input
    does after the reader was opened (ANY operation list respecting C05's protocol
    `Disk.wf`: appends, rotation, collection, writer replacement, replication-id switch or
    delete, new snapshot, other readers), everything the reader ever delivers is history
    `x` from its offset on, and it is open only while the channel is still labelled `x`.
    `disk_reader_output_is_hseg` is the same in C16's vocabulary (`Replica.hseg`).
  * memory backend (`Mem`): the C05 memory model does NOT close readers on `setRunId`;
    `mem_reader_follows_relabel` is the counter-witness (confirmed on the real
    MemoryChannel). The repair is an id check in `ReplicaLeader.sendData` after every read.
  * memory backend WITH that check: `mem_checked_send_serves_own_id` — the repaired send loop
    (`LOp`, `LState.step`: read from the reader's pipe, check the channel's id, send) in ANY
    interleaving with every channel operation only ever SENDS history `x` from the reader's
    offset on, provided the label never returns to `x` once it has left it.

  The only assumption about the leader's input is `LabelledOk` / `MemLabelledOk` (C06's
  subject): while the channel is labelled `x`, what it holds is `x`'s history.

  Helper lemmas: Proofs/ReplicaReader.lean (on top of C05's Proofs/StoreDisk.lean,
  Proofs/StoreMemInv.lean, Proofs/StoreMemSnap.lean).
-/
import GunYu.Model.Store
import GunYu.Proofs.StoreDisk
import GunYu.Proofs.StoreMemInv
import GunYu.Proofs.StoreMemSnap
import GunYu.Proofs.Replica
import GunYu.Proofs.ReplicaReader
import GunYu.Props.C16

namespace GunYu.Props.C16
open GunYu GunYu.Store

/-! ## Vocabulary -/

/-- bytes `[b, b+n)` of a source -/
def srcSeg (src : Nat → UInt8) (b n : Nat) : Bytes := (List.range n).map (fun i => src (b + i))

/-- standing assumption of C16 about the leader (C06's subject), stated on C05 states: in
    every state of the run in which the channel is labelled `x`, what it holds (the ghost
    `hist`, from offset `hbase`) is `x`'s history. Nothing is assumed about states labelled
    otherwise. -/
def LabelledOk (src : Nat → UInt8) (x : String) : Disk → List DOp → Prop
  | s, [] => (s.runId = x → s.hist = srcSeg src s.hbase s.hist.length)
  | s, op :: rest =>
    (s.runId = x → s.hist = srcSeg src s.hbase s.hist.length) ∧ LabelledOk src x (s.step op).1 rest

instance LabelledOk.dec (src : Nat → UInt8) (x : String) :
    (s : Disk) → (ops : List DOp) → Decidable (LabelledOk src x s ops)
  | s, [] => inferInstanceAs (Decidable (s.runId = x → s.hist = srcSeg src s.hbase s.hist.length))
  | s, op :: rest =>
    have := LabelledOk.dec src x (s.step op).1 rest
    inferInstanceAs (Decidable ((s.runId = x → s.hist = srcSeg src s.hbase s.hist.length) ∧
      LabelledOk src x (s.step op).1 rest))

/-- `srcSeg` of a history's byte function is C16's `hseg` (both are the same `List.range` map) -/
theorem srcSeg_eq_hseg (h : Replica.Hist UInt8) (x : String) (off n : Nat) :
    srcSeg (h.byte x) off n = Replica.hseg h x off n := rfl

/-- the history whose every id has the bytes `src` (to reuse the `hseg` lemmas) -/
private def constHist (src : Nat → UInt8) : Replica.Hist UInt8 := ⟨fun _ => src, fun _ _ => []⟩

private theorem srcSeg_const (src : Nat → UInt8) (b n : Nat) :
    srcSeg src b n = Replica.hseg (constHist src) "" b n := rfl

theorem srcSeg_length (src : Nat → UInt8) (b n : Nat) : (srcSeg src b n).length = n := by
  simp [srcSeg]

/-- a slice of a source segment is a source segment -/
theorem srcSeg_slice (src : Nat → UInt8) (b n k m : Nat) (h : k + m ≤ n) :
    ((srcSeg src b n).drop k).take m = srcSeg src (b + k) m := by
  rw [srcSeg_const, Replica.hseg_drop _ _ _ _ _ (by omega), Replica.hseg_take _ _ _ _ _ (by omega)]
  rfl

/-- `LabelledOk` gives, in every state of the run, what the run invariant of one reader
    asks: under the label `x` every slice of the held history from `off` on is `x`'s history -/
theorem labelledOk_alongRun (src : Nat → UInt8) (x : String) (off : Nat) (s : Disk) (ops : List DOp)
    (h : LabelledOk src x s ops) :
    AlongRun (SliceOk (fun out => out = srcSeg src off out.length) x off) s ops := by
  have key : ∀ t : Disk, (t.runId = x → t.hist = srcSeg src t.hbase t.hist.length) →
      SliceOk (fun out => out = srcSeg src off out.length) x off t := by
    intro t ht hx hb m hm
    have hh := ht hx
    generalize t.hist.length = n at hh hm
    rw [hh, srcSeg_slice _ _ _ _ _ hm, srcSeg_length]
    congr 1
    omega
  induction ops generalizing s with
  | nil => exact key s h
  | cons op rest ih => exact ⟨key s h.1, ih _ h.2⟩

/-! ## Disk backend: an open reader serves its own id to the end -/

/-- **disk_open_reader_serves_own_id.** The leader's disk cache is in any reachable state
    (`ops1`) labelled `x`; a STREAM reader `rid` is opened at offset `off` (the open reports
    `Out.aof off`, which also says that the id `rid` was fresh); then the leader's own input
    and everybody else do ANYTHING that respects C05's protocol (`ops2`: appends, rotation,
    collection, writer replacement, replication-id SWITCH or delete, new snapshot, other
    readers, this reader's reads / rotation steps / close). If, while the channel is labelled
    `x`, it holds `x`'s history (`LabelledOk`), then at the end

    * everything that reader ever delivered is history `x` from `off` on — contiguous, in
      order, nothing else — although the channel may meanwhile hold another id's bytes, and
    * the reader is open only if the channel is still labelled `x` (an id switch, an id
      delete, a new snapshot close it: `disk_invalidation_closes_readers`; closed, it fails
      every read and never changes: `disk_closed_reader_read_fails`, `disk_closed_reader_frozen`).

    (Side conditions of the brief that turned out unnecessary and were dropped: `x ≠ ""`,
    and the separate freshness of `rid`, which `hopen` implies.) -/
theorem disk_open_reader_serves_own_id (src : Nat → UInt8) (x : String) (l m : Nat)
    (ops1 ops2 : List DOp) (rid off : Nat) (crc : Bool)
    (hwf : (Disk.init l m).wf (ops1 ++ DOp.openReader rid off crc :: ops2))
    (hx : ((Disk.init l m).run ops1).runId = x)
    (hopen : (((Disk.init l m).run ops1).step (.openReader rid off crc)).2 = Out.aof off)
    (hlab : LabelledOk src x ((Disk.init l m).run ops1) (DOp.openReader rid off crc :: ops2)) :
    let s2 := (Disk.init l m).run (ops1 ++ DOp.openReader rid off crc :: ops2)
    ∀ r ∈ s2.readers, r.id = rid →
      r.out = srcSeg src off r.out.length ∧ (r.isOpen = true → s2.runId = x) := by
  intro s2
  obtain ⟨hwf1, hwf2⟩ := (Disk.wf_append _ _ _).mp hwf
  have hinv1 : DInv ((Disk.init l m).run ops1) := (DInv.init l m).run ops1 hwf1
  have hinv1' := hinv1.step _ hwf2.1
  have h0 : RInv (fun out => out = srcSeg src off out.length) x rid off
      (((Disk.init l m).run ops1).step (.openReader rid off crc)).1 := by
    have := RInv.open (Q := fun out => out = srcSeg src off out.length) hopen rfl
    rw [hx] at this
    exact this
  have hrun := RInv.run hinv1' ops2 hwf2.2 h0 (labelledOk_alongRun src x off _ _ hlab.2)
  have hs2 : s2 = ((((Disk.init l m).run ops1).step (.openReader rid off crc)).1).run ops2 := by
    show (Disk.init l m).run _ = _
    rw [Disk.run_append]; rfl
  rw [hs2]
  exact RInv.elim (hinv1'.run ops2 hwf2.2) hrun

/-- **disk_reader_output_is_hseg.** The same in C16's vocabulary: with `h` the histories of
    C16 (`Replica.Hist`) and the channel's content under the label `x` being `h`'s bytes of
    `x`, what the reader delivered is `hseg h x off _` — exactly the shape
    `Leader.Faithful`'s tail clause asks of the bytes served past the cache's right end — and
    the reader ends (closed) as soon as the channel is relabelled. -/
theorem disk_reader_output_is_hseg (h : Replica.Hist UInt8) (x : String) (l m : Nat)
    (ops1 ops2 : List DOp) (rid off : Nat) (crc : Bool)
    (hwf : (Disk.init l m).wf (ops1 ++ DOp.openReader rid off crc :: ops2))
    (hx : ((Disk.init l m).run ops1).runId = x)
    (hopen : (((Disk.init l m).run ops1).step (.openReader rid off crc)).2 = Out.aof off)
    (hlab : LabelledOk (h.byte x) x ((Disk.init l m).run ops1) (DOp.openReader rid off crc :: ops2)) :
    let s2 := (Disk.init l m).run (ops1 ++ DOp.openReader rid off crc :: ops2)
    ∀ r ∈ s2.readers, r.id = rid →
      r.out = Replica.hseg h x off r.out.length ∧ (r.isOpen = true → s2.runId = x) := by
  intro s2 r hr hid
  have := disk_open_reader_serves_own_id (h.byte x) x l m ops1 ops2 rid off crc hwf hx hopen hlab r hr hid
  rw [srcSeg_eq_hseg] at this
  exact this

/-- the reader exists at the end (the two theorems above are not vacuous in `r`) -/
theorem disk_opened_reader_exists (l m : Nat) (ops1 ops2 : List DOp) (rid off : Nat) (crc : Bool)
    (hwf : (Disk.init l m).wf (ops1 ++ DOp.openReader rid off crc :: ops2))
    (hopen : (((Disk.init l m).run ops1).step (.openReader rid off crc)).2 = Out.aof off) :
    ∃ r ∈ ((Disk.init l m).run (ops1 ++ DOp.openReader rid off crc :: ops2)).readers, r.id = rid := by
  obtain ⟨hwf1, hwf2⟩ := (Disk.wf_append _ _ _).mp hwf
  have hinv1 : DInv ((Disk.init l m).run ops1) := (DInv.init l m).run ops1 hwf1
  have hinv1' := hinv1.step _ hwf2.1
  have h0 := RInv.open (Q := fun _ => True) hopen trivial
  have hall : ∀ ops (s : Disk), AlongRun (SliceOk (fun _ => True) ((Disk.init l m).run ops1).runId off) s ops := by
    intro ops
    induction ops with
    | nil => intro s _ _ _ _; trivial
    | cons op rest ih => intro s; exact ⟨fun _ _ _ _ => trivial, ih _⟩
  obtain ⟨r, hr, hid, _⟩ := RInv.run hinv1' ops2 hwf2.2 h0 (hall _ _)
  rw [Disk.run_append]
  exact ⟨r, hr, hid⟩

/-! ### non-vacuity: a reader opened under "x" that reads across a rotation, then an id
    switch to "y" whose writer continues at the same offset with OTHER bytes -/

/-- the source of run id "x": byte `i - 99` at offset `i` (1 at offset 100, 2 at 101, …) -/
def exSrc : Nat → UInt8 := fun i => UInt8.ofNat (i - 99)

def exOps1 : List DOp := [.setRunId "x", .newAofWriter 100, .aofAppend [1, 2, 3, 4]]

def exOps2 : List DOp :=
  [ .read 0 10, .aofAppend [5, 6], .read 0 10, .advAcquire 0, .advRelease 0, .aofClose,
    .setRunId "y", .newAofWriter 106, .aofAppend [9, 9], .read 0 10, .advAcquire 0 ]

-- the hypotheses of `disk_open_reader_serves_own_id` hold for src = exSrc, x = "x", reader 0 at 102
example : (Disk.init 20 0).wf (exOps1 ++ DOp.openReader 0 102 false :: exOps2) := by decide
example : ((Disk.init 20 0).run exOps1).runId = "x" := by decide
example : (((Disk.init 20 0).run exOps1).step (.openReader 0 102 false)).2 = Out.aof 102 := by decide
example : LabelledOk exSrc "x" ((Disk.init 20 0).run exOps1) (DOp.openReader 0 102 false :: exOps2) := by decide
-- before the switch the reader is open and has followed the writer across the rotation
example : (((Disk.init 20 0).run (exOps1 ++ DOp.openReader 0 102 false :: exOps2.take 5)).readers.map
    (fun r => (r.id, r.isOpen, r.cur, r.out))) = [(0, true, 106, [3, 4, 5, 6])] := by decide
-- at the end the channel is labelled "y" and holds y's bytes 9,9 at 106..108 …
example : (((Disk.init 20 0).run (exOps1 ++ DOp.openReader 0 102 false :: exOps2)).runId,
    ((Disk.init 20 0).run (exOps1 ++ DOp.openReader 0 102 false :: exOps2)).hist) =
    ("y", [1, 2, 3, 4, 5, 6, 9, 9]) := by decide
-- … and the reader opened under "x" is closed, having delivered the x bytes only
example : (((Disk.init 20 0).run (exOps1 ++ DOp.openReader 0 102 false :: exOps2)).readers.map
    (fun r => (r.id, r.isOpen, r.out))) = [(0, false, [3, 4, 5, 6])] ∧
    srcSeg exSrc 102 4 = [3, 4, 5, 6] := by decide

/-! ## Memory backend: the counter-witness -/

/-- a reader opened under "x", then the channel is relabelled "y" and y's writer continues
    at the same offset -/
def memRelabelOps : List MOp :=
  [ .setRunId "x", .newAofWriter 100, .aofAppend [1, 2, 3], .openReader 0 100, .startReader 0, .copyStep 0,
    .aofClose, .setRunId "y", .newAofWriter 103, .aofAppend [9, 9], .copyStep 0, .copyStep 0, .consume 0 100 ]

/-- **mem_reader_follows_relabel.** The C05 memory model (`Mem.step (.setRunId id)` only
    relabels, as `MemoryChannel.SetRunId` does) does NOT end a reader when the channel's id is
    switched: the reader opened under "x" (label at the open: "x", reply `Out.aof 100`) is
    still running after the switch to "y" and has written to its pipe — and its consumer has
    read — the bytes 9,9 that were appended under "y". So for the memory backend
    `disk_open_reader_serves_own_id` is FALSE; the repair is a check in
    `ReplicaLeader.sendData` after every read (`channel.RunId() == requested id`, else ERROR). -/
theorem mem_reader_follows_relabel :
    ((Mem.init 0 0).run (memRelabelOps.take 3)).runId = "x" ∧
    (((Mem.init 0 0).run (memRelabelOps.take 3)).step (.openReader 0 100)).2 = Out.aof 100 ∧
    ((Mem.init 0 0).run memRelabelOps).runId = "y" ∧
    (((Mem.init 0 0).run memRelabelOps).readers.map (fun r => (r.id, r.start, r.released, r.out))) =
      [(0, 100, false, [1, 2, 3, 9, 9])] ∧
    (((Mem.init 0 0).run (memRelabelOps.take 12)).step (.consume 0 100)).2 = Out.data [1, 2, 3, 9, 9] := by
  decide

/-! ## Memory backend with the repaired send loop (the id check after every read) -/

/-- the leader's send loop over the memory channel, interleaved with everything else that
    happens to the channel -/
inductive LOp where
  /-- any channel operation (the leader's input, other readers, this reader's copy loop …);
      `ch (.consume rid n)` is the send loop's `ioReader.Read` -/
  | ch (op : MOp)
  /-- the repair: `channel.RunId() == requested id`, then `Send` of what was read; else ERROR -/
  | check
deriving Repr, DecidableEq

structure LState where
  mem : Mem
  /-- read from the pipe, not yet checked -/
  pending : Bytes
  /-- sent to the follower -/
  sent : Bytes
  /-- the loop has ended with ERROR -/
  stopped : Bool

/-- one step. `taken rid op reply` (Proofs/ReplicaReader.lean) are the bytes a `consume rid n`
    returned (`[]` for every other operation or reply): the running loop appends them to
    `pending`. The check sends `pending` if the channel is (still) labelled `x`, else it ends
    the loop; a stopped loop neither reads nor sends. -/
def LState.step (x : String) (rid : Nat) (L : LState) : LOp → LState
  | .ch op =>
    { L with mem := (L.mem.step op).1,
             pending := if L.stopped then L.pending else L.pending ++ taken rid op (L.mem.step op).2 }
  | .check =>
    if L.stopped then L
    else if L.mem.runId = x then { L with sent := L.sent ++ L.pending, pending := [] }
    else { L with stopped := true, pending := [] }

def LState.run (x : String) (rid : Nat) (L : LState) : List LOp → LState
  | [] => L
  | op :: rest => (L.step x rid op).run x rid rest

/-- a property of the channel in every state of the run -/
def LAlong (x : String) (rid : Nat) (P : Mem → Prop) : LState → List LOp → Prop
  | L, [] => P L.mem
  | L, op :: rest => P L.mem ∧ LAlong x rid P (L.step x rid op) rest

/-- `LabelledOk` for the memory channel: in every state of the run labelled `x`, the held
    history is `x`'s -/
def MemLabelledOk (src : Nat → UInt8) (x : String) (rid : Nat) : LState → List LOp → Prop :=
  LAlong x rid (fun m => m.runId = x → m.hist = srcSeg src m.hbase m.hist.length)

/-- the label never returns to `x` once it has left it -/
def NoReturn (x : String) (rid : Nat) : LState → List LOp → Prop
  | _, [] => True
  | L, op :: rest => (L.mem.runId ≠ x → (L.step x rid op).mem.runId ≠ x) ∧ NoReturn x rid (L.step x rid op) rest

instance LAlong.dec (x : String) (rid : Nat) (P : Mem → Prop) [DecidablePred P] :
    (L : LState) → (lops : List LOp) → Decidable (LAlong x rid P L lops)
  | L, [] => inferInstanceAs (Decidable (P L.mem))
  | L, op :: rest =>
    have := LAlong.dec x rid P (L.step x rid op) rest
    inferInstanceAs (Decidable (P L.mem ∧ LAlong x rid P (L.step x rid op) rest))

instance MemLabelledOk.dec (src : Nat → UInt8) (x : String) (rid : Nat) (L : LState) (lops : List LOp) :
    Decidable (MemLabelledOk src x rid L lops) :=
  LAlong.dec x rid (fun m => m.runId = x → m.hist = srcSeg src m.hbase m.hist.length) L lops

instance NoReturn.dec (x : String) (rid : Nat) : (L : LState) → (lops : List LOp) → Decidable (NoReturn x rid L lops)
  | _, [] => isTrue trivial
  | L, op :: rest =>
    have := NoReturn.dec x rid (L.step x rid op) rest
    inferInstanceAs (Decidable ((L.mem.runId ≠ x → (L.step x rid op).mem.runId ≠ x) ∧ NoReturn x rid (L.step x rid op) rest))

/-- the invariant of the checked send loop: C05's invariants; what was sent is `x`'s history;
    and while the loop runs under the label `x`: the reader's pipe protocol (`MemServes`: what
    the copy loop wrote is `x`'s history from `off` on, and `sent ++ pending ++ pipe` is what
    it wrote) and what is known of the segment it holds (`Held`, Proofs/ReplicaReader.lean) -/
private def LInv (src : Nat → UInt8) (x : String) (rid off : Nat) (L : LState) : Prop :=
  FullInv L.mem ∧ IsSrc src off L.sent ∧
    (L.stopped = false → L.mem.runId = x →
      MemServes src rid off L.mem (L.sent ++ L.pending) ∧ Held src rid L.mem)

private theorem LInv.step {src : Nat → UInt8} {x : String} {rid off : Nat} {L : LState}
    (h : LInv src x rid off L) (op : LOp)
    (hlab : L.mem.runId = x → L.mem.hist = srcSeg src L.mem.hbase L.mem.hist.length)
    (hnr : L.mem.runId ≠ x → (L.step x rid op).mem.runId ≠ x) : LInv src x rid off (L.step x rid op) := by
  obtain ⟨hi, hsent, hserv⟩ := h
  cases op with
  | check =>
    simp only [LState.step]
    by_cases hs : L.stopped = true
    · simp only [hs, if_true]; exact ⟨hi, hsent, hserv⟩
    · have hs' : L.stopped = false := by simpa using hs
      simp only [hs', Bool.false_eq_true, if_false]
      by_cases hx : L.mem.runId = x
      · simp only [hx, if_true]
        obtain ⟨⟨r, hr, ha, hout, hpos, hc⟩, hheld⟩ := hserv hs' hx
        refine ⟨hi, hout.prefix ⟨_, hc⟩, fun _ _ => ⟨⟨r, hr, ha, hout, hpos, ?_⟩, hheld⟩⟩
        show (L.sent ++ L.pending) ++ [] ++ pipe r = r.out
        rw [List.append_nil]; exact hc
      · simp only [hx, if_false]
        exact ⟨hi, hsent, fun h => by cases h⟩
  | ch mop =>
    refine ⟨hi.step mop, hsent, fun hs' hx' => ?_⟩
    have hs : L.stopped = false := hs'
    have hx : L.mem.runId = x := Classical.byContradiction fun hne => hnr hne hx'
    obtain ⟨hms, hheld⟩ := hserv hs hx
    have := hms.step hi.1 (hlab hx) hheld.staleOk mop
    obtain ⟨r, hr, _⟩ := hms
    refine ⟨?_, hheld.step hi (hlab hx) hr mop⟩
    show MemServes src rid off (L.mem.step mop).1
      (L.sent ++ (if L.stopped then L.pending else L.pending ++ taken rid mop (L.mem.step mop).2))
    rw [hs]
    simp only [Bool.false_eq_true, if_false]
    rw [← List.append_assoc]
    exact this

private theorem LInv.run {src : Nat → UInt8} {x : String} {rid off : Nat} (lops : List LOp) :
    ∀ (L : LState), LInv src x rid off L → MemLabelledOk src x rid L lops → NoReturn x rid L lops →
      LInv src x rid off (L.run x rid lops) := by
  induction lops with
  | nil => intro L h _ _; exact h
  | cons op rest ih =>
    intro L h hlab hnr
    exact ih _ (h.step op hlab.1 hnr.1) hlab.2 hnr.2

/-- **mem_checked_send_serves_own_id.** The memory backend WITH the repair. A stream reader
    `rid` is opened at `off` on any reachable channel state (the open reports `Out.aof off`);
    then ANY interleaving (`lops`) of channel operations — the leader's input appending,
    blocking and retrying, rotating, collecting, resetting for a new snapshot, being
    relabelled (`setRunId` does not end readers here: `mem_reader_follows_relabel`), other
    readers, this reader's copy loop and close, the send loop's reads — and id checks. If the
    channel holds `x`'s history whenever it is labelled `x` (`MemLabelledOk`, C06's subject)
    and the label never returns to `x` once it has left it (`NoReturn`), then everything the
    loop SENT is `x`'s history from `off` on — contiguous, in order, nothing else; in
    particular nothing appended under another label, although the reader itself goes on
    copying such bytes into its pipe.

    Covers readers left holding a segment that a reset took out of the index (the copy
    goroutine keeps reading the old segment): the heap invariant C05 does not have is proved
    in Proofs/ReplicaReader.lean (`Held`, `KeepFrame`). Not needed and dropped: that the
    channel is labelled `x` at the open (otherwise nothing is ever sent). -/
theorem mem_checked_send_serves_own_id (src : Nat → UInt8) (x : String) (l m : Nat)
    (ops1 : List MOp) (rid off : Nat) (lops : List LOp)
    (hopen : (((Mem.init l m).run ops1).step (.openReader rid off)).2 = Out.aof off)
    (hlab : MemLabelledOk src x rid ⟨(((Mem.init l m).run ops1).step (.openReader rid off)).1, [], [], false⟩ lops)
    (hnr : NoReturn x rid ⟨(((Mem.init l m).run ops1).step (.openReader rid off)).1, [], [], false⟩ lops) :
    let L0 : LState := ⟨(((Mem.init l m).run ops1).step (.openReader rid off)).1, [], [], false⟩
    (L0.run x rid lops).sent = srcSeg src off (L0.run x rid lops).sent.length := by
  intro L0
  have hi1 : FullInv ((Mem.init l m).run ops1) := (FullInv.init l m).run ops1
  have h0 : LInv src x rid off L0 :=
    ⟨hi1.step _, IsSrc.nil _ _, fun _ _ => ⟨MemServes.open hopen, Held.open hi1 hopen⟩⟩
  exact (LInv.run lops L0 h0 hlab hnr).2.1

/-- the same, as announced in the brief (a closed proposition) -/
def mem_checked_send_serves_own_id_stmt : Prop :=
  ∀ (src : Nat → UInt8) (x : String) (l m : Nat) (ops1 : List MOp) (rid off : Nat) (lops : List LOp),
    (((Mem.init l m).run ops1).step (.openReader rid off)).2 = Out.aof off →
    let L0 : LState := ⟨(((Mem.init l m).run ops1).step (.openReader rid off)).1, [], [], false⟩
    MemLabelledOk src x rid L0 lops → NoReturn x rid L0 lops →
      (L0.run x rid lops).sent = srcSeg src off (L0.run x rid lops).sent.length

theorem mem_checked_send_serves_own_id_stmt_holds : mem_checked_send_serves_own_id_stmt :=
  fun src x l m ops1 rid off lops hopen hlab hnr =>
    mem_checked_send_serves_own_id src x l m ops1 rid off lops hopen hlab hnr

/-! ### non-vacuity: the scenario of `mem_reader_follows_relabel` with the check — the loop
    sends the x bytes, reads the y bytes 9,9, and the check stops it before they are sent -/

def exMemOps1 : List MOp := [.setRunId "x", .newAofWriter 100, .aofAppend [1, 2, 3]]

def exLops : List LOp :=
  [ .ch (.startReader 0), .ch (.copyStep 0), .ch (.consume 0 2), .check, .ch (.consume 0 100),
    .ch .aofClose, .ch (.setRunId "y"), .ch (.newAofWriter 103), .ch (.aofAppend [9, 9]),
    .ch (.copyStep 0), .ch (.copyStep 0), .ch (.consume 0 100), .check, .ch (.consume 0 100), .check ]

def exL0 : LState := ⟨(((Mem.init 0 0).run exMemOps1).step (.openReader 0 100)).1, [], [], false⟩

example : (((Mem.init 0 0).run exMemOps1).step (.openReader 0 100)).2 = Out.aof 100 := by decide
example : MemLabelledOk exSrc "x" 0 exL0 exLops := by decide
example : NoReturn "x" 0 exL0 exLops := by decide
-- after the first check: two x bytes sent; the third is read (pending) when the label changes
example : ((exL0.run "x" 0 (exLops.take 5)).sent, (exL0.run "x" 0 (exLops.take 5)).pending) = ([1, 2], [3]) := by decide
-- the reader's pipe did receive y's bytes, the loop read them …
example : (exL0.run "x" 0 (exLops.take 12)).pending = [3, 9, 9] := by decide
-- … and the check stopped the loop: only x's bytes were ever sent
example : ((exL0.run "x" 0 exLops).sent, (exL0.run "x" 0 exLops).stopped, (exL0.run "x" 0 exLops).mem.runId) =
    ([1, 2], true, "y") := by decide

/-! ### back into C16's session theorems

  `Leader.Faithful h L` (the hypothesis `hL` of `follower_prefix_of_leader`) has two clauses: the
  cache the reader is opened on is a copy of history (`d.Faithful`, C05's refinement + C06/C08:
  kept as a hypothesis here), and the bytes served past its right end while the reader is open
  (`L.tail`) are history of the SAME id. The second clause is no longer assumed for a disk
  leader: it is what C05's model gives for whatever the leader's input does meanwhile. -/

/-- **leader_faithful_from_c05** (disk leader). `L` describes the leader as one request of a
    follower session sees it: label `x`, cache `d` (a copy of `x`'s history), and as `tail`
    whatever the stream reader `rid` — opened at `off ≤ d.right` on a reachable C05 disk state
    labelled `x` — delivered beyond `d.right`, while the leader's own input did ANYTHING
    (`ops2`, also a relabel / id switch / new snapshot). Then `L.Faithful h`: the session
    theorems apply with their hypothesis about open readers discharged. -/
theorem leader_faithful_from_c05 (h : Replica.Hist UInt8) (x : String) (l m : Nat)
    (ops1 ops2 : List DOp) (rid off : Nat) (crc : Bool)
    (hwf : (Disk.init l m).wf (ops1 ++ DOp.openReader rid off crc :: ops2))
    (hx : ((Disk.init l m).run ops1).runId = x)
    (hopen : (((Disk.init l m).run ops1).step (.openReader rid off crc)).2 = Out.aof off)
    (hlab : LabelledOk (h.byte x) x ((Disk.init l m).run ops1) (DOp.openReader rid off crc :: ops2))
    (L : Replica.Leader UInt8) (d : Replica.Data UInt8) (hc : L.cur = x) (hd : L.data = some d)
    (hdf : d.Faithful h x) (hoff : off ≤ d.right)
    (r : DReader) (hr : r ∈ ((Disk.init l m).run (ops1 ++ DOp.openReader rid off crc :: ops2)).readers)
    (hid : r.id = rid) (htail : L.tail = r.out.drop (d.right - off)) :
    L.Faithful h := by
  intro d' hd'
  rw [hd] at hd'
  cases hd'
  rw [hc]
  refine ⟨hdf, ?_⟩
  have hout := (disk_reader_output_is_hseg h x l m ops1 ops2 rid off crc hwf hx hopen hlab r hr hid).1
  rw [htail]
  by_cases hk : d.right - off ≤ r.out.length
  · rw [hout, Replica.hseg_drop _ _ _ _ _ hk]
    simp only [Replica.hseg_length]
    congr 1
    omega
  · have : r.out.drop (d.right - off) = [] := List.drop_eq_nil_of_le (by omega)
    rw [this]
    simp [Replica.hseg]

/-- what a disk state holds, in C16's vocabulary: C05's abstraction `Disk.abs` (the contiguous
    range of the indexed segments) plus a snapshot -/
def dataOfDisk (s : Disk) (sn : Option Bytes) : Replica.Data UInt8 := ⟨s.abs.base, s.abs.bytes, sn⟩

/-- **disk_state_data_faithful.** The cache part of `Leader.Faithful`, from C05's refinement
    (`disk_refines` / `abs_bytes_eq`): in a reachable disk state labelled `x` whose written
    history is `x`'s (`LabelledOk`'s clause for that state), what the state HOLDS (`Disk.abs`) is
    a copy of history `x`. The snapshot's content has no ghost in C05's model: `hsn` says it is
    the history's snapshot at the range's base (C08 `crash_snapshot_true` / C16's own `Shape.rdb`). -/
theorem disk_state_data_faithful (h : Replica.Hist UInt8) (x : String) (l m : Nat) (ops1 : List DOp)
    (hwf1 : (Disk.init l m).wf ops1) (hne : ((Disk.init l m).run ops1).all ≠ [])
    (hlab1 : ((Disk.init l m).run ops1).hist =
      srcSeg (h.byte x) ((Disk.init l m).run ops1).hbase ((Disk.init l m).run ops1).hist.length)
    (sn : Option Bytes) (hsn : ∀ s, sn = some s → s = h.snap x ((Disk.init l m).run ops1).abs.base) :
    (dataOfDisk ((Disk.init l m).run ops1) sn).Faithful h x := by
  obtain ⟨hle, hb⟩ := abs_bytes_eq ((DInv.init l m).run ops1 hwf1) hne
  refine ⟨?_, hsn⟩
  show ((Disk.init l m).run ops1).abs.bytes =
    Replica.hseg h x ((Disk.init l m).run ops1).abs.base ((Disk.init l m).run ops1).abs.bytes.length
  generalize ((Disk.init l m).run ops1) = s at *
  generalize hn : s.hist.length = n at hlab1
  rw [hb, hlab1, srcSeg_eq_hseg]
  by_cases hk : s.abs.base - s.hbase ≤ n
  · rw [Replica.hseg_drop _ _ _ _ _ hk]
    simp only [Replica.hseg_length]
    congr 1
    omega
  · rw [List.drop_eq_nil_of_le (by simp only [Replica.hseg_length]; omega)]
    simp [Replica.hseg]

/-- **leader_faithful_of_disk** — `leader_faithful_from_c05` with the cache READ OFF the disk
    state the reader is opened on instead of assumed: `L.data` is `dataOfDisk` of that state. -/
theorem leader_faithful_of_disk (h : Replica.Hist UInt8) (x : String) (l m : Nat)
    (ops1 ops2 : List DOp) (rid off : Nat) (crc : Bool)
    (hwf : (Disk.init l m).wf (ops1 ++ DOp.openReader rid off crc :: ops2))
    (hx : ((Disk.init l m).run ops1).runId = x) (hne : ((Disk.init l m).run ops1).all ≠ [])
    (hopen : (((Disk.init l m).run ops1).step (.openReader rid off crc)).2 = Out.aof off)
    (hlab : LabelledOk (h.byte x) x ((Disk.init l m).run ops1) (DOp.openReader rid off crc :: ops2))
    (sn : Option Bytes) (hsn : ∀ s, sn = some s → s = h.snap x ((Disk.init l m).run ops1).abs.base)
    (L : Replica.Leader UInt8) (hc : L.cur = x) (hd : L.data = some (dataOfDisk ((Disk.init l m).run ops1) sn))
    (hoff : off ≤ (dataOfDisk ((Disk.init l m).run ops1) sn).right)
    (r : DReader) (hr : r ∈ ((Disk.init l m).run (ops1 ++ DOp.openReader rid off crc :: ops2)).readers)
    (hid : r.id = rid)
    (htail : L.tail = r.out.drop ((dataOfDisk ((Disk.init l m).run ops1) sn).right - off)) :
    L.Faithful h := by
  have hwf1 := ((Disk.wf_append _ _ _).mp hwf).1
  have hdf := disk_state_data_faithful h x l m ops1 hwf1 hne (hlab.1 hx) sn hsn
  exact leader_faithful_from_c05 h x l m ops1 ops2 rid off crc hwf hx hopen hlab L _ hc hd hdf hoff r hr hid htail

/-- **leader_faithful_from_mem_checked_send** (memory leader): the memory twin. `L.tail` is what
    the REPAIRED send loop (`LState.run`: every read followed by the id check) sent beyond the
    cache's right end, while the leader's input did anything to the memory channel. (The cache
    part `d.Faithful` stays a hypothesis for the memory backend.) -/
theorem leader_faithful_from_mem_checked_send (h : Replica.Hist UInt8) (x : String) (l m : Nat)
    (ops1 : List MOp) (rid off : Nat) (lops : List LOp)
    (hopen : (((Mem.init l m).run ops1).step (.openReader rid off)).2 = Out.aof off)
    (hlab : MemLabelledOk (h.byte x) x rid ⟨(((Mem.init l m).run ops1).step (.openReader rid off)).1, [], [], false⟩ lops)
    (hnr : NoReturn x rid ⟨(((Mem.init l m).run ops1).step (.openReader rid off)).1, [], [], false⟩ lops)
    (L : Replica.Leader UInt8) (d : Replica.Data UInt8) (hc : L.cur = x) (hd : L.data = some d)
    (hdf : d.Faithful h x) (hoff : off ≤ d.right)
    (htail : L.tail = ((⟨(((Mem.init l m).run ops1).step (.openReader rid off)).1, [], [], false⟩ : LState).run x rid lops).sent.drop
      (d.right - off)) :
    L.Faithful h := by
  intro d' hd'
  rw [hd] at hd'
  cases hd'
  rw [hc]
  refine ⟨hdf, ?_⟩
  have hout := mem_checked_send_serves_own_id (h.byte x) x l m ops1 rid off lops hopen hlab hnr
  simp only at hout
  rw [srcSeg_eq_hseg] at hout
  rw [htail]
  generalize ((⟨(((Mem.init l m).run ops1).step (.openReader rid off)).1, [], [], false⟩ : LState).run x rid lops).sent = sent at hout ⊢
  by_cases hk : d.right - off ≤ sent.length
  · rw [hout, Replica.hseg_drop _ _ _ _ _ hk]
    simp only [Replica.hseg_length]
    congr 1
    omega
  · rw [List.drop_eq_nil_of_le (by omega)]
    simp [Replica.hseg]

/-- the leader record one request reads is what a C05 run shows: nothing held; or (disk) label
    `x`, as cache what the disk state the reader is opened on HOLDS (`dataOfDisk`), as `tail`
    what the reader delivered beyond it while the input did anything; or (memory) label `x`, a
    cache that is a copy of `x`'s history, as `tail` what the repaired send loop sent beyond it -/
def LeaderFromC05 (h : Replica.Hist UInt8) (L : Replica.Leader UInt8) : Prop :=
  L.data = none ∨
  (∃ (x : String) (l m : Nat) (ops1 ops2 : List DOp) (rid off : Nat) (crc : Bool)
    (sn : Option Bytes) (r : DReader),
    (Disk.init l m).wf (ops1 ++ DOp.openReader rid off crc :: ops2) ∧
    ((Disk.init l m).run ops1).runId = x ∧ ((Disk.init l m).run ops1).all ≠ [] ∧
    (((Disk.init l m).run ops1).step (.openReader rid off crc)).2 = Out.aof off ∧
    LabelledOk (h.byte x) x ((Disk.init l m).run ops1) (DOp.openReader rid off crc :: ops2) ∧
    (∀ s, sn = some s → s = h.snap x ((Disk.init l m).run ops1).abs.base) ∧
    L.cur = x ∧ L.data = some (dataOfDisk ((Disk.init l m).run ops1) sn) ∧
    off ≤ (dataOfDisk ((Disk.init l m).run ops1) sn).right ∧
    r ∈ ((Disk.init l m).run (ops1 ++ DOp.openReader rid off crc :: ops2)).readers ∧ r.id = rid ∧
    L.tail = r.out.drop ((dataOfDisk ((Disk.init l m).run ops1) sn).right - off)) ∨
  (∃ (x : String) (l m : Nat) (ops1 : List MOp) (rid off : Nat) (lops : List LOp) (d : Replica.Data UInt8),
    (((Mem.init l m).run ops1).step (.openReader rid off)).2 = Out.aof off ∧
    MemLabelledOk (h.byte x) x rid ⟨(((Mem.init l m).run ops1).step (.openReader rid off)).1, [], [], false⟩ lops ∧
    NoReturn x rid ⟨(((Mem.init l m).run ops1).step (.openReader rid off)).1, [], [], false⟩ lops ∧
    L.cur = x ∧ L.data = some d ∧ d.Faithful h x ∧ off ≤ d.right ∧
    L.tail = ((⟨(((Mem.init l m).run ops1).step (.openReader rid off)).1, [], [], false⟩ : LState).run x rid lops).sent.drop
      (d.right - off))

/-- **follower_prefix_of_c05_leader**: the follower-side faithful-copy theorem with the
    leader's cache as a C05 state — `follower_prefix_of_leader` with `Leader.Faithful` replaced by
    C05's models: every leader record a request's `NewReader` reads (`(V n).l4`) is what a C05
    disk run (cache AND tail derived) or a C05 memory run under the repaired send loop shows. -/
theorem follower_prefix_of_c05_leader (h : Replica.Hist UInt8) (bk : Replica.Backend)
    (V : Nat → Replica.View UInt8) (F : Replica.Store UInt8) (ch : List Nat) (cut : Nat)
    (lost : Replica.Loss) (fuel : Nat) (hV : ∀ n, LeaderFromC05 h (V n).l4)
    (hq : (V 0).l2b.cur ≠ "?") (hwf : Replica.WF bk F) (id : Replica.Id)
    (hF : Replica.FaithfulAt h F.dirs id) :
    Replica.FaithfulAt h (Replica.sessionV bk V F ch cut lost fuel).store.dirs id ∧
      Replica.WF bk (Replica.sessionV bk V F ch cut lost fuel).store := by
  apply follower_prefix_of_leader h bk V F ch cut lost fuel _ hq hwf id hF
  intro n
  rcases hV n with hn | ⟨x, l, m, ops1, ops2, rid, off, crc, sn, r, hwf', hx, hne, hopen, hlab, hsn, hc, hd, hoff, hr, hid, htail⟩ |
    ⟨x, l, m, ops1, rid, off, lops, d, hopen, hlab, hnr, hc, hd, hdf, hoff, htail⟩
  · intro d hd; rw [hn] at hd; cases hd
  · exact leader_faithful_of_disk h x l m ops1 ops2 rid off crc hwf' hx hne hopen hlab sn hsn _ hc hd hoff r hr hid htail
  · exact leader_faithful_from_mem_checked_send h x l m ops1 rid off lops hopen hlab hnr _ d hc hd hdf hoff htail

/-- non-vacuity of `LeaderFromC05` (disk): the leader of the example script above as the request
    that opened reader 0 at 102 sees it — the cache is what the state holds, `[100, 104)` of "x",
    the tail the two bytes the reader delivered beyond 104 before the switch to "y" closed it -/
example : LeaderFromC05 ⟨fun _ o => exSrc o, fun _ _ => []⟩
    ⟨true, true, ["x"], "x", some ⟨100, [1, 2, 3, 4], none⟩, true, [5, 6], none⟩ := by
  refine Or.inr (Or.inl ⟨"x", 20, 0, exOps1, exOps2, 0, 102, false, none,
    ⟨0, true, 106, none, 106, false, 102, [3, 4, 5, 6]⟩, by decide, by decide, by decide, by decide, by decide,
    (fun s hs => by cases hs), rfl, by decide, by decide, by decide, rfl, by decide⟩)

/-- … and (memory): the checked send loop of the example above sent `[1, 2]` from 100 -/
example : LeaderFromC05 ⟨fun _ o => UInt8.ofNat (o - 99), fun _ _ => []⟩
    ⟨true, true, ["x"], "x", some ⟨100, [1], none⟩, true, [2], none⟩ := by
  refine Or.inr (Or.inr ⟨"x", 8, 0, exMemOps1, 0, 100, exLops, ⟨100, [1], none⟩, by decide, by decide, by decide,
    rfl, rfl, ⟨by decide, fun s hs => by cases hs⟩, by decide, by decide⟩)

end GunYu.Props.C16
