/-
  C08 — checksum verification at re-open AND while the process lives (session 4).
  Model: Model/StoreFsLive.lean (`serveFromL`: `openFile` → `isCorrupted` on the first
  file and on every file the reader follows into; `hasWriter` segments skipped; the reader
  delivers the bytes of the FILES). Lemmas: Proofs/StoreFsLive.lean, StoreFsXClosed.lean
  (what the file of a closed segment IS in every reachable state), StoreFsVerifyAlg.lean
  (what the check accepts), StoreFsCrcBurst.lean (CRC64 detects every change confined to 8
  consecutive bytes — proved from the table regenerated from pkg/digest/crc64.go).

  Wording: a segment "FAILS THE CHECK" = `segVerifyOk file = false` (recorded size ≠ data
  length or recorded CRC64 ≠ CRC64 of the data). The `*_never_served*` theorems say what a
  failing check does to the reader; `closed_segment_file_exact` + `accepted_*` +
  `burst_alteration_refused` say WHICH changes of a closed segment's file make the check fail.
-/
import GunYu.Props.C08Faults
import GunYu.Proofs.StoreFsLive
import GunYu.Proofs.StoreFsXClosed
import GunYu.Proofs.StoreFsVerifyAlg
import GunYu.Proofs.StoreFsCrcBurst

namespace GunYu.Props.C08
open GunYu GunYu.Store GunYu.StoreFs GunYu.StoreFsX

/-! ### what a failing check does to the reader -/

/-- **verify_restart_nothing_live.** After a restart no segment has a writer: on a chain
    whose files are what the index holds (every re-built index: `reopen`), the file reader
    with nothing live is `serveFrom`, the function of `crc_mismatch_refused` /
    `corrupt_segment_never_served`. -/
theorem verify_restart_nothing_live (fs : FS) (v : Bool) (segs : List DSeg) (off : Nat) (hc : Contig segs)
    (hi : Intact fs segs) : serveFromL fs v [] segs off = serveFrom fs v segs off :=
  serveFromL_nil fs v segs off hc hi

/-- **live_segment_accepted.** The segment the index answers `hasWriter` for (the one being
    written — also the first one of a new writer, 99a0b20 — or one whose close observer never
    ran) is read without looking at its header, whatever it holds. -/
theorem live_segment_accepted (fs : FS) (v : Bool) (unv : List Nat) (g : DSeg) (off : Nat)
    (file : Bytes) (hf : fs.get (aofName g.left) = some file) (hlive : unv.contains g.left = true) :
    serveFromL fs v unv [g] off = ((file.drop headerSize).drop (off - g.left), ServeEnd.eof) :=
  serveFromL_live_accepted fs v unv g off file hf hlive

/-- **altered_closed_segment_never_served** (read: a closed segment that FAILS THE CHECK).
    With verification on, a closed segment whose file fails the size/CRC64 check stops the
    reader wherever the reader meets it — in the file it is opened on or in any file it
    follows into, whatever is live: every byte delivered was read from the intact files
    before it, lies before the segment's first offset and is the source's; the reader does
    not end normally. -/
theorem altered_closed_segment_never_served (src : Nat → UInt8) (fs : FS) (unv : List Nat) (pre : List DSeg)
    (g : DSeg) (post : List DSeg) (file : Bytes) (hf : fs.get (aofName g.left) = some file)
    (hbad : segVerifyOk file = false) (hclosed : unv.contains g.left = false) (off : Nat)
    (hc : Contig (pre ++ g :: post)) (hi : Intact fs pre) (ht : ∀ a ∈ pre, SegTrue src a)
    (hh : ∀ a, (pre ++ g :: post).head? = some a → a.left ≤ off ∧ off ≤ a.right) :
    (∀ k b, (serveFromL fs true unv (pre ++ g :: post) off).1[k]? = some b → off + k < g.left ∧ b = src (off + k)) ∧
    (serveFromL fs true unv (pre ++ g :: post) off).2 ≠ ServeEnd.eof :=
  serveFromL_before_corrupt src fs unv pre g post file hf hbad hclosed off hc hi ht hh

/-- **altered_closed_segment_never_served_live.** On the LIVE index after ANY script of the
    writers (faults included), with the file of ONE closed segment `g` replaced by anything
    that fails the check and every other file as it is: a verifying reader opened before the
    end of `g` delivers only the source's bytes before `g` (read from the files) and does
    not end normally. -/
theorem altered_closed_segment_never_served_live (src : Nat → UInt8) (l m : Nat) (xs : List XOp)
    (hwf : wfX (XDisk.init l m) xs) (hsrc : SrcOkX src (XDisk.init l m) xs) (fs' : FS) (g : DSeg) (file : Bytes)
    (off : Nat) (bs : Bytes) (e : ServeEnd) :
    let s := xfinal (XDisk.init l m) xs
    g ∈ s.d.all → (unverifiedOf s).contains g.left = false →
    (∀ n, n ≠ g.left → fs'.get (aofName n) = s.fs.get (aofName n)) →
    fs'.get (aofName g.left) = some file → segVerifyOk file = false → off < g.right →
    serveLive ⟨s.d, fs', s.zombies⟩ true off = some (bs, e) →
      (∀ k b, bs[k]? = some b → off + k < g.left ∧ b = src (off + k)) ∧ e ≠ ServeEnd.eof := by
  intro s hg hclosed hsame hf hbad hoff hs
  have hinv := xfinal_inv (src := src) xs _ hwf hsrc (xinv_init src l m)
  exact serveLive_altered_closed s hinv g hg hclosed fs' hsame file hf hbad off hoff bs e hs

/-- **live_bytes_true.** While the process lives: after ANY script of the writers
    (faults included), whatever a reader on the live index reads from the files — closed
    segments verified, the writer's segment not — is the source's byte at that offset. -/
theorem live_bytes_true (src : Nat → UInt8) (l m : Nat) (xs : List XOp)
    (hwf : wfX (XDisk.init l m) xs) (hsrc : SrcOkX src (XDisk.init l m) xs) (verify : Bool) (off : Nat)
    (bs : Bytes) (e : ServeEnd) (hs : serveLive (xfinal (XDisk.init l m) xs) verify off = some (bs, e)) :
    ∀ k b, bs[k]? = some b → b = src (off + k) :=
  serveLive_true _ (xfinal_inv (src := src) xs _ hwf hsrc (xinv_init src l m)) verify off bs e hs

/-! ### which changes make the check fail -/

/-- **closed_segment_file_exact.** In every state a script of the writers with faults reaches
    from the empty store, the FILE of every closed segment of the index is exactly the header
    `closeAof` writes for its data followed by its data — except the segments whose header
    rewrite failed at some point of the script (`taintRun`, their files carry a torn or
    zero header). -/
theorem closed_segment_file_exact (src : Nat → UInt8) (l m : Nat) (xs : List XOp)
    (hwf : wfX (XDisk.init l m) xs) (hsrc : SrcOkX src (XDisk.init l m) xs) (g : DSeg) :
    let s := xfinal (XDisk.init l m) xs
    g ∈ s.d.segs → g.left ∉ taintRun [] (XDisk.init l m) xs →
      s.fs.get (aofName g.left) = some (closedHeader g.data ++ g.data) := by
  intro s hg ht
  exact cinv_run (src := src) (u := []) xs _ [] hwf hsrc (xinv_init src l m) (cinv_init [] [] l m) g hg (by simp) ht

/-- a script without fault steps taints nothing: every closed segment's file is exact -/
theorem closed_segment_file_exact_plain (src : Nat → UInt8) (l m : Nat) (ops : List DOp)
    (hwf : wfX (XDisk.init l m) (ops.map XOp.op)) (hsrc : SrcOkX src (XDisk.init l m) (ops.map XOp.op)) (g : DSeg) :
    g ∈ (xfinal (XDisk.init l m) (ops.map XOp.op)).d.segs →
      (xfinal (XDisk.init l m) (ops.map XOp.op)).fs.get (aofName g.left) = some (closedHeader g.data ++ g.data) := by
  intro hg
  apply closed_segment_file_exact src l m _ hwf hsrc g hg
  rw [taintRun_plain ops _ rfl]
  simp

/-- … hence no false refusal: an unaltered closed segment passes the check while the process lives -/
theorem closed_segment_verifies_live (src : Nat → UInt8) (l m : Nat) (xs : List XOp)
    (hwf : wfX (XDisk.init l m) xs) (hsrc : SrcOkX src (XDisk.init l m) xs) (g : DSeg) (h32 : g.data.length < 4294967296) :
    let s := xfinal (XDisk.init l m) xs
    g ∈ s.d.segs → g.left ∉ taintRun [] (XDisk.init l m) xs →
      ∃ file, s.fs.get (aofName g.left) = some file ∧ segVerifyOk file = true := by
  intro s hg ht
  exact ⟨_, closed_segment_file_exact src l m xs hwf hsrc g hg ht, segVerifyOk_written g.data h32⟩

/-- **accepted_iff_consistent.** A file `hdr ++ data` passes the check iff header bytes 1..12
    (CRC64 and data size) are exactly those `closeAof` writes for `data`. -/
theorem accepted_iff_consistent (hdr data : Bytes) (hl : hdr.length = headerSize) (h32 : data.length < 4294967296) :
    segVerifyOk (hdr ++ data) = true ↔ hdrFields hdr = hdrFields (closedHeader data) :=
  StoreFs.accepted_iff_consistent hdr data hl h32

/-- **version_reserved_ignored.** Header byte 0 (version) and bytes 13..15 (reserved) are read
    by nobody: changing them never changes the verdict (as the code). -/
theorem version_reserved_ignored (hdr hdr' data : Bytes) (hl : hdr.length = headerSize) (hl' : hdr'.length = headerSize)
    (h : hdrFields hdr = hdrFields hdr') : segVerifyOk (hdr ++ data) = segVerifyOk (hdr' ++ data) :=
  StoreFs.version_reserved_ignored hdr hdr' data hl hl' h

/-- **accepted_alteration_cases.** Header and data changed TOGETHER: every accepted file
    `hdr' ++ data'` carries exactly the fields of its own data; against the file `closeAof`
    wrote for `data`: same data ⇒ same fields (only version / reserved bytes can differ);
    other data ⇒ size and CRC64 coincide (a collision) or header bytes 1..12 were rewritten
    too — to the fields of the new data: a CONSISTENT REPLACEMENT of a whole segment is
    accepted, inherently (nothing in the file is secret). -/
theorem accepted_alteration_cases (data hdr' data' : Bytes) (hl' : hdr'.length = headerSize)
    (h32 : data.length < 4294967296) (h32' : data'.length < 4294967296)
    (hacc : segVerifyOk (hdr' ++ data') = true) :
    hdrFields hdr' = hdrFields (closedHeader data') ∧
    (data' = data → hdrFields hdr' = hdrFields (closedHeader data)) ∧
    (data' ≠ data → (data'.length = data.length ∧ crc64 data' = crc64 data) ∨
      hdrFields hdr' ≠ hdrFields (closedHeader data)) :=
  StoreFs.accepted_alteration_cases data hdr' data' hl' h32 h32' hacc

/-- **burst_alteration_refused.** The burst fact, PROVED for the regenerated table: a closed
    segment whose data is changed inside a window of 8 consecutive bytes (any burst of at most
    57 bits wherever it starts, any byte-aligned 64-bit burst; header untouched) fails the
    check. (A 58..64-bit burst that straddles 9 bytes is the part of the standard CRC fact
    that stays in `trusted`.) -/
theorem burst_alteration_refused (a e e' z : Bytes) (hlen : e.length = e'.length) (h8 : e.length ≤ 8) (hne : e ≠ e')
    (h32 : (a ++ e ++ z).length < 4294967296) :
    segVerifyOk (closedHeader (a ++ e ++ z) ++ (a ++ e' ++ z)) = false := by
  cases hv : segVerifyOk (closedHeader (a ++ e ++ z) ++ (a ++ e' ++ z)) with
  | false => rfl
  | true =>
    have := (altered_data_accepted_iff (a ++ e ++ z) (a ++ e' ++ z) h32).mp hv
    exact absurd this.2 (fun h => crc64_window8 a e e' z hlen h8 hne h.symm)

/-- **live_burst_never_served.** Everything together, on the live index after ANY script with
    faults: change the data of a closed, untainted segment inside a window of 8 consecutive
    bytes (its header untouched, every other file as it is) — a verifying reader opened before
    the segment's end delivers only the source's bytes before it and does not end normally. -/
theorem live_burst_never_served (src : Nat → UInt8) (l m : Nat) (xs : List XOp)
    (hwf : wfX (XDisk.init l m) xs) (hsrc : SrcOkX src (XDisk.init l m) xs) (fs' : FS) (g : DSeg)
    (a e e' z : Bytes) (off : Nat) (bs : Bytes) (en : ServeEnd) :
    let s := xfinal (XDisk.init l m) xs
    g ∈ s.d.segs → g.left ∉ taintRun [] (XDisk.init l m) xs → (unverifiedOf s).contains g.left = false →
    g.data = a ++ e ++ z → e.length = e'.length → e.length ≤ 8 → e ≠ e' → g.data.length < 4294967296 →
    (∀ n, n ≠ g.left → fs'.get (aofName n) = s.fs.get (aofName n)) →
    fs'.get (aofName g.left) = some (closedHeader g.data ++ (a ++ e' ++ z)) → off < g.right →
    serveLive ⟨s.d, fs', s.zombies⟩ true off = some (bs, en) →
      (∀ k b, bs[k]? = some b → off + k < g.left ∧ b = src (off + k)) ∧ en ≠ ServeEnd.eof := by
  intro s hg _ hclosed hd hlen h8 hne h32 hsame hf hoff hs
  have hbad : segVerifyOk (closedHeader g.data ++ (a ++ e' ++ z)) = false := by
    rw [hd]; exact burst_alteration_refused a e e' z hlen h8 hne (by rw [← hd]; exact h32)
  exact altered_closed_segment_never_served_live src l m xs hwf hsrc fs' g _ off bs en
    (by simp only [Disk.all, List.mem_append]; exact Or.inl hg) hclosed hsame hf hbad hoff hs

/-! ### non-vacuity -/

/-- a closed segment [100,105) and the writer's segment [105,107) -/
def exLive : List XOp :=
  [.op (.setRunId "a"), .op (.newAofWriter 100), .op (.aofAppend [1, 2, 3, 4, 5]), .op (.aofAppend [6, 7])]

example : wfX (XDisk.init 20 0) exLive := by decide
example : (xfinal (XDisk.init 20 0) exLive).d.segs.map (·.left) = [100] ∧
    (xfinal (XDisk.init 20 0) exLive).d.live.map (·.left) = some 105 := by decide +kernel
example : taintRun [] (XDisk.init 20 0) exLive = [] := by decide +kernel
-- the closed segment's file is exactly header + data
example : (xfinal (XDisk.init 20 0) exLive).fs.get (.aof 100) = some (closedHeader [1, 2, 3, 4, 5] ++ [1, 2, 3, 4, 5]) := by
  decide +kernel
-- a verifying reader on the live index: the closed segment passes, the writer's segment (header
-- still zero) is accepted
example : serveLive (xfinal (XDisk.init 20 0) exLive) true 101 = some ([2, 3, 4, 5, 6, 7], ServeEnd.eof) := by decide +kernel
-- the same directory after a restart: the segment that was live is refused
example : serve (xfinal (XDisk.init 20 0) exLive).fs true 101 = some ([2, 3, 4, 5], ServeEnd.corrupt) := by decide +kernel
-- the closed segment altered (one data byte): nothing is delivered
example : serveLive ⟨(xfinal (XDisk.init 20 0) exLive).d,
    (xfinal (XDisk.init 20 0) exLive).fs.set (.aof 100) (closedHeader [1, 2, 3, 4, 5] ++ [1, 2, 9, 4, 5]), []⟩ true 101 =
    some ([], ServeEnd.corrupt) := by decide +kernel
-- the reader reads the FILE: the closed segment replaced by a shorter CONSISTENT file is accepted
-- (inherent), its bytes are delivered, and the reader finds no file where these bytes end
example : serveLive ⟨(xfinal (XDisk.init 20 0) exLive).d,
    (xfinal (XDisk.init 20 0) exLive).fs.set (.aof 100) (closedHeader [9] ++ [9]), []⟩ true 100 =
    some ([9], ServeEnd.notExist) := by decide +kernel
-- altered and reached by following (reader opened in an older closed segment)
def exLive3 : List XOp :=
  [.op (.setRunId "a"), .op (.newAofWriter 100), .op (.aofAppend [1, 2, 3, 4, 5]), .op (.aofAppend [6, 7, 8, 9, 10]),
   .op (.aofAppend [11])]
example : serveLive ⟨(xfinal (XDisk.init 20 0) exLive3).d,
    (xfinal (XDisk.init 20 0) exLive3).fs.set (.aof 105) (closedHeader [6, 7, 8, 9, 10] ++ [6, 7, 8, 9, 0]), []⟩ true 102 =
    some ([3, 4, 5], ServeEnd.corrupt) := by decide +kernel
-- a segment whose header rewrite failed: tainted, its file keeps a torn header, and while the
-- process lives a verifying reader passes through it (hasWriter)
def exZombie : List XOp :=
  [.op (.setRunId "a"), .op (.newAofWriter 100), .aofAppendHdrFail [1, 2, 3, 4, 5] 3, .op (.newAofWriter 105),
   .op (.aofAppend [6, 7])]
example : wfX (XDisk.init 20 0) exZombie := by decide
example : taintRun [] (XDisk.init 20 0) exZombie = [100, 100, 100] := by decide +kernel
example : serveLive (xfinal (XDisk.init 20 0) exZombie) true 100 = some ([1, 2, 3, 4, 5, 6, 7], ServeEnd.eof) := by
  decide +kernel
example : serve (xfinal (XDisk.init 20 0) exZombie).fs true 100 = some ([], ServeEnd.corrupt) := by decide +kernel
-- the first segment of a new writer is live: accepted by a verifying reader (99a0b20)
example : serveLive (xfinal (XDisk.init 32 0) [.op (.setRunId "a"), .op (.newAofWriter 100), .op (.aofAppend [1, 2])])
    true 100 = some ([1, 2], ServeEnd.eof) := by decide +kernel
-- the check, algebraically: a consistent replacement passes, version / reserved bytes are ignored
example : segVerifyOk (closedHeader [9, 9, 9] ++ [9, 9, 9]) = true := by decide +kernel
example : segVerifyOk ((7 :: (closedHeader [1, 2, 3]).tail.take 12 ++ [5, 5, 5]) ++ [1, 2, 3]) = true := by decide +kernel
-- a one-bit change in the data: refused (instance of the burst theorem)
example : segVerifyOk (closedHeader ([1, 2] ++ [3] ++ [4]) ++ ([1, 2] ++ [2] ++ [4])) = false :=
  burst_alteration_refused [1, 2] [3] [2] [4] rfl (by decide) (by decide) (by decide)

end GunYu.Props.C08
