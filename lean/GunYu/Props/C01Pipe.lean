/-
  C01 for the PIPELINED sender (`Model/SenderPipe.lean`), standalone target.

  * `pipe_wire_no_fail`: as long as no `Dispatch` failed, for EVERY window `W` and
    EVERY interleaving of the two goroutines (every latency schedule, replies ok or
    error, in any order the model allows) the connection carries exactly the first
    `next` batches of the blocking sender, each once, in order.
  * `pipe_wire_is_blocking_prefix`: hence the wire is `take k` of the blocking
    wire: every crash-prefix theorem of C01 / C02 / C07 / C09 (they are stated for
    `(run c initS evs).2.flatten.take k`) speaks about the pipelined run as well --
    what is executed is a prefix of the specification, positions cover what was
    executed; in particular NO request is on the wire twice (`C01:duplicated` cannot
    fire on a run without failed dispatches).
  * `pipe_window`: the sender is at most `W + 2` batches ahead of the receiver.
  * `pipe_after_error_reply`: an ERROR REPLY never causes a re-dispatch; after the
    receive goroutine has seen one, at most the one attempt that had already passed
    the `recvFailed` test puts a batch on the wire.
  * `pipe_wire_shape`: with failed dispatches (retry of the uncleared queue) the
    wire is the blocking wire with, before batch `i`, the partial writes
    `bs[i].take j` of its failed attempts: the ONLY requests that can be on the wire
    twice are those of a batch whose `Dispatch` failed, and they precede that
    batch's own checkpoint write (they lie above every position stored before).
-/
import GunYu.Model.SenderPipe
import GunYu.Proofs.SenderRun

namespace GunYu.Props.C01
open GunYu GunYu.Sender GunYu.SenderPipe

theorem take_succ_flatten (bs : List Batch) (n : Nat) (h : n < bs.length) :
    (bs.take (n + 1)).flatten = (bs.take n).flatten ++ bs.getD n [] := by
  rw [List.take_succ_eq_append_getElem h]
  simp only [List.flatten_append, List.flatten_cons, List.flatten_nil, List.append_nil, List.getD,
    List.getElem?_eq_getElem h, Option.getD_some]

/-- the invariant of a pipelined run -/
structure PipeInv (W : Nat) (bs : List Batch) (s : PSt) : Prop where
  wire : s.fails = 0 → s.wire = (bs.take s.next).flatten
  le1 : s.recvd ≤ s.next
  le2 : s.next ≤ bs.length
  win : s.next - s.recvd ≤ W + 2

theorem pstep_inv (W : Nat) (bs : List Batch) (s : PSt) (ev : PEv) (h : PipeInv W bs s) :
    PipeInv W bs (pstep W bs s ev) := by
  obtain ⟨h1, h2, h3, h4⟩ := h
  cases ev with
  | check =>
    simp only [pstep]
    split <;> exact ⟨h1, h2, h3, h4⟩
  | dispatch =>
    simp only [pstep]
    split
    · rename_i hc
      simp only [Bool.and_eq_true, decide_eq_true_eq] at hc
      obtain ⟨⟨⟨_, hlt⟩, hw⟩, _⟩ := hc
      refine ⟨?_, ?_, ?_, ?_⟩
      · intro hf
        show s.wire ++ bs.getD s.next [] = _
        rw [h1 hf, take_succ_flatten bs s.next hlt]
      · show s.recvd ≤ s.next + 1
        omega
      · show s.next + 1 ≤ bs.length
        omega
      · show s.next + 1 - s.recvd ≤ W + 2
        omega
    · exact ⟨h1, h2, h3, h4⟩
  | dispatchFail j =>
    simp only [pstep]
    split
    · refine ⟨?_, h2, h3, h4⟩
      intro hf
      have : s.fails + 1 = 0 := hf
      omega
    · exact ⟨h1, h2, h3, h4⟩
  | recv ok =>
    simp only [pstep]
    split
    · rename_i hc
      simp only [Bool.and_eq_true, decide_eq_true_eq] at hc
      cases ok
      · exact ⟨h1, h2, h3, h4⟩
      · refine ⟨h1, ?_, h3, ?_⟩
        · show s.recvd + 1 ≤ s.next
          omega
        · show s.next - (s.recvd + 1) ≤ W + 2
          omega
    · exact ⟨h1, h2, h3, h4⟩

theorem prun_inv (W : Nat) (bs : List Batch) (evs : List PEv) :
    ∀ s, PipeInv W bs s → PipeInv W bs (prun W bs s evs) := by
  induction evs with
  | nil => intro s h; exact h
  | cons ev rest ih => intro s h; exact ih _ (pstep_inv W bs s ev h)

theorem pipeInv_init (W : Nat) (bs : List Batch) : PipeInv W bs {} :=
  ⟨fun _ => rfl, Nat.le_refl _, Nat.zero_le _, Nat.zero_le _⟩

/-- no failed dispatch in the schedule -/
def NoDispatchFail (evs : List PEv) : Prop := ∀ e ∈ evs, ∀ j, e ≠ .dispatchFail j

theorem pstep_fails (W : Nat) (bs : List Batch) (s : PSt) (ev : PEv) (h : ∀ j, ev ≠ .dispatchFail j) :
    (pstep W bs s ev).fails = s.fails := by
  cases ev with
  | check => simp only [pstep]; split <;> rfl
  | dispatch => simp only [pstep]; split <;> rfl
  | dispatchFail j => exact absurd rfl (h j)
  | recv ok =>
    simp only [pstep]
    split
    · cases ok <;> rfl
    · rfl

theorem prun_fails (W : Nat) (bs : List Batch) (evs : List PEv) (hnf : NoDispatchFail evs) :
    ∀ s, (prun W bs s evs).fails = s.fails := by
  induction evs with
  | nil => intro s; rfl
  | cons ev rest ih =>
    intro s
    have := ih (fun e he => hnf e (List.mem_cons_of_mem _ he)) (pstep W bs s ev)
    simp only [prun, List.foldl_cons] at this ⊢
    rw [this]
    exact pstep_fails W bs s ev (hnf ev (List.mem_cons_self ..))

/-- **No failed dispatch: the wire is the first `next` batches of the blocking sender**,
    for every window and every interleaving of sender, receiver and target replies. -/
theorem pipe_wire_no_fail (W : Nat) (bs : List Batch) (evs : List PEv) (hnf : NoDispatchFail evs) :
    (prun W bs {} evs).wire = (bs.take (prun W bs {} evs).next).flatten :=
  (prun_inv W bs evs {} (pipeInv_init W bs)).wire (by rw [prun_fails W bs evs hnf])

/-- ... i.e. a crash prefix of the blocking wire: the theorems about
    `(run c initS evs).2.flatten.take k` hold for the pipelined run -/
theorem pipe_wire_is_blocking_prefix (W : Nat) (c : SCfg) (evs : List Ev) (pevs : List PEv)
    (hnf : NoDispatchFail pevs) :
    ∃ k, (prun W (run c initS evs).2 {} pevs).wire = (run c initS evs).2.flatten.take k := by
  refine ⟨((run c initS evs).2.take (prun W (run c initS evs).2 {} pevs).next).flatten.length, ?_⟩
  rw [pipe_wire_no_fail W _ pevs hnf]
  generalize (prun W (run c initS evs).2 {} pevs).next = n
  have h : (run c initS evs).2.flatten =
      ((run c initS evs).2.take n).flatten ++ ((run c initS evs).2.drop n).flatten := by
    rw [← List.flatten_append, List.take_append_drop]
  rw [h, List.take_left']
  rfl

/-- the sender is never more than `W + 2` batches ahead of the receive goroutine
    (`W` in the channel, one inside `Receive`, one written and waiting in the hand-off) -/
theorem pipe_window (W : Nat) (bs : List Batch) (evs : List PEv) :
    (prun W bs {} evs).next - (prun W bs {} evs).recvd ≤ W + 2 :=
  (prun_inv W bs evs {} (pipeInv_init W bs)).win

/-- **An error reply never causes a re-dispatch.** Once `recvFailed` is set, at most the
    attempt that had already passed the test dispatches (one batch, never a repeated one). -/
theorem pipe_after_error_reply (W : Nat) (bs : List Batch) (evs : List PEv) :
    ∀ s, s.failed = true →
      (prun W bs s evs).failed = true ∧
      (prun W bs s evs).next ≤ s.next + (if s.armed then 1 else 0) := by
  induction evs with
  | nil => intro s h; simp only [prun, List.foldl_nil]; exact ⟨h, by split <;> omega⟩
  | cons ev rest ih =>
    intro s h
    have key : (pstep W bs s ev).failed = true ∧
        (pstep W bs s ev).next + (if (pstep W bs s ev).armed then 1 else 0) ≤ s.next + (if s.armed then 1 else 0) := by
      cases ev with
      | check => constructor <;> simp [pstep, h]
      | dispatch =>
        simp only [pstep]
        split
        · rename_i hc
          simp only [Bool.and_eq_true, decide_eq_true_eq] at hc
          refine ⟨h, ?_⟩
          simp [hc.1.1.1]
        · exact ⟨h, Nat.le_refl _⟩
      | dispatchFail j =>
        simp only [pstep]
        split
        · refine ⟨h, ?_⟩
          show s.next + (if false = true then 1 else 0) ≤ _
          simp
        · exact ⟨h, Nat.le_refl _⟩
      | recv ok =>
        constructor <;> simp [pstep, h]
    obtain ⟨i1, i2⟩ := ih (pstep W bs s ev) key.1
    refine ⟨i1, ?_⟩
    have := key.2
    simp only [prun, List.foldl_cons] at i2 ⊢
    omega

/-- the wire of ANY pipelined run: the batches in order, each preceded by the partial
    writes of its failed dispatch attempts -/
inductive WireShape (bs : List Batch) : Nat → List Req → Prop
  | nil : WireShape bs 0 []
  | full (n : Nat) (w : List Req) : WireShape bs n w → n < bs.length → WireShape bs (n + 1) (w ++ bs.getD n [])
  | part (n : Nat) (w : List Req) (j : Nat) : WireShape bs n w → n < bs.length →
      WireShape bs n (w ++ (bs.getD n []).take j)

theorem pstep_shape (W : Nat) (bs : List Batch) (s : PSt) (ev : PEv) (h : WireShape bs s.next s.wire) :
    WireShape bs (pstep W bs s ev).next (pstep W bs s ev).wire := by
  cases ev with
  | check => simp only [pstep]; split <;> exact h
  | dispatch =>
    simp only [pstep]
    split
    · rename_i hc
      simp only [Bool.and_eq_true, decide_eq_true_eq] at hc
      exact WireShape.full _ _ h hc.1.1.2
    · exact h
  | dispatchFail j =>
    simp only [pstep]
    split
    · rename_i hc
      simp only [Bool.and_eq_true, decide_eq_true_eq] at hc
      exact WireShape.part _ _ j h hc.1.2
    · exact h
  | recv ok =>
    simp only [pstep]
    split
    · cases ok <;> exact h
    · exact h

/-- **Retry of the uncleared queue**: whatever the schedule, the only requests that can be
    on the wire twice are the partial writes `bs[i].take j` of a FAILED dispatch of batch
    `i`, directly before batch `i` itself (hence before `i`'s own checkpoint write). -/
theorem pipe_wire_shape (W : Nat) (bs : List Batch) (evs : List PEv) :
    WireShape bs (prun W bs {} evs).next (prun W bs {} evs).wire := by
  have : ∀ s, WireShape bs s.next s.wire → WireShape bs (prun W bs s evs).next (prun W bs s evs).wire := by
    induction evs with
    | nil => intro s h; exact h
    | cons ev rest ih => intro s h; exact ih _ (pstep_shape W bs s ev h)
  exact this {} WireShape.nil

/-! ### Non-vacuity: three batches, window 2, the target slow; an error reply; a failed dispatch -/

def pbs : List Batch := [[.multi, .cmd [115] [] 10, .exec], [.cmd [116] [] 20], [.cmd [117] [] 30], [.cmd [118] [] 40]]

/-- sender three batches ahead (W = 2 queued... one in Receive), the fourth hand-off blocks until a reply -/
example : (prun 2 pbs {} [.check, .dispatch, .check, .dispatch, .check, .dispatch, .check, .dispatch,
    .check, .dispatch]).next = 4 := by decide
example : (prun 1 pbs {} [.check, .dispatch, .check, .dispatch, .check, .dispatch, .check, .dispatch]).next = 3 := by
  decide
example : (prun 1 pbs {} [.check, .dispatch, .check, .dispatch, .check, .dispatch, .recv true, .check, .dispatch]).wire
    = pbs.flatten := by decide
/-- an error reply: the armed attempt still dispatches, nothing afterwards -/
example : (prun 2 pbs {} [.check, .dispatch, .check, .recv false, .dispatch, .check, .dispatch]).next = 2 := by decide
/-- a failed dispatch after one request: the retry writes the batch again -/
example : (prun 2 pbs {} [.check, .dispatch, .check, .dispatchFail 1, .check, .dispatch]).wire =
    [.multi, .cmd [115] [] 10, .exec, .cmd [116] [] 20, .cmd [116] [] 20] := by decide
example : NoDispatchFail [PEv.check, .dispatch, .recv true] := by
  intro e he j; simp at he; rcases he with rfl | rfl | rfl <;> simp

end GunYu.Props.C01
