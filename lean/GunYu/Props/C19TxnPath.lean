/-
  C19, session 5 — the TRANSACTIONAL path of sendCmdsBatch through Batch / batch2.

  In transactional mode sendFuncOnce brackets the queue with Put("multi") … Put("exec"). The cluster client
  sends neither (chooseNodeWithCmdAndKeys returns no node for them; Put drops such a command): all they do is
  switch `cluster.transactionEnable` on, under which Put refuses a SECOND node batch with ErrCrossSlots
  (ClusterSender.put, txn = true). So there is no atomicity - but there is the one-node constraint, and this
  file states what it gives for every queue: an acknowledged transactional flush went, whole and in queue
  order, into the node batch of exactly ONE node; a queue that touches two nodes is reported, never split.
-/
import GunYu.Props.C19Exec
import GunYu.Props.C19Flush

namespace GunYu.Props.C19
open GunYu.ClusterSender GunYu.ClusterFlush

/-- ONE NODE: an acknowledged sender-transactional flush (blocking or pipelined) has exactly one node batch and
    every command of the queue is in it -/
theorem txn_flush_ack_one_node (pipe : Bool) (evs : List PutEv) (hne : evs ≠ [])
    (h : flushAck codeGuards true pipe evs = true) :
    ∃ nd, (puts true {} evs).nodes = [nd] ∧ ∀ e ∈ evs, e = .routed nd := by
  have hall := flush_ack_all_routed_code true pipe evs h
  have hlen : (puts true {} evs).nodes.length ≤ 1 := txn_batch_one_node evs {} (by simp)
  cases evs with
  | nil => exact absurd rfl hne
  | cons e0 es =>
    obtain ⟨nd0, _, hmem⟩ := hall e0 (List.mem_cons_self ..)
    have hnodes : (puts true {} (e0 :: es)).nodes = [nd0] := by
      cases hn : (puts true {} (e0 :: es)).nodes with
      | nil => rw [hn] at hmem; cases hmem
      | cons a t =>
        rw [hn] at hlen hmem
        cases t with
        | nil =>
          rcases List.mem_cons.mp hmem with rfl | hm
          · rfl
          · cases hm
        | cons b t' => simp at hlen
    refine ⟨nd0, hnodes, ?_⟩
    intro e he
    obtain ⟨nd, rfl, hm⟩ := hall e he
    rw [hnodes] at hm
    rw [List.mem_singleton.mp hm]

/-- … and a transactional queue that touches two nodes is REPORTED (the sender: ErrBreak), never sent in two parts -/
theorem txn_flush_two_nodes_reported (pipe : Bool) (evs : List PutEv) (n1 n2 : Nat)
    (h1 : PutEv.routed n1 ∈ evs) (h2 : PutEv.routed n2 ∈ evs) (hne : n1 ≠ n2) :
    flushAck codeGuards true pipe evs = false := by
  cases hh : flushAck codeGuards true pipe evs with
  | false => rfl
  | true =>
    exfalso
    obtain ⟨nd, _, hall⟩ := txn_flush_ack_one_node pipe evs (by intro h0; rw [h0] at h1; cases h1) hh
    have e1 := hall _ h1
    have e2 := hall _ h2
    injection e1 with e1
    injection e2 with e2
    exact hne (e1.trans e2.symm)

/-- the plain path has no such constraint: a flush over two nodes is acknowledged (node batches run concurrently) -/
example : flushAck goodGuards false false [.routed 0, .routed 1] = true := by decide
example : flushAck goodGuards true false [.routed 2, .routed 2, .routed 2] = true := by decide
example : flushAck goodGuards true true [.routed 2, .routed 0] = false := by decide

end GunYu.Props.C19
