/-
  C18 — the slot-grouping decision of `buildBisyncReplayUnitWithMode` REGENERATED
  from /repo (session 5).

  `Gen/FnBisyncUnitBuild.lean` is written on every run by harness/extract/c18slot.go
  from syncer/bisync.go: the guards (in source order), the assignments to the
  three loop variables `(slot, slotKnown, keysSeen)`, the error returns and the
  Slot / SlotTag / Commands of the returned literal. The theorems below say that
  what the code says NOW equals the hand model of Model/BisyncUnit.lean
  (`keysLoop`, `cmdsLoop`, `initSt`, `buildUnit`) on which the C18 theorems rest —
  for all slot modes, all key lists, all starting indexes and states, all command
  lists and all resolvers. An edit of the function has to keep these proofs alive.

  Shape of the resolver: the generated functions take the resolver's answer
  `(keys, ok, err)` as the triple `(err != nil, ok, keys)`, the model as `Res`.
  `resOf` reads a triple in the order of the source's three tests (err first,
  then ok); `tripleOf` is the embedding of `Res`; `resOf ∘ tripleOfRes = id`.
  The `_all` theorems hold for EVERY triple-valued resolver (also `err != nil`
  together with `ok = true`), the un-suffixed ones are their instances on `Res`.
  No hypotheses.
-/
import GunYu.Gen.FnBisyncUnitBuild
import GunYu.Model.BisyncUnit

namespace GunYu.Props.C18
open GunYu GunYu.BisyncUnit

/-- the model's `Res` as the triple `(err != nil, ok, keys)` -/
def tripleOfRes : Res → Bool × Bool × List Bytes
  | .err => (true, false, [])
  | .notOk => (false, false, [])
  | .ok ks => (false, true, ks)

def tripleOf (r : Resolver) : Bytes → List Bytes → Bool × Bool × List Bytes :=
  fun c a => tripleOfRes (r c a)

/-- a triple read as the source reads it: `err != nil` first, then `!ok` -/
def resOf : Bool × Bool × List Bytes → Res
  | (true, _, _) => .err
  | (false, false, _) => .notOk
  | (false, true, ks) => .ok ks

theorem resOf_tripleOfRes (x : Res) : resOf (tripleOfRes x) = x := by
  cases x <;> rfl

/-- one round of the key loop = the model's loop on a one-key list -/
theorem gen_keyStep_eq_model (m : SlotMode) (idx : Nat) (key : Bytes) (st : LoopSt) :
    Gen.FnUnit.keyStep m idx key st = BisyncUnit.keysLoop m idx [key] st := by
  obtain ⟨slot, known, seen⟩ := st
  simp only [Gen.FnUnit.keyStep, BisyncUnit.keysLoop]

/-- the key loop, every index, key list and state -/
theorem gen_keysLoop_eq_model (m : SlotMode) (idx : Nat) (keys : List Bytes) (st : LoopSt) :
    Gen.FnUnit.keysLoop m idx keys st = BisyncUnit.keysLoop m idx keys st := by
  induction keys generalizing idx st with
  | nil => simp [Gen.FnUnit.keysLoop, BisyncUnit.keysLoop]
  | cons k ks ih =>
    obtain ⟨slot, known, seen⟩ := st
    simp only [Gen.FnUnit.keysLoop, Gen.FnUnit.keyStep, BisyncUnit.keysLoop]
    by_cases h1 : (!known && idx == 0) = true
    · simp only [h1, if_true, ih]
    · by_cases h2 : (m.forceSlot.isNone && !m.allowCrossSlot && Slot.keyToSlot k != slot) = true
      · simp [h1, h2]
      · simp [h1, h2, ih]

/-- the command loop for every triple-valued resolver -/
theorem gen_cmdsLoop_eq_model_all (m : SlotMode) (r : Bytes → List Bytes → Bool × Bool × List Bytes)
    (cmds : List Cmd) (st : LoopSt) :
    Gen.FnUnit.cmdsLoop m r cmds st = BisyncUnit.cmdsLoop m (fun c a => resOf (r c a)) cmds st := by
  induction cmds generalizing st with
  | nil => simp [Gen.FnUnit.cmdsLoop, BisyncUnit.cmdsLoop]
  | cons c cs ih =>
    obtain ⟨slot, known, seen⟩ := st
    simp only [Gen.FnUnit.cmdsLoop, BisyncUnit.cmdsLoop, Gen.FnUnit.cmdStep]
    rcases h : r c.name c.args with ⟨e, ok, keys⟩
    cases e <;> cases ok <;> cases keys <;> simp [resOf, gen_keysLoop_eq_model, ih]
    rename_i k ks
    cases keysLoop m 0 (k :: ks) (slot, known, seen) <;> rfl

/-- the command loop on the model's resolvers -/
theorem gen_cmdsLoop_eq_model (m : SlotMode) (r : Resolver) (cmds : List Cmd) (st : LoopSt) :
    Gen.FnUnit.cmdsLoop m (tripleOf r) cmds st = BisyncUnit.cmdsLoop m r cmds st := by
  rw [gen_cmdsLoop_eq_model_all]
  simp [tripleOf, resOf_tripleOfRes]

theorem gen_initSt_eq_model (m : SlotMode) : Gen.FnUnit.initSt m = BisyncUnit.initSt m := by
  obtain ⟨f, a⟩ := m
  cases f <;> rfl

/-- the whole function for every triple-valued resolver: same error or the same unit
    (slot, slot tag, commands) -/
theorem gen_buildUnit_eq_model_all (m : SlotMode) (r : Bytes → List Bytes → Bool × Bool × List Bytes)
    (cmds : List Cmd) :
    Gen.FnUnit.build m r cmds = BisyncUnit.buildUnit m (fun c a => resOf (r c a)) cmds := by
  simp only [Gen.FnUnit.build, BisyncUnit.buildUnit, gen_cmdsLoop_eq_model_all, gen_initSt_eq_model]
  cases cmds with
  | nil => simp
  | cons c cs =>
    simp only [List.length_cons, List.isEmpty_cons]
    cases cmdsLoop m (fun c a => resOf (r c a)) (c :: cs) (BisyncUnit.initSt m) with
    | error e => simp
    | ok st =>
      obtain ⟨slot, known, seen⟩ := st
      simp

/-- the whole function on the model's resolvers, plain equality of `Except BuildErr RUnit` -/
theorem gen_buildUnit_eq_model (m : SlotMode) (r : Resolver) (cmds : List Cmd) :
    Gen.FnUnit.build m (tripleOf r) cmds = BisyncUnit.buildUnit m r cmds := by
  rw [gen_buildUnit_eq_model_all]
  simp [tripleOf, resOf_tripleOfRes]

/-! ### non-vacuity: concrete runs of the GENERATED definitions -/

/-- `SET a 1` / `SET b 1`: the resolver of the examples names the first argument -/
def exResolver : Bytes → List Bytes → Bool × Bool × List Bytes :=
  fun _ args => match args with
    | [] => (false, false, [])
    | k :: _ => (false, true, [k])

def exSetA : Cmd := ⟨[115,101,116], [[97], [49]]⟩
def exSetB : Cmd := ⟨[115,101,116], [[98], [49]]⟩

-- keyStep: the first key of a unit fixes the slot; a later key on another slot is refused in cluster mode
example : Gen.FnUnit.keyStep clusterMode 0 [97] (0, false, 0) = .ok (Slot.keyToSlot [97], true, 1) := by
  decide +kernel
example : Gen.FnUnit.keyStep clusterMode 0 [98] (Slot.keyToSlot [97], true, 1) = .error .crossSlot := by
  decide +kernel
example : Gen.FnUnit.keyStep standaloneMode 0 [98] (0, true, 1) = .ok (0, true, 2) := by
  decide +kernel

-- keysLoop: two keys on different slots
example : Gen.FnUnit.keysLoop clusterMode 0 [[97], [98]] (0, false, 0) = .error .crossSlot := by
  decide +kernel
example : Gen.FnUnit.keysLoop clusterMode 0 [[97], [97]] (0, false, 0) = .ok (Slot.keyToSlot [97], true, 2) := by
  decide +kernel

-- cmdsLoop: the order of the three tests (err before ok before the key count)
example : Gen.FnUnit.cmdsLoop clusterMode (fun _ _ => (true, true, [[97]])) [exSetA] (0, false, 0) = .error .resolve := by
  decide +kernel
example : Gen.FnUnit.cmdsLoop clusterMode (fun _ _ => (false, false, [])) [exSetA] (0, false, 0) = .error .notRoutable := by
  decide +kernel
example : Gen.FnUnit.cmdsLoop clusterMode (fun _ _ => (false, true, [])) [exSetA] (0, false, 0) = .error .noKeys := by
  decide +kernel
example : Gen.FnUnit.cmdsLoop clusterMode exResolver [exSetA, exSetB] (0, false, 0) = .error .crossSlot := by
  decide +kernel

-- build: two SETs on different slots → crossSlot in cluster mode, one unit on slot 0 in standalone mode
example : Gen.FnUnit.build clusterMode exResolver [exSetA, exSetB] = .error .crossSlot := by
  decide +kernel
example : Gen.FnUnit.build clusterMode exResolver [] = .error .empty := by
  decide +kernel
example : (Gen.FnUnit.build standaloneMode exResolver [exSetA, exSetB]).toOption.map (·.slot) = some 0 := by
  decide +kernel
example : (Gen.FnUnit.build clusterMode exResolver [exSetA, exSetA]).toOption.map (fun u => (u.slot, u.cmds.length))
    = some (Slot.keyToSlot [97], 2) := by
  decide +kernel

end GunYu.Props.C18
