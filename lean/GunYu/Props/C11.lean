/-
  C11 — Key-to-slot computation agrees with Redis Cluster for every key.

  Property theorems only (helper lemmas: Proofs/Crc16.lean, Proofs/SlotScan.lean).
  Quantifier: all byte strings (any number and arrangement of braces, empty
  tags, non-UTF-8 bytes, any length).
-/
import GunYu.Model.Slot
import GunYu.Proofs.Crc16
import GunYu.Proofs.SlotScan

namespace GunYu.Props.C11
open GunYu GunYu.Slot

/-- The table-driven CRC16 of pkg/digest (over the table regenerated from the Go
    source on every run) is CRC16/XMODEM, for every byte string. -/
theorem crc16Tab_eq_xmodem (bs : Bytes) : crc16Tab bs = crc16Spec bs :=
  crc16Tab_eq_spec_from bs 0#16

/-- `redis.KeyToSlot` (filters, bisync units, slot tags) equals HASH_SLOT. -/
theorem keyToSlot_eq_spec (k : Bytes) : keyToSlot k = hashSlotSpec k := by
  have h := ktsHashed_eq_spec k
  unfold ktsHashed at h
  unfold keyToSlot hashSlotSpec
  simp only [mask14, crc16Tab_eq_xmodem]
  rw [← h]
  split <;> rfl

/-- cluster client `hash` (routing, txn batcher) equals HASH_SLOT. -/
theorem clusterHash_eq_spec (k : Bytes) : clusterHash k = hashSlotSpec k := by
  have h := clusterHashed_eq_spec k
  unfold clusterHashed at h
  unfold clusterHash hashSlotSpec
  simp only [mask14', crc16Tab_eq_xmodem]
  rw [← h]
  simp only
  split
  · rfl
  · split <;> rfl

/-- the two implementations in the repository agree on every key -/
theorem keyToSlot_eq_clusterHash (k : Bytes) : keyToSlot k = clusterHash k := by
  rw [keyToSlot_eq_spec, clusterHash_eq_spec]

/-- every slot either implementation returns is in range -/
theorem slots_in_range (k : Bytes) : keyToSlot k < 16384 ∧ clusterHash k < 16384 := by
  rw [keyToSlot_eq_spec, clusterHash_eq_spec]
  exact ⟨Nat.mod_lt _ (by decide), Nat.mod_lt _ (by decide)⟩

/-! ### The specification in the property's own words

`hashTagSpec` is a small program; the four theorems below say what it computes
declaratively, and `hashTag_cases` shows that they cover every byte string:
the bytes hashed are those between the FIRST `{` and the FIRST `}` after it when
there is at least one byte between them, otherwise the whole key. -/

theorem hashTagSpec_nobrace (k : Bytes) (h : lbrace ∉ k) : hashTagSpec k = k := by
  simp [hashTagSpec, splitFirst_none lbrace k h]

theorem hashTagSpec_noclose (pre rest : Bytes) (h1 : lbrace ∉ pre) (h2 : rbrace ∉ rest) :
    hashTagSpec (pre ++ lbrace :: rest) = pre ++ lbrace :: rest := by
  simp [hashTagSpec, splitFirst_at lbrace pre rest h1, splitFirst_none rbrace rest h2]

theorem hashTagSpec_emptytag (pre post : Bytes) (h1 : lbrace ∉ pre) :
    hashTagSpec (pre ++ lbrace :: rbrace :: post) = pre ++ lbrace :: rbrace :: post := by
  have := splitFirst_at rbrace [] post (by simp)
  simp only [List.nil_append] at this
  simp [hashTagSpec, splitFirst_at lbrace pre (rbrace :: post) h1, this]

theorem hashTagSpec_tag (pre tag post : Bytes) (h1 : lbrace ∉ pre) (h2 : rbrace ∉ tag) (h3 : tag ≠ []) :
    hashTagSpec (pre ++ lbrace :: (tag ++ rbrace :: post)) = tag := by
  simp [hashTagSpec, splitFirst_at lbrace pre _ h1, splitFirst_at rbrace tag post h2, h3]

/-- every byte string falls under one of the four cases above -/
theorem hashTag_cases (k : Bytes) :
    lbrace ∉ k ∨
    (∃ pre rest, k = pre ++ lbrace :: rest ∧ lbrace ∉ pre ∧ rbrace ∉ rest) ∨
    (∃ pre post, k = pre ++ lbrace :: rbrace :: post ∧ lbrace ∉ pre) ∨
    (∃ pre tag post, k = pre ++ lbrace :: (tag ++ rbrace :: post) ∧
      lbrace ∉ pre ∧ rbrace ∉ tag ∧ tag ≠ []) := by
  by_cases h : lbrace ∈ k
  · right
    obtain ⟨pre, rest, hk, hpre⟩ := List.eq_append_cons_of_mem h
    by_cases h2 : rbrace ∈ rest
    · right
      obtain ⟨tag, post, hr, htag⟩ := List.eq_append_cons_of_mem h2
      by_cases h3 : tag = []
      · left; exact ⟨pre, post, by rw [hk, hr, h3]; rfl, hpre⟩
      · right; exact ⟨pre, tag, post, by rw [hk, hr], hpre, htag, h3⟩
    · left; exact ⟨pre, rest, hk, hpre, h2⟩
  · left; exact h

/-- hence, in the property's words, for the implementation: a key with a
    non-empty first tag is hashed by that tag alone -/
theorem keyToSlot_tag (pre tag post : Bytes) (h1 : lbrace ∉ pre) (h2 : rbrace ∉ tag) (h3 : tag ≠ []) :
    keyToSlot (pre ++ lbrace :: (tag ++ rbrace :: post)) = (crc16Spec tag).toNat % 16384 ∧
    clusterHash (pre ++ lbrace :: (tag ++ rbrace :: post)) = (crc16Spec tag).toNat % 16384 := by
  rw [keyToSlot_eq_spec, clusterHash_eq_spec]
  simp only [hashSlotSpec, hashTagSpec_tag pre tag post h1 h2 h3, and_self]

/-! Non-vacuity / sanity: the spec on the classic check value and on the brace
    arrangements that distinguish "first {…}" from other readings. -/

-- "123456789"
example : (crc16Spec [49,50,51,52,53,54,55,56,57]).toNat = 0x31C3 := by decide +kernel
-- "{a}{b}" ↦ "a"
example : hashTagSpec [123,97,125,123,98,125] = [97] := by decide
-- "{}{b}" ↦ whole key
example : hashTagSpec [123,125,123,98,125] = [123,125,123,98,125] := by decide
-- "{a{b}" ↦ "a{b"
example : hashTagSpec [123,97,123,98,125] = [97,123,98] := by decide
-- "x{a}y" ↦ "a"
example : hashTagSpec [120,123,97,125,121] = [97] := by decide
-- non-UTF-8 byte, empty tag
example : hashTagSpec [0xff, 0x7b, 0x7d] = [0xff, 0x7b, 0x7d] := by decide
example : hashSlotSpec [123,97,125,123,98,125] = 15495 := by decide +kernel
example : keyToSlot [123,97,125,123,98,125] = 15495 := by decide +kernel
example : clusterHash [123,97,125,123,98,125] = 15495 := by decide +kernel

end GunYu.Props.C11
