/-
  C11 — Key-to-slot computation agrees with Redis Cluster for every key.

  Property theorems only (helper lemmas: Proofs/Crc16.lean, Proofs/SlotScan.lean).
  Quantifier: all byte strings (any number and arrangement of braces, empty
  tags, non-UTF-8 bytes, any length).
-/
import GunYu.Model.Slot
import GunYu.Proofs.Crc16
import GunYu.Proofs.SlotScan

namespace GunYu.Props.C11
open GunYu GunYu.Slot

/-- The table-driven CRC16 of pkg/digest (over the table regenerated from the Go
    source on every run) is CRC16/XMODEM, for every byte string. -/
theorem crc16Tab_eq_xmodem (bs : Bytes) : crc16Tab bs = crc16Spec bs :=
  crc16Tab_eq_spec_from bs 0#16

/-- `redis.KeyToSlot` (filters, bisync units, slot tags) equals HASH_SLOT. -/
theorem keyToSlot_eq_spec (k : Bytes) : keyToSlot k = hashSlotSpec k := by
  have h := ktsHashed_eq_spec k
  unfold ktsHashed at h
  unfold keyToSlot hashSlotSpec
  simp only [mask14, crc16Tab_eq_xmodem]
  rw [← h]
  split <;> rfl

/-- cluster client `hash` (routing, txn batcher) equals HASH_SLOT. -/
theorem clusterHash_eq_spec (k : Bytes) : clusterHash k = hashSlotSpec k := by
  have h := clusterHashed_eq_spec k
  unfold clusterHashed at h
  unfold clusterHash hashSlotSpec
  simp only [mask14', crc16Tab_eq_xmodem]
  rw [← h]
  simp only
  split
  · rfl
  · split <;> rfl

/-- the two implementations in the repository agree on every key -/
theorem keyToSlot_eq_clusterHash (k : Bytes) : keyToSlot k = clusterHash k := by
  rw [keyToSlot_eq_spec, clusterHash_eq_spec]

/-- every slot is in range -/
theorem hashSlotSpec_lt (k : Bytes) : hashSlotSpec k < 16384 :=
  Nat.mod_lt _ (by decide)

/-! Non-vacuity / sanity: the spec on the classic check value and on the brace
    arrangements that distinguish "first {…}" from other readings. -/

-- "123456789"
example : (crc16Spec [49,50,51,52,53,54,55,56,57]).toNat = 0x31C3 := by decide +kernel
-- "{a}{b}" ↦ "a"
example : hashTagSpec [123,97,125,123,98,125] = [97] := by decide
-- "{}{b}" ↦ whole key
example : hashTagSpec [123,125,123,98,125] = [123,125,123,98,125] := by decide
-- "{a{b}" ↦ "a{b"
example : hashTagSpec [123,97,123,98,125] = [97,123,98] := by decide
-- "x{a}y" ↦ "a"
example : hashTagSpec [120,123,97,125,121] = [97] := by decide
-- non-UTF-8 byte, empty tag
example : hashTagSpec [0xff, 0x7b, 0x7d] = [0xff, 0x7b, 0x7d] := by decide
example : hashSlotSpec [123,97,125,123,98,125] = 15495 := by decide +kernel
example : keyToSlot [123,97,125,123,98,125] = 15495 := by decide +kernel
example : clusterHash [123,97,125,123,98,125] = 15495 := by decide +kernel

end GunYu.Props.C11
